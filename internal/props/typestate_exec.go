package props

// E9 typestate engine, part 3: function invocation and statement execution.

import (
	"go/ast"
	"go/token"
	"go/types"
	"reflect"
	"strconv"
	"strings"

	"golang.org/x/tools/go/types/typeutil"
)

type tsFlow uint8

const (
	fNormal tsFlow = iota
	fReturn
	fBreak
	fContinue
	fPanic
)

type tsOut struct {
	cf  *tsConf
	fl  tsFlow
	lbl string
	ret tsVal
	pn  *tsPanic
}

func dedupOuts(outs []tsOut) []tsOut {
	if len(outs) < 2 {
		return outs
	}
	seen := map[string]bool{}
	var res []tsOut
	for _, o := range outs {
		var k string
		if o.fl == fPanic {
			k = "P" + stKey(o.cf.st) + strconv.Itoa(int(o.pn.pos)) + boolStr(o.pn.determined) + stackKey(o.pn.stack)
		} else {
			k = strconv.Itoa(int(o.fl)) + o.lbl + "|" + o.ret.key() + "|" + o.cf.key()
		}
		if !seen[k] {
			seen[k] = true
			res = append(res, o)
		}
	}
	return res
}

func boolStr(b bool) string {
	if b {
		return "1"
	}
	return "0"
}

func stackKey(st []tsFrame) string {
	var sb strings.Builder
	for _, f := range st {
		sb.WriteString(f.name)
		sb.WriteByte('@')
		sb.WriteString(strconv.Itoa(int(f.callPos)))
	}
	return sb.String()
}

// invoke interprets a closure or declared function on the given arguments.
func (e *tsEngine) invoke(cl *tsClosure, args []tsVal, cf *tsConf, callPos token.Pos) []tsEv {
	if len(e.stack) > 40 {
		e.unsupported(nil, "call depth exceeded (recursion?)")
		return nil
	}
	var ftype *ast.FuncType
	var body *ast.BlockStmt
	var recv *ast.FieldList
	env := map[types.Object]tsVal{}
	frame := tsFrame{name: cl.name, callPos: callPos}
	memoKey := ""
	if cl.fn != nil {
		decl := e.decls[cl.fn]
		if decl == nil {
			return nil
		}
		ftype, body, recv = decl.Type, decl.Body, decl.Recv
		frame.fn, frame.decl = cl.fn, decl
		e.inlined[cl.fn] = true
		hasFunc := false
		var sb strings.Builder
		for _, a := range args {
			if a.k == kFunc {
				hasFunc = true
			}
			a.writeKey(&sb)
			sb.WriteByte(',')
		}
		if !hasFunc && !e.ctorPhase {
			memoKey = cl.fn.FullName() + "|" + stKey(cf.st) + "|" + sb.String()
			if sums, ok := e.memo[memoKey]; ok {
				return e.replay(sums, cf, frame)
			}
		}
	} else {
		ftype, body = cl.lit.Type, cl.lit.Body
		frame.lit = true
		for k, v := range cl.env {
			env[k] = v
		}
	}
	// bind receiver and parameters
	if recv != nil {
		for _, f := range recv.List {
			for _, n := range f.Names {
				env[e.info.Defs[n]] = tsVal{k: kNonNil}
			}
		}
	}
	i := 0
	for _, f := range ftype.Params.List {
		if len(f.Names) == 0 {
			i++
			continue
		}
		for _, n := range f.Names {
			v := tsTop
			if i < len(args) {
				v = args[i]
			}
			if o := e.info.Defs[n]; o != nil && n.Name != "_" {
				env[o] = v
			}
			i++
		}
	}
	var results []types.Object
	if ftype.Results != nil {
		for _, f := range ftype.Results.List {
			for _, n := range f.Names {
				if o := e.info.Defs[n]; o != nil {
					env[o] = zeroVal(o.Type())
					results = append(results, o)
				}
			}
		}
	}
	start := &tsConf{eng: e, st: cf.st, env: env, trace: cf.trace}
	depth := len(e.stack)
	e.stack = append(e.stack, frame)
	base := map[types.Object]bool{}
	for _, o := range results {
		base[o] = true
	}
	ast.Inspect(body, func(n ast.Node) bool {
		if d, ok := n.(*ast.DeferStmt); ok {
			for o := range e.usesOf(d) {
				base[o] = true
			}
		}
		return true
	})
	e.live = append(e.live, base)
	outs := e.execBlock(body.List, []*tsConf{start})
	e.live = e.live[:len(e.live)-1]
	// run deferred calls on normal exits
	var final []tsOut
	for _, o := range outs {
		if o.fl == fPanic {
			final = append(final, o)
			continue
		}
		if o.fl == fNormal {
			o.fl = fReturn
			o.ret = e.namedResults(results, o.cf)
		} else if o.ret.k == kTop && o.lbl == "bare" {
			o.ret = e.namedResults(results, o.cf)
		}
		cur := []tsOut{o}
		for d := len(o.cf.defers) - 1; d >= 0; d-- {
			ds := o.cf.defers[d]
			var next []tsOut
			for _, c := range cur {
				if c.fl == fPanic {
					next = append(next, c)
					continue
				}
				c2 := c.cf.clone()
				c2.nd = 0
				for _, ev := range e.eval(ds.Call, c2) {
					if ev.pn != nil {
						next = append(next, tsOut{cf: ev.cf, fl: fPanic, pn: ev.pn})
					} else {
						next = append(next, tsOut{cf: ev.cf, fl: fReturn, ret: c.ret})
					}
				}
			}
			cur = next
		}
		final = append(final, cur...)
	}
	e.stack = e.stack[:len(e.stack)-1]
	final = dedupOuts(final)
	var evs []tsEv
	var sums []tsSummary
	for _, o := range final {
		back := cf.clone()
		back.st = o.cf.st
		back.trace = o.cf.trace
		if o.fl == fPanic {
			evs = append(evs, tsEv{cf: back, pn: o.pn})
			sums = append(sums, tsSummary{st: o.cf.st, pn: o.pn, suffix: append([]tsFrame(nil), o.pn.stack[min(depth+1, len(o.pn.stack)):]...), trace: o.cf.trace.list(cf.trace)})
			continue
		}
		v := o.ret
		if o.cf.ndEver {
			v = markND(v)
		}
		if o.cf.trEver {
			v.tr = true
		}
		evs = append(evs, tsEv{cf: back, val: v})
		sums = append(sums, tsSummary{st: o.cf.st, val: v, trace: o.cf.trace.list(cf.trace)})
	}
	if memoKey != "" {
		e.memo[memoKey] = sums
	}
	return evs
}

func markND(v tsVal) tsVal {
	v.nd = true
	if v.k == kTuple {
		l := make([]tsVal, len(v.l))
		for i, x := range v.l {
			x.nd = true
			l[i] = x
		}
		v.l = l
	}
	return v
}

func (e *tsEngine) replay(sums []tsSummary, cf *tsConf, frame tsFrame) []tsEv {
	var evs []tsEv
	for _, s := range sums {
		back := cf.clone()
		back.st = s.st
		for _, t := range s.trace {
			back.trace = &tsTrace{back.trace, t}
		}
		if s.pn != nil {
			// re-root the recorded stack under the current caller stack
			pn := *s.pn
			st := append([]tsFrame(nil), e.stack...)
			st = append(st, frame)
			st = append(st, s.suffix...)
			pn.stack = st
			evs = append(evs, tsEv{cf: back, pn: &pn})
			continue
		}
		evs = append(evs, tsEv{cf: back, val: s.val})
	}
	return evs
}

func (e *tsEngine) namedResults(results []types.Object, cf *tsConf) tsVal {
	if len(results) == 0 {
		return tsTop
	}
	if len(results) == 1 {
		return cf.env[results[0]]
	}
	t := tsVal{k: kTuple}
	for _, o := range results {
		t.l = append(t.l, cf.env[o])
	}
	return t
}

func (e *tsEngine) execBlock(list []ast.Stmt, cfs []*tsConf) []tsOut {
	cur := make([]tsOut, 0, len(cfs))
	for _, c := range cfs {
		cur = append(cur, tsOut{cf: c})
	}
	var done []tsOut
	parent := e.live[len(e.live)-1]
	for i, s := range list {
		var next []tsOut
		liveAfter := parent
		if i+1 < len(list) {
			liveAfter = e.union(parent, e.usesOfList(list[i+1:]))
		}
		e.live = append(e.live, liveAfter)
		for _, o := range cur {
			next = append(next, e.execStmt(s, o.cf)...)
		}
		e.live = e.live[:len(e.live)-1]
		for j := range next {
			if next[j].fl == fNormal {
				next[j].cf = prune(next[j].cf, liveAfter)
			}
		}
		next = dedupOuts(next)
		cur = cur[:0]
		for _, o := range next {
			if o.fl == fNormal {
				cur = append(cur, o)
			} else {
				done = append(done, o)
			}
		}
		if len(cur) == 0 {
			break
		}
	}
	return append(done, cur...)
}

func normal(cf *tsConf) []tsOut { return []tsOut{{cf: cf}} }

// evs2outs turns expression outcomes into statement outcomes, applying f to the normal ones.
func evs2outs(evs []tsEv, f func(tsEv) []tsOut) []tsOut {
	var out []tsOut
	for _, ev := range evs {
		if ev.pn != nil {
			out = append(out, tsOut{cf: ev.cf, fl: fPanic, pn: ev.pn})
			continue
		}
		out = append(out, f(ev)...)
	}
	return out
}

// branch enters a branch whose decision had the given provenance.
func enter(c tsCond) *tsConf {
	cf := c.cf.clone()
	if c.nd {
		cf.nd++
		cf.ndEver = true
	}
	if c.tr {
		cf.trEver = true
	}
	return cf
}

// leave restores the nesting counter on outcomes that continue after the statement.
func leave(outs []tsOut, saved int) []tsOut {
	for i := range outs {
		if outs[i].fl == fNormal && outs[i].cf.nd != saved {
			c := outs[i].cf.clone()
			c.nd = saved
			outs[i].cf = c
		}
	}
	return outs
}

func (e *tsEngine) execStmt(s ast.Stmt, cf *tsConf) []tsOut {
	if !e.tick(s) {
		return nil
	}
	if e.skippable(s) {
		return normal(e.havoc(s, cf))
	}
	switch v := s.(type) {
	case *ast.EmptyStmt:
		return normal(cf)
	case *ast.BlockStmt:
		return e.execBlock(v.List, []*tsConf{cf})
	case *ast.ExprStmt:
		return evs2outs(e.eval(v.X, cf), func(ev tsEv) []tsOut { return normal(ev.cf) })
	case *ast.DeclStmt:
		return e.execDecl(v, cf)
	case *ast.AssignStmt:
		return e.execAssign(v, cf)
	case *ast.IncDecStmt:
		if id, ok := ast.Unparen(v.X).(*ast.Ident); ok {
			if o, ok := e.info.Uses[id].(*types.Var); ok && e.isLocal(o) {
				cur, has := cf.env[o]
				if !has {
					return normal(cf)
				}
				op := token.ADD
				if v.Tok == token.DEC {
					op = token.SUB
				}
				nv := cmpVals(op, cur, tsInt(1))
				if cf.nd > 0 {
					nv.nd = true
				}
				return normal(cf.withEnv(o, nv))
			}
		}
		if i := e.trackedSel(v.X); i >= 0 {
			return normal(cf.withVar(i, tsTop))
		}
		return normal(cf)
	case *ast.ReturnStmt:
		if len(v.Results) == 0 {
			return []tsOut{{cf: cf, fl: fReturn, lbl: "bare"}}
		}
		var out []tsOut
		for _, it := range e.evalList(v.Results, cf) {
			if it.pn != nil {
				out = append(out, tsOut{cf: it.cf, fl: fPanic, pn: it.pn})
				continue
			}
			r := it.vals[0]
			if len(it.vals) > 1 {
				r = tsVal{k: kTuple, l: it.vals}
			}
			out = append(out, tsOut{cf: it.cf, fl: fReturn, ret: r})
		}
		return out
	case *ast.IfStmt:
		return e.execIf(v, cf)
	case *ast.SwitchStmt:
		return e.execSwitch(v, cf, "")
	case *ast.TypeSwitchStmt:
		return e.execTypeSwitch(v, cf, "")
	case *ast.ForStmt:
		return e.execFor(v, cf, "")
	case *ast.RangeStmt:
		return e.execRange(v, cf, "")
	case *ast.LabeledStmt:
		switch in := v.Stmt.(type) {
		case *ast.ForStmt:
			return e.execFor(in, cf, v.Label.Name)
		case *ast.RangeStmt:
			return e.execRange(in, cf, v.Label.Name)
		case *ast.SwitchStmt:
			return e.execSwitch(in, cf, v.Label.Name)
		case *ast.TypeSwitchStmt:
			return e.execTypeSwitch(in, cf, v.Label.Name)
		}
		return e.execStmt(v.Stmt, cf)
	case *ast.BranchStmt:
		lbl := ""
		if v.Label != nil {
			lbl = v.Label.Name
		}
		switch v.Tok {
		case token.BREAK:
			return []tsOut{{cf: cf, fl: fBreak, lbl: lbl}}
		case token.CONTINUE:
			return []tsOut{{cf: cf, fl: fContinue, lbl: lbl}}
		}
		e.unsupported(v, "goto/fallthrough")
		return normal(cf)
	case *ast.DeferStmt:
		c2 := cf
		if fl, ok := ast.Unparen(v.Call.Fun).(*ast.FuncLit); ok {
			c2, _ = e.closure(fl, cf)
		}
		c2 = c2.clone()
		c2.defers = append(append([]*ast.DeferStmt(nil), cf.defers...), v)
		return normal(c2)
	case *ast.GoStmt:
		bad := false
		ast.Inspect(v.Call, func(n ast.Node) bool {
			if x, ok := n.(ast.Expr); ok && e.trackedSel(x) >= 0 {
				bad = true
			}
			return !bad
		})
		if f, ok := e.calleeOf(v.Call); ok && e.ancBase[f] {
			bad = true
		}
		if bad {
			e.unsupported(v, "goroutine touching tracked state")
		}
		return normal(cf)
	case *ast.SelectStmt:
		var out []tsOut
		saved := cf.nd
		for _, cc := range v.Body.List {
			c := cc.(*ast.CommClause)
			in := enter(tsCond{cf: cf.withTrace("select"), nd: true})
			if as, ok := c.Comm.(*ast.AssignStmt); ok && as.Tok == token.DEFINE {
				for _, l := range as.Lhs {
					if id, ok := l.(*ast.Ident); ok {
						in = in.withEnv(e.info.Defs[id], tsTop)
					}
				}
			}
			for _, o := range e.execBlock(c.Body, []*tsConf{in}) {
				if o.fl == fBreak && o.lbl == "" {
					o.fl = fNormal
				}
				out = append(out, o)
			}
		}
		return leave(out, saved)
	case *ast.SendStmt:
		return normal(cf)
	}
	e.unsupported(s, "statement kind")
	return normal(cf)
}

func (e *tsEngine) calleeOf(call *ast.CallExpr) (*types.Func, bool) {
	f := e.funcValue(call.Fun)
	return f, f != nil
}

func (e *tsEngine) execDecl(d *ast.DeclStmt, cf *tsConf) []tsOut {
	gd, ok := d.Decl.(*ast.GenDecl)
	if !ok || gd.Tok != token.VAR {
		return normal(cf)
	}
	cur := []*tsConf{cf}
	var panics []tsOut
	for _, sp := range gd.Specs {
		vs := sp.(*ast.ValueSpec)
		var next []*tsConf
		for _, c := range cur {
			if len(vs.Values) == 0 {
				for _, n := range vs.Names {
					if o := e.info.Defs[n]; o != nil {
						c = c.withEnv(o, zeroVal(o.Type()))
					}
				}
				next = append(next, c)
				continue
			}
			for _, it := range e.evalList(vs.Values, c) {
				if it.pn != nil {
					panics = append(panics, tsOut{cf: it.cf, fl: fPanic, pn: it.pn})
					continue
				}
				c2 := it.cf
				vals := it.vals
				if len(vals) == 1 && vals[0].k == kTuple {
					vals = vals[0].l
				}
				for i, n := range vs.Names {
					v := tsTop
					if i < len(vals) {
						v = vals[i]
					}
					if o := e.info.Defs[n]; o != nil && n.Name != "_" {
						c2 = c2.withEnv(o, v)
					}
				}
				next = append(next, c2)
			}
		}
		cur = next
	}
	out := panics
	for _, c := range cur {
		out = append(out, tsOut{cf: c})
	}
	return out
}

func (e *tsEngine) execAssign(as *ast.AssignStmt, cf *tsConf) []tsOut {
	// op-assign
	if as.Tok != token.ASSIGN && as.Tok != token.DEFINE {
		if len(as.Lhs) == 1 && len(as.Rhs) == 1 {
			return evs2outs(e.eval(as.Rhs[0], cf), func(ev tsEv) []tsOut {
				if id, ok := ast.Unparen(as.Lhs[0]).(*ast.Ident); ok {
					if o, ok := e.info.Uses[id].(*types.Var); ok {
						if cur, has := ev.cf.env[o]; has {
							var op token.Token
							switch as.Tok {
							case token.ADD_ASSIGN:
								op = token.ADD
							case token.SUB_ASSIGN:
								op = token.SUB
							default:
								return normal(ev.cf.withEnv(o, tsTop))
							}
							nv := cmpVals(op, cur, ev.val)
							if ev.cf.nd > 0 {
								nv.nd = true
							}
							return normal(ev.cf.withEnv(o, nv))
						}
					}
				}
				if i := e.trackedSel(as.Lhs[0]); i >= 0 {
					return normal(ev.cf.withVar(i, tsTop))
				}
				return normal(ev.cf)
			})
		}
		return normal(cf)
	}
	var out []tsOut
	for _, it := range e.evalList(as.Rhs, cf) {
		if it.pn != nil {
			out = append(out, tsOut{cf: it.cf, fl: fPanic, pn: it.pn})
			continue
		}
		vals := it.vals
		if len(as.Lhs) > 1 && len(vals) == 1 {
			if vals[0].k == kTuple {
				vals = vals[0].l
			} else {
				// comma-ok forms
				vals = make([]tsVal, len(as.Lhs))
			}
		}
		c2 := it.cf
		for i, l := range as.Lhs {
			v := tsTop
			if i < len(vals) {
				v = vals[i]
			}
			var rhs ast.Expr
			if len(as.Rhs) == len(as.Lhs) {
				rhs = as.Rhs[i]
			}
			c2 = e.assign(l, rhs, v, c2, as.Tok == token.DEFINE)
		}
		out = append(out, tsOut{cf: c2})
	}
	return out
}

// assign stores v into the location denoted by l.
func (e *tsEngine) assign(l, rhs ast.Expr, v tsVal, cf *tsConf, define bool) *tsConf {
	l = ast.Unparen(l)
	if id, ok := l.(*ast.Ident); ok {
		if id.Name == "_" {
			return cf
		}
		o := e.info.Defs[id]
		if o == nil {
			o = e.info.Uses[id]
		}
		if lv, ok := o.(*types.Var); ok {
			if lv.Parent() == e.pkg.Types.Scope() {
				return cf // package-level variable: not modelled
			}
			if cf.nd > 0 {
				v.nd = true // assigned under a non-deterministic branch
			}
			return cf.withEnv(lv, v)
		}
		return cf
	}
	if i := e.trackedSel(l); i >= 0 {
		tv := e.vars[i]
		c2 := cf.withVar(i, e.normalise(i, v))
		if !e.ctorPhase {
			k := [3]int{i, int(cf.st[i]), int(c2.st[i])}
			if _, seen := e.writeLog[k]; !seen {
				e.writeLog[k] = l.Pos()
			}
		}
		// a pointer to a struct with tracked fields is redirected: unless the new target is a
		// fresh literal or the same singleton, its fields are unknown from here on
		if tv.pointee != "" && len(e.structVars[tv.pointee]) > 0 && !v.fresh {
			same := false
			if rhs != nil {
				if j := e.trackedSel(rhs); j >= 0 && e.vars[j].pointee == tv.pointee {
					same = true
				}
				if u, ok := ast.Unparen(rhs).(*ast.UnaryExpr); ok && u.Op == token.AND {
					same = true // address of the singleton value itself
				}
			}
			if !same && !e.ctorPhase {
				for _, j := range e.structVars[tv.pointee] {
					c2 = c2.withVar(j, tsTop)
				}
			}
		}
		return c2
	}
	switch x := l.(type) {
	case *ast.SelectorExpr:
		if sel := e.info.Selections[x]; sel != nil && sel.Kind() == types.FieldVal {
			if _, isSig := sel.Obj().Type().Underlying().(*types.Signature); isSig && e.ctorPhase && v.k == kFunc {
				e.fieldFn[sel.Obj().(*types.Var)] = v
			}
		}
	case *ast.StarExpr:
		if nt, ok := types.Unalias(e.info.TypeOf(x)).(*types.Named); ok && len(e.structVars[nt.Obj().Name()]) > 0 {
			e.unsupported(l, "whole-struct assignment to a struct with tracked fields")
		}
	}
	return cf
}

func (e *tsEngine) execIf(s *ast.IfStmt, cf *tsConf) []tsOut {
	saved := cf.nd
	var out []tsOut
	starts := []tsOut{{cf: cf}}
	if s.Init != nil {
		starts = e.execStmt(s.Init, cf)
	}
	for _, st := range starts {
		if st.fl != fNormal {
			out = append(out, st)
			continue
		}
		for _, c := range e.cond(s.Cond, st.cf) {
			if c.pn != nil {
				out = append(out, tsOut{cf: c.cf, fl: fPanic, pn: c.pn})
				continue
			}
			in := enter(c)
			if c.b {
				out = append(out, e.execBlock(s.Body.List, []*tsConf{in})...)
			} else if s.Else != nil {
				out = append(out, e.execStmt(s.Else, in)...)
			} else {
				out = append(out, tsOut{cf: in})
			}
		}
	}
	return leave(dedupOuts(out), saved)
}

func (e *tsEngine) execSwitch(s *ast.SwitchStmt, cf *tsConf, label string) []tsOut {
	saved := cf.nd
	var out []tsOut
	starts := []tsOut{{cf: cf}}
	if s.Init != nil {
		starts = e.execStmt(s.Init, cf)
	}
	type pend struct {
		cf     *tsConf
		tag    tsVal
		nd, tr bool
	}
	for _, st := range starts {
		if st.fl != fNormal {
			out = append(out, st)
			continue
		}
		var pending []pend
		if s.Tag != nil {
			for _, ev := range e.eval(s.Tag, st.cf) {
				if ev.pn != nil {
					out = append(out, tsOut{cf: ev.cf, fl: fPanic, pn: ev.pn})
					continue
				}
				pending = append(pending, pend{cf: ev.cf, tag: ev.val, nd: ev.val.nd, tr: ev.val.tr})
			}
		} else {
			pending = []pend{{cf: st.cf}}
		}
		var deflt *ast.CaseClause
		for _, cc := range s.Body.List {
			c := cc.(*ast.CaseClause)
			if c.List == nil {
				deflt = c
				continue
			}
			for _, x := range c.List {
				var still []pend
				for _, p := range pending {
					if s.Tag == nil {
						for _, cd := range e.cond(x, p.cf) {
							if cd.pn != nil {
								out = append(out, tsOut{cf: cd.cf, fl: fPanic, pn: cd.pn})
							} else if cd.b {
								cd.nd, cd.tr = cd.nd || p.nd, cd.tr || p.tr
								out = append(out, e.runCase(c, enter(cd))...)
							} else {
								still = append(still, pend{cf: cd.cf, nd: p.nd || cd.nd, tr: p.tr || cd.tr})
							}
						}
						continue
					}
					for _, ev := range e.eval(x, p.cf) {
						if ev.pn != nil {
							out = append(out, tsOut{cf: ev.cf, fl: fPanic, pn: ev.pn})
							continue
						}
						r := cmpVals(token.EQL, p.tag, ev.val)
						switch {
						case r.k == kBool && r.n != 0:
							out = append(out, e.runCase(c, enter(tsCond{cf: ev.cf, nd: p.nd || r.nd, tr: p.tr || r.tr}))...)
						case r.k == kBool:
							still = append(still, pend{cf: ev.cf, tag: p.tag, nd: p.nd || r.nd, tr: p.tr || r.tr})
						default:
							t := ev.cf.withTrace("case " + types.ExprString(x))
							out = append(out, e.runCase(c, enter(tsCond{cf: t, nd: true, tr: p.tr || r.tr}))...)
							still = append(still, pend{cf: ev.cf, tag: p.tag, nd: true, tr: p.tr || r.tr})
						}
					}
				}
				pending = still
			}
		}
		for _, p := range pending {
			in := enter(tsCond{cf: p.cf, nd: p.nd, tr: p.tr})
			if deflt != nil {
				out = append(out, e.runCase(deflt, in)...)
			} else {
				out = append(out, tsOut{cf: in})
			}
		}
	}
	for i := range out {
		if out[i].fl == fBreak && (out[i].lbl == "" || out[i].lbl == label) {
			out[i].fl, out[i].lbl = fNormal, ""
		}
	}
	return leave(dedupOuts(out), saved)
}

func (e *tsEngine) runCase(c *ast.CaseClause, cf *tsConf) []tsOut {
	for _, s := range c.Body {
		if b, ok := s.(*ast.BranchStmt); ok && b.Tok == token.FALLTHROUGH {
			e.unsupported(b, "fallthrough")
		}
	}
	return e.execBlock(c.Body, []*tsConf{cf})
}

func (e *tsEngine) execTypeSwitch(s *ast.TypeSwitchStmt, cf *tsConf, label string) []tsOut {
	saved := cf.nd
	var out []tsOut
	starts := []tsOut{{cf: cf}}
	if s.Init != nil {
		starts = e.execStmt(s.Init, cf)
	}
	var subject ast.Expr
	switch a := s.Assign.(type) {
	case *ast.AssignStmt:
		subject = a.Rhs[0]
	case *ast.ExprStmt:
		subject = a.X
	}
	if ta, ok := ast.Unparen(subject).(*ast.TypeAssertExpr); ok {
		subject = ta.X
	}
	hasDefault := false
	for _, st := range starts {
		if st.fl != fNormal {
			out = append(out, st)
			continue
		}
		for _, ev := range e.eval(subject, st.cf) {
			if ev.pn != nil {
				out = append(out, tsOut{cf: ev.cf, fl: fPanic, pn: ev.pn})
				continue
			}
			for _, cc := range s.Body.List {
				c := cc.(*ast.CaseClause)
				if c.List == nil {
					hasDefault = true
				}
				in := enter(tsCond{cf: ev.cf.withTrace("type case " + caseLabel(c)), nd: true})
				if o := e.info.Implicits[c]; o != nil {
					in = in.withEnv(o, tsVal{k: kNonNil, nd: true})
				}
				out = append(out, e.execBlock(c.Body, []*tsConf{in})...)
			}
			if !hasDefault {
				out = append(out, tsOut{cf: enter(tsCond{cf: ev.cf, nd: true})})
			}
		}
	}
	for i := range out {
		if out[i].fl == fBreak && (out[i].lbl == "" || out[i].lbl == label) {
			out[i].fl, out[i].lbl = fNormal, ""
		}
	}
	return leave(dedupOuts(out), saved)
}

func caseLabel(c *ast.CaseClause) string {
	if c.List == nil {
		return "default"
	}
	var p []string
	for _, x := range c.List {
		p = append(p, types.ExprString(x))
	}
	return strings.Join(p, ",")
}

const tsLoopCap = 400

// loop runs a loop to a fixed point over the configurations at its head.
func (e *tsEngine) loop(n ast.Node, label string, heads []*tsConf, saved int,
	test func(*tsConf) (stay []*tsConf, exit []tsOut), body func(*tsConf) []tsOut, post func(*tsConf) []tsOut) []tsOut {
	var out []tsOut
	seen := map[string]bool{}
	work := heads
	loopLive := e.union(e.live[len(e.live)-1], e.usesOf(n))
	e.live = append(e.live, loopLive)
	defer func() { e.live = e.live[:len(e.live)-1] }()
	for len(work) > 0 {
		c := work[len(work)-1]
		work = work[:len(work)-1]
		if c.nd != saved {
			c = c.clone()
			c.nd = saved
		}
		c = prune(c, loopLive)
		k := c.key()
		if seen[k] {
			continue
		}
		seen[k] = true
		if len(seen) > tsLoopCap {
			e.unsupported(n, "loop did not reach a fixed point")
			break
		}
		stay, exit := test(c)
		out = append(out, exit...)
		for _, sc := range stay {
			for _, o := range body(sc) {
				switch {
				case o.fl == fNormal, o.fl == fContinue && (o.lbl == "" || o.lbl == label):
					if post != nil {
						for _, po := range post(o.cf) {
							if po.fl == fNormal {
								work = append(work, po.cf)
							} else {
								out = append(out, po)
							}
						}
					} else {
						work = append(work, o.cf)
					}
				case o.fl == fBreak && (o.lbl == "" || o.lbl == label):
					out = append(out, tsOut{cf: o.cf})
				default:
					out = append(out, o)
				}
			}
		}
	}
	return leave(dedupOuts(out), saved)
}

func (e *tsEngine) execFor(s *ast.ForStmt, cf *tsConf, label string) []tsOut {
	saved := cf.nd
	if !e.relevantNode(s) {
		return e.abstractLoop(s, s.Body, cf, label)
	}
	var pre []tsOut
	heads := []*tsConf{cf}
	if s.Init != nil {
		heads = nil
		for _, o := range e.execStmt(s.Init, cf) {
			if o.fl == fNormal {
				heads = append(heads, o.cf)
			} else {
				pre = append(pre, o)
			}
		}
	}
	test := func(c *tsConf) (stay []*tsConf, exit []tsOut) {
		if s.Cond == nil {
			return []*tsConf{c}, nil
		}
		for _, cd := range e.cond(s.Cond, c) {
			if cd.pn != nil {
				exit = append(exit, tsOut{cf: cd.cf, fl: fPanic, pn: cd.pn})
			} else if cd.b {
				stay = append(stay, enter(cd))
			} else {
				exit = append(exit, tsOut{cf: enter(cd)})
			}
		}
		return
	}
	var post func(*tsConf) []tsOut
	if s.Post != nil {
		post = func(c *tsConf) []tsOut { return e.execStmt(s.Post, c) }
	}
	return append(pre, e.loop(s, label, heads, saved, test, func(c *tsConf) []tsOut { return e.execBlock(s.Body.List, []*tsConf{c}) }, post)...)
}

func (e *tsEngine) execRange(s *ast.RangeStmt, cf *tsConf, label string) []tsOut {
	saved := cf.nd
	if !e.relevantNode(s) {
		return e.abstractLoop(s, s.Body, cf, label)
	}
	var out []tsOut
	bind := func(c *tsConf, x ast.Expr, v tsVal) *tsConf {
		if x == nil {
			return c
		}
		return e.assign(x, nil, v, c, s.Tok == token.DEFINE)
	}
	for _, ev := range e.eval(s.X, cf) {
		if ev.pn != nil {
			out = append(out, tsOut{cf: ev.cf, fl: fPanic, pn: ev.pn})
			continue
		}
		if ev.val.k == kList {
			// known elements: unroll
			cur := []*tsConf{ev.cf}
			for i, el := range ev.val.l {
				var next []*tsConf
				for _, c := range cur {
					c = bind(bind(c, s.Key, tsInt(int64(i))), s.Value, el)
					for _, o := range e.execBlock(s.Body.List, []*tsConf{c}) {
						switch {
						case o.fl == fNormal, o.fl == fContinue && (o.lbl == "" || o.lbl == label):
							next = append(next, o.cf)
						case o.fl == fBreak && (o.lbl == "" || o.lbl == label):
							out = append(out, tsOut{cf: o.cf})
						default:
							out = append(out, o)
						}
					}
				}
				cur = next
			}
			for _, c := range cur {
				out = append(out, tsOut{cf: c})
			}
			continue
		}
		// unknown collection: any number of iterations with unknown elements
		test := func(c *tsConf) (stay []*tsConf, exit []tsOut) {
			in := enter(tsCond{cf: c, nd: true})
			in = bind(bind(in, s.Key, tsVal{k: kTop, nd: true}), s.Value, tsVal{k: kTop, nd: true})
			return []*tsConf{in}, []tsOut{{cf: enter(tsCond{cf: c, nd: true})}}
		}
		out = append(out, e.loop(s, label, []*tsConf{ev.cf}, saved, test, func(c *tsConf) []tsOut { return e.execBlock(s.Body.List, []*tsConf{c}) }, nil)...)
	}
	return leave(dedupOuts(out), saved)
}

// relevantNode: the node touches tracked state, may reach an assertion, or calls something
// whose body is not statically known. Everything else only changes locals.
func (e *tsEngine) relevantNode(n ast.Node) bool {
	if r, ok := e.relCache[n]; ok {
		return r
	}
	rel := false
	ast.Inspect(n, func(x ast.Node) bool {
		if rel || x == nil {
			return false
		}
		switch v := x.(type) {
		case *ast.SelectorExpr:
			// reading an auxiliary field only influences locals; writes are caught below
			if i := e.trackedSel(v); i >= 0 && !e.vars[i].aux {
				rel = true
			}
		case *ast.AssignStmt:
			for _, l := range v.Lhs {
				if e.trackedSel(l) >= 0 {
					rel = true
				}
			}
		case *ast.IncDecStmt:
			if e.trackedSel(v.X) >= 0 {
				rel = true
			}
		case *ast.UnaryExpr:
			if v.Op == token.AND && e.trackedSel(v.X) >= 0 {
				rel = true
			}
		case *ast.DeferStmt, *ast.GoStmt:
			rel = true
		case *ast.CompositeLit:
			if nt, ok := types.Unalias(e.info.TypeOf(v)).(*types.Named); ok && len(e.structVars[nt.Obj().Name()]) > 0 {
				rel = true
			}
		case *ast.CallExpr:
			fun := ast.Unparen(v.Fun)
			if tv, ok := e.info.Types[fun]; ok && tv.IsType() {
				return true
			}
			if id, ok := fun.(*ast.Ident); ok {
				if _, isB := e.info.Uses[id].(*types.Builtin); isB {
					if id.Name == "panic" {
						rel = true
					}
					return true
				}
			}
			if _, ok := fun.(*ast.FuncLit); ok {
				return true // body is inspected as part of the walk
			}
			switch c := typeutil.Callee(e.info, v).(type) {
			case *types.Func:
				f := c.Origin()
				if r := f.Type().(*types.Signature).Recv(); r != nil && isInterface(r.Type()) {
					for _, t := range e.dynamicTargets(v) {
						if e.ancBase[t] {
							rel = true
						}
					}
					return true
				}
				if e.decls[f] == nil {
					return true // other package
				}
				if e.ancBase[f] || e.mention[f] || e.purePanic[f] {
					rel = true
				} else if e.pure[f] {
					for _, a := range v.Args {
						if _, isSig := e.info.TypeOf(a).Underlying().(*types.Signature); isSig {
							rel = true
						}
					}
				}
			default:
				// call through a function value: interpreted when the value is known
				rel = true
			}
		}
		return !rel
	})
	e.relCache[n] = rel
	return rel
}

// skippable: an irrelevant statement without control transfer out of itself.
func (e *tsEngine) skippable(s ast.Stmt) bool {
	switch s.(type) {
	case *ast.IfStmt, *ast.ForStmt, *ast.RangeStmt, *ast.SwitchStmt, *ast.TypeSwitchStmt, *ast.SelectStmt:
	default:
		return false // simple statements are cheap to interpret and may define constants
	}
	if e.relevantNode(s) {
		return false
	}
	escapes := false
	var walk func(n ast.Node, inBreakable, inLoop bool)
	walk = func(n ast.Node, inBreakable, inLoop bool) {
		ast.Inspect(n, func(x ast.Node) bool {
			if escapes || x == nil {
				return false
			}
			switch v := x.(type) {
			case *ast.FuncLit:
				return false
			case *ast.ReturnStmt:
				escapes = true
			case *ast.BranchStmt:
				if v.Label != nil || v.Tok == token.GOTO {
					escapes = true
				} else if v.Tok == token.BREAK && !inBreakable {
					escapes = true
				} else if v.Tok == token.CONTINUE && !inLoop {
					escapes = true
				}
			case *ast.ForStmt:
				if x != n {
					walk(v.Body, true, true)
					return false
				}
			case *ast.RangeStmt:
				if x != n {
					walk(v.Body, true, true)
					return false
				}
			case *ast.SwitchStmt:
				if x != n {
					walk(v.Body, true, inLoop)
					return false
				}
			case *ast.TypeSwitchStmt:
				if x != n {
					walk(v.Body, true, inLoop)
					return false
				}
			case *ast.SelectStmt:
				if x != n {
					walk(v.Body, true, inLoop)
					return false
				}
			}
			return true
		})
	}
	switch v := s.(type) {
	case *ast.ForStmt:
		walk(v.Body, true, true)
	case *ast.RangeStmt:
		walk(v.Body, true, true)
	case *ast.SwitchStmt:
		walk(v.Body, true, false)
	case *ast.TypeSwitchStmt:
		walk(v.Body, true, false)
	case *ast.SelectStmt:
		walk(v.Body, true, false)
	default:
		walk(s, false, false)
	}
	return !escapes
}

// havoc forgets every local the statement may assign.
func (e *tsEngine) havoc(s ast.Node, cf *tsConf) *tsConf {
	set := map[types.Object]bool{}
	mark := func(x ast.Expr) {
		for {
			switch v := ast.Unparen(x).(type) {
			case *ast.IndexExpr:
				x = v.X
				continue
			case *ast.StarExpr:
				x = v.X
				continue
			case *ast.Ident:
				o := e.info.Defs[v]
				if o == nil {
					o = e.info.Uses[v]
				}
				if lv, ok := o.(*types.Var); ok && !lv.IsField() && lv.Parent() != e.pkg.Types.Scope() {
					set[lv] = true
				}
			}
			return
		}
	}
	ast.Inspect(s, func(x ast.Node) bool {
		switch v := x.(type) {
		case *ast.AssignStmt:
			for _, l := range v.Lhs {
				mark(l)
			}
		case *ast.IncDecStmt:
			mark(v.X)
		case *ast.RangeStmt:
			if v.Key != nil {
				mark(v.Key)
			}
			if v.Value != nil {
				mark(v.Value)
			}
		case *ast.UnaryExpr:
			if v.Op == token.AND {
				mark(v.X)
			}
		case *ast.ValueSpec:
			for _, n := range v.Names {
				mark(n)
			}
		}
		return true
	})
	if len(set) == 0 {
		return cf
	}
	any := false
	for o := range set {
		if _, has := cf.env[o]; has {
			any = true
		}
	}
	if !any {
		return cf
	}
	d := cf.clone()
	d.env = make(map[types.Object]tsVal, len(cf.env))
	for k, v := range cf.env {
		if !set[k] {
			d.env[k] = v
		}
	}
	return d
}

// abstractLoop handles a loop that cannot touch tracked state: locals it assigns become
// unknown, its body is run once from that state to collect early exits, and execution
// continues after the loop with the unknown locals.
func (e *tsEngine) abstractLoop(s ast.Stmt, body *ast.BlockStmt, cf *tsConf, label string) []tsOut {
	saved := cf.nd
	c1 := e.havoc(s, cf)
	out := []tsOut{{cf: c1}}
	in := enter(tsCond{cf: c1, nd: true})
	for _, o := range e.execBlock(body.List, []*tsConf{in}) {
		switch o.fl {
		case fReturn, fPanic:
			out = append(out, o)
		case fBreak, fContinue:
			if o.lbl != "" && o.lbl != label {
				out = append(out, o)
			}
		}
	}
	return leave(dedupOuts(out), saved)
}

// usesOf: the variables referenced anywhere inside n (function literals included).
func (e *tsEngine) usesOf(n ast.Node) map[types.Object]bool {
	if u, ok := e.useCache[n]; ok {
		return u
	}
	u := map[types.Object]bool{}
	ast.Inspect(n, func(x ast.Node) bool {
		if id, ok := x.(*ast.Ident); ok {
			if o, ok := e.info.Uses[id].(*types.Var); ok && !o.IsField() {
				u[o] = true
			}
			if o, ok := e.info.Defs[id].(*types.Var); ok && !o.IsField() {
				u[o] = true
			}
		}
		if cc, ok := x.(*ast.CaseClause); ok {
			if o := e.info.Implicits[cc]; o != nil {
				u[o] = true
			}
		}
		return true
	})
	e.useCache[n] = u
	return u
}

func (e *tsEngine) usesOfList(list []ast.Stmt) map[types.Object]bool {
	if len(list) == 0 {
		return nil
	}
	if u, ok := e.useCache[list[0]]; ok && len(list) == 1 {
		return u
	}
	// cached under a synthetic block node keyed by the first statement of the suffix
	key := &ast.BlockStmt{}
	if u, ok := e.suffixCache[list[0]]; ok {
		return u
	}
	key.List = list
	u := e.usesOf(key)
	e.suffixCache[list[0]] = u
	return u
}

func (e *tsEngine) union(a, b map[types.Object]bool) map[types.Object]bool {
	if len(b) == 0 {
		return a
	}
	if len(a) == 0 {
		return b
	}
	k := [2]uintptr{mapID(a), mapID(b)}
	if u, ok := e.unionCache[k]; ok {
		return u
	}
	u := make(map[types.Object]bool, len(a)+len(b))
	for o := range a {
		u[o] = true
	}
	for o := range b {
		u[o] = true
	}
	e.unionCache[k] = u
	return u
}

func mapID(m map[types.Object]bool) uintptr { return reflect.ValueOf(m).Pointer() }

// prune drops locals that can no longer be read.
func prune(cf *tsConf, live map[types.Object]bool) *tsConf {
	n := 0
	for o := range cf.env {
		if !live[o] {
			n++
		}
	}
	if n == 0 {
		return cf
	}
	d := cf.clone()
	d.env = make(map[types.Object]tsVal, len(cf.env)-n)
	for o, v := range cf.env {
		if live[o] {
			d.env[o] = v
		}
	}
	return d
}
