package props

import (
	"fmt"
	"go/ast"
	"go/types"
	"sort"

	"verif/internal/an"
	"verif/internal/load"
)

func init() { register(&Prop{ID: "C11", Run: runC11}) }

// handshake-state fields that are legitimately not handed over (filled during the handshake)
var c11FilledLater = map[string]string{
	"clientHandshakeState.ticket": "received from the server during the handshake",
}

func runC11(c *Ctx) {
	r := c.R
	tls := c.P.TLS
	info := tls.TypesInfo
	r.Technique = "def-use/ordering rules on the client handshake (typed AST, go/cfg), stale-default rule for the extension-owned server name, converter field maps for the handshake-state hand-off"
	r.Explanation = "C11.1 the server name the client reports (Conn.serverName -> ConnectionState.ServerName) is the name field of the hello that is written, assigned before the write, and that field carries nothing when no SNI extension is in the list (no Config default survives). " +
		"C11.2 every field of the version-specific handshake states is handed over from the public state (toPrivate12/13) or assigned in clientHandshake before handshake() runs, and handed back afterwards. " +
		"C11.3 the exporter secret is derived at the same transcript point on both sides: directly after the server Finished entered the transcript, before any later message (TLS 1.3), and from master secret and both randoms (TLS 1.2); ConnectionState takes version, suite, protocol, curve, DidResume, ECHAccepted and ServerName from the connection fields the handshake stores."
	r.NotDecided = "equality of exported keying material and of the negotiated values with a concrete peer (runtime cryptography)"

	// ---- C11.1
	if fn := c.Fn("C11.1", "UConn", "clientHandshake"); fn != nil {
		stores := fn.FindNodes(an.AssignsTo(func(e ast.Expr) bool { return an.FieldSel(info, an.Unparen(e), "Conn", "serverName") }))
		writes := fn.Find(an.CallTo(info, Mod, "Conn", "writeHandshakeRecord"))
		ok := len(stores) == 1 && len(writes) > 0
		if ok {
			as := stores[0].N.(*ast.AssignStmt)
			ok = an.FieldSel(info, an.Unparen(as.Rhs[0]), "clientHelloMsg", "serverName")
			if ok {
				// the same variable that is written
				first := fn.FindNodes(an.CallTo(info, Mod, "Conn", "writeHandshakeRecord"))[0].N.(*ast.CallExpr)
				se := an.Unparen(as.Rhs[0]).(*ast.SelectorExpr)
				ok = an.Str(se.X) == an.Str(first.Args[0])
			}
		}
		r.Check(ok, "C11.1", "clientHandshake:serverName-from-written-hello", c.Pos(fn.Decl), "Conn.serverName = <hello that is written>.serverName", "the reported server name is not taken from the ClientHello that is written (e.g. from Config.ServerName): it differs from the SNI on the wire for IP literals, trailing dots, removed SNI or ECH")
	}
	// stale default of Hello.ServerName
	mk := c.Fn("C11.1", "Conn", "makeClientHelloForApplyPreset")
	ap := c.Fn("C11.1", "UConn", "ApplyPreset")
	if mk != nil && ap != nil {
		init := initialValue(mk, "serverName")
		reset := resetIn(ap, info, "ServerName", []string{"SNIExtension"})
		r.Check(init == nil || reset, "C11.1", "Hello.ServerName:default", c.Pos(ap.Decl), "no Config-derived name survives in Hello.ServerName when the spec has no SNI extension",
			"makeClientHelloForApplyPreset seeds serverName from the Config and ApplyPreset never clears it: without an SNI extension the client reports a server name it did not send")
	}
	// SNIExtension.writeToUConn sets Hello.ServerName from the normalised extension value
	if wt := load.FuncDecl(tls, "SNIExtension", "writeToUConn"); wt != nil {
		ok := false
		ast.Inspect(wt.Body, func(n ast.Node) bool {
			as, isAs := n.(*ast.AssignStmt)
			if isAs && len(as.Lhs) == 1 && an.FieldSel(info, an.Unparen(as.Lhs[0]), "PubClientHelloMsg", "ServerName") {
				ok = true
			}
			return true
		})
		r.Check(ok, "C11.1", "SNIExtension.writeToUConn:Hello.ServerName", c.Pos(wt), "the extension publishes its (normalised) name to Hello.ServerName", "the SNI extension no longer publishes its name to Hello.ServerName")
	}
	r.Floor("C11.1", 3)

	// ---- C11.2 hand-off completeness
	if fn := c.Fn("C11.2", "UConn", "clientHandshake"); fn != nil {
		for _, st := range []struct{ typ, conv, back string }{
			{"clientHandshakeStateTLS13", "toPrivate13", "toPublic13"},
			{"clientHandshakeState", "toPrivate12", "toPublic12"},
		} {
			conv := load.FuncDecl(tls, "PubClientHandshakeState", st.conv)
			back := load.FuncDecl(tls, st.typ, st.back)
			if conv == nil || back == nil {
				r.Unknown("C11.2", st.typ, "", "converters not found")
				continue
			}
			set := map[string]bool{}
			if fm := extractFieldMap(tls, conv); fm != nil {
				for d := range fm.m {
					set[d] = true
				}
				for _, d := range fm.opaque {
					set[d] = true
				}
			}
			ast.Inspect(fn.Body, func(n ast.Node) bool {
				as, ok := n.(*ast.AssignStmt)
				if !ok {
					return true
				}
				for _, l := range as.Lhs {
					if se, ok := an.Unparen(l).(*ast.SelectorExpr); ok {
						if sel := info.Selections[se]; sel != nil && sel.Kind() == types.FieldVal && an.TypeName(sel.Recv()) == st.typ {
							set[se.Sel.Name] = true
						}
					}
				}
				return true
			})
			fields, _ := structFields(tls, st.typ)
			sort.Strings(fields)
			for _, f := range fields {
				cons := st.typ + "." + f
				if set[f] {
					r.Ok("C11.2", cons, c.Pos(conv), "handed over by %s or assigned in clientHandshake", st.conv)
					continue
				}
				if why, ok := c11FilledLater[cons]; ok {
					r.Ok("C11.2", cons, c.Pos(conv), "filled later: %s", why)
					continue
				}
				r.Bad("C11.2", cons, c.Pos(conv), "field %s of %s is neither set by %s nor assigned in clientHandshake before handshake(): the handshake runs without it", f, st.typ, st.conv)
			}
			// handshake() is called on the converted state and the state is converted back
			calls := fn.Find(an.CallTo(info, Mod, st.typ, "handshake"))
			backs := fn.Find(an.CallTo(info, Mod, st.typ, st.back))
			okBack := len(calls) == 1 && len(backs) >= 1
			for _, b := range backs {
				if !fn.MustPass(b, calls, nil) {
					okBack = false
				}
			}
			r.Check(okBack, "C11.2", st.typ+":converted-back", c.Pos(fn.Decl), "the state is converted back to the public HandshakeState after handshake()", "the handshake result is not converted back into HandshakeState")
		}
	}
	r.Floor("C11.2", 20)

	// ---- C11.3 exporter derivation point
	for _, side := range []struct{ recv, name string }{{"clientHandshakeStateTLS13", "readServerFinished"}, {"serverHandshakeStateTLS13", "sendServerFinished"}} {
		fn := c.Fn("C11.3", side.recv, side.name)
		if fn == nil {
			continue
		}
		ekm := fn.FindNodes(an.AssignsTo(func(e ast.Expr) bool { return an.FieldSel(info, an.Unparen(e), "Conn", "ekm") }))
		cons := side.recv + "." + side.name + ":exporter"
		if len(ekm) != 1 {
			r.Bad("C11.3", cons, c.Pos(fn.Decl), "the TLS 1.3 exporter secret is not derived in %s (found %d stores): client and server derive it at different transcript points", side.name, len(ekm))
			continue
		}
		as := ekm[0].N.(*ast.AssignStmt)
		okSrc := an.Contains(as.Rhs[0], func(n ast.Node) bool {
			call, ok := n.(*ast.CallExpr)
			return ok && an.IsCallTo(info, call, Mod, "cipherSuiteTLS13", "exportKeyingMaterial") && len(call.Args) == 2 && an.FieldSel(info, an.Unparen(call.Args[1]), side.recv, "transcript") && an.FieldSel(info, an.Unparen(call.Args[0]), side.recv, "masterSecret")
		})
		// transcript mutations in this function: all of them precede the derivation, and the last one adds the Finished message
		mut := fn.FindNodes(func(n ast.Node) bool {
			call, ok := n.(*ast.CallExpr)
			if !ok {
				return false
			}
			if an.IsCallTo(info, call, Mod, "", "transcriptMsg") {
				return true
			}
			if an.IsCallTo(info, call, Mod, "Conn", "writeHandshakeRecord") && len(call.Args) == 2 && !an.IsNilIdent(info, call.Args[1]) {
				return true
			}
			if an.IsCallTo(info, call, Mod, "Conn", "readHandshake") && len(call.Args) == 1 && !an.IsNilIdent(info, call.Args[0]) {
				return true
			}
			return false
		})
		okOrder := len(mut) > 0
		finishedAdded := false
		for _, m := range mut {
			if fn.Reachable(ekm[0].P, m.P) {
				okOrder = false
			}
			call := m.N.(*ast.CallExpr)
			if an.TypeName(info.TypeOf(call.Args[0])) == "finishedMsg" {
				finishedAdded = true
			}
		}
		r.Check(okSrc && okOrder && finishedAdded, "C11.3", cons, c.Pos(as), "exporter = exportKeyingMaterial(masterSecret, transcript) after the server Finished entered the transcript and before anything else does",
			"the exporter secret is not derived from (masterSecret, transcript) at the point right after the server Finished: the two sides export different keying material whenever a later message (client certificate, client EncryptedExtensions) enters the transcript first")
	}
	// the client must derive it before sending anything after the server Finished: readServerFinished precedes the client flight in handshake()
	if hs := c.Fn("C11.3", "clientHandshakeStateTLS13", "handshake"); hs != nil {
		rsf := hs.Find(an.CallTo(info, Mod, "clientHandshakeStateTLS13", "readServerFinished"))
		for _, later := range []string{"serverFinishedReceived", "sendClientCertificate", "sendClientFinished"} {
			pts := hs.Find(an.CallTo(info, Mod, "clientHandshakeStateTLS13", later))
			ok := len(rsf) > 0 && len(pts) > 0
			for _, p := range pts {
				if !hs.MustPass(p, rsf, nil) {
					ok = false
				}
			}
			r.Check(ok, "C11.3", "handshake:readServerFinished-before-"+later, c.Pos(hs.Decl), "the exporter point precedes "+later, later+" can run before readServerFinished: the client's exporter transcript differs from the server's")
		}
	}
	// TLS 1.2: both sides use ekmFromMasterSecret(vers, suite, masterSecret, clientRandom, serverRandom)
	for _, side := range []struct{ recv, cr, sr string }{{"clientHandshakeState", "hello", "serverHello"}, {"serverHandshakeState", "clientHello", "hello"}} {
		found := false
		okArgs := false
		for _, fd := range load.AllFuncDecls(tls) {
			if load.RecvName(fd) != side.recv {
				continue
			}
			ast.Inspect(fd.Body, func(n ast.Node) bool {
				as, ok := n.(*ast.AssignStmt)
				if !ok || len(as.Lhs) != 1 || !an.FieldSel(info, an.Unparen(as.Lhs[0]), "Conn", "ekm") {
					return true
				}
				found = true
				if call, ok := an.Unparen(as.Rhs[0]).(*ast.CallExpr); ok && an.IsCallTo(info, call, Mod, "", "ekmFromMasterSecret") && len(call.Args) == 5 {
					okArgs = an.MentionsField(info, call.Args[2], side.recv, "masterSecret") &&
						an.MentionsField(info, call.Args[3], side.recv, side.cr) && an.MentionsField(info, call.Args[4], side.recv, side.sr)
				}
				return true
			})
		}
		r.Check(found && okArgs, "C11.3", side.recv+":ekm12", "", "TLS 1.2 exporter = ekmFromMasterSecret(vers, suite, masterSecret, client random, server random)", fmt.Sprintf("%s does not derive the TLS 1.2 exporter from (master secret, client random, server random) in that order", side.recv))
	}
	// ConnectionState copies
	if cs := c.Fn("C11.3", "Conn", "connectionStateLocked"); cs != nil {
		want := map[string]string{"Version": "vers", "NegotiatedProtocol": "clientProtocol", "DidResume": "didResume", "CipherSuite": "cipherSuite", "ServerName": "serverName", "ECHAccepted": "echAccepted"}
		var ks []string
		for k := range want {
			ks = append(ks, k)
		}
		sort.Strings(ks)
		for _, k := range ks {
			ok := false
			ast.Inspect(cs.Body, func(n ast.Node) bool {
				as, isAs := n.(*ast.AssignStmt)
				if isAs && len(as.Lhs) == 1 && len(as.Rhs) == 1 && an.FieldSel(info, an.Unparen(as.Lhs[0]), "ConnectionState", k) && an.FieldSel(info, an.Unparen(as.Rhs[0]), "Conn", want[k]) {
					ok = true
				}
				return true
			})
			r.Check(ok, "C11.3", "connectionStateLocked:"+k, c.Pos(cs.Decl), "ConnectionState."+k+" = Conn."+want[k], "ConnectionState."+k+" is not taken from Conn."+want[k])
		}
	}
	r.Floor("C11.3", 12)
}
