package props

import (
	"go/ast"
	"go/token"
	"go/types"

	"verif/internal/an"
)

// c13SetTLSVersModel checks the facts about SetTLSVers that parrotView.effRange assumes.
func c13SetTLSVersModel(c *Ctx) {
	r := c.R
	info := c.Info()
	fn := c.Fn("C13.4", "UConn", "SetTLSVers")
	if fn == nil {
		return
	}
	params := fn.Decl.Type.Params.List
	var minP, maxP types.Object
	idx := 0
	for _, fl := range params {
		for _, nm := range fl.Names {
			switch idx {
			case 0:
				minP = info.Defs[nm]
			case 1:
				maxP = info.Defs[nm]
			}
			idx++
		}
	}
	if minP == nil || maxP == nil {
		r.Unknown("C13.4", "SetTLSVers:params", c.Pos(fn.Decl), "unexpected signature")
		return
	}
	isObj := func(o types.Object) func(ast.Expr) bool {
		return func(e ast.Expr) bool { id, ok := an.Unparen(e).(*ast.Ident); return ok && info.Uses[id] == o }
	}
	// (a) Config.MinVersion / MaxVersion are assigned from the (possibly derived) min / max
	for _, pr := range []struct {
		field string
		obj   types.Object
	}{{"MinVersion", minP}, {"MaxVersion", maxP}} {
		found := false
		for _, h := range fn.FindNodes(func(n ast.Node) bool {
			as, ok := n.(*ast.AssignStmt)
			return ok && len(as.Lhs) == 1 && len(as.Rhs) == 1 && an.FieldSel(info, an.Unparen(as.Lhs[0]), "Config", pr.field)
		}) {
			as := h.N.(*ast.AssignStmt)
			if isObj(pr.obj)(as.Rhs[0]) {
				found = true
			} else {
				r.Bad("C13.4", "SetTLSVers:Config."+pr.field, c.Pos(as), "Config.%s is assigned %s, not the spec's value", pr.field, an.Str(as.Rhs[0]))
			}
		}
		r.Check(found, "C13.4", "SetTLSVers:Config."+pr.field, c.Pos(fn.Decl), "accepted range bound is copied from the spec / derived value", "SetTLSVers never stores the spec's bound into Config."+pr.field+": the accepted range is not what the spec says")
	}
	// (b) the default without a supported_versions extension is [VersionTLS10, VersionTLS12]
	v10, _ := constOf(c, "VersionTLS10")
	v12, _ := constOf(c, "VersionTLS12")
	defMin, defMax := false, false
	ast.Inspect(fn.Body, func(n ast.Node) bool {
		as, ok := n.(*ast.AssignStmt)
		if !ok || as.Tok != token.ASSIGN || len(as.Lhs) != 1 || len(as.Rhs) != 1 {
			return true
		}
		if v, ok := an.ConstInt(info, as.Rhs[0]); ok {
			if isObj(minP)(as.Lhs[0]) {
				defMin = v == v10
				if v != v10 {
					r.Bad("C13.4", "SetTLSVers:default-min", c.Pos(as), "default minimum is 0x%04x, the table rule (and a hello without supported_versions) assumes TLS 1.0", v)
				}
			}
			if isObj(maxP)(as.Lhs[0]) {
				defMax = v == v12
				if v != v12 {
					r.Bad("C13.4", "SetTLSVers:default-max", c.Pos(as), "default maximum is 0x%04x; a hello without supported_versions advertises at most TLS 1.2", v)
				}
			}
		}
		return true
	})
	r.Check(defMin && defMax, "C13.4", "SetTLSVers:default-range", c.Pos(fn.Decl), "without supported_versions the range defaults to [TLS1.0, TLS1.2]", "default version range assignment not found")
	// (c) the min/max scan over the extension's versions: skips GREASE, keeps the larger for max and the smaller for min
	var lit *ast.FuncLit
	ast.Inspect(fn.Body, func(n ast.Node) bool {
		if fl, ok := n.(*ast.FuncLit); ok && lit == nil {
			lit = fl
		}
		return true
	})
	body := ast.Node(fn.Body)
	if lit != nil {
		body = lit.Body
	}
	// the scan is the range loop whose element is compared with < or > in its body (the function
	// also ranges over the extension list)
	var rangeVar types.Object
	ast.Inspect(body, func(n ast.Node) bool {
		rs, ok := n.(*ast.RangeStmt)
		if !ok {
			return true
		}
		v, ok := rs.Value.(*ast.Ident)
		if !ok || info.Defs[v] == nil {
			return true
		}
		compared := false
		ast.Inspect(rs.Body, func(m ast.Node) bool {
			if _, isRange := m.(*ast.RangeStmt); isRange {
				return false
			}
			if be, ok := m.(*ast.BinaryExpr); ok && (be.Op == token.LSS || be.Op == token.GTR) {
				for _, side := range []ast.Expr{be.X, be.Y} {
					if id, ok := an.Unparen(side).(*ast.Ident); ok && info.Uses[id] == info.Defs[v] {
						compared = true
					}
				}
			}
			return true
		})
		if compared || rangeVar == nil {
			if compared || lit != nil {
				rangeVar = info.Defs[v]
			}
		}
		return true
	})
	if rangeVar == nil {
		r.Unknown("C13.4", "SetTLSVers:scan", c.Pos(fn.Decl), "scan over the supported_versions entries not found")
		return
	}
	skipsGrease := false
	okMax, okMin := false, false
	// an update that sits in the else branch of another if only runs when that one did not
	elseOf := map[*ast.IfStmt]bool{}
	ast.Inspect(body, func(n ast.Node) bool {
		if is, ok := n.(*ast.IfStmt); ok {
			if e, ok := is.Else.(*ast.IfStmt); ok {
				elseOf[e] = true
			}
		}
		return true
	})
	dependent := false
	ast.Inspect(body, func(n ast.Node) bool {
		is, ok := n.(*ast.IfStmt)
		if !ok {
			return true
		}
		if an.Contains(is.Cond, an.CallTo(info, Mod, "", "isGREASEUint16")) && len(is.Body.List) == 1 {
			if bs, ok := is.Body.List[0].(*ast.BranchStmt); ok && bs.Tok == token.CONTINUE {
				skipsGrease = true
			}
		}
		// if X < vers || X == 0 { X = vers }  (max)   /  if X > vers || X == 0 { X = vers } (min)
		if len(is.Body.List) == 1 {
			as, ok := is.Body.List[0].(*ast.AssignStmt)
			if !ok || len(as.Lhs) != 1 || len(as.Rhs) != 1 || !isObj(rangeVar)(as.Rhs[0]) {
				return true
			}
			tgt, ok := an.Unparen(as.Lhs[0]).(*ast.Ident)
			if !ok {
				return true
			}
			to := objOf(info, tgt)
			for _, atom := range condAtoms(is.Cond) {
				op, ok := an.BinaryWith(atom, isObj(to), isObj(rangeVar))
				if !ok {
					continue
				}
				switch op {
				case token.LSS:
					okMax = true // target < vers -> target = vers : running maximum
				case token.GTR:
					okMin = true // running minimum
				}
				if (op == token.LSS || op == token.GTR) && (elseOf[is] || is.Else != nil) {
					dependent = true
				}
			}
		}
		return true
	})
	r.Check(skipsGrease, "C13.4", "SetTLSVers:scan-skips-GREASE", c.Pos(fn.Decl), "GREASE entries are skipped when deriving the range", "GREASE entries of supported_versions take part in the derived range")
	r.Check(okMax && okMin, "C13.4", "SetTLSVers:scan-min-max", c.Pos(fn.Decl), "range is [smallest, largest] listed version", "the derived range is not the running minimum/maximum of the listed versions")
	r.Check(!dependent, "C13.4", "SetTLSVers:scan-updates-independent", c.Pos(fn.Decl), "the minimum and the maximum update are separate statements (both run for the first / only entry)", "the minimum and maximum updates are chained with else: for a list with one version, or listed lowest first, one bound stays 0 and ApplyPreset fails (or accepts a range the hello does not advertise)")
	r.Floor("C13.4", 5)
}
