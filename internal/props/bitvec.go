package props

import (
	"fmt"
	"go/ast"
	"go/constant"
	"go/token"
	"go/types"

	"verif/internal/an"
)

// abit is one abstract bit: a constant, (the negation of) bit idx of a named input, or unknown.
type abit struct {
	kind byte // '0','1','i' (input bit), '?'
	src  string
	idx  int
	neg  bool
}

func (b abit) String() string {
	switch b.kind {
	case '0', '1':
		return string(b.kind)
	case 'i':
		n := ""
		if b.neg {
			n = "¬"
		}
		return fmt.Sprintf("%s%s[%d]", n, b.src, b.idx)
	}
	return "?"
}

func (b abit) same(o abit) bool {
	if b.kind != o.kind {
		return false
	}
	if b.kind == 'i' {
		return b.src == o.src && b.idx == o.idx && b.neg == o.neg
	}
	return b.kind != '?'
}

// BV is an abstract unsigned integer of width W (bits above W are zero).
type BV struct {
	W    int
	Bits [64]abit
}

func bvConst(v uint64, w int) BV {
	var r BV
	r.W = w
	for i := 0; i < 64; i++ {
		if i < w && v>>uint(i)&1 == 1 {
			r.Bits[i] = abit{kind: '1'}
		} else {
			r.Bits[i] = abit{kind: '0'}
		}
	}
	return r
}

func bvInput(name string, w int) BV {
	var r BV
	r.W = w
	for i := 0; i < 64; i++ {
		if i < w {
			r.Bits[i] = abit{kind: 'i', src: name, idx: i}
		} else {
			r.Bits[i] = abit{kind: '0'}
		}
	}
	return r
}

func bvUnknown(w int) BV {
	var r BV
	r.W = w
	for i := 0; i < 64; i++ {
		if i < w {
			r.Bits[i] = abit{kind: '?'}
		} else {
			r.Bits[i] = abit{kind: '0'}
		}
	}
	return r
}

func (v BV) trunc(w int) BV {
	r := v
	r.W = w
	for i := w; i < 64; i++ {
		r.Bits[i] = abit{kind: '0'}
	}
	return r
}

func (v BV) shl(n int) BV {
	r := bvConst(0, v.W)
	for i := 0; i < 64; i++ {
		if i-n >= 0 && i < v.W {
			r.Bits[i] = v.Bits[i-n]
		}
	}
	return r
}

func (v BV) shr(n int) BV {
	r := bvConst(0, v.W)
	for i := 0; i < 64; i++ {
		if i+n < 64 {
			r.Bits[i] = v.Bits[i+n]
		}
	}
	return r
}

func bitAnd(a, b abit) abit {
	switch {
	case a.kind == '0' || b.kind == '0':
		return abit{kind: '0'}
	case a.kind == '1':
		return b
	case b.kind == '1':
		return a
	case a.same(b):
		return a
	}
	return abit{kind: '?'}
}

func bitOr(a, b abit) abit {
	switch {
	case a.kind == '1' || b.kind == '1':
		return abit{kind: '1'}
	case a.kind == '0':
		return b
	case b.kind == '0':
		return a
	case a.same(b):
		return a
	}
	return abit{kind: '?'}
}

func bitXor(a, b abit) abit {
	switch {
	case a.kind == '0':
		return b
	case b.kind == '0':
		return a
	case a.kind == '1' && b.kind == '1':
		return abit{kind: '0'}
	case a.kind == '1' && b.kind == 'i':
		b.neg = !b.neg
		return b
	case b.kind == '1' && a.kind == 'i':
		a.neg = !a.neg
		return a
	case a.same(b):
		return abit{kind: '0'}
	}
	return abit{kind: '?'}
}

func (v BV) bitwise(o BV, f func(a, b abit) abit) BV {
	w := v.W
	if o.W > w {
		w = o.W
	}
	r := bvConst(0, w)
	for i := 0; i < 64; i++ {
		r.Bits[i] = f(v.Bits[i], o.Bits[i])
	}
	return r.trunc(w)
}

// add: exact when the operands have no common possibly-set bit (then + is |), or when one is constant
// zero; otherwise constant+constant; otherwise unknown.
func (v BV) add(o BV) BV {
	w := v.W
	if o.W > w {
		w = o.W
	}
	disjoint := true
	for i := 0; i < 64; i++ {
		if v.Bits[i].kind != '0' && o.Bits[i].kind != '0' {
			disjoint = false
		}
	}
	if disjoint {
		return v.bitwise(o, bitOr)
	}
	if a, ok := v.constVal(); ok {
		if b, ok := o.constVal(); ok {
			return bvConst(a+b, w).trunc(w)
		}
	}
	return bvUnknown(w)
}

func (v BV) constVal() (uint64, bool) {
	var x uint64
	for i := 0; i < 64; i++ {
		switch v.Bits[i].kind {
		case '1':
			x |= 1 << uint(i)
		case '0':
		default:
			return 0, false
		}
	}
	return x, true
}

// tri is a three-valued boolean.
type tri int

const (
	triUnknown tri = iota
	triTrue
	triFalse
)

func (v BV) eq(o BV) tri {
	all := true
	for i := 0; i < 64; i++ {
		a, b := v.Bits[i], o.Bits[i]
		if (a.kind == '0' && b.kind == '1') || (a.kind == '1' && b.kind == '0') {
			return triFalse
		}
		if a.kind == 'i' && b.kind == 'i' && a.src == b.src && a.idx == b.idx && a.neg != b.neg {
			return triFalse
		}
		if !a.same(b) {
			all = false
		}
	}
	if all {
		return triTrue
	}
	return triUnknown
}

func (v BV) String() string {
	s := ""
	for i := v.W - 1; i >= 0; i-- {
		b := v.Bits[i]
		switch b.kind {
		case '0', '1', '?':
			s += string(b.kind)
		default:
			s += "(" + b.String() + ")"
		}
	}
	return s
}

// ---- expression evaluation ----------------------------------------------------

type bvEnv struct {
	info *types.Info
	vars map[types.Object]BV
	// opaque gives a value for expressions the evaluator cannot look into (array reads, calls)
	opaque func(e ast.Expr, w int) (BV, bool)
	fail   string
}

func widthOf(t types.Type) int {
	if t == nil {
		return 64
	}
	if b, ok := t.Underlying().(*types.Basic); ok {
		switch b.Kind() {
		case types.Uint8, types.Int8:
			return 8
		case types.Uint16, types.Int16:
			return 16
		case types.Uint32, types.Int32:
			return 32
		}
	}
	return 64
}

func (e *bvEnv) eval(x ast.Expr) BV {
	x = an.Unparen(x)
	w := widthOf(e.info.TypeOf(x))
	if tv, ok := e.info.Types[x]; ok && tv.Value != nil && tv.Value.Kind() == constant.Int {
		if u, ok := constant.Uint64Val(constant.ToInt(tv.Value)); ok {
			return bvConst(u, 64).trunc(maxInt(w, bitLen(u)))
		}
	}
	switch v := x.(type) {
	case *ast.Ident:
		if o := objOf(e.info, v); o != nil {
			if b, ok := e.vars[o]; ok {
				return b
			}
		}
	case *ast.BinaryExpr:
		switch v.Op {
		case token.AND:
			return e.eval(v.X).bitwise(e.eval(v.Y), bitAnd)
		case token.OR:
			return e.eval(v.X).bitwise(e.eval(v.Y), bitOr)
		case token.XOR:
			return e.eval(v.X).bitwise(e.eval(v.Y), bitXor)
		case token.ADD:
			r := e.eval(v.X).add(e.eval(v.Y))
			return r.trunc(w)
		case token.SUB:
			a, b := e.eval(v.X), e.eval(v.Y)
			if ca, ok := a.constVal(); ok {
				if cb, ok := b.constVal(); ok {
					return bvConst(ca-cb, 64).trunc(w)
				}
			}
		case token.SHL, token.SHR:
			a, b := e.eval(v.X), e.eval(v.Y)
			if n, ok := b.constVal(); ok && n < 64 {
				if v.Op == token.SHL {
					return a.shl(int(n)).trunc(w)
				}
				return a.shr(int(n)).trunc(w)
			}
		case token.MUL:
			a, b := e.eval(v.X), e.eval(v.Y)
			if ca, ok := a.constVal(); ok {
				if cb, ok := b.constVal(); ok {
					return bvConst(ca*cb, 64).trunc(w)
				}
			}
		}
	case *ast.CallExpr:
		if tv, ok := e.info.Types[v.Fun]; ok && tv.IsType() && len(v.Args) == 1 {
			return e.eval(v.Args[0]).trunc(widthOf(tv.Type))
		}
	}
	if e.opaque != nil {
		if b, ok := e.opaque(x, w); ok {
			return b
		}
	}
	e.fail = "cannot evaluate " + types.ExprString(x)
	return bvUnknown(w)
}

// cond evaluates a boolean expression three-valuedly.
func (e *bvEnv) cond(x ast.Expr) tri {
	x = an.Unparen(x)
	switch v := x.(type) {
	case *ast.UnaryExpr:
		if v.Op == token.NOT {
			switch e.cond(v.X) {
			case triTrue:
				return triFalse
			case triFalse:
				return triTrue
			}
			return triUnknown
		}
	case *ast.BinaryExpr:
		switch v.Op {
		case token.LAND:
			a, b := e.cond(v.X), e.cond(v.Y)
			if a == triFalse || b == triFalse {
				return triFalse
			}
			if a == triTrue && b == triTrue {
				return triTrue
			}
			return triUnknown
		case token.LOR:
			a, b := e.cond(v.X), e.cond(v.Y)
			if a == triTrue || b == triTrue {
				return triTrue
			}
			if a == triFalse && b == triFalse {
				return triFalse
			}
			return triUnknown
		case token.EQL:
			return e.eval(v.X).eq(e.eval(v.Y))
		case token.NEQ:
			switch e.eval(v.X).eq(e.eval(v.Y)) {
			case triTrue:
				return triFalse
			case triFalse:
				return triTrue
			}
			return triUnknown
		}
	}
	return triUnknown
}

func maxInt(a, b int) int {
	if a > b {
		return a
	}
	return b
}

func bitLen(u uint64) int {
	n := 0
	for u != 0 {
		n++
		u >>= 1
	}
	return n
}
