package props

// Rules added after the second round of independently written breaking changes (seeded/) showed
// gaps in C10, C11, C15, C16, C17, C25 and C27. One function per rule; each comment names the
// clause decided, why the rule is a necessary condition of it, and the change that motivated it.

import (
	"fmt"
	"go/ast"
	"go/constant"
	"go/token"
	"go/types"
	"math"
	"strings"

	"golang.org/x/tools/go/cfg"

	"verif/internal/an"
	"verif/internal/load"
	"verif/internal/report"
)

func init() {
	registerExtra("C10", c10SuiteTable)
	registerExtra("C10", c10KeySizeBoundary)
	registerExtra("C11", c11ALPNFromThisHandshake)
	registerExtra("C11", c11PublishedSNI)
	registerExtra("C15", c15EncOnlyInFirstHello)
	registerExtra("C16", c16TagLength)
	registerExtra("C17", c17CookieEncoder)
	registerExtra("C25", c25RetryCountReset)
	registerExtra("C25", c25WriteKeyUnderLock)
	registerExtra("C27", c27WriteCount)
}

// ---- C10.6 (seeded C10-3): the suite table row of every implemented suite is the RFC's ----------
//
// Clause: "any cipher suite that utls implements and the hello offers: the handshake completes".
// Any row of cipherSuites (and of the init-time additions) can be offered by a parrot or a custom
// spec and be chosen by the server. A row whose key/MAC/IV length, flags or primitive constructor
// differs from the RFC's definition of that suite makes utls derive a key block a compliant peer
// does not derive: the first protected record (Finished) fails with bad_record_mac, i.e. the
// client aborts on a choice it offered. The fact is decided by the suite-table agreement engine
// written for C27.3 (entries against the RFC reference, constructors reduced to their primitive);
// it is borrowed here because the same source fact is a necessary condition of both properties.
func c10SuiteTable(c *Ctx) {
	c.R.Borrow(map[string]string{"C27.3-entry": "C10.6-entry", "C27.3-ctor": "C10.6-ctor"}, func() { c27Tables(c) })
	c.R.Floor("C10.6-ctor", 11)
}

// ---- C10.7 (seeded C10-4): the documented maximum RSA key size is itself accepted ---------------
//
// Clause: "certificate key type/size that utls implements ... the client never aborts on
// parameters within what it supports". checkKeySize(n) returns (max, ok); both verifiers abort
// with "RSA key larger than <max> bits" when ok is false. For every n in [0, max] the function
// must therefore answer ok == true; in particular at n == max (a comparison `n < max` refuses a
// certificate whose modulus has exactly the documented maximum size). Decided by executing the
// body on linear forms (internal/props/linexec.go): once with n = 0 to read the maximum the
// function reports, once with n ranging over [0, max], and at the boundary n = max for the
// counterexample. No shape of the comparison is assumed; a body the executor cannot run is
// undecided, not passing.
func c10KeySizeBoundary(c *Ctx) {
	r := c.R
	tls := c.P.TLS
	info := tls.TypesInfo
	const cons = "checkKeySize:maximum-accepted"
	fd := load.FuncDecl(tls, "", "checkKeySize")
	if fd == nil || fd.Body == nil {
		r.Unknown("C10.7", cons, "", "anchor function checkKeySize not found")
		return
	}
	defer r.Floor("C10.7", 1)
	var params []types.Object
	for _, fl := range fd.Type.Params.List {
		for _, nm := range fl.Names {
			params = append(params, info.Defs[nm])
		}
	}
	res := fd.Type.Results
	if len(params) != 1 || res == nil || res.NumFields() != 2 {
		r.Unknown("C10.7", cons, c.Pos(fd), "unexpected signature (want func(int) (int, bool))")
		return
	}
	run := func(v Lin, decide func(Lin, token.Token) tri) *linOutcome {
		x := &linExec{info: info, vars: map[types.Object]Lin{params[0]: v}, decide: decide}
		return x.run(fd.Body.List)
	}
	o0 := run(linConst(0), nil)
	if o0 == nil || o0.Kind != "return" || len(o0.Ret) != 2 || !o0.Ret[0].IsConst() || o0.Ret[0].C <= 0 {
		why := "no constant maximum is returned for n = 0"
		if o0 != nil && o0.Why != "" {
			why = o0.Why
		}
		r.Unknown("C10.7", cons, c.Pos(fd), "cannot evaluate checkKeySize: %s", why)
		return
	}
	max := o0.Ret[0].C
	// the whole accepted range
	if o := run(linAtom("n"), intervalOracle("n", 0, max)); o != nil && o.Kind == "return" && len(o.Bool) == 2 && o.Bool[1] == triTrue && o.Ret[0].IsConst() && o.Ret[0].C == max {
		r.Ok("C10.7", cons, c.Pos(fd), "checkKeySize(n) answers ok for every n in [0, %d]", max)
		return
	}
	// a concrete refused size: the boundary, then the value just below it
	for _, n := range []int64{max, max - 1, 0} {
		o := run(linConst(n), nil)
		if o == nil || o.Kind != "return" || len(o.Bool) != 2 || o.Bool[1] == triUnknown {
			why := "result not constant"
			if o != nil && o.Why != "" {
				why = o.Why
			}
			r.Unknown("C10.7", cons, c.Pos(fd), "cannot evaluate checkKeySize(%d): %s", n, why)
			return
		}
		if o.Bool[1] == triFalse {
			r.Bad("C10.7", cons, c.Pos(fd), "checkKeySize(%d) answers not-ok although it reports %d as the maximum: a certificate whose RSA modulus has %d bits (within the documented limit) aborts the handshake with \"RSA key larger than %d bits\"", n, max, n, max)
			return
		}
	}
	r.Unknown("C10.7", cons, c.Pos(fd), "the answer of checkKeySize is not uniform on [0, %d] and no refused size was found at the boundary", max)
}

// ---- C11.4 (seeded C11-3): the reported ALPN protocol is the one of this ServerHello -------------
//
// Clause: "client and server report the same negotiated protocol". The server reports what it
// selected in this handshake. The client reports Conn.clientProtocol; every store to that field
// on the client path must therefore take the value checkALPN examined (the protocol of the
// ServerHello / EncryptedExtensions just received), and only behind that validation. A store from
// anywhere else (the cached session's protocol on a TLS 1.2 resumption whose abbreviated
// ServerHello selected none) makes the two sides disagree. These are the C12.3 obligations on
// Conn.clientProtocol; borrowed, restricted to that field.
func c11ALPNFromThisHandshake(c *Ctx) {
	c.R.BorrowIf(map[string]string{"C12.3": "C11.4"}, func(o report.Obligation) bool {
		return strings.Contains(o.Construct, "clientProtocol")
	}, func() { runC12(c) })
	c.R.Floor("C11.4", 4)
}

// ---- C11.5 (seeded C11-4): an extension publishes to Hello.ServerName the name its encoder sends --
//
// Clause: "client and server report the same server name" — the client reports Conn.serverName,
// which is Hello.ServerName of the hello that is written (C11.1); the server reports the name in
// the server_name extension it received, i.e. what SNIExtension.Read wrote. The two agree for
// every configured name only if every store to Hello.ServerName made by an extension's
// writeToUConn takes the very value the extension's encoder puts on the wire: the same function
// applied to the same receiver field (today hostnameInSNI(e.ServerName): IP literals and empty
// names send nothing, a trailing dot is cut). The normaliser is read from Len/Read, not assumed.
func c11PublishedSNI(c *Ctx) {
	r := c.R
	tls := c.P.TLS
	info := tls.TypesInfo
	n := 0
	for _, fd := range load.AllFuncDecls(tls) {
		if fd.Name.Name != "writeToUConn" || fd.Recv == nil || fd.Body == nil || len(fd.Recv.List) != 1 || len(fd.Recv.List[0].Names) != 1 {
			continue
		}
		isName := func(e ast.Expr) bool { return an.FieldSel(info, an.Unparen(e), "PubClientHelloMsg", "ServerName") }
		if !an.Contains(fd.Body, an.AssignsTo(isName)) {
			continue
		}
		T := load.RecvName(fd)
		fn := an.NewFn(tls, fd)
		// what the encoder sends: calls f(recv.<field>) in Len/Read whose result is a string
		type norm struct {
			f     types.Object // nil: the raw field
			field *types.Var
		}
		var sent []norm
		recvField := func(m *ast.FuncDecl, e ast.Expr) *types.Var {
			if m.Recv == nil || len(m.Recv.List) != 1 || len(m.Recv.List[0].Names) != 1 {
				return nil
			}
			se, ok := an.Unparen(e).(*ast.SelectorExpr)
			if !ok {
				return nil
			}
			id, ok := an.Unparen(se.X).(*ast.Ident)
			if !ok || objOf(info, id) != info.Defs[m.Recv.List[0].Names[0]] {
				return nil
			}
			sel := info.Selections[se]
			if sel == nil || sel.Kind() != types.FieldVal {
				return nil
			}
			v, _ := sel.Obj().(*types.Var)
			return v
		}
		isString := func(t types.Type) bool {
			b, ok := t.Underlying().(*types.Basic)
			return ok && b.Info()&types.IsString != 0
		}
		for _, mn := range []string{"Len", "Read"} {
			m := load.FuncDecl(tls, T, mn)
			if m == nil || m.Body == nil {
				continue
			}
			ast.Inspect(m.Body, func(x ast.Node) bool {
				call, ok := x.(*ast.CallExpr)
				if !ok || len(call.Args) != 1 {
					return true
				}
				if tv, isConv := info.Types[call.Fun]; isConv && tv.IsType() {
					return true
				}
				f, _ := an.Callee(info, call).(*types.Func)
				if f == nil || f.Pkg() != tls.Types {
					return true
				}
				if t := info.TypeOf(call); t == nil || !isString(t) {
					return true
				}
				if v := recvField(m, call.Args[0]); v != nil && isString(v.Type()) {
					sent = append(sent, norm{f, v})
				}
				return true
			})
		}
		for _, h := range fn.FindNodes(an.AssignsTo(isName)) {
			as, ok := h.N.(*ast.AssignStmt)
			if !ok {
				continue
			}
			for i, l := range as.Lhs {
				if !isName(l) {
					continue
				}
				n++
				cons := T + ".writeToUConn:Hello.ServerName-is-the-name-sent"
				if len(as.Rhs) != len(as.Lhs) {
					r.Unknown("C11.5", cons, c.Pos(as), "multi-value store to Hello.ServerName")
					continue
				}
				rhs := an.Unparen(inlineLocal(fn, as.Rhs[i]))
				var got norm
				if call, ok := rhs.(*ast.CallExpr); ok && len(call.Args) == 1 {
					got = norm{an.Callee(info, call), recvField(fd, inlineLocal(fn, call.Args[0]))}
				} else {
					got = norm{nil, recvField(fd, rhs)}
				}
				okStore := false
				var want []string
				for _, s := range sent {
					if s == got && got.field != nil {
						okStore = true
					}
					want = append(want, s.f.Name()+"(e."+s.field.Name()+")")
				}
				if len(sent) == 0 {
					// the encoder sends the raw field: the raw field must be published
					okStore = got.f == nil && got.field != nil
					want = []string{"the receiver field the encoder writes"}
				}
				r.Check(okStore, "C11.5", cons, c.Pos(as),
					"the published name is the value the encoder writes ("+strings.Join(dedup(want), ", ")+")",
					fmt.Sprintf("Hello.ServerName receives %s, but the encoder of %s sends %s: for an IP literal, an empty name or a name with a trailing dot the client reports a server name that differs from the server_name it sent (the server reports what it received)", an.Str(as.Rhs[i]), T, strings.Join(dedup(want), " / ")))
			}
		}
	}
	if n == 0 {
		r.Unknown("C11.5", "writeToUConn:Hello.ServerName", "", "no extension stores Hello.ServerName")
	}
	r.Floor("C11.5", 1)
}

func dedup(xs []string) []string {
	seen := map[string]bool{}
	var out []string
	for _, x := range xs {
		if !seen[x] {
			seen[x] = true
			out = append(out, x)
		}
	}
	return out
}

// ---- C15.10 (seeded C15-4): the encapsulated key is sent in the first outer hello only ----------
//
// Clause: "An accepting server completes the handshake (also after a HelloRetryRequest)". The
// outer ECH extension's enc field carries the HPKE encapsulated key in the first ClientHelloOuter
// and must be empty in the one sent in response to a HelloRetryRequest (the server aborts with
// illegal_parameter otherwise; and the AAD the payload was sealed over was built with the same
// enc, so the placeholder and the final extension must agree). Both builders
// (computeAndUpdateOuterECHExtension in ech.go and the UConn method) receive the distinction as
// their boolean parameter. Demanded, for every call of generateOuterECHExt in them: on the paths
// where that parameter is false every definition reaching the enc argument is the empty slice; on
// the paths where it is true every reaching definition is <ech>.encapsulatedKey (reaching
// definitions on the CFG with the infeasible outcomes of the parameter's tests blocked; the enc
// parameter of generateOuterECHExt is found as the source of its first length-prefixed byte
// string). And one level up: the calls made while answering a HelloRetryRequest pass false, all
// others true.
func c15EncOnlyInFirstHello(c *Ctx) {
	r := c.R
	tls := c.P.TLS
	info := tls.TypesInfo
	defer r.Floor("C15.10", 12)
	gen := load.FuncDecl(tls, "", "generateOuterECHExt")
	if gen == nil || gen.Body == nil {
		r.Unknown("C15.10", "generateOuterECHExt", "", "anchor function generateOuterECHExt not found")
		return
	}
	encIdx := c15EncParamIndex(info, gen)
	if encIdx < 0 {
		r.Unknown("C15.10", "generateOuterECHExt:enc-parameter", c.Pos(gen), "cannot tell which parameter becomes the first length-prefixed byte string (enc)")
		return
	}
	isKey := func(e ast.Expr) bool { return an.FieldSel(info, an.Unparen(e), c15ECH, "encapsulatedKey") }
	for _, site := range []struct{ recv, name string }{{"", "computeAndUpdateOuterECHExtension"}, {"UConn", "computeAndUpdateOuterECHExtension"}} {
		fn := c.Fn("C15.10", site.recv, site.name)
		if fn == nil {
			continue
		}
		who := site.name
		if site.recv != "" {
			who = site.recv + "." + site.name
		}
		flag, _ := c15BoolParam(info, fn.Decl)
		if flag == nil {
			r.Unknown("C15.10", who+":first-hello-flag", c.Pos(fn.Decl), "the function has no single boolean parameter telling the first hello from the one after a HelloRetryRequest")
			continue
		}
		if len(r2DefsOf(fn, flag)) > 0 {
			r.Unknown("C15.10", who+":first-hello-flag", c.Pos(fn.Decl), "the boolean parameter %s is re-assigned", flag.Name())
			continue
		}
		isFlag := func(e ast.Expr) bool {
			id, ok := an.Unparen(e).(*ast.Ident)
			return ok && objOf(info, id) == flag
		}
		onlyTrue, _, _ := condEdges(fn, func(a ast.Expr) (bool, bool) { return isFlag(a), true })
		onlyFalse, _, _ := condEdges(fn, func(a ast.Expr) (bool, bool) { return isFlag(a), false })
		edgeSet := func(es []an.Edge) map[an.Edge]bool {
			m := map[an.Edge]bool{}
			for _, e := range es {
				m[e] = true
			}
			return m
		}
		// value classes of an expression: "key", "empty", or a local variable to be resolved by
		// reaching definitions
		var classify func(e ast.Expr) (string, types.Object)
		classify = func(e ast.Expr) (string, types.Object) {
			e = an.Unparen(inlineLocal(fn, e))
			switch {
			case an.IsNilIdent(info, e):
				return "empty", nil
			case isKey(e):
				return "key", nil
			}
			switch x := e.(type) {
			case *ast.CompositeLit:
				if len(x.Elts) == 0 {
					return "empty", nil
				}
			case *ast.CallExpr:
				if tv, ok := info.Types[x.Fun]; ok && tv.IsType() && len(x.Args) == 1 {
					return classify(x.Args[0])
				}
			case *ast.Ident:
				if v, ok := objOf(info, x).(*types.Var); ok && v.Parent() != nil && v.Parent() != tls.Types.Scope() && !v.IsField() {
					return "", v
				}
			}
			return "?", nil
		}
		calls := fn.FindNodes(an.CallTo(info, Mod, "", "generateOuterECHExt"))
		if len(calls) == 0 {
			r.Bad("C15.10", who+":enc", c.Pos(fn.Decl), "%s no longer builds the outer extension with generateOuterECHExt", who)
		}
		for i, h := range calls {
			call := h.N.(*ast.CallExpr)
			if encIdx >= len(call.Args) {
				continue
			}
			arg := call.Args[encIdx]
			for _, world := range []struct {
				name, want, bad string
				blocked         map[an.Edge]bool
			}{
				{"after-hrr-empty", "empty", "the second ClientHelloOuter (after a HelloRetryRequest) carries a non-empty enc: the server answers illegal_parameter (\"second client hello encrypted client hello extension does not match\") and the extension differs from the placeholder the payload's AAD was built with", edgeSet(onlyTrue)},
				{"first-hello-key", "key", "the first ClientHelloOuter does not carry the HPKE encapsulated key of this connection's context: the server cannot open the inner hello", edgeSet(onlyFalse)},
			} {
				cons := fmt.Sprintf("%s:enc#%d:%s", who, i+1, world.name)
				if !fn.ReachFromEntry(nil, world.blocked)[h.P] {
					r.Ok("C15.10", cons, c.Pos(call), "call not reached in this case")
					continue
				}
				got := r2ReachingClasses(fn, h.P, arg, world.blocked, classify)
				var wrong []string
				undecided := false
				for cl, src := range got {
					switch cl {
					case world.want:
					case "?":
						undecided = true
						wrong = append(wrong, src)
					default:
						wrong = append(wrong, src)
					}
				}
				switch {
				case len(wrong) == 0 && len(got) > 0:
					r.Ok("C15.10", cons, c.Pos(call), "enc argument %s is %s whenever %s is %v", an.Str(arg), world.want, flag.Name(), world.want == "key")
				case undecided || len(got) == 0:
					r.Unknown("C15.10", cons, c.Pos(call), "cannot classify the value reaching the enc argument %s (%s)", an.Str(arg), strings.Join(wrong, "; "))
				default:
					r.Bad("C15.10", cons, c.Pos(call), "with %s == %v the value reaching the enc argument %s is %s, not %s: %s", flag.Name(), world.want == "key", an.Str(arg), strings.Join(wrong, "; "), map[string]string{"empty": "the empty slice", "key": "the context's encapsulated key"}[world.want], world.bad)
				}
			}
		}
	}
	// callers: false while answering a HelloRetryRequest, true otherwise
	targets := map[types.Object]int{}
	for _, site := range []struct{ recv, name string }{{"", "computeAndUpdateOuterECHExtension"}, {"UConn", "computeAndUpdateOuterECHExtension"}} {
		if fd := load.FuncDecl(tls, site.recv, site.name); fd != nil {
			if _, idx := c15BoolParam(info, fd); idx >= 0 {
				targets[info.Defs[fd.Name]] = idx
			}
		}
	}
	for _, fd := range load.AllFuncDecls(tls) {
		if fd.Body == nil || strings.HasSuffix(c.P.Fset.Position(fd.Pos()).Filename, "_test.go") {
			continue
		}
		ord := 0
		caller := fd.Name.Name
		if rn := load.RecvName(fd); rn != "" {
			caller = rn + "." + caller
		}
		ast.Inspect(fd.Body, func(x ast.Node) bool {
			call, ok := x.(*ast.CallExpr)
			if !ok {
				return true
			}
			idx, isTarget := targets[an.Callee(info, call)]
			if !isTarget || idx >= len(call.Args) {
				return true
			}
			ord++
			cons := fmt.Sprintf("caller:%s#%d:first-hello-flag", caller, ord)
			inHRR := fd.Name.Name == "processHelloRetryRequest"
			tv, ok := info.Types[call.Args[idx]]
			if !ok || tv.Value == nil || tv.Value.Kind() != constant.Bool {
				r.Unknown("C15.10", cons, c.Pos(call), "the flag argument %s is not a constant", an.Str(call.Args[idx]))
				return true
			}
			v := constant.BoolVal(tv.Value)
			if inHRR {
				r.Check(!v, "C15.10", cons, c.Pos(call), "the hello answering a HelloRetryRequest is built without the encapsulated key", "the ClientHello answering a HelloRetryRequest is built with the encapsulated key (flag true): enc must be empty there and the server rejects the hello")
			} else {
				r.Check(v, "C15.10", cons, c.Pos(call), "the first hello is built with the encapsulated key", "the first ClientHelloOuter is built without the encapsulated key (flag false): the server cannot set up the HPKE context and ECH is never accepted")
			}
			return true
		})
	}
}

// c15EncParamIndex: index of the parameter of generateOuterECHExt that is written as the first
// length-prefixed byte string of the extension body (enc precedes payload on the wire).
func c15EncParamIndex(info *types.Info, gen *ast.FuncDecl) int {
	var params []types.Object
	for _, fl := range gen.Type.Params.List {
		for _, nm := range fl.Names {
			params = append(params, info.Defs[nm])
		}
	}
	idx := -1
	ast.Inspect(gen.Body, func(x ast.Node) bool {
		if idx >= 0 {
			return false
		}
		call, ok := x.(*ast.CallExpr)
		if !ok || len(call.Args) != 1 {
			return true
		}
		f, _ := an.Callee(info, call).(*types.Func)
		if f == nil || !strings.HasSuffix(f.Name(), "LengthPrefixed") {
			return true
		}
		fl, ok := call.Args[0].(*ast.FuncLit)
		if !ok {
			return true
		}
		ast.Inspect(fl.Body, func(y ast.Node) bool {
			inner, ok := y.(*ast.CallExpr)
			if !ok || len(inner.Args) != 1 {
				return true
			}
			if g, _ := an.Callee(info, inner).(*types.Func); g == nil || g.Name() != "AddBytes" {
				return true
			}
			if id, ok := an.Unparen(inner.Args[0]).(*ast.Ident); ok && idx < 0 {
				for i, p := range params {
					if objOf(info, id) == p {
						idx = i
					}
				}
			}
			return true
		})
		return false
	})
	return idx
}

// c15BoolParam returns the only boolean parameter of fd and its index.
func c15BoolParam(info *types.Info, fd *ast.FuncDecl) (types.Object, int) {
	var found types.Object
	at, i := -1, 0
	for _, fl := range fd.Type.Params.List {
		for _, nm := range fl.Names {
			o := info.Defs[nm]
			if o != nil {
				if b, ok := o.Type().Underlying().(*types.Basic); ok && b.Info()&types.IsBoolean != 0 {
					if found != nil {
						return nil, -1
					}
					found, at = o, i
				}
			}
			i++
		}
	}
	return found, at
}

// r2Def is one definition of a local: the CFG point and the value assigned (nil: zero value of a
// var declaration; unknown: a definition whose value is not a plain expression).
type r2Def struct {
	p       an.Point
	val     ast.Expr
	unknown bool
}

// r2DefsOf lists the definitions of v in fn (assignments, declarations, inc/dec, range
// variables, address-taking — the last three as unknown values). Parameters' initial values are
// not definitions.
func r2DefsOf(fn *an.Fn, v types.Object) []r2Def {
	info := fn.Info
	var out []r2Def
	for _, b := range fn.G.Blocks {
		if !b.Live {
			continue
		}
		for i, n := range b.Nodes {
			p := an.Point{B: b, I: i}
			is := func(e ast.Expr) bool {
				id, ok := an.Unparen(e).(*ast.Ident)
				return ok && objOf(info, id) == v
			}
			switch s := n.(type) {
			case *ast.AssignStmt:
				for k, l := range s.Lhs {
					if !is(l) {
						continue
					}
					if len(s.Lhs) == len(s.Rhs) && (s.Tok == token.ASSIGN || s.Tok == token.DEFINE) {
						out = append(out, r2Def{p: p, val: s.Rhs[k]})
					} else {
						out = append(out, r2Def{p: p, unknown: true})
					}
				}
			case *ast.ValueSpec:
				for k, nm := range s.Names {
					if info.Defs[nm] != v {
						continue
					}
					switch {
					case len(s.Values) == 0:
						out = append(out, r2Def{p: p})
					case k < len(s.Values) && len(s.Values) == len(s.Names):
						out = append(out, r2Def{p: p, val: s.Values[k]})
					default:
						out = append(out, r2Def{p: p, unknown: true})
					}
				}
			case *ast.IncDecStmt:
				if is(s.X) {
					out = append(out, r2Def{p: p, unknown: true})
				}
			case *ast.Ident: // range key/value definitions appear as bare identifiers
				if info.Defs[s] == v {
					out = append(out, r2Def{p: p, unknown: true})
				}
			}
			// address taken or assigned inside a closure: value unknown from here on
			ast.Inspect(n, func(x ast.Node) bool {
				switch y := x.(type) {
				case *ast.UnaryExpr:
					if y.Op == token.AND && is(y.X) {
						out = append(out, r2Def{p: p, unknown: true})
					}
				case *ast.FuncLit:
					ast.Inspect(y.Body, func(z ast.Node) bool {
						if as, ok := z.(*ast.AssignStmt); ok {
							for _, l := range as.Lhs {
								if is(l) {
									out = append(out, r2Def{p: p, unknown: true})
								}
							}
						}
						return true
					})
					return false
				}
				return true
			})
		}
	}
	return out
}

// r2ReachingClasses classifies every value that can reach expression e at point at, on the
// paths that avoid the blocked edges: e itself when it is not a multiply-defined local, otherwise
// the values of the definitions of that local that reach the point. Result: class -> a rendering
// of one source of that class.
func r2ReachingClasses(fn *an.Fn, at an.Point, e ast.Expr, blocked map[an.Edge]bool, classify func(ast.Expr) (string, types.Object)) map[string]string {
	out := map[string]string{}
	var visit func(e ast.Expr, at an.Point, depth int)
	visit = func(e ast.Expr, at an.Point, depth int) {
		cl, v := classify(e)
		if v == nil {
			out[cl] = an.Str(e)
			return
		}
		if depth > 3 {
			out["?"] = an.Str(e)
			return
		}
		defs := r2DefsOf(fn, v)
		if len(defs) == 0 {
			out["?"] = v.Name() + " (no definition in the function)"
			return
		}
		others := func(self an.Point) map[an.Point]bool {
			m := map[an.Point]bool{}
			for _, d := range defs {
				if d.p != self {
					m[d.p] = true
				}
			}
			return m
		}
		fromEntry := fn.ReachFromEntry(nil, blocked)
		any := false
		for _, d := range defs {
			if !fromEntry[d.p] {
				continue
			}
			// does this definition reach `at` without being overwritten?
			if d.p != at && !fn.Reach(d.p, others(d.p), blocked)[at] {
				continue
			}
			any = true
			switch {
			case d.unknown:
				out["?"] = v.Name() + " (defined in a way that is not a plain assignment)"
			case d.val == nil:
				out["empty"] = "the zero value of " + v.Name()
			default:
				visit(d.val, d.p, depth+1)
			}
		}
		if !any {
			out["?"] = v.Name() + " (no definition reaches the call)"
		}
	}
	visit(e, at, 0)
	return out
}

// ---- C16.9 (seeded C16-3): every handled AEAD adds the 16-byte tag ------------------------------
//
// Clause: "a payload length equal to a candidate length plus the AEAD tag size". The GREASE
// payload is sized by cipherLen(aead, candidate). All three AEADs of RFC 9180 (AES-128-GCM,
// AES-256-GCM, ChaCha20-Poly1305; ids 1, 2, 3) have Nt = 16, so cipherLen must return mLen+16 for
// each of them separately; a case returning anything else (12, the nonce size, for one id) gives
// payloads that no real ECH client produces whenever that AEAD is drawn. C16.2 only looked for
// one clause with +16; here the body is executed (linear executor) once per AEAD id with mLen
// symbolic, so if-chains, switches, named constants and hoisted locals all evaluate alike.
func c16TagLength(c *Ctx) {
	r := c.R
	tls := c.P.TLS
	info := tls.TypesInfo
	defer r.Floor("C16.9", 3)
	fd := load.FuncDecl(tls, "", "cipherLen")
	if fd == nil || fd.Body == nil {
		r.Unknown("C16.9", "cipherLen", "", "anchor function cipherLen not found")
		return
	}
	var params []types.Object
	for _, fl := range fd.Type.Params.List {
		for _, nm := range fl.Names {
			params = append(params, info.Defs[nm])
		}
	}
	if len(params) != 2 {
		r.Unknown("C16.9", "cipherLen", c.Pos(fd), "unexpected signature")
		return
	}
	const tag = 16 // RFC 9180 section 7.3: Nt of every registered AEAD except export-only
	for _, a := range []struct {
		id   int64
		name string
	}{{1, "AES-128-GCM"}, {2, "AES-256-GCM"}, {3, "ChaCha20-Poly1305"}} {
		cons := fmt.Sprintf("cipherLen:aead=%d", a.id)
		x := &linExec{info: info, vars: map[types.Object]Lin{params[0]: linConst(a.id), params[1]: linAtom("mLen")}}
		o := x.run(fd.Body.List)
		switch {
		case o != nil && o.Kind == "return" && len(o.Ret) == 1:
			got := o.Ret[0]
			r.Check(got.Eq(linAtom("mLen").AddC(tag)), "C16.9", cons, c.Pos(fd), "cipherLen("+a.name+", mLen) = mLen+16",
				fmt.Sprintf("cipherLen(%s, mLen) = %s, not mLen+%d (the tag of every HPKE AEAD has 16 bytes): whenever this AEAD is drawn the GREASE ECH payload length is not a candidate length plus the tag size", a.name, got.String(), tag))
		case o != nil && o.Kind == "panic":
			r.Bad("C16.9", cons, c.Pos(fd), "cipherLen panics for AEAD id %d (%s), which the parrots' candidate lists may name", a.id, a.name)
		default:
			why := "the body falls off its end"
			if o != nil && o.Why != "" {
				why = o.Why
			}
			r.Unknown("C16.9", cons, c.Pos(fd), "cannot evaluate cipherLen for AEAD id %d: %s", a.id, why)
		}
	}
}

// ---- C17.10 (seeded C17-4): the cookie extension's encoder is well-formed for every cookie ------
//
// Clauses: "the cookie extension must echo the server's cookie" and "the handshake then
// completes". After a HelloRetryRequest with a cookie the second ClientHello of every parrot is
// produced by CookieExtension.Len/Read. If its length prefixes do not describe its body for every
// cookie length (e.g. the high byte of the inner length taken from the outer length, which differs
// from it for lengths 254/255 mod 256) the server cannot parse the second hello, or reads a cookie
// other than the one it sent. These are the encoder-layout obligations (engine E2) that C02.2 and
// C08.1 generate for every extension; instantiated here for the one extension the
// HelloRetryRequest path stores into, plus the demand that the bytes after the inner prefix are
// the Cookie field itself.
func c17CookieEncoder(c *Ctx) {
	r := c.R
	var ext *extImpl
	for _, e := range tlsExtensions(c) {
		if e.Name == "CookieExtension" {
			ext = e
		}
	}
	if ext == nil {
		r.Unknown("C17.10", "CookieExtension", "", "type not found")
		return
	}
	res := checkEncoder(c, "C17.10", ext)
	echoed := false
	for _, f := range res.fields {
		if strings.HasSuffix(f.data, ".Cookie") && f.w.Eq(linAtom("len(e.Cookie)")) {
			echoed = true
		}
	}
	if len(res.fields) > 0 {
		r.Check(echoed, "C17.10", "CookieExtension:cookie-bytes", c.Pos(ext.Read), "the body is the Cookie field, len(e.Cookie) bytes", "the encoder does not copy the whole Cookie field into the extension body: the server's cookie is not echoed")
	}
	r.Floor("C17.10", 5)
}

// ---- C25.7 (seeded C25-3): every record that delivers data resets the useless-record counter ----
//
// Clause: "for any sequence of reads and writes the byte stream each side reads equals what the
// peer wrote" (the stream must not be cut short by a spurious error). Conn.retryCount counts
// *consecutive* records that neither advance the handshake nor deliver application data; at
// maxUselessRecords the read fails. Empty application_data records (OpenSSL's CBC countermeasure)
// and TLS 1.2 warning alerts are legal in any number as long as data flows in between, so every
// record whose payload is handed on (stored into c.input or appended to c.hand) must set the
// counter back to zero; otherwise the counter is a lifetime total and a long conversation dies
// after the 33rd empty record. Decided per delivery point: what is known there about the record
// (the switch case / comparisons on the record type, len(data) != 0) is used to discard the
// outcomes of earlier conditions that cannot have been taken (only facts about locals that are not
// re-assigned in between are used), and every remaining path from the entry to the delivery
// must pass `c.retryCount = 0`.
func c25RetryCountReset(c *Ctx) {
	r := c.R
	info := c.Info()
	defer r.Floor("C25.7", 2)
	fn := c.Fn("C25.7", "Conn", "readRecordOrCCS")
	if fn == nil {
		return
	}
	resets := fn.Find(func(n ast.Node) bool {
		as, ok := n.(*ast.AssignStmt)
		if !ok || as.Tok != token.ASSIGN || len(as.Lhs) != 1 || len(as.Rhs) != 1 {
			return false
		}
		if !an.FieldSel(info, an.Unparen(as.Lhs[0]), "Conn", "retryCount") {
			return false
		}
		v, ok := an.ConstInt(info, as.Rhs[0])
		return ok && v == 0
	})
	// the record's plaintext: the locals assigned from halfConn.decrypt
	var plain []types.Object
	an.Inner(fn.Body, func(n ast.Node) bool {
		as, ok := n.(*ast.AssignStmt)
		if !ok || len(as.Rhs) != 1 {
			return true
		}
		if call, ok := an.Unparen(as.Rhs[0]).(*ast.CallExpr); ok && an.IsCallTo(info, call, Mod, "halfConn", "decrypt") {
			for _, l := range as.Lhs {
				if id, ok := l.(*ast.Ident); ok && id.Name != "_" {
					if _, isSlice := info.TypeOf(id).Underlying().(*types.Slice); isSlice {
						plain = append(plain, objOf(info, id))
					}
				}
			}
		}
		return true
	})
	// a delivery hands that plaintext to the application-data reader or the handshake buffer
	deliveries := fn.FindNodes(func(n ast.Node) bool {
		call, ok := n.(*ast.CallExpr)
		if !ok || len(call.Args) == 0 {
			return false
		}
		se, ok := call.Fun.(*ast.SelectorExpr)
		if !ok {
			return false
		}
		x := an.Unparen(se.X)
		if !an.FieldSel(info, x, "Conn", "input") && !an.FieldSel(info, x, "Conn", "hand") {
			return false
		}
		for _, a := range call.Args {
			for _, o := range plain {
				if mentionsThroughLocals(fn, a, o, 0) {
					return true
				}
			}
		}
		return false
	})
	if len(deliveries) == 0 {
		r.Unknown("C25.7", "readRecordOrCCS:deliveries", c.Pos(fn.Decl), "no hand-over of the decrypted record (result of halfConn.decrypt) to c.input / c.hand found")
		return
	}
	pf := newPathFacts(fn)
	for _, d := range deliveries {
		call := d.N.(*ast.CallExpr)
		cons := "readRecordOrCCS:reset-before:" + an.Str(call.Fun)
		if len(resets) == 0 {
			r.Bad("C25.7", cons, c.Pos(call), "readRecordOrCCS never sets c.retryCount back to 0: the limit on consecutive useless records becomes a limit on their total number and a long conversation with interleaved empty records fails with \"too many ignored records\"")
			continue
		}
		blocked, known := pf.infeasible(d.P)
		var infeasible []an.Edge
		for e := range blocked {
			infeasible = append(infeasible, e)
		}
		// every path either passes a reset or takes an outcome that cannot occur for this record
		if fn.MustPass(d.P, resets, infeasible) {
			r.Ok("C25.7", cons, c.Pos(call), "every path to this delivery consistent with what is known there (%s) resets c.retryCount", known)
			continue
		}
		// name the condition that lets a delivering record skip the reset
		culprit := ""
		for _, rp := range resets {
			for _, cc := range controllingConds(fn, rp) {
				t, f, _ := an.CondEdges(cc.at.B)
				other := t
				if cc.outcome {
					other = f
				}
				if !blocked[other] && fn.Reach(cc.at, nil, edgesExcept(other))[d.P] {
					culprit = an.Str(pf.condOf(cc.at.B))
				}
			}
		}
		r.Bad("C25.7", cons, c.Pos(call), "a record that reaches %s (%s) can skip `c.retryCount = 0` (reset guarded by %s): the counter of consecutive useless records is not reset by every record that delivers data, so legal empty records / warning alerts add up over the connection's lifetime and Read fails with \"too many ignored records\"", an.Str(call.Fun), known, culprit)
	}
}

// pathFacts: facts known at a CFG point from the conditions controlling it, used to discard
// infeasible outcomes of other conditions of the same function.
type pathFacts struct {
	fn      *an.Fn
	caseTag map[ast.Expr]ast.Expr // case value expression -> tag of its switch
	defs    map[types.Object][]r2Def
}

func newPathFacts(fn *an.Fn) *pathFacts {
	pf := &pathFacts{fn: fn, caseTag: map[ast.Expr]ast.Expr{}, defs: map[types.Object][]r2Def{}}
	an.Inner(fn.Body, func(n ast.Node) bool {
		sw, ok := n.(*ast.SwitchStmt)
		if !ok || sw.Tag == nil {
			return true
		}
		for _, cl := range sw.Body.List {
			for _, e := range cl.(*ast.CaseClause).List {
				pf.caseTag[e] = sw.Tag
			}
		}
		return true
	})
	return pf
}

// condOf returns the condition a block ends in (tag == value for a switch case).
func (pf *pathFacts) condOf(b *cfg.Block) ast.Expr {
	e := b.Nodes[len(b.Nodes)-1].(ast.Expr)
	if c := pf.condExpr(e); c != nil {
		return c
	}
	return e
}

// r2Range: what is known about an integer-valued subject (a local, or len of a local).
type r2Range struct {
	lo, hi int64
	not    map[int64]bool
}

func (pf *pathFacts) condExpr(e ast.Expr) ast.Expr {
	if tag, ok := pf.caseTag[e]; ok {
		return &ast.BinaryExpr{X: tag, Op: token.EQL, Y: e}
	}
	if !isBoolAtom(pf.fn.Info, e) {
		return nil
	}
	return e
}

// subject renders e when it is a local variable (not address-taken) or len(local); returns the
// variable too.
func (pf *pathFacts) subject(e ast.Expr) (string, types.Object, bool) {
	info := pf.fn.Info
	e = an.Unparen(e)
	for {
		cv, ok := e.(*ast.CallExpr)
		if !ok || len(cv.Args) != 1 {
			break
		}
		if tv, ok := info.Types[cv.Fun]; ok && tv.IsType() {
			e = an.Unparen(cv.Args[0])
			continue
		}
		break
	}
	isLen := false
	if call, ok := e.(*ast.CallExpr); ok && lenOperand(info, call) != "" {
		isLen = true
		e = an.Unparen(call.Args[0])
	}
	id, ok := e.(*ast.Ident)
	if !ok {
		return "", nil, false
	}
	v, ok := objOf(info, id).(*types.Var)
	if !ok || v.IsField() || v.Parent() == nil || v.Pkg() == nil || v.Parent() == v.Pkg().Scope() {
		return "", nil, false
	}
	if isLen {
		return "len(" + v.Name() + ")", v, true
	}
	return v.Name(), v, false
}

// cmp normalises `subject op K` (constant on either side).
func (pf *pathFacts) cmp(e ast.Expr) (subj string, v types.Object, isLen bool, op token.Token, k int64, ok bool) {
	info := pf.fn.Info
	be, isB := an.Unparen(e).(*ast.BinaryExpr)
	if !isB {
		return
	}
	switch be.Op {
	case token.EQL, token.NEQ, token.LSS, token.LEQ, token.GTR, token.GEQ:
	default:
		return
	}
	x, y, o := be.X, be.Y, be.Op
	if _, isConst := an.ConstInt(info, x); isConst {
		x, y = y, x
		switch o {
		case token.LSS:
			o = token.GTR
		case token.GTR:
			o = token.LSS
		case token.LEQ:
			o = token.GEQ
		case token.GEQ:
			o = token.LEQ
		}
	}
	kv, isConst := an.ConstInt(info, y)
	if !isConst {
		return
	}
	s, obj, l := pf.subject(x)
	if obj == nil {
		return
	}
	return s, obj, l, o, kv, true
}

func negOp(op token.Token) token.Token {
	switch op {
	case token.EQL:
		return token.NEQ
	case token.NEQ:
		return token.EQL
	case token.LSS:
		return token.GEQ
	case token.GEQ:
		return token.LSS
	case token.GTR:
		return token.LEQ
	case token.LEQ:
		return token.GTR
	}
	return op
}

// factsAt collects, from the conditions controlling p, ranges for integer subjects.
func (pf *pathFacts) factsAt(p an.Point) (map[string]*r2Range, map[string]types.Object) {
	facts := map[string]*r2Range{}
	vars := map[string]types.Object{}
	learn := func(atom ast.Expr, val bool) {
		s, v, isLen, op, k, ok := pf.cmp(atom)
		if !ok {
			return
		}
		if !val {
			op = negOp(op)
		}
		rg := facts[s]
		if rg == nil {
			rg = &r2Range{lo: math.MinInt64, hi: math.MaxInt64, not: map[int64]bool{}}
			if isLen {
				rg.lo = 0
			}
			facts[s] = rg
			vars[s] = v
		}
		switch op {
		case token.EQL:
			if k > rg.lo {
				rg.lo = k
			}
			if k < rg.hi {
				rg.hi = k
			}
		case token.NEQ:
			rg.not[k] = true
		case token.LSS:
			if k-1 < rg.hi {
				rg.hi = k - 1
			}
		case token.LEQ:
			if k < rg.hi {
				rg.hi = k
			}
		case token.GTR:
			if k+1 > rg.lo {
				rg.lo = k + 1
			}
		case token.GEQ:
			if k > rg.lo {
				rg.lo = k
			}
		}
		for rg.not[rg.lo] && rg.lo < rg.hi {
			rg.lo++
		}
		for rg.not[rg.hi] && rg.hi > rg.lo {
			rg.hi--
		}
	}
	for _, cc := range controllingConds(pf.fn, p) {
		cond := pf.condExpr(cc.cond)
		if cond == nil {
			continue
		}
		for _, a := range condAtoms(cond) {
			a2 := an.Unparen(inlineLocal(pf.fn, a))
			// what the condition says about a local is still true at p only if the local is not
			// re-defined in between
			if _, v, _, _, _, ok := pf.cmp(a2); !ok || pf.defBetween(v, cc.at, p) {
				continue
			}
			for _, val := range []bool{true, false} {
				if impliesAtom(cond, cc.outcome, a, val) {
					learn(a2, val)
				}
			}
		}
	}
	return facts, vars
}

// defBetween: is v (re-)defined on some path from `from` to `to`?
func (pf *pathFacts) defBetween(v types.Object, from, to an.Point) bool {
	ds, seen := pf.defs[v]
	if !seen {
		ds = r2DefsOf(pf.fn, v)
		pf.defs[v] = ds
	}
	if len(ds) == 0 {
		return false
	}
	after := pf.fn.Reach(from, nil, nil)
	for _, d := range ds {
		if after[d.p] && d.p != to && pf.fn.Reach(d.p, nil, nil)[to] {
			return true
		}
	}
	return false
}

// eval decides a condition under the ranges (three-valued).
func (pf *pathFacts) eval(e ast.Expr, facts map[string]*r2Range, usable func(string) bool) tri {
	e = an.Unparen(e)
	switch x := e.(type) {
	case *ast.UnaryExpr:
		if x.Op == token.NOT {
			switch pf.eval(x.X, facts, usable) {
			case triTrue:
				return triFalse
			case triFalse:
				return triTrue
			}
			return triUnknown
		}
	case *ast.BinaryExpr:
		switch x.Op {
		case token.LAND:
			a, b := pf.eval(x.X, facts, usable), pf.eval(x.Y, facts, usable)
			if a == triFalse || b == triFalse {
				return triFalse
			}
			if a == triTrue && b == triTrue {
				return triTrue
			}
			return triUnknown
		case token.LOR:
			a, b := pf.eval(x.X, facts, usable), pf.eval(x.Y, facts, usable)
			if a == triTrue || b == triTrue {
				return triTrue
			}
			if a == triFalse && b == triFalse {
				return triFalse
			}
			return triUnknown
		}
	case *ast.Ident:
		if d := inlineLocal(pf.fn, x); d != ast.Expr(x) {
			return pf.eval(d, facts, usable)
		}
	}
	s, _, _, op, k, ok := pf.cmp(e)
	if !ok {
		return triUnknown
	}
	rg := facts[s]
	if rg == nil || !usable(s) {
		return triUnknown
	}
	dec := func(allTrue, allFalse bool) tri {
		if allTrue {
			return triTrue
		}
		if allFalse {
			return triFalse
		}
		return triUnknown
	}
	lo, hi := rg.lo, rg.hi
	switch op {
	case token.EQL:
		return dec(lo == hi && lo == k, k < lo || k > hi || rg.not[k])
	case token.NEQ:
		return dec(k < lo || k > hi || rg.not[k], lo == hi && lo == k)
	case token.LSS:
		return dec(hi < k, lo >= k)
	case token.LEQ:
		return dec(hi <= k, lo > k)
	case token.GTR:
		return dec(lo > k, hi <= k)
	case token.GEQ:
		return dec(lo >= k, hi < k)
	}
	return triUnknown
}

// infeasible returns the outcome edges that no execution reaching p can have taken, and a
// rendering of the facts used.
func (pf *pathFacts) infeasible(p an.Point) (map[an.Edge]bool, string) {
	fn := pf.fn
	facts, vars := pf.factsAt(p)
	var known []string
	for s, rg := range facts {
		switch {
		case rg.lo == rg.hi:
			known = append(known, fmt.Sprintf("%s == %d", s, rg.lo))
		case rg.lo > math.MinInt64 && rg.hi == math.MaxInt64:
			known = append(known, fmt.Sprintf("%s >= %d", s, rg.lo))
		case rg.hi < math.MaxInt64 && rg.lo == math.MinInt64:
			known = append(known, fmt.Sprintf("%s <= %d", s, rg.hi))
		case rg.lo > math.MinInt64 && rg.hi < math.MaxInt64:
			known = append(known, fmt.Sprintf("%d <= %s <= %d", rg.lo, s, rg.hi))
		}
	}
	sortStrings(known)
	blocked := map[an.Edge]bool{}
	for _, b := range fn.G.Blocks {
		if !b.Live {
			continue
		}
		t, f, ok := an.CondEdges(b)
		if !ok {
			continue
		}
		at := an.Point{B: b, I: len(b.Nodes) - 1}
		cond := pf.condExpr(b.Nodes[len(b.Nodes)-1].(ast.Expr))
		if cond == nil || at == p {
			continue
		}
		after := fn.Reach(at, nil, nil)
		if !after[p] {
			continue
		}
		// a fact about a local holds at this condition only if the local is not re-defined on
		// any path from here to p
		usable := func(s string) bool {
			v := vars[s]
			return v != nil && !pf.defBetween(v, at, p)
		}
		switch pf.eval(cond, facts, usable) {
		case triTrue:
			blocked[f] = true
		case triFalse:
			blocked[t] = true
		}
	}
	return blocked, strings.Join(known, ", ")
}

func sortStrings(xs []string) {
	for i := 1; i < len(xs); i++ {
		for j := i; j > 0 && xs[j] < xs[j-1]; j-- {
			xs[j], xs[j-1] = xs[j-1], xs[j]
		}
	}
}

// ---- C25.8 (seeded C25-4): the write key is switched while Conn.out is still held --------------
//
// Clause: "the byte stream each side reads equals what the peer wrote, including across TLS 1.3
// key updates". handleKeyUpdate runs inside Read; a Write on another goroutine holds Conn.out.
// The KeyUpdate record announces that the next record is protected with the new key. If the lock
// is released between writing that record and installing the new write secret, a concurrent Write
// can send an application record under the old key after the announcement; the peer fails to
// decrypt it and the stream is cut. So every use of the write half in handleKeyUpdate (traffic
// secret read, setTrafficSecret, error recording) must happen with Conn.out held on every path.
// This is rule C26.7 (lock-set flow over the CFG); borrowed, restricted to handleKeyUpdate.
func c25WriteKeyUnderLock(c *Ctx) {
	c.R.BorrowIf(map[string]string{"C26.7": "C25.8"}, func(o report.Obligation) bool {
		return strings.HasPrefix(o.Construct, "Conn.handleKeyUpdate:")
	}, func() { c26OutUnderLock(c) })
	c.R.Floor("C25.8", 3)
}

// ---- C27.4 (seeded C27-4): Write on a forged connection reports every byte it sent --------------
//
// Clause: "the two forged connections exchange application data correctly" for every suite and
// version, including TLS 1.0 with a CBC suite, where Conn.Write splits off the first byte (1/n-1
// record split). MakeConnWithCompleteHandshake returns a *Conn, so it is (*Conn).Write that the
// forged connection's users call. If the count returned leaves out the split-off byte, every
// Write of more than one byte reports len-1 with a nil error: io.Copy and bufio fail with
// ErrShortWrite and callers that loop on short writes resend the last byte, so the peer reads a
// stream that differs from what was written. The window-tiling rule C25.2 decides exactly this
// (windows consecutive from 0 to len(b), returned count = last count + bytes split off before);
// borrowed for (*Conn).Write.
func c27WriteCount(c *Ctx) {
	c.R.BorrowIf(map[string]string{"C25.2": "C27.4"}, func(o report.Obligation) bool {
		return strings.HasPrefix(o.Construct, "Conn.Write:")
	}, func() { c25WriteTiling(c) })
	c.R.Floor("C27.4", 1)
}
