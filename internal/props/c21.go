package props

import (
	"go/ast"
	"go/token"
	"go/types"
	"strings"

	"verif/internal/an"
)

func init() { register(&Prop{ID: "C21", Run: runC21}) }

func runC21(c *Ctx) {
	r := c.R
	r.Technique = "per-function CFG rules (must-pass-through, guarded effects, exit discipline) on decompressCert, utlsReadServerCertificate and readServerCertificate; resolved callees"
	r.Explanation = "C21.1 every decompressor construction lies behind the advertised-algorithm membership check whose failing outcome alerts bad_certificate and returns an error. " +
		"C21.2 the decompressor is drained with a full-read primitive (io.ReadFull/ReadAll/Copy or Read in a loop), not a single Read. " +
		"C21.3 both a shorter and a longer decompressed length reach the bad_certificate exit. " +
		"C21.4 the compressed message is added to the transcript before decompression, the decompressed one is not, and every failure exit of decompressCert alerts. " +
		"C21.5 the allocation sized by the peer's uncompressed_length is dominated by a comparison against a constant limit."
	r.NotDecided = "correctness of the brotli/zlib/zstd decoders; byte equality of recovered certificates"
	info := c.Info()
	fn := c.Fn("C21.1", "clientHandshakeStateTLS13", "decompressCert")
	if fn == nil {
		return
	}
	msgParam := info.Defs[fn.Decl.Type.Params.List[0].Names[0]]
	isMsgField := func(field string) func(ast.Expr) bool {
		return func(e ast.Expr) bool {
			se, ok := an.Unparen(e).(*ast.SelectorExpr)
			if !ok || se.Sel.Name != field {
				return false
			}
			id, ok := an.Unparen(se.X).(*ast.Ident)
			return ok && info.Uses[id] == msgParam
		}
	}
	mentions := func(e ast.Node, pred func(ast.Expr) bool) bool {
		return an.Contains(e, func(n ast.Node) bool {
			x, ok := n.(ast.Expr)
			return ok && pred(x)
		})
	}
	// ---- C21.1 advertised-algorithm check
	pass, fail := c21Membership(c, fn, isMsgField("algorithm"))
	ctor := func(n ast.Node) bool {
		call, ok := n.(*ast.CallExpr)
		if !ok {
			return false
		}
		f, ok := an.Callee(info, call).(*types.Func)
		if !ok || f.Pkg() == nil || f.Name() != "NewReader" {
			return false
		}
		p := f.Pkg().Path()
		return strings.HasSuffix(p, "brotli") || p == "compress/zlib" || strings.HasSuffix(p, "compress/zstd") || p == "compress/flate" || p == "compress/gzip"
	}
	ctors := fn.FindNodes(ctor)
	if len(ctors) == 0 {
		r.Unknown("C21.1", "decompressCert:decompressors", c.Pos(fn.Decl), "no decompressor construction found")
	}
	for _, h := range ctors {
		cons := "decompressCert:" + an.Str(h.N.(*ast.CallExpr).Fun)
		if len(pass) == 0 {
			r.Bad("C21.1", cons, c.Pos(h.N), "no check that the server's algorithm is in the advertised list (uconn.certCompressionAlgs) precedes the decompressor")
			continue
		}
		r.Check(fn.MustPass(h.P, nil, pass), "C21.1", cons, c.Pos(h.N), "constructed only after the advertised-algorithm check passed",
			"decompressor reachable without passing the advertised-algorithm check")
	}
	for _, fe := range fail {
		ok, why := failEdgeExits(fn, fe, c.isAlert("alertBadCertificate"))
		r.Check(ok, "C21.1", "decompressCert:unadvertised-exit", c.PosP(an.Point{B: fe.B, I: len(fe.B.Nodes) - 1}), "unadvertised algorithm -> bad_certificate alert and error return", "unadvertised algorithm: "+why)
	}
	r.Floor("C21.1", 4)

	// ---- C21.2 / C21.3 drain discipline
	// the reader variable(s): locals of interface type io.Reader assigned from the constructors
	readerObjs := map[types.Object]bool{}
	ast.Inspect(fn.Body, func(n ast.Node) bool {
		as, ok := n.(*ast.AssignStmt)
		if !ok {
			return true
		}
		for i, rhs := range as.Rhs {
			if an.Contains(rhs, ctor) && i < len(as.Lhs) {
				if id, ok := as.Lhs[0].(*ast.Ident); ok {
					if o := objOf(info, id); o != nil {
						readerObjs[o] = true
					}
				}
			}
		}
		// decompressed = rc
		if len(as.Lhs) == 1 && len(as.Rhs) == 1 {
			if rid, ok := an.Unparen(as.Rhs[0]).(*ast.Ident); ok && readerObjs[objOf(info, rid)] {
				if lid, ok := as.Lhs[0].(*ast.Ident); ok {
					readerObjs[objOf(info, lid)] = true
				}
			}
		}
		return true
	})
	isReader := func(e ast.Expr) bool {
		id, ok := an.Unparen(e).(*ast.Ident)
		return ok && readerObjs[objOf(info, id)]
	}
	type readSite struct {
		h    an.Hit
		kind string // full | single | loop
	}
	var reads []readSite
	for _, h := range fn.FindNodes(func(n ast.Node) bool { _, ok := n.(*ast.CallExpr); return ok }) {
		call := h.N.(*ast.CallExpr)
		f, _ := an.Callee(info, call).(*types.Func)
		if f == nil {
			continue
		}
		if f.Pkg() != nil && f.Pkg().Path() == "io" && f.Type().(*types.Signature).Recv() == nil {
			switch f.Name() {
			case "ReadFull", "ReadAll", "ReadAtLeast", "Copy", "CopyN", "CopyBuffer":
				for _, a := range call.Args {
					if mentions(a, isReader) {
						reads = append(reads, readSite{h, "full:" + f.Name()})
					}
				}
			}
			continue
		}
		if f.Name() == "Read" || f.Name() == "ReadFrom" {
			if se, ok := call.Fun.(*ast.SelectorExpr); ok && isReader(se.X) {
				kind := "single"
				if inLoop(fn, h.P) {
					kind = "loop"
				}
				reads = append(reads, readSite{h, kind})
			}
			if f.Name() == "ReadFrom" {
				for _, a := range call.Args {
					if mentions(a, isReader) {
						reads = append(reads, readSite{h, "full:ReadFrom"})
					}
				}
			}
		}
	}
	if len(reads) == 0 {
		r.Unknown("C21.2", "decompressCert:drain", c.Pos(fn.Decl), "no read of the decompressor found")
	}
	// the message buffer: the local allocated from uncompressed_length
	var bufObj types.Object
	ast.Inspect(fn.Body, func(n ast.Node) bool {
		as, ok := n.(*ast.AssignStmt)
		if !ok || len(as.Lhs) != 1 || len(as.Rhs) != 1 {
			return true
		}
		if call, ok := an.Unparen(as.Rhs[0]).(*ast.CallExpr); ok {
			if id, ok := call.Fun.(*ast.Ident); ok && id.Name == "make" && len(call.Args) >= 2 && mentions(call.Args[1], isMsgField("uncompressedLength")) {
				if l, ok := as.Lhs[0].(*ast.Ident); ok {
					bufObj = objOf(info, l)
				}
			}
		}
		return true
	})
	isPrimary := func(rs readSite) bool {
		if bufObj == nil {
			return rs.kind != "single"
		}
		call := rs.h.N.(*ast.CallExpr)
		for _, a := range call.Args {
			if an.MentionsObj(info, a, bufObj) {
				return true
			}
		}
		return strings.HasPrefix(rs.kind, "full:ReadAll") || strings.HasPrefix(rs.kind, "full:Copy")
	}
	full := 0
	nPrimary := 0
	for _, rs := range reads {
		if !isPrimary(rs) {
			continue
		}
		nPrimary++
		cons := "decompressCert:" + an.Str(rs.h.N.(*ast.CallExpr).Fun)
		if rs.kind == "single" {
			r.Bad("C21.2", "decompressCert:drain", c.Pos(rs.h.N), "the certificate buffer is filled by a single Read call; io.Reader may return fewer bytes than requested without error, so a valid compressed certificate (any block/flush structure) can be rejected or truncated")
			continue
		}
		full++
		r.Ok("C21.2", cons, c.Pos(rs.h.N), "decompressor drained with %s", rs.kind)
	}
	if nPrimary == 0 && len(reads) > 0 {
		r.Unknown("C21.2", "decompressCert:drain", c.Pos(reads[0].h.N), "could not identify the read that fills the certificate buffer")
	}
	// C21.3: longer-than-declared must be observable: either ReadAll/Copy (+ a != / > comparison on the length),
	// or a second read after the primary one whose result is tested.
	longer := false
	why := ""
	for _, rs := range reads {
		if strings.HasPrefix(rs.kind, "full:ReadAll") || strings.HasPrefix(rs.kind, "full:Copy") || strings.HasPrefix(rs.kind, "full:ReadFrom") {
			// need a comparison involving uncompressedLength (or len of the preallocated buffer) with != or >
			for _, b := range fn.G.Blocks {
				if !b.Live || len(b.Nodes) == 0 {
					continue
				}
				if be, ok := an.Unparen(lastExpr(b.Nodes[len(b.Nodes)-1])).(*ast.BinaryExpr); ok {
					if (be.Op == token.NEQ || be.Op == token.GTR || be.Op == token.LSS || be.Op == token.GEQ || be.Op == token.LEQ) && mentions(be, isMsgField("uncompressedLength")) {
						if fn.Reachable(rs.h.P, an.Point{B: b, I: len(b.Nodes) - 1}) {
							longer = true
							why = "length compared after an unbounded read"
						}
					}
				}
			}
		}
	}
	if !longer {
		// probe read after primary
		var primary *readSite
		for i := range reads {
			if reads[i].kind != "single" {
				primary = &reads[i]
				break
			}
		}
		if primary == nil && len(reads) > 0 {
			primary = &reads[0]
		}
		for i := range reads {
			if primary != nil && &reads[i] != primary && reads[i].h.P != primary.h.P && fn.Reachable(primary.h.P, reads[i].h.P) {
				longer = true
				why = "a second read probes for trailing data"
			}
		}
	}
	pos := c.Pos(fn.Decl)
	if len(reads) > 0 {
		pos = c.Pos(reads[0].h.N)
	}
	r.Check(longer, "C21.3", "decompressCert:longer-than-declared", pos, why,
		"nothing observes decompressed data beyond uncompressed_length: a message longer than declared is silently truncated instead of aborting with bad_certificate")
	// shorter: a comparison n < expected / ReadFull error whose failing outcome alerts+returns
	shortPass, shortFail, _ := condEdges(fn, func(cond ast.Expr) (bool, bool) {
		be, ok := cond.(*ast.BinaryExpr)
		if !ok {
			return false, false
		}
		if (be.Op == token.LSS || be.Op == token.NEQ) && (mentions(be, isMsgField("uncompressedLength")) || an.Contains(be, func(n ast.Node) bool {
			call, ok := n.(*ast.CallExpr)
			if !ok {
				return false
			}
			id, ok := call.Fun.(*ast.Ident)
			return ok && id.Name == "len"
		})) {
			return true, false
		}
		return false, false
	})
	_ = shortPass
	okShort := false
	for _, fe := range shortFail {
		if ok, _ := failEdgeExits(fn, fe, c.isAlert("alertBadCertificate")); ok {
			okShort = true
		}
	}
	// ReadFull returning an error on short input also counts, if that error exits with the alert
	for _, rs := range reads {
		if rs.kind == "full:ReadFull" || rs.kind == "full:ReadAtLeast" || rs.kind == "full:CopyN" {
			_, errFail, _ := condEdges(fn, func(cond ast.Expr) (bool, bool) {
				be, ok := cond.(*ast.BinaryExpr)
				if !ok || be.Op != token.NEQ || !an.IsNilIdent(info, be.Y) {
					return false, false
				}
				id, ok := an.Unparen(be.X).(*ast.Ident)
				return ok && id.Name == "err", false
			})
			for _, fe := range errFail {
				if !fn.Reachable(rs.h.P, an.Point{B: fe.B, I: len(fe.B.Nodes) - 1}) {
					continue
				}
				if ok, _ := failEdgeExits(fn, fe, c.isAlert("alertBadCertificate")); ok {
					okShort = true
				}
			}
		}
	}
	r.Check(okShort, "C21.3", "decompressCert:shorter-than-declared", pos, "a short decompression reaches the bad_certificate exit",
		"no check makes a decompressed message shorter than uncompressed_length abort with bad_certificate")

	// ---- C21.5 allocation bound
	for _, h := range fn.FindNodes(func(n ast.Node) bool {
		call, ok := n.(*ast.CallExpr)
		if !ok {
			return false
		}
		id, ok := call.Fun.(*ast.Ident)
		if !ok || id.Name != "make" || len(call.Args) < 2 {
			return false
		}
		return mentions(call.Args[1], isMsgField("uncompressedLength"))
	}) {
		boundPass, _, _ := condEdges(fn, func(cond ast.Expr) (bool, bool) {
			be, ok := cond.(*ast.BinaryExpr)
			if !ok {
				return false, false
			}
			var other ast.Expr
			op := be.Op
			switch {
			case mentions(be.X, isMsgField("uncompressedLength")):
				other = be.Y
			case mentions(be.Y, isMsgField("uncompressedLength")):
				other = be.X
				op = flipTok(op)
			default:
				return false, false
			}
			v, isConst := an.ConstInt(info, other)
			if !isConst || v <= 0 || v >= 1<<24 {
				return false, false
			}
			switch op {
			case token.GTR, token.GEQ: // length > limit  => failing outcome is true
				return true, false
			case token.LEQ, token.LSS:
				return true, true
			}
			return false, false
		})
		cons := "decompressCert:make(uncompressedLength)"
		if len(boundPass) == 0 {
			r.Bad("C21.5", cons, c.Pos(h.N), "buffer of peer-declared uncompressed_length (24-bit, up to 16 MiB) is allocated without first comparing the length against a protocol limit")
			continue
		}
		r.Check(fn.MustPass(h.P, nil, boundPass), "C21.5", cons, c.Pos(h.N), "allocation dominated by a constant upper bound on uncompressed_length", "allocation reachable without passing the length bound")
	}
	r.Floor("C21.5", 1)

	// ---- C21.4 exits of decompressCert alert; transcript handling
	unm := fn.Find(an.CallTo(info, Mod, "certificateMsgTLS13", "unmarshal"))
	for _, ret := range fn.Returns() {
		rs := ret.Node().(*ast.ReturnStmt)
		if !returnsError(fn, rs) {
			continue
		}
		if an.Contains(rs, c.isAlert("")) {
			r.Ok("C21.4", "decompressCert:exit@"+shortExit(rs), c.Pos(rs), "error exit returns the alert error")
			continue
		}
		// every path entry->ret passes an alert call
		alerts := fn.Find(c.isAlert(""))
		r.Check(fn.MustPass(ret, alerts, nil), "C21.4", "decompressCert:exit@"+shortExit(rs), c.Pos(rs), "error exit preceded by an alert", "error exit of decompressCert reachable without sending an alert")
	}
	_ = unm
	urc := c.Fn("C21.4", "clientHandshakeStateTLS13", "utlsReadServerCertificate")
	if urc != nil {
		dec := urc.Find(an.CallTo(info, Mod, "clientHandshakeStateTLS13", "decompressCert"))
		tr := urc.FindNodes(an.CallTo(info, Mod, "", "transcriptMsg"))
		var trPts []an.Point
		for _, t := range tr {
			call := t.N.(*ast.CallExpr)
			if len(call.Args) == 2 && an.TypeName(info.TypeOf(call.Args[0])) == "utlsCompressedCertificateMsg" {
				trPts = append(trPts, t.P)
			}
		}
		if len(dec) == 0 {
			r.Unknown("C21.4", "utlsReadServerCertificate:decompress", c.Pos(urc.Decl), "call to decompressCert not found")
		}
		for _, d := range dec {
			r.Check(len(trPts) > 0 && urc.MustPass(d, trPts, nil), "C21.4", "utlsReadServerCertificate:transcript-compressed", c.PosP(d),
				"the compressed message is added to the transcript before decompression", "decompressCert reachable without first adding the compressed message to the transcript (RFC 8879: the transcript covers the CompressedCertificate message)")
		}
	}
	rsc := c.Fn("C21.4", "clientHandshakeStateTLS13", "readServerCertificate")
	if rsc != nil {
		// transcriptMsg(certMsg, …) must be behind the !skip edge, and skip=true is set exactly when the uTLS hook returned a message
		certTr := rsc.FindNodes(func(n ast.Node) bool {
			call, ok := n.(*ast.CallExpr)
			return ok && an.IsCallTo(info, call, Mod, "", "transcriptMsg") && len(call.Args) == 2 && an.TypeName(info.TypeOf(call.Args[0])) == "certificateMsgTLS13"
		})
		hook := rsc.Find(an.CallTo(info, Mod, "clientHandshakeStateTLS13", "utlsReadServerCertificate"))
		if len(hook) == 0 {
			r.Unknown("C21.4", "readServerCertificate:hook", c.Pos(rsc.Decl), "call to utlsReadServerCertificate not found")
		} else {
			// the flag that is set true after the hook
			var flag types.Object
			ast.Inspect(rsc.Body, func(n ast.Node) bool {
				as, ok := n.(*ast.AssignStmt)
				if !ok || as.Tok != token.ASSIGN || len(as.Lhs) != 1 || len(as.Rhs) != 1 {
					return true
				}
				if id, ok := an.Unparen(as.Rhs[0]).(*ast.Ident); ok && id.Name == "true" {
					if l, ok := as.Lhs[0].(*ast.Ident); ok {
						flag = objOf(info, l)
					}
				}
				return true
			})
			if flag == nil || len(certTr) == 0 {
				r.Bad("C21.4", "readServerCertificate:skip-decompressed", c.Pos(rsc.Decl), "no skip flag / certificate transcript write found: the decompressed certificate would be hashed in addition to (or instead of) the compressed message")
			} else {
				pe, _, _ := condEdges(rsc, func(cond ast.Expr) (bool, bool) {
					x, neg := negated(cond)
					id, ok := x.(*ast.Ident)
					if !ok || objOf(info, id) != flag {
						return false, false
					}
					return true, !neg == false
				})
				okAll := len(pe) > 0
				for _, t := range certTr {
					if !rsc.MustPass(t.P, nil, pe) {
						okAll = false
					}
				}
				r.Check(okAll, "C21.4", "readServerCertificate:skip-decompressed", c.Pos(certTr[0].N), "the decompressed certificate is written to the transcript only when it was not delivered compressed", "the certificate message is written to the transcript even when it came from a CompressedCertificate")
			}
			// the reads that feed the hook must not write to the transcript themselves
			for _, h := range rsc.FindNodes(an.CallTo(info, Mod, "Conn", "readHandshake")) {
				call := h.N.(*ast.CallExpr)
				if !rsc.Reachable(h.P, hook[0]) {
					continue
				}
				r.Check(len(call.Args) == 1 && an.IsNilIdent(info, call.Args[0]), "C21.4", "readServerCertificate:deferred-transcript", c.Pos(call), "message is read without hashing until its kind is known", "readHandshake hashes the message before it is known whether it is a CompressedCertificate: it would be hashed twice")
			}
		}
	}
	r.Floor("C21.4", 6)
}

func flipTok(op token.Token) token.Token {
	switch op {
	case token.LSS:
		return token.GTR
	case token.GTR:
		return token.LSS
	case token.LEQ:
		return token.GEQ
	case token.GEQ:
		return token.LEQ
	}
	return op
}

func lastExpr(n ast.Node) ast.Expr {
	if e, ok := n.(ast.Expr); ok {
		return e
	}
	return &ast.BadExpr{}
}

func shortExit(rs *ast.ReturnStmt) string {
	s := ""
	for i, r := range rs.Results {
		if i > 0 {
			s += ","
		}
		x := an.Str(r)
		if len(x) > 40 {
			x = x[:40]
		}
		s += x
	}
	return s
}

// inLoop reports whether point p lies on a cycle of the CFG.
func inLoop(fn *an.Fn, p an.Point) bool {
	return fn.Reach(p, nil, nil)[p]
}

// c21Membership recognises "elem is in uconn.certCompressionAlgs": slices.Contains form or
// the flag idiom (flag := false; for range list { if elem == x { flag = true } }; if !flag {fail}).
func c21Membership(c *Ctx, fn *an.Fn, isElem func(ast.Expr) bool) (pass, fail []an.Edge) {
	info := c.Info()
	isList := func(e ast.Expr) bool { return an.MentionsField(info, e, "UConn", "certCompressionAlgs") }
	mentionsElem := func(n ast.Node) bool {
		return an.Contains(n, func(x ast.Node) bool { e, ok := x.(ast.Expr); return ok && isElem(e) })
	}
	// direct form
	p, f, _ := condEdges(fn, func(cond ast.Expr) (bool, bool) {
		x, neg := negated(cond)
		call, ok := x.(*ast.CallExpr)
		if !ok {
			return false, false
		}
		fo, _ := an.Callee(info, call).(*types.Func)
		if fo == nil || fo.Pkg() == nil || fo.Pkg().Path() != "slices" || (fo.Name() != "Contains" && fo.Name() != "ContainsFunc") || len(call.Args) != 2 {
			return false, false
		}
		if !isList(call.Args[0]) || !mentionsElem(call.Args[1]) {
			return false, false
		}
		return true, !neg
	})
	pass, fail = append(pass, p...), append(fail, f...)
	// flag idiom
	var rangeVars = map[types.Object]bool{}
	ast.Inspect(fn.Body, func(n ast.Node) bool {
		rs, ok := n.(*ast.RangeStmt)
		if !ok || !isList(rs.X) {
			return true
		}
		if v, ok := rs.Value.(*ast.Ident); ok {
			rangeVars[info.Defs[v]] = true
		}
		return true
	})
	mentionsRangeVar := func(n ast.Node) bool {
		return an.Contains(n, func(x ast.Node) bool {
			id, ok := x.(*ast.Ident)
			return ok && rangeVars[info.Uses[id]]
		})
	}
	eqPass, _, _ := condEdges(fn, func(cond ast.Expr) (bool, bool) {
		be, ok := cond.(*ast.BinaryExpr)
		if !ok || be.Op != token.EQL {
			return false, false
		}
		if (mentionsElem(be.X) && mentionsRangeVar(be.Y)) || (mentionsElem(be.Y) && mentionsRangeVar(be.X)) {
			return true, true
		}
		return false, false
	})
	if len(eqPass) == 0 {
		return
	}
	// flags assigned true only behind eqPass
	flags := map[types.Object]bool{}
	okFlag := map[types.Object]bool{}
	for _, h := range fn.FindNodes(func(n ast.Node) bool {
		as, ok := n.(*ast.AssignStmt)
		if !ok || len(as.Lhs) != 1 || len(as.Rhs) != 1 {
			return false
		}
		id, ok := an.Unparen(as.Rhs[0]).(*ast.Ident)
		return ok && id.Name == "true"
	}) {
		as := h.N.(*ast.AssignStmt)
		l, ok := as.Lhs[0].(*ast.Ident)
		if !ok {
			continue
		}
		o := objOf(info, l)
		guarded := fn.MustPass(h.P, nil, eqPass)
		if _, seen := flags[o]; !seen {
			okFlag[o] = true
		}
		flags[o] = true
		if !guarded {
			okFlag[o] = false
		}
	}
	p2, f2, _ := condEdges(fn, func(cond ast.Expr) (bool, bool) {
		x, neg := negated(cond)
		id, ok := x.(*ast.Ident)
		if !ok {
			return false, false
		}
		o := objOf(info, id)
		if !flags[o] || !okFlag[o] {
			return false, false
		}
		return true, !neg
	})
	return append(pass, p2...), append(fail, f2...)
}
