package props

import (
	"fmt"
	"go/ast"
	"go/token"
	"go/types"
	"strings"

	"verif/internal/an"
)

func init() { register(&Prop{ID: "C35", Run: runC35}) }

func runC35(c *Ctx) {
	r := c.R
	r.Technique = "CFG must-pass-through over the edges on which the constant-time MAC comparison is known to have succeeded; symbolic slice bounds (k | len-k) of the ticket regions compared role by role between encryptTicket and decryptTicket; resolved callees for key derivation; field-map extraction for the TicketKey / ClientSessionState views; read/write field sets and wire-op sequences of SessionState.Bytes vs ParseSessionState"
	r.Explanation = "C35.1 decryptTicket: the length pre-check dominates every slicing of the ticket and covers the constant offsets used; the HMAC input is the whole ticket except the trailing tag; every non-nil return lies behind the edge on which a constant-time comparison of the tag with that HMAC succeeded; a failed comparison moves on to the next configured key; encryptTicket and decryptTicket use the same region bounds, hash, and key fields per role. " +
		"C35.2 EncryptTicket/DecryptTicket and the server call sites pass the configured key set unchanged, DecryptTicket returns a state only when decryption and parsing succeeded. " +
		"C35.3 TicketKeyFromBytes, SetSessionTicketKeys and the legacy SessionTicketKey path all derive keys with Config.ticketKeyFromBytes from the unmodified input, in order; the TicketKey<->ticketKey views map like-named fields. " +
		"C35.4 MakeClientSessionState, the ClientSessionState setters and getters agree on the SessionState field behind each name. " +
		"C35.5 a TLS 1.2 resumption completes only if the cached version and suite equal the negotiated ones and takes its master secret from the cached state. " +
		"C35.6 SessionState.Bytes and ParseSessionState touch the same fields and use the same sequence of wire primitives."
	r.NotDecided = "byte equality of decrypt(encrypt(x)) on concrete inputs (AES-CTR/HMAC are trusted); that unequal MACs compare unequal; TLS 1.3 PSK resumption (C19); auto-rotation timing of ticket keys"
	c35Crypt(c)
	c35Wrappers(c)
	c35Keys(c)
	c35ClientSessionState(c)
	c35Resume12(c)
	c35Symmetry(c)
}

// ---------------------------------------------------------------- slice bounds

// c35Bound is k (fromEnd=false) or len(base)-k (fromEnd=true).
type c35Bound struct {
	k       int64
	fromEnd bool
	ok      bool
}

func (b c35Bound) String() string {
	if !b.ok {
		return "?"
	}
	if b.fromEnd {
		if b.k == 0 {
			return "len"
		}
		return fmt.Sprintf("len-%d", b.k)
	}
	return fmt.Sprint(b.k)
}

func c35IsLenOf(info *types.Info, e ast.Expr, base types.Object) bool {
	call, ok := an.Unparen(e).(*ast.CallExpr)
	if !ok || len(call.Args) != 1 {
		return false
	}
	id, ok := call.Fun.(*ast.Ident)
	if !ok || id.Name != "len" {
		return false
	}
	if _, isB := info.Uses[id].(*types.Builtin); !isB {
		return false
	}
	return identObj(info, call.Args[0]) == base
}

func c35ParseBound(info *types.Info, e ast.Expr, base types.Object, dflt c35Bound) c35Bound {
	if e == nil {
		return dflt
	}
	// linear form a*len(base) + k over +, - and constants
	var lin func(e ast.Expr) (a, k int64, ok bool)
	lin = func(e ast.Expr) (int64, int64, bool) {
		e = an.Unparen(e)
		if v, ok := an.ConstInt(info, e); ok {
			return 0, v, true
		}
		if c35IsLenOf(info, e, base) {
			return 1, 0, true
		}
		if be, ok := e.(*ast.BinaryExpr); ok && (be.Op == token.SUB || be.Op == token.ADD) {
			a1, k1, ok1 := lin(be.X)
			a2, k2, ok2 := lin(be.Y)
			if !ok1 || !ok2 {
				return 0, 0, false
			}
			if be.Op == token.SUB {
				return a1 - a2, k1 - k2, true
			}
			return a1 + a2, k1 + k2, true
		}
		return 0, 0, false
	}
	a, k, ok := lin(e)
	switch {
	case ok && a == 0 && k >= 0:
		return c35Bound{k: k, ok: true}
	case ok && a == 1 && k <= 0:
		return c35Bound{k: -k, fromEnd: true, ok: true}
	}
	return c35Bound{}
}

type c35Region struct {
	lo, hi c35Bound
	node   ast.Expr
}

func (r c35Region) String() string { return "[" + r.lo.String() + ":" + r.hi.String() + "]" }

// c35RegionOf resolves e (a slice of base, or a local defined once as one, possibly re-sliced
// with [:0]) to its bounds on base.
func c35RegionOf(fn *an.Fn, e ast.Expr, base types.Object) (c35Region, bool) {
	info := fn.Info
	e = an.Unparen(e)
	if se, ok := e.(*ast.SliceExpr); ok {
		if identObj(info, se.X) == base {
			return c35Region{c35ParseBound(info, se.Low, base, c35Bound{ok: true}), c35ParseBound(info, se.High, base, c35Bound{fromEnd: true, ok: true}), se}, true
		}
		// x[:0] / x[:] of a region keeps the region's start; used as append/Sum destination
		if r, ok := c35RegionOf(fn, se.X, base); ok && se.Low == nil {
			return r, true
		}
		return c35Region{}, false
	}
	if id, ok := e.(*ast.Ident); ok {
		if d := singleDef(fn, id); d != nil {
			return c35RegionOf(fn, d, base)
		}
	}
	return c35Region{}, false
}

// ---------------------------------------------------------------- C35.1

type c35Roles struct {
	region  map[string]c35Region // iv, ciphertext, macInput, tag
	macKey  string               // ticketKey field used for HMAC
	aesKey  string               // ticketKey field used for AES
	hash    string               // hash constructor of hmac.New
	keyExpr string               // how the key is selected (range / [0])
}

func c35PkgFunc(info *types.Info, n ast.Node, pkg, name string) *ast.CallExpr {
	call, ok := n.(*ast.CallExpr)
	if !ok {
		return nil
	}
	f, ok := an.Callee(info, call).(*types.Func)
	if !ok || f.Pkg() == nil || f.Pkg().Path() != pkg || f.Name() != name {
		return nil
	}
	return call
}

// c35KeyField returns the ticketKey field selected in e (key.hmacKey[:]).
func c35KeyField(info *types.Info, e ast.Expr) string {
	out := ""
	ast.Inspect(e, func(n ast.Node) bool {
		if se, ok := n.(*ast.SelectorExpr); ok {
			if sel := info.Selections[se]; sel != nil && sel.Kind() == types.FieldVal && an.TypeName(sel.Recv()) == "ticketKey" {
				out = se.Sel.Name
			}
		}
		return true
	})
	return out
}

// c35CollectRoles finds, in fn, which region of `base` plays each role.
func c35CollectRoles(c *Ctx, fn *an.Fn, base types.Object) (*c35Roles, map[string]an.Hit) {
	info := c.Info()
	ro := &c35Roles{region: map[string]c35Region{}}
	hits := map[string]an.Hit{}
	macObjs := map[types.Object]bool{}
	for _, h := range fn.FindNodes(func(n ast.Node) bool { _, ok := n.(*ast.CallExpr); return ok }) {
		call := h.N.(*ast.CallExpr)
		switch {
		case c35PkgFunc(info, call, "crypto/hmac", "New") != nil && len(call.Args) == 2:
			ro.hash = an.Str(call.Args[0])
			if f, ok := an.Callee(info, &ast.CallExpr{Fun: call.Args[0]}).(*types.Func); ok && f.Pkg() != nil {
				ro.hash = f.Pkg().Path() + "." + f.Name()
			}
			ro.macKey = c35KeyField(info, call.Args[1])
			if o := assignedObj(info, h.P.Node(), call, 0); o != nil {
				macObjs[o] = true
			}
			hits["hmac.New"] = h
		case c35PkgFunc(info, call, "crypto/aes", "NewCipher") != nil && len(call.Args) == 1:
			ro.aesKey = c35KeyField(info, call.Args[0])
			hits["aes.NewCipher"] = h
		case c35PkgFunc(info, call, "crypto/cipher", "NewCTR") != nil && len(call.Args) == 2:
			if rg, ok := c35RegionOf(fn, call.Args[1], base); ok {
				ro.region["iv"] = rg
			}
			hits["NewCTR"] = h
		}
	}
	for _, h := range fn.FindNodes(func(n ast.Node) bool { _, ok := n.(*ast.CallExpr); return ok }) {
		call := h.N.(*ast.CallExpr)
		se, ok := call.Fun.(*ast.SelectorExpr)
		if !ok {
			continue
		}
		switch se.Sel.Name {
		case "Write":
			if macObjs[identObj(info, se.X)] && len(call.Args) == 1 {
				if rg, ok := c35RegionOf(fn, call.Args[0], base); ok {
					ro.region["macInput"] = rg
				} else {
					ro.region["macInput"] = c35Region{node: call.Args[0]}
				}
				hits["mac.Write"] = h
			}
		case "Sum":
			if macObjs[identObj(info, se.X)] && len(call.Args) == 1 {
				hits["mac.Sum"] = h
				if !an.IsNilIdent(info, call.Args[0]) {
					if rg, ok := c35RegionOf(fn, call.Args[0], base); ok {
						ro.region["tag"] = rg
					}
				}
			}
		case "XORKeyStream":
			if len(call.Args) == 2 {
				for _, a := range call.Args {
					if rg, ok := c35RegionOf(fn, a, base); ok {
						ro.region["ciphertext"] = rg
					}
				}
				hits["XORKeyStream"] = h
			}
		}
	}
	return ro, hits
}

func c35Crypt(c *Ctx) {
	r := c.R
	info := c.Info()
	dec := c.Fn("C35.1", "Config", "decryptTicket")
	enc := c.Fn("C35.1", "Config", "encryptTicket")
	if dec == nil || enc == nil {
		return
	}
	const D = "decryptTicket"
	if len(dec.Decl.Type.Params.List) < 2 || len(dec.Decl.Type.Params.List[0].Names) != 1 {
		r.Unknown("C35.1", D+":signature", c.Pos(dec.Decl), "unexpected parameter list")
		return
	}
	ticket := info.Defs[dec.Decl.Type.Params.List[0].Names[0]]
	keysParam := info.Defs[dec.Decl.Type.Params.List[1].Names[0]]

	// ---- length pre-check dominates slicing and covers the offsets
	var lenPass []an.Edge
	var lenK int64 = -1
	var lenNode ast.Expr
	for _, val := range []bool{true, false} {
		val := val
		es := edgesForcing(dec, func(a ast.Expr, v bool) bool {
			if v != val {
				return false
			}
			be, ok := an.Unparen(a).(*ast.BinaryExpr)
			if !ok {
				return false
			}
			op, ok := an.BinaryWith(be, func(e ast.Expr) bool { return c35IsLenOf(info, e, ticket) }, func(e ast.Expr) bool { _, ok := an.ConstInt(info, e); return ok })
			if !ok {
				return false
			}
			k, _ := an.ConstInt(info, be.Y)
			if !c35IsLenOf(info, be.X, ticket) {
				k, _ = an.ConstInt(info, be.X)
			}
			// the edge on which len >= K is known
			var bound int64 = -1
			switch {
			case op == token.LSS && !v:
				bound = k
			case op == token.LEQ && !v:
				bound = k + 1
			case op == token.GEQ && v:
				bound = k
			case op == token.GTR && v:
				bound = k + 1
			}
			if bound < 0 {
				return false
			}
			if bound > lenK {
				lenK, lenNode = bound, a
			}
			return true
		})
		lenPass = append(lenPass, es...)
	}
	slices := dec.FindNodes(func(n ast.Node) bool {
		se, ok := n.(*ast.SliceExpr)
		return ok && identObj(info, se.X) == ticket
	})
	idx := dec.FindNodes(func(n ast.Node) bool {
		ie, ok := n.(*ast.IndexExpr)
		return ok && identObj(info, ie.X) == ticket
	})
	if len(idx) > 0 {
		r.Unknown("C35.1", D+":length-check", c.Pos(idx[0].N), "the ticket is indexed directly: %s", an.Str(idx[0].N))
	}
	if len(slices) == 0 {
		r.Unknown("C35.1", D+":length-check", c.Pos(dec.Decl), "no slicing of the ticket parameter found")
	}
	var need int64
	okDom := len(lenPass) > 0
	for _, h := range slices {
		se := h.N.(*ast.SliceExpr)
		lo := c35ParseBound(info, se.Low, ticket, c35Bound{ok: true})
		hi := c35ParseBound(info, se.High, ticket, c35Bound{fromEnd: true, ok: true})
		if !lo.ok || !hi.ok {
			r.Unknown("C35.1", D+":slice:"+an.Str(se), c.Pos(se), "slice bound is neither a constant nor len(ticket)-constant")
			continue
		}
		// minimal length for which lo <= hi <= len holds
		var n int64
		switch {
		case !lo.fromEnd && !hi.fromEnd:
			n = hi.k
			if lo.k > hi.k {
				n = 1 << 40
			}
		case !lo.fromEnd && hi.fromEnd:
			n = lo.k + hi.k
		case lo.fromEnd && hi.fromEnd:
			n = lo.k
			if hi.k > lo.k {
				n = 1 << 40
			}
		default:
			n = 1 << 40
		}
		if n > need {
			need = n
		}
		if !dec.MustPass(h.P, nil, lenPass) {
			okDom = false
		}
	}
	switch {
	case len(lenPass) == 0:
		r.Bad("C35.1", D+":length-check", c.Pos(dec.Decl), "no length check of the ticket precedes slicing: a truncated ticket panics instead of yielding no state")
	case !okDom:
		r.Bad("C35.1", D+":length-check", c.Pos(lenNode), "a slice of the ticket is reachable without the length check having passed")
	case lenK < need:
		r.Bad("C35.1", D+":length-check", c.Pos(lenNode), "the length check guarantees only %d bytes but the slices need %d: a truncated ticket panics (slice bounds out of range) instead of yielding no state", lenK, need)
	default:
		r.Ok("C35.1", D+":length-check", c.Pos(lenNode), "len(ticket) >= %d dominates all %d slices, which need %d bytes", lenK, len(slices), need)
	}
	for _, fe := range otherEdges(lenPass) {
		okNil := true
		ex := exitsAfterEdge(dec, fe)
		for _, rs := range ex {
			if len(rs.Results) != 1 || !an.IsNilIdent(info, rs.Results[0]) {
				okNil = false
			}
		}
		r.Check(okNil && len(ex) > 0, "C35.1", D+":short-ticket", c.PosP(an.Point{B: fe.B, I: len(fe.B.Nodes) - 1}), "a short ticket yields nil", "a ticket shorter than the fixed overhead does not yield nil")
	}

	// ---- roles
	dro, dhits := c35CollectRoles(c, dec, ticket)
	// the tag in decrypt is the ticket region passed to the comparison
	type cmp struct {
		pass, fail []an.Edge
		node       ast.Expr
		constTime  bool
	}
	var cm cmp
	isCmpCall := func(e ast.Expr) (*ast.CallExpr, string) {
		call, ok := an.Unparen(e).(*ast.CallExpr)
		if !ok || len(call.Args) != 2 {
			return nil, ""
		}
		switch {
		case c35PkgFunc(info, call, "crypto/subtle", "ConstantTimeCompare") != nil:
			return call, "ctc"
		case c35PkgFunc(info, call, "crypto/hmac", "Equal") != nil:
			return call, "hmac.Equal"
		case c35PkgFunc(info, call, "bytes", "Equal") != nil:
			return call, "bytes.Equal"
		}
		return nil, ""
	}
	// classify an atom: returns (isComparison, equalWhenTrue, call, kind)
	classify := func(a ast.Expr) (bool, bool, *ast.CallExpr, string) {
		a = an.Unparen(a)
		if call, kind := isCmpCall(a); call != nil && kind != "ctc" {
			return true, true, call, kind
		}
		if be, ok := a.(*ast.BinaryExpr); ok && (be.Op == token.EQL || be.Op == token.NEQ) {
			x, y := be.X, be.Y
			if _, k := isCmpCall(y); k == "ctc" {
				x, y = y, x
			}
			if call, k := isCmpCall(x); k == "ctc" {
				if v, ok := an.ConstInt(info, y); ok && (v == 0 || v == 1) {
					// ConstantTimeCompare returns 1 for equal, 0 otherwise
					eqWhenTrue := (be.Op == token.EQL) == (v == 1)
					return true, eqWhenTrue, call, "ctc"
				}
			}
		}
		return false, false, nil, ""
	}
	var cmpCall *ast.CallExpr
	cmpKind := ""
	cm.pass = edgesForcing(dec, func(a ast.Expr, v bool) bool {
		if ok, eqWhenTrue, call, kind := classify(a); ok {
			cmpCall, cmpKind, cm.node = call, kind, a
			return eqWhenTrue == v
		}
		return false
	})
	cm.fail = edgesForcing(dec, func(a ast.Expr, v bool) bool {
		if ok, eqWhenTrue, _, _ := classify(a); ok {
			return eqWhenTrue != v
		}
		return false
	})
	if cmpCall == nil {
		r.Bad("C35.1", D+":mac-compare", c.Pos(dec.Decl), "no comparison of the ticket's tag with a recomputed HMAC decides a branch: tickets are not authenticated")
	} else {
		r.Check(cmpKind != "bytes.Equal", "C35.1", D+":mac-compare-constant-time", c.Pos(cmpCall), "tag compared with "+cmpKind, "the tag is compared with bytes.Equal, which is not constant time")
		// operands: one is a region of the ticket (the tag), the other the HMAC sum
		var tagArg, sumArg ast.Expr
		for _, a := range cmpCall.Args {
			if rg, ok := c35RegionOf(dec, a, ticket); ok {
				dro.region["tag"] = rg
				tagArg = a
			} else {
				sumArg = a
			}
		}
		okOps := tagArg != nil && sumArg != nil
		why := "the comparison does not compare a region of the ticket with a computed value"
		if okOps {
			// the computed value must be the Sum of the mac that was fed the macInput
			def := an.Unparen(sumArg)
			if id, ok := def.(*ast.Ident); ok {
				if d := singleDef(dec, id); d != nil {
					def = an.Unparen(d)
				}
			}
			call, _ := def.(*ast.CallExpr)
			sumHit, have := dhits["mac.Sum"]
			if call == nil || !have || sumHit.N != ast.Node(call) {
				okOps, why = false, "the value compared with the tag is not the Sum of the HMAC computed over the ticket: "+an.Str(sumArg)
			} else if w, ok := dhits["mac.Write"]; !ok || !dec.MustPass(sumHit.P, []an.Point{w.P}, nil) {
				okOps, why = false, "the HMAC is summed without the ticket having been written into it"
			}
		}
		r.Check(okOps, "C35.1", D+":mac-operands", c.Pos(cmpCall), "the ticket's tag is compared with the HMAC computed over the ticket", why)
		// every non-nil return behind a pass edge
		n := 0
		for _, p := range dec.Returns() {
			rs := p.Node().(*ast.ReturnStmt)
			if len(rs.Results) == 1 && an.IsNilIdent(info, rs.Results[0]) {
				continue
			}
			n++
			r.Check(dec.MustPass(p, nil, cm.pass), "C35.1", D+":return-authenticated:"+shortExit(rs), c.Pos(rs),
				"plaintext is returned only after the tag comparison succeeded", "decryptTicket can return a non-nil state on a path where the tag comparison did not succeed: a modified ticket is accepted")
		}
		if n == 0 {
			r.Unknown("C35.1", D+":return-authenticated", c.Pos(dec.Decl), "no non-nil return found")
		}
		// a failed comparison tries the next key: no return before the range head is reached again
		var loopHead []an.Point
		var rangeOK bool
		for _, b := range dec.G.Blocks {
			if b.Live && b.Kind.String() == "RangeLoop" {
				if rs, ok := b.Stmt.(*ast.RangeStmt); ok && identObj(info, rs.X) == keysParam {
					loopHead = append(loopHead, an.Point{B: b, I: -1})
					rangeOK = true
				}
			}
		}
		if !rangeOK {
			r.Bad("C35.1", D+":tries-every-key", c.Pos(dec.Decl), "decryptTicket does not range over the key set it was given")
		} else {
			okNext := len(cm.fail) > 0
			for _, fe := range cm.fail {
				bp := map[an.Point]bool{}
				be := edgesExcept(fe)
				for _, p := range loopHead {
					bp[p] = true
					// the loop head is an empty block: stop there by blocking its out-edges
					for k := range p.B.Succs {
						be[an.Edge{B: p.B, K: k}] = true
					}
				}
				reach := dec.Reach(an.Point{B: fe.B, I: len(fe.B.Nodes) - 1}, nil, be)
				hitHead := false
				for p := range reach {
					if bp[p] {
						hitHead = true
					}
					if p.I >= 0 {
						if _, isRet := p.Node().(*ast.ReturnStmt); isRet {
							okNext = false
						}
					}
				}
				if !hitHead {
					okNext = false
				}
			}
			r.Check(okNext, "C35.1", D+":tries-every-key", c.Pos(cm.node), "a tag mismatch under one key continues with the next configured key",
				"a tag mismatch under one key ends the search: tickets sealed with an older, still configured key are dropped")
		}
	}

	// ---- region layout in decrypt
	c35Layout(c, D, dec, dro)

	// ---- encrypt side
	const E = "encryptTicket"
	var encBuf types.Object
	var stateParam types.Object
	if pl := enc.Decl.Type.Params.List; len(pl) >= 1 && len(pl[0].Names) == 1 {
		stateParam = info.Defs[pl[0].Names[0]]
	}
	var mk *ast.CallExpr
	for _, p := range enc.Returns() {
		rs := p.Node().(*ast.ReturnStmt)
		if len(rs.Results) == 2 && !an.IsNilIdent(info, rs.Results[0]) {
			encBuf = identObj(info, rs.Results[0])
		}
	}
	if encBuf == nil {
		r.Unknown("C35.1", E+":buffer", c.Pos(enc.Decl), "returned ticket buffer not identified")
		return
	}
	if id := enc.FindNodes(func(n ast.Node) bool {
		as, ok := n.(*ast.AssignStmt)
		return ok && len(as.Lhs) == 1 && identObj(info, as.Lhs[0]) == encBuf
	}); len(id) == 1 {
		mk, _ = an.Unparen(id[0].N.(*ast.AssignStmt).Rhs[0]).(*ast.CallExpr)
	}
	ero, _ := c35CollectRoles(c, enc, encBuf)
	c35Layout(c, E, enc, ero)
	// make(len) = iv + len(state) + tag
	if mk == nil || len(mk.Args) < 2 || an.Str(mk.Fun) != "make" {
		r.Unknown("C35.1", E+":size", c.Pos(enc.Decl), "the ticket buffer is not allocated with make")
	} else {
		constPart, lenState, odd := int64(0), 0, false
		var walk func(e ast.Expr)
		walk = func(e ast.Expr) {
			e = an.Unparen(e)
			if v, ok := an.ConstInt(info, e); ok {
				constPart += v
				return
			}
			if stateParam != nil && c35IsLenOf(info, e, stateParam) {
				lenState++
				return
			}
			if be, ok := e.(*ast.BinaryExpr); ok && be.Op == token.ADD {
				walk(be.X)
				walk(be.Y)
				return
			}
			odd = true
		}
		walk(mk.Args[1])
		ct, tag := ero.region["ciphertext"], ero.region["tag"]
		want := ct.lo.k + tag.lo.k
		switch {
		case odd || !ct.lo.ok || !tag.lo.ok:
			r.Unknown("C35.1", E+":size", c.Pos(mk), "unrecognised size expression %s", an.Str(mk.Args[1]))
		default:
			r.Check(lenState == 1 && constPart == want, "C35.1", E+":size", c.Pos(mk), fmt.Sprintf("ticket size is %d + len(state): the ciphertext region has exactly the state's length", constPart),
				fmt.Sprintf("ticket size is %d + %d*len(state) but the regions reserve %d bytes of overhead: the ciphertext region and the state differ in length", constPart, lenState, want))
		}
	}
	// ---- symmetry
	for _, role := range []string{"iv", "ciphertext", "macInput", "tag"} {
		a, okA := ero.region[role]
		b, okB := dro.region[role]
		cons := "ticket-layout:" + role
		switch {
		case !okA || !okB || !a.lo.ok || !a.hi.ok || !b.lo.ok || !b.hi.ok:
			r.Unknown("C35.1", cons, c.Pos(dec.Decl), "region not identified on both sides (encrypt %v, decrypt %v)", okA, okB)
		default:
			r.Check(a.String() == b.String(), "C35.1", cons, c.Pos(b.node), "encrypt and decrypt both use "+a.String(),
				fmt.Sprintf("encryptTicket uses %s for the %s but decryptTicket uses %s", a, role, b))
		}
	}
	r.Check(ero.macKey == dro.macKey && ero.macKey != "", "C35.1", "ticket-keys:hmac", c.Pos(dec.Decl), "both sides key the HMAC with ticketKey."+ero.macKey,
		fmt.Sprintf("encryptTicket keys the HMAC with ticketKey.%s, decryptTicket with ticketKey.%s", ero.macKey, dro.macKey))
	r.Check(ero.aesKey == dro.aesKey && ero.aesKey != "", "C35.1", "ticket-keys:aes", c.Pos(dec.Decl), "both sides key AES with ticketKey."+ero.aesKey,
		fmt.Sprintf("encryptTicket keys AES with ticketKey.%s, decryptTicket with ticketKey.%s", ero.aesKey, dro.aesKey))
	r.Check(ero.hash == dro.hash && ero.hash != "", "C35.1", "ticket-keys:hash", c.Pos(dec.Decl), "both sides use HMAC over "+ero.hash,
		fmt.Sprintf("encryptTicket uses HMAC over %s, decryptTicket over %s", ero.hash, dro.hash))
	// encrypt seals with the first key of the set it was given
	okFirst := false
	if pl := enc.Decl.Type.Params.List; len(pl) >= 2 && len(pl[1].Names) == 1 {
		kp := info.Defs[pl[1].Names[0]]
		an.Inner(enc.Body, func(n ast.Node) bool {
			if base, is0 := constIndex0(info, exprOf(n)); is0 && identObj(info, base) == kp {
				okFirst = true
			}
			return true
		})
	}
	r.Check(okFirst, "C35.1", E+":first-key", c.Pos(enc.Decl), "new tickets are sealed with element 0 of the key set", "encryptTicket does not seal with element 0 of the key set it was given")
	r.Floor("C35.1", 19)
}

func exprOf(n ast.Node) ast.Expr {
	e, _ := n.(ast.Expr)
	return e
}

// c35Layout: MAC covers everything but the tag; iv and ciphertext tile the MAC input.
func c35Layout(c *Ctx, fname string, fn *an.Fn, ro *c35Roles) {
	r := c.R
	mi, okM := ro.region["macInput"]
	tg, okT := ro.region["tag"]
	iv, okI := ro.region["iv"]
	ct, okC := ro.region["ciphertext"]
	pos := c.Pos(fn.Decl)
	if !okM || !okT || !mi.lo.ok || !mi.hi.ok || !tg.lo.ok || !tg.hi.ok {
		if okM && mi.node != nil && !mi.lo.ok {
			r.Bad("C35.1", fname+":mac-covers-all-but-tag", c.Pos(mi.node), "the HMAC input %s is not a region of the ticket", an.Str(mi.node))
			return
		}
		r.Unknown("C35.1", fname+":mac-covers-all-but-tag", pos, "HMAC input / tag regions not identified (input %v, tag %v)", okM, okT)
		return
	}
	ok := !mi.lo.fromEnd && mi.lo.k == 0 && mi.hi.fromEnd && tg.lo.fromEnd && mi.hi.k == tg.lo.k && tg.hi.fromEnd && tg.hi.k == 0 && tg.lo.k > 0
	r.Check(ok, "C35.1", fname+":mac-covers-all-but-tag", c.Pos(mi.node), "HMAC input "+mi.String()+" and tag "+tg.String()+" partition the ticket",
		"the HMAC input "+mi.String()+" and the tag "+tg.String()+" do not partition the ticket: some bytes (IV or ciphertext) can be modified without invalidating the tag")
	if !okI || !okC || !iv.lo.ok || !iv.hi.ok || !ct.lo.ok || !ct.hi.ok {
		r.Unknown("C35.1", fname+":iv-ciphertext-tile", pos, "IV / ciphertext regions not identified (iv %v, ciphertext %v)", okI, okC)
		return
	}
	ok2 := !iv.lo.fromEnd && iv.lo.k == 0 && !iv.hi.fromEnd && !ct.lo.fromEnd && iv.hi.k == ct.lo.k && ct.hi.fromEnd && ct.hi.k == mi.hi.k
	r.Check(ok2, "C35.1", fname+":iv-ciphertext-tile", c.Pos(ct.node), "IV "+iv.String()+" and ciphertext "+ct.String()+" tile the authenticated region",
		"IV "+iv.String()+" and ciphertext "+ct.String()+" do not tile the authenticated region "+mi.String())
}

var _ = strings.Join
