package props

import (
	"fmt"
	"go/ast"
	"go/token"
	"go/types"
	"sort"
	"strings"

	"verif/internal/an"
	"verif/internal/load"
)

func init() { register(&Prop{ID: "C14", Run: runC14}) }

func runC14(c *Ctx) {
	r := c.R
	r.Technique = "per-function CFG rules on verifyServerCertificate and loadSession: must-pass-through over the edges on which a (compound) condition forces InsecureSkipVerify / a nil verification error / the name-selection facts; reaching-definition classification of VerifyOptions fields by the Config/Conn field they are read from; sibling comparison of the two VerifyOptions constructions; resolved callees and fields throughout"
	r.Explanation = "C14.1 every path of verifyServerCertificate to the c.peerCertificates store and to a nil return takes an edge on which InsecureSkipVerify is true, the x509 Verify error of the leaf is nil, or the user's EncryptedClientHelloRejectionVerify returned nil; the failing outcome of each check returns a non-nil error; Verify is called on element 0 of the slice that is stored. " +
		"C14.2 for each VerifyOptions that reaches a Verify call, DNSName is read from InsecureServerNameToVerify only where that field is known non-empty and not \"*\", from the default source only where it is known empty, stays unset only on the \"*\" outcome, and every non-\"*\" outcome sets it; the default source is Config.ServerName on paths where ECH was not rejected and the outer name (Conn.serverName / ECH PublicName) on the ECH-rejected paths, never the other way round. " +
		"C14.3 Roots is only ever Config.RootCAs, CurrentTime is Config.time() except for an assignment that is reachable only when InsecureSkipTimeVerify is true and takes a validity bound of the leaf, and nothing but CurrentTime assignments is control-dependent on InsecureSkipTimeVerify. " +
		"C14.4 every session-returning exit of loadSession passes the NotAfter check against Config.time() (or InsecureSkipTimeVerify), the non-empty verifiedChains check and a successful VerifyHostname on the cached leaf with the C14.2 name selection (or InsecureSkipVerify); each failing outcome returns no session; uLoadSession obtains its session from loadSession. " +
		"C14.5 the VerifyOptions constructions of the rejected and the normal branch set the same fields and feed Intermediates from the same tail of the chain. " +
		"C14.6 every in-package caller of verifyServerCertificate leaves with an error when it fails."
	r.NotDecided = "x509 path building itself (crypto/x509 is trusted); that a handshake completes; which hello/SNI value Conn.serverName holds at run time for hand-built specs; sessions injected by the application through SetSessionTicketExtension/SetPskExtension (they bypass loadSession by design); FIPS chain filtering; renegotiation (leaf pinning)"
	if fn := c.Fn("C14.1", "Conn", "verifyServerCertificate"); fn != nil {
		c14Verify(c, fn)
	}
	if fn := c.Fn("C14.4", "Conn", "loadSession"); fn != nil {
		c14LoadSession(c, fn)
	}
	c14CallSites(c)
	r.Floor("C14.1", 7)
	r.Floor("C14.2", 8)
	r.Floor("C14.3", 8)
	r.Floor("C14.4", 14)
	r.Floor("C14.5", 3)
	r.Floor("C14.6", 2)
}

// ---------------------------------------------------------------- name-selection facts

type c14Names struct {
	empty, nonEmpty, star, nonStar []an.Edge
	odd                            []ast.Node
}

const c14INSV = "InsecureServerNameToVerify"

// c14InsvFact classifies an atom over Config.InsecureServerNameToVerify: returns the fact
// that holds when the atom is true and the one that holds when it is false.
func c14InsvFact(fn *an.Fn, atom ast.Expr) (whenTrue, whenFalse string) {
	info := fn.Info
	isF := func(e ast.Expr) bool {
		e = an.Unparen(e)
		if an.FieldSel(info, e, "Config", c14INSV) {
			return true
		}
		// a local copy of the field (override := c.config.InsecureServerNameToVerify)
		if id, ok := e.(*ast.Ident); ok {
			if d := singleDef(fn, id); d != nil {
				return an.FieldSel(info, an.Unparen(d), "Config", c14INSV)
			}
		}
		return false
	}
	if ok, emptyWhenTrue := lenCmpZero(info, atom, isF); ok {
		if emptyWhenTrue {
			return "empty", "nonempty"
		}
		return "nonempty", "empty"
	}
	isStar := func(e ast.Expr) bool { s, ok := an.ConstString(info, e); return ok && s == "*" }
	if op, ok := an.BinaryWith(an.Unparen(atom), isF, isStar); ok {
		switch op {
		case token.EQL:
			return "star", "nonstar"
		case token.NEQ:
			return "nonstar", "star"
		}
	}
	return "", ""
}

func c14NameEdges(c *Ctx, fn *an.Fn) c14Names {
	info := c.Info()
	fact := func(want string) []an.Edge {
		return edgesForcing(fn, func(a ast.Expr, val bool) bool {
			t, f := c14InsvFact(fn, a)
			if val {
				return t == want
			}
			return f == want
		})
	}
	n := c14Names{empty: fact("empty"), nonEmpty: fact("nonempty"), star: fact("star"), nonStar: fact("nonstar")}
	// "*" is a non-empty value
	n.nonEmpty = append(n.nonEmpty, n.star...)
	n.odd = oddConds(fn, func(x ast.Node) bool { return an.FieldSel(info, x, "Config", c14INSV) },
		func(a ast.Expr) bool { t, _ := c14InsvFact(fn, a); return t != "" })
	return n
}

// c14Source classifies where a verification name comes from.
func c14Source(fn *an.Fn, e ast.Expr, depth int) string {
	info := fn.Info
	if e == nil {
		return "unset"
	}
	e = an.Unparen(e)
	if s, ok := an.ConstString(info, e); ok {
		if s == "" {
			return "unset"
		}
		return "other"
	}
	insv := an.MentionsField(info, e, "Config", c14INSV)
	sn := an.MentionsField(info, e, "Config", "ServerName")
	outer := an.MentionsField(info, e, "Conn", "serverName") || an.MentionsField(info, e, "echConfig", "PublicName")
	n := 0
	for _, b := range []bool{insv, sn, outer} {
		if b {
			n++
		}
	}
	switch {
	case n > 1:
		return "other"
	case insv:
		return "override"
	case sn:
		return "ServerName"
	case outer:
		return "outer"
	}
	if id, ok := e.(*ast.Ident); ok && depth < 2 {
		if v := localVar(fn, id); v != nil {
			cls := ""
			for _, d := range defsOf(fn, v) {
				k := c14Source(fn, d, depth+1)
				if cls == "" {
					cls = k
				} else if cls != k {
					return "other"
				}
			}
			if cls != "" {
				return cls
			}
		}
	}
	return "other"
}

type c14Def struct {
	p    an.Point
	node ast.Node
	src  string
}

// c14CheckNameDefs applies the name-selection rules to the definitions of one verification
// name (opts.DNSName or a local) with respect to a use point.
func c14CheckNameDefs(c *Ctx, fn *an.Fn, rule, cons string, defs []c14Def, use an.Point, names c14Names, ech c14Ech) {
	r := c.R
	pos := c.PosP(use)
	if len(names.odd) > 0 {
		r.Unknown(rule, cons+":name-conditions", c.Pos(names.odd[0]), "condition over InsecureServerNameToVerify of an unrecognised shape: %s", an.Str(names.odd[0]))
		return
	}
	var override, deflt, unset, other []c14Def
	for _, d := range defs {
		switch d.src {
		case "override":
			override = append(override, d)
		case "ServerName", "outer":
			deflt = append(deflt, d)
		case "unset":
			unset = append(unset, d)
		default:
			other = append(other, d)
		}
	}
	for _, d := range other {
		r.Unknown(rule, cons+":name-source", c.Pos(d.node), "verification name assigned from an unrecognised source: %s", c14Render(d.node))
	}
	if len(other) > 0 {
		return
	}
	pts := func(ds ...[]c14Def) []an.Point {
		var out []an.Point
		for _, l := range ds {
			for _, d := range l {
				out = append(out, d.p)
			}
		}
		return out
	}
	// (i) override only when set and not "*"
	if len(override) == 0 {
		r.Bad(rule, cons+":name-override", pos, "InsecureServerNameToVerify is never used as the verification name")
	}
	for _, d := range override {
		ok1 := len(names.nonEmpty) > 0 && fn.MustPass(d.p, nil, names.nonEmpty)
		ok2 := len(names.nonStar) > 0 && fn.MustPass(d.p, nil, names.nonStar)
		switch {
		case !ok1:
			r.Bad(rule, cons+":name-override", c.Pos(d.node), "InsecureServerNameToVerify becomes the verification name on a path where it is not known to be set")
		case !ok2:
			r.Bad(rule, cons+":name-override", c.Pos(d.node), "InsecureServerNameToVerify becomes the verification name without excluding \"*\": the wildcard would be verified as a literal host name instead of skipping the name check")
		default:
			r.Ok(rule, cons+":name-override", c.Pos(d.node), "override used only where it is non-empty and not \"*\"")
		}
	}
	// (ii) default only when the override is empty, and the right default per ECH outcome
	if len(deflt) == 0 {
		r.Bad(rule, cons+":name-default", pos, "no default verification name (ServerName / outer name) is ever assigned")
	}
	for _, d := range deflt {
		if len(names.empty) == 0 || !fn.MustPass(d.p, nil, names.empty) {
			r.Bad(rule, cons+":name-default", c.Pos(d.node), "the default name is assigned on a path where InsecureServerNameToVerify may be set: the override would be ignored")
			continue
		}
		if !ech.present {
			// function without an ECH split (loadSession): the default is Config.ServerName
			r.Check(d.src == "ServerName", rule, cons+":name-default", c.Pos(d.node), "default name is Config.ServerName, used only when the override is empty",
				"default name is not Config.ServerName: "+an.Str(d.node))
			continue
		}
		switch d.src {
		case "ServerName":
			r.Check(fn.MustPass(d.p, nil, ech.normal), rule, cons+":name-default", c.Pos(d.node),
				"Config.ServerName is the default only where ECH was not rejected",
				"the ECH-rejected path verifies the certificate against Config.ServerName (with ECH configured that is the secret inner name) instead of the outer/public name: a correct client-facing server's certificate is refused and the caller never receives ECHRejectionError with the retry configs")
		case "outer":
			r.Check(fn.MustPass(d.p, nil, ech.rejected), rule, cons+":name-default", c.Pos(d.node),
				"the outer name (Conn.serverName / PublicName) is the default only on the ECH-rejected path",
				"Conn.serverName (the SNI value, empty for IP literals and spec-controlled in uTLS) is used as the default verification name outside the ECH-rejected path; it must be Config.ServerName")
		}
	}
	// (iii) unset only on the "*" outcome
	for _, d := range unset {
		others := pts(override, deflt)
		for _, u := range unset {
			if u.p != d.p {
				others = append(others, u.p)
			}
		}
		ok := fn.MustPassFrom(d.p, use, others, names.star) || !fn.Reachable(d.p, use)
		r.Check(ok, rule, cons+":name-skip-only-star", c.Pos(d.node), "the name stays unset only when InsecureServerNameToVerify is \"*\"",
			"the verification name can reach the check unset on a path where InsecureServerNameToVerify is not \"*\": the leaf's name is not checked")
	}
	if len(unset) == 0 {
		// no unset definition: every path is named; "*" must then clear it explicitly, which we did not find
		r.Bad(rule, cons+":name-skip-only-star", pos, "the name is never left unset: InsecureServerNameToVerify=\"*\" cannot skip the name check")
	}
	// (iv) completeness
	okE := len(names.empty) > 0
	for _, e := range names.empty {
		st := edgeStart(e)
		if (fn.Reachable(st, use) || st == use) && !mustPassAfterEdge(fn, e, use, pts(deflt)) {
			okE = false
		}
	}
	okN := len(names.nonStar) > 0
	for _, e := range names.nonStar {
		st := edgeStart(e)
		if (fn.Reachable(st, use) || st == use) && !mustPassAfterEdge(fn, e, use, pts(deflt, override)) {
			okN = false
		}
	}
	r.Check(okE && okN, rule, cons+":name-complete", pos, "every outcome other than \"*\" assigns a name before the check",
		fmt.Sprintf("some non-\"*\" outcome reaches the check without assigning a name (empty-override paths ok=%v, non-\"*\" paths ok=%v)", okE, okN))
}

// ---------------------------------------------------------------- ECH outcome

type c14Ech struct {
	present          bool
	rejected, normal []an.Edge
}

func c14EchEdges(c *Ctx, fn *an.Fn) c14Ech {
	info := c.Info()
	rej := edgesForcing(fn, func(a ast.Expr, val bool) bool {
		return an.FieldSel(info, an.Unparen(a), "Conn", "echAccepted") && !val
	})
	// only the edges that decide verification matter: those from which a Verify call is reachable
	return c14Ech{present: len(rej) > 0, rejected: rej, normal: otherEdges(rej)}
}

// ---------------------------------------------------------------- verifyServerCertificate

type c14Site struct {
	hit    an.Hit
	call   *ast.CallExpr
	opts   types.Object
	label  string
	optDef an.Hit // the statement defining opts
	lit    *ast.CompositeLit
}

func c14Verify(c *Ctx, fn *an.Fn) {
	r := c.R
	info := c.Info()
	const F = "verifyServerCertificate"
	isVerify := func(n ast.Node) bool {
		call, ok := n.(*ast.CallExpr)
		if !ok {
			return false
		}
		f, ok := an.Callee(info, call).(*types.Func)
		return ok && f.Name() == "Verify" && f.Pkg() != nil && f.Pkg().Path() == "crypto/x509" && an.TypeName(f.Type().(*types.Signature).Recv().Type()) == "Certificate"
	}
	ech := c14EchEdges(c, fn)
	if !ech.present {
		r.Unknown("C14.2", F+":ech-outcome", c.Pos(fn.Decl), "no condition over Conn.echAccepted found: cannot tell the ECH-rejected path from the normal one")
	}
	// restrict the ECH edges to those that lead to a Verify call (the trailing `!echRejected`
	// guards of the user callbacks come after verification)
	verHits := fn.FindNodes(isVerify)
	if len(verHits) == 0 {
		r.Bad("C14.1", F+":verify", c.Pos(fn.Decl), "no call to (*x509.Certificate).Verify: the server chain is never verified")
		return
	}
	leads := func(e an.Edge) bool {
		for _, h := range verHits {
			if fn.Reach(an.Point{B: e.B, I: len(e.B.Nodes) - 1}, nil, edgesExcept(e))[h.P] {
				return true
			}
		}
		return false
	}
	var rej []an.Edge
	for _, e := range ech.rejected {
		if leads(e) {
			rej = append(rej, e)
		}
	}
	ech.rejected, ech.normal = rej, otherEdges(rej)

	var sites []*c14Site
	for _, h := range verHits {
		call := h.N.(*ast.CallExpr)
		s := &c14Site{hit: h, call: call}
		switch {
		case len(ech.rejected) > 0 && fn.MustPass(h.P, nil, ech.rejected):
			s.label = "ech-rejected"
		case len(ech.normal) > 0 && fn.MustPass(h.P, nil, ech.normal):
			s.label = "normal"
		default:
			s.label = "shared"
		}
		if len(call.Args) == 1 {
			s.opts = identObj(info, call.Args[0])
		}
		sites = append(sites, s)
	}
	sort.Slice(sites, func(i, j int) bool { return sites[i].label < sites[j].label })
	seen := map[string]int{}
	for _, s := range sites {
		seen[s.label]++
		if seen[s.label] > 1 {
			s.label = fmt.Sprintf("%s#%d", s.label, seen[s.label])
		}
	}

	// ---- C14.1: guards of the store
	isv := edgesForcing(fn, func(a ast.Expr, val bool) bool {
		return an.FieldSel(info, an.Unparen(a), "Config", "InsecureSkipVerify") && val
	})
	if odd := oddConds(fn, func(x ast.Node) bool { return an.FieldSel(info, x, "Config", "InsecureSkipVerify") },
		func(a ast.Expr) bool { return an.FieldSel(info, an.Unparen(a), "Config", "InsecureSkipVerify") }); len(odd) > 0 {
		r.Unknown("C14.1", F+":InsecureSkipVerify-condition", c.Pos(odd[0]), "condition over InsecureSkipVerify of an unrecognised shape: %s", an.Str(odd[0]))
	}
	via := append([]an.Edge{}, isv...)
	var storeObj types.Object
	stores := fn.FindNodes(func(n ast.Node) bool {
		as, ok := n.(*ast.AssignStmt)
		if !ok {
			return false
		}
		for _, l := range as.Lhs {
			if an.FieldSel(info, an.Unparen(l), "Conn", "peerCertificates") {
				return true
			}
		}
		return false
	})
	for _, st := range stores {
		as := st.N.(*ast.AssignStmt)
		if len(as.Lhs) == 1 && len(as.Rhs) == 1 {
			storeObj = identObj(info, as.Rhs[0])
		}
	}
	for _, s := range sites {
		cons := F + "[" + s.label + "]"
		stmt := s.hit.P.Node()
		errObj := assignedObj(info, stmt, s.call, -1)
		if errObj == nil {
			r.Bad("C14.1", cons+":verify-error", c.Pos(s.call), "the error result of Verify is not bound to a variable: a failed verification cannot stop the handshake")
			continue
		}
		pass, fail := errEdgesAfter(fn, s.hit.P, errObj)
		via = append(via, pass...)
		if len(fail) == 0 {
			r.Bad("C14.1", cons+":verify-error", c.Pos(s.call), "the error of Verify is never tested")
		}
		for _, fe := range fail {
			ok, why := failEdgeExits(fn, fe, nil)
			r.Check(ok, "C14.1", cons+":verify-error", c.PosP(an.Point{B: fe.B, I: len(fe.B.Nodes) - 1}),
				"a failed Verify leaves verifyServerCertificate with a non-nil error", "failed Verify: "+why)
		}
		// leaf identity
		recv := ast.Expr(nil)
		if se, ok := s.call.Fun.(*ast.SelectorExpr); ok {
			recv = se.X
		}
		base, is0 := constIndex0(info, recv)
		switch {
		case !is0:
			r.Bad("C14.1", cons+":verify-leaf", c.Pos(s.call), "Verify is not called on element 0 (the leaf) of the server's chain: %s", an.Str(recv))
		case storeObj != nil && identObj(info, base) != storeObj:
			r.Bad("C14.1", cons+":verify-leaf", c.Pos(s.call), "the chain that is verified (%s) is not the one stored in c.peerCertificates", an.Str(base))
		default:
			r.Ok("C14.1", cons+":verify-leaf", c.Pos(s.call), "Verify runs on element 0 of the slice stored as peerCertificates")
		}
	}
	// user-supplied ECH rejection callback
	for _, h := range fn.FindNodes(func(n ast.Node) bool {
		call, ok := n.(*ast.CallExpr)
		return ok && an.FieldSel(info, an.Unparen(call.Fun), "Config", "EncryptedClientHelloRejectionVerify")
	}) {
		call := h.N.(*ast.CallExpr)
		cons := F + ":EncryptedClientHelloRejectionVerify"
		errObj := assignedObj(info, h.P.Node(), call, -1)
		if errObj == nil {
			r.Bad("C14.1", cons, c.Pos(call), "the result of the user's rejection-verify callback is not tested")
			continue
		}
		pass, fail := errEdgesAfter(fn, h.P, errObj)
		okF := len(fail) > 0
		why := "the callback's error is never tested"
		for _, fe := range fail {
			if ok, w := failEdgeExits(fn, fe, nil); !ok {
				okF, why = false, w
			}
		}
		inRej := len(ech.rejected) > 0 && fn.MustPass(h.P, nil, ech.rejected)
		if !inRej {
			okF, why = false, "the callback replaces verification outside the ECH-rejected path"
		} else {
			via = append(via, pass...)
		}
		r.Check(okF, "C14.1", cons, c.Pos(call), "callback consulted only on the ECH-rejected path; its error leaves with a non-nil error", why)
	}
	if len(stores) == 0 {
		r.Unknown("C14.1", F+":store", c.Pos(fn.Decl), "assignment to c.peerCertificates not found")
	}
	// a multi-assignment boolean flag in a condition cannot be expanded: undecided, not violated
	var flag ast.Node
	for _, b := range fn.G.Blocks {
		if !b.Live {
			continue
		}
		if _, _, isCond := an.CondEdges(b); !isCond {
			continue
		}
		cond := b.Nodes[len(b.Nodes)-1].(ast.Expr)
		if !isBoolExpr(info, cond) {
			continue
		}
		for _, a := range allAtoms(fn, cond, 0) {
			if id, ok := a.(*ast.Ident); ok {
				if v := localVar(fn, id); v != nil && len(defsOf(fn, v)) > 1 {
					flag = a
				}
			}
		}
	}
	for _, st := range stores {
		if flag != nil && !fn.MustPass(st.P, nil, via) {
			r.Unknown("C14.1", F+":store-guarded", c.Pos(flag), "the decision to verify is carried by the multi-assignment flag %q, which the rule cannot expand", an.Str(flag))
			continue
		}
		r.Check(fn.MustPass(st.P, nil, via), "C14.1", F+":store-guarded", c.Pos(st.N),
			"c.peerCertificates is set only after Verify succeeded, the rejection callback accepted, or with InsecureSkipVerify",
			"c.peerCertificates can be set on a path where InsecureSkipVerify is false and no successful Verify of the chain happened")
	}
	okRet, nRet := true, 0
	var badRet ast.Node
	for _, p := range fn.Returns() {
		rs := p.Node().(*ast.ReturnStmt)
		if len(rs.Results) != 1 || !an.IsNilIdent(info, rs.Results[0]) {
			continue
		}
		nRet++
		if !fn.MustPass(p, nil, via) {
			okRet, badRet = false, rs
		}
	}
	if nRet == 0 {
		r.Unknown("C14.1", F+":success-exit", c.Pos(fn.Decl), "no `return nil` found")
	} else {
		pos := c.Pos(fn.Decl)
		if badRet != nil {
			pos = c.Pos(badRet)
		}
		r.Check(okRet, "C14.1", F+":success-exit", pos, "every nil return lies behind a successful verification or InsecureSkipVerify",
			"verifyServerCertificate can return nil without InsecureSkipVerify and without a successful Verify")
	}

	// ---- per-site option rules
	names := c14NameEdges(c, fn)
	skipT := edgesForcing(fn, func(a ast.Expr, val bool) bool {
		return an.FieldSel(info, an.Unparen(a), "Config", "InsecureSkipTimeVerify") && val
	})
	if odd := oddConds(fn, func(x ast.Node) bool { return an.FieldSel(info, x, "Config", "InsecureSkipTimeVerify") },
		func(a ast.Expr) bool { return an.FieldSel(info, an.Unparen(a), "Config", "InsecureSkipTimeVerify") }); len(odd) > 0 {
		r.Unknown("C14.3", F+":InsecureSkipTimeVerify-condition", c.Pos(odd[0]), "condition over InsecureSkipTimeVerify of an unrecognised shape: %s", an.Str(odd[0]))
	}
	summaries := map[string]map[string]string{}
	for _, s := range sites {
		cons := F + "[" + s.label + "]"
		if s.opts == nil {
			r.Unknown("C14.2", cons+":options", c.Pos(s.call), "Verify argument is not a local VerifyOptions variable: %s", an.Str(s.call))
			continue
		}
		sum := c14Options(c, fn, s, cons, names, ech, skipT)
		summaries[s.label] = sum
	}
	// nothing but CurrentTime assignments depends on InsecureSkipTimeVerify
	c14SkipTimeRegion(c, fn, F, skipT)

	// ---- C14.5 siblings
	if len(sites) == 1 {
		r.Ok("C14.5", F+":single-construction", c.Pos(sites[0].call), "one VerifyOptions construction serves both paths")
		r.Ok("C14.5", F+":fields", c.Pos(sites[0].call), "n/a")
		r.Ok("C14.5", F+":intermediates", c.Pos(sites[0].call), "n/a")
	} else if len(sites) >= 2 {
		a, b := sites[0], sites[1]
		sa, sb := summaries[a.label], summaries[b.label]
		if sa != nil && sb != nil {
			r.Check(sa["fields"] == sb["fields"], "C14.5", F+":fields", c.Pos(a.call),
				"both constructions set {"+sa["fields"]+"}", fmt.Sprintf("[%s] sets {%s} but [%s] sets {%s}", a.label, sa["fields"], b.label, sb["fields"]))
			r.Check(sa["intermediates"] == sb["intermediates"] && sa["intermediates"] != "", "C14.5", F+":intermediates", c.Pos(a.call),
				"both constructions feed Intermediates from "+sa["intermediates"], fmt.Sprintf("[%s] feeds Intermediates from %q but [%s] from %q", a.label, sa["intermediates"], b.label, sb["intermediates"]))
			r.Check(sa["leaf"] == sb["leaf"], "C14.5", F+":leaf", c.Pos(a.call), "both verify "+sa["leaf"], fmt.Sprintf("[%s] verifies %s but [%s] verifies %s", a.label, sa["leaf"], b.label, sb["leaf"]))
		}
	}
}

// c14Options checks Roots / CurrentTime / DNSName of one VerifyOptions local and returns a
// summary used by the sibling rule.
func c14Options(c *Ctx, fn *an.Fn, s *c14Site, cons string, names c14Names, ech c14Ech, skipT []an.Edge) map[string]string {
	r := c.R
	info := c.Info()
	sum := map[string]string{}
	isOptsField := func(e ast.Expr, field string) bool {
		se, ok := an.Unparen(e).(*ast.SelectorExpr)
		if !ok || !an.FieldSel(info, se, "VerifyOptions", field) {
			return false
		}
		return identObj(info, se.X) == s.opts
	}
	anyOptsField := func(e ast.Expr) (string, bool) {
		se, ok := an.Unparen(e).(*ast.SelectorExpr)
		if !ok || identObj(info, se.X) != s.opts {
			return "", false
		}
		if sel := info.Selections[se]; sel != nil && sel.Kind() == types.FieldVal {
			return se.Sel.Name, true
		}
		return "", false
	}
	// the definition of opts
	type fdef struct {
		p    an.Point
		node ast.Node
		rhs  ast.Expr
		lit  bool
	}
	defs := map[string][]fdef{}
	var declHit *an.Hit
	for _, h := range fn.FindNodes(func(n ast.Node) bool {
		switch x := n.(type) {
		case *ast.AssignStmt:
			for _, l := range x.Lhs {
				if identObj(info, l) == s.opts {
					return true
				}
			}
		case *ast.ValueSpec:
			for _, id := range x.Names {
				if info.Defs[id] == s.opts {
					return true
				}
			}
		}
		return false
	}) {
		h := h
		if declHit != nil {
			r.Unknown("C14.2", cons+":options", c.Pos(h.N), "the VerifyOptions variable is assigned as a whole more than once")
			return nil
		}
		declHit = &h
	}
	if declHit == nil {
		r.Unknown("C14.2", cons+":options", c.Pos(s.call), "definition of the VerifyOptions variable not found")
		return nil
	}
	var lit *ast.CompositeLit
	switch x := declHit.N.(type) {
	case *ast.AssignStmt:
		if len(x.Rhs) == 1 {
			lit, _ = an.Unparen(x.Rhs[0]).(*ast.CompositeLit)
		}
		if lit == nil {
			r.Unknown("C14.2", cons+":options", c.Pos(x), "VerifyOptions is not built from a composite literal")
			return nil
		}
	case *ast.ValueSpec:
		if len(x.Values) == 1 {
			lit, _ = an.Unparen(x.Values[0]).(*ast.CompositeLit)
			if lit == nil {
				r.Unknown("C14.2", cons+":options", c.Pos(x), "VerifyOptions is not built from a composite literal")
				return nil
			}
		}
	}
	keys := map[string]bool{}
	litKeys := map[string]bool{}
	if lit != nil {
		for _, el := range lit.Elts {
			kv, ok := el.(*ast.KeyValueExpr)
			if !ok {
				r.Unknown("C14.2", cons+":options", c.Pos(lit), "positional VerifyOptions literal")
				return nil
			}
			k := kv.Key.(*ast.Ident).Name
			keys[k] = true
			litKeys[k] = true
			defs[k] = append(defs[k], fdef{declHit.P, kv, kv.Value, true})
		}
	}
	for _, h := range fn.FindNodes(func(n ast.Node) bool {
		as, ok := n.(*ast.AssignStmt)
		if !ok {
			return false
		}
		for _, l := range as.Lhs {
			if _, ok := anyOptsField(l); ok {
				return true
			}
		}
		return false
	}) {
		as := h.N.(*ast.AssignStmt)
		for i, l := range as.Lhs {
			if f, ok := anyOptsField(l); ok {
				var rhs ast.Expr
				if len(as.Lhs) == len(as.Rhs) {
					rhs = as.Rhs[i]
				}
				keys[f] = true
				defs[f] = append(defs[f], fdef{h.P, as, rhs, false})
			}
		}
	}
	var ks []string
	for k := range keys {
		ks = append(ks, k)
		switch k {
		case "Roots", "CurrentTime", "DNSName", "Intermediates":
		default:
			r.Unknown("C14.3", cons+":field:"+k, c.Pos(defs[k][0].node), "VerifyOptions.%s is set; the rule set does not know how it affects verification", k)
		}
	}
	sort.Strings(ks)
	sum["fields"] = strings.Join(ks, ",")

	// ---- Roots
	if len(defs["Roots"]) == 0 {
		r.Bad("C14.3", cons+":Roots", c.Pos(s.call), "VerifyOptions.Roots is never set: the chain is verified against the system pool instead of Config.RootCAs")
	}
	for _, d := range defs["Roots"] {
		ok := d.rhs != nil && an.FieldSel(info, an.Unparen(d.rhs), "Config", "RootCAs")
		r.Check(ok, "C14.3", cons+":Roots", c.Pos(d.node), "Roots is Config.RootCAs", "Roots is set from something other than Config.RootCAs: "+an.Str(d.rhs))
	}
	// ---- CurrentTime
	nDefault, nRelax := 0, 0
	for _, d := range defs["CurrentTime"] {
		isCfgTime := d.rhs != nil && an.IsCallTo(info, an.Unparen(d.rhs), Mod, "Config", "time")
		if isCfgTime && (d.lit || !c14OnlyVia(fn, d.p, skipT)) {
			nDefault++
			r.Ok("C14.3", cons+":CurrentTime", c.Pos(d.node), "verification time is Config.time()")
			continue
		}
		if d.lit || !c14OnlyVia(fn, d.p, skipT) {
			r.Bad("C14.3", cons+":CurrentTime", c.Pos(d.node), "the verification time is %s on a path where InsecureSkipTimeVerify is not set; it must be Config.time()", an.Str(d.rhs))
			continue
		}
		// relaxation: a validity bound of the leaf
		okRhs := false
		if se, ok := an.Unparen(d.rhs).(*ast.SelectorExpr); ok && (an.FieldSel(info, se, "Certificate", "NotAfter") || an.FieldSel(info, se, "Certificate", "NotBefore")) {
			if _, is0 := constIndex0(info, se.X); is0 {
				okRhs = true
			}
		}
		nRelax++
		r.Check(okRhs, "C14.3", cons+":CurrentTime-relaxed", c.Pos(d.node), "with InsecureSkipTimeVerify the time is moved into the leaf's validity period",
			"with InsecureSkipTimeVerify the time is set to "+an.Str(d.rhs)+", which is not a validity bound of the leaf")
	}
	if nDefault == 0 {
		r.Bad("C14.3", cons+":CurrentTime", c.Pos(s.call), "VerifyOptions.CurrentTime is not initialised from Config.time(): the chain is verified at the wall-clock time instead of the configured one")
	}
	if nRelax == 0 {
		r.Bad("C14.3", cons+":CurrentTime-relaxed", c.Pos(s.call), "InsecureSkipTimeVerify has no effect on this VerifyOptions")
	}
	// ---- DNSName
	var nd []c14Def
	if !litKeys["DNSName"] {
		nd = append(nd, c14Def{declHit.P, declHit.N, "unset"})
	}
	for _, d := range defs["DNSName"] {
		src := "other"
		if d.rhs != nil {
			src = c14Source(fn, d.rhs, 0)
		}
		nd = append(nd, c14Def{d.p, d.node, src})
	}
	c14CheckNameDefs(c, fn, "C14.2", cons, nd, s.hit.P, names, ech)

	// ---- Intermediates feed (summary only)
	for _, h := range fn.FindNodes(func(n ast.Node) bool {
		call, ok := n.(*ast.CallExpr)
		if !ok {
			return false
		}
		f, _ := an.Callee(info, call).(*types.Func)
		if f == nil || f.Name() != "AddCert" || f.Pkg() == nil || f.Pkg().Path() != "crypto/x509" {
			return false
		}
		se, ok := call.Fun.(*ast.SelectorExpr)
		return ok && isOptsField(se.X, "Intermediates")
	}) {
		// the enclosing range statement
		call := h.N.(*ast.CallExpr)
		an.Inner(fn.Body, func(n ast.Node) bool {
			rs, ok := n.(*ast.RangeStmt)
			if !ok || rs.Body.Pos() > call.Pos() || rs.Body.End() < call.End() {
				return true
			}
			v, _ := rs.Value.(*ast.Ident)
			if v != nil && len(call.Args) == 1 && identObj(info, call.Args[0]) == info.Defs[v] {
				sum["intermediates"] = c14SliceSummary(info, rs.X)
			}
			return true
		})
	}
	if se, ok := s.call.Fun.(*ast.SelectorExpr); ok {
		sum["leaf"] = c14SliceSummary(info, se.X)
	}
	return sum
}

// c14SliceSummary renders X[k:] / X[k] with the object identity of X and constant bounds.
func c14SliceSummary(info *types.Info, e ast.Expr) string {
	e = an.Unparen(e)
	name := func(x ast.Expr) string {
		if o := identObj(info, x); o != nil {
			return fmt.Sprintf("%s@%d", o.Name(), o.Pos())
		}
		return an.Str(x)
	}
	cst := func(x ast.Expr) string {
		if x == nil {
			return ""
		}
		if v, ok := an.ConstInt(info, x); ok {
			return fmt.Sprint(v)
		}
		return an.Str(x)
	}
	switch x := e.(type) {
	case *ast.SliceExpr:
		return name(x.X) + "[" + cst(x.Low) + ":" + cst(x.High) + "]"
	case *ast.IndexExpr:
		return name(x.X) + "[" + cst(x.Index) + "]"
	}
	return name(e)
}

// c14OnlyVia: p is reachable only by taking one of edges.
func c14OnlyVia(fn *an.Fn, p an.Point, edges []an.Edge) bool {
	return len(edges) > 0 && fn.MustPass(p, nil, edges)
}

// c14SkipTimeRegion: every statement that executes only when InsecureSkipTimeVerify is true
// must be an assignment to VerifyOptions.CurrentTime.
func c14SkipTimeRegion(c *Ctx, fn *an.Fn, fname string, skipT []an.Edge) {
	r := c.R
	info := c.Info()
	pts := exclusivePoints(fn, skipT)
	sort.Slice(pts, func(i, j int) bool { return pts[i].Node().Pos() < pts[j].Node().Pos() })
	bad := 0
	for _, p := range pts {
		n := p.Node()
		ok := false
		if as, isAs := n.(*ast.AssignStmt); isAs {
			ok = true
			for _, l := range as.Lhs {
				if !an.FieldSel(info, an.Unparen(l), "VerifyOptions", "CurrentTime") {
					ok = false
				}
			}
		}
		if !ok {
			bad++
			r.Bad("C14.3", fname+":skip-time-region", c.Pos(n), "`%s` executes only when InsecureSkipTimeVerify is set: the option must relax nothing but the validity period", strings.TrimSpace(c14Render(n)))
		}
	}
	if bad == 0 {
		r.Ok("C14.3", fname+":skip-time-region", c.Pos(fn.Decl), "%d statement(s) depend on InsecureSkipTimeVerify being set; all assign VerifyOptions.CurrentTime", len(pts))
	}
}

func c14Render(n ast.Node) string {
	switch x := n.(type) {
	case ast.Expr:
		return an.Str(x)
	case *ast.AssignStmt:
		var l, rr []string
		for _, e := range x.Lhs {
			l = append(l, an.Str(e))
		}
		for _, e := range x.Rhs {
			rr = append(rr, an.Str(e))
		}
		return strings.Join(l, ", ") + " " + x.Tok.String() + " " + strings.Join(rr, ", ")
	case *ast.ExprStmt:
		return an.Str(x.X)
	case *ast.ReturnStmt:
		return "return " + shortExit(x)
	}
	return fmt.Sprintf("%T", n)
}

// ---------------------------------------------------------------- loadSession

func c14LoadSession(c *Ctx, fn *an.Fn) {
	r := c.R
	info := c.Info()
	const F = "loadSession"
	// the session result
	var resObj types.Object
	if rl := fn.Decl.Type.Results; rl != nil && len(rl.List) > 0 && len(rl.List[0].Names) > 0 {
		resObj = info.Defs[rl.List[0].Names[0]]
	}
	// session-bearing exits
	var assignPts []an.Point
	if resObj != nil {
		for p := range redefPoints(fn, resObj, an.Point{}) {
			assignPts = append(assignPts, p)
		}
	}
	isNilSessionRet := func(rs *ast.ReturnStmt) bool {
		return len(rs.Results) > 0 && an.IsNilIdent(info, rs.Results[0])
	}
	var exits []an.Point
	for _, p := range fn.Returns() {
		rs := p.Node().(*ast.ReturnStmt)
		if isNilSessionRet(rs) {
			continue
		}
		if len(rs.Results) == 0 {
			if resObj == nil {
				continue
			}
			reach := false
			for _, a := range assignPts {
				if fn.Reachable(a, p) {
					reach = true
				}
			}
			if !reach {
				continue
			}
		}
		exits = append(exits, p)
	}
	if len(exits) == 0 {
		r.Unknown("C14.4", F+":exits", c.Pos(fn.Decl), "no session-returning exit found")
		return
	}
	r.Count("loadSession_session_exits", len(exits))
	allPass := func(via []an.Edge) (bool, an.Point) {
		for _, p := range exits {
			if !fn.MustPass(p, nil, via) {
				return false, p
			}
		}
		return true, an.Point{}
	}
	failsReturnNoSession := func(fail []an.Edge) (bool, string) {
		if len(fail) == 0 {
			return false, "no failing outcome found"
		}
		for _, fe := range fail {
			ex := exitsAfterEdge(fn, fe)
			if len(ex) == 0 {
				return false, "the failing outcome does not leave loadSession"
			}
			for _, rs := range ex {
				if !isNilSessionRet(rs) {
					return false, "after the failing outcome loadSession can still return the session (`" + c14Render(rs) + "`)"
				}
			}
		}
		return true, ""
	}
	isv := edgesForcing(fn, func(a ast.Expr, val bool) bool {
		return an.FieldSel(info, an.Unparen(a), "Config", "InsecureSkipVerify") && val
	})
	skipT := edgesForcing(fn, func(a ast.Expr, val bool) bool {
		return an.FieldSel(info, an.Unparen(a), "Config", "InsecureSkipTimeVerify") && val
	})
	for _, fld := range []string{"InsecureSkipVerify", "InsecureSkipTimeVerify"} {
		fld := fld
		if odd := oddConds(fn, func(x ast.Node) bool { return an.FieldSel(info, x, "Config", fld) },
			func(a ast.Expr) bool { return an.FieldSel(info, an.Unparen(a), "Config", fld) }); len(odd) > 0 {
			r.Unknown("C14.4", F+":"+fld+"-condition", c.Pos(odd[0]), "condition over %s of an unrecognised shape: %s", fld, an.Str(odd[0]))
		}
	}
	var isLeafOfSession func(e ast.Expr) bool
	isLeafOfSession = func(e ast.Expr) bool {
		if id, ok := an.Unparen(e).(*ast.Ident); ok {
			if d := singleDef(fn, id); d != nil {
				return isLeafOfSession(d)
			}
		}
		base, is0 := constIndex0(info, e)
		if !is0 || !an.FieldSel(info, base, "SessionState", "peerCertificates") {
			return false
		}
		if resObj == nil {
			return true
		}
		return identObj(info, base.(*ast.SelectorExpr).X) == resObj
	}

	// ---- expiry: Config.time().After(leaf.NotAfter)
	type expiry struct {
		expiredWhenTrue bool
		now, bound      ast.Expr
	}
	expiryOf := func(a ast.Expr) *expiry {
		call, ok := an.Unparen(a).(*ast.CallExpr)
		if !ok || len(call.Args) != 1 {
			return nil
		}
		f, _ := an.Callee(info, call).(*types.Func)
		if f == nil || f.Pkg() == nil || f.Pkg().Path() != "time" || (f.Name() != "After" && f.Name() != "Before") {
			return nil
		}
		se := call.Fun.(*ast.SelectorExpr)
		recv, arg := an.Unparen(se.X), an.Unparen(call.Args[0])
		isNA := func(e ast.Expr) bool { return an.FieldSel(info, e, "Certificate", "NotAfter") }
		switch {
		case f.Name() == "After" && isNA(arg):
			return &expiry{true, recv, arg}
		case f.Name() == "Before" && isNA(recv):
			return &expiry{true, arg, recv}
		case f.Name() == "Before" && isNA(arg):
			return &expiry{false, recv, arg}
		case f.Name() == "After" && isNA(recv):
			return &expiry{false, arg, recv}
		}
		return nil
	}
	var expPass, expFail []an.Edge
	var expNode ast.Expr
	okNow, okLeaf := true, true
	expPass = edgesForcing(fn, func(a ast.Expr, val bool) bool {
		if e := expiryOf(a); e != nil {
			expNode = a
			if !an.IsCallTo(info, e.now, Mod, "Config", "time") {
				okNow = false
			}
			if !isLeafOfSession(e.bound.(*ast.SelectorExpr).X) {
				okLeaf = false
			}
			return e.expiredWhenTrue != val
		}
		return false
	})
	// the outcomes possible when the certificate is expired (the expiry atom may share its
	// condition with other disjuncts, e.g. `len(certs) == 0 || now.After(NotAfter)`)
	expFail = edgesTakenWhen(fn, func(a ast.Expr) (bool, bool) {
		if e := expiryOf(a); e != nil {
			return true, e.expiredWhenTrue
		}
		return false, false
	})
	if expNode == nil {
		r.Bad("C14.4", F+":expiry-check", c.Pos(fn.Decl), "no comparison of the time with the cached leaf's NotAfter: an expired cached certificate is resumed")
	} else {
		r.Check(okNow, "C14.4", F+":expiry-time", c.Pos(expNode), "the cached leaf is checked against Config.time()", "the expiry check of the cached certificate does not use Config.time(): "+an.Str(expNode))
		r.Check(okLeaf, "C14.4", F+":expiry-leaf", c.Pos(expNode), "NotAfter of element 0 of the returned session's peerCertificates", "the expiry check is not on peerCertificates[0] of the session being returned: "+an.Str(expNode))
		ok, at := allPass(append(append([]an.Edge{}, expPass...), skipT...))
		r.Check(ok, "C14.4", F+":expiry-guards-exits", c.PosP(at), "every session-returning exit passed the NotAfter check or InsecureSkipTimeVerify",
			"a session can be returned without the NotAfter check although InsecureSkipTimeVerify is not set")
		okF, why := failsReturnNoSession(expFail)
		r.Check(okF, "C14.4", F+":expiry-fail", c.Pos(expNode), "an expired cached certificate yields no session", "expired cached certificate: "+why)
	}
	c14SkipTimeRegion(c, fn, F, skipT)

	// ---- verifiedChains non-empty
	isVC := func(e ast.Expr) bool { return an.FieldSel(info, e, "SessionState", "verifiedChains") }
	vcPass := edgesForcing(fn, func(a ast.Expr, val bool) bool {
		ok, emptyWhenTrue := lenCmpZero(info, a, isVC)
		return ok && emptyWhenTrue != val
	})
	vcFail := edgesForcing(fn, func(a ast.Expr, val bool) bool {
		ok, emptyWhenTrue := lenCmpZero(info, a, isVC)
		return ok && emptyWhenTrue == val
	})
	if len(vcPass) == 0 {
		r.Bad("C14.4", F+":chains-check", c.Pos(fn.Decl), "no check that the cached session has verified chains: a session created under InsecureSkipVerify is resumed by a verifying configuration")
	} else {
		ok, at := allPass(append(append([]an.Edge{}, vcPass...), isv...))
		r.Check(ok, "C14.4", F+":chains-guards-exits", c.PosP(at), "every session-returning exit saw non-empty verifiedChains or InsecureSkipVerify",
			"a session without verified chains can be returned although InsecureSkipVerify is not set")
		okF, why := failsReturnNoSession(vcFail)
		r.Check(okF, "C14.4", F+":chains-fail", c.PosP(an.Point{B: vcFail[0].B, I: len(vcFail[0].B.Nodes) - 1}), "empty verifiedChains yields no session", "empty verifiedChains: "+why)
	}

	// ---- VerifyHostname
	vh := fn.FindNodes(func(n ast.Node) bool {
		call, ok := n.(*ast.CallExpr)
		if !ok {
			return false
		}
		f, _ := an.Callee(info, call).(*types.Func)
		return f != nil && f.Name() == "VerifyHostname" && f.Pkg() != nil && f.Pkg().Path() == "crypto/x509"
	})
	if len(vh) == 0 {
		r.Bad("C14.4", F+":hostname-check", c.Pos(fn.Decl), "the cached leaf is not re-checked with VerifyHostname")
		return
	}
	if len(vh) > 1 {
		r.Unknown("C14.4", F+":hostname-check", c.Pos(vh[1].N), "more than one VerifyHostname call")
		return
	}
	call := vh[0].N.(*ast.CallExpr)
	r.Check(isLeafOfSession(call.Fun.(*ast.SelectorExpr).X), "C14.4", F+":hostname-leaf", c.Pos(call), "VerifyHostname runs on element 0 of the returned session's peerCertificates",
		"VerifyHostname is not called on peerCertificates[0] of the session being returned")
	errObj := assignedObj(info, vh[0].P.Node(), call, -1)
	var vhPass, vhFail []an.Edge
	if errObj != nil {
		vhPass, vhFail = errEdgesAfter(fn, vh[0].P, errObj)
	}
	okF, why := failsReturnNoSession(vhFail)
	r.Check(okF, "C14.4", F+":hostname-fail", c.Pos(call), "a name mismatch yields no session", "VerifyHostname failure: "+why)
	// the name variable
	var nameVar *types.Var
	if len(call.Args) == 1 {
		if id, ok := an.Unparen(call.Args[0]).(*ast.Ident); ok {
			nameVar = localVar(fn, id)
		}
	}
	if nameVar == nil {
		r.Unknown("C14.4", F+":hostname-name", c.Pos(call), "VerifyHostname argument is not a local variable: %s", an.Str(call))
		return
	}
	// follow plain copies (dnsName := hostToCheck) back to the variable that is actually selected
	aliases := map[types.Object]bool{nameVar: true}
	for i := 0; i < 3; i++ {
		ds := defsOf(fn, nameVar)
		if len(ds) != 1 || ds[0] == nil {
			break
		}
		id, ok := an.Unparen(ds[0]).(*ast.Ident)
		if !ok {
			break
		}
		v := localVar(fn, id)
		if v == nil {
			break
		}
		nameVar = v
		aliases[v] = true
	}
	isName := func(e ast.Expr) bool { o := identObj(info, e); return o != nil && aliases[o] }
	nameEmpty := edgesForcing(fn, func(a ast.Expr, val bool) bool {
		ok, emptyWhenTrue := lenCmpZero(info, a, isName)
		return ok && emptyWhenTrue == val
	})
	names := c14NameEdges(c, fn)
	via := append(append(append([]an.Edge{}, isv...), vhPass...), nameEmpty...)
	ok, at := allPass(via)
	r.Check(ok, "C14.4", F+":hostname-guards-exits", c.PosP(at), "every session-returning exit passed VerifyHostname, had no name to verify, or InsecureSkipVerify",
		"a session can be returned without VerifyHostname on the cached leaf although a verification name is configured and InsecureSkipVerify is not set")
	// definitions of the name
	var nd []c14Def
	for _, h := range fn.FindNodes(func(n ast.Node) bool {
		switch x := n.(type) {
		case *ast.AssignStmt:
			for _, l := range x.Lhs {
				if identObj(info, l) == types.Object(nameVar) {
					return true
				}
			}
		case *ast.ValueSpec:
			for _, id := range x.Names {
				if info.Defs[id] == types.Object(nameVar) {
					return true
				}
			}
		}
		return false
	}) {
		switch x := h.N.(type) {
		case *ast.AssignStmt:
			for i, l := range x.Lhs {
				if identObj(info, l) == types.Object(nameVar) {
					var rhs ast.Expr
					if len(x.Lhs) == len(x.Rhs) {
						rhs = x.Rhs[i]
					}
					src := "other"
					if rhs != nil {
						src = c14Source(fn, rhs, 0)
					}
					nd = append(nd, c14Def{h.P, x, src})
				}
			}
		case *ast.ValueSpec:
			for i, id := range x.Names {
				if info.Defs[id] == types.Object(nameVar) {
					var rhs ast.Expr
					if i < len(x.Values) {
						rhs = x.Values[i]
					}
					nd = append(nd, c14Def{h.P, x, c14Source(fn, rhs, 0)})
				}
			}
		}
	}
	// the use: the first point that reads the name (guard or call)
	use := vh[0].P
	for _, b := range fn.G.Blocks {
		if !b.Live {
			continue
		}
		if _, _, isCond := an.CondEdges(b); !isCond {
			continue
		}
		cond := b.Nodes[len(b.Nodes)-1].(ast.Expr)
		cp := an.Point{B: b, I: len(b.Nodes) - 1}
		mentions := false
		for o := range aliases {
			if an.MentionsObj(info, cond, o) {
				mentions = true
			}
		}
		if mentions && fn.Reachable(cp, vh[0].P) {
			use = cp
		}
	}
	c14CheckNameDefs(c, fn, "C14.4", F, nd, use, names, c14Ech{})

	// ---- uLoadSession takes its session from loadSession
	if ul := c.Fn("C14.4", "UConn", "uLoadSession"); ul != nil {
		lsCalls := ul.FindNodes(an.CallTo(info, Mod, "Conn", "loadSession"))
		if len(lsCalls) != 1 {
			r.Unknown("C14.4", "uLoadSession:session-source", c.Pos(ul.Decl), "%d calls to loadSession found, expected 1", len(lsCalls))
		} else {
			sess := assignedObj(info, lsCalls[0].P.Node(), lsCalls[0].N.(*ast.CallExpr), 0)
			n := 0
			okAll := sess != nil && len(redefPoints(ul, sess, lsCalls[0].P)) == 0
			for _, h := range ul.FindNodes(func(x ast.Node) bool {
				return an.IsCallTo(info, x, Mod, "sessionController", "initSessionTicketExt") || an.IsCallTo(info, x, Mod, "sessionController", "initPskExt")
			}) {
				n++
				ic := h.N.(*ast.CallExpr)
				if len(ic.Args) == 0 || identObj(info, ic.Args[0]) != sess || !ul.MustPass(h.P, []an.Point{lsCalls[0].P}, nil) {
					okAll = false
				}
			}
			if n == 0 {
				r.Unknown("C14.4", "uLoadSession:session-source", c.Pos(ul.Decl), "no initSessionTicketExt/initPskExt call found")
			} else {
				r.Check(okAll, "C14.4", "uLoadSession:session-source", c.Pos(lsCalls[0].N), fmt.Sprintf("%d resumption initialisers receive the session returned (re-validated) by loadSession", n),
					"a cache-sourced session is installed for resumption without going through loadSession's re-validation")
			}
		}
	}
}

// ---------------------------------------------------------------- callers

func c14CallSites(c *Ctx) {
	r := c.R
	info := c.Info()
	n := 0
	for _, fd := range load.AllFuncDecls(c.P.TLS) {
		if !an.Contains(fd.Body, an.CallTo(info, Mod, "Conn", "verifyServerCertificate")) {
			continue
		}
		fn := an.NewFn(c.P.TLS, fd)
		name := fd.Name.Name
		if rn := load.RecvName(fd); rn != "" {
			name = rn + "." + name
		}
		for _, h := range fn.FindNodes(an.CallTo(info, Mod, "Conn", "verifyServerCertificate")) {
			n++
			call := h.N.(*ast.CallExpr)
			cons := name + ":verifyServerCertificate-error"
			errObj := assignedObj(info, h.P.Node(), call, -1)
			if errObj == nil {
				// `return c.verifyServerCertificate(..)` propagates directly
				if rs, ok := h.P.Node().(*ast.ReturnStmt); ok && len(rs.Results) > 0 && an.Unparen(rs.Results[len(rs.Results)-1]) == ast.Expr(call) {
					r.Ok("C14.6", cons, c.Pos(call), "result returned directly")
					continue
				}
				r.Bad("C14.6", cons, c.Pos(call), "the error of verifyServerCertificate is dropped: the handshake continues with an unverified certificate")
				continue
			}
			_, fail := errEdgesAfter(fn, h.P, errObj)
			if len(fail) == 0 {
				r.Bad("C14.6", cons, c.Pos(call), "the error of verifyServerCertificate is never tested (or only together with another condition)")
				continue
			}
			// the call is inside the function's live graph; every way onwards must pass the nil test
			pass, _ := errEdgesAfter(fn, h.P, errObj)
			okAll := true
			why := ""
			for _, fe := range fail {
				if ok, w := failEdgeExits(fn, fe, nil); !ok {
					okAll, why = false, w
				}
			}
			// no path from the call to a later statement avoiding the test outcome edges
			for _, rp := range fn.Returns() {
				rs := rp.Node().(*ast.ReturnStmt)
				if len(rs.Results) == 0 || !an.IsNilIdent(info, rs.Results[len(rs.Results)-1]) {
					continue
				}
				if fn.Reachable(h.P, rp) && !fn.MustPassFrom(h.P, rp, nil, pass) {
					okAll, why = false, "a nil-error return is reachable after the call without the error having been found nil"
				}
			}
			r.Check(okAll, "C14.6", cons, c.Pos(call), "a verification failure leaves the caller with a non-nil error", "caller of verifyServerCertificate: "+why)
		}
	}
	if n == 0 {
		r.Unknown("C14.6", "callers", "", "no in-package caller of verifyServerCertificate found")
	}
}
