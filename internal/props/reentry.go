package props

// Typestate interpreter for the session controller ("E9-lite"), used by C33.8.
//
// The abstract state is the value (known constant, nil/non-nil, or unknown) of every
// field of struct sessionController, of UConn.clientHelloBuildStatus and of the predicate
// "ClientHelloID == HelloGolang". Nothing about the methods is written down here: the
// interpreter walks the real CFGs (go/cfg) of the functions involved, starting from the
// values newSessionController stores, following static calls into every function that
// (transitively) touches those fields or can panic, executing defers at function exits,
// splitting on conditions it cannot decide, and refining the state on the conditions it
// can. Conditions over anything else are free (both outcomes).
//
// A panic is reported only when it is forced by the tracked state: a builtin panic()
// reached in a state none of whose tracked values was guessed, or an assertion helper
// (uAssert-like) whose condition cannot hold in such a state.

import (
	"fmt"
	"go/ast"
	"go/constant"
	"go/token"
	"go/types"
	"sort"
	"strings"

	"golang.org/x/tools/go/cfg"

	"verif/internal/an"
)

const (
	reTop = iota
	reConst
	reNil
	reNonNil
)

type reVal struct {
	k int
	c constant.Value
}

func (v reVal) String() string {
	switch v.k {
	case reConst:
		return v.c.ExactString()
	case reNil:
		return "nil"
	case reNonNil:
		return "nonnil"
	}
	return "?"
}

func reBool(b bool) reVal { return reVal{reConst, constant.MakeBool(b)} }

func (v reVal) isBool() (bool, bool) {
	if v.k == reConst && v.c.Kind() == constant.Bool {
		return constant.BoolVal(v.c), true
	}
	return false, false
}

// reCfg is one abstract configuration inside a function activation.
type reCfg struct {
	vars   map[*types.Var]reVal // tracked, per connection
	taint  bool                 // some tracked value was guessed on the way here
	locals map[types.Object]reVal
	tags   map[*ast.SwitchStmt]reVal
	defers []*ast.CallExpr
}

func (c reCfg) clone() reCfg {
	n := reCfg{vars: map[*types.Var]reVal{}, taint: c.taint, locals: map[types.Object]reVal{}, tags: map[*ast.SwitchStmt]reVal{}}
	for k, v := range c.vars {
		n.vars[k] = v
	}
	for k, v := range c.locals {
		n.locals[k] = v
	}
	for k, v := range c.tags {
		n.tags[k] = v
	}
	n.defers = append([]*ast.CallExpr{}, c.defers...)
	return n
}

type reExit struct {
	vars  map[*types.Var]reVal
	taint bool
	ret   reVal
}

type rePanic struct {
	Func  string
	Pos   string
	What  string
	State string
	Path  string
	Phase string
}

type reEngine struct {
	pp        *prProg
	tracked   map[*types.Var]string
	order     []*types.Var
	golang    *types.Var   // pseudo variable: ClientHelloID == HelloGolang
	helloObj  types.Object // package variable HelloGolang
	idField   *types.Var   // UConn.ClientHelloID
	relevant  map[*prFunc]bool
	memo      map[string][]reExit
	stack     []*prFunc
	panics    map[string]*rePanic
	phase     string
	steps     int
	exhausted bool
	funcsSeen map[*prFunc]bool
	kinds     map[*prFunc]prPanicKind
	perFunc   map[string]int
	tlocals   map[*prFunc]map[types.Object]bool
}

func (e *reEngine) varsKey(vars map[*types.Var]reVal, taint bool) string {
	var sb strings.Builder
	for _, v := range e.order {
		sb.WriteString(e.tracked[v])
		sb.WriteByte('=')
		sb.WriteString(vars[v].String())
		sb.WriteByte(' ')
	}
	if taint {
		sb.WriteString("~")
	}
	return sb.String()
}

func (e *reEngine) cfgKey(c reCfg) string {
	s := e.varsKey(c.vars, c.taint)
	var ls []string
	for o, v := range c.locals {
		if v.k != reTop {
			ls = append(ls, fmt.Sprintf("%s@%d=%s", o.Name(), o.Pos(), v))
		}
	}
	for sw, v := range c.tags {
		ls = append(ls, fmt.Sprintf("tag@%d=%s", sw.Pos(), v))
	}
	sort.Strings(ls)
	s += strings.Join(ls, ",")
	for _, d := range c.defers {
		s += fmt.Sprintf(";d%d", d.Pos())
	}
	return s
}

// newTsEngine discovers the tracked variables and the initial state.
func newTsEngine(pp *prProg) (*reEngine, map[*types.Var]reVal, string) {
	e := &reEngine{pp: pp, tracked: map[*types.Var]string{}, memo: map[string][]reExit{}, panics: map[string]*rePanic{}, funcsSeen: map[*prFunc]bool{}}
	scope := pp.c.P.TLS.Types.Scope()
	ctrl, _ := scope.Lookup("sessionController").(*types.TypeName)
	uconn, _ := scope.Lookup("UConn").(*types.TypeName)
	e.helloObj = scope.Lookup("HelloGolang")
	if ctrl == nil || uconn == nil || e.helloObj == nil {
		return nil, nil, "sessionController, UConn or HelloGolang not found"
	}
	cst, ok := ctrl.Type().Underlying().(*types.Struct)
	if !ok {
		return nil, nil, "sessionController is not a struct"
	}
	init := map[*types.Var]reVal{}
	zero := func(t types.Type) reVal {
		switch u := t.Underlying().(type) {
		case *types.Basic:
			if u.Info()&types.IsBoolean != 0 {
				return reBool(false)
			}
			if u.Info()&types.IsInteger != 0 {
				return reVal{reConst, constant.MakeInt64(0)}
			}
		case *types.Pointer, *types.Interface, *types.Slice, *types.Map, *types.Signature:
			return reVal{k: reNil}
		}
		return reVal{}
	}
	trackable := func(t types.Type) bool {
		switch u := t.Underlying().(type) {
		case *types.Basic:
			return u.Info()&(types.IsBoolean|types.IsInteger) != 0
		case *types.Pointer, *types.Interface:
			return true
		}
		return false
	}
	for i := 0; i < cst.NumFields(); i++ {
		f := cst.Field(i)
		if trackable(f.Type()) {
			e.tracked[f] = "ctrl." + f.Name()
			e.order = append(e.order, f)
			init[f] = zero(f.Type())
		}
	}
	ust, _ := uconn.Type().Underlying().(*types.Struct)
	for i := 0; ust != nil && i < ust.NumFields(); i++ {
		f := ust.Field(i)
		switch f.Name() {
		case "clientHelloBuildStatus":
			if trackable(f.Type()) {
				e.tracked[f] = "uconn." + f.Name()
				e.order = append(e.order, f)
				init[f] = zero(f.Type())
			}
		case "ClientHelloID":
			e.idField = f
		}
	}
	if e.idField == nil {
		return nil, nil, "UConn.ClientHelloID not found"
	}
	// every struct field holding the controller (UConn.sessionController,
	// utlsConnExtraFields.sessionController): UClient sets them, so they are non-nil on the
	// connections this rule is about; tracking them keeps "controller present" consistent
	// between the places that test it.
	for _, n := range pp.named {
		st, ok := n.Underlying().(*types.Struct)
		if !ok {
			continue
		}
		for i := 0; i < st.NumFields(); i++ {
			f := st.Field(i)
			if p, isPtr := f.Type().(*types.Pointer); isPtr && types.Identical(p.Elem(), ctrl.Type()) {
				e.tracked[f] = n.Obj().Name() + "." + f.Name()
				e.order = append(e.order, f)
				init[f] = reVal{k: reNonNil}
			}
		}
	}
	// Conn.isClient as set by the UClient constructor
	if conn, _ := scope.Lookup("Conn").(*types.TypeName); conn != nil {
		if cs, ok := conn.Type().Underlying().(*types.Struct); ok {
			for i := 0; i < cs.NumFields(); i++ {
				if f := cs.Field(i); f.Name() == "isClient" && trackable(f.Type()) {
					e.tracked[f] = "Conn.isClient"
					e.order = append(e.order, f)
					init[f] = reVal{}
					if uc := pp.lookup("", "", "UClient"); uc != nil {
						ast.Inspect(uc.decl.Body, func(n ast.Node) bool {
							kv, ok := n.(*ast.KeyValueExpr)
							if !ok {
								return true
							}
							if id, _ := kv.Key.(*ast.Ident); id != nil && uc.pkg.TypesInfo.Uses[id] == types.Object(f) {
								if tv := uc.pkg.TypesInfo.Types[kv.Value]; tv.Value != nil {
									init[f] = reVal{reConst, tv.Value}
								}
							}
							return true
						})
					}
				}
			}
		}
	}
	e.golang = types.NewVar(token.NoPos, pp.c.P.TLS.Types, "isHelloGolang", types.Typ[types.Bool])
	e.tracked[e.golang] = "isHelloGolang"
	e.order = append(e.order, e.golang)
	// constructor values
	ctor := pp.lookup("", "", "newSessionController")
	if ctor == nil {
		return nil, nil, "newSessionController not found"
	}
	found := false
	ast.Inspect(ctor.decl.Body, func(n ast.Node) bool {
		cl, ok := n.(*ast.CompositeLit)
		if !ok || an.TypeName(ctor.pkg.TypesInfo.TypeOf(cl)) != "sessionController" {
			return true
		}
		found = true
		for _, el := range cl.Elts {
			kv, ok := el.(*ast.KeyValueExpr)
			if !ok {
				continue
			}
			id, _ := kv.Key.(*ast.Ident)
			if id == nil {
				continue
			}
			fv, _ := ctor.pkg.TypesInfo.Uses[id].(*types.Var)
			if fv == nil || e.tracked[fv] == "" {
				continue
			}
			info := ctor.pkg.TypesInfo
			switch {
			case an.IsNilIdent(info, kv.Value):
				init[fv] = reVal{k: reNil}
			case info.Types[kv.Value].Value != nil:
				init[fv] = reVal{reConst, info.Types[kv.Value].Value}
			default:
				if _, isRef := fv.Type().Underlying().(*types.Basic); !isRef {
					init[fv] = reVal{k: reNonNil}
				} else {
					init[fv] = reVal{}
				}
			}
		}
		return false
	})
	if !found {
		return nil, nil, "constructor literal of sessionController not found"
	}
	e.computeRelevant()
	return e, init, ""
}

// computeRelevant: functions that mention a tracked field, compare with HelloGolang, or
// statically call such a function. Everything else cannot change or test the tracked
// state and is skipped.
func (e *reEngine) computeRelevant() {
	e.relevant = map[*prFunc]bool{}
	for _, f := range e.pp.funcs {
		info := f.pkg.TypesInfo
		hit := false
		ast.Inspect(f.decl.Body, func(n ast.Node) bool {
			if hit {
				return false
			}
			switch x := n.(type) {
			case *ast.SelectorExpr:
				if sel := info.Selections[x]; sel != nil && sel.Kind() == types.FieldVal {
					if fv, _ := sel.Obj().(*types.Var); fv != nil && e.tracked[fv] != "" {
						hit = true
					}
				}
			case *ast.Ident:
				if o := info.Uses[x]; o != nil && o == e.helloObj {
					hit = true
				}
			}
			return true
		})
		if hit {
			e.relevant[f] = true
		}
	}
	for changed := true; changed; {
		changed = false
		for _, f := range e.pp.funcs {
			if e.relevant[f] {
				continue
			}
			for _, ed := range e.pp.callees(f) {
				if ed.kind == "static" && e.relevant[ed.to] {
					e.relevant[f] = true
					changed = true
					break
				}
			}
		}
	}
}

// ---- evaluation

type reOut struct {
	c reCfg
	v reVal
}

func (e *reEngine) trackedField(info *types.Info, x ast.Expr) *types.Var {
	se, ok := an.Unparen(x).(*ast.SelectorExpr)
	if !ok {
		return nil
	}
	sel := info.Selections[se]
	if sel == nil || sel.Kind() != types.FieldVal {
		return nil
	}
	fv, _ := sel.Obj().(*types.Var)
	if fv != nil && e.tracked[fv] != "" {
		return fv
	}
	return nil
}

// isGolangCompare: x is UConn.ClientHelloID and y is HelloGolang (either order).
func (e *reEngine) isGolangCompare(info *types.Info, a, b ast.Expr) bool {
	isID := func(x ast.Expr) bool {
		se, ok := an.Unparen(x).(*ast.SelectorExpr)
		if !ok {
			return false
		}
		sel := info.Selections[se]
		return sel != nil && sel.Obj() == types.Object(e.idField)
	}
	isHello := func(x ast.Expr) bool {
		id, ok := an.Unparen(x).(*ast.Ident)
		return ok && info.Uses[id] == e.helloObj
	}
	return (isID(a) && isHello(b)) || (isID(b) && isHello(a))
}

func (e *reEngine) eval(f *prFunc, x ast.Expr, c reCfg) []reOut {
	info := f.pkg.TypesInfo
	x = an.Unparen(x)
	if tv, ok := info.Types[x]; ok && tv.Value != nil {
		return []reOut{{c, reVal{reConst, tv.Value}}}
	}
	if an.IsNilIdent(info, x) {
		return []reOut{{c, reVal{k: reNil}}}
	}
	switch n := x.(type) {
	case *ast.Ident:
		if o := objOf(info, n); o != nil {
			if v, ok := c.locals[o]; ok {
				return []reOut{{c, v}}
			}
		}
		return []reOut{{c, reVal{}}}
	case *ast.SelectorExpr:
		if fv := e.trackedField(info, n); fv != nil {
			return []reOut{{c, c.vars[fv]}}
		}
		return []reOut{{c, reVal{}}}
	case *ast.UnaryExpr:
		switch n.Op {
		case token.NOT:
			var out []reOut
			for _, o := range e.eval(f, n.X, c) {
				if b, ok := o.v.isBool(); ok {
					out = append(out, reOut{o.c, reBool(!b)})
				} else {
					out = append(out, reOut{o.c, reVal{}})
				}
			}
			return out
		case token.AND:
			return []reOut{{c, reVal{k: reNonNil}}}
		}
		return []reOut{{c, reVal{}}}
	case *ast.BinaryExpr:
		switch n.Op {
		case token.LAND, token.LOR:
			var out []reOut
			for _, pol := range []bool{true, false} {
				for _, s := range e.assume(f, n, pol, c) {
					out = append(out, reOut{s.c, s.v(pol)})
				}
			}
			return out
		case token.EQL, token.NEQ:
			if e.isGolangCompare(info, n.X, n.Y) {
				v := c.vars[e.golang]
				if b, ok := v.isBool(); ok {
					return []reOut{{c, reBool(b == (n.Op == token.EQL))}}
				}
				return []reOut{{c, reVal{}}}
			}
			var out []reOut
			for _, l := range e.eval(f, n.X, c) {
				for _, r := range e.eval(f, n.Y, l.c) {
					out = append(out, reOut{r.c, reCompare(l.v, r.v, n.Op == token.EQL)})
				}
			}
			return out
		}
		return []reOut{{c, reVal{}}}
	case *ast.CallExpr:
		return e.call(f, n, c)
	case *ast.CompositeLit, *ast.FuncLit:
		return []reOut{{c, reVal{k: reNonNil}}}
	case *ast.TypeAssertExpr:
		if n.Type == nil {
			// x.(type): inside a case clause naming a type the bound value is not nil
			return []reOut{{c, reVal{k: reNonNil}}}
		}
	}
	return []reOut{{c, reVal{}}}
}

func reCompare(a, b reVal, eq bool) reVal {
	res := func(same bool) reVal { return reBool(same == eq) }
	switch {
	case a.k == reConst && b.k == reConst:
		if a.c.Kind() == constant.Bool || b.c.Kind() == constant.Bool {
			if a.c.Kind() == b.c.Kind() {
				return res(constant.BoolVal(a.c) == constant.BoolVal(b.c))
			}
			return reVal{}
		}
		if a.c.Kind() == constant.String || b.c.Kind() == constant.String {
			if a.c.Kind() == b.c.Kind() {
				return res(constant.StringVal(a.c) == constant.StringVal(b.c))
			}
			return reVal{}
		}
		return res(constant.Compare(a.c, token.EQL, b.c))
	case a.k == reNil && b.k == reNil:
		return res(true)
	case (a.k == reNil && b.k == reNonNil) || (a.k == reNonNil && b.k == reNil):
		return res(false)
	}
	return reVal{}
}

type reAssumed struct {
	c       reCfg
	decided bool // the outcome followed from known values only
}

func (s reAssumed) v(pol bool) reVal {
	if s.decided {
		return reBool(pol)
	}
	return reVal{}
}

// mentionsTracked: the expression reads a tracked variable (directly).
func (e *reEngine) mentionsTracked(f *prFunc, x ast.Expr) bool {
	info := f.pkg.TypesInfo
	hit := false
	ast.Inspect(x, func(n ast.Node) bool {
		if se, ok := n.(*ast.SelectorExpr); ok {
			if e.trackedField(info, se) != nil {
				hit = true
			}
		}
		if be, ok := n.(*ast.BinaryExpr); ok && e.isGolangCompare(info, be.X, be.Y) {
			hit = true
		}
		return !hit
	})
	return hit
}

// guessesEnum: the atomic condition reads a tracked variable of integer (enumeration) type
// whose value is unknown here.
func (e *reEngine) guessesEnum(f *prFunc, x ast.Expr) bool {
	info := f.pkg.TypesInfo
	hit := false
	ast.Inspect(x, func(n ast.Node) bool {
		if se, ok := n.(*ast.SelectorExpr); ok {
			if fv := e.trackedField(info, se); fv != nil && prIsInteger(fv.Type()) {
				hit = true
			}
		}
		return !hit
	})
	return hit
}

// assume returns the configurations in which cond evaluates to pol.
func (e *reEngine) assume(f *prFunc, cond ast.Expr, pol bool, c reCfg) []reAssumed {
	info := f.pkg.TypesInfo
	cond = an.Unparen(cond)
	if u, ok := cond.(*ast.UnaryExpr); ok && u.Op == token.NOT {
		return e.assume(f, u.X, !pol, c)
	}
	if be, ok := cond.(*ast.BinaryExpr); ok && (be.Op == token.LAND || be.Op == token.LOR) {
		and := be.Op == token.LAND
		var out []reAssumed
		if and == pol {
			// both operands must have value pol
			for _, l := range e.assume(f, be.X, pol, c) {
				for _, r := range e.assume(f, be.Y, pol, l.c) {
					out = append(out, reAssumed{r.c, l.decided && r.decided})
				}
			}
			return out
		}
		// X decides alone, or X has the other value and Y decides
		out = append(out, e.assume(f, be.X, pol, c)...)
		for _, l := range e.assume(f, be.X, !pol, c) {
			for _, r := range e.assume(f, be.Y, pol, l.c) {
				out = append(out, reAssumed{r.c, l.decided && r.decided})
			}
		}
		return out
	}
	// atomic
	var out []reAssumed
	for _, o := range e.eval(f, cond, c) {
		if b, ok := o.v.isBool(); ok {
			if b == pol {
				out = append(out, reAssumed{o.c, true})
			}
			continue
		}
		// unknown: keep, refine where the shape allows. Guessing the value of a tracked
		// enumeration taints the configuration; an unknown tracked boolean or nil-ness
		// (set from the environment: does the spec contain the extension?) is a genuine
		// two-way choice and is simply split.
		nc := o.c.clone()
		if e.guessesEnum(f, cond) {
			nc.taint = true
		}
		e.refine(f, info, cond, pol, &nc)
		out = append(out, reAssumed{nc, false})
	}
	return out
}

// refine records what an unknown atomic condition having value pol implies.
func (e *reEngine) refine(f *prFunc, info *types.Info, cond ast.Expr, pol bool, c *reCfg) {
	set := func(x ast.Expr, v reVal) {
		if fv := e.trackedField(info, x); fv != nil {
			c.vars[fv] = v
			return
		}
		if id, ok := an.Unparen(x).(*ast.Ident); ok {
			if o := objOf(info, id); o != nil && e.trackableLocals(f)[o] {
				if _, isVar := o.(*types.Var); isVar {
					c.locals[o] = v
				}
			}
		}
	}
	switch n := cond.(type) {
	case *ast.Ident, *ast.SelectorExpr:
		set(n.(ast.Expr), reBool(pol))
	case *ast.BinaryExpr:
		if n.Op != token.EQL && n.Op != token.NEQ {
			return
		}
		if e.isGolangCompare(info, n.X, n.Y) {
			c.vars[e.golang] = reBool((n.Op == token.EQL) == pol)
			return
		}
		equal := (n.Op == token.EQL) == pol
		for _, pair := range [][2]ast.Expr{{n.X, n.Y}, {n.Y, n.X}} {
			other := pair[1]
			var ov reVal
			if tv, ok := info.Types[other]; ok && tv.Value != nil {
				ov = reVal{reConst, tv.Value}
			} else if an.IsNilIdent(info, other) {
				ov = reVal{k: reNil}
			} else {
				continue
			}
			switch {
			case equal:
				set(pair[0], ov)
			case ov.k == reNil:
				set(pair[0], reVal{k: reNonNil})
			case ov.k == reConst && ov.c.Kind() == constant.Bool:
				set(pair[0], reBool(!constant.BoolVal(ov.c)))
			}
		}
	}
}

// ---- calls

func (e *reEngine) recordPanic(f *prFunc, n ast.Node, what string, c reCfg) {
	if c.taint {
		return
	}
	var path []string
	for _, s := range e.stack {
		path = append(path, s.Name())
	}
	key := fmt.Sprintf("%s|%d|%s", e.phase, n.Pos(), e.varsKey(c.vars, false))
	if _, dup := e.panics[key]; dup {
		return
	}
	e.panics[key] = &rePanic{Func: f.Name(), Pos: e.pp.c.Pos(n), What: what, State: e.varsKey(c.vars, false), Path: strings.Join(path, " -> "), Phase: e.phase}
}

// trackableLocals: the locals of f whose value can carry information about the tracked
// state: parameters, and variables assigned (somewhere) from an expression that reads the
// tracked state or from the result of a call the interpreter follows. Every other local
// stays unknown, which keeps the number of configurations proportional to the tracked
// state rather than to the number of boolean locals of large functions.
func (e *reEngine) trackableLocals(f *prFunc) map[types.Object]bool {
	if e.tlocals == nil {
		e.tlocals = map[*prFunc]map[types.Object]bool{}
	}
	if m, ok := e.tlocals[f]; ok {
		return m
	}
	m := map[types.Object]bool{}
	e.tlocals[f] = m
	info := f.pkg.TypesInfo
	if f.decl.Type.Params != nil {
		for _, fl := range f.decl.Type.Params.List {
			for _, n := range fl.Names {
				if o := info.Defs[n]; o != nil {
					m[o] = true
				}
			}
		}
	}
	if f.decl.Recv != nil {
		for _, fl := range f.decl.Recv.List {
			for _, n := range fl.Names {
				if o := info.Defs[n]; o != nil {
					m[o] = true
				}
			}
		}
	}
	informative := func(x ast.Expr) bool {
		if e.mentionsTracked(f, x) {
			return true
		}
		hit := false
		ast.Inspect(x, func(n ast.Node) bool {
			call, ok := n.(*ast.CallExpr)
			if !ok || hit {
				return !hit
			}
			if fn, _ := an.Callee(info, call).(*types.Func); fn != nil {
				if t := e.pp.byObj[fn.Origin()]; t != nil && e.relevant[t] {
					hit = true
				}
			} else if ts := e.resolveFieldFunc(f, call); len(ts) > 0 {
				hit = true
			}
			return !hit
		})
		return hit
	}
	mark := func(l ast.Expr) {
		if id, ok := an.Unparen(l).(*ast.Ident); ok {
			if o := objOf(info, id); o != nil {
				m[o] = true
			}
		}
	}
	// error values decide which exits a caller takes: always followed (nil / non-nil only)
	errT := types.Universe.Lookup("error").Type()
	ast.Inspect(f.decl, func(n ast.Node) bool {
		if id, ok := n.(*ast.Ident); ok {
			if o, isVar := info.Defs[id].(*types.Var); isVar && types.Identical(o.Type(), errT) {
				m[o] = true
			}
		}
		return true
	})
	ast.Inspect(f.decl.Body, func(n ast.Node) bool {
		switch s := n.(type) {
		case *ast.AssignStmt:
			for i, r := range s.Rhs {
				if !informative(r) {
					continue
				}
				if len(s.Lhs) == len(s.Rhs) {
					mark(s.Lhs[i])
				} else {
					for _, l := range s.Lhs {
						mark(l)
					}
				}
			}
		case *ast.ValueSpec:
			for i, r := range s.Values {
				if informative(r) && len(s.Values) == len(s.Names) {
					if o := info.Defs[s.Names[i]]; o != nil {
						m[o] = true
					}
				}
			}
		}
		return true
	})
	return m
}

func (e *reEngine) kindOf(t *prFunc) prPanicKind {
	if e.kinds == nil {
		e.kinds = map[*prFunc]prPanicKind{}
	}
	if k, ok := e.kinds[t]; ok {
		return k
	}
	k := e.pp.panicKind(t)
	e.kinds[t] = k
	return k
}

// stateGuarded: the panic call is control-dependent on a condition (or switch tag) that
// reads the tracked state; other panics are outside this rule.
func (e *reEngine) stateGuarded(f *prFunc, call *ast.CallExpr) bool {
	if loc, ok := f.points[call]; ok {
		for _, dc := range prDominatingConds(loc.fn, loc.p) {
			if e.mentionsTracked(f, dc.cond) {
				return true
			}
		}
	}
	for p := f.parent[ast.Node(call)]; p != nil; p = f.parent[p] {
		if cc, ok := p.(*ast.CaseClause); ok {
			if body, ok := f.parent[cc].(*ast.BlockStmt); ok {
				if sw, ok := f.parent[body].(*ast.SwitchStmt); ok && sw.Tag != nil && e.mentionsTracked(f, sw.Tag) {
					return true
				}
			}
		}
	}
	return false
}

// resolveFieldFunc: a call through a func-typed struct field that the module assigns a
// method value to (c.handshakeFn = c.clientHandshake). Prefers targets whose receiver is
// the type the current activation chain started on (UConn).
func (e *reEngine) resolveFieldFunc(f *prFunc, call *ast.CallExpr) []*prFunc {
	info := f.pkg.TypesInfo
	se, ok := an.Unparen(call.Fun).(*ast.SelectorExpr)
	if !ok {
		return nil
	}
	sel := info.Selections[se]
	if sel == nil || sel.Kind() != types.FieldVal {
		return nil
	}
	fv, _ := sel.Obj().(*types.Var)
	if fv == nil {
		return nil
	}
	var all, pref []*prFunc
	for _, g := range e.pp.funcs {
		ginfo := g.pkg.TypesInfo
		ast.Inspect(g.decl.Body, func(n ast.Node) bool {
			as, ok := n.(*ast.AssignStmt)
			if !ok || len(as.Lhs) != 1 || len(as.Rhs) != 1 {
				return true
			}
			ls, ok := an.Unparen(as.Lhs[0]).(*ast.SelectorExpr)
			if !ok {
				return true
			}
			if s2 := ginfo.Selections[ls]; s2 == nil || s2.Obj() != types.Object(fv) {
				return true
			}
			rs, ok := an.Unparen(as.Rhs[0]).(*ast.SelectorExpr)
			if !ok {
				return true
			}
			if s3 := ginfo.Selections[rs]; s3 != nil && s3.Kind() == types.MethodVal {
				if m, _ := s3.Obj().(*types.Func); m != nil {
					if t := e.pp.byObj[m.Origin()]; t != nil {
						all = append(all, t)
						if an.TypeName(ginfo.TypeOf(rs.X)) == "UConn" {
							pref = append(pref, t)
						}
					}
				}
			}
			return true
		})
	}
	if len(pref) > 0 {
		return pref
	}
	return all
}

func (e *reEngine) call(f *prFunc, call *ast.CallExpr, c reCfg) []reOut {
	info := f.pkg.TypesInfo
	if tv, ok := info.Types[call.Fun]; ok && tv.IsType() {
		if len(call.Args) == 1 {
			return e.eval(f, call.Args[0], c)
		}
		return []reOut{{c, reVal{}}}
	}
	// builtin panic
	if id, ok := an.Unparen(call.Fun).(*ast.Ident); ok {
		if b, isB := info.Uses[id].(*types.Builtin); isB {
			if b.Name() == "panic" {
				if e.stateGuarded(f, call) {
					e.recordPanic(f, call, "panic("+prClip(an.Str(call.Args[0]), 90)+")", c)
				}
				return nil
			}
			if b.Name() == "new" || b.Name() == "make" {
				return []reOut{{c, reVal{k: reNonNil}}}
			}
			return []reOut{{c, reVal{}}}
		}
	}
	var targets []*prFunc
	if fn, _ := an.Callee(info, call).(*types.Func); fn != nil {
		if sig := fn.Type().(*types.Signature); sig.Recv() != nil {
			if _, isI := sig.Recv().Type().Underlying().(*types.Interface); isI {
				return []reOut{{c, reVal{}}} // dynamic dispatch: no effect on the tracked state assumed
			}
		}
		if t := e.pp.byObj[fn.Origin()]; t != nil {
			targets = []*prFunc{t}
		}
	} else {
		targets = e.resolveFieldFunc(f, call)
	}
	if len(targets) == 0 {
		return []reOut{{c, reVal{}}}
	}
	var out []reOut
	for _, t := range targets {
		// assertion helper: bool first parameter guarding a panic
		if k := e.kindOf(t); k.kind == "param" && len(call.Args) >= 1 && e.mentionsTracked(f, call.Args[0]) {
			sig := t.obj.Type().(*types.Signature)
			if sig.Params().Len() >= 1 && prIsBool(sig.Params().At(0).Type()) {
				holds := e.assume(f, call.Args[0], true, c)
				if len(holds) == 0 {
					e.recordPanic(f, call, t.Name()+"("+prClip(an.Str(call.Args[0]), 90)+") cannot hold", c)
					continue
				}
				for _, h := range holds {
					out = append(out, reOut{h.c, reVal{}})
				}
				continue
			}
		}
		if !e.relevant[t] {
			out = append(out, reOut{c, reVal{}})
			continue
		}
		// evaluate arguments (left to right, threading the configuration)
		cfgs := []reCfg{c}
		argv := [][]reVal{nil}
		for _, a := range call.Args {
			var ncfgs []reCfg
			var nargv [][]reVal
			for i, cc := range cfgs {
				for _, o := range e.eval(f, a, cc) {
					ncfgs = append(ncfgs, o.c)
					nargv = append(nargv, append(append([]reVal{}, argv[i]...), o.v))
				}
			}
			cfgs, argv = ncfgs, nargv
		}
		for i, cc := range cfgs {
			for _, ex := range e.run(t, cc.vars, cc.taint, argv[i]) {
				nc := cc.clone()
				nc.vars = map[*types.Var]reVal{}
				for k, v := range ex.vars {
					nc.vars[k] = v
				}
				nc.taint = ex.taint
				out = append(out, reOut{nc, ex.ret})
			}
		}
	}
	return out
}

// run interprets function t from the given tracked state and returns its exits.
func (e *reEngine) run(t *prFunc, vars map[*types.Var]reVal, taint bool, args []reVal) []reExit {
	for _, s := range e.stack {
		if s == t {
			return []reExit{{vars, true, reVal{}}} // recursion: give up precision
		}
	}
	if len(e.stack) > 40 || e.steps > 400000 {
		e.exhausted = true
		return []reExit{{vars, true, reVal{}}}
	}
	key := fmt.Sprintf("%s|%d|%s|", e.phase, t.decl.Pos(), e.varsKey(vars, taint))
	for _, a := range args {
		key += a.String() + ","
	}
	if ex, ok := e.memo[key]; ok {
		return ex
	}
	e.funcsSeen[t] = true
	t.ensure()
	e.stack = append(e.stack, t)
	defer func() { e.stack = e.stack[:len(e.stack)-1] }()
	info := t.pkg.TypesInfo

	start := reCfg{vars: map[*types.Var]reVal{}, taint: taint, locals: map[types.Object]reVal{}, tags: map[*ast.SwitchStmt]reVal{}}
	for k, v := range vars {
		start.vars[k] = v
	}
	// parameters
	i := 0
	if t.decl.Type.Params != nil {
		for _, fl := range t.decl.Type.Params.List {
			for _, n := range fl.Names {
				if i < len(args) {
					if o := info.Defs[n]; o != nil {
						start.locals[o] = args[i]
					}
				}
				i++
			}
		}
	}
	if t.decl.Recv != nil && len(t.decl.Recv.List) == 1 && len(t.decl.Recv.List[0].Names) == 1 {
		if o := info.Defs[t.decl.Recv.List[0].Names[0]]; o != nil {
			start.locals[o] = reVal{k: reNonNil}
		}
	}

	var exits []reExit
	exitSeen := map[string]bool{}
	addExit := func(c reCfg, ret reVal) {
		// run defers, last registered first
		cfgs := []reCfg{c}
		for d := len(c.defers) - 1; d >= 0; d-- {
			var next []reCfg
			for _, cc := range cfgs {
				for _, o := range e.call(t, c.defers[d], cc) {
					next = append(next, o.c)
				}
			}
			cfgs = next
		}
		for _, cc := range cfgs {
			k := e.varsKey(cc.vars, cc.taint) + "|" + ret.String()
			if !exitSeen[k] {
				exitSeen[k] = true
				vs := map[*types.Var]reVal{}
				for kk, v := range cc.vars {
					vs[kk] = v
				}
				exits = append(exits, reExit{vs, cc.taint, ret})
			}
		}
	}

	type item struct {
		b *cfg.Block
		c reCfg
	}
	seen := map[string]bool{}
	work := []item{{t.fn.G.Blocks[0], start}}
	for len(work) > 0 {
		it := work[len(work)-1]
		work = work[:len(work)-1]
		k := fmt.Sprintf("%d|%s", it.b.Index, e.cfgKey(it.c))
		if seen[k] {
			continue
		}
		seen[k] = true
		e.steps++
		if e.perFunc == nil {
			e.perFunc = map[string]int{}
		}
		e.perFunc[t.Name()]++
		if e.steps > 400000 {
			e.exhausted = true
			break
		}
		b := it.b
		cfgs := []reCfg{it.c}
		// is the last node a branch condition?
		var cond ast.Expr
		nNodes := len(b.Nodes)
		if len(b.Succs) == 2 && nNodes > 0 {
			if x, ok := b.Nodes[nNodes-1].(ast.Expr); ok {
				cond = x
				nNodes--
			}
		}
		returned := false
		for ni := 0; ni < nNodes && len(cfgs) > 0; ni++ {
			var next []reCfg
			for _, cc := range cfgs {
				res, ret, isRet := e.exec(t, b.Nodes[ni], cc)
				if isRet {
					for _, r := range res {
						addExit(r.c, r.v)
					}
					_ = ret
					returned = true
					continue
				}
				for _, r := range res {
					next = append(next, r.c)
				}
			}
			cfgs = next
			if returned {
				break
			}
		}
		if returned || len(cfgs) == 0 {
			continue
		}
		switch {
		case len(b.Succs) == 0:
			for _, cc := range cfgs {
				addExit(cc, reVal{})
			}
		case cond != nil:
			cc, isCase := t.parent[cond].(*ast.CaseClause)
			var sw *ast.SwitchStmt
			if isCase {
				if body, ok := t.parent[cc].(*ast.BlockStmt); ok {
					sw, _ = t.parent[body].(*ast.SwitchStmt)
				}
			}
			for _, c0 := range cfgs {
				if sw != nil && sw.Tag != nil {
					tag := c0.tags[sw]
					for _, o := range e.eval(t, cond, c0) {
						r := reCompare(tag, o.v, true)
						if bv, ok := r.isBool(); ok {
							if bv {
								work = append(work, item{b.Succs[0], o.c})
							} else {
								work = append(work, item{b.Succs[1], o.c})
							}
							continue
						}
						// unknown tag: both; taint if the tag expression reads tracked state
						c1, c2 := o.c.clone(), o.c.clone()
						if e.mentionsTracked(t, sw.Tag) {
							c1.taint, c2.taint = true, true
						}
						if fv := e.trackedField(info, sw.Tag); fv != nil && o.v.k == reConst {
							c1.vars[fv] = o.v
							c1.tags[sw] = o.v
						}
						work = append(work, item{b.Succs[0], c1}, item{b.Succs[1], c2})
					}
					continue
				}
				for _, a := range e.assume(t, cond, true, c0) {
					work = append(work, item{b.Succs[0], a.c})
				}
				for _, a := range e.assume(t, cond, false, c0) {
					work = append(work, item{b.Succs[1], a.c})
				}
			}
		default:
			for _, s := range b.Succs {
				for _, cc := range cfgs {
					work = append(work, item{s, cc})
				}
			}
		}
	}
	e.memo[key] = exits
	return exits
}

// exec interprets one CFG node. For a return statement it yields the returned value per
// configuration and isRet = true.
func (e *reEngine) exec(f *prFunc, n ast.Node, c reCfg) (res []reOut, ret reVal, isRet bool) {
	info := f.pkg.TypesInfo
	assign := func(lhs ast.Expr, v reVal, cc *reCfg) {
		if fv := e.trackedField(info, lhs); fv != nil {
			cc.vars[fv] = v
			return
		}
		if id, ok := an.Unparen(lhs).(*ast.Ident); ok && id.Name != "_" {
			if o := objOf(info, id); o != nil && e.trackableLocals(f)[o] {
				cc.locals[o] = v
			}
		}
	}
	switch s := n.(type) {
	case *ast.ReturnStmt:
		if len(s.Results) == 0 {
			return []reOut{{c, reVal{}}}, reVal{}, true
		}
		// `x.f = fmt.Errorf(...)` immediately followed (same block) by `return x.f`: the
		// returned error is non-nil although x.f is not a tracked field
		if last, ok := an.Unparen(s.Results[len(s.Results)-1]).(*ast.SelectorExpr); ok {
			if blk, ok := f.parent[s].(*ast.BlockStmt); ok {
				txt := types.ExprString(last)
				for i := len(blk.List) - 1; i >= 0; i-- {
					if blk.List[i] == ast.Stmt(s) || blk.List[i].Pos() > s.Pos() {
						continue
					}
					as, ok := blk.List[i].(*ast.AssignStmt)
					if !ok {
						if reOnlyCalls(blk.List[i]) {
							continue // close(ch) and similar calls (possibly in a nested block) do not change the field
						}
						break
					}
					if len(as.Lhs) == 1 && len(as.Rhs) == 1 && types.ExprString(as.Lhs[0]) == txt {
						if call, ok := an.Unparen(as.Rhs[0]).(*ast.CallExpr); ok {
							if fn, ok := an.Callee(f.pkg.TypesInfo, call).(*types.Func); ok && fn.Pkg() != nil &&
								((fn.Pkg().Path() == "fmt" && fn.Name() == "Errorf") || (fn.Pkg().Path() == "errors" && fn.Name() == "New")) {
								return []reOut{{c, reVal{k: reNonNil}}}, reVal{}, true
							}
						}
						break
					}
				}
			}
		}
		// value of interest: the single result, or the last one (error convention)
		cfgs := []reOut{{c, reVal{}}}
		for i, r := range s.Results {
			var next []reOut
			for _, cc := range cfgs {
				for _, o := range e.eval(f, r, cc.c) {
					v := cc.v
					if i == len(s.Results)-1 {
						v = o.v
					}
					next = append(next, reOut{o.c, v})
				}
			}
			cfgs = next
		}
		return cfgs, reVal{}, true
	case *ast.AssignStmt:
		if len(s.Lhs) == len(s.Rhs) && (s.Tok == token.ASSIGN || s.Tok == token.DEFINE) {
			cfgs := []reCfg{c}
			for i := range s.Rhs {
				var next []reCfg
				for _, cc := range cfgs {
					for _, o := range e.eval(f, s.Rhs[i], cc) {
						nc := o.c.clone()
						assign(s.Lhs[i], o.v, &nc)
						next = append(next, nc)
					}
				}
				cfgs = next
			}
			for _, cc := range cfgs {
				res = append(res, reOut{cc, reVal{}})
			}
			return res, reVal{}, false
		}
		// multi-value or op-assign: effects of the right side, unknown values on the left
		cfgs := []reCfg{c}
		for _, r := range s.Rhs {
			var next []reCfg
			for _, cc := range cfgs {
				for _, o := range e.eval(f, r, cc) {
					next = append(next, o.c)
				}
			}
			cfgs = next
		}
		for _, cc := range cfgs {
			nc := cc.clone()
			for _, l := range s.Lhs {
				assign(l, reVal{}, &nc)
			}
			res = append(res, reOut{nc, reVal{}})
		}
		return res, reVal{}, false
	case *ast.IncDecStmt:
		nc := c.clone()
		assign(s.X, reVal{}, &nc)
		return []reOut{{nc, reVal{}}}, reVal{}, false
	case *ast.ValueSpec:
		cfgs := []reCfg{c}
		if len(s.Values) == len(s.Names) {
			for i := range s.Values {
				var next []reCfg
				for _, cc := range cfgs {
					for _, o := range e.eval(f, s.Values[i], cc) {
						nc := o.c.clone()
						if ob := info.Defs[s.Names[i]]; ob != nil && e.trackableLocals(f)[ob] {
							nc.locals[ob] = o.v
						}
						next = append(next, nc)
					}
				}
				cfgs = next
			}
		}
		for _, cc := range cfgs {
			res = append(res, reOut{cc, reVal{}})
		}
		return res, reVal{}, false
	case *ast.ExprStmt:
		for _, o := range e.eval(f, s.X, c) {
			res = append(res, reOut{o.c, reVal{}})
		}
		return res, reVal{}, false
	case *ast.DeferStmt:
		nc := c.clone()
		nc.defers = append(nc.defers, s.Call)
		return []reOut{{nc, reVal{}}}, reVal{}, false
	case *ast.GoStmt, *ast.SendStmt, *ast.EmptyStmt, *ast.BranchStmt, *ast.LabeledStmt:
		return []reOut{{c, reVal{}}}, reVal{}, false
	case ast.Expr:
		// switch tag, range operand, range key/value, condition of an unconditional shape
		if sw, ok := f.parent[n].(*ast.SwitchStmt); ok && sw.Tag == s {
			for _, o := range e.eval(f, s, c) {
				nc := o.c.clone()
				nc.tags[sw] = o.v
				res = append(res, reOut{nc, reVal{}})
			}
			return res, reVal{}, false
		}
		if rs, ok := f.parent[n].(*ast.RangeStmt); ok && (rs.Key == s || rs.Value == s) {
			nc := c.clone()
			assign(s, reVal{}, &nc)
			return []reOut{{nc, reVal{}}}, reVal{}, false
		}
		for _, o := range e.eval(f, s, c) {
			res = append(res, reOut{o.c, reVal{}})
		}
		return res, reVal{}, false
	}
	return []reOut{{c, reVal{}}}, reVal{}, false
}

// reOnlyCalls: an expression statement, or a block made of such statements.
func reOnlyCalls(st ast.Stmt) bool {
	switch x := st.(type) {
	case *ast.ExprStmt, *ast.EmptyStmt:
		return true
	case *ast.BlockStmt:
		for _, c := range x.List {
			if !reOnlyCalls(c) {
				return false
			}
		}
		return true
	}
	return false
}
