// Package props instantiates the rules of each property on the loaded program.
package props

import (
	"verif/internal/load"
	"verif/internal/report"
)

// Ctx is what a property's rule set receives.
type Ctx struct {
	P    *load.Program
	R    *report.Report
	Tier string
}

// Prop describes one property's checker.
type Prop struct {
	ID       string
	NeedDeps bool // load dependencies' syntax (whole-program SSA / call graph)
	Run      func(*Ctx)
}

var registry = map[string]*Prop{}

func register(p *Prop) { registry[p.ID] = p }

// Get returns the checker for id.
func Get(id string) *Prop { return registry[id] }

// IDs lists registered property ids.
func IDs() []string {
	var out []string
	for k := range registry {
		out = append(out, k)
	}
	return out
}

