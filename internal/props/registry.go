// Package props instantiates the rules of each property on the loaded program.
package props

import (
	"sort"
	"strings"

	"verif/internal/load"
	"verif/internal/report"
)

// Ctx is what a property's rule set receives.
type Ctx struct {
	P    *load.Program
	R    *report.Report
	Tier string
}

// Prop describes one property's checker.
type Prop struct {
	ID       string
	NeedDeps bool // load dependencies' syntax (whole-program SSA / call graph)
	Run      func(*Ctx)
}

var registry = map[string]*Prop{}

func register(p *Prop) { registry[p.ID] = p }

var extras = map[string][]func(*Ctx){}

// currentCtx is the context of the property being decided (engines that resolve callees on
// demand, such as the linear executor, read it).
var currentCtx *Ctx

// registerExtra adds rules to a property (run after its main rule set).
func registerExtra(id string, f func(*Ctx)) { extras[id] = append(extras[id], f) }

// Get returns the checker for id (main rules followed by the registered extra rules).
func Get(id string) *Prop {
	p := registry[id]
	if p == nil {
		return p
	}
	q := *p
	q.Run = func(c *Ctx) {
		currentCtx = c
		p.Run(c)
		for _, f := range extras[id] {
			f(c)
		}
		// rules added after the main rule set was written are described in DESIGN.md 4.37;
		// name them in the evidence so that the explanation covers every rule that ran
		seen := map[string]bool{}
		var more []string
		for _, o := range c.R.Obls {
			if seen[o.Rule] || o.Rule == "SELF" {
				continue
			}
			seen[o.Rule] = true
			if !strings.Contains(c.R.Explanation, o.Rule) {
				more = append(more, o.Rule)
			}
		}
		if len(more) > 0 {
			sort.Strings(more)
			c.R.Explanation += " Further rules, each described in DESIGN.md section 4.37 and in the comment above its function: " + strings.Join(more, ", ") + "."
		}
	}
	return &q
}

// IDs lists registered property ids.
func IDs() []string {
	var out []string
	for k := range registry {
		out = append(out, k)
	}
	return out
}

