// Package props instantiates the rules of each property on the loaded program.
package props

import (
	"verif/internal/load"
	"verif/internal/report"
)

// Ctx is what a property's rule set receives.
type Ctx struct {
	P    *load.Program
	R    *report.Report
	Tier string
}

// Prop describes one property's checker.
type Prop struct {
	ID       string
	NeedDeps bool // load dependencies' syntax (whole-program SSA / call graph)
	Run      func(*Ctx)
}

var registry = map[string]*Prop{}

func register(p *Prop) { registry[p.ID] = p }

var extras = map[string][]func(*Ctx){}

// currentCtx is the context of the property being decided (engines that resolve callees on
// demand, such as the linear executor, read it).
var currentCtx *Ctx

// registerExtra adds rules to a property (run after its main rule set).
func registerExtra(id string, f func(*Ctx)) { extras[id] = append(extras[id], f) }

// Get returns the checker for id (main rules followed by the registered extra rules).
func Get(id string) *Prop {
	p := registry[id]
	if p == nil {
		return p
	}
	q := *p
	q.Run = func(c *Ctx) {
		currentCtx = c
		p.Run(c)
		for _, f := range extras[id] {
			f(c)
		}
	}
	return &q
}

// IDs lists registered property ids.
func IDs() []string {
	var out []string
	for k := range registry {
		out = append(out, k)
	}
	return out
}

