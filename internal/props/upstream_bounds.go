package props

import (
	"encoding/json"
	"fmt"
	"go/ast"
	"os"
	"path/filepath"
	"sort"
	"strings"

	"verif/internal/an"
)

// Upstream guard rule (C33.9 client side, C34.9 server side).
//
// The crypto/tls part of the tree is the trusted base of C33/C34, but "trusted" cannot mean
// "unread": a length check deleted from, or moved below, an index in an upstream message
// handler is exactly the kind of change that compiles, passes the suite (no test sends the
// truncated message) and lets a hostile peer crash the process. The rule applies the bounds
// prover to every index / slice / division in the upstream-layer functions reachable from the
// handshake and record entry points. A site must be in range by guards visible in its own
// function (dominating tests, per-predecessor tests at a join, single definitions, range
// statements), or be listed in bounds_baseline.json: the sites whose safety rests on an
// invariant established elsewhere (record header length, a non-empty certificate list, the
// 32-byte random, ...) as they stood when the list was reviewed. The list is read-only at run
// time and keyed by function and expression, never by line; it is not a claim that those sites
// are safe, only that they are outside what this rule decides. A site that is neither proved
// nor listed is reported.

type boundsBaseline map[string][]string

func loadBoundsBaseline(root string) (boundsBaseline, error) {
	b, err := os.ReadFile(filepath.Join(root, "bounds_baseline.json"))
	if err != nil {
		// scratch evidence roots (self-validation, seeded evaluation): the list lives next to the checker
		if exe, e2 := os.Executable(); e2 == nil {
			b, err = os.ReadFile(filepath.Join(filepath.Dir(filepath.Dir(exe)), "bounds_baseline.json"))
		}
	}
	if err != nil {
		return nil, err
	}
	var bl boundsBaseline
	if err := json.Unmarshal(b, &bl); err != nil {
		return nil, err
	}
	return bl, nil
}

type upstreamSite struct {
	key, pos, why string
	ok            bool
}

// upstreamBoundsSites judges the bounds sites of the upstream-layer functions reachable from roots.
func upstreamBoundsSites(c *Ctx, pp *prProg, roots [][2]string, rule string) ([]upstreamSite, int) {
	var entries []*prFunc
	for _, e := range roots {
		f := pp.lookup("", e[0], e[1])
		if f == nil {
			c.R.Unknown(rule, "entry:"+e[0]+"."+e[1], "", "entry function not found")
			continue
		}
		entries = append(entries, f)
	}
	reach := pp.reach(entries, func(from *prFunc, e prEdge) bool {
		return strings.HasPrefix(e.to.pkg.PkgPath, Mod)
	})
	inv := &prInvariant{Owner: "serverHelloMsg", Field: "random", Len: 32,
		Reason: "serverHelloMsg.unmarshal fails unless ReadBytes(&m.random, 32) succeeds"}
	inv.holds = establishedByReadBytes(c, pp, inv)
	opts := prOptions{scope: func(f *prFunc) bool {
		return strings.HasPrefix(f.pkg.PkgPath, Mod) && !prUTLSLayer(f) && !strings.Contains(f.pkg.PkgPath, "/examples/")
	}}
	if inv.holds {
		opts.invariants = []*prInvariant{inv}
	}
	verdicts, _ := pp.judge(reach, opts)
	seen := map[string]int{}
	var out []upstreamSite
	for _, v := range verdicts {
		// bounds sites, and single-value type assertions (x.(T) panics when the dynamic type differs)
		if (v.rule != "bounds" && v.rule != "assert") || v.class == "delegated" {
			continue
		}
		ex, _ := v.s.n.(ast.Expr)
		base := v.s.f.Name() + ":" + v.s.Expr()
		if ex != nil {
			base = v.s.f.Name() + ":" + prNormExpr(v.s.fn, ex)
		}
		ord := seen[base]
		seen[base]++
		key := base
		if ord > 0 {
			key += fmt.Sprintf("#%d", ord+1)
		}
		out = append(out, upstreamSite{key: key, pos: c.Pos(v.s.n), why: v.why, ok: v.class == "ok"})
	}
	return out, len(reach.order)
}

func upstreamBoundsRule(c *Ctx, pp *prProg, rule string, roots [][2]string) {
	r := c.R
	bl, err := loadBoundsBaseline(r.Root)
	if err != nil {
		r.Unknown(rule, "baseline", "", "bounds_baseline.json unreadable: %v", err)
		return
	}
	listed := map[string]bool{}
	for _, k := range bl[rule] {
		listed[k] = true
	}
	sites, nf := upstreamBoundsSites(c, pp, roots, rule)
	r.Count(rule+"_functions_reached", nf)
	proved, skipped := 0, 0
	usedListed := map[string]bool{}
	for _, s := range sites {
		switch {
		case s.ok:
			proved++
			r.Ok(rule, s.key, s.pos, "%s", s.why)
		case listed[s.key]:
			skipped++
			usedListed[s.key] = true
		default:
			r.Bad(rule, s.key, s.pos, "an index/slice/division or single-value type assertion in an upstream handler reachable from peer input is not shown safe by any guard of its function, and is not one of the reviewed sites that rest on an invariant established elsewhere: %s", s.why)
		}
	}
	r.Count(rule+"_sites_proved", proved)
	r.Count(rule+"_sites_listed_not_decided", skipped)
	var gone []string
	for k := range listed {
		if !usedListed[k] {
			gone = append(gone, k)
		}
	}
	sort.Strings(gone)
	r.Count(rule+"_listed_sites_no_longer_present_or_now_proved", len(gone))
	r.Floor(rule, 60)
}

func init() {
	register(&Prop{ID: "XBASELINE", Run: func(c *Ctx) {
		pp := newPrProg(c)
		out := boundsBaseline{}
		for rule, roots := range map[string][][2]string{"C33.9": c33UpstreamRoots, "C34.9": c34UpstreamRoots} {
			sites, _ := upstreamBoundsSites(c, pp, roots, rule)
			var keys []string
			ok := 0
			for _, s := range sites {
				if !s.ok {
					keys = append(keys, s.key)
					fmt.Fprintf(os.Stderr, "SITE\t%s\t%s\t%s\n", s.key, s.pos, s.why)
				} else {
					ok++
				}
			}
			sort.Strings(keys)
			out[rule] = keys
			fmt.Fprintf(os.Stderr, "%s proved=%d listed=%d\n", rule, ok, len(keys))
		}
		b, _ := json.MarshalIndent(out, "", " ")
		fmt.Println("BASELINE-BEGIN")
		fmt.Println(string(b))
		fmt.Println("BASELINE-END")
		c.R.Ok("X", "x", "", "dump")
	}})
}

var c33UpstreamRoots = [][2]string{{"Conn", "clientHandshake"}, {"UConn", "clientHandshake"}, {"Conn", "readRecordOrCCS"},
	{"Conn", "handlePostHandshakeMessage"}, {"UConn", "handlePostHandshakeMessage"}, {"Conn", "Read"}, {"UConn", "Read"}}

var c34UpstreamRoots = [][2]string{{"Conn", "serverHandshake"}, {"Conn", "readClientHello"}, {"Conn", "readRecordOrCCS"},
	{"Conn", "handlePostHandshakeMessage"}, {"Conn", "Read"}}

func init() {
	registerExtra("C33", func(c *Ctx) { upstreamBoundsRule(c, newPrProg(c), "C33.9", c33UpstreamRoots) })
	registerExtra("C34", func(c *Ctx) { upstreamBoundsRule(c, newPrProg(c), "C34.9", c34UpstreamRoots) })
}

// prNormExpr renders an expression with single-definition locals replaced by their defining
// expressions, so that hoisting a repeated sub-expression into a local (or renaming that local)
// does not change the key a site is listed under.
func prNormExpr(fn *an.Fn, e ast.Expr) string {
	var r func(e ast.Expr, depth int) string
	r = func(e ast.Expr, depth int) string {
		if e == nil {
			return ""
		}
		switch x := e.(type) {
		case *ast.ParenExpr:
			return "(" + r(x.X, depth) + ")"
		case *ast.Ident:
			if fn != nil && depth < 4 {
				if d := inlineLocal(fn, x); d != ast.Expr(x) {
					// only plain access paths and conversions are read through; a call result is not
					// the same value when re-evaluated
					ok := true
					ast.Inspect(d, func(n ast.Node) bool {
						if c, isCall := n.(*ast.CallExpr); isCall {
							if tv, has := fn.Info.Types[c.Fun]; !has || !tv.IsType() {
								ok = false
							}
						}
						return ok
					})
					if ok {
						return r(d, depth+1)
					}
				}
			}
			return x.Name
		case *ast.SelectorExpr:
			return r(x.X, depth) + "." + x.Sel.Name
		case *ast.IndexExpr:
			return r(x.X, depth) + "[" + r(x.Index, depth) + "]"
		case *ast.SliceExpr:
			s := r(x.X, depth) + "[" + r(x.Low, depth) + ":" + r(x.High, depth)
			if x.Max != nil {
				s += ":" + r(x.Max, depth)
			}
			return s + "]"
		case *ast.StarExpr:
			return "*" + r(x.X, depth)
		case *ast.UnaryExpr:
			return x.Op.String() + r(x.X, depth)
		case *ast.BinaryExpr:
			return r(x.X, depth) + " " + x.Op.String() + " " + r(x.Y, depth)
		case *ast.CallExpr:
			var as []string
			for _, a := range x.Args {
				as = append(as, r(a, depth))
			}
			return r(x.Fun, depth) + "(" + strings.Join(as, ", ") + ")"
		}
		return an.Str(e)
	}
	s := r(e, 0)
	if len(s) > 90 {
		s = s[:87] + "..."
	}
	return s
}
