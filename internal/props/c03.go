package props

import (
	"fmt"
	"go/ast"
	"go/token"
	"go/types"
	"sort"
	"strings"

	"verif/internal/an"
	"verif/internal/load"
)

func init() { register(&Prop{ID: "C03", Run: runC03}) }

// unexported encoder state that may feed wire bytes, with the reason it is consistent with the spec
var c03CacheFields = map[string]string{
	"e.marshalResult": "memoised TransportParameters.Marshal() of the exported parameter list",
	"e.cipherSuite":   "ECH-GREASE per-connection choice among the spec's candidates (exempt material)",
	"e.configId":      "ECH-GREASE per-connection config id (exempt material)",
	"e.payload":       "ECH-GREASE per-connection payload (exempt material)",
	"e.applicationSettingsExtension.codePoint": "code point constant installed by the wrapper type's Read",
}

func runC03(c *Ctx) {
	r := c.R
	tls := c.P.TLS
	info := tls.TypesInfo
	r.Technique = "constant evaluation of every parrot table; def-use/CFG rules on ApplyPreset, ShuffleChromeTLSExtensions and makeClientHelloForApplyPreset; byte-provenance from the E2 encoder layouts"
	r.Explanation = "C03.1 ApplyPreset reads every wire-relevant ClientHelloSpec field: cipher suites, compression methods and extensions are copied element-wise in order into the hello (make+copy of the same length), TLSVersMin/Max feed SetTLSVers, and the only element rewrites are GREASE substitutions guarded by isGREASEUint16. C03.2 MarshalClientHelloNoECH emits the extension list once, in slice order (shared with C02.3). C03.3 every byte an extension encoder emits is a constant or comes from a field of that extension value (unexported cache fields are listed with their source), and the type constant maps back through the registry. C03.4 ShuffleChromeTLSExtensions only swaps two elements when neither is GREASE, padding or pre_shared_key, and returns the same slice (same multiset, pinned positions). C03.5 legacy_version is min(max version, TLS 1.2) and SetTLSVers receives the spec's range before the hello is made. C03.6 every parrot's spec is a self-contained literal (evaluates without reference to mutable package state)."
	r.NotDecided = "equality of concrete bytes on a concrete connection"

	// ---- C03.6
	ps := loadParrots(c)
	ids := 0
	for _, p := range ps {
		ids += len(p.IDs)
		cons := "parrot:" + p.Name
		switch {
		case p.Err != "":
			r.Bad("C03.6", cons, c.P.Pos(p.Pos), "spec is not a self-contained literal: %s", p.Err)
		case len(p.Exts) == 0:
			r.Bad("C03.6", cons, c.P.Pos(p.Pos), "spec has no extensions list")
		default:
			shared := ""
			var walk func(v *AVal)
			walk = func(v *AVal) {
				if v == nil {
					return
				}
				for t := range v.Tags {
					if strings.HasPrefix(t, "shared:") {
						shared = strings.TrimPrefix(t, "shared:")
					}
				}
				for _, f := range v.Fields {
					walk(f)
				}
				for _, e := range v.Elems {
					walk(e)
				}
			}
			walk(p.Spec)
			r.Check(shared == "", "C03.6", cons, c.P.Pos(p.Pos), fmt.Sprintf("%d extensions, %d ids", len(p.Exts), len(p.IDs)),
				"spec shares the package-level value "+shared+" between connections: ApplyPreset writes per-connection material into the extension values, so concurrent or successive connections corrupt each other's hello")
		}
	}
	r.Count("parrot_tables", len(ps))
	r.Count("parrot_ids", ids)
	r.Floor("C03.6", 34)

	c03ApplyPreset(c)
	c02MarshalOrder(c)
	c03Provenance(c)
	c03Shuffle(c)
	c03LegacyVersion(c)
	_ = info
}

func c02MarshalOrder(c *Ctx) {
	// re-use C02.3's rule under C03.2 (the relevant obligations are extension order + raw store discipline)
	saved := c.R
	c02Marshal(c)
	// relabel the obligations just added from C02.3 to C03.2
	for i := range saved.Obls {
		if saved.Obls[i].Rule == "C02.3" {
			saved.Obls[i].Rule = "C03.2"
		}
	}
	saved.Floor("C03.2", 5)
	saved.Floor("C02.3", 0)
}

func c03ApplyPreset(c *Ctx) {
	r := c.R
	info := c.Info()
	fn := c.Fn("C03.1", "UConn", "ApplyPreset")
	if fn == nil {
		return
	}
	p := info.Defs[fn.Decl.Type.Params.List[0].Names[0]]
	isSpecField := func(e ast.Expr, f string) bool {
		se, ok := an.Unparen(e).(*ast.SelectorExpr)
		if !ok || se.Sel.Name != f {
			return false
		}
		id, ok := an.Unparen(se.X).(*ast.Ident)
		return ok && info.Uses[id] == p
	}
	// copy(dst, p.F) with dst = make(T, len(p.F))
	copied := func(f string, dstOK func(ast.Expr) bool) (bool, string) {
		for _, h := range fn.FindNodes(func(n ast.Node) bool {
			call, ok := n.(*ast.CallExpr)
			if !ok || len(call.Args) != 2 {
				return false
			}
			id, ok := call.Fun.(*ast.Ident)
			return ok && id.Name == "copy" && isSpecField(call.Args[1], f)
		}) {
			call := h.N.(*ast.CallExpr)
			if !dstOK(call.Args[0]) {
				return false, "copied into " + an.Str(call.Args[0])
			}
			// the destination was made with len(p.F)
			dst := an.Str(call.Args[0])
			okMake := false
			ast.Inspect(fn.Body, func(n ast.Node) bool {
				as, ok := n.(*ast.AssignStmt)
				if !ok || len(as.Lhs) != 1 || len(as.Rhs) != 1 || an.Str(as.Lhs[0]) != dst {
					return true
				}
				mk, ok := an.Unparen(as.Rhs[0]).(*ast.CallExpr)
				if !ok || len(mk.Args) != 2 {
					return true
				}
				if lc, ok := an.Unparen(mk.Args[1]).(*ast.CallExpr); ok && len(lc.Args) == 1 && isSpecField(lc.Args[0], f) {
					if id, ok := lc.Fun.(*ast.Ident); ok && id.Name == "len" {
						okMake = true
					}
				}
				return true
			})
			if !okMake {
				return false, "destination is not allocated with len(p." + f + ")"
			}
			return true, ""
		}
		return false, "p." + f + " is never copied"
	}
	for _, f := range []struct {
		name string
		dst  func(ast.Expr) bool
		what string
	}{
		{"CipherSuites", func(e ast.Expr) bool { return an.FieldSel(info, an.Unparen(e), "PubClientHelloMsg", "CipherSuites") }, "Hello.CipherSuites"},
		{"CompressionMethods", func(e ast.Expr) bool {
			return an.FieldSel(info, an.Unparen(e), "PubClientHelloMsg", "CompressionMethods")
		}, "Hello.CompressionMethods"},
		{"Extensions", func(e ast.Expr) bool { return an.FieldSel(info, an.Unparen(e), "UConn", "Extensions") }, "uconn.Extensions"},
	} {
		ok, why := copied(f.name, f.dst)
		r.Check(ok, "C03.1", "ApplyPreset:spec."+f.name, c.Pos(fn.Decl), "copied element-wise, in order, into "+f.what, "the spec's "+f.name+" do not reach "+f.what+" unchanged: "+why)
	}
	// TLSVersMin/Max -> SetTLSVers(p.TLSVersMin, p.TLSVersMax, p.Extensions)
	okVers := false
	for _, h := range fn.FindNodes(an.CallTo(info, Mod, "UConn", "SetTLSVers")) {
		call := h.N.(*ast.CallExpr)
		if len(call.Args) == 3 && isSpecField(call.Args[0], "TLSVersMin") && isSpecField(call.Args[1], "TLSVersMax") && isSpecField(call.Args[2], "Extensions") {
			okVers = true
			mk := fn.Find(an.CallTo(info, Mod, "Conn", "makeClientHelloForApplyPreset"))
			for _, m := range mk {
				if !fn.MustPass(m, []an.Point{h.P}, nil) {
					okVers = false
				}
			}
		}
	}
	r.Check(okVers, "C03.1", "ApplyPreset:spec.TLSVers", c.Pos(fn.Decl), "SetTLSVers(p.TLSVersMin, p.TLSVersMax, p.Extensions) runs before the hello is made", "the spec's version range is not handed to SetTLSVers before the hello is constructed")
	// element rewrites of code-point lists happen only under isGREASEUint16 and store a GREASE value
	type rewrite struct{ owner, field string }
	for _, rw := range []rewrite{{"PubClientHelloMsg", "CipherSuites"}, {"SupportedCurvesExtension", "Curves"}, {"SupportedVersionsExtension", "Versions"}, {"KeyShare", "Group"}} {
		sites := fn.FindNodes(func(n ast.Node) bool {
			as, ok := n.(*ast.AssignStmt)
			if !ok || len(as.Lhs) != 1 {
				return false
			}
			l := an.Unparen(as.Lhs[0])
			if rw.field == "Group" {
				return an.FieldSel(info, l, rw.owner, rw.field)
			}
			ix, ok := l.(*ast.IndexExpr)
			return ok && an.FieldSel(info, an.Unparen(ix.X), rw.owner, rw.field)
		})
		pass, _, _ := condEdges(fn, func(cond ast.Expr) (bool, bool) {
			x, neg := negated(cond)
			call, ok := x.(*ast.CallExpr)
			if !ok || !an.IsCallTo(info, call, Mod, "", "isGREASEUint16") {
				return false, false
			}
			return true, !neg
		})
		for _, s := range sites {
			as := s.N.(*ast.AssignStmt)
			okVal := an.Contains(as.Rhs[0], an.CallTo(info, Mod, "", "GetBoringGREASEValue"))
			r.Check(okVal && fn.MustPass(s.P, nil, pass), "C03.1", "ApplyPreset:rewrite:"+rw.owner+"."+rw.field, c.Pos(as),
				"an element is replaced only when it is a GREASE placeholder, and by a GREASE value", "ApplyPreset overwrites a "+rw.field+" element that is not a GREASE placeholder (or with a non-GREASE value): the hello no longer carries the spec's list")
		}
		if len(sites) == 0 {
			r.Bad("C03.1", "ApplyPreset:rewrite:"+rw.owner+"."+rw.field, c.Pos(fn.Decl), "GREASE placeholders in %s are no longer substituted", rw.field)
		}
	}
	r.Floor("C03.1", 8)
}

func c03Provenance(c *Ctx) {
	r := c.R
	exts := tlsExtensions(c)
	tab, _, _ := registryTable(c)
	for _, e := range exts {
		if e.Read == nil || e.Len == nil {
			continue
		}
		// silent run of the encoder interpreter: obligations go to a scratch report
		shape := runEncoder(c.P.TLS, e.Read)
		if len(shape.writes) == 0 {
			continue
		}
		var foreign []string
		seen := map[string]bool{}
		note := func(s string) {
			s = strings.ReplaceAll(s, "[@]", "")
			for _, part := range strings.FieldsFunc(s, func(r rune) bool { return strings.ContainsRune("()+-*,[] ", r) }) {
				if part == "" || part == "len" || part == "choice" || part == "if" || part == "Σlen" || part == "pre·len" || part == "idx" || part == "@" {
					continue
				}
				if _, err := fmt.Sscanf(part, "%d", new(int64)); err == nil {
					continue
				}
				if strings.HasPrefix(part, "e.") || part == "e" || part == "hostnameInSNI" || strings.HasPrefix(part, "Σ") || strings.HasPrefix(part, "pre·") || strings.HasPrefix(part, "idx") {
					root := part
					if i := strings.Index(part[2:], "."); strings.HasPrefix(part, "e.") && i >= 0 {
						root = part[:2+i]
					}
					if strings.HasPrefix(root, "e.") && len(root) > 2 && root[2] >= 'a' && root[2] <= 'z' {
						key := root
						if strings.HasPrefix(part, "e.applicationSettingsExtension.codePoint") {
							key = "e.applicationSettingsExtension.codePoint"
						}
						if _, ok := c03CacheFields[key]; !ok && !seen[key] {
							foreign = append(foreign, key+" (unexported state without a documented source)")
						}
						seen[key] = true
					}
					continue
				}
				if !seen[part] {
					seen[part] = true
					foreign = append(foreign, part)
				}
			}
		}
		for _, w := range shape.writes {
			if w.lin != nil {
				for _, a := range w.lin.Atoms() {
					note(a)
				}
			} else {
				note(w.data)
			}
		}
		sort.Strings(foreign)
		r.Check(len(foreign) == 0, "C03.3", e.Name+":byte-provenance", c.Pos(e.Read), "every emitted byte is a constant or derives from the extension value's own fields", fmt.Sprintf("%s.Read emits bytes derived from %v, which are not fields of the spec's extension value", e.Name, foreign))
	}
	r.Count("registry_entries", len(tab))
	r.Floor("C03.3", 28)
}

func c03Shuffle(c *Ctx) {
	r := c.R
	tls := c.P.TLS
	info := tls.TypesInfo
	fd := load.FuncDecl(tls, "", "ShuffleChromeTLSExtensions")
	if fd == nil {
		r.Unknown("C03.4", "ShuffleChromeTLSExtensions", "", "not found")
		return
	}
	param := info.Defs[fd.Type.Params.List[0].Names[0]]
	// the pin predicate: a func literal with a type switch whose true-returning case lists the pinned types
	var pinObj types.Object
	pinned := map[string]bool{}
	ast.Inspect(fd.Body, func(n ast.Node) bool {
		as, ok := n.(*ast.AssignStmt)
		if ok && len(as.Lhs) == 1 && len(as.Rhs) == 1 {
			if fl, ok := as.Rhs[0].(*ast.FuncLit); ok {
				ast.Inspect(fl.Body, func(m ast.Node) bool {
					cc, ok := m.(*ast.CaseClause)
					if !ok || len(cc.Body) != 1 {
						return true
					}
					if ret, ok := cc.Body[0].(*ast.ReturnStmt); ok && len(ret.Results) == 1 {
						if id, ok := ret.Results[0].(*ast.Ident); ok && id.Name == "true" {
							for _, t := range cc.List {
								pinned[an.TypeName(info.TypeOf(t))] = true
								if id, ok := as.Lhs[0].(*ast.Ident); ok {
									pinObj = objOf(info, id)
								}
							}
						}
					}
					return true
				})
			}
		}
		if vs, ok := n.(*ast.ValueSpec); ok && len(vs.Values) == 1 {
			if fl, ok := vs.Values[0].(*ast.FuncLit); ok {
				ast.Inspect(fl.Body, func(m ast.Node) bool {
					cc, ok := m.(*ast.CaseClause)
					if !ok || len(cc.Body) != 1 {
						return true
					}
					if ret, ok := cc.Body[0].(*ast.ReturnStmt); ok && len(ret.Results) == 1 {
						if id, ok := ret.Results[0].(*ast.Ident); ok && id.Name == "true" {
							for _, t := range cc.List {
								pinned[an.TypeName(info.TypeOf(t))] = true
							}
							pinObj = info.Defs[vs.Names[0]]
						}
					}
					return true
				})
			}
		}
		return true
	})
	want := []string{"UtlsGREASEExtension", "UtlsPaddingExtension", "PreSharedKeyExtension"}
	okPins := pinObj != nil && len(pinned) == 3
	for _, w := range want {
		if !pinned[w] {
			okPins = false
		}
	}
	var got []string
	for k := range pinned {
		got = append(got, k)
	}
	sort.Strings(got)
	r.Check(okPins, "C03.4", "Shuffle:pinned-types", c.Pos(fd), "GREASE, padding and pre_shared_key are the position-invariant extension kinds", fmt.Sprintf("the set of extension kinds kept in place is %v, the property requires exactly GREASE, padding and pre_shared_key", got))
	// every swap inside a func literal is preceded by a return when either index is pinned
	nSwaps := 0
	ast.Inspect(fd.Body, func(n ast.Node) bool {
		fl, ok := n.(*ast.FuncLit)
		if !ok || len(fl.Type.Params.List) == 0 {
			return true
		}
		var idx []types.Object
		for _, f := range fl.Type.Params.List {
			for _, nm := range f.Names {
				idx = append(idx, info.Defs[nm])
			}
		}
		if len(idx) != 2 {
			return true
		}
		lf := an.NewLit(tls, "shuffle-swap", fl)
		for _, h := range lf.FindNodes(func(m ast.Node) bool {
			as, ok := m.(*ast.AssignStmt)
			return ok && len(as.Lhs) == 2 && len(as.Rhs) == 2
		}) {
			as := h.N.(*ast.AssignStmt)
			isElem := func(e ast.Expr, o types.Object) bool {
				ix, ok := an.Unparen(e).(*ast.IndexExpr)
				if !ok {
					return false
				}
				a, ok1 := an.Unparen(ix.X).(*ast.Ident)
				b, ok2 := an.Unparen(ix.Index).(*ast.Ident)
				return ok1 && ok2 && info.Uses[a] == param && info.Uses[b] == o
			}
			if !(isElem(as.Lhs[0], idx[0]) && isElem(as.Lhs[1], idx[1]) && isElem(as.Rhs[0], idx[1]) && isElem(as.Rhs[1], idx[0])) {
				r.Bad("C03.4", "Shuffle:swap-shape", c.Pos(as), "an assignment to the list is not the exchange of the two shuffled positions (the multiset of extensions is not preserved)")
				continue
			}
			nSwaps++
			// guard: skip(i) and skip(j) both tested, their true outcome returns
			pass, _, _ := condEdges(lf, func(cond ast.Expr) (bool, bool) {
				call, ok := cond.(*ast.CallExpr)
				if !ok || len(call.Args) < 1 {
					return false, false
				}
				f, ok := an.Unparen(call.Fun).(*ast.Ident)
				if !ok || objOf(info, f) != pinObj {
					return false, false
				}
				return true, false
			})
			// both indices must be covered: count distinct index args among guards
			covered := map[types.Object]bool{}
			for _, b := range lf.G.Blocks {
				if len(b.Nodes) == 0 {
					continue
				}
				if e, ok := b.Nodes[len(b.Nodes)-1].(ast.Expr); ok {
					for _, atom := range condAtoms(e) {
						if call, ok := atom.(*ast.CallExpr); ok && len(call.Args) >= 1 {
							if f, ok := an.Unparen(call.Fun).(*ast.Ident); ok && objOf(info, f) == pinObj {
								if a, ok := an.Unparen(call.Args[0]).(*ast.Ident); ok {
									covered[info.Uses[a]] = true
								}
							}
						}
					}
				}
			}
			r.Check(len(pass) > 0 && lf.MustPass(h.P, nil, pass) && covered[idx[0]] && covered[idx[1]], "C03.4", fmt.Sprintf("Shuffle:swap-guarded#%d", nSwaps), c.Pos(as),
				"the exchange happens only when neither position holds a pinned extension", "two extensions can be exchanged although one of them is GREASE/padding/pre_shared_key: those must stay at their spec positions")
		}
		return true
	})
	if nSwaps == 0 {
		r.Unknown("C03.4", "Shuffle:swaps", c.Pos(fd), "no exchange statement found")
	}
	// returns the parameter; no append/reslice of it
	okRet := true
	for _, ret := range returnsOf(fd) {
		if len(ret.Results) != 1 {
			okRet = false
			continue
		}
		id, ok := an.Unparen(ret.Results[0]).(*ast.Ident)
		if !ok || info.Uses[id] != param {
			okRet = false
		}
	}
	mutated := false
	ast.Inspect(fd.Body, func(n ast.Node) bool {
		if as, ok := n.(*ast.AssignStmt); ok {
			for _, l := range as.Lhs {
				if id, ok := an.Unparen(l).(*ast.Ident); ok && info.Uses[id] == param && as.Tok == token.ASSIGN {
					mutated = true
				}
			}
		}
		return true
	})
	r.Check(okRet && !mutated, "C03.4", "Shuffle:same-slice", c.Pos(fd), "returns the list it was given (only in-place exchanges)", "the shuffled list is rebuilt or re-sliced: elements can be dropped or duplicated")
	r.Floor("C03.4", 4)
}

func c03LegacyVersion(c *Ctx) {
	r := c.R
	info := c.Info()
	fn := c.Fn("C03.5", "Conn", "makeClientHelloForApplyPreset")
	if fn == nil {
		return
	}
	v12, _ := constOf(c, "VersionTLS12")
	// legacy_version = min(configured maximum, TLS 1.2), decided on the CFG in two worlds (not on
	// the shape of the if statement): with vers above TLS 1.2 every successful exit passes a store of
	// VersionTLS12 (or min(vers, VersionTLS12)); with vers below it no store to vers is reachable.
	isVers := func(e ast.Expr) bool { return an.FieldSel(info, an.Unparen(e), "clientHelloMsg", "vers") }
	isMinCap := func(e ast.Expr) bool {
		call, ok := an.Unparen(e).(*ast.CallExpr)
		if !ok || len(call.Args) != 2 {
			return false
		}
		id, ok := an.Unparen(call.Fun).(*ast.Ident)
		if !ok || id.Name != "min" {
			return false
		}
		if _, isB := info.Uses[id].(*types.Builtin); !isB {
			return false
		}
		for _, a := range call.Args {
			if k, ok := an.ConstInt(info, a); ok && k == v12 {
				return true
			}
		}
		return false
	}
	okCap, whyCap := false, "legacy_version is never set in makeClientHelloForApplyPreset"
	var lit *c22Init
	var capPts, constPts []an.Point
	otherStore := ""
	inits := c22FieldInits(fn, "clientHelloMsg", "vers")
	for i := range inits {
		in := inits[i]
		switch {
		case in.Base == nil:
			lit = &inits[i]
		case in.Rhs != nil && isMinCap(in.Rhs):
			capPts = append(capPts, in.P)
		default:
			if k, ok := an.ConstInt(info, in.Rhs); in.Rhs != nil && ok && k == v12 {
				capPts = append(capPts, in.P)
				constPts = append(constPts, in.P)
			} else {
				otherStore = an.Str(in.Rhs)
			}
		}
	}
	switch {
	case lit == nil:
	case otherStore != "":
		whyCap = "legacy_version is overwritten with " + otherStore + ", which is neither VersionTLS12 nor min(vers, VersionTLS12)"
	case isMinCap(lit.Rhs) && len(capPts) == 0:
		okCap = true
	default:
		hi := c22Explore(fn, lit.P, c22CmpVal(info, isVers, v12+1), c22PtsSet(capPts))
		lo := c22Explore(fn, lit.P, c22CmpVal(info, isVers, v12-1), nil)
		lowered := false
		for _, p := range constPts {
			if lo.Reach[p] {
				lowered = true
			}
		}
		switch {
		case len(hi.Succ) > 0:
			whyCap = "legacy_version is not capped at TLS 1.2: with a configured maximum above it a successful exit is reached without storing VersionTLS12 (a TLS 1.3 parrot would send 0x0304 in the legacy field)"
		case lowered:
			whyCap = "legacy_version is set to TLS 1.2 also when the configured maximum is below it: it is no longer min(maximum, TLS 1.2), so a spec or capture with maximum TLS 1.1/1.0 is sent with legacy_version 0x0303"
		default:
			okCap = true
		}
	}
	r.Check(okCap, "C03.5", "makeClientHelloForApplyPreset:legacy-version-cap", c.Pos(fn.Decl), "legacy_version is min(configured maximum, TLS 1.2)", whyCap)
	// initial value is the configured maximum
	okInit := false
	ast.Inspect(fn.Body, func(n ast.Node) bool {
		kv, ok := n.(*ast.KeyValueExpr)
		if !ok {
			return true
		}
		if k, ok := kv.Key.(*ast.Ident); ok && k.Name == "vers" {
			if id, ok := an.Unparen(kv.Value).(*ast.Ident); ok {
				// defined from config.maxSupportedVersion
				ast.Inspect(fn.Body, func(m ast.Node) bool {
					as, ok := m.(*ast.AssignStmt)
					if ok && len(as.Lhs) == 1 && len(as.Rhs) == 1 {
						if l, ok := as.Lhs[0].(*ast.Ident); ok && objOf(info, l) == objOf(info, id) && an.Contains(as.Rhs[0], an.CallTo(info, Mod, "Config", "maxSupportedVersion")) {
							okInit = true
						}
					}
					return true
				})
			}
		}
		return true
	})
	r.Check(okInit, "C03.5", "makeClientHelloForApplyPreset:legacy-version-source", c.Pos(fn.Decl), "legacy_version starts from the configured maximum version (set from the spec by SetTLSVers)", "legacy_version is not derived from the configured maximum version")
	r.Floor("C03.5", 2)
}
