package props

import (
	"fmt"
	"go/ast"
	"go/token"
	"go/types"
	"sort"
	"strings"

	"verif/internal/an"
	"verif/internal/load"
)

func init() { register(&Prop{ID: "C08", Run: runC08}) }

// c08Normalised: encoder-read fields that the decoder deliberately does not restore
// (the "documented normalisations" of the property statement), one reason each.
var c08Normalised = map[string]string{
	"SNIExtension.ServerName":                                      "the SNI name is dropped on import",
	"SessionTicketExtension.Ticket":                                "session-ticket contents are dropped",
	"RenegotiationInfoExtension.RenegotiatedConnection":            "renegotiation-info body is ignored",
	"UtlsPreSharedKeyExtension.Identities":                         "real-PSK bodies are ignored",
	"UtlsPreSharedKeyExtension.Binders":                            "real-PSK bodies are ignored",
	"UtlsPreSharedKeyExtension.OmitEmptyPsk":                       "configuration flag, not on the wire",
	"UtlsPreSharedKeyExtension.Session":                            "real-PSK state comes from the session cache, never from an imported hello",
	"FakePreSharedKeyExtension.OmitEmptyPsk":                       "configuration flag, not on the wire",
	"UtlsPaddingExtension.PaddingLen":                              "padding is recomputed by policy",
	"UtlsPaddingExtension.WillPad":                                 "padding is recomputed by policy",
	"GREASEEncryptedClientHelloExtension.payload":                  "ECH-GREASE payload is regenerated at the same size (CandidatePayloadLens)",
	"FakeChannelIDExtension.OldExtensionID":                        "selected by the registry constructor for the old code point",
	"ApplicationSettingsExtension.applicationSettingsExtension":    "embedded encoder state (code point set by Read itself)",
	"ApplicationSettingsExtensionNew.applicationSettingsExtension": "embedded encoder state (code point set by Read itself)",
}

func runC08(c *Ctx) {
	r := c.R
	r.Technique = "abstract interpretation of every TLSExtension encoder over symbolic linear forms (layout derivation), registry/decoder agreement by typed AST + CFG rules"
	r.Explanation = "C08.1 for every TLSExtension implementation (found with types.Implements on each run) Len() is reduced to a linear form over the receiver's lengths and Read(b) is abstractly interpreted into the list of stores (offset, width, value) it performs; obligations: short-buffer guard `len(b) < Len()` returning (0, io.ErrShortBuffer) before any store, return value == Len() with io.EOF, 2-byte type at b[0:2], b[2:4] == Len()-4, the stores tile [0,Len()) exactly (unwritten bytes only where the wire value is zero), every inner length prefix ends its region on Len()/another field/the next element, multi-byte values have consistent high/low bytes, Len()==0 cases have a matching empty Read. " +
		"C08.2 the type constant each encoder emits maps through ExtensionFromID back to that type, and each registry case's type emits that id. " +
		"C08.3 in every decoder (Write) a failed cryptobyte read leaves with a non-nil error. " +
		"C08.4 every field the encoder reads is restored by the decoder, except the documented normalisations. " +
		"C08.5 every in-module call site that lets an extension encode itself hands it a freshly allocated zeroed buffer (the must-be-zero bytes rely on it). " +
		"C08.6 decoders map GREASE code points to the placeholder exactly for the lists ApplyPreset re-GREASEs. C08.7 each decoder's cryptobyte parse grammar (prefix and element widths) equals the layout derived from its encoder."
	r.NotDecided = "re-encoding equality for concrete field values; contents of must-be-zero bytes when an external caller passes a dirty buffer to the exported Read"
	exts := tlsExtensions(c)
	r.Count("tls_extension_implementations", len(exts))
	if len(exts) < 33 {
		r.Unknown("C08.1", "implementations", "", "found %d TLSExtension implementations, 33 confirmed by hand", len(exts))
	}
	results := map[string]*codecResult{}
	for _, e := range exts {
		results[e.Name] = checkEncoder(c, "C08.1", e)
	}
	r.Floor("C08.1", 190)
	c08Registry(c, "C08.2", exts, results)
	c08DecoderErrors(c, "C08.3", exts)
	c08Symmetry(c, "C08.4", exts)
	c08FreshBuffer(c, "C08.5")
	c08UnGrease(c, "C08.6", exts)
	grammarRule(c, "C08.7", exts)
}

// c08Registry parses ExtensionFromID's switch: case constants -> returned literal type.
// registryLits holds, per registry id, the evaluated composite literal the case returns.
var registryLits map[int64]*AVal

func registryTable(c *Ctx) (map[int64]string, map[int64]token.Pos, bool) {
	registryLits = map[int64]*AVal{}
	ev := newEvaluator(c.P.TLS)
	tls := c.P.TLS
	info := tls.TypesInfo
	fd := load.FuncDecl(tls, "", "ExtensionFromID")
	if fd == nil {
		return nil, nil, false
	}
	tab := map[int64]string{}
	pos := map[int64]token.Pos{}
	ast.Inspect(fd.Body, func(n ast.Node) bool {
		cc, ok := n.(*ast.CaseClause)
		if !ok || cc.List == nil {
			return true
		}
		tn := ""
		var lit *AVal
		for _, s := range cc.Body {
			if rs, ok := s.(*ast.ReturnStmt); ok && len(rs.Results) == 1 {
				ast.Inspect(rs.Results[0], func(x ast.Node) bool {
					if cl, ok := x.(*ast.CompositeLit); ok && tn == "" {
						tn = an.TypeName(info.TypeOf(cl))
						lit = ev.Eval(cl)
					}
					return true
				})
			}
		}
		for _, e := range cc.List {
			if v, ok := an.ConstInt(info, e); ok && tn != "" {
				tab[v] = tn
				pos[v] = e.Pos()
				registryLits[v] = lit
			}
		}
		return true
	})
	return tab, pos, len(tab) > 0
}

func c08Registry(c *Ctx, rule string, exts []*extImpl, results map[string]*codecResult) {
	r := c.R
	tab, pos, ok := registryTable(c)
	if !ok {
		r.Unknown(rule, "ExtensionFromID", "", "registry switch not found")
		return
	}
	var ids []int64
	for id := range tab {
		ids = append(ids, id)
	}
	sort.Slice(ids, func(i, j int) bool { return ids[i] < ids[j] })
	for _, id := range ids {
		tn := tab[id]
		res := results[tn]
		cons := fmt.Sprintf("ExtensionFromID[%d]->%s", id, tn)
		if res == nil {
			r.Bad(rule, cons, c.P.Pos(pos[id]), "registry returns %s, which is not a TLSExtension implementation known to the analysis", tn)
			continue
		}
		emits := false
		for _, k := range res.idConst {
			if k == id {
				emits = true
			}
		}
		// a two-valued id: the constructor's flag decides which constant Read emits
		if emits && len(res.idConst) == 2 && strings.HasPrefix(res.idCond, "e.") && registryLits[id] != nil {
			flag := strings.TrimPrefix(res.idCond, "e.")
			set := false
			if f := registryLits[id].Field(flag); f != nil && f.Kind == "bool" {
				set = f.Bool
			}
			want := res.idConst[0]
			if set {
				want = res.idConst[1]
			}
			if want != id {
				r.Bad(rule, cons, c.P.Pos(pos[id]), "registry case %d constructs %s with %s=%v, whose Read emits type %d: a fingerprinted extension of type %d is re-sent as %d", id, tn, flag, set, want, id, want)
				continue
			}
		}
		r.Check(emits, rule, cons, c.P.Pos(pos[id]), fmt.Sprintf("%s.Read emits type %d", tn, id),
			fmt.Sprintf("registry maps id %d to %s, but %s.Read emits %v: a fingerprinted extension would be re-sent under a different type", id, tn, tn, res.idConst))
	}
	// reverse: every decoder-capable type with a constant id is constructible from its id
	sharedID := map[string]string{"UtlsPreSharedKeyExtension": "shares id 41 with FakePreSharedKeyExtension; importers choose between them explicitly"}
	for _, e := range exts {
		res := results[e.Name]
		if res == nil || e.Write == nil || len(res.idConst) == 0 {
			continue
		}
		for _, id := range res.idConst {
			cons := fmt.Sprintf("%s emits %d", e.Name, id)
			if why, ok := sharedID[e.Name]; ok {
				r.Ok(rule, cons, c.Pos(e.Read), "%s", why)
				continue
			}
			r.Check(tab[id] == e.Name, rule, cons, c.Pos(e.Read), "ExtensionFromID maps the id back to this type",
				fmt.Sprintf("%s.Read emits type %d but ExtensionFromID(%d) yields %q: fingerprinting this extension does not reproduce it", e.Name, id, id, tab[id]))
		}
	}
	r.Floor(rule, 50)
}

func isCryptobyteRead(info *types.Info, call *ast.CallExpr) bool {
	fn, ok := an.Callee(info, call).(*types.Func)
	if !ok || fn.Pkg() == nil {
		return false
	}
	if strings.HasSuffix(fn.Pkg().Path(), "crypto/cryptobyte") {
		n := fn.Name()
		return strings.HasPrefix(n, "Read") || n == "Skip" || n == "CopyBytes"
	}
	if fn.Pkg().Path() == Mod && strings.HasPrefix(fn.Name(), "readUint") && strings.HasSuffix(fn.Name(), "LengthPrefixed") {
		return true
	}
	return false
}

func c08DecoderErrors(c *Ctx, rule string, exts []*extImpl) {
	r := c.R
	info := c.Info()
	n := 0
	for _, e := range exts {
		if e.Write == nil {
			continue
		}
		fn := an.NewFn(c.P.TLS, e.Write)
		_, fail, at := condEdges(fn, func(cond ast.Expr) (bool, bool) {
			x, neg := negated(cond)
			call, ok := x.(*ast.CallExpr)
			if !ok || !isCryptobyteRead(info, call) {
				return false, false
			}
			return true, !neg
		})
		for i, fe := range fail {
			n++
			ok, why := failEdgeExits(fn, fe, nil)
			cons := fmt.Sprintf("%s.Write:%s", e.Name, an.Str(an.Unparen(at[i].Node().(ast.Expr))))
			if len(cons) > 110 {
				cons = cons[:110]
			}
			r.Check(ok, rule, cons, c.PosP(at[i]), "a failed read returns an error", "a failed cryptobyte read does not make Write return an error: "+why)
		}
		// unchecked reads: a cryptobyte read used as a statement (result ignored)
		for _, h := range fn.FindNodes(func(x ast.Node) bool {
			es, ok := x.(*ast.ExprStmt)
			if !ok {
				return false
			}
			call, ok := es.X.(*ast.CallExpr)
			return ok && isCryptobyteRead(info, call)
		}) {
			r.Bad(rule, fmt.Sprintf("%s.Write:unchecked:%s", e.Name, an.Str(h.N.(*ast.ExprStmt).X)), c.Pos(h.N), "result of a cryptobyte read is discarded: truncated input is silently accepted")
		}
	}
	r.Count("decoder_read_checks", n)
	r.Floor(rule, 40)
}

func c08Symmetry(c *Ctx, rule string, exts []*extImpl) {
	r := c.R
	tls := c.P.TLS
	for _, e := range exts {
		if e.Write == nil || e.Read == nil {
			continue
		}
		rd, _ := fieldsTouched(tls, e.Read)
		ln, _ := fieldsTouched(tls, e.Len)
		_, wr := fieldsTouched(tls, e.Write)
		all := map[string]token.Pos{}
		for k, v := range rd {
			all[k] = v
		}
		for k, v := range ln {
			if _, ok := all[k]; !ok {
				all[k] = v
			}
		}
		var ks []string
		for k := range all {
			ks = append(ks, k)
		}
		sort.Strings(ks)
		for _, f := range ks {
			cons := e.Name + "." + f
			if why, ok := c08Normalised[cons]; ok {
				r.Ok(rule, cons, c.P.Pos(all[f]), "documented normalisation: %s", why)
				continue
			}
			// memo/cache fields (unexported) assigned by Len/Read themselves
			_, lw := fieldsTouched(tls, e.Len)
			_, rw := fieldsTouched(tls, e.Read)
			if _, ok := lw[f]; ok {
				r.Ok(rule, cons, c.P.Pos(all[f]), "cache field maintained by Len itself")
				continue
			}
			if _, ok := rw[f]; ok {
				r.Ok(rule, cons, c.P.Pos(all[f]), "field maintained by Read itself")
				continue
			}
			_, ok := wr[f]
			r.Check(ok, rule, cons, c.P.Pos(all[f]), "encoder input is restored by the decoder",
				fmt.Sprintf("%s.Read encodes field %s but %s.Write never assigns it: decoding and re-encoding cannot reproduce the bytes", e.Name, f, e.Name))
		}
	}
	r.Floor(rule, 25)
}

// c08FreshBuffer: call sites where a TLSExtension encodes itself.
func c08FreshBuffer(c *Ctx, rule string) {
	r := c.R
	tls := c.P.TLS
	info := tls.TypesInfo
	io, _ := tls.Types.Scope().Lookup("TLSExtension").(*types.TypeName)
	if io == nil {
		r.Unknown(rule, "TLSExtension", "", "interface not found")
		return
	}
	iface := io.Type().Underlying().(*types.Interface)
	isExt := func(t types.Type) bool {
		if t == nil {
			return false
		}
		if types.Identical(t, io.Type()) {
			return true
		}
		if _, ok := t.Underlying().(*types.Interface); ok {
			return types.Implements(t, iface)
		}
		return false
	}
	sites := 0
	for _, fd := range load.AllFuncDecls(tls) {
		if fd.Name.Name == "Read" && fd.Recv != nil {
			continue // an encoder delegating to its embedded encoder passes its own buffer on
		}
		fn := an.NewFn(tls, fd)
		for _, h := range fn.FindNodes(func(n ast.Node) bool { _, ok := n.(*ast.CallExpr); return ok }) {
			call := h.N.(*ast.CallExpr)
			se, ok := call.Fun.(*ast.SelectorExpr)
			if !ok {
				continue
			}
			cons := fd.Name.Name + ":" + an.Str(call.Fun)
			// ext.Read(buf)
			if se.Sel.Name == "Read" && len(call.Args) == 1 && isExt(info.TypeOf(se.X)) {
				sites++
				ok, why := freshLocalBuffer(fn, h.P, call.Args[0])
				r.Check(ok, rule, cons, c.Pos(call), "extension encodes into a buffer allocated in the same iteration", "extension encodes into a buffer that is not freshly allocated: "+why)
				continue
			}
			// w.ReadFrom(ext) on a *bufio.Writer
			if se.Sel.Name == "ReadFrom" && len(call.Args) == 1 && isExt(info.TypeOf(call.Args[0])) {
				sites++
				ok, why := freshBufioWriter(c, fn, se.X)
				r.Check(ok, rule, cons, c.Pos(call), "bufio.Writer created in this function over a fresh bytes.Buffer and sized from the computed hello length (no flush can recycle its bytes)", "extension encodes into a writer that may hold stale bytes: "+why)
			}
		}
	}
	r.Count("extension_encode_call_sites", sites)
	r.Floor(rule, 2)
}

// freshLocalBuffer: arg is a local defined by make(...) (possibly converted) with no use
// between its definition and the call other than the call itself, inside the same loop body.
func freshLocalBuffer(fn *an.Fn, at an.Point, arg ast.Expr) (bool, string) {
	info := fn.Info
	id, ok := an.Unparen(arg).(*ast.Ident)
	if !ok {
		// inline make
		if isMakeBytes(info, arg) {
			return true, ""
		}
		return false, "argument is not a local buffer"
	}
	o := objOf(info, id)
	var def *ast.AssignStmt
	var defPt an.Point
	for _, h := range fn.FindNodes(func(n ast.Node) bool {
		as, ok := n.(*ast.AssignStmt)
		if !ok || len(as.Lhs) != 1 {
			return false
		}
		l, ok := as.Lhs[0].(*ast.Ident)
		return ok && objOf(info, l) == o
	}) {
		if def != nil {
			return false, "buffer is assigned more than once"
		}
		def = h.N.(*ast.AssignStmt)
		defPt = h.P
	}
	if def == nil || len(def.Rhs) != 1 || !isMakeBytes(info, def.Rhs[0]) {
		return false, "buffer is not defined by make([]byte, n)"
	}
	// every path from entry (or around the loop) to the call passes the definition after the previous call
	if !fn.MustPass(at, []an.Point{defPt}, nil) {
		return false, "a path reaches the call without allocating the buffer"
	}
	if fn.Reachable(at, at) && !fn.MustPassFrom(at, at, []an.Point{defPt}, nil) {
		return false, "the buffer is reused across loop iterations"
	}
	return true, ""
}

func isMakeBytes(info *types.Info, e ast.Expr) bool {
	e = an.Unparen(e)
	call, ok := e.(*ast.CallExpr)
	if !ok {
		return false
	}
	if tv, ok := info.Types[call.Fun]; ok && tv.IsType() && len(call.Args) == 1 {
		return isMakeBytes(info, call.Args[0])
	}
	id, ok := call.Fun.(*ast.Ident)
	if !ok || id.Name != "make" {
		return false
	}
	_, isB := info.Uses[id].(*types.Builtin)
	return isB
}

func freshBufioWriter(c *Ctx, fn *an.Fn, w ast.Expr) (bool, string) {
	info := fn.Info
	id, ok := an.Unparen(w).(*ast.Ident)
	if !ok {
		return false, "writer is not a local variable"
	}
	o := objOf(info, id)
	var ctor *ast.CallExpr
	n := 0
	ast.Inspect(fn.Body, func(x ast.Node) bool {
		as, ok := x.(*ast.AssignStmt)
		if !ok || len(as.Lhs) != 1 || len(as.Rhs) != 1 {
			return true
		}
		if l, ok := as.Lhs[0].(*ast.Ident); ok && objOf(info, l) == o {
			n++
			if call, ok := an.Unparen(as.Rhs[0]).(*ast.CallExpr); ok {
				ctor = call
			}
		}
		return true
	})
	if n != 1 || ctor == nil {
		return false, "writer is not created exactly once in this function"
	}
	f, _ := an.Callee(info, ctor).(*types.Func)
	if f == nil || f.Pkg() == nil || f.Pkg().Path() != "bufio" || f.Name() != "NewWriterSize" || len(ctor.Args) != 2 {
		return false, "writer is not created with bufio.NewWriterSize (its buffer size must cover the whole hello so that no flush recycles bytes)"
	}
	// underlying sink: &localBuffer where localBuffer is a local zero/composite bytes.Buffer
	u, ok := an.Unparen(ctor.Args[0]).(*ast.UnaryExpr)
	if !ok || u.Op != token.AND {
		return false, "sink is not the address of a local buffer"
	}
	sid, ok := an.Unparen(u.X).(*ast.Ident)
	if !ok || an.TypeName(info.TypeOf(sid)) != "Buffer" {
		return false, "sink is not a local bytes.Buffer"
	}
	// the size expression must mention the variable compared in the final length check (helloLen)
	sizeObjs := map[types.Object]bool{}
	ast.Inspect(ctor.Args[1], func(x ast.Node) bool {
		if i, ok := x.(*ast.Ident); ok {
			if ob := info.Uses[i]; ob != nil {
				sizeObjs[ob] = true
			}
		}
		return true
	})
	okSize := false
	sobj := objOf(info, sid)
	ast.Inspect(fn.Body, func(x ast.Node) bool {
		be, ok := x.(*ast.BinaryExpr)
		if !ok || be.Op != token.NEQ {
			return true
		}
		// helloBuffer.Len() != 4+helloLen
		mentionsSink := an.Contains(be, func(y ast.Node) bool { i, ok := y.(*ast.Ident); return ok && info.Uses[i] == sobj })
		mentionsSize := an.Contains(be, func(y ast.Node) bool { i, ok := y.(*ast.Ident); return ok && sizeObjs[info.Uses[i]] })
		if mentionsSink && mentionsSize {
			okSize = true
		}
		return true
	})
	if !okSize {
		return false, "the writer's size is not tied to the length that is finally checked against the bytes produced"
	}
	return true, ""
}

// c08UnGrease: decoders whose list ApplyPreset re-GREASEs must un-GREASE on import.
func c08UnGrease(c *Ctx, rule string, exts []*extImpl) {
	r := c.R
	info := c.Info()
	want := map[string]string{
		"SupportedCurvesExtension":   "Curves",
		"SupportedVersionsExtension": "Versions",
		"KeyShareExtension":          "KeyShares",
	}
	seen := 0
	for _, e := range exts {
		if e.Write == nil {
			continue
		}
		uses := an.Contains(e.Write.Body, an.CallTo(info, Mod, "", "unGREASEUint16"))
		if f, ok := want[e.Name]; ok {
			seen++
			r.Check(uses, rule, e.Name+".Write:unGREASE", c.Pos(e.Write), "GREASE code points in "+f+" become the placeholder (ApplyPreset re-GREASEs this list)",
				"decoder keeps the captured GREASE value in "+f+": ApplyPreset only re-GREASEs placeholder/GREASE-shaped values, and a fixed captured value defeats per-connection GREASE")
		}
	}
	// the GREASE extension itself: Value is set from the placeholder constant
	if g := load.FuncDecl(c.P.TLS, "UtlsGREASEExtension", "Write"); g != nil {
		seen++
		ok := false
		ast.Inspect(g.Body, func(n ast.Node) bool {
			as, isAs := n.(*ast.AssignStmt)
			if !isAs || len(as.Lhs) != 1 || len(as.Rhs) != 1 {
				return true
			}
			if an.FieldSel(info, an.Unparen(as.Lhs[0]), "UtlsGREASEExtension", "Value") {
				if id, isID := an.Unparen(as.Rhs[0]).(*ast.Ident); isID && id.Name == "GREASE_PLACEHOLDER" {
					ok = true
				}
			}
			return true
		})
		r.Check(ok, rule, "UtlsGREASEExtension.Write:placeholder", c.Pos(g), "imported GREASE extension carries the placeholder value", "imported GREASE extension keeps a concrete value instead of GREASE_PLACEHOLDER")
	}
	// FromRaw un-GREASEs cipher suites (through ReadCipherSuites)
	if fr := load.FuncDecl(c.P.TLS, "ClientHelloSpec", "FromRaw"); fr != nil {
		seen++
		rcs := load.FuncDecl(c.P.TLS, "ClientHelloSpec", "ReadCipherSuites")
		ok := an.Contains(fr.Body, an.CallTo(info, Mod, "", "unGREASEUint16")) ||
			(rcs != nil && an.Contains(fr.Body, an.CallTo(info, Mod, "ClientHelloSpec", "ReadCipherSuites")) && an.Contains(rcs.Body, an.CallTo(info, Mod, "", "unGREASEUint16")))
		r.Check(ok, rule, "ClientHelloSpec.FromRaw:unGREASE-suites", c.Pos(fr),
			"cipher suites are un-GREASEd on import", "FromRaw keeps captured GREASE cipher-suite values")
	}
	if seen < 5 {
		r.Unknown(rule, "decoders", "", "only %d of 5 GREASE-carrying decoders found", seen)
	}
	r.Floor(rule, 5)
}
