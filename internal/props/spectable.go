package props

import (
	"go/ast"
	"go/token"
	"sort"
	"strings"

	"verif/internal/an"
	"verif/internal/load"
)

// parrot is one evaluated case of utlsIdToSpec.
type parrot struct {
	IDs      []string // ClientHelloID variable names labelling the case
	Name     string   // first label
	Pos      token.Pos
	Spec     *AVal
	Exts     []*AVal // extension values in spec order
	Shuffled bool
	Err      string // non-empty: could not evaluate
}

// extType is the concrete extension type name of an element.
func extType(v *AVal) string {
	if v == nil {
		return ""
	}
	return v.Type
}

// loadParrots evaluates every case clause of utlsIdToSpec's switch on its parameter.
func loadParrots(c *Ctx) []*parrot {
	tls := c.P.TLS
	info := tls.TypesInfo
	fd := load.FuncDecl(tls, "", "utlsIdToSpec")
	if fd == nil {
		return nil
	}
	ev := newEvaluator(tls)
	var out []*parrot
	ast.Inspect(fd.Body, func(n ast.Node) bool {
		sw, ok := n.(*ast.SwitchStmt)
		if !ok {
			return true
		}
		for _, st := range sw.Body.List {
			cc := st.(*ast.CaseClause)
			if cc.List == nil {
				continue
			}
			p := &parrot{Pos: cc.Pos()}
			for _, e := range cc.List {
				p.IDs = append(p.IDs, an.Str(e))
			}
			p.Name = p.IDs[0]
			out = append(out, p)
			// body: a single return of a ClientHelloSpec literal (possibly preceded by nothing)
			var ret *ast.ReturnStmt
			for _, s := range cc.Body {
				if r, ok := s.(*ast.ReturnStmt); ok {
					ret = r
				} else {
					p.Err = "case body contains statements other than a return"
				}
			}
			if ret == nil || len(ret.Results) < 1 {
				p.Err = "case does not return a spec literal"
				continue
			}
			if p.Err != "" {
				continue
			}
			v := ev.Eval(ret.Results[0])
			if v.Kind != "struct" || v.Type != "ClientHelloSpec" {
				p.Err = "returned value is not a ClientHelloSpec literal: " + v.String()
				continue
			}
			p.Spec = v
			if u := v.HasUnknown(); u != nil {
				p.Err = "cannot evaluate " + u.Expr + " at " + c.P.Pos(u.Pos)
			}
			if ex := v.Field("Extensions"); ex != nil && ex.Kind == "list" {
				p.Exts = ex.Elems
				p.Shuffled = ex.Tags["via:ShuffleChromeTLSExtensions"]
			}
		}
		return false
	})
	_ = info
	sort.SliceStable(out, func(i, j int) bool { return out[i].Pos < out[j].Pos })
	return out
}

func (p *parrot) label() string { return strings.Join(p.IDs, ",") }

// find returns the extension values of the given type.
func (p *parrot) find(types ...string) []*AVal {
	var out []*AVal
	for _, e := range p.Exts {
		for _, t := range types {
			if extType(e) == t {
				out = append(out, e)
			}
		}
	}
	return out
}

// field0 returns the value of field `name` of an extension, also accepting positional literals
// (already resolved by the evaluator).
func field0(v *AVal, name string) *AVal { return v.Field(name) }
