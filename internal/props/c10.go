package props

import (
	"fmt"
	"go/ast"
	"go/types"
	"sort"
	"strings"

	"verif/internal/an"
	"verif/internal/load"
)

// C10 — every offered fingerprint completes a handshake with a compliant server.
//
// Whether a handshake completes is a property of a two-party run. What is visible in the source
// is the clause "the client never aborts on a choice it offered": for each negotiable parameter
// the set the ClientHello offers must be contained in the set the client is prepared to accept
// when the server picks from it. Those containments are decided here from the parrot tables
// (evaluated on every run) and from the code that computes the accept side.
func init() { register(&Prop{ID: "C10", Run: runC10}) }

func runC10(c *Ctx) {
	r := c.R
	r.Technique = "constant evaluation of all parrot spec literals (offer side) against the accept side read from the source (SetTLSVers model, curveForCurveID cases, typeAndHashFromSignatureScheme cases, defaultSupportedSignatureAlgorithms), plus the publish⇒retain def-use rule and key-selection rule shared with C18"
	r.Explanation = "offer ⊆ accept, per negotiable parameter. " +
		"C10.1 versions: every implemented TLS version a parrot's supported_versions advertises lies in the range the client accepts afterwards (what SetTLSVers derives; its derivation is checked against the source by C10.4, same rule as C13.4). " +
		"C10.2 groups: in every TLS 1.3 parrot each hybrid group listed in supported_groups carries a key share (processHelloRetryRequest cannot generate a hybrid share), and every implemented classical group listed is one curveForCurveID / generateECDHEKey can produce for a HelloRetryRequest. " +
		"C10.3 key shares: every private key whose public half ApplyPreset publishes is retained on every continuing path, per parrot every generated classical share has a retained key, and establishHandshakeKeys selects the key by the group of the server's share (rules of C18.1/C18.3/C18.5). " +
		"C10.5 signature algorithms: every scheme a parrot offers that utls implements (a case of typeAndHashFromSignatureScheme) is in the list the TLS 1.3 client checks CertificateVerify against."
	r.NotDecided = "that the handshake then completes and data round-trips (two-party run); cipher-suite, ALPN and certificate-type acceptance (the client compares with the hello it sent, upstream code); randomized specs (C09); servers that are not standards-compliant"
	ps := loadParrots(c)
	if len(ps) == 0 {
		r.Unknown("C10.1", "utlsIdToSpec", "", "parrot table not found")
		return
	}
	r.Count("parrot_tables", len(ps))
	parrotOfferAcceptedRule(c, "C10.1", ps)
	r.Floor("C10.1", 34)
	c10Groups(c, ps)
	r.Borrow(map[string]string{"C18.1": "C10.3-retain", "C18.3": "C10.3-parrot", "C18.5": "C10.3-select"}, func() { runC18(c) })
	r.Borrow(map[string]string{"C13.4": "C10.4"}, func() { c13SetTLSVersModel(c) })
	c10SigAlgs(c, ps)
}

// parrotOfferAcceptedRule: every TLS version a parrot's ClientHello advertises (and utls
// implements) lies inside the range the client will accept afterwards.
func parrotOfferAcceptedRule(c *Ctx, rule string, ps []*parrot) {
	r := c.R
	for _, p := range ps {
		cons := "parrot:" + p.Name
		pos := c.P.Pos(p.Pos)
		if p.Err != "" {
			r.Unknown(rule, cons, pos, "%s", p.Err)
			continue
		}
		v := viewOf(p)
		if len(v.problems) > 0 {
			r.Unknown(rule, cons, pos, "%s", strings.Join(v.problems, "; "))
			continue
		}
		min, max := v.effRange()
		var advertised, refused []int64
		if v.hasSV {
			for _, x := range v.sv {
				if x >= 0x0301 && x <= 0x0304 {
					advertised = append(advertised, x)
				}
			}
		}
		sort.Slice(advertised, func(i, j int) bool { return advertised[i] < advertised[j] })
		for _, x := range advertised {
			if x < min || x > max {
				refused = append(refused, x)
			}
		}
		if len(refused) == 0 {
			r.Ok(rule, cons, pos, "advertises %s ⊆ accepts [0x%04x,0x%04x]", hexList(advertised), min, max)
		} else {
			r.Bad(rule, cons, pos, "the ClientHello advertises %s, which the client then refuses (accepted range [0x%04x,0x%04x]): a compliant server choosing it is answered with protocol_version", hexList(refused), min, max)
		}
	}
}

// switchCaseConsts lists the integer constants named in the case clauses of the switches of fd.
func switchCaseConsts(c *Ctx, fd *ast.FuncDecl) map[int64]bool {
	out := map[int64]bool{}
	if fd == nil || fd.Body == nil {
		return out
	}
	ast.Inspect(fd.Body, func(n ast.Node) bool {
		cc, ok := n.(*ast.CaseClause)
		if !ok {
			return true
		}
		for _, e := range cc.List {
			if v, ok := an.ConstInt(c.Info(), e); ok {
				out[v] = true
			}
		}
		return true
	})
	return out
}

func c10Groups(c *Ctx, ps []*parrot) {
	r := c.R
	gf := loadGroupFacts(c)
	hrrCapable := switchCaseConsts(c, load.FuncDecl(c.P.TLS, "", "curveForCurveID"))
	if len(hrrCapable) < 3 {
		r.Unknown("C10.2", "curveForCurveID", "", "found %d curve cases in curveForCurveID, 4 confirmed by hand", len(hrrCapable))
		return
	}
	for _, p := range ps {
		cons := "parrot:" + p.Name
		pos := c.P.Pos(p.Pos)
		if p.Err != "" {
			r.Unknown("C10.2", cons, pos, "%s", p.Err)
			continue
		}
		v := viewOf(p)
		if len(v.problems) > 0 {
			r.Unknown("C10.2", cons, pos, "%s", strings.Join(v.problems, "; "))
			continue
		}
		if !v.tls13() {
			r.Ok("C10.2", cons, pos, "TLS 1.2 parrot: the group is used through the ECDHE key agreement only")
			continue
		}
		shared := map[int64]bool{}
		for _, s := range v.shares {
			shared[s.Group] = true
		}
		var probs []string
		for _, g := range v.curves {
			switch {
			case isGreaseVal(g):
			case gf.hybrid[g] != "":
				if !shared[g] {
					probs = append(probs, fmt.Sprintf("%s is listed in supported_groups without a key share: a server selecting it sends a HelloRetryRequest the client cannot answer (\"CurvePreferences includes unsupported curve\")", gf.hybrid[g]))
				}
			case gf.classical[g] != "":
				if !shared[g] && !hrrCapable[g] {
					probs = append(probs, fmt.Sprintf("%s is listed without a key share and curveForCurveID has no case for it: a HelloRetryRequest for it aborts the handshake", gf.classical[g]))
				}
			}
		}
		if len(probs) == 0 {
			r.Ok("C10.2", cons, pos, "every implemented group listed has a share or can be generated after a HelloRetryRequest")
		} else {
			r.Bad("C10.2", cons, pos, "%s", strings.Join(probs, "; "))
		}
	}
	r.Floor("C10.2", 34)
}

func c10SigAlgs(c *Ctx, ps []*parrot) {
	r := c.R
	info := c.Info()
	implemented := switchCaseConsts(c, load.FuncDecl(c.P.TLS, "", "typeAndHashFromSignatureScheme"))
	if len(implemented) < 8 {
		r.Unknown("C10.5", "typeAndHashFromSignatureScheme", "", "found %d signature scheme cases, 12 confirmed by hand", len(implemented))
		return
	}
	// the list supportedSignatureAlgorithms() returns
	accept := map[int64]bool{}
	fd := load.FuncDecl(c.P.TLS, "", "supportedSignatureAlgorithms")
	var listVar *types.Var
	if fd != nil && fd.Body != nil {
		ast.Inspect(fd.Body, func(n ast.Node) bool {
			rs, ok := n.(*ast.ReturnStmt)
			if ok && len(rs.Results) == 1 {
				if id, ok := an.Unparen(rs.Results[0]).(*ast.Ident); ok {
					if v, ok := objOf(info, id).(*types.Var); ok {
						listVar = v
					}
				}
			}
			return true
		})
	}
	if listVar != nil {
		for _, f := range c.P.TLS.Syntax {
			ast.Inspect(f, func(n ast.Node) bool {
				vs, ok := n.(*ast.ValueSpec)
				if !ok {
					return true
				}
				for i, nm := range vs.Names {
					if info.Defs[nm] == listVar && i < len(vs.Values) {
						if cl, ok := vs.Values[i].(*ast.CompositeLit); ok {
							for _, e := range cl.Elts {
								if v, ok := an.ConstInt(info, e); ok {
									accept[v] = true
								}
							}
						}
					}
				}
				return true
			})
		}
	}
	if len(accept) < 6 {
		r.Unknown("C10.5", "supportedSignatureAlgorithms", "", "the list returned by supportedSignatureAlgorithms() could not be evaluated (%d entries)", len(accept))
		return
	}
	r.Count("C10.5_implemented_schemes", len(implemented))
	r.Count("C10.5_accepted_schemes", len(accept))
	n := 0
	for _, p := range ps {
		cons := "parrot:" + p.Name
		pos := c.P.Pos(p.Pos)
		if p.Err != "" {
			continue // reported by C10.1
		}
		exts := p.find("SignatureAlgorithmsExtension")
		if len(exts) == 0 {
			continue
		}
		v := viewOf(p)
		if !v.tls13() {
			continue // TLS 1.2: the client checks against the list in the hello it sent
		}
		n++
		l, ok := exts[0].Field("SupportedSignatureAlgorithms").Ints()
		if !ok {
			r.Unknown("C10.5", cons, pos, "signature_algorithms list is not constant")
			continue
		}
		var refused []int64
		for _, s := range l {
			// SHA-1 and PKCS#1 v1.5 schemes are not valid for TLS 1.3 CertificateVerify (RFC 8446 4.2.3):
			// a compliant TLS 1.3 server does not choose them
			if implemented[s] && !accept[s] && !tls13Forbidden(c, s) {
				refused = append(refused, s)
			}
		}
		if len(refused) == 0 {
			r.Ok("C10.5", cons, pos, "every implemented scheme offered is accepted for CertificateVerify")
		} else {
			r.Bad("C10.5", cons, pos, "offers %s, which utls implements but the TLS 1.3 client rejects in CertificateVerify (not in the list supportedSignatureAlgorithms() returns)", hexList(refused))
		}
	}
	r.Count("C10.5_tls13_parrots", n)
	r.Floor("C10.5", 15)
}

func tls13Forbidden(c *Ctx, s int64) bool {
	for _, n := range []string{"PKCS1WithSHA1", "ECDSAWithSHA1", "PKCS1WithSHA256", "PKCS1WithSHA384", "PKCS1WithSHA512"} {
		if v, ok := constOf(c, n); ok && v == s {
			return true
		}
	}
	return false
}
