package props

import (
	"fmt"
	"go/ast"
	"go/token"
	"go/types"
	"strings"

	"verif/internal/an"

	"golang.org/x/tools/go/packages"
)

// ---- symbolic values -------------------------------------------------------

type svKind int

const (
	svNone svKind = iota
	svLin         // integer linear form
	svBuf         // alias of the output buffer at offset lin
	svPath        // a list / string / byte slice identified by a canonical path
	svData        // an integer that is payload data, not a length (canonical expression)
	svChoice      // one of several constants
)

type sval struct {
	k      svKind
	lin    Lin
	path   string
	consts []int64
	cond   string // svChoice: consts[1] is chosen when cond holds
}

func (v sval) String() string {
	switch v.k {
	case svLin:
		return v.lin.String()
	case svBuf:
		return "buf+" + v.lin.String()
	case svPath:
		return "path:" + v.path
	case svData:
		return "data:" + v.path
	case svChoice:
		if v.cond != "" {
			return fmt.Sprintf("choice%v if %s", v.consts, v.cond)
		}
		return fmt.Sprintf("choice%v", v.consts)
	}
	return "?"
}

// wr is one recorded store into the output buffer.
type wr struct {
	off   Lin
	n     Lin    // number of bytes
	lin   *Lin   // value (before shift) when it is a linear form
	data  string // canonical expression when it is data / copy source
	shift int
	mask  bool
	loop  string
	pos   token.Pos
	seq   int
	copy  bool
}

type retRec struct {
	n     sval
	err   string // rendered error expression
	cond  string // condition under which this early return happens ("" = fallthrough/main)
	pos   token.Pos
	afterWrites int
}

type guardRec struct {
	lhsIsLenBuf bool
	rhs         Lin
	pos         token.Pos
	beforeWrites int
	retN        string
	retErr      string
}

// encShape is the result of interpreting one encoder (Len or Read).
type boundRec struct {
	lin Lin
	max int64 // the encoder refuses values above max
	pos token.Pos
}

type encShape struct {
	bounds []boundRec
	writes []*wr
	rets   []retRec
	guards []guardRec
	issues []string
	loops  map[string]*loopSummary
	fstore map[string]sval
}

type loopSummary struct {
	list      string
	iterStart map[string]Lin // not used
}

type interp struct {
	pkg    *packages.Package
	info   *types.Info
	env    map[types.Object]sval
	fstore map[string]sval
	out    *encShape
	loop   string // current loop list path ("" outside)
	probe  bool   // probe mode: do not record writes/returns
	depth  int
	cond   []string
	lenOf  func(recvPath string, recvType string) (Lin, bool) // resolves X.Len() for receiver paths
}

func (in *interp) issue(format string, a ...any) {
	if in.probe {
		return
	}
	in.out.issues = append(in.out.issues, fmt.Sprintf(format, a...))
}

// pathOf canonicalises an expression denoting a list/string/bytes value.
func (in *interp) pathOf(e ast.Expr) (string, bool) {
	e = an.Unparen(e)
	switch x := e.(type) {
	case *ast.Ident:
		if o := objOf(in.info, x); o != nil {
			if v, ok := in.env[o]; ok && v.k == svPath {
				return v.path, true
			}
		}
		return "", false
	case *ast.SelectorExpr:
		if sel := in.info.Selections[x]; sel != nil && sel.Kind() == types.FieldVal {
			p, ok := in.pathOf(x.X)
			if !ok {
				return "", false
			}
			full := p + "." + x.Sel.Name
			if v, ok := in.fstore[full]; ok && v.k == svPath {
				return v.path, true
			}
			return full, true
		}
	case *ast.StarExpr:
		return in.pathOf(x.X)
	case *ast.CallExpr:
		// conversion
		if tv, ok := in.info.Types[x.Fun]; ok && tv.IsType() && len(x.Args) == 1 {
			return in.pathOf(x.Args[0])
		}
		// opaque call with path arguments
		if fn, ok := an.Callee(in.info, x).(*types.Func); ok {
			var as []string
			for _, a := range x.Args {
				p, ok := in.pathOf(a)
				if !ok {
					return "", false
				}
				as = append(as, p)
			}
			return fn.Name() + "(" + strings.Join(as, ",") + ")", true
		}
	case *ast.SliceExpr:
		// X[:] of a path
		if x.Low == nil && x.High == nil {
			return in.pathOf(x.X)
		}
	}
	return "", false
}

// evalInt evaluates an integer expression.
func (in *interp) evalInt(e ast.Expr) sval {
	e = an.Unparen(e)
	if v, ok := an.ConstInt(in.info, e); ok {
		return sval{k: svLin, lin: linConst(v)}
	}
	switch x := e.(type) {
	case *ast.Ident:
		if o := objOf(in.info, x); o != nil {
			if v, ok := in.env[o]; ok {
				return v
			}
		}
	case *ast.SelectorExpr:
		if p, ok := in.pathOf(x); ok {
			if v, ok := in.fstore[p]; ok {
				return v
			}
			// integer-typed field: an int/length-like field is an atom, other integer kinds are data
			if b, ok := in.info.TypeOf(x).Underlying().(*types.Basic); ok && b.Info()&types.IsInteger != 0 {
				if b.Kind() == types.Int && !strings.Contains(p, "[@]") {
					return sval{k: svLin, lin: linAtom(p)}
				}
				return sval{k: svData, path: p}
			}
		}
	case *ast.StarExpr:
		// *e.cachedLength : resolve through a store `e.cachedLength = &v`
		if p, ok := in.pathOf(x.X); ok {
			if v, ok := in.fstore["*"+p]; ok {
				return v
			}
			return sval{k: svData, path: "*" + p}
		}
	case *ast.BinaryExpr:
		a, b := in.evalInt(x.X), in.evalInt(x.Y)
		if a.k == svLin && b.k == svLin {
			switch x.Op {
			case token.ADD:
				return sval{k: svLin, lin: a.lin.Add(b.lin)}
			case token.SUB:
				return sval{k: svLin, lin: a.lin.Sub(b.lin)}
			case token.MUL:
				if a.lin.IsConst() {
					return sval{k: svLin, lin: b.lin.Scale(a.lin.C)}
				}
				if b.lin.IsConst() {
					return sval{k: svLin, lin: a.lin.Scale(b.lin.C)}
				}
			}
		}
		return sval{k: svData, path: in.render(e)}
	case *ast.CallExpr:
		if id, ok := x.Fun.(*ast.Ident); ok {
			if _, isB := in.info.Uses[id].(*types.Builtin); isB && id.Name == "len" && len(x.Args) == 1 {
				arg := an.Unparen(x.Args[0])
				if aid, ok := arg.(*ast.Ident); ok {
					if o := objOf(in.info, aid); o != nil {
						if v, ok := in.env[o]; ok && v.k == svBuf {
							return sval{k: svLin, lin: linAtom("len(b)").Sub(v.lin)}
						}
					}
				}
				if p, ok := in.pathOf(arg); ok {
					return sval{k: svLin, lin: linAtom(atomLen(p))}
				}
				return sval{k: svData, path: in.render(e)}
			}
		}
		if tv, ok := in.info.Types[x.Fun]; ok && tv.IsType() && len(x.Args) == 1 {
			return in.evalInt(x.Args[0])
		}
		if fn, ok := an.Callee(in.info, x).(*types.Func); ok && fn.Pkg() == in.pkg.Types {
			if v, ok := in.callInt(x, fn); ok {
				return v
			}
		}
	}
	return sval{k: svData, path: in.render(e)}
}

// render produces a canonical string for a data expression (receiver-relative paths).
func (in *interp) render(e ast.Expr) string {
	e = an.Unparen(e)
	if p, ok := in.pathOf(e); ok {
		return p
	}
	switch x := e.(type) {
	case *ast.Ident:
		if o := objOf(in.info, x); o != nil {
			if v, ok := in.env[o]; ok {
				switch v.k {
				case svData, svPath:
					return v.path
				case svLin:
					return v.lin.String()
				case svChoice:
					return v.String()
				}
			}
		}
		return x.Name
	case *ast.BinaryExpr:
		return "(" + in.render(x.X) + x.Op.String() + in.render(x.Y) + ")"
	case *ast.CallExpr:
		var as []string
		for _, a := range x.Args {
			as = append(as, in.render(a))
		}
		return types.ExprString(x.Fun) + "(" + strings.Join(as, ",") + ")"
	case *ast.IndexExpr:
		return in.render(x.X) + "[" + in.render(x.Index) + "]"
	case *ast.SelectorExpr:
		return in.render(x.X) + "." + x.Sel.Name
	case *ast.UnaryExpr:
		return x.Op.String() + in.render(x.X)
	}
	return types.ExprString(e)
}

// callInt inlines a module function/method returning an int (Len, keySharesLen, pskExtLen…).
func (in *interp) callInt(call *ast.CallExpr, fn *types.Func) (sval, bool) {
	if in.depth > 4 {
		return sval{}, false
	}
	fd := declOf(in.pkg, fn)
	if fd == nil || fd.Body == nil {
		return sval{}, false
	}
	sub := in.subInterp(call, fd)
	if sub == nil {
		return sval{}, false
	}
	sub.probe = true
	shape := &encShape{}
	sub.out = shape
	sub.probe = false
	sub.block(fd.Body.List)
	// unique non-zero return
	var res *sval
	for i := range shape.rets {
		r := shape.rets[i]
		if r.n.k == svLin && r.n.lin.IsConst() && r.n.lin.C == 0 && r.cond != "" {
			continue // zero case
		}
		if res != nil && !(res.k == svLin && r.n.k == svLin && res.lin.Eq(r.n.lin)) {
			if r.n.k == svData && strings.HasPrefix(r.n.path, "*") {
				continue // memoised value, checked separately
			}
			return sval{}, false
		}
		v := r.n
		if res == nil || res.k != svLin {
			res = &v
		}
	}
	if res == nil || res.k != svLin {
		return sval{}, false
	}
	for _, is := range shape.issues {
		in.issue("%s: %s", fn.Name(), is)
	}
	return *res, true
}

// subInterp binds a callee's receiver and parameters to the caller's values.
func (in *interp) subInterp(call *ast.CallExpr, fd *ast.FuncDecl) *interp {
	sub := &interp{pkg: in.pkg, info: in.info, env: map[types.Object]sval{}, fstore: in.fstore, out: in.out, depth: in.depth + 1, lenOf: in.lenOf}
	if fd.Recv != nil && len(fd.Recv.List) > 0 && len(fd.Recv.List[0].Names) > 0 {
		se, ok := call.Fun.(*ast.SelectorExpr)
		if !ok {
			return nil
		}
		p, ok := in.pathOf(se.X)
		if !ok {
			return nil
		}
		// promoted method through an embedded field: extend the path
		if sel := in.info.Selections[se]; sel != nil && len(sel.Index()) > 1 {
			t := sel.Recv()
			for _, k := range sel.Index()[:len(sel.Index())-1] {
				st, _ := structOf(t)
				if st == nil {
					break
				}
				p += "." + st.Field(k).Name()
				t = st.Field(k).Type()
			}
		}
		sub.env[in.info.Defs[fd.Recv.List[0].Names[0]]] = sval{k: svPath, path: p}
	}
	i := 0
	for _, fl := range fd.Type.Params.List {
		for _, nm := range fl.Names {
			if i >= len(call.Args) {
				return nil
			}
			a := call.Args[i]
			i++
			o := in.info.Defs[nm]
			if o == nil {
				continue
			}
			if id, ok := an.Unparen(a).(*ast.Ident); ok {
				if ao := objOf(in.info, id); ao != nil {
					if v, ok := in.env[ao]; ok {
						sub.env[o] = v
						continue
					}
				}
			}
			if p, ok := in.pathOf(a); ok {
				sub.env[o] = sval{k: svPath, path: p}
				continue
			}
			sub.env[o] = in.evalInt(a)
		}
	}
	return sub
}

// ---- statements ------------------------------------------------------------

func (in *interp) block(stmts []ast.Stmt) bool {
	for _, s := range stmts {
		if in.stmt(s) {
			return true
		}
	}
	return false
}

func (in *interp) bufOf(e ast.Expr) (sval, bool) {
	e = an.Unparen(e)
	switch x := e.(type) {
	case *ast.Ident:
		if o := objOf(in.info, x); o != nil {
			if v, ok := in.env[o]; ok && v.k == svBuf {
				return v, true
			}
		}
	case *ast.SliceExpr:
		b, ok := in.bufOf(x.X)
		if !ok {
			return sval{}, false
		}
		if x.Low == nil {
			return b, true
		}
		lo := in.evalInt(x.Low)
		if lo.k != svLin {
			in.issue("non-linear slice bound %s", in.render(x.Low))
			return sval{}, false
		}
		return sval{k: svBuf, lin: b.lin.Add(lo.lin)}, true
	}
	return sval{}, false
}

func (in *interp) record(w *wr) {
	if in.probe {
		return
	}
	w.loop = in.loop
	w.seq = len(in.out.writes)
	in.out.writes = append(in.out.writes, w)
}

// byteValue classifies the value stored into one byte.
func (in *interp) byteValue(e ast.Expr) (lin *Lin, data string, shift int, mask bool) {
	e = an.Unparen(e)
	// strip byte()/uint8() conversion
	if c, ok := e.(*ast.CallExpr); ok {
		if tv, ok := in.info.Types[c.Fun]; ok && tv.IsType() && len(c.Args) == 1 {
			e = an.Unparen(c.Args[0])
		}
	}
	for {
		be, ok := e.(*ast.BinaryExpr)
		if !ok {
			break
		}
		if be.Op == token.AND {
			if m, ok := an.ConstInt(in.info, be.Y); ok && m == 0xff {
				mask = true
				e = an.Unparen(be.X)
				continue
			}
		}
		if be.Op == token.SHR {
			if s, ok := an.ConstInt(in.info, be.Y); ok {
				shift += int(s)
				e = an.Unparen(be.X)
				continue
			}
		}
		break
	}
	v := in.evalInt(e)
	switch v.k {
	case svLin:
		l := v.lin
		return &l, "", shift, mask
	case svChoice:
		return nil, v.String(), shift, mask
	default:
		if v.path == "" {
			v.path = in.render(e)
		}
		return nil, v.path, shift, mask
	}
}

func (in *interp) stmt(s ast.Stmt) bool {
	switch x := s.(type) {
	case *ast.BlockStmt:
		return in.block(x.List)
	case *ast.DeclStmt:
		if gd, ok := x.Decl.(*ast.GenDecl); ok {
			for _, sp := range gd.Specs {
				vs, ok := sp.(*ast.ValueSpec)
				if !ok {
					continue
				}
				for i, nm := range vs.Names {
					o := in.info.Defs[nm]
					if i < len(vs.Values) {
						in.bind(o, vs.Values[i])
					} else if o != nil {
						if b, ok := o.Type().Underlying().(*types.Basic); ok && b.Info()&types.IsInteger != 0 {
							in.env[o] = sval{k: svLin, lin: linConst(0)}
						}
					}
				}
			}
		}
	case *ast.AssignStmt:
		in.assign(x)
	case *ast.IncDecStmt:
		if id, ok := x.X.(*ast.Ident); ok {
			if o := objOf(in.info, id); o != nil {
				if v, ok := in.env[o]; ok && v.k == svLin {
					d := int64(1)
					if x.Tok == token.DEC {
						d = -1
					}
					in.env[o] = sval{k: svLin, lin: v.lin.AddC(d)}
				}
			}
		}
	case *ast.ExprStmt:
		if call, ok := x.X.(*ast.CallExpr); ok {
			in.callStmt(call)
		}
	case *ast.IfStmt:
		return in.ifStmt(x)
	case *ast.RangeStmt:
		in.rangeStmt(x)
	case *ast.ForStmt:
		in.issue("unsupported for statement at %v", x.Pos())
	case *ast.ReturnStmt:
		in.ret(x)
		return true
	case *ast.SwitchStmt, *ast.TypeSwitchStmt, *ast.SelectStmt, *ast.GoStmt, *ast.DeferStmt:
		in.issue("unsupported statement kind %T", s)
	}
	return false
}

func (in *interp) bind(o types.Object, rhs ast.Expr) {
	if o == nil {
		return
	}
	if b, ok := in.bufOf(rhs); ok {
		in.env[o] = b
		return
	}
	// &local (memoised length)
	t := o.Type()
	if bt, ok := t.Underlying().(*types.Basic); ok && bt.Info()&types.IsInteger != 0 {
		in.env[o] = in.evalInt(rhs)
		return
	}
	if p, ok := in.pathOf(rhs); ok {
		in.env[o] = sval{k: svPath, path: p}
		return
	}
	in.env[o] = sval{k: svData, path: in.render(rhs)}
}

func (in *interp) assign(x *ast.AssignStmt) {
	if len(x.Lhs) != len(x.Rhs) {
		// multi-value call: results are opaque
		for _, l := range x.Lhs {
			if id, ok := l.(*ast.Ident); ok && id.Name != "_" {
				if o := objOf(in.info, id); o != nil {
					in.env[o] = sval{k: svData, path: id.Name}
				}
			}
		}
		return
	}
	for i, l := range x.Lhs {
		rhs := x.Rhs[i]
		l = an.Unparen(l)
		switch lx := l.(type) {
		case *ast.IndexExpr:
			b, ok := in.bufOf(lx.X)
			if !ok {
				continue // store into something else
			}
			idx := in.evalInt(lx.Index)
			if idx.k != svLin {
				in.issue("non-linear buffer index %s", in.render(lx.Index))
				continue
			}
			lin, data, shift, mask := in.byteValue(rhs)
			in.record(&wr{off: b.lin.Add(idx.lin), n: linConst(1), lin: lin, data: data, shift: shift, mask: mask, pos: x.Pos()})
		case *ast.Ident:
			if lx.Name == "_" {
				continue
			}
			o := objOf(in.info, lx)
			if o == nil {
				continue
			}
			switch x.Tok {
			case token.DEFINE, token.ASSIGN:
				in.bind(o, rhs)
			case token.ADD_ASSIGN, token.SUB_ASSIGN:
				cur, ok := in.env[o]
				d := in.evalInt(rhs)
				if ok && cur.k == svLin && d.k == svLin {
					if x.Tok == token.ADD_ASSIGN {
						in.env[o] = sval{k: svLin, lin: cur.lin.Add(d.lin)}
					} else {
						in.env[o] = sval{k: svLin, lin: cur.lin.Sub(d.lin)}
					}
				} else {
					in.env[o] = sval{k: svData, path: in.render(lx) + "±" + in.render(rhs)}
				}
			default:
				in.env[o] = sval{k: svData, path: in.render(lx)}
			}
		case *ast.SelectorExpr:
			// store to a receiver field (wrapper setting codePoint, memoising Len)
			if p, ok := in.pathOf(lx); ok {
				if u, ok := an.Unparen(rhs).(*ast.UnaryExpr); ok && u.Op == token.AND {
					in.fstore["*"+p] = in.evalInt(u.X)
					continue
				}
				if bt, ok := in.info.TypeOf(lx).Underlying().(*types.Basic); ok && bt.Info()&types.IsInteger != 0 {
					in.fstore[p] = in.evalInt(rhs)
				}
			}
		}
	}
}

func (in *interp) callStmt(call *ast.CallExpr) {
	if id, ok := call.Fun.(*ast.Ident); ok {
		if _, isB := in.info.Uses[id].(*types.Builtin); isB && id.Name == "copy" && len(call.Args) == 2 {
			b, ok := in.bufOf(call.Args[0])
			if !ok {
				return
			}
			src := an.Unparen(call.Args[1])
			p, ok := in.pathOf(src)
			if !ok {
				in.issue("copy from unrecognised source %s", in.render(src))
				return
			}
			n := linAtom(atomLen(p))
			// copy(b[lo:hi], src): bounded destination – require hi-lo == len(src) structurally or flag
			if se, ok := an.Unparen(call.Args[0]).(*ast.SliceExpr); ok && se.High != nil {
				hi := in.evalInt(se.High)
				lo := sval{k: svLin, lin: linConst(0)}
				if se.Low != nil {
					lo = in.evalInt(se.Low)
				}
				if hi.k == svLin && lo.k == svLin && !hi.lin.Sub(lo.lin).Eq(n) {
					in.issue("copy destination window %s differs from source length %s", hi.lin.Sub(lo.lin), n)
				}
			}
			in.record(&wr{off: b.lin, n: n, data: p, copy: true, pos: call.Pos()})
			return
		}
	}
	// binary.BigEndian.PutUint16/32(b[o:], v)
	if fn, ok := an.Callee(in.info, call).(*types.Func); ok && fn.Pkg() != nil && fn.Pkg().Path() == "encoding/binary" && len(call.Args) == 2 {
		w := 0
		switch fn.Name() {
		case "PutUint16":
			w = 2
		case "PutUint32":
			w = 4
		case "PutUint64":
			w = 8
		}
		if b, ok := in.bufOf(call.Args[0]); ok && w > 0 {
			lin, data, _, _ := in.byteValue(call.Args[1])
			for k := 0; k < w; k++ {
				in.record(&wr{off: b.lin.AddC(int64(k)), n: linConst(1), lin: lin, data: data, shift: 8 * (w - 1 - k), pos: call.Pos()})
			}
		}
	}
}

func (in *interp) condString(e ast.Expr) string {
	e = an.Unparen(e)
	switch x := e.(type) {
	case *ast.UnaryExpr:
		if x.Op == token.NOT {
			return "!(" + in.condString(x.X) + ")"
		}
	case *ast.BinaryExpr:
		switch x.Op {
		case token.LAND, token.LOR:
			return "(" + in.condString(x.X) + x.Op.String() + in.condString(x.Y) + ")"
		default:
			a, b := in.evalInt(x.X), in.evalInt(x.Y)
			as, bs := in.render(x.X), in.render(x.Y)
			if a.k == svLin {
				as = a.lin.String()
			}
			if b.k == svLin {
				bs = b.lin.String()
			}
			return as + x.Op.String() + bs
		}
	}
	return in.render(e)
}

func terminates(b *ast.BlockStmt) bool {
	if b == nil || len(b.List) == 0 {
		return false
	}
	switch l := b.List[len(b.List)-1].(type) {
	case *ast.ReturnStmt:
		return true
	case *ast.ExprStmt:
		if c, ok := l.X.(*ast.CallExpr); ok {
			if id, ok := c.Fun.(*ast.Ident); ok && id.Name == "panic" {
				return true
			}
		}
	case *ast.IfStmt:
		if l.Else != nil {
			if eb, ok := l.Else.(*ast.BlockStmt); ok {
				return terminates(l.Body) && terminates(eb)
			}
		}
	}
	return false
}

func (in *interp) ifStmt(x *ast.IfStmt) bool {
	if x.Init != nil {
		in.stmt(x.Init)
	}
	cond := in.condString(x.Cond)
	// short-buffer guard: len(b) < L
	if be, ok := an.Unparen(x.Cond).(*ast.BinaryExpr); ok && be.Op == token.LSS && terminates(x.Body) {
		l, r := in.evalInt(be.X), in.evalInt(be.Y)
		if l.k == svLin && r.k == svLin && l.lin.T["len(b)"] == 1 && !in.probe {
			g := guardRec{lhsIsLenBuf: true, rhs: r.lin.Sub(l.lin.Sub(linAtom("len(b)"))), pos: x.Pos(), beforeWrites: len(in.out.writes)}
			if rs, ok := x.Body.List[len(x.Body.List)-1].(*ast.ReturnStmt); ok && len(rs.Results) == 2 {
				g.retN = in.render(rs.Results[0])
				g.retErr = types.ExprString(rs.Results[1])
			}
			in.out.guards = append(in.out.guards, g)
			return false
		}
	}
	// upper-bound refusal: if <lin> > K { return …error }
	if be, ok := an.Unparen(x.Cond).(*ast.BinaryExpr); ok && (be.Op == token.GTR || be.Op == token.GEQ) && terminates(x.Body) && !in.probe {
		l, r := in.evalInt(be.X), in.evalInt(be.Y)
		if l.k == svLin && r.k == svLin && r.lin.IsConst() && !l.lin.IsConst() {
			k := r.lin.C
			if be.Op == token.GEQ {
				k--
			}
			in.out.bounds = append(in.out.bounds, boundRec{lin: l.lin, max: k, pos: x.Pos()})
		}
	}
	if terminates(x.Body) {
		in.cond = append(in.cond, cond)
		saved := in.snapshot()
		in.block(x.Body.List)
		in.restore(saved)
		in.cond = in.cond[:len(in.cond)-1]
		if x.Else != nil {
			in.cond = append(in.cond, "!("+cond+")")
			var t bool
			switch e := x.Else.(type) {
			case *ast.BlockStmt:
				t = in.block(e.List)
			case *ast.IfStmt:
				t = in.ifStmt(e)
			}
			in.cond = in.cond[:len(in.cond)-1]
			return t
		}
		return false
	}
	// non-terminating if: interpret the body in place; constants assigned to locals become choices
	before := in.snapshot()
	in.block(x.Body.List)
	for o, nv := range in.env {
		ov, had := before[o]
		if !had {
			continue
		}
		if ov.k == svLin && nv.k == svLin && !ov.lin.Eq(nv.lin) {
			if ov.lin.IsConst() && nv.lin.IsConst() {
				in.env[o] = sval{k: svChoice, consts: []int64{ov.lin.C, nv.lin.C}, cond: cond}
			} else {
				in.issue("variable assigned under condition %s has two different symbolic values", cond)
			}
		}
	}
	if x.Else != nil {
		in.issue("if/else without returns at %v is not modelled", x.Pos())
	}
	return false
}

func (in *interp) snapshot() map[types.Object]sval {
	m := map[types.Object]sval{}
	for k, v := range in.env {
		m[k] = v
	}
	return m
}
func (in *interp) restore(m map[types.Object]sval) { in.env = m }

func (in *interp) ret(x *ast.ReturnStmt) {
	if in.probe {
		return
	}
	r := retRec{pos: x.Pos(), cond: strings.Join(in.cond, " && "), afterWrites: len(in.out.writes)}
	switch len(x.Results) {
	case 1:
		// int-returning helper, or tail call returning (int, error)
		if call, ok := an.Unparen(x.Results[0]).(*ast.CallExpr); ok {
			if fn, ok := an.Callee(in.info, call).(*types.Func); ok && fn.Pkg() == in.pkg.Types {
				if sig := fn.Type().(*types.Signature); sig.Results().Len() == 2 {
					in.tailCall(call, fn)
					return
				}
			}
		}
		r.n = in.evalInt(x.Results[0])
	case 2:
		r.n = in.evalInt(x.Results[0])
		r.err = types.ExprString(x.Results[1])
	default:
		in.issue("unsupported return shape")
		return
	}
	in.out.rets = append(in.out.rets, r)
}

// tailCall: `return helper(b, …)` – the helper's writes and returns become ours.
func (in *interp) tailCall(call *ast.CallExpr, fn *types.Func) {
	fd := declOf(in.pkg, fn)
	if fd == nil || in.depth > 4 {
		in.issue("cannot inline %s", fn.Name())
		return
	}
	sub := in.subInterp(call, fd)
	if sub == nil {
		in.issue("cannot bind arguments of %s", fn.Name())
		return
	}
	sub.cond = append([]string{}, in.cond...)
	sub.block(fd.Body.List)
}

func (in *interp) rangeStmt(x *ast.RangeStmt) {
	list, ok := in.pathOf(x.X)
	if !ok {
		in.issue("range over unrecognised value %s", in.render(x.X))
		return
	}
	if in.loop != "" {
		in.issue("nested loop over %s inside loop over %s is not modelled", list, in.loop)
		return
	}
	bindVars := func() {
		if k, ok := x.Key.(*ast.Ident); ok && k.Name != "_" {
			if o := in.info.Defs[k]; o != nil {
				in.env[o] = sval{k: svLin, lin: linAtom(atomIdx(list))}
			}
		}
		if v, ok := x.Value.(*ast.Ident); ok && v.Name != "_" {
			if o := in.info.Defs[v]; o != nil {
				// element: integers are data, composite/strings are paths
				if bt, ok := o.Type().Underlying().(*types.Basic); ok && bt.Info()&types.IsInteger != 0 {
					in.env[o] = sval{k: svData, path: list + "[@]"}
				} else {
					in.env[o] = sval{k: svPath, path: list + "[@]"}
				}
			}
		}
	}
	// carried variables: locals defined before the loop and assigned in the body
	carried := map[types.Object]bool{}
	ast.Inspect(x.Body, func(n ast.Node) bool {
		var lhs []ast.Expr
		switch s := n.(type) {
		case *ast.AssignStmt:
			lhs = s.Lhs
		case *ast.IncDecStmt:
			lhs = []ast.Expr{s.X}
		}
		for _, l := range lhs {
			if id, ok := an.Unparen(l).(*ast.Ident); ok {
				if o := in.info.Uses[id]; o != nil {
					if _, pre := in.env[o]; pre {
						carried[o] = true
					}
				}
			}
		}
		return true
	})
	start := in.snapshot()
	// probe pass: per-iteration deltas
	in.env = map[types.Object]sval{}
	for k, v := range start {
		in.env[k] = v
	}
	unk := map[types.Object]string{}
	for o := range carried {
		v := start[o]
		a := "⟂" + o.Name()
		unk[o] = a
		switch v.k {
		case svLin:
			in.env[o] = sval{k: svLin, lin: linAtom(a)}
		case svBuf:
			in.env[o] = sval{k: svBuf, lin: linAtom(a)}
		default:
			in.issue("loop-carried variable %s has an unsupported kind", o.Name())
			in.env = start
			return
		}
	}
	savedProbe := in.probe
	in.probe = true
	in.loop = list
	bindVars()
	in.block(x.Body.List)
	in.probe = savedProbe
	deltas := map[types.Object]Lin{}
	bad := false
	for o, a := range unk {
		end := in.env[o]
		d := end.lin.Sub(linAtom(a))
		for _, at := range d.Atoms() {
			if strings.HasPrefix(at, "⟂") || strings.HasPrefix(at, "idx(") || strings.HasPrefix(at, "pre·") {
				bad = true
			}
		}
		if end.k != svLin && end.k != svBuf {
			bad = true
		}
		deltas[o] = d
	}
	if bad {
		in.loop = ""
		in.env = start
		in.issue("loop over %s: carried variables are not advanced by a per-element linear amount", list)
		return
	}
	// real pass
	in.env = map[types.Object]sval{}
	for k, v := range start {
		in.env[k] = v
	}
	iterVal := func(base Lin, d Lin) Lin {
		r := base.Add(linAtom(atomIdx(list)).Scale(d.C))
		for a, k := range d.T {
			r = r.Add(linAtom(atomPre(a)).Scale(k))
		}
		return r
	}
	endVal := func(base Lin, d Lin) Lin {
		r := base.Add(linAtom(atomLen(list)).Scale(d.C))
		for a, k := range d.T {
			r = r.Add(linAtom(atomSum(a)).Scale(k))
		}
		return r
	}
	for o, d := range deltas {
		v := start[o]
		in.env[o] = sval{k: v.k, lin: iterVal(v.lin, d)}
	}
	bindVars()
	in.block(x.Body.List)
	in.loop = ""
	// after the loop
	after := map[types.Object]sval{}
	for k, v := range start {
		after[k] = v
	}
	for o, d := range deltas {
		v := start[o]
		after[o] = sval{k: v.k, lin: endVal(v.lin, d)}
	}
	in.env = after
}

func structOf(t types.Type) (*types.Struct, string) {
	name := ""
	for i := 0; i < 8; i++ {
		switch x := t.(type) {
		case *types.Pointer:
			t = x.Elem()
		case *types.Alias:
			t = types.Unalias(x)
		case *types.Named:
			name = x.Obj().Name()
			t = x.Underlying()
		case *types.Struct:
			return x, name
		default:
			return nil, ""
		}
	}
	return nil, ""
}

// runEncoder interprets method `name` of type tn with receiver path "e" and buffer param bound.
func runEncoder(pkg *packages.Package, fd *ast.FuncDecl) *encShape {
	in := &interp{pkg: pkg, info: pkg.TypesInfo, env: map[types.Object]sval{}, fstore: map[string]sval{}}
	in.out = &encShape{fstore: in.fstore}
	if fd.Recv != nil && len(fd.Recv.List) > 0 && len(fd.Recv.List[0].Names) > 0 {
		if o := pkg.TypesInfo.Defs[fd.Recv.List[0].Names[0]]; o != nil {
			in.env[o] = sval{k: svPath, path: "e"}
		}
	}
	for _, fl := range fd.Type.Params.List {
		for _, nm := range fl.Names {
			o := pkg.TypesInfo.Defs[nm]
			if o == nil {
				continue
			}
			if sl, ok := o.Type().Underlying().(*types.Slice); ok {
				if b, ok := sl.Elem().Underlying().(*types.Basic); ok && b.Kind() == types.Byte {
					in.env[o] = sval{k: svBuf, lin: linConst(0)}
				}
			}
		}
	}
	in.block(fd.Body.List)
	return in.out
}
