package props

import (
	"fmt"
	"go/ast"
	"go/token"
	"go/types"

	"verif/internal/an"
	"verif/internal/load"
)

func init() { register(&Prop{ID: "C04", Run: runC04}) }

// bvRun interprets a straight-line integer function on abstract bit vectors.
// Returns the abstract result of the (single reachable) return, or the three-valued result for bool functions.
func bvRun(c *Ctx, fd *ast.FuncDecl, args []BV, opaque func(e ast.Expr, w int) (BV, bool)) (BV, tri, string) {
	info := c.P.TLS.TypesInfo
	env := &bvEnv{info: info, vars: map[types.Object]BV{}, opaque: opaque}
	i := 0
	for _, fl := range fd.Type.Params.List {
		for _, nm := range fl.Names {
			if i < len(args) {
				if o := info.Defs[nm]; o != nil {
					env.vars[o] = args[i]
				}
			}
			i++
		}
	}
	var ret BV
	rt := triUnknown
	problem := ""
	var run func(stmts []ast.Stmt) bool
	run = func(stmts []ast.Stmt) bool {
		for _, s := range stmts {
			switch x := s.(type) {
			case *ast.AssignStmt:
				if len(x.Lhs) != len(x.Rhs) {
					// multi-value call: results unknown
					for _, l := range x.Lhs {
						if id, ok := l.(*ast.Ident); ok && id.Name != "_" {
							if o := objOf(info, id); o != nil {
								env.vars[o] = bvUnknown(widthOf(o.Type()))
							}
						}
					}
					continue
				}
				for k, l := range x.Lhs {
					id, ok := l.(*ast.Ident)
					if !ok {
						continue
					}
					o := objOf(info, id)
					if o == nil {
						continue
					}
					w := widthOf(o.Type())
					rhs := env.eval(x.Rhs[k])
					cur := env.vars[o]
					switch x.Tok {
					case token.ASSIGN, token.DEFINE:
						env.vars[o] = rhs.trunc(w)
					case token.OR_ASSIGN:
						env.vars[o] = cur.bitwise(rhs, bitOr).trunc(w)
					case token.AND_ASSIGN:
						env.vars[o] = cur.bitwise(rhs, bitAnd).trunc(w)
					case token.XOR_ASSIGN:
						env.vars[o] = cur.bitwise(rhs, bitXor).trunc(w)
					case token.SHL_ASSIGN:
						if n, ok := rhs.constVal(); ok {
							env.vars[o] = cur.shl(int(n)).trunc(w)
						}
					default:
						env.vars[o] = bvUnknown(w)
					}
				}
			case *ast.IfStmt:
				switch env.cond(x.Cond) {
				case triTrue:
					if run(x.Body.List) {
						return true
					}
				case triFalse:
					if x.Else != nil {
						if b, ok := x.Else.(*ast.BlockStmt); ok && run(b.List) {
							return true
						}
					}
				default:
					// error-handling branch `if err != nil { return CONST }`: explore separately is not needed
					// for the GREASE helpers; record that a branch was not followed.
					if isErrCheck(info, x.Cond) {
						continue
					}
					problem = "undecidable branch " + an.Str(x.Cond)
				}
			case *ast.ReturnStmt:
				if len(x.Results) == 1 {
					if b, ok := info.TypeOf(x.Results[0]).Underlying().(*types.Basic); ok && b.Kind() == types.Bool {
						rt = env.cond(x.Results[0])
					} else {
						ret = env.eval(x.Results[0])
					}
				}
				return true
			case *ast.DeclStmt, *ast.ExprStmt:
			default:
				problem = fmt.Sprintf("unsupported statement %T", s)
			}
		}
		return false
	}
	run(fd.Body.List)
	if env.fail != "" && problem == "" {
		problem = env.fail
	}
	return ret, rt, problem
}

func isErrCheck(info *types.Info, cond ast.Expr) bool {
	be, ok := an.Unparen(cond).(*ast.BinaryExpr)
	if !ok || be.Op != token.NEQ || !an.IsNilIdent(info, be.Y) {
		return false
	}
	t := info.TypeOf(be.X)
	return t != nil && t.String() == "error"
}

// greasePattern checks that every 16-bit unit of v has low nibble 0xA in both bytes and identical bytes.
func greasePattern16(v BV) string {
	want := []byte{'0', '1', '0', '1'} // bit0..bit3 of 0xA
	for _, base := range []int{0, 8} {
		for k := 0; k < 4; k++ {
			if v.Bits[base+k].kind != want[k] {
				return fmt.Sprintf("bit %d is %s, a GREASE value needs the constant %c there (low nibble 0xA)", base+k, v.Bits[base+k], want[k])
			}
		}
	}
	for k := 4; k < 8; k++ {
		if !v.Bits[k].same(v.Bits[k+8]) {
			return fmt.Sprintf("bit %d (%s) and bit %d (%s) can differ: both bytes of a GREASE value must be equal", k, v.Bits[k], k+8, v.Bits[k+8])
		}
	}
	for k := 16; k < 64; k++ {
		if v.Bits[k].kind != '0' {
			return "value exceeds 16 bits"
		}
	}
	return ""
}

func runC04(c *Ctx) {
	r := c.R
	tls := c.P.TLS
	info := tls.TypesInfo
	r.Technique = "abstract interpretation with a known-bits/bit-provenance domain (all seeds at once) of the GREASE helpers; affine+interval reasoning for the QUIC GREASE id; CFG/def-use rules on ApplyPreset"
	r.Explanation = "C04.1 GetBoringGREASEValue is interpreted on a fully symbolic seed: every result has low nibble 0xA in both bytes and identical bytes, and isGREASEUint16 (interpreted on that result) is true; isGREASEUint16 rejects each single-bit deviation. " +
		"C04.2 GetGREASEID returns 27+31·r with r below the multiplier bound (so < 2^62) and IsGREASEID accepts exactly that affine form. " +
		"C04.3 GetGREASEVersion's result has every byte's low nibble equal to 0xA for all random inputs. " +
		"C04.4 in ApplyPreset the two GREASE extensions are de-duplicated (xor 0x1010 keeps the GREASE form and changes the value — decided on bit vectors), key_share and supported_groups read the same seed index, cipher/version/extension values read their own indices, and the seed is refilled from config.rand() on every call."
	r.NotDecided = "statistical variation of GREASE values across connections"

	seedIn := func(e ast.Expr, w int) (BV, bool) {
		if _, ok := e.(*ast.IndexExpr); ok {
			return bvInput("seed", 16), true
		}
		return BV{}, false
	}
	// ---- C04.1
	gv := load.FuncDecl(tls, "", "GetBoringGREASEValue")
	ig := load.FuncDecl(tls, "", "isGREASEUint16")
	if gv == nil || ig == nil {
		r.Unknown("C04.1", "anchors", "", "GetBoringGREASEValue / isGREASEUint16 not found")
	} else {
		val, _, prob := bvRun(c, gv, nil, seedIn)
		if prob != "" {
			r.Unknown("C04.1", "GetBoringGREASEValue", c.Pos(gv), "%s", prob)
		} else {
			why := greasePattern16(val)
			r.Check(why == "", "C04.1", "GetBoringGREASEValue:form", c.Pos(gv), "for every seed the result is "+val.String()+" (0x?A?A with equal bytes)", "result "+val.String()+": "+why)
			_, t, p2 := bvRun(c, ig, []BV{val}, nil)
			if p2 != "" {
				r.Unknown("C04.1", "isGREASEUint16(GetBoringGREASEValue)", c.Pos(ig), "%s", p2)
			} else {
				r.Check(t == triTrue, "C04.1", "isGREASEUint16(GetBoringGREASEValue)", c.Pos(ig), "the library's own GREASE predicate holds for every generated value", "isGREASEUint16 is not provably true on the generator's output "+val.String())
			}
		}
		// the predicate rejects every single-bit deviation from the form
		base := bvConst(0, 16)
		for k := 0; k < 4; k++ {
			base.Bits[4+k] = abit{kind: 'i', src: "h", idx: k}
			base.Bits[12+k] = abit{kind: 'i', src: "h", idx: k}
		}
		for k, ch := range []byte{'0', '1', '0', '1'} {
			base.Bits[k] = abit{kind: ch}
			base.Bits[8+k] = abit{kind: ch}
		}
		_, t0, _ := bvRun(c, ig, []BV{base}, nil)
		r.Check(t0 == triTrue, "C04.1", "isGREASEUint16:accepts-form", c.Pos(ig), "accepts every 0x?A?A value with equal bytes", "isGREASEUint16 does not accept the general GREASE form")
		rejects := 0
		for _, k := range []int{0, 1, 2, 3, 8, 9, 10, 11} {
			m := base
			if m.Bits[k].kind == '0' {
				m.Bits[k] = abit{kind: '1'}
			} else {
				m.Bits[k] = abit{kind: '0'}
			}
			_, t, _ := bvRun(c, ig, []BV{m}, nil)
			if t == triFalse {
				rejects++
			} else {
				r.Bad("C04.1", fmt.Sprintf("isGREASEUint16:rejects-bit%d", k), c.Pos(ig), "a value whose bit %d deviates from the 0x?A?A form is not rejected", k)
			}
		}
		// equal bytes whose low nibble is not 0xA (deviation applied to both bytes at once)
		for k := 0; k < 4; k++ {
			m := base
			for _, j := range []int{k, k + 8} {
				if m.Bits[j].kind == '0' {
					m.Bits[j] = abit{kind: '1'}
				} else {
					m.Bits[j] = abit{kind: '0'}
				}
			}
			_, t, _ := bvRun(c, ig, []BV{m}, nil)
			if t != triFalse {
				rejects = -100
				r.Bad("C04.1", fmt.Sprintf("isGREASEUint16:rejects-nibble-bit%d", k), c.Pos(ig), "a value with equal bytes whose low-nibble bit %d deviates from 0xA is not rejected", k)
			}
		}
		// different high nibbles must be rejected too
		m := base
		m.Bits[12] = abit{kind: 'i', src: "h", idx: 0, neg: true}
		_, t, _ := bvRun(c, ig, []BV{m}, nil)
		r.Check(t == triFalse && rejects == 8, "C04.1", "isGREASEUint16:rejects-deviations", c.Pos(ig), "rejects each single-bit deviation (8 nibble bits + unequal bytes)", "isGREASEUint16 accepts values outside the reserved 0x?A?A space")
	}
	r.Floor("C04.1", 4)

	// ---- C04.3
	c04Version(c)
	// ---- C04.2
	c04QuicID(c)
	// ---- C04.4
	c04ApplyPreset(c, gv, seedIn)
	_ = info
}

func c04Version(c *Ctx) {
	r := c.R
	tls := c.P.TLS
	info := tls.TypesInfo
	fd := load.FuncDecl(tls, "VersionInformation", "GetGREASEVersion")
	if fd == nil {
		r.Unknown("C04.3", "GetGREASEVersion", "", "not found")
		return
	}
	op := func(e ast.Expr, w int) (BV, bool) {
		if call, ok := e.(*ast.CallExpr); ok {
			if se, ok := call.Fun.(*ast.SelectorExpr); ok && (se.Sel.Name == "Uint64" || se.Sel.Name == "Int64" || se.Sel.Name == "Uint32") {
				return bvInput("rand", 64), true
			}
		}
		return BV{}, false
	}
	n := 0
	for _, ret := range returnsOf(fd) {
		if len(ret.Results) != 1 {
			continue
		}
		n++
		env := &bvEnv{info: info, vars: map[types.Object]BV{}, opaque: op}
		v := env.eval(ret.Results[0])
		cons := "GetGREASEVersion:return@" + shortExpr(ret.Results[0])
		if env.fail != "" {
			r.Unknown("C04.3", cons, c.Pos(ret), "%s", env.fail)
			continue
		}
		why := ""
		for b := 0; b < 4 && why == ""; b++ {
			for k, ch := range []byte{'0', '1', '0', '1'} {
				if v.Bits[8*b+k].kind != ch {
					why = fmt.Sprintf("bit %d of the result is %s; every GREASE version matches 0x?a?a?a?a, so the low nibble of each byte must be the constant 0xA", 8*b+k, v.Bits[8*b+k])
					break
				}
			}
		}
		r.Check(why == "", "C04.3", cons, c.Pos(ret), "result "+v.String()+" matches 0x?a?a?a?a for every random input", why)
	}
	if n == 0 {
		r.Unknown("C04.3", "GetGREASEVersion", c.Pos(fd), "no return found")
	}
	r.Floor("C04.3", 2)
}

func returnsOf(fd *ast.FuncDecl) []*ast.ReturnStmt {
	var out []*ast.ReturnStmt
	an.Inner(fd.Body, func(n ast.Node) bool {
		if r, ok := n.(*ast.ReturnStmt); ok {
			out = append(out, r)
		}
		return true
	})
	return out
}

// c04QuicID: GetGREASEID = 27 + 31·r, r in [0, GREASE_MAX_MULTIPLIER) ; IsGREASEID(id) = id>=27 && (id-27)%31==0.
func c04QuicID(c *Ctx) {
	r := c.R
	tls := c.P.TLS
	info := tls.TypesInfo
	gid := load.FuncDecl(tls, "GREASETransportParameter", "GetGREASEID")
	isid := load.FuncDecl(tls, "GREASETransportParameter", "IsGREASEID")
	idm := load.FuncDecl(tls, "GREASETransportParameter", "ID")
	if gid == nil || isid == nil || idm == nil {
		r.Unknown("C04.2", "anchors", "", "GREASETransportParameter methods not found")
		return
	}
	// affine evaluation of each return of GetGREASEID over the atom R (the random multiplier)
	var bound int64 = -1
	ast.Inspect(gid.Body, func(n ast.Node) bool {
		call, ok := n.(*ast.CallExpr)
		if !ok {
			return true
		}
		if f, ok := an.Callee(info, call).(*types.Func); ok && f.Pkg() != nil && f.Pkg().Path() == "math/big" && f.Name() == "NewInt" && len(call.Args) == 1 {
			if v, ok := an.ConstInt(info, call.Args[0]); ok {
				bound = v
			}
		}
		return true
	})
	var affine func(e ast.Expr) (Lin, bool)
	affine = func(e ast.Expr) (Lin, bool) {
		e = an.Unparen(e)
		if v, ok := an.ConstInt(info, e); ok {
			return linConst(v), true
		}
		switch x := e.(type) {
		case *ast.BinaryExpr:
			a, ok1 := affine(x.X)
			b, ok2 := affine(x.Y)
			if !ok1 || !ok2 {
				return Lin{}, false
			}
			switch x.Op {
			case token.ADD:
				return a.Add(b), true
			case token.SUB:
				return a.Sub(b), true
			case token.MUL:
				if a.IsConst() {
					return b.Scale(a.C), true
				}
				if b.IsConst() {
					return a.Scale(b.C), true
				}
			}
		case *ast.CallExpr:
			if se, ok := x.Fun.(*ast.SelectorExpr); ok && se.Sel.Name == "Uint64" {
				return linAtom("R"), true
			}
			if tv, ok := info.Types[x.Fun]; ok && tv.IsType() && len(x.Args) == 1 {
				return affine(x.Args[0])
			}
		}
		return Lin{}, false
	}
	for _, ret := range returnsOf(gid) {
		if len(ret.Results) != 1 {
			continue
		}
		l, ok := affine(ret.Results[0])
		cons := "GetGREASEID:return@" + shortExpr(ret.Results[0])
		if !ok {
			r.Unknown("C04.2", cons, c.Pos(ret), "result is not an affine form of the random multiplier")
			continue
		}
		k := l.T["R"]
		okForm := (l.C-27)%31 == 0 && l.C >= 27 && k%31 == 0 && k >= 0
		r.Check(okForm, "C04.2", cons, c.Pos(ret), fmt.Sprintf("result = %s ≡ 27 (mod 31), ≥ 27", l), fmt.Sprintf("result = %s is not of the form 31·N+27", l))
		if k > 0 {
			if bound <= 0 {
				r.Unknown("C04.2", "GetGREASEID:bound", c.Pos(ret), "bound of the random multiplier not found")
			} else {
				// max = C + k*(bound-1) must be < 2^62 ; use division to avoid overflow
				lim := int64(1)<<62 - 1
				okB := bound-1 <= (lim-l.C)/k
				r.Check(okB, "C04.2", "GetGREASEID:below-2^62", c.Pos(ret), fmt.Sprintf("R < %d so the id stays below 2^62", bound), fmt.Sprintf("with R up to %d the id %s can exceed 2^62-1 (not encodable as a QUIC varint)", bound-1, l))
			}
		}
	}
	// IsGREASEID shape: id >= 27 && (id-27)%31 == 0
	var lower, modOK bool
	for _, ret := range returnsOf(isid) {
		for _, atom := range condAtoms(ret.Results[0]) {
			be, ok := an.Unparen(atom).(*ast.BinaryExpr)
			if !ok {
				continue
			}
			if be.Op == token.GEQ {
				if v, ok := an.ConstInt(info, be.Y); ok && v == 27 {
					lower = true
				}
			}
			if be.Op == token.EQL {
				if z, ok := an.ConstInt(info, be.Y); ok && z == 0 {
					if m, ok := an.Unparen(be.X).(*ast.BinaryExpr); ok && m.Op == token.REM {
						if d, ok := an.ConstInt(info, m.Y); ok && d == 31 {
							if s, ok := an.Unparen(m.X).(*ast.BinaryExpr); ok && s.Op == token.SUB {
								if k, ok := an.ConstInt(info, s.Y); ok && k == 27 {
									modOK = true
								}
							}
						}
					}
				}
			}
		}
	}
	r.Check(lower && modOK, "C04.2", "IsGREASEID:form", c.Pos(isid), "accepts exactly id ≥ 27 with (id-27) mod 31 = 0", "IsGREASEID no longer tests id ≥ 27 && (id-27)%31 == 0")
	// ID(): an override that is not a GREASE id is replaced by a generated one
	fn := an.NewFn(tls, idm)
	pass, _, _ := condEdges(fn, func(cond ast.Expr) (bool, bool) {
		x, neg := negated(cond)
		if call, ok := x.(*ast.CallExpr); ok && an.IsCallTo(info, call, Mod, "GREASETransportParameter", "IsGREASEID") {
			return true, !neg
		}
		return false, false
	})
	okID := len(pass) > 0
	for _, ret := range fn.Returns() {
		// a return is fine if reached through the pass edge or after an assignment from GetGREASEID
		gen := fn.Find(func(n ast.Node) bool {
			as, ok := n.(*ast.AssignStmt)
			return ok && len(as.Rhs) == 1 && an.Contains(as.Rhs[0], an.CallTo(info, Mod, "GREASETransportParameter", "GetGREASEID"))
		})
		if !fn.MustPass(ret, gen, pass) {
			okID = false
		}
	}
	r.Check(okID, "C04.2", "GREASETransportParameter.ID", c.Pos(idm), "returns the override only if it is a GREASE id, else a generated one", "ID() can return an id that is neither validated by IsGREASEID nor produced by GetGREASEID")
	r.Floor("C04.2", 4)
}

func c04ApplyPreset(c *Ctx, gv *ast.FuncDecl, seedIn func(ast.Expr, int) (BV, bool)) {
	r := c.R
	info := c.Info()
	fn := c.Fn("C04.4", "UConn", "ApplyPreset")
	if fn == nil || gv == nil {
		return
	}
	isGV := an.CallTo(info, Mod, "", "GetBoringGREASEValue")
	idxName := func(call *ast.CallExpr) string {
		if len(call.Args) != 2 {
			return ""
		}
		if id, ok := an.Unparen(call.Args[1]).(*ast.Ident); ok {
			return id.Name
		}
		return ""
	}
	// (a) de-duplication of the two extension values
	dedup := false
	var xorConst int64
	for _, b := range fn.G.Blocks {
		if !b.Live || len(b.Nodes) == 0 {
			continue
		}
		t, _, ok := an.CondEdges(b)
		if !ok {
			continue
		}
		be, ok := an.Unparen(b.Nodes[len(b.Nodes)-1].(ast.Expr)).(*ast.BinaryExpr)
		if !ok || be.Op != token.EQL {
			continue
		}
		l, lok := an.Unparen(inlineLocal(fn, be.X)).(*ast.CallExpr)
		rr, rok := an.Unparen(inlineLocal(fn, be.Y)).(*ast.CallExpr)
		if !lok || !rok || !isGV(l) || !isGV(rr) {
			continue
		}
		if idxName(l) == idxName(rr) || idxName(l) == "" {
			continue
		}
		// the true edge must xor one of the two seeds with a constant
		tb := b.Succs[t.K]
		for _, n := range tb.Nodes {
			as, ok := n.(*ast.AssignStmt)
			if !ok || as.Tok != token.XOR_ASSIGN || len(as.Rhs) != 1 {
				continue
			}
			ix, ok := an.Unparen(as.Lhs[0]).(*ast.IndexExpr)
			if !ok || !an.FieldSel(info, an.Unparen(ix.X), "UConn", "greaseSeed") {
				continue
			}
			if id, ok := an.Unparen(ix.Index).(*ast.Ident); ok && (id.Name == idxName(l) || id.Name == idxName(rr)) {
				if v, ok := an.ConstInt(info, as.Rhs[0]); ok {
					dedup = true
					xorConst = v
				}
			}
		}
	}
	if !dedup {
		r.Bad("C04.4", "ApplyPreset:dedup-extension-grease", c.Pos(fn.Decl), "no step makes the two GREASE extension code points differ when their seeds collide (duplicate extension types are invalid)")
	} else {
		// decide on bit vectors: value(seed ^ k) is GREASE and differs from value(seed)
		orig, _, _ := bvRun(c, gv, nil, seedIn)
		mod, _, _ := bvRun(c, gv, nil, func(e ast.Expr, w int) (BV, bool) {
			if _, ok := e.(*ast.IndexExpr); ok {
				return bvInput("seed", 16).bitwise(bvConst(uint64(xorConst), 16), bitXor), true
			}
			return BV{}, false
		})
		why := greasePattern16(mod)
		diff := mod.eq(orig) == triFalse
		r.Check(why == "" && diff, "C04.4", "ApplyPreset:dedup-extension-grease", c.Pos(fn.Decl),
			fmt.Sprintf("seed ^ 0x%x yields %s: still GREASE and never equal to the other value", xorConst, mod),
			fmt.Sprintf("xor with 0x%x does not provably give a different GREASE value (%s; differs=%v)", xorConst, why, diff))
	}
	// (b) which seed index each GREASE consumer reads
	wantIdx := map[string]string{}
	for _, h := range fn.FindNodes(func(n ast.Node) bool {
		as, ok := n.(*ast.AssignStmt)
		return ok && len(as.Lhs) == 1 && len(as.Rhs) == 1 && an.Contains(as.Rhs[0], isGV)
	}) {
		as := h.N.(*ast.AssignStmt)
		var call *ast.CallExpr
		ast.Inspect(as.Rhs[0], func(n ast.Node) bool {
			if cl, ok := n.(*ast.CallExpr); ok && isGV(cl) {
				call = cl
			}
			return true
		})
		lhs := as.Lhs[0]
		key := ""
		switch {
		case an.MentionsField(info, lhs, "PubClientHelloMsg", "CipherSuites"):
			key = "cipher"
		case an.MentionsField(info, lhs, "SupportedCurvesExtension", "Curves"):
			key = "supported_groups"
		case an.MentionsField(info, lhs, "KeyShare", "Group"):
			key = "key_share"
		case an.MentionsField(info, lhs, "SupportedVersionsExtension", "Versions"):
			key = "version"
		case an.MentionsField(info, lhs, "UtlsGREASEExtension", "Value"):
			key = "extension:" + idxName(call)
		}
		if key != "" {
			wantIdx[key] = idxName(call)
		}
		// the seed argument is the per-connection seed
		if len(call.Args) == 2 && !an.FieldSel(info, an.Unparen(call.Args[0]), "UConn", "greaseSeed") {
			r.Bad("C04.4", "ApplyPreset:seed-source:"+key, c.Pos(call), "GREASE value is not derived from the per-connection greaseSeed")
		}
	}
	r.Check(wantIdx["key_share"] != "" && wantIdx["key_share"] == wantIdx["supported_groups"], "C04.4", "ApplyPreset:group-grease-shared", c.Pos(fn.Decl),
		"key_share and supported_groups GREASE read the same seed index ("+wantIdx["key_share"]+")",
		fmt.Sprintf("key_share GREASE group reads seed index %q but supported_groups reads %q: the GREASE key share would not be listed in supported_groups", wantIdx["key_share"], wantIdx["supported_groups"]))
	distinct := map[string]string{}
	okDistinct := true
	for _, k := range []string{"cipher", "supported_groups", "version"} {
		ix := wantIdx[k]
		if ix == "" {
			okDistinct = false
			continue
		}
		if prev, dup := distinct[ix]; dup {
			okDistinct = false
			r.Bad("C04.4", "ApplyPreset:index-shared:"+k, c.Pos(fn.Decl), "%s and %s GREASE read the same seed index %s", prev, k, ix)
		}
		distinct[ix] = k
	}
	n := 0
	for k := range wantIdx {
		if len(k) > 10 && k[:10] == "extension:" {
			n++
		}
	}
	r.Check(okDistinct && n == 2, "C04.4", "ApplyPreset:grease-indices", c.Pos(fn.Decl), fmt.Sprintf("cipher/group/version use their own seed indices and the two extensions use two indices (%v)", wantIdx), fmt.Sprintf("GREASE consumers do not each have their own seed index: %v", wantIdx))
	// (c) the seed is refilled from config.rand() on every ApplyPreset, before any use
	randCall := func(n ast.Node) bool { return an.IsCallTo(info, n, Mod, "Config", "rand") }
	fill := fn.Find(func(n ast.Node) bool {
		call, ok := n.(*ast.CallExpr)
		if !ok {
			return false
		}
		f, _ := an.Callee(info, call).(*types.Func)
		return f != nil && f.Pkg() != nil && f.Pkg().Path() == "io" && f.Name() == "ReadFull" && len(call.Args) == 2 && an.Contains(call.Args[0], randCall) && !an.MentionsField(info, call.Args[1], "PubClientHelloMsg", "Random")
	})
	store := fn.Find(an.AssignsTo(func(e ast.Expr) bool {
		ix, ok := an.Unparen(e).(*ast.IndexExpr)
		return ok && an.FieldSel(info, an.Unparen(ix.X), "UConn", "greaseSeed")
	}))
	uses := fn.Find(isGV)
	okFresh := len(fill) > 0 && len(store) > 0
	// the store happens in a loop over the (fixed-size, non-empty) seed array: the loop header must be passed
	var loopHeads []an.Point
	ast.Inspect(fn.Body, func(n ast.Node) bool {
		rs, ok := n.(*ast.RangeStmt)
		if !ok {
			return true
		}
		inside := false
		for _, sp := range store {
			if sn := sp.Node(); sn != nil && sn.Pos() >= rs.Body.Pos() && sn.End() <= rs.Body.End() {
				inside = true
			}
		}
		if inside {
			if _, isArr := info.TypeOf(rs.X).Underlying().(*types.Array); isArr {
				loopHeads = append(loopHeads, fn.Find(func(m ast.Node) bool { return m == rs.X })...)
			}
		}
		return true
	})
	via := store
	if len(loopHeads) > 0 {
		via = loopHeads
	}
	for _, u := range uses {
		if !fn.MustPass(u, fill, nil) || !fn.MustPass(u, via, nil) {
			okFresh = false
		}
	}
	for _, h := range via {
		if !fn.MustPass(h, fill, nil) {
			okFresh = false
		}
	}
	r.Check(okFresh, "C04.4", "ApplyPreset:seed-refreshed", c.Pos(fn.Decl), "greaseSeed is refilled from config.rand() before every use in ApplyPreset", "a GREASE value can be derived without first refilling greaseSeed from config.rand(): values would repeat across connections")
	r.Floor("C04.4", 4)
}
