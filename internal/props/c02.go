package props

import (
	"go/ast"
	"go/token"
	"go/types"
	"strings"

	"verif/internal/an"
	"verif/internal/load"
)

func init() { register(&Prop{ID: "C02", Run: runC02}) }

// errors on the build path that may be discarded, one reason each (callee -> reason)
var c02AcceptDropped = map[string]string{
	"GREASEEncryptedClientHelloExtension.Len->init": "Len cannot report an error; init's only failure source is crypto/rand, which cannot fail in the pinned toolchain, and init is idempotent (sync.Once)",
	"prng.Read->ReadFull":                           "ShakeHash.Read never returns an error",
	"prng.Uint64->Read":                             "prng.Read always returns len(b), nil",
}

func runC02(c *Ctx) {
	r := c.R
	tls := c.P.TLS
	info := tls.TypesInfo
	r.Technique = "constant evaluation of all parrot tables; encoder layout derivation (E2) for every extension type; error-discipline rule over the call graph of the build path; CFG dominance on MarshalClientHelloNoECH; guarded-narrowing rule"
	r.Explanation = "C02.1 every parrot table: no extension type (wire id) twice, at most two GREASE and one padding extension, pre_shared_key last, literal lists within their wire limits, key-share groups listed in supported_groups. C02.2 every extension encoder's length prefixes match its body (all E2 obligations, for all field values). C02.3 in MarshalClientHelloNoECH the produced byte count is compared with the declared handshake length before Raw is stored, the extensions are emitted in slice order exactly once, and the extensions length written is the sum used for the declared length. C02.4 no error is dropped on the build path (functions reachable from buildHandshakeState in the uTLS sources), so an unencodable spec surfaces as an error. C02.5 no unsigned narrowing of a possibly negative length difference. C02.6 SNI length and bytes derive from the same normalised host name."
	r.NotDecided = "RFC grammar of extension bodies beyond their length structure; arbitrary user GenericExtension data"

	exts := tlsExtensions(c)
	ids := map[string][]int64{}
	psk := map[string]bool{}
	var pskIface *types.Interface
	if tn, ok := tls.Types.Scope().Lookup("PreSharedKeyExtension").(*types.TypeName); ok {
		pskIface, _ = tn.Type().Underlying().(*types.Interface)
	}
	// ---- C02.2
	for _, e := range exts {
		res := checkEncoder(c, "C02.2", e)
		ids[e.Name] = res.idConst
		if pskIface != nil && (types.Implements(types.NewPointer(e.Named), pskIface)) && !strings.HasPrefix(e.Name, "Unimplemented") {
			psk[e.Name] = true
		}
	}
	r.Floor("C02.2", 190)
	if len(psk) < 2 {
		r.Unknown("C02.1", "psk-types", "", "found %d pre_shared_key extension types, 2 confirmed by hand", len(psk))
	}
	// ---- C02.1
	ps := loadParrots(c)
	r.Count("parrot_tables", len(ps))
	parrotShapeRule(c, "C02.1", ps, ids, psk)
	r.Floor("C02.1", 34)
	parrotKeyShareRule(c, "C02.1-keyshare", "C02.1-retain", ps, false)

	// ---- C02.3
	c02Marshal(c)

	// ---- C02.4 error discipline on the build path
	root := load.FuncDecl(tls, "UConn", "buildHandshakeState")
	if root == nil {
		r.Unknown("C02.4", "buildHandshakeState", "", "not found")
	} else {
		reach := moduleReach(c, []*ast.FuncDecl{root})
		nFuncs, nSites := 0, 0
		for fd := range reach {
			file := c.P.Fset.Position(fd.Pos()).Filename
			if !strings.Contains(file, "/u_") {
				continue // upstream crypto/tls code is a trusted base for this rule
			}
			nFuncs++
			for _, d := range droppedErrors(c, fd) {
				who := load.RecvName(fd) + "." + fd.Name.Name
				key := who + "->" + d.fn.Name()
				// hash.Hash writes never fail
				if d.fn.Name() == "Write" {
					if se, ok := d.call.Fun.(*ast.SelectorExpr); ok {
						if tn := an.TypeName(info.TypeOf(se.X)); tn == "Hash" || tn == "ShakeHash" {
							continue
						}
					}
				}
				nSites++
				if why, ok := c02AcceptDropped[key]; ok {
					r.Ok("C02.4", key, c.Pos(d.call), "accepted: %s", why)
					continue
				}
				r.Bad("C02.4", key, c.Pos(d.call), "%s drops the error of %s (%s): a spec that cannot be encoded is emitted malformed instead of failing BuildHandshakeState/Handshake", who, d.fn.Name(), d.why)
			}
		}
		r.Count("build_path_functions", nFuncs)
		r.Ok("C02.4", "build-path", c.Pos(root), "%d uTLS functions reachable from buildHandshakeState scanned", nFuncs)
		if nFuncs < 60 {
			r.Unknown("C02.4", "build-path-size", c.Pos(root), "only %d functions reachable; about 100 confirmed by hand", nFuncs)
		}
	}
	r.Floor("C02.4", 3)

	// ---- C02.5
	var ufuncs []*ast.FuncDecl
	for _, fd := range load.AllFuncDecls(tls) {
		if strings.Contains(c.P.Fset.Position(fd.Pos()).Filename, "/u_") {
			ufuncs = append(ufuncs, fd)
		}
	}
	n := narrowingRule(c, "C02.5", ufuncs)
	r.Count("narrowing_sites", n)
	r.Ok("C02.5", "scan", "", "%d uTLS functions scanned for unsigned narrowing of len differences (%d sites)", len(ufuncs), n)

	// ---- C02.6 SNI
	var sni *extImpl
	for _, e := range exts {
		if e.Name == "SNIExtension" {
			sni = e
		}
	}
	if sni != nil {
		uses := func(fd *ast.FuncDecl) bool { return an.Contains(fd.Body, an.CallTo(info, Mod, "", "hostnameInSNI")) }
		r.Check(uses(sni.Len) && uses(sni.Read) && (sni.WriteTo == nil || uses(sni.WriteTo)), "C02.6", "SNIExtension:hostnameInSNI", c.Pos(sni.Len), "Len, Read and writeToUConn all normalise the name with hostnameInSNI (IP literals, trailing dots and empty names yield no extension)", "SNIExtension no longer derives its length and bytes from hostnameInSNI on every path")
	}
	r.Floor("C02.6", 1)
}

func c02Marshal(c *Ctx) {
	r := c.R
	info := c.Info()
	fn := c.Fn("C02.3", "UConn", "MarshalClientHelloNoECH")
	if fn == nil {
		return
	}
	// store to hello.Raw
	stores := fn.FindNodes(an.AssignsTo(func(e ast.Expr) bool { return an.FieldSel(info, an.Unparen(e), "PubClientHelloMsg", "Raw") }))
	if len(stores) == 0 {
		r.Bad("C02.3", "MarshalClientHelloNoECH:raw-store", c.Pos(fn.Decl), "Hello.Raw is never stored")
		return
	}
	// the final check: X.Len() != 4+helloLen -> error
	pass, fail, at := condEdges(fn, func(cond ast.Expr) (bool, bool) {
		be, ok := cond.(*ast.BinaryExpr)
		if !ok || (be.Op != token.NEQ && be.Op != token.EQL) {
			return false, false
		}
		hasLen := an.Contains(be, func(n ast.Node) bool {
			call, ok := n.(*ast.CallExpr)
			if !ok {
				return false
			}
			f, _ := an.Callee(info, call).(*types.Func)
			return f != nil && f.Pkg() != nil && f.Pkg().Path() == "bytes" && f.Name() == "Len"
		})
		if !hasLen {
			return false, false
		}
		return true, be.Op == token.EQL
	})
	for _, s := range stores {
		r.Check(len(pass) > 0 && fn.MustPass(s.P, nil, pass), "C02.3", "MarshalClientHelloNoECH:length-check-before-raw", c.Pos(s.N),
			"Raw is stored only after the produced byte count matched the declared handshake length", "Hello.Raw can be stored without the produced length having been compared with the declared handshake length: a mismatch (e.g. a Random that is not 32 bytes) would be emitted")
	}
	for i, fe := range fail {
		ok, why := failEdgeExits(fn, fe, nil)
		r.Check(ok, "C02.3", "MarshalClientHelloNoECH:length-mismatch-is-error", c.PosP(at[i]), "a length mismatch returns an error", "length mismatch: "+why)
	}
	// the bytes stored are the buffer's bytes, and Flush's error is checked before
	flush := fn.FindNodes(func(n ast.Node) bool {
		call, ok := n.(*ast.CallExpr)
		if !ok {
			return false
		}
		f, _ := an.Callee(info, call).(*types.Func)
		return f != nil && f.Pkg() != nil && f.Pkg().Path() == "bufio" && f.Name() == "Flush"
	})
	okFlush := len(flush) == 1
	for _, s := range stores {
		for _, f := range flush {
			if !fn.MustPass(s.P, []an.Point{f.P}, nil) {
				okFlush = false
			}
		}
	}
	r.Check(okFlush, "C02.3", "MarshalClientHelloNoECH:flush-before-raw", c.Pos(fn.Decl), "the buffered writer is flushed (and its sticky error tested) before Raw is taken", "Raw is taken without flushing the buffered writer first")
	// extensions: two range loops over uconn.Extensions (length, output), in slice order, no filter on output
	var loops []*ast.RangeStmt
	ast.Inspect(fn.Body, func(n ast.Node) bool {
		if rs, ok := n.(*ast.RangeStmt); ok && an.FieldSel(info, an.Unparen(rs.X), "UConn", "Extensions") {
			loops = append(loops, rs)
		}
		return true
	})
	okLoops := len(loops) == 2
	outOK := false
	if okLoops {
		// the output loop body: a single if with ReadFrom(ext) whose error returns
		body := loops[1].Body.List
		if len(body) == 1 {
			if is, ok := body[0].(*ast.IfStmt); ok && is.Init != nil {
				if an.Contains(is.Init, func(n ast.Node) bool {
					call, ok := n.(*ast.CallExpr)
					if !ok {
						return false
					}
					se, ok := call.Fun.(*ast.SelectorExpr)
					if !ok || se.Sel.Name != "ReadFrom" || len(call.Args) != 1 {
						return false
					}
					id, ok := an.Unparen(call.Args[0]).(*ast.Ident)
					v, _ := loops[1].Value.(*ast.Ident)
					return ok && v != nil && info.Uses[id] == info.Defs[v]
				}) && terminates(is.Body) {
					outOK = true
				}
			}
		}
	}
	r.Check(okLoops && outOK, "C02.3", "MarshalClientHelloNoECH:extensions-in-order", c.Pos(fn.Decl), "extensions are measured once and emitted once, in slice order, every one of them, and an encode error aborts", "the extension list is not emitted exactly once in slice order with its errors propagated")
	// the extensions-length field written is the accumulated extensions length
	okExtLen := false
	ast.Inspect(fn.Body, func(n ast.Node) bool {
		call, ok := n.(*ast.CallExpr)
		if !ok || len(call.Args) != 3 {
			return true
		}
		f, _ := an.Callee(info, call).(*types.Func)
		if f == nil || f.Pkg() == nil || f.Pkg().Path() != "encoding/binary" || f.Name() != "Write" {
			return true
		}
		if cv, ok := an.Unparen(call.Args[2]).(*ast.CallExpr); ok && len(cv.Args) == 1 {
			if tv, ok := info.Types[cv.Fun]; ok && tv.IsType() && an.TypeName(tv.Type) == "" && tv.Type.String() == "uint16" {
				if id, ok := an.Unparen(cv.Args[0]).(*ast.Ident); ok {
					// that identifier must be the one accumulated with ext.Len()
					acc := false
					o := objOf(info, id)
					ast.Inspect(fn.Body, func(m ast.Node) bool {
						as, ok := m.(*ast.AssignStmt)
						if ok && as.Tok == token.ADD_ASSIGN && len(as.Lhs) == 1 {
							if l, ok := as.Lhs[0].(*ast.Ident); ok && objOf(info, l) == o {
								if c2, ok := an.Unparen(as.Rhs[0]).(*ast.CallExpr); ok {
									if se, ok := c2.Fun.(*ast.SelectorExpr); ok && se.Sel.Name == "Len" {
										acc = true
									}
								}
							}
						}
						return true
					})
					if acc {
						okExtLen = true
					}
				}
			}
		}
		return true
	})
	r.Check(okExtLen, "C02.3", "MarshalClientHelloNoECH:extensions-length-field", c.Pos(fn.Decl), "the 2-byte extensions length written is the sum of the extensions' Len()", "the extensions length field is not the accumulated sum of the extensions' lengths")
	r.Floor("C02.3", 5)
}
