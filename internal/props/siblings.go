package props

// E11 siblings: synchronisation-skeleton agreement between a uTLS copy of a function and
// the function it was copied from.
//
// The skeleton of a function is the language of its *synchronisation traces*: the CFG is
// turned into a finite automaton whose transitions carry the synchronisation events of
// each node (mutex operations with their lock identity, defer / go with the skeleton of
// the deferred or spawned literal, channel send / receive / close / select with the
// channel's identity, sync/atomic operations with their field and constant arguments,
// stores to handshakeErr / quicState fields / named results, the call through handshakeFn,
// calls of Conn methods that touch c.quic, panics, and returns with the canonical form of
// their error result) and whose branches on synchronisation state (c.quic, handshakeErr,
// atomic loads, channel receives' ok flags, quicState fields) carry the canonical
// condition and its outcome. Everything else is an epsilon move. Local names never appear:
// a local is rendered by its defining expression, parameters by position, the receiver as
// R, fields by declaring struct, and a method that the uTLS type shadows is named after
// the method it shadows. The automata are determinised, trimmed and minimised; two
// functions agree iff the minimal automata are isomorphic, so a refactor that keeps the
// order and nesting of the events (moving a defer into the branch that precedes it,
// if/switch form, renaming, extra ordinary statements) is invisible, while a one-sided
// change to locking, the channel protocol, the atomics or the error plumbing yields a
// shortest distinguishing trace.
//
// The uTLS-only insertion is removed before comparing: a call whose callee is a method
// declared on the uTLS type with no counterpart on the original type contributes no event,
// and the branch taken when its result is non-nil is cut (it is judged by C23's
// close-on-all-exits rule instead).

import (
	"fmt"
	"go/ast"
	"go/token"
	"go/types"
	"regexp"
	"sort"
	"strings"

	"golang.org/x/tools/go/cfg"

	"verif/internal/an"
	"verif/internal/load"
)

// sibShadow maps the uTLS types to the types whose methods they copy.
var sibShadow = map[string]string{"UConn": "Conn", "UQUICConn": "QUICConn"}

type skelCtx struct {
	c       *Ctx
	info    *types.Info
	decl    *ast.FuncDecl
	recv    types.Object
	pos     map[types.Object]string // parameters and named results
	defs    map[types.Object][]localDef
	busy    map[types.Object]bool
	hsFns   map[*types.Func]bool
	quicFns map[*types.Func]bool
	commOf  map[ast.Stmt]*ast.SelectStmt
	rangeX  map[ast.Expr]*ast.RangeStmt
	tracked bool
	subs    map[string]*dfa // nested literal skeletons by label
	// insertion handling
	prune        bool
	insertions   []string
	unrecognised []string
}

type localDef struct {
	rhs   ast.Expr
	idx   int // -1: rhs is the value; >=0: idx-th result of rhs
	rng   ast.Expr
	multi bool // compound assignment / inc-dec: value not a single expression
}

func (c *Ctx) newSkelCtx(fd *ast.FuncDecl, prune bool) *skelCtx {
	info := c.Info()
	sc := &skelCtx{c: c, info: info, decl: fd, pos: map[types.Object]string{}, defs: map[types.Object][]localDef{},
		busy: map[types.Object]bool{}, commOf: map[ast.Stmt]*ast.SelectStmt{}, rangeX: map[ast.Expr]*ast.RangeStmt{}, subs: map[string]*dfa{}}
	sc.hsFns, sc.quicFns = c.handshakeFns(), c.quicTouching()
	sc.prune = prune
	if fd.Recv != nil && len(fd.Recv.List) == 1 && len(fd.Recv.List[0].Names) == 1 {
		sc.recv = info.Defs[fd.Recv.List[0].Names[0]]
	}
	i := 0
	for _, f := range fd.Type.Params.List {
		for _, n := range f.Names {
			sc.pos[info.Defs[n]] = "p" + lsItoa(i)
			i++
		}
		if len(f.Names) == 0 {
			i++
		}
	}
	if fd.Type.Results != nil {
		i = 0
		for _, f := range fd.Type.Results.List {
			for _, n := range f.Names {
				sc.pos[info.Defs[n]] = "res" + lsItoa(i)
				i++
			}
			if len(f.Names) == 0 {
				i++
			}
		}
	}
	addDef := func(lhs ast.Expr, d localDef) {
		id, ok := an.Unparen(lhs).(*ast.Ident)
		if !ok || id.Name == "_" {
			return
		}
		o := objOf(info, id)
		if o == nil {
			return
		}
		if prune && d.rhs != nil {
			// a variable reused for the result of the uTLS insertion keeps its other definition
			if call, ok := an.Unparen(d.rhs).(*ast.CallExpr); ok {
				if f, ok := an.Callee(info, call).(*types.Func); ok && c.utlsOnly(f.Origin()) {
					return
				}
			}
		}
		sc.defs[o] = append(sc.defs[o], d)
	}
	ast.Inspect(fd.Body, func(n ast.Node) bool {
		switch s := n.(type) {
		case *ast.AssignStmt:
			for i, l := range s.Lhs {
				switch {
				case s.Tok != token.ASSIGN && s.Tok != token.DEFINE:
					addDef(l, localDef{multi: true})
				case len(s.Rhs) == len(s.Lhs):
					addDef(l, localDef{rhs: s.Rhs[i], idx: -1})
				case len(s.Rhs) == 1:
					addDef(l, localDef{rhs: s.Rhs[0], idx: i})
				}
			}
		case *ast.IncDecStmt:
			addDef(s.X, localDef{multi: true})
		case *ast.ValueSpec:
			for i, nm := range s.Names {
				switch {
				case len(s.Values) == len(s.Names):
					addDef(nm, localDef{rhs: s.Values[i], idx: -1})
				case len(s.Values) == 1:
					addDef(nm, localDef{rhs: s.Values[0], idx: i})
				}
			}
		case *ast.RangeStmt:
			sc.rangeX[s.X] = s
			if s.Key != nil {
				addDef(s.Key, localDef{rng: s.X, idx: 0})
			}
			if s.Value != nil {
				addDef(s.Value, localDef{rng: s.X, idx: 1})
			}
		case *ast.SelectStmt:
			for _, cl := range s.Body.List {
				if cc := cl.(*ast.CommClause); cc.Comm != nil {
					sc.commOf[cc.Comm] = s
				}
			}
		}
		return true
	})
	return sc
}

var hsFnCache = map[*load.Program]map[*types.Func]bool{}
var quicFnCache = map[*load.Program]map[*types.Func]bool{}

// handshakeFns: the methods stored into Conn.handshakeFn anywhere in the package.
func (c *Ctx) handshakeFns() map[*types.Func]bool {
	if m, ok := hsFnCache[c.P]; ok {
		return m
	}
	info := c.Info()
	m := map[*types.Func]bool{}
	for _, f := range c.P.TLS.Syntax {
		ast.Inspect(f, func(n ast.Node) bool {
			as, ok := n.(*ast.AssignStmt)
			if !ok || len(as.Lhs) != len(as.Rhs) {
				return true
			}
			for i, l := range as.Lhs {
				if !an.FieldSel(info, an.Unparen(l), "Conn", "handshakeFn") {
					continue
				}
				if se, ok := an.Unparen(as.Rhs[i]).(*ast.SelectorExpr); ok {
					if sel := info.Selections[se]; sel != nil && sel.Kind() == types.MethodVal {
						if fn, ok := sel.Obj().(*types.Func); ok {
							m[fn.Origin()] = true
						}
					}
				}
			}
			return true
		})
	}
	hsFnCache[c.P] = m
	return m
}

// quicTouching: methods of Conn (or of a type shadowing it) whose body mentions the field Conn.quic.
func (c *Ctx) quicTouching() map[*types.Func]bool {
	if m, ok := quicFnCache[c.P]; ok {
		return m
	}
	info := c.Info()
	m := map[*types.Func]bool{}
	for _, fd := range load.AllFuncDecls(c.P.TLS) {
		if rn := load.RecvName(fd); rn != "Conn" && sibShadow[rn] != "Conn" {
			continue
		}
		if an.MentionsField(info, fd.Body, "Conn", "quic") {
			if fn, ok := info.Defs[fd.Name].(*types.Func); ok {
				m[fn] = true
			}
		}
	}
	quicFnCache[c.P] = m
	return m
}

// hasMethod reports whether named type tname of the root package has method m
// (pointer receiver method set, promoted methods included).
func (c *Ctx) hasMethod(tname, m string) bool {
	n := load.Named(c.P.TLS, tname)
	if n == nil {
		return false
	}
	o, _, _ := types.LookupFieldOrMethod(types.NewPointer(n), true, c.P.TLS.Types, m)
	_, ok := o.(*types.Func)
	return ok
}

func (c *Ctx) hasField(tname, f string) bool {
	n := load.Named(c.P.TLS, tname)
	if n == nil {
		return false
	}
	st, ok := n.Underlying().(*types.Struct)
	if !ok {
		return false
	}
	for i := 0; i < st.NumFields(); i++ {
		if st.Field(i).Name() == f {
			return true
		}
	}
	return false
}

// utlsOnly reports whether f is a method declared on a uTLS type without a counterpart
// on the type it shadows.
func (c *Ctx) utlsOnly(f *types.Func) bool {
	sig, ok := f.Type().(*types.Signature)
	if !ok || sig.Recv() == nil {
		return false
	}
	rt := an.TypeName(sig.Recv().Type())
	orig, ok := sibShadow[rt]
	if !ok || f.Pkg() != c.P.TLS.Types {
		return false
	}
	return !c.hasMethod(orig, f.Name())
}

func (sc *skelCtx) funcName(f *types.Func) string {
	sig, _ := f.Type().(*types.Signature)
	if sig != nil && sig.Recv() != nil {
		rt := sig.Recv().Type()
		name := an.TypeName(rt)
		if name == "" {
			name = sc.typeStr(rt)
		} else if nt := namedOf(rt); nt != nil && nt.Obj().Pkg() != nil && nt.Obj().Pkg() != sc.c.P.TLS.Types {
			name = nt.Obj().Pkg().Name() + "." + name
		}
		if orig, ok := sibShadow[name]; ok && f.Pkg() == sc.c.P.TLS.Types && sc.c.hasMethod(orig, f.Name()) {
			name = orig
		}
		return name + "." + f.Name()
	}
	if f.Pkg() != nil && f.Pkg() != sc.c.P.TLS.Types {
		return f.Pkg().Name() + "." + f.Name()
	}
	return f.Name()
}

func namedOf(t types.Type) *types.Named {
	for {
		switch x := t.(type) {
		case *types.Pointer:
			t = x.Elem()
		case *types.Alias:
			t = types.Unalias(x)
		case *types.Named:
			return x
		default:
			return nil
		}
	}
}

var shadowWord = regexp.MustCompile(`\b(UConn|UQUICConn)\b`)

func (sc *skelCtx) typeStr(t types.Type) string {
	s := types.TypeString(t, func(p *types.Package) string {
		if p == sc.c.P.TLS.Types {
			return ""
		}
		return p.Name()
	})
	return shadowWord.ReplaceAllStringFunc(s, func(w string) string { return sibShadow[w] })
}

func isAtomicType(t types.Type) bool {
	n := namedOf(t)
	return n != nil && n.Obj().Pkg() != nil && n.Obj().Pkg().Path() == "sync/atomic"
}

func isChan(t types.Type) bool {
	if t == nil {
		return false
	}
	_, ok := t.Underlying().(*types.Chan)
	return ok
}

// fieldName renders a field selection as Owner.field (declaring struct; shadowed owner
// renamed when the original struct has a field of the same name) and records whether the
// field is synchronisation state.
func (sc *skelCtx) fieldName(se *ast.SelectorExpr, sel *types.Selection) string {
	v, _ := sel.Obj().(*types.Var)
	owner := ""
	if v != nil {
		owner = an.FieldOwner(sc.info, sel, v)
	}
	if orig, ok := sibShadow[owner]; ok && sc.c.hasField(orig, se.Sel.Name) {
		owner = orig
	}
	if owner == "quicState" || (owner == "Conn" && (se.Sel.Name == "quic" || se.Sel.Name == "handshakeErr")) {
		sc.tracked = true
	}
	if v != nil && (isAtomicType(v.Type()) || isChan(v.Type())) {
		sc.tracked = true
	}
	if owner == "" {
		owner = "struct"
	}
	return owner + "." + se.Sel.Name
}

func (sc *skelCtx) local(o types.Object) string {
	if o == sc.recv && o != nil {
		return "R"
	}
	if s, ok := sc.pos[o]; ok {
		return s
	}
	if isChan(o.Type()) {
		sc.tracked = true
	}
	ds := sc.defs[o]
	if len(ds) == 1 && !ds[0].multi && !sc.busy[o] {
		sc.busy[o] = true
		defer delete(sc.busy, o)
		d := ds[0]
		switch {
		case d.rng != nil:
			return "range" + lsItoa(d.idx) + "(" + sc.expr(d.rng) + ")"
		case d.idx < 0:
			return sc.expr(d.rhs)
		default:
			return sc.expr(d.rhs) + "#" + lsItoa(d.idx)
		}
	}
	return "var:" + sc.typeStr(o.Type())
}

func (sc *skelCtx) ident(id *ast.Ident) string {
	o := objOf(sc.info, id)
	switch x := o.(type) {
	case nil:
		return id.Name
	case *types.Nil:
		return "nil"
	case *types.Builtin:
		return id.Name
	case *types.Const:
		if x.Pkg() == nil {
			return x.Name()
		}
		if x.Parent() == x.Pkg().Scope() {
			if x.Pkg() != sc.c.P.TLS.Types {
				return x.Pkg().Name() + "." + x.Name()
			}
			return x.Name()
		}
		return x.Val().ExactString()
	case *types.TypeName:
		return sc.typeStr(x.Type())
	case *types.Func:
		return sc.funcName(x)
	case *types.PkgName:
		return x.Imported().Name()
	case *types.Var:
		if x.Pkg() != nil && x.Parent() == x.Pkg().Scope() {
			if isChan(x.Type()) || isAtomicType(x.Type()) {
				sc.tracked = true
			}
			if x.Pkg() != sc.c.P.TLS.Types {
				return x.Pkg().Name() + "." + x.Name()
			}
			return x.Name()
		}
		return sc.local(x)
	}
	return id.Name
}

// expr renders e canonically (no local names).
func (sc *skelCtx) expr(e ast.Expr) string {
	switch x := e.(type) {
	case nil:
		return ""
	case *ast.ParenExpr:
		return sc.expr(x.X)
	case *ast.BasicLit:
		return x.Value
	case *ast.Ident:
		return sc.ident(x)
	case *ast.SelectorExpr:
		if sel := sc.info.Selections[x]; sel != nil {
			if sel.Kind() == types.FieldVal {
				return sc.fieldName(x, sel)
			}
			if fn, ok := sel.Obj().(*types.Func); ok {
				return "mval:" + sc.funcName(fn)
			}
		}
		return sc.ident(x.Sel)
	case *ast.StarExpr:
		return "*" + sc.expr(x.X)
	case *ast.UnaryExpr:
		if x.Op == token.ARROW {
			sc.tracked = true
			return "recv(" + sc.expr(x.X) + ")"
		}
		return x.Op.String() + sc.expr(x.X)
	case *ast.BinaryExpr:
		return "(" + sc.expr(x.X) + x.Op.String() + sc.expr(x.Y) + ")"
	case *ast.CallExpr:
		return sc.call(x, true)
	case *ast.IndexExpr:
		return sc.expr(x.X) + "[" + sc.expr(x.Index) + "]"
	case *ast.SliceExpr:
		return sc.expr(x.X) + "[:]"
	case *ast.TypeAssertExpr:
		if x.Type == nil {
			return sc.expr(x.X) + ".(type)"
		}
		return sc.expr(x.X) + ".(" + sc.typeStr(sc.info.TypeOf(x.Type)) + ")"
	case *ast.CompositeLit:
		return "lit:" + sc.typeStr(sc.info.TypeOf(x))
	case *ast.FuncLit:
		return "func"
	case *ast.KeyValueExpr:
		return sc.expr(x.Value)
	case *ast.ArrayType, *ast.MapType, *ast.ChanType, *ast.StructType, *ast.InterfaceType, *ast.FuncType:
		return sc.typeStr(sc.info.TypeOf(x))
	}
	return "?"
}

func (sc *skelCtx) args(call *ast.CallExpr, constOnly bool) string {
	var as []string
	for _, a := range call.Args {
		if constOnly {
			if tv, ok := sc.info.Types[a]; ok && tv.Value != nil {
				as = append(as, sc.expr(a))
			} else {
				as = append(as, "_")
			}
			continue
		}
		as = append(as, sc.expr(a))
	}
	return strings.Join(as, ",")
}

// call renders a call. full=true renders value-relevant detail for definitions and
// conditions; events use the same text.
func (sc *skelCtx) call(call *ast.CallExpr, full bool) string {
	fun := an.Unparen(call.Fun)
	if tv, ok := sc.info.Types[fun]; ok && tv.IsType() {
		return sc.typeStr(tv.Type) + "(" + sc.args(call, false) + ")"
	}
	if id, ok := fun.(*ast.Ident); ok {
		if _, isB := sc.info.Uses[id].(*types.Builtin); isB {
			if id.Name == "make" || id.Name == "new" {
				s := id.Name + "(" + sc.typeStr(sc.info.TypeOf(call.Args[0]))
				if isChan(sc.info.TypeOf(call.Args[0])) {
					sc.tracked = true
				}
				for _, a := range call.Args[1:] {
					s += "," + sc.expr(a)
				}
				return s + ")"
			}
			return id.Name + "(" + sc.args(call, false) + ")"
		}
	}
	if op, ok := lockOpOf(sc.info, call); ok {
		return op.Kind.String() + "(" + string(op.ID) + ")"
	}
	if se, ok := fun.(*ast.SelectorExpr); ok && an.FieldSel(sc.info, se, "Conn", "handshakeFn") {
		sc.tracked = true
		return "handshakeFn()"
	}
	callee, _ := an.Callee(sc.info, call).(*types.Func)
	if callee == nil {
		return sc.expr(fun) + "()"
	}
	callee = callee.Origin()
	if sc.hsFns[callee] {
		sc.tracked = true
		return "handshakeFn()"
	}
	if callee.Pkg() != nil && callee.Pkg().Path() == "sync/atomic" {
		sc.tracked = true
		if se, ok := fun.(*ast.SelectorExpr); ok && sc.info.Selections[se] != nil {
			return "atomic." + callee.Name() + "(" + sc.expr(se.X) + ";" + sc.args(call, false) + ")"
		}
		return "atomic." + callee.Name() + "(" + sc.args(call, false) + ")"
	}
	name := sc.funcName(callee)
	if se, ok := fun.(*ast.SelectorExpr); ok && sc.info.Selections[se] != nil {
		if rx := sc.expr(se.X); rx != "R" {
			name += "@" + rx
		}
	}
	if isChan(sc.info.TypeOf(call)) {
		sc.tracked = true
	}
	return name + "()"
}

// cond renders a branch condition with its polarity normalised: returns the canonical
// text and whether the original condition is its negation.
func (sc *skelCtx) cond(e ast.Expr) (string, bool) {
	e = an.Unparen(e)
	switch x := e.(type) {
	case *ast.UnaryExpr:
		if x.Op == token.NOT {
			s, n := sc.cond(x.X)
			return s, !n
		}
	case *ast.BinaryExpr:
		if x.Op == token.EQL || x.Op == token.NEQ {
			l, r := sc.expr(x.X), sc.expr(x.Y)
			if r < l {
				l, r = r, l
			}
			return "(" + l + "==" + r + ")", x.Op == token.NEQ
		}
	}
	return sc.expr(e), false
}

// ---- events

func (sc *skelCtx) resultTypes(ft *ast.FuncType) []types.Type {
	var out []types.Type
	if ft == nil || ft.Results == nil {
		return nil
	}
	for _, f := range ft.Results.List {
		n := len(f.Names)
		if n == 0 {
			n = 1
		}
		for i := 0; i < n; i++ {
			out = append(out, sc.info.TypeOf(f.Type))
		}
	}
	return out
}

var errorType = types.Universe.Lookup("error").Type()

func (sc *skelCtx) returnLabel(rs *ast.ReturnStmt, ft *ast.FuncType) string {
	rts := sc.resultTypes(ft)
	if len(rs.Results) == 0 {
		return "return"
	}
	if len(rs.Results) != len(rts) {
		return "return " + sc.expr(rs.Results[0])
	}
	var parts []string
	for i, t := range rts {
		if types.Identical(t, errorType) {
			parts = append(parts, sc.expr(rs.Results[i]))
		}
	}
	if len(parts) == 0 {
		return "return"
	}
	return "return " + strings.Join(parts, ",")
}

// callEvent classifies a call as a synchronisation event ("" = not an event).
func (sc *skelCtx) callEvent(call *ast.CallExpr) string {
	fun := an.Unparen(call.Fun)
	if id, ok := fun.(*ast.Ident); ok {
		if _, isB := sc.info.Uses[id].(*types.Builtin); isB {
			switch id.Name {
			case "close":
				return "close(" + sc.args(call, false) + ")"
			case "panic":
				return "panic"
			}
			return ""
		}
	}
	if _, ok := lockOpOf(sc.info, call); ok {
		return sc.call(call, true)
	}
	if se, ok := fun.(*ast.SelectorExpr); ok && an.FieldSel(sc.info, se, "Conn", "handshakeFn") {
		return "call handshakeFn"
	}
	callee, _ := an.Callee(sc.info, call).(*types.Func)
	if callee == nil {
		// a call through a function value held in synchronisation state (quic.cancel())
		save := sc.tracked
		sc.tracked = false
		s := sc.expr(fun)
		t := sc.tracked
		sc.tracked = save
		if t {
			return "call " + s
		}
		return ""
	}
	callee = callee.Origin()
	if sc.hsFns[callee] {
		return "call handshakeFn"
	}
	if callee.Pkg() != nil && callee.Pkg().Path() == "sync/atomic" {
		return sc.call(call, true)
	}
	if sc.quicFns[callee] {
		return "call " + sc.funcName(callee) + "(" + sc.args(call, true) + ")"
	}
	return ""
}

// deferDesc renders the operand of a defer / go statement.
func (sc *skelCtx) deferDesc(kind string, call *ast.CallExpr) string {
	if fl, ok := an.Unparen(call.Fun).(*ast.FuncLit); ok {
		d := sc.litDFA(fl)
		label := kind + "{" + d.canon() + "}"
		sc.subs[label] = d
		return label
	}
	if ev := sc.callEvent(call); ev != "" {
		return kind + " " + ev
	}
	save := sc.tracked
	s := sc.call(call, true)
	sc.tracked = save
	if a := sc.args(call, true); strings.Trim(a, "_,") != "" {
		s += "[" + a + "]"
	}
	return kind + " " + s
}

func (sc *skelCtx) storeEvent(lhs ast.Expr) string {
	lhs = an.Unparen(lhs)
	switch x := lhs.(type) {
	case *ast.SelectorExpr:
		sel := sc.info.Selections[x]
		if sel == nil || sel.Kind() != types.FieldVal {
			return ""
		}
		save := sc.tracked
		sc.tracked = false
		name := sc.fieldName(x, sel)
		t := sc.tracked
		sc.tracked = save
		if t {
			return "store(" + name + ")"
		}
	case *ast.Ident:
		if o := objOf(sc.info, x); o != nil {
			if s, ok := sc.pos[o]; ok && strings.HasPrefix(s, "res") {
				return "store(" + s + ")"
			}
		}
	}
	return ""
}

// walk appends the events of n in evaluation order.
func (sc *skelCtx) walk(n ast.Node, ft *ast.FuncType, out *[]string) {
	if n == nil {
		return
	}
	children := func() {
		ast.Inspect(n, func(ch ast.Node) bool {
			if ch == n {
				return true
			}
			if ch != nil {
				sc.walk(ch, ft, out)
			}
			return false
		})
	}
	switch x := n.(type) {
	case *ast.FuncLit:
		return
	case *ast.DeferStmt:
		*out = append(*out, sc.deferDesc("defer", x.Call))
		return
	case *ast.GoStmt:
		*out = append(*out, sc.deferDesc("go", x.Call))
		return
	case *ast.ReturnStmt:
		children()
		*out = append(*out, sc.returnLabel(x, ft))
		return
	case *ast.AssignStmt:
		children()
		for _, l := range x.Lhs {
			if ev := sc.storeEvent(l); ev != "" {
				*out = append(*out, ev)
			}
		}
		return
	case *ast.IncDecStmt:
		children()
		if ev := sc.storeEvent(x.X); ev != "" {
			*out = append(*out, ev)
		}
		return
	case *ast.SendStmt:
		children()
		*out = append(*out, "send("+sc.expr(x.Chan)+")")
		return
	case *ast.UnaryExpr:
		children()
		if x.Op == token.ARROW {
			*out = append(*out, "recv("+sc.expr(x.X)+")")
		}
		return
	case *ast.CallExpr:
		if callee, ok := an.Callee(sc.info, x).(*types.Func); ok && sc.prune && sc.c.utlsOnly(callee.Origin()) {
			// the uTLS insertion: no event of its own
			children()
			return
		}
		children()
		if ev := sc.callEvent(x); ev != "" {
			*out = append(*out, ev)
		}
		return
	}
	children()
}

func commLabel(sc *skelCtx, s ast.Stmt) string {
	switch x := s.(type) {
	case *ast.SendStmt:
		return "send(" + sc.expr(x.Chan) + ")"
	case *ast.ExprStmt:
		return sc.expr(x.X)
	case *ast.AssignStmt:
		if len(x.Rhs) == 1 {
			return sc.expr(x.Rhs[0])
		}
	}
	return "?"
}

// ---- automata

type nfa struct {
	tr    []map[string][]int // "" = epsilon
	start int
	final int
}

func (a *nfa) newState() int {
	a.tr = append(a.tr, map[string][]int{})
	return len(a.tr) - 1
}

func (a *nfa) add(from int, label string, to int) { a.tr[from][label] = append(a.tr[from][label], to) }

// buildNFA turns fn's CFG into the event automaton. pruned edges are not taken.
func (sc *skelCtx) buildNFA(fn *an.Fn, pruned map[an.Edge]bool) *nfa {
	a := &nfa{}
	a.start = a.newState()
	a.final = a.newState()
	bs := map[*cfg.Block]int{}
	for _, b := range fn.G.Blocks {
		if b.Live {
			bs[b] = a.newState()
		}
	}
	a.add(a.start, "", bs[fn.Entry()])
	seenSelect := map[*ast.SelectStmt]bool{}
	for _, b := range fn.G.Blocks {
		if !b.Live {
			continue
		}
		var evs []string
		if b.Kind == cfg.KindSelectCaseBody {
			if cc, ok := b.Stmt.(*ast.CommClause); ok && cc.Comm != nil {
				evs = append(evs, "case "+commLabel(sc, cc.Comm))
			}
		}
		for _, n := range b.Nodes {
			if st, ok := n.(ast.Stmt); ok {
				if sel := sc.commOf[st]; sel != nil {
					if !seenSelect[sel] {
						seenSelect[sel] = true
						var alts []string
						for _, cl := range sel.Body.List {
							cc := cl.(*ast.CommClause)
							if cc.Comm == nil {
								alts = append(alts, "default")
							} else {
								alts = append(alts, commLabel(sc, cc.Comm))
							}
						}
						sort.Strings(alts)
						evs = append(evs, "select["+strings.Join(alts, "|")+"]")
					}
					continue
				}
			}
			sc.walk(n, fn.Type, &evs)
			if ex, ok := n.(ast.Expr); ok {
				if rs := sc.rangeX[ex]; rs != nil && isChan(sc.info.TypeOf(ex)) {
					evs = append(evs, "range-recv("+sc.expr(ex)+")")
				}
			}
		}
		cur := bs[b]
		for _, e := range evs {
			nx := a.newState()
			a.add(cur, e, nx)
			cur = nx
		}
		if len(b.Succs) == 0 {
			last := ""
			if len(evs) > 0 {
				last = evs[len(evs)-1]
			}
			endsInReturn := false
			if len(b.Nodes) > 0 {
				_, endsInReturn = b.Nodes[len(b.Nodes)-1].(*ast.ReturnStmt)
			}
			if endsInReturn || last == "panic" {
				a.add(cur, "", a.final)
			} else {
				a.add(cur, "return", a.final)
			}
			continue
		}
		var tl, fl string
		if len(b.Succs) == 2 && len(b.Nodes) > 0 {
			if ce, ok := b.Nodes[len(b.Nodes)-1].(ast.Expr); ok {
				if bt, ok := sc.info.TypeOf(ce).Underlying().(*types.Basic); ok && bt.Info()&types.IsBoolean != 0 {
					sc.tracked = false
					s, neg := sc.cond(ce)
					if sc.tracked {
						tl, fl = "T["+s+"]", "F["+s+"]"
						if neg {
							tl, fl = fl, tl
						}
					}
				}
			}
		}
		for k, s := range b.Succs {
			if pruned[an.Edge{B: b, K: k}] {
				continue
			}
			label := ""
			if len(b.Succs) == 2 {
				if k == 0 {
					label = tl
				} else {
					label = fl
				}
			}
			a.add(cur, label, bs[s])
		}
	}
	return a
}

type dfa struct {
	tr    []map[string]int
	acc   []bool
	start int
}

func (a *nfa) closure(set []int) []int {
	seen := map[int]bool{}
	var st []int
	for _, s := range set {
		if !seen[s] {
			seen[s] = true
			st = append(st, s)
		}
	}
	for i := 0; i < len(st); i++ {
		for _, t := range a.tr[st[i]][""] {
			if !seen[t] {
				seen[t] = true
				st = append(st, t)
			}
		}
	}
	sort.Ints(st)
	return st
}

func keyOf(s []int) string {
	var sb strings.Builder
	for _, x := range s {
		sb.WriteString(lsItoa(x))
		sb.WriteByte(',')
	}
	return sb.String()
}

// determinize + trim (states that cannot reach acceptance are dropped) + minimise.
func (a *nfa) toDFA() *dfa {
	d := &dfa{}
	ids := map[string]int{}
	var sets [][]int
	get := func(s []int) int {
		k := keyOf(s)
		if id, ok := ids[k]; ok {
			return id
		}
		ids[k] = len(sets)
		sets = append(sets, s)
		d.tr = append(d.tr, map[string]int{})
		acc := false
		for _, x := range s {
			if x == a.final {
				acc = true
			}
		}
		d.acc = append(d.acc, acc)
		return len(sets) - 1
	}
	d.start = get(a.closure([]int{a.start}))
	for i := 0; i < len(sets); i++ {
		by := map[string][]int{}
		for _, s := range sets[i] {
			for l, ts := range a.tr[s] {
				if l != "" {
					by[l] = append(by[l], ts...)
				}
			}
		}
		for l, ts := range by {
			d.tr[i][l] = get(a.closure(ts))
		}
	}
	return d.trim().minimize()
}

func (d *dfa) trim() *dfa {
	n := len(d.tr)
	rev := make([][]int, n)
	for s, m := range d.tr {
		for _, t := range m {
			rev[t] = append(rev[t], s)
		}
	}
	live := make([]bool, n)
	var work []int
	for s := range d.tr {
		if d.acc[s] {
			live[s] = true
			work = append(work, s)
		}
	}
	for len(work) > 0 {
		s := work[len(work)-1]
		work = work[:len(work)-1]
		for _, p := range rev[s] {
			if !live[p] {
				live[p] = true
				work = append(work, p)
			}
		}
	}
	o := &dfa{start: d.start}
	for s, m := range d.tr {
		nm := map[string]int{}
		if live[s] {
			for l, t := range m {
				if live[t] {
					nm[l] = t
				}
			}
		}
		o.tr = append(o.tr, nm)
		o.acc = append(o.acc, d.acc[s])
	}
	return o
}

func (d *dfa) minimize() *dfa {
	n := len(d.tr)
	class := make([]int, n)
	for s := range class {
		if d.acc[s] {
			class[s] = 1
		}
	}
	for {
		sig := make([]string, n)
		for s := 0; s < n; s++ {
			var ls []string
			for l := range d.tr[s] {
				ls = append(ls, l)
			}
			sort.Strings(ls)
			var sb strings.Builder
			sb.WriteString(lsItoa(class[s]))
			for _, l := range ls {
				sb.WriteString("|" + l + ">" + lsItoa(class[d.tr[s][l]]))
			}
			sig[s] = sb.String()
		}
		ids := map[string]int{}
		nc := make([]int, n)
		for s := 0; s < n; s++ {
			id, ok := ids[sig[s]]
			if !ok {
				id = len(ids)
				ids[sig[s]] = id
			}
			nc[s] = id
		}
		before := map[int]bool{}
		for _, c := range class {
			before[c] = true
		}
		class = nc
		if len(ids) == len(before) {
			break
		}
	}
	// rebuild, numbering states in BFS order with sorted labels (canonical)
	rep := map[int]int{}
	for s := 0; s < n; s++ {
		if _, ok := rep[class[s]]; !ok {
			rep[class[s]] = s
		}
	}
	o := &dfa{}
	num := map[int]int{}
	var order []int
	visit := func(cl int) int {
		if id, ok := num[cl]; ok {
			return id
		}
		num[cl] = len(order)
		order = append(order, cl)
		o.tr = append(o.tr, map[string]int{})
		o.acc = append(o.acc, d.acc[rep[cl]])
		return len(order) - 1
	}
	o.start = visit(class[d.start])
	for i := 0; i < len(order); i++ {
		s := rep[order[i]]
		var ls []string
		for l := range d.tr[s] {
			ls = append(ls, l)
		}
		sort.Strings(ls)
		for _, l := range ls {
			o.tr[i][l] = visit(class[d.tr[s][l]])
		}
	}
	return o
}

func (d *dfa) canon() string {
	var sb strings.Builder
	for s, m := range d.tr {
		var ls []string
		for l := range m {
			ls = append(ls, l)
		}
		sort.Strings(ls)
		if s > 0 {
			sb.WriteString("; ")
		}
		sb.WriteString(lsItoa(s))
		if d.acc[s] {
			sb.WriteString("!")
		}
		sb.WriteString(":")
		for i, l := range ls {
			if i > 0 {
				sb.WriteString(" | ")
			}
			sb.WriteString(l + "→" + lsItoa(m[l]))
		}
	}
	return sb.String()
}

// labels counts the labelled transitions.
func (d *dfa) labels() int {
	n := 0
	for _, m := range d.tr {
		n += len(m)
	}
	return n
}

// alphabet returns the set of labels.
func (d *dfa) alphabet() map[string]bool {
	out := map[string]bool{}
	for _, m := range d.tr {
		for l := range m {
			out[l] = true
		}
	}
	return out
}

func (sc *skelCtx) litDFA(fl *ast.FuncLit) *dfa {
	fn := an.NewLit(sc.c.P.TLS, "lit", fl)
	return sc.buildNFA(fn, nil).toDFA()
}

func short(s string) string {
	r := []rune(s)
	if len(r) > 150 {
		return string(r[:150]) + "…"
	}
	return s
}

// diffDFA returns "" when the automata are isomorphic, else a shortest distinguishing
// trace. subsU/subsO give the nested automata of defer{…}/go{…} labels for drill-down.
func diffDFA(u, o *dfa, subsU, subsO map[string]*dfa, whoU, whoO string) string {
	type pair struct{ a, b int }
	type item struct {
		p     pair
		trace []string
	}
	seen := map[pair]bool{{u.start, o.start}: true}
	q := []item{{pair{u.start, o.start}, nil}}
	for len(q) > 0 {
		it := q[0]
		q = q[1:]
		a, b := it.p.a, it.p.b
		pre := "at the start"
		if len(it.trace) > 0 {
			t := it.trace
			if len(t) > 8 {
				t = append([]string{"…"}, t[len(t)-8:]...)
			}
			for i := range t {
				t[i] = short(t[i])
			}
			pre = "after ⟨" + strings.Join(t, " · ") + "⟩"
		}
		if u.acc[a] != o.acc[b] {
			if u.acc[a] {
				return pre + " " + whoU + " can be finished while " + whoO + " cannot"
			}
			return pre + " " + whoO + " can be finished while " + whoU + " cannot"
		}
		var onlyU, onlyO, both []string
		for l := range u.tr[a] {
			if _, ok := o.tr[b][l]; ok {
				both = append(both, l)
			} else {
				onlyU = append(onlyU, l)
			}
		}
		for l := range o.tr[b] {
			if _, ok := u.tr[a][l]; !ok {
				onlyO = append(onlyO, l)
			}
		}
		if len(onlyU)+len(onlyO) > 0 {
			sort.Strings(onlyU)
			sort.Strings(onlyO)
			if len(onlyU) == 1 && len(onlyO) == 1 && subsU[onlyU[0]] != nil && subsO[onlyO[0]] != nil {
				inner := diffDFA(subsU[onlyU[0]], subsO[onlyO[0]], nil, nil, whoU, whoO)
				kind := onlyU[0][:strings.Index(onlyU[0], "{")]
				return pre + " the " + kind + " literals differ: inside, " + inner
			}
			sh := func(ls []string) string {
				if len(ls) == 0 {
					return "nothing else"
				}
				for i := range ls {
					ls[i] = short(ls[i])
				}
				return "`" + strings.Join(ls, "` or `") + "`"
			}
			return fmt.Sprintf("%s %s continues with %s where %s continues with %s", pre, whoU, sh(onlyU), whoO, sh(onlyO))
		}
		sort.Strings(both)
		for _, l := range both {
			np := pair{u.tr[a][l], o.tr[b][l]}
			if !seen[np] {
				seen[np] = true
				q = append(q, item{np, append(it.trace[:len(it.trace):len(it.trace)], l)})
			}
		}
	}
	return ""
}

// ---- insertion pruning

// insertionEdges finds the branches that depend on the result of a uTLS-only call:
// `v := c.X(); if v != nil {…}` (also with `=`, `if v = c.X(); v != nil`, and the inverted
// `== nil` test). The edge taken when the result is non-nil is returned.
func (sc *skelCtx) insertionEdges(fn *an.Fn) map[an.Edge]bool {
	out := map[an.Edge]bool{}
	info := sc.info
	isIns := func(e ast.Expr) (string, bool) {
		call, ok := an.Unparen(e).(*ast.CallExpr)
		if !ok {
			return "", false
		}
		f, ok := an.Callee(info, call).(*types.Func)
		if !ok || !sc.c.utlsOnly(f.Origin()) {
			return "", false
		}
		return f.Name(), true
	}
	preds := map[*cfg.Block][]*cfg.Block{}
	for _, b := range fn.G.Blocks {
		if !b.Live {
			continue
		}
		for _, s := range b.Succs {
			preds[s] = append(preds[s], b)
		}
	}
	// reaching definition of obj before node index i of block b, along single-predecessor chains
	var lastDef func(b *cfg.Block, i int, obj types.Object, depth int) ast.Expr
	lastDef = func(b *cfg.Block, i int, obj types.Object, depth int) ast.Expr {
		for j := i - 1; j >= 0; j-- {
			as, ok := b.Nodes[j].(*ast.AssignStmt)
			if !ok {
				continue
			}
			for k, l := range as.Lhs {
				if id, ok := an.Unparen(l).(*ast.Ident); ok && objOf(info, id) == obj {
					if len(as.Rhs) == len(as.Lhs) {
						return as.Rhs[k]
					}
					return as.Rhs[0]
				}
			}
		}
		if depth < 4 && len(preds[b]) == 1 {
			p := preds[b][0]
			return lastDef(p, len(p.Nodes), obj, depth+1)
		}
		return nil
	}
	handled := map[*ast.CallExpr]bool{}
	for _, b := range fn.G.Blocks {
		if !b.Live || len(b.Succs) != 2 || len(b.Nodes) == 0 {
			continue
		}
		ce, ok := b.Nodes[len(b.Nodes)-1].(ast.Expr)
		if !ok {
			continue
		}
		be, ok := an.Unparen(ce).(*ast.BinaryExpr)
		if !ok || (be.Op != token.NEQ && be.Op != token.EQL) {
			continue
		}
		var v ast.Expr
		switch {
		case an.IsNilIdent(info, be.Y):
			v = be.X
		case an.IsNilIdent(info, be.X):
			v = be.Y
		default:
			continue
		}
		var src ast.Expr
		if id, ok := an.Unparen(v).(*ast.Ident); ok {
			if o := objOf(info, id); o != nil {
				src = lastDef(b, len(b.Nodes)-1, o, 0)
			}
		} else {
			src = v
		}
		if src == nil {
			continue
		}
		name, ok := isIns(src)
		if !ok {
			continue
		}
		handled[an.Unparen(src).(*ast.CallExpr)] = true
		k := 0 // != nil: the true edge is the error branch
		if be.Op == token.EQL {
			k = 1
		}
		out[an.Edge{B: b, K: k}] = true
		sc.insertions = append(sc.insertions, name)
	}
	// insertion calls whose result is used in a way not recognised above
	for _, b := range fn.G.Blocks {
		if !b.Live {
			continue
		}
		for _, n := range b.Nodes {
			an.Inner(n, func(x ast.Node) bool {
				call, ok := x.(*ast.CallExpr)
				if !ok || handled[call] {
					return true
				}
				name, ok := isIns(call)
				if !ok {
					return true
				}
				if es, ok := n.(*ast.ExprStmt); ok && an.Unparen(es.X) == ast.Expr(call) {
					sc.insertions = append(sc.insertions, name) // result discarded
					return true
				}
				if f, ok := an.Callee(info, call).(*types.Func); ok {
					if f.Type().(*types.Signature).Results().Len() == 0 {
						sc.insertions = append(sc.insertions, name)
						return true
					}
				}
				sc.unrecognised = append(sc.unrecognised, name)
				return true
			})
		}
	}
	return out
}

// ---- driver

type sibReport struct {
	Equal        bool
	Witness      string
	EventsU      int
	EventsO      int
	Insertions   []string
	Unrecognised []string
	U, O         *ast.FuncDecl
}

// compareSiblings compares method name of the uTLS type uRecv with the same method of the
// type it shadows. Returns nil when either method is missing.
func (c *Ctx) compareSiblings(uRecv, name string) *sibReport {
	oRecv := sibShadow[uRecv]
	ud := load.FuncDecl(c.P.TLS, uRecv, name)
	od := load.FuncDecl(c.P.TLS, oRecv, name)
	if ud == nil || od == nil || ud.Body == nil || od.Body == nil {
		return nil
	}
	su, so := c.newSkelCtx(ud, true), c.newSkelCtx(od, false)
	fu, fo := an.NewFn(c.P.TLS, ud), an.NewFn(c.P.TLS, od)
	du := su.buildNFA(fu, su.insertionEdges(fu)).toDFA()
	do := so.buildNFA(fo, nil).toDFA()
	rep := &sibReport{EventsU: du.labels(), EventsO: do.labels(), Insertions: su.insertions, Unrecognised: su.unrecognised, U: ud, O: od}
	rep.Witness = diffDFA(du, do, su.subs, so.subs, "(*"+uRecv+")."+name, "(*"+oRecv+")."+name)
	rep.Equal = rep.Witness == ""
	return rep
}

// skeletonOf returns the minimal event automaton of a declaration (no pruning).
func (c *Ctx) skeletonOf(fd *ast.FuncDecl) *dfa {
	sc := c.newSkelCtx(fd, false)
	return sc.buildNFA(an.NewFn(c.P.TLS, fd), nil).toDFA()
}
