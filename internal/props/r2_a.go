package props

// Rules added after the second round of independently written breaking changes (seeded/)
// showed a gap. One function per rule; each names the seeded change that motivated it, the
// clause it decides and why it is a necessary condition of the property. Rules whose fact is
// already decided by a rule of another property re-use that rule (report.Borrow/BorrowIf, or the
// rule function called with this property's rule id) restricted to the relevant constructs.

import (
	"fmt"
	"go/ast"
	"go/token"
	"go/types"
	"sort"
	"strings"

	"golang.org/x/tools/go/cfg"
	"golang.org/x/tools/go/packages"

	"verif/internal/an"
	"verif/internal/load"
	"verif/internal/report"
)

func init() {
	registerExtra("C01", c01SetterCopies)
	registerExtra("C01", c01SecondHelloIsStateHello)
	registerExtra("C02", c02TrailingDots)
	registerExtra("C03", c03PaddingPolicy)
	registerExtra("C03", c03ParrotEncoders)
	registerExtra("C06", c06LegacyVersion)
	registerExtra("C06", c06ExtensionsBlock)
	registerExtra("C07", c07VersionList)
	registerExtra("C07", c07ApplyPathSites)
	registerExtra("C08", c08EmptyVectors)
	registerExtra("C13", c13VersionList)
}

// =================================================================================================
// C01.7 (seeded C01-3): a setter keeps a copy of the caller's bytes
// =================================================================================================

// c01SetterCopies decides, for the clause "every documented edit made between BuildHandshakeState
// and Handshake is visible in the bytes of the ClientHello that is written": an exported UConn
// method that receives a slice and stores a slice into a field of HandshakeState.Hello (the
// fields MarshalClientHelloNoECH reads when the hello is rebuilt at handshake start) must store
// freshly allocated memory, not the parameter or a sub-slice of it. Necessary condition: if the
// field shares the caller's backing array, the sequence SetClientRandom(buf); wipe/reuse buf;
// Handshake puts the later contents of buf on the wire, not the value that was set. Accepted
// copies: make (+copy), append onto nil / an empty literal / a fresh slice, slices.Clone,
// bytes.Clone, a composite literal. Single-definition locals are read through.
func c01SetterCopies(c *Ctx) {
	r := c.R
	r.Explanation += " C01.7 a setter that stores a caller-supplied slice into a HandshakeState.Hello field stores a copy (make+copy, append onto nil, Clone), never the argument or a sub-slice of it."
	tls := c.P.TLS
	info := tls.TypesInfo
	n := 0
	for _, fd := range load.AllFuncDecls(tls) {
		if load.RecvName(fd) != "UConn" || !fd.Name.IsExported() || fd.Type.Params == nil {
			continue
		}
		params := map[types.Object]bool{}
		for _, f := range fd.Type.Params.List {
			for _, nm := range f.Names {
				if o := info.Defs[nm]; o != nil {
					if _, isSlice := o.Type().Underlying().(*types.Slice); isSlice {
						params[o] = true
					}
				}
			}
		}
		if len(params) == 0 {
			continue
		}
		fn := an.NewFn(tls, fd)
		if fn == nil {
			continue
		}
		for _, h := range fn.FindNodes(func(x ast.Node) bool {
			as, ok := x.(*ast.AssignStmt)
			if !ok || len(as.Lhs) != len(as.Rhs) {
				return false
			}
			for _, l := range as.Lhs {
				if r2HelloSliceField(info, l) != "" {
					return true
				}
			}
			return false
		}) {
			as := h.N.(*ast.AssignStmt)
			for i, l := range as.Lhs {
				field := r2HelloSliceField(info, l)
				if field == "" {
					continue
				}
				kind, what := r2SliceOrigin(fn, as.Rhs[i], params, 0)
				cons := "UConn." + fd.Name.Name + ":Hello." + field + ":stored-as-copy"
				switch kind {
				case "fresh":
					n++
					r.Ok("C01.7", cons, c.Pos(as), "Hello.%s receives freshly allocated memory (%s)", field, what)
				case "alias":
					n++
					r.Bad("C01.7", cons, c.Pos(as), "Hello.%s is set to %s, which shares the backing array of the caller's argument %s: bytes the caller writes into its buffer after the call (reuse, wiping) change the ClientHello that is rebuilt and sent at Handshake, so the value that was set is not the one on the wire", field, an.Str(as.Rhs[i]), what)
				case "unknown":
					n++
					r.Unknown("C01.7", cons, c.Pos(as), "cannot tell whether %s is a copy of the argument %s", an.Str(as.Rhs[i]), what)
				}
			}
		}
	}
	r.Count("C01.7_stores", n)
	r.Floor("C01.7", 1)
}

// r2HelloSliceField: e selects a slice-typed field declared in PubClientHelloMsg; returns its name.
func r2HelloSliceField(info *types.Info, e ast.Expr) string {
	se, ok := an.Unparen(e).(*ast.SelectorExpr)
	if !ok || !an.FieldSel(info, se, "PubClientHelloMsg", se.Sel.Name) {
		return ""
	}
	if t := info.TypeOf(se); t != nil {
		if _, isSlice := t.Underlying().(*types.Slice); isSlice {
			return se.Sel.Name
		}
	}
	return ""
}

// r2SliceOrigin classifies the memory a slice expression denotes relative to the slice
// parameters: "alias" (the parameter, a sub-slice or conversion of it, an append onto it),
// "fresh" (newly allocated), "other" (does not involve a parameter), "unknown".
func r2SliceOrigin(fn *an.Fn, e ast.Expr, params map[types.Object]bool, depth int) (kind, what string) {
	info := fn.Info
	e = an.Unparen(e)
	mentions := func(x ast.Node) string {
		for p := range params {
			if mentionsThroughLocals(fn, x, p, 0) {
				return p.Name()
			}
		}
		return ""
	}
	if depth > 6 {
		if p := mentions(e); p != "" {
			return "unknown", p
		}
		return "other", ""
	}
	if d := inlineLocal(fn, e); d != e {
		return r2SliceOrigin(fn, d, params, depth+1)
	}
	switch x := e.(type) {
	case *ast.Ident:
		if an.IsNilIdent(info, x) {
			return "fresh", "nil"
		}
		if params[objOf(info, x)] {
			return "alias", x.Name
		}
	case *ast.SliceExpr:
		return r2SliceOrigin(fn, x.X, params, depth+1)
	case *ast.CompositeLit:
		return "fresh", "composite literal"
	case *ast.CallExpr:
		if tv, ok := info.Types[x.Fun]; ok && tv.IsType() && len(x.Args) == 1 {
			if _, toSlice := tv.Type.Underlying().(*types.Slice); toSlice {
				if _, fromString := info.TypeOf(x.Args[0]).Underlying().(*types.Basic); fromString {
					return "fresh", "conversion from a string"
				}
				return r2SliceOrigin(fn, x.Args[0], params, depth+1) // []T(x) shares x's array
			}
		}
		if id, ok := an.Unparen(x.Fun).(*ast.Ident); ok {
			if b, isB := info.Uses[id].(*types.Builtin); isB {
				switch b.Name() {
				case "make":
					return "fresh", "make"
				case "append":
					if len(x.Args) > 0 {
						k, w := r2SliceOrigin(fn, x.Args[0], params, depth+1)
						if k == "fresh" {
							return "fresh", "append onto " + w
						}
						if k == "alias" {
							return "alias", w
						}
					}
				}
			}
		}
		if f, _ := an.Callee(info, x).(*types.Func); f != nil && f.Pkg() != nil {
			switch f.Pkg().Path() + "." + f.Name() {
			case "slices.Clone", "bytes.Clone", "slices.Concat", "bytes.Repeat", "slices.Repeat":
				return "fresh", f.Pkg().Path() + "." + f.Name()
			}
		}
	}
	if p := mentions(e); p != "" {
		return "unknown", p
	}
	return "other", ""
}

// =================================================================================================
// C01.8 (seeded C01-4): the second ClientHello is built in the message object the caller holds
// =================================================================================================

// c01SecondHelloIsStateHello: UConn.clientHandshake captures hs.hello once and its deferred
// write-back copies that object into HandshakeState.Hello (C01.4). "After the handshake
// Hello.Raw equals the last ClientHello actually sent" therefore needs the HelloRetryRequest
// section to refresh the bytes of hs.hello itself (not of a clone or of another message) from
// the re-marshalled Hello.Raw, after the re-marshal, and to write that same hs.hello. These are
// the facts rule C17.8 decides on processHelloRetryRequest; they are a necessary condition here
// too: if `original` of a different object is refreshed, Hello.Raw after the handshake
// describes the first ClientHello although the second one was sent.
func c01SecondHelloIsStateHello(c *Ctx) {
	keep := map[string]bool{
		"processHelloRetryRequest:original<-Raw":             true,
		"processHelloRetryRequest:marshal<original":          true,
		"processHelloRetryRequest:re-marshal":                true,
		"processHelloRetryRequest:second-hello":              true,
		"processHelloRetryRequest:original<second-hello":     true,
		"clientHandshakeStateTLS13.processHelloRetryRequest": true, // unresolved anchor
	}
	c.R.Explanation += " C01.8 after a HelloRetryRequest the re-marshalled bytes are stored into hs.hello itself (the object clientHandshake copies back into HandshakeState.Hello), after the re-marshal, and that object is the one written (shared with C17.8)."
	c.R.BorrowIf(map[string]string{"C17.8": "C01.8"}, func(o report.Obligation) bool { return keep[o.Construct] }, func() { runC17(c) })
	c.R.Floor("C01.8", 4)
}

// =================================================================================================
// C02.9 (seeded C02-4): no trailing dot survives hostnameInSNI
// =================================================================================================

// c02TrailingDots decides, for the clause "each known extension body parses under its RFC
// grammar (server_name: HostName without a trailing dot, RFC 6066 section 3) under any Config
// (ServerName with trailing dots)": every name hostnameInSNI returns has no trailing dot.
// Decided on the CFG: starting at the function entry and after every assignment to the
// returned variable, the function is explored under the assumption "the variable ends in '.'"
// (len(v) > 0, v[len(v)-1] == '.', strings.HasSuffix(v, ".") all true); no return of the
// variable may be reachable without passing another assignment to it. A loop whose condition
// tests the last byte passes (the exit edge is impossible under the assumption); a single `if`
// does not (after the removal the return is reached without a new test); strings.TrimRight(v,
// ".") establishes the fact by itself. Necessary condition: for the input "example.com.." a
// violation returns "example.com.", which SNIExtension.Read puts on the wire.
func c02TrailingDots(c *Ctx) {
	r := c.R
	info := c.Info()
	fn := c.Fn("C02.9", "", "hostnameInSNI")
	if fn == nil {
		return
	}
	r.Explanation += " C02.9 hostnameInSNI never returns a name ending in '.': explored under the assumption that the name still ends in a dot, no return is reachable from the entry or from any assignment to the name (repeated test of the last byte, or strings.TrimRight)."
	isStripAll := func(e ast.Expr) bool {
		call, ok := an.Unparen(e).(*ast.CallExpr)
		if !ok || len(call.Args) != 2 {
			return false
		}
		f, _ := an.Callee(info, call).(*types.Func)
		if f == nil || f.Pkg() == nil || f.Pkg().Path() != "strings" || f.Name() != "TrimRight" {
			return false
		}
		s, ok := an.ConstString(info, call.Args[1])
		return ok && s == "."
	}
	n := 0
	for _, ret := range fn.Returns() {
		rs := ret.Node().(*ast.ReturnStmt)
		if len(rs.Results) != 1 {
			continue
		}
		res := an.Unparen(inlineLocal(fn, rs.Results[0]))
		if _, isConst := an.ConstString(info, res); isConst {
			continue // "" for IP literals
		}
		n++
		cons := "hostnameInSNI:no-trailing-dot"
		if isStripAll(res) {
			r.Ok("C02.9", cons, c.PosP(ret), "the result is strings.TrimRight(…, \".\")")
			continue
		}
		id, ok := res.(*ast.Ident)
		var v *types.Var
		if ok {
			v, _ = objOf(info, id).(*types.Var)
		}
		if v == nil {
			r.Unknown("C02.9", cons, c.PosP(ret), "the returned expression %s is not a variable or a TrimRight call", an.Str(res))
			continue
		}
		isV := c22IsObj(info, v)
		dotVal := func(e ast.Expr) (bool, bool) {
			e = an.Unparen(e)
			switch x := e.(type) {
			case *ast.BinaryExpr:
				if x.Op != token.EQL && x.Op != token.NEQ {
					return false, false
				}
				a, b := an.Unparen(x.X), an.Unparen(x.Y)
				if _, isIdx := b.(*ast.IndexExpr); isIdx {
					a, b = b, a
				}
				ix, isIdx := a.(*ast.IndexExpr)
				if !isIdx || !isV(ix.X) || !r2IsLastIndex(info, ix.Index, isV) {
					return false, false
				}
				if k, ok := an.ConstInt(info, b); !ok || k != '.' {
					return false, false
				}
				return x.Op == token.EQL, true
			case *ast.CallExpr:
				f, _ := an.Callee(info, x).(*types.Func)
				if f != nil && f.Pkg() != nil && f.Pkg().Path() == "strings" && f.Name() == "HasSuffix" && len(x.Args) == 2 && isV(x.Args[0]) {
					if s, ok := an.ConstString(info, x.Args[1]); ok && s == "." {
						return true, true
					}
				}
			}
			return false, false
		}
		val := r2ThroughLocals(fn, c22Vals(dotVal, c22ZeroVal(info, isV, true)))
		// definitions of v: the entry (parameter) and every assignment
		type def struct {
			p   an.Point
			rhs ast.Expr
		}
		var defs []def
		blocked := map[an.Point]bool{}
		for _, h := range fn.FindNodes(func(x ast.Node) bool {
			as, ok := x.(*ast.AssignStmt)
			if !ok {
				return false
			}
			for _, l := range as.Lhs {
				if isV(l) {
					return true
				}
			}
			return false
		}) {
			as := h.N.(*ast.AssignStmt)
			var rhs ast.Expr
			for i, l := range as.Lhs {
				if isV(l) && len(as.Lhs) == len(as.Rhs) && (as.Tok == token.ASSIGN || as.Tok == token.DEFINE) {
					rhs = as.Rhs[i]
				}
			}
			defs = append(defs, def{h.P, rhs})
			blocked[h.P] = true
		}
		isParam := false
		if fn.Decl.Type.Params != nil {
			for _, f := range fn.Decl.Type.Params.List {
				for _, nm := range f.Names {
					if info.Defs[nm] == v {
						isParam = true
					}
				}
			}
		}
		starts := []def{}
		if isParam {
			starts = append(starts, def{fn.EntryPoint(), nil})
		}
		starts = append(starts, defs...)
		bad, unclear, tested := "", "", 0
		var badPos an.Point
		for _, d := range starts {
			if d.rhs != nil && isStripAll(d.rhs) {
				continue
			}
			w := c22Explore(fn, d.p, val, blocked)
			tested += w.Decided
			if w.Reach[ret] {
				// a condition on the way that mentions the variable but is not one of the recognised
				// tests: the shape is not understood, which is not the same as "not tested"
				for _, a := range c22Atoms(fn) {
					if _, det := c22Eval(a.Expr, val); !det && (w.Reach[a.Point()] || a.Point() == d.p) && mentionsThroughLocals(fn, a.Expr, v, 0) {
						unclear = an.Str(a.Expr)
					}
				}
				if d.p == fn.EntryPoint() {
					bad = "a " + v.Name() + " that ends in '.' reaches the return from the function entry"
				} else {
					bad = "after the assignment " + an.Str(d.p.Node().(*ast.AssignStmt).Lhs[0]) + " = … the return is reached without the last byte being tested again"
				}
				badPos = d.p
			}
		}
		switch {
		case bad != "" && unclear != "":
			r.Unknown("C02.9", cons, c.PosP(ret), "%s; the condition %s mentions %s but is not a recognised test of its last byte", bad, unclear, v.Name())
		case bad == "":
			r.Ok("C02.9", cons, c.PosP(ret), "under the assumption that %s ends in '.' the return is unreachable from the entry and from every assignment to %s (%d condition(s) test the last byte)", v.Name(), v.Name(), tested)
		default:
			pos := c.PosP(ret)
			if badPos.I >= 0 {
				pos = c.PosP(badPos)
			}
			r.Bad("C02.9", cons, pos, "hostnameInSNI can return a name that still ends in '.': %s. For a server name with more than one trailing dot (\"example.com..\") the server_name extension carries \"example.com.\", which RFC 6066 forbids and servers reject as a malformed ClientHello", bad)
		}
	}
	if n == 0 {
		r.Unknown("C02.9", "hostnameInSNI:no-trailing-dot", c.Pos(fn.Decl), "no return of a non-constant name found")
	}
	r.Floor("C02.9", 1)
}

// r2IsLastIndex: e is len(v)-1.
func r2IsLastIndex(info *types.Info, e ast.Expr, isV func(ast.Expr) bool) bool {
	be, ok := an.Unparen(e).(*ast.BinaryExpr)
	if !ok || be.Op != token.SUB {
		return false
	}
	if k, ok := an.ConstInt(info, be.Y); !ok || k != 1 {
		return false
	}
	call, ok := an.Unparen(be.X).(*ast.CallExpr)
	if !ok || len(call.Args) != 1 {
		return false
	}
	id, ok := call.Fun.(*ast.Ident)
	if !ok || id.Name != "len" {
		return false
	}
	if _, isB := info.Uses[id].(*types.Builtin); !isB {
		return false
	}
	return isV(call.Args[0])
}

// =================================================================================================
// C03.8 (seeded C03-3), C03.9 (seeded C03-4), C03.10 (seeded C03-5): facts shared with C05 and C08
// =================================================================================================

// r2ParrotExtTypes lists the extension type names that occur in a predefined parrot's spec.
func r2ParrotExtTypes(c *Ctx) map[string]bool {
	out := map[string]bool{}
	for _, p := range loadParrots(c) {
		for _, e := range p.Exts {
			if t := extType(e); t != "" {
				out[strings.TrimPrefix(t, "*")] = true
			}
		}
	}
	return out
}

// c03PaddingPolicy (C03.8): the parrots that pad do it with
// UtlsPaddingExtension{GetPaddingLen: BoringPaddingStyle}; "padding at its spec position" means
// present exactly when BoringSSL's rule (0xff < unpadded < 0x200) says so, with the length that
// rule gives. That BoringPaddingStyle computes this rule on every interval of lengths is what
// C05.1 decides; it is a necessary condition here as well: a shifted bound adds (or drops) the
// padding extension of a Chrome/Firefox parrot for some server name length.
func c03PaddingPolicy(c *Ctx) {
	if !r2ParrotExtTypes(c)["UtlsPaddingExtension"] {
		c.R.Unknown("C03.8", "parrots:padding", "", "no predefined parrot carries a UtlsPaddingExtension")
		return
	}
	c.R.BorrowIf(map[string]string{"C05.1": "C03.8"}, func(o report.Obligation) bool {
		return strings.HasPrefix(o.Construct, "BoringPaddingStyle")
	}, func() { runC05(c) })
	c.R.Floor("C03.8", 4)
}

// c03ParrotEncoders (C03.9, C03.10): "each extension body equal to the spec's" is decided by
// C03.3 only as far as provenance goes (every emitted byte comes from the extension value). A
// byte taken from the wrong field of the same value (seeded C03-4: the low byte of the HPKE KDF
// id written from the AEAD id) or a wrong type constant (seeded C03-5: the new ALPS type sent
// under the old code point) passes that rule. For every extension type that occurs in a
// predefined parrot:
//
//	C03.9  the encoder obligations of C08.1 (Len() = bytes written, every multi-byte value is
//	       written from one expression, length prefixes match their bodies): if one fails the
//	       bytes sent for that parrot extension differ from the value the spec holds;
//	C03.10 the type constant the encoder emits is the one ExtensionFromID - the table through
//	       which captured browser hellos were turned into these specs - assigns to that Go type,
//	       and that entry constructs this type (C08.2): otherwise the parrot sends the extension
//	       under another extension's code point.
func c03ParrotEncoders(c *Ctx) {
	r := c.R
	r.Explanation += " C03.8 BoringPaddingStyle implements BoringSSL's rule on every interval of lengths (shared with C05.1). C03.9 for every extension type occurring in a parrot the encoder obligations of C08.1 hold (Len = bytes written, each multi-byte value written from one expression, prefixes match bodies). C03.10 the type constant such an encoder emits is the one ExtensionFromID assigns to that type (shared with C08.2)."
	used := r2ParrotExtTypes(c)
	exts := tlsExtensions(c)
	results := map[string]*codecResult{}
	n := 0
	for _, e := range exts {
		if !used[e.Name] {
			continue
		}
		n++
		results[e.Name] = checkEncoder(c, "C03.9", e)
	}
	if n < 15 {
		r.Unknown("C03.9", "parrot-extension-types", "", "only %d extension types found in the parrot specs", n)
	}
	r.Count("C03.9_parrot_extension_types", n)
	r.Floor("C03.9", 100)
	r.BorrowIf(map[string]string{"C03.10": "C03.10"}, func(o report.Obligation) bool {
		// "ExtensionFromID[<id>]-><Type>" and "<Type> emits <id>"
		if i := strings.Index(o.Construct, "]->"); i >= 0 {
			return used[o.Construct[i+3:]]
		}
		if i := strings.Index(o.Construct, " emits "); i >= 0 {
			return used[o.Construct[:i]]
		}
		return true
	}, func() { c08Registry(c, "C03.10", exts, results) })
	r.Floor("C03.10", 20)
}

// =================================================================================================
// C06.5 (seeded C06-3): legacy_version = min(configured maximum, TLS 1.2)
// =================================================================================================

// c06LegacyVersion: FromRaw stores the captured client_version in TLSVersMax, SetTLSVers puts
// it into Config.MaxVersion and makeClientHelloForApplyPreset derives hello.vers from it. "The
// regenerated ClientHello has the same legacy version" needs hello.vers to be lowered to TLS 1.2
// only when it is above it (rule C03.5): an unconditional store regenerates a TLS 1.1 / 1.0
// capture with legacy_version 0x0303.
func c06LegacyVersion(c *Ctx) {
	c.R.Explanation += " C06.5 legacy_version is min(configured maximum, TLS 1.2), so a capture below TLS 1.2 is regenerated with its own version (shared with C03.5)."
	c.R.Borrow(map[string]string{"C03.5": "C06.5"}, func() { c03LegacyVersion(c) })
}

// =================================================================================================
// C06.6 (seeded C06-4): no extensions block for an empty extension list
// =================================================================================================

// c06ExtensionsBlock decides, for the clause "same extension order/bodies and equal total length
// for any ClientHello utls can represent" on a capture that ends after the compression methods
// (no extensions block, as pre-TLS 1.3 clients may send): MarshalClientHelloNoECH must emit
// nothing after the compression methods when uconn.Extensions is empty. Two obligations, both on
// the CFG of MarshalClientHelloNoECH explored in the two worlds len(uconn.Extensions) == 0 / > 0
// (loops over uconn.Extensions do not run in the first; a pointer that is only assigned inside
// them stays nil):
//
//	length-field: the binary.Write of the 2-byte extensions length (its data is derived from the
//	  accumulated TLSExtension.Len() values) is unreachable in the empty world;
//	declared-length: the handshake length compared with the produced byte count (and written in
//	  the header) differs between the two worlds by exactly 2 + the value written in the length
//	  field, i.e. the two bytes of the field are counted only when the field is written.
//
// Necessary condition: if the first fails the regenerated hello of a capture without extensions
// ends in 00 00 and is two bytes longer; if the second fails it cannot be regenerated at all (the
// marshaller's own length check fails). Values are compared as linear forms evaluated by a
// forward data-flow over integer locals (joins of different values become a fresh symbol).
func c06ExtensionsBlock(c *Ctx) {
	r := c.R
	info := c.Info()
	fn := c.Fn("C06.6", "UConn", "MarshalClientHelloNoECH")
	if fn == nil {
		return
	}
	r.Explanation += " C06.6 with an empty extension list MarshalClientHelloNoECH writes no extensions length field and the declared handshake length differs from the non-empty case by exactly 2 + the value of that field."
	isExt := func(e ast.Expr) bool {
		e = an.Unparen(e)
		if an.FieldSel(info, e, "UConn", "Extensions") {
			return true
		}
		// n := len(uconn.Extensions)
		if d := an.Unparen(inlineLocal(fn, e)); d != e {
			if call, ok := d.(*ast.CallExpr); ok && len(call.Args) == 1 {
				if id, ok := call.Fun.(*ast.Ident); ok && id.Name == "len" {
					return an.FieldSel(info, an.Unparen(call.Args[0]), "UConn", "Extensions")
				}
			}
		}
		return false
	}
	// accumulators: integer locals updated with the result of a TLSExtension Len() call
	acc := map[types.Object]bool{}
	isLenCall := func(x ast.Node) bool {
		call, ok := x.(*ast.CallExpr)
		if !ok {
			return false
		}
		f, _ := an.Callee(info, call).(*types.Func)
		if f == nil || f.Name() != "Len" || f.Pkg() == nil || f.Pkg().Path() != Mod {
			return false
		}
		sig, _ := f.Type().(*types.Signature)
		return sig != nil && sig.Recv() != nil
	}
	an.Inner(fn.Body, func(x ast.Node) bool {
		if as, ok := x.(*ast.AssignStmt); ok && len(as.Lhs) == 1 && len(as.Rhs) == 1 && an.Contains(as.Rhs[0], isLenCall) {
			if id, ok := as.Lhs[0].(*ast.Ident); ok {
				if o := objOf(info, id); o != nil {
					acc[o] = true
				}
			}
		}
		return true
	})
	mentionsAcc := func(e ast.Node) bool {
		for o := range acc {
			if mentionsThroughLocals(fn, e, o, 0) {
				return true
			}
		}
		return false
	}
	// the write of the extensions length: binary.Write(w, order, uint16(<derived from acc>))
	type write struct {
		p    an.Point
		data ast.Expr
		call *ast.CallExpr
	}
	var writes []write
	for _, h := range fn.FindNodes(func(x ast.Node) bool {
		call, ok := x.(*ast.CallExpr)
		if !ok || len(call.Args) != 3 {
			return false
		}
		f, _ := an.Callee(info, call).(*types.Func)
		return f != nil && f.Pkg() != nil && f.Pkg().Path() == "encoding/binary" && f.Name() == "Write"
	}) {
		call := h.N.(*ast.CallExpr)
		data := an.Unparen(inlineLocal(fn, call.Args[2]))
		t := info.TypeOf(data)
		if t == nil {
			continue
		}
		if b, ok := t.Underlying().(*types.Basic); !ok || b.Kind() != types.Uint16 || !mentionsAcc(data) {
			continue
		}
		writes = append(writes, write{h.P, data, call})
	}
	if len(acc) == 0 || len(writes) == 0 {
		r.Unknown("C06.6", "MarshalClientHelloNoECH:extensions-length-field", c.Pos(fn.Decl), "no binary.Write of a uint16 derived from the accumulated extension lengths found (%d accumulators)", len(acc))
		return
	}
	empty := r2NewWorld(fn, c22ZeroVal(info, isExt, false), isExt, "0")
	full := r2NewWorld(fn, c22ZeroVal(info, isExt, true), nil, "1")
	for _, w := range writes {
		why := "the 2-byte extensions length (" + an.Str(w.call.Args[2]) + ") is written although uconn.Extensions is empty"
		if empty.tests == 0 {
			why = "no branch of MarshalClientHelloNoECH tests whether uconn.Extensions is empty, so the 2-byte extensions length (" + an.Str(w.call.Args[2]) + ") is always written"
		}
		r.Check(!empty.reach[w.p], "C06.6", "MarshalClientHelloNoECH:extensions-length-field", c.Pos(w.call),
			"the extensions length field is written only when uconn.Extensions is not empty",
			why+": a capture that ends after the compression methods is regenerated with an empty extensions block (two bytes longer, ending in 00 00)")
	}
	// declared length: the expression the produced byte count is compared with
	var declared ast.Expr
	var at an.Point
	for _, a := range c22Atoms(fn) {
		for _, atom := range condAtoms(a.Expr) {
			be, ok := an.Unparen(atom).(*ast.BinaryExpr)
			if !ok || (be.Op != token.NEQ && be.Op != token.EQL) {
				continue
			}
			isBufLen := func(e ast.Expr) bool {
				call, ok := an.Unparen(e).(*ast.CallExpr)
				if !ok {
					return false
				}
				f, _ := an.Callee(info, call).(*types.Func)
				return f != nil && f.Pkg() != nil && f.Pkg().Path() == "bytes" && f.Name() == "Len"
			}
			switch {
			case isBufLen(be.X):
				declared, at = be.Y, a.Point()
			case isBufLen(be.Y):
				declared, at = be.X, a.Point()
			}
		}
	}
	cons := "MarshalClientHelloNoECH:declared-length"
	if declared == nil {
		r.Unknown("C06.6", cons, c.Pos(fn.Decl), "the comparison of the produced byte count with the declared handshake length was not found")
		r.Floor("C06.6", 2)
		return
	}
	l0, ok0 := empty.eval(at, declared)
	l1, ok1 := full.eval(at, declared)
	e1, ok2 := full.eval(writes[0].p, writes[0].data)
	if !ok0 || !ok1 || !ok2 {
		r.Unknown("C06.6", cons, c.PosP(at), "the declared length %s could not be evaluated in both worlds", an.Str(declared))
	} else {
		diff := l1.Sub(l0)
		want := e1.AddC(2)
		rest := diff.Sub(want)
		undecidedJoin := false
		for _, a := range rest.Atoms() {
			if strings.HasPrefix(a, "φ") {
				undecidedJoin = true // a branch the worlds do not decide feeds the length: not a verdict
			}
		}
		switch {
		case diff.Eq(want):
			r.Ok("C06.6", cons, c.PosP(at), "declared length without extensions = %s, with extensions = %s: the difference is 2 + the value of the length field", l0, l1)
		case undecidedJoin:
			r.Unknown("C06.6", cons, c.PosP(at), "declared length without extensions = %s, with extensions = %s: depends on a branch that the emptiness of uconn.Extensions does not decide", l0, l1)
		default:
			r.Bad("C06.6", cons, c.PosP(at), "the declared handshake length is %s without extensions and %s with extensions; the difference must be 2 + %s (the length field and the block it announces), it is off by %s: the two bytes of the extensions length are not counted exactly when the field is written, so a hello without extensions cannot be regenerated with its original length", l0, l1, e1, rest)
		}
	}
	r.Floor("C06.6", 2)
}

// ---- a small symbolic data-flow over integer locals, restricted to a "world" --------------------

// r2World is the CFG of fn restricted by a valuation of branch conditions (edges that cannot be
// taken are removed), with the value of every integer local as a linear form at every point.
type r2World struct {
	fn      *an.Fn
	tag     string
	blocked map[an.Edge]bool
	reach   map[an.Point]bool
	tests   int // branch conditions that test an assumed fact
	in      map[*cfg.Block]map[types.Object]Lin
	vol     map[types.Object]bool // read as a fresh symbol every time (range variables, address taken)
}

// r2NewWorld builds the world of val. skipRange, when set, names the collections whose range
// loops do not execute in this world (the collection is empty). Local pointers that are declared
// without a value and only assigned at points unreachable in the world are nil.
func r2NewWorld(fn *an.Fn, val c22Val, skipRange func(ast.Expr) bool, tag string) *r2World {
	info := fn.Info
	val = r2ThroughLocals(fn, val)
	w := &r2World{fn: fn, tag: tag, vol: map[types.Object]bool{}}
	rangeSkip := map[an.Edge]bool{}
	if skipRange != nil {
		for _, b := range fn.G.Blocks {
			if rs, ok := b.Stmt.(*ast.RangeStmt); ok && b.Live && b.Kind == cfg.KindRangeLoop && len(b.Succs) == 2 && skipRange(rs.X) {
				rangeSkip[an.Edge{B: b, K: 0}] = true
			}
		}
	}
	_, w.tests = c22Impossible(fn, val)
	nilVars := map[types.Object]bool{}
	for round := 0; round < 4; round++ {
		nv := nilVars
		v := c22Vals(val, func(e ast.Expr) (bool, bool) {
			be, ok := an.Unparen(e).(*ast.BinaryExpr)
			if !ok || (be.Op != token.EQL && be.Op != token.NEQ) {
				return false, false
			}
			x, y := an.Unparen(be.X), an.Unparen(be.Y)
			if an.IsNilIdent(info, x) {
				x, y = y, x
			}
			id, ok := x.(*ast.Ident)
			if !ok || !an.IsNilIdent(info, y) || !nv[objOf(info, id)] {
				return false, false
			}
			return be.Op == token.EQL, true
		})
		be, _ := c22Impossible(fn, v)
		for e := range rangeSkip {
			be[e] = true
		}
		w.blocked = be
		w.reach = fn.ReachFromEntry(nil, be)
		// pointers that stay nil in this world: declared without a value, never assigned at a
		// reachable point, address not taken
		next := map[types.Object]bool{}
		an.Inner(fn.Body, func(x ast.Node) bool {
			ds, ok := x.(*ast.DeclStmt)
			if !ok {
				return true
			}
			gd, ok := ds.Decl.(*ast.GenDecl)
			if !ok || gd.Tok != token.VAR {
				return true
			}
			for _, sp := range gd.Specs {
				vs := sp.(*ast.ValueSpec)
				if len(vs.Values) != 0 {
					continue
				}
				for _, nm := range vs.Names {
					o := info.Defs[nm]
					if o == nil {
						continue
					}
					switch o.Type().Underlying().(type) {
					case *types.Pointer, *types.Interface, *types.Slice, *types.Map:
						next[o] = true
					}
				}
			}
			return true
		})
		ast.Inspect(fn.Body, func(x ast.Node) bool {
			switch s := x.(type) {
			case *ast.AssignStmt:
				for _, l := range s.Lhs {
					if id, ok := an.Unparen(l).(*ast.Ident); ok && next[objOf(info, id)] {
						if p, ok := fn.PointOf(s); !ok || w.reach[p] {
							delete(next, objOf(info, id))
						}
					}
				}
			case *ast.UnaryExpr:
				if s.Op == token.AND {
					if id, ok := an.Unparen(s.X).(*ast.Ident); ok {
						delete(next, objOf(info, id))
					}
				}
			}
			return true
		})
		if len(next) == len(nilVars) {
			break
		}
		nilVars = next
	}
	// volatile variables
	ast.Inspect(fn.Body, func(x ast.Node) bool {
		switch s := x.(type) {
		case *ast.RangeStmt:
			for _, kv := range []ast.Expr{s.Key, s.Value} {
				if id, ok := kv.(*ast.Ident); ok {
					if o := objOf(info, id); o != nil {
						w.vol[o] = true
					}
				}
			}
		case *ast.UnaryExpr:
			if s.Op == token.AND {
				if id, ok := an.Unparen(s.X).(*ast.Ident); ok {
					if o := objOf(info, id); o != nil {
						w.vol[o] = true
					}
				}
			}
		case *ast.FuncLit:
			ast.Inspect(s.Body, func(y ast.Node) bool {
				if as, ok := y.(*ast.AssignStmt); ok {
					for _, l := range as.Lhs {
						if id, ok := an.Unparen(l).(*ast.Ident); ok {
							if o := objOf(info, id); o != nil {
								w.vol[o] = true
							}
						}
					}
				}
				return true
			})
		}
		return true
	})
	w.flow()
	return w
}

// r2ThroughLocals extends a valuation to boolean locals with a single definition
// (hasExt := len(x) > 0; if hasExt {…}).
func r2ThroughLocals(fn *an.Fn, val c22Val) c22Val {
	var v c22Val
	v = func(e ast.Expr) (bool, bool) {
		if b, ok := val(e); ok {
			return b, true
		}
		if id, ok := an.Unparen(e).(*ast.Ident); ok {
			if d := inlineLocal(fn, id); d != ast.Expr(id) {
				return c22Eval(d, v)
			}
		}
		return false, false
	}
	return v
}

func r2IsIntVar(o types.Object) bool {
	v, ok := o.(*types.Var)
	if !ok || v.IsField() {
		return false
	}
	b, ok := v.Type().Underlying().(*types.Basic)
	return ok && b.Info()&types.IsInteger != 0
}

// expr evaluates e in state st. Sub-expressions that are not linear become symbols: the text of
// the expression when it is pure and mentions no tracked local, a position-unique symbol otherwise.
func (w *r2World) expr(st map[types.Object]Lin, e ast.Expr) Lin {
	info := w.fn.Info
	e = an.Unparen(e)
	if v, ok := an.ConstInt(info, e); ok {
		return linConst(v)
	}
	opaque := func() Lin {
		unique := false
		ast.Inspect(e, func(x ast.Node) bool {
			switch y := x.(type) {
			case *ast.Ident:
				if o := objOf(info, y); o != nil {
					if _, tracked := st[o]; tracked || w.vol[o] {
						unique = true
					}
				}
			case *ast.CallExpr:
				if id, ok := an.Unparen(y.Fun).(*ast.Ident); ok {
					if _, isB := info.Uses[id].(*types.Builtin); isB && (id.Name == "len" || id.Name == "cap") {
						return true
					}
				}
				if tv, ok := info.Types[y.Fun]; ok && tv.IsType() {
					return true
				}
				unique = true
			}
			return true
		})
		if unique {
			return linAtom(fmt.Sprintf("%s@%d", an.Str(e), e.Pos()))
		}
		return linAtom(an.Str(e))
	}
	switch x := e.(type) {
	case *ast.Ident:
		o := objOf(info, x)
		if o == nil {
			return opaque()
		}
		if w.vol[o] {
			return linAtom(fmt.Sprintf("%s@%d", x.Name, x.Pos()))
		}
		if l, ok := st[o]; ok {
			return l
		}
		return linAtom(x.Name)
	case *ast.CallExpr:
		if tv, ok := info.Types[x.Fun]; ok && tv.IsType() && len(x.Args) == 1 {
			if b, ok := tv.Type.Underlying().(*types.Basic); ok && b.Info()&types.IsInteger != 0 {
				return w.expr(st, x.Args[0]) // integer conversion (no overflow modelled)
			}
		}
	case *ast.BinaryExpr:
		switch x.Op {
		case token.ADD:
			return w.expr(st, x.X).Add(w.expr(st, x.Y))
		case token.SUB:
			return w.expr(st, x.X).Sub(w.expr(st, x.Y))
		case token.MUL:
			a, b := w.expr(st, x.X), w.expr(st, x.Y)
			if a.IsConst() {
				return b.Scale(a.C)
			}
			if b.IsConst() {
				return a.Scale(b.C)
			}
		case token.SHL:
			a, b := w.expr(st, x.X), w.expr(st, x.Y)
			if b.IsConst() && b.C >= 0 && b.C < 32 {
				return a.Scale(1 << uint(b.C))
			}
		}
	}
	return opaque()
}

// step applies one CFG node to the state.
func (w *r2World) step(st map[types.Object]Lin, n ast.Node) {
	info := w.fn.Info
	set := func(l ast.Expr, v Lin) {
		if id, ok := an.Unparen(l).(*ast.Ident); ok {
			if o := objOf(info, id); o != nil && r2IsIntVar(o) && !w.vol[o] {
				st[o] = v
			}
		}
	}
	switch s := n.(type) {
	case *ast.AssignStmt:
		switch {
		case (s.Tok == token.ASSIGN || s.Tok == token.DEFINE) && len(s.Lhs) == len(s.Rhs):
			vals := make([]Lin, len(s.Rhs))
			for i, rh := range s.Rhs {
				vals[i] = w.expr(st, rh)
			}
			for i, l := range s.Lhs {
				set(l, vals[i])
			}
		case s.Tok == token.ADD_ASSIGN && len(s.Lhs) == 1:
			set(s.Lhs[0], w.expr(st, s.Lhs[0]).Add(w.expr(st, s.Rhs[0])))
		case s.Tok == token.SUB_ASSIGN && len(s.Lhs) == 1:
			set(s.Lhs[0], w.expr(st, s.Lhs[0]).Sub(w.expr(st, s.Rhs[0])))
		default:
			for _, l := range s.Lhs {
				set(l, linAtom(fmt.Sprintf("%s@%d", an.Str(l), s.Pos())))
			}
		}
	case *ast.IncDecStmt:
		d := int64(1)
		if s.Tok == token.DEC {
			d = -1
		}
		set(s.X, w.expr(st, s.X).AddC(d))
	case *ast.DeclStmt:
		if gd, ok := s.Decl.(*ast.GenDecl); ok && gd.Tok == token.VAR {
			for _, sp := range gd.Specs {
				vs := sp.(*ast.ValueSpec)
				for i, nm := range vs.Names {
					switch {
					case len(vs.Values) == len(vs.Names):
						set(nm, w.expr(st, vs.Values[i]))
					case len(vs.Values) == 0:
						set(nm, linConst(0))
					default:
						set(nm, linAtom(fmt.Sprintf("%s@%d", nm.Name, nm.Pos())))
					}
				}
			}
		}
	}
}

// flow computes the state at the entry of every block reachable in the world (forward, joins of
// unequal values become the symbol φ<world>.<block>.<var>).
func (w *r2World) flow() {
	w.in = map[*cfg.Block]map[types.Object]Lin{}
	out := map[*cfg.Block]map[types.Object]Lin{}
	entry := w.fn.Entry()
	preds := map[*cfg.Block][]*cfg.Block{}
	for _, b := range w.fn.G.Blocks {
		if !b.Live {
			continue
		}
		for k, s := range b.Succs {
			if !w.blocked[an.Edge{B: b, K: k}] {
				preds[s] = append(preds[s], b)
			}
		}
	}
	equal := func(a, b map[types.Object]Lin) bool {
		if len(a) != len(b) {
			return false
		}
		for k, v := range a {
			if o, ok := b[k]; !ok || !o.Eq(v) {
				return false
			}
		}
		return true
	}
	for round := 0; round < 40; round++ {
		changed := false
		for _, b := range w.fn.G.Blocks {
			if !b.Live {
				continue
			}
			var st map[types.Object]Lin
			if b == entry {
				st = map[types.Object]Lin{}
			}
			for _, p := range preds[b] {
				po, ok := out[p]
				if !ok {
					continue
				}
				if st == nil {
					st = map[types.Object]Lin{}
					for k, v := range po {
						st[k] = v
					}
					continue
				}
				for k, v := range po {
					if cur, ok := st[k]; ok && !cur.Eq(v) {
						st[k] = linAtom(fmt.Sprintf("φ%s.%d.%s", w.tag, b.Index, k.Name()))
					} else if !ok {
						st[k] = v
					}
				}
			}
			if st == nil {
				continue // not reached (yet)
			}
			if old, ok := w.in[b]; !ok || !equal(old, st) {
				changed = true
			}
			w.in[b] = st
			o := map[types.Object]Lin{}
			for k, v := range st {
				o[k] = v
			}
			for _, n := range b.Nodes {
				w.step(o, n)
			}
			out[b] = o
		}
		if !changed {
			break
		}
	}
}

// eval gives the value of e just before the node at p.
func (w *r2World) eval(p an.Point, e ast.Expr) (Lin, bool) {
	st, ok := w.in[p.B]
	if !ok {
		return Lin{}, false
	}
	cur := map[types.Object]Lin{}
	for k, v := range st {
		cur[k] = v
	}
	for i := 0; i < p.I && i < len(p.B.Nodes); i++ {
		w.step(cur, p.B.Nodes[i])
	}
	return w.expr(cur, e), true
}

// =================================================================================================
// C07.7, C07.8 (seeded C07-3) and C13.5 (seeded C13-3): the generated supported_versions list
// =================================================================================================

// c07VersionList (C07.7): a spec imported from a capture without supported_versions gets its
// list from makeSupportedVersions(TLSVersMin, TLSVersMax) inside ApplyPreset (SetTLSVers).
// C09.2 decides that this helper allocates max-min+1 entries in the parameters' own unsigned
// arithmetic and fills them by index; in that form it is total (a reversed range wraps around to
// a list ApplyPreset rejects with an error). The second clause of C07 ("the resulting spec can be
// applied without panicking") needs the helper to be total, so the same fact is required here.
func c07VersionList(c *Ctx) {
	c.R.Explanation += " C07.7 makeSupportedVersions has the total form C09.2 recognises. C07.8 every allocation size, index, slice bound, division, type assertion and explicit panic in ApplyPreset's own body and in the functions reachable from SetTLSVers is proved safe (the spec's version range is the only integer pair a capture controls there)."
	c.R.BorrowIf(map[string]string{"C09.2": "C07.7"}, func(o report.Obligation) bool { return o.Construct == "makeSupportedVersions" }, func() { c09MakeVersions(c) })
	c.R.Floor("C07.7", 1)
}

// c07ApplyPathSites (C07.8): the only integers of a ClientHelloSpec that are used as sizes or
// indices when the spec is applied are TLSVersMin/TLSVersMax (everything else is sized by the
// length of a list the spec holds). FromRaw copies them from the record-layer and client
// versions of the capture, so any pair can arrive. Every make(), index, slice expression,
// division, single-value type assertion and explicit panic in ApplyPreset's own body and in the
// functions reachable from SetTLSVers must therefore be proved safe from dominating guards and
// value ranges (the prover of C07.2/C07.6), in particular "size >= 0" for every make().
// Necessary condition for "the resulting spec can be applied without panicking": an allocation
// whose size can be negative (int(max)-int(min)+1 for a capture whose record version exceeds its
// client version by two steps) panics in makeslice.
func c07ApplyPathSites(c *Ctx) {
	r := c.R
	pp := newPrProg(c)
	var entries []*prFunc
	for _, e := range [][2]string{{"UConn", "ApplyPreset"}, {"UConn", "SetTLSVers"}} {
		if f := pp.lookup("", e[0], e[1]); f != nil {
			entries = append(entries, f)
		} else {
			r.Unknown("C07.8", "entry:"+e[0]+"."+e[1], "", "entry point not found")
		}
	}
	// ApplyPreset's own body, and everything SetTLSVers reaches
	reach := pp.reach(entries, func(from *prFunc, e prEdge) bool {
		return from.Name() != "UConn.ApplyPreset" || e.to.Name() == "UConn.SetTLSVers"
	})
	verdicts, _ := pp.judge(reach, prOptions{})
	prReport(c, "C07", map[string]string{"alloc": "C07.8", "bounds": "C07.8", "assert": "C07.8", "panic": "C07.8"}, verdicts)
	r.Count("C07.8_functions", len(reach.order))
	r.Floor("C07.8", 12)
}

// c13VersionList (C13.5): Config.MinVersion/MaxVersion (what pickTLSVersion accepts) and the
// supported_versions list on the wire are both derived from the spec's [TLSVersMin, TLSVersMax]:
// the list by makeSupportedVersions, in SetTLSVers and in generateRandomizedSpec. "The client
// completes a handshake only at a version its ClientHello advertised" needs that helper to
// enumerate every version of the range (C09.2): if it leaves one out (the minimum, say), a
// server that ignores supported_versions and answers with that version is accepted although the
// hello never listed it.
func c13VersionList(c *Ctx) {
	c.R.Explanation += " C13.5 the generated supported_versions list enumerates every version of the spec's range (makeSupportedVersions, shared with C09.2)."
	keep := map[string]bool{"makeSupportedVersions": true, "generateRandomizedSpec:supported_versions": true}
	c.R.BorrowIf(map[string]string{"C09.2": "C13.5"}, func(o report.Obligation) bool { return keep[o.Construct] }, func() { runC09(c) })
	c.R.Floor("C13.5", 2)
}

// =================================================================================================
// C08.9 (seeded C08-5): a decoder refuses an empty vector only if its encoder cannot produce one
// =================================================================================================

// c08EmptyAccepted: vectors (keyed Type#k, k-th length-prefixed vector of the extension body in
// wire order) whose emptiness the decoder may reject although the encoder would emit an empty
// vector for an empty field: the wire format itself has a lower bound above zero, so an empty
// field is outside "field values within wire limits".
var c08EmptyAccepted = map[string]string{
	"SNIExtension#2":                      "HostName<1..2^16-1> (RFC 6066 section 3)",
	"SupportedCurvesExtension#1":          "named_group_list<2..2^16-1> (RFC 8446 4.2.7)",
	"SignatureAlgorithmsExtension#1":      "supported_signature_algorithms<2..2^16-2> (RFC 8446 4.2.3)",
	"SignatureAlgorithmsCertExtension#1":  "supported_signature_algorithms<2..2^16-2> (RFC 8446 4.2.3)",
	"FakeDelegatedCredentialsExtension#1": "supported_signature_algorithm<2..2^16-2> (RFC 9345 section 3)",
	"ALPNExtension#1":                     "protocol_name_list<2..2^16-1> (RFC 7301 3.1)",
	"ALPNExtension#2":                     "ProtocolName<1..2^8-1> (RFC 7301 3.1)",
	"ApplicationSettingsExtension#1":      "supported_protocols<2..2^16-1> (draft-vvv-tls-alps-01 section 4)",
	"ApplicationSettingsExtension#2":      "ProtocolName<1..2^8-1> (RFC 7301 3.1)",
	"ApplicationSettingsExtensionNew#1":   "supported_protocols<2..2^16-1> (draft-vvv-tls-alps-01 section 4)",
	"ApplicationSettingsExtensionNew#2":   "ProtocolName<1..2^8-1> (RFC 7301 3.1)",
	"SupportedVersionsExtension#1":        "versions<2..254> (RFC 8446 4.2.1)",
	"SupportedPointsExtension#1":          "ec_point_format_list<1..2^8-1> (RFC 8422 5.1.2)",
	// not rejected today; listed so that adding the check the RFC allows is not reported
	"PSKKeyExchangeModesExtension#1":        "ke_modes<1..255> (RFC 8446 4.2.9)",
	"UtlsCompressCertExtension#1":           "algorithms<2..2^8-2> (RFC 8879 section 3)",
	"CookieExtension#1":                     "cookie<1..2^16-1> (RFC 8446 4.2.2)",
	"FakeTokenBindingExtension#1":           "key_parameters_list<1..2^8-1> (RFC 8472 section 2)",
	"GREASEEncryptedClientHelloExtension#2": "payload<1..2^16-1> (draft-ietf-tls-esni section 5)",
	"FakePreSharedKeyExtension#1":           "identities<7..2^16-1> (RFC 8446 4.2.11)",
	"FakePreSharedKeyExtension#2":           "identity<1..2^16-1> (RFC 8446 4.2.11)",
	"FakePreSharedKeyExtension#3":           "binders<33..2^16-1> (RFC 8446 4.2.11)",
	"FakePreSharedKeyExtension#4":           "PskBinderEntry<32..255> (RFC 8446 4.2.11)",
	"KeyShareExtension#2":                   "key_exchange<1..2^16-1> (RFC 8446 4.2.8)",
}

// c08EmptyVectors decides, for the clause "decoding a body produced by Read() and encoding again
// reproduces the same bytes": Write must accept every body Read can produce. For every extension
// type with both, each test `v.Empty()` / `len(v) == 0` of a vector v obtained with a
// length-prefixed read, whose "empty" outcome leads to error returns only, is matched with the
// k-th length prefix of the encoder layout (E2; the two grammars agree by C08.7). The rejection
// is allowed when the encoder cannot emit that vector empty - its length value has a positive
// constant part (SNI: 3+len(name)), or Len() is 0 exactly when it would be empty (the extension
// is omitted) - or when the vector is in c08EmptyAccepted (lower bound of the wire format).
// Otherwise Read() of a value with an empty list (KeyShareExtension{}: client_shares<0..2^16-1>,
// sent to ask for a HelloRetryRequest) produces a body that Write refuses, and FromRaw /
// FingerprintClientHello fail on a capture containing it.
func c08EmptyVectors(c *Ctx) {
	r := c.R
	r.Explanation += " C08.9 a decoder rejects an empty length-prefixed vector only where the encoder cannot emit it empty (positive constant length, or extension omitted) or the wire format has a lower bound above zero (explicit list)."
	tls := c.P.TLS
	info := tls.TypesInfo
	n := 0
	for _, e := range tlsExtensions(c) {
		if e.Write == nil || e.Read == nil || e.Len == nil {
			continue
		}
		// decoder: functions that parse the body (Write and the module Write it delegates to), and
		// the vectors in wire order
		var decls []*ast.FuncDecl
		vecs := r2DecoderVectors(tls, e.Write, 0, &decls)
		type reject struct {
			k    int
			pos  string
			text string
		}
		var rejects []reject
		for _, fd := range decls {
			fn := an.NewFn(tls, fd)
			if fn == nil {
				continue
			}
			for _, a := range c22Atoms(fn) {
				for _, atom := range condAtoms(a.Expr) {
					operand, emptyWhen, ok := r2EmptinessTest(info, atom)
					if !ok {
						continue
					}
					// the read that filled the operand: the closest one before the test (a variable
					// may be reused for several vectors)
					k := -1
					for i, v := range vecs {
						if v.decl == fd && r2SameOperand(info, v.out, operand) && v.pos <= atom.Pos() && (k < 0 || v.pos > vecs[k].pos) {
							k = i
						}
					}
					if k < 0 {
						continue
					}
					// outcome of the whole condition when the vector is empty
					o, det := c22Eval(a.Expr, func(x ast.Expr) (bool, bool) {
						if x == atom {
							return emptyWhen, true
						}
						return false, false
					})
					if !det {
						continue
					}
					edge := a.F
					if o {
						edge = a.T
					}
					if rejectsAll, _ := failEdgeExits(fn, edge, nil); !rejectsAll {
						continue // e.g. the loop condition `for !v.Empty()`
					}
					rejects = append(rejects, reject{k, c.Pos(atom), an.Str(atom)})
				}
			}
		}
		if len(rejects) == 0 {
			continue
		}
		// encoder: length prefixes of the body in wire order
		enc, zero, prob := r2EncoderVectors(tls, e)
		for _, rj := range rejects {
			n++
			key := fmt.Sprintf("%s#%d", e.Name, rj.k+1)
			cons := e.Name + ".Write:rejects-empty-vector#" + fmt.Sprint(rj.k+1)
			if prob != "" || len(enc) != len(vecs) {
				if why, ok := c08EmptyAccepted[key]; ok {
					r.Ok("C08.9", cons, rj.pos, "lower bound of the wire format: %s", why)
					continue
				}
				r.Unknown("C08.9", cons, rj.pos, "the decoder has %d length-prefixed vectors, the derived encoder layout %d (%s): cannot match %s", len(vecs), len(enc), prob, rj.text)
				continue
			}
			l := enc[rj.k]
			nonneg := true
			for _, k := range l.T {
				if k < 0 {
					nonneg = false
				}
			}
			omitted := false
			for _, z := range zero {
				if strings.ReplaceAll(z, " ", "") == strings.ReplaceAll(l.String(), " ", "")+"==0" {
					omitted = true
				}
			}
			switch {
			case nonneg && l.C > 0:
				r.Ok("C08.9", cons, rj.pos, "the encoder always emits this vector with length %s > 0", l)
			case omitted:
				r.Ok("C08.9", cons, rj.pos, "Len() is 0 when %s is 0: the extension is omitted instead of carrying an empty vector", l)
			case c08EmptyAccepted[key] != "":
				r.Ok("C08.9", cons, rj.pos, "lower bound of the wire format: %s", c08EmptyAccepted[key])
			default:
				r.Bad("C08.9", cons, rj.pos, "%s.Write fails when vector #%d of the body is empty (%s), but %s.Read emits that vector with length %s, which is 0 for an empty list, and the wire format allows it: a body produced by the encoder is refused by its own decoder, so re-encoding (and FromRaw / FingerprintClientHello on such a capture) fails", e.Name, rj.k+1, rj.text, e.Name, l)
			}
		}
	}
	r.Count("C08.9_rejections", n)
	r.Floor("C08.9", 15)
}

type r2DecVec struct {
	out  ast.Expr // the expression that receives the vector
	decl *ast.FuncDecl
	pos  token.Pos
}

// r2DecoderVectors lists the length-prefixed reads of a decoder in source (= wire) order,
// following calls to module methods named Write (a decoder delegating to an embedded type).
func r2DecoderVectors(pkg *packages.Package, fd *ast.FuncDecl, depth int, decls *[]*ast.FuncDecl) []r2DecVec {
	info := pkg.TypesInfo
	*decls = append(*decls, fd)
	var out []r2DecVec
	ast.Inspect(fd.Body, func(n ast.Node) bool {
		call, ok := n.(*ast.CallExpr)
		if !ok {
			return true
		}
		fn, ok := an.Callee(info, call).(*types.Func)
		if !ok || fn.Pkg() == nil {
			return true
		}
		name := fn.Name()
		arg := func(i int) ast.Expr {
			if i >= len(call.Args) {
				return nil
			}
			a := an.Unparen(call.Args[i])
			if u, ok := a.(*ast.UnaryExpr); ok && u.Op == token.AND {
				return an.Unparen(u.X)
			}
			return a
		}
		switch {
		case strings.HasSuffix(fn.Pkg().Path(), "crypto/cryptobyte") && strings.HasPrefix(name, "ReadUint") && strings.HasSuffix(name, "LengthPrefixed"):
			out = append(out, r2DecVec{arg(0), fd, call.Pos()})
		case fn.Pkg().Path() == Mod && strings.HasPrefix(name, "readUint") && strings.HasSuffix(name, "LengthPrefixed"):
			out = append(out, r2DecVec{arg(1), fd, call.Pos()})
		case fn.Pkg().Path() == Mod && name == "Write" && depth < 2:
			if d := declOf(pkg, fn); d != nil && d != fd {
				out = append(out, r2DecoderVectors(pkg, d, depth+1, decls)...)
			}
		}
		return true
	})
	return out
}

// r2EmptinessTest recognises v.Empty() on a cryptobyte.String and len(v) == 0 / != 0 / > 0 /
// < 1; emptyWhen is the truth value of the atom when v is empty.
func r2EmptinessTest(info *types.Info, atom ast.Expr) (operand ast.Expr, emptyWhen, ok bool) {
	atom = an.Unparen(atom)
	switch x := atom.(type) {
	case *ast.CallExpr:
		f, _ := an.Callee(info, x).(*types.Func)
		if f != nil && f.Name() == "Empty" && f.Pkg() != nil && strings.HasSuffix(f.Pkg().Path(), "crypto/cryptobyte") {
			if se, ok := an.Unparen(x.Fun).(*ast.SelectorExpr); ok {
				return an.Unparen(se.X), true, true
			}
		}
	case *ast.BinaryExpr:
		a, b, op := an.Unparen(x.X), an.Unparen(x.Y), x.Op
		if _, isConst := an.ConstInt(info, a); isConst {
			a, b, op = b, a, flipTok(op)
		}
		k, isConst := an.ConstInt(info, b)
		call, isCall := a.(*ast.CallExpr)
		if !isConst || !isCall || len(call.Args) != 1 {
			return nil, false, false
		}
		id, isId := call.Fun.(*ast.Ident)
		if !isId || id.Name != "len" {
			return nil, false, false
		}
		if _, isB := info.Uses[id].(*types.Builtin); !isB {
			return nil, false, false
		}
		switch {
		case op == token.EQL && k == 0, op == token.LSS && k == 1, op == token.LEQ && k == 0:
			return an.Unparen(call.Args[0]), true, true
		case op == token.NEQ && k == 0, op == token.GTR && k == 0, op == token.GEQ && k == 1:
			return an.Unparen(call.Args[0]), false, true
		}
	}
	return nil, false, false
}

// r2SameOperand: both expressions denote the same variable (identifier objects) or the same
// access path (rendered text for selectors such as ks.Data).
func r2SameOperand(info *types.Info, a, b ast.Expr) bool {
	if a == nil || b == nil {
		return false
	}
	ia, ok1 := an.Unparen(a).(*ast.Ident)
	ib, ok2 := an.Unparen(b).(*ast.Ident)
	if ok1 && ok2 {
		return objOf(info, ia) != nil && objOf(info, ia) == objOf(info, ib)
	}
	if ok1 != ok2 {
		return false
	}
	return an.Str(a) == an.Str(b)
}

// r2EncoderVectors derives the values of the body's length prefixes (offset >= 4) from the
// encoder, in wire order, and the conditions under which Len() is 0.
func r2EncoderVectors(pkg *packages.Package, e *extImpl) (vecs []Lin, zero []string, problem string) {
	ls := runEncoder(pkg, e.Len)
	main, zero, prob := lenForm(ls)
	if prob != "" || main == nil {
		return nil, nil, "Len(): " + prob
	}
	rs := runEncoder(pkg, e.Read)
	if len(rs.issues) > 0 {
		return nil, nil, "Read(): " + strings.Join(rs.issues, "; ")
	}
	fs := mergeConstPair(groupFields(rs.writes), 2)
	type item struct {
		off Lin
		l   Lin
	}
	var items []item
	for _, f := range fs {
		off := f.off
		if f.loop != "" {
			off = loopSubst(f.off, f.loop, "first")
		}
		if off.IsConst() && off.C < 4 {
			continue
		}
		if f.copy || f.lin == nil || f.lin.IsConst() {
			continue
		}
		items = append(items, item{off, *f.lin})
	}
	sort.SliceStable(items, func(i, j int) bool {
		d := items[j].off.Sub(items[i].off)
		return d.NonNeg() && !(d.IsConst() && d.C == 0)
	})
	for _, it := range items {
		vecs = append(vecs, it.l)
	}
	return vecs, zero, ""
}
