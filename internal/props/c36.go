package props

import (
	"go/ast"
	"go/token"
	"go/types"

	"verif/internal/an"
	"verif/internal/load"
)

func init() { register(&Prop{ID: "C36", Run: runC36}) }

const lruLock = LockID("lruSessionCache.Mutex")

func runC36(c *Ctx) {
	r := c.R
	r.Technique = "must-hold lockset dataflow (guarded-by, balance) over every access in the package; CFG guarded-effect and pairing rules on the container/list and map operations of lruSessionCache, callees and fields resolved through types"
	r.Explanation = "C36.1 every access to lruSessionCache.m, .q and .capacity in the package happens with the embedded mutex held (construction literals excepted), and C36.2 every exit of Put/Get releases it. " +
		"C36.3 capacity: the list grows (PushFront/PushBack/Insert*) only on the true branch of q.Len() < capacity; every other insertion of a new key into the map is preceded by deleting the map entry of the element taken from the eviction end of the list, whose stored key is rewritten to the new key before it is re-indexed. " +
		"C36.4 list and map stay paired: a list insertion is stored in the map under the key being put, a list removal is paired with a delete of that key, and every exit reached after a list/map mutation has performed its partner. " +
		"C36.5 LRU order: hits (Get, Put on an existing key) and insertions move/push to one end of the list and eviction takes from the other. " +
		"C36.6 Put(key, nil) on an existing key removes the element and the map entry and stores nothing. " +
		"C36.7 no method returns or stores elsewhere a reference to the map, the list, a list element or an entry. " +
		"C36.8 the constructor stores the requested capacity, replaced by a positive default when it is < 1."
	r.NotDecided = "linearizability to a reference LRU for all histories (history-quantified); Put(missing key, nil) inserts a nil entry (upstream behaviour, outside these clauses); correctness of container/list"
	info := c.Info()

	// ---- C36.1 guarded-by
	n := c.guardedBy("C36.1", []guardSpec{
		{Owner: "lruSessionCache", Field: "m", Lock: lruLock},
		{Owner: "lruSessionCache", Field: "q", Lock: lruLock},
		{Owner: "lruSessionCache", Field: "capacity", Lock: lruLock},
	})
	r.Count("c36_field_accesses", n)
	r.Floor("C36.1", 12)

	// ---- C36.2 balance
	var methods []*ast.FuncDecl
	for _, fd := range load.AllFuncDecls(c.P.TLS) {
		if load.RecvName(fd) == "lruSessionCache" {
			methods = append(methods, fd)
			c.lockBalance("C36.2", fd, nil)
		}
	}
	r.Floor("C36.2", 2)

	isM := func(e ast.Expr) bool { return an.FieldSel(info, an.Unparen(e), "lruSessionCache", "m") }
	isQ := func(e ast.Expr) bool { return an.FieldSel(info, an.Unparen(e), "lruSessionCache", "q") }
	// list method call on c.q
	listCall := func(n ast.Node, names ...string) (*ast.CallExpr, string) {
		call, ok := n.(*ast.CallExpr)
		if !ok {
			return nil, ""
		}
		se, ok := an.Unparen(call.Fun).(*ast.SelectorExpr)
		if !ok || !isQ(se.X) {
			return nil, ""
		}
		f, _ := an.Callee(info, call).(*types.Func)
		if f == nil || f.Pkg() == nil || f.Pkg().Path() != "container/list" {
			return nil, ""
		}
		for _, nm := range names {
			if f.Name() == nm {
				return call, nm
			}
		}
		if len(names) == 0 {
			return call, f.Name()
		}
		return nil, ""
	}
	grow := []string{"PushFront", "PushBack", "InsertBefore", "InsertAfter", "PushFrontList", "PushBackList"}

	put := c.Fn("C36.3", "lruSessionCache", "Put")
	get := c.Fn("C36.5", "lruSessionCache", "Get")
	if put != nil {
		c.c36Put(put, isM, isQ, listCall, grow)
	}

	// ---- C36.5 LRU order across Put and Get
	frontOps, backOps := 0, 0
	evictFront, evictBack := 0, 0
	for _, fn := range []*an.Fn{put, get} {
		if fn == nil {
			continue
		}
		for _, h := range fn.FindNodes(func(n ast.Node) bool { cl, _ := listCall(n); return cl != nil }) {
			_, nm := listCall(h.N)
			switch nm {
			case "PushFront", "MoveToFront":
				frontOps++
			case "PushBack", "MoveToBack":
				backOps++
			case "Back":
				evictBack++
			case "Front":
				evictFront++
			}
		}
	}
	switch {
	case frontOps+backOps == 0 || evictFront+evictBack == 0:
		r.Unknown("C36.5", "lruSessionCache:ends", "", "recency/eviction operations on the list not found")
	case (backOps == 0 && evictFront == 0) || (frontOps == 0 && evictBack == 0):
		r.Ok("C36.5", "lruSessionCache:ends", "", "recency moves use one end of the list (%d ops) and eviction the other (%d)", frontOps+backOps, evictFront+evictBack)
	default:
		r.Bad("C36.5", "lruSessionCache:ends", "", "recency and eviction do not use opposite ends of the list consistently (front moves/pushes %d, back moves/pushes %d, evict-from-front %d, evict-from-back %d): the entry evicted is not the least recently used one", frontOps, backOps, evictFront, evictBack)
	}
	if get != nil {
		c.c36Get(get, isM, listCall)
	}
	r.Floor("C36.5", 4)

	// ---- C36.7 no leak of internals
	internal := func(t types.Type) bool {
		switch x := t.(type) {
		case *types.Map:
			return true
		case *types.Pointer:
			if n := namedOf(x); n != nil {
				if n.Obj().Pkg() != nil && n.Obj().Pkg().Path() == "container/list" {
					return true
				}
				if n.Obj().Name() == "lruSessionCacheEntry" || n.Obj().Name() == "lruSessionCache" {
					return true
				}
			}
		}
		return false
	}
	for _, fd := range methods {
		fn := an.NewFn(c.P.TLS, fd)
		leak := ""
		for _, rp := range fn.Returns() {
			for _, res := range rp.Node().(*ast.ReturnStmt).Results {
				if t := info.TypeOf(res); t != nil && internal(t) {
					leak = "returns a " + t.String()
				}
			}
		}
		if fd.Type.Results != nil {
			for _, f := range fd.Type.Results.List {
				if t := info.TypeOf(f.Type); t != nil && internal(t) {
					leak = "has a result of type " + t.String()
				}
			}
		}
		recvObj := types.Object(nil)
		if len(fd.Recv.List[0].Names) == 1 {
			recvObj = info.Defs[fd.Recv.List[0].Names[0]]
		}
		ast.Inspect(fd.Body, func(n ast.Node) bool {
			switch x := n.(type) {
			case *ast.AssignStmt:
				for i, l := range x.Lhs {
					if i >= len(x.Rhs) && len(x.Rhs) != 1 {
						continue
					}
					rh := x.Rhs[0]
					if len(x.Rhs) == len(x.Lhs) {
						rh = x.Rhs[i]
					}
					t := info.TypeOf(rh)
					if t == nil || !internal(t) {
						continue
					}
					// allowed destinations: locals, and the cache's own map/list slots
					l = an.Unparen(l)
					if _, isLocal := l.(*ast.Ident); isLocal {
						continue
					}
					if ix, ok := l.(*ast.IndexExpr); ok && isM(ix.X) {
						continue
					}
					if root, _, ok := selPath(info, l); ok && root == recvObj {
						continue
					}
					leak = "stores a " + t.String() + " into " + an.Str(l)
				}
			case *ast.GoStmt:
				leak = "starts a goroutine"
			case *ast.SendStmt:
				if t := info.TypeOf(x.Value); t != nil && internal(t) {
					leak = "sends a " + t.String() + " on a channel"
				}
			}
			return true
		})
		r.Check(leak == "", "C36.7", "lruSessionCache."+fd.Name.Name+":no-leak", c.Pos(fd), "no reference to the map, list, element or entry escapes", "lruSessionCache."+fd.Name.Name+" "+leak+": the caller can touch cache internals without the mutex")
	}
	r.Floor("C36.7", 2)

	// ---- C36.8 constructor
	if fn := c.Fn("C36.8", "", "NewLRUClientSessionCache"); fn != nil {
		capParam := info.Defs[fn.Decl.Type.Params.List[0].Names[0]]
		var litCap ast.Expr
		ast.Inspect(fn.Body, func(n ast.Node) bool {
			cl, ok := n.(*ast.CompositeLit)
			if !ok || an.TypeName(info.TypeOf(cl)) != "lruSessionCache" {
				return true
			}
			for _, el := range cl.Elts {
				if kv, ok := el.(*ast.KeyValueExpr); ok {
					if id, ok := kv.Key.(*ast.Ident); ok && id.Name == "capacity" {
						litCap = kv.Value
					}
				}
			}
			return true
		})
		r.Check(litCap != nil && lsIdentObj(info, litCap) == capParam, "C36.8", "NewLRUClientSessionCache:capacity", c.Pos(fn.Decl), "the cache's capacity is the constructor's argument", "the cache is not built with the requested capacity")
		// capacity < 1 => positive default
		pass, _, _ := condEdges(fn, func(cond ast.Expr) (bool, bool) {
			be, ok := cond.(*ast.BinaryExpr)
			if !ok {
				return false, false
			}
			op, ok := an.BinaryWith(be, func(e ast.Expr) bool { return lsIdentObj(info, e) == capParam }, func(e ast.Expr) bool { _, k := an.ConstInt(info, e); return k })
			if !ok {
				return false, false
			}
			var k int64
			if v, isC := an.ConstInt(info, be.Y); isC {
				k = v
			} else {
				k, _ = an.ConstInt(info, be.X)
			}
			if (op == token.LSS && k == 1) || (op == token.LEQ && k == 0) {
				return true, true
			}
			return false, false
		})
		okDefault := false
		for _, e := range pass {
			for p := range reachEdge(fn, e, nil) {
				if p.I < 0 {
					continue
				}
				if as, ok := p.Node().(*ast.AssignStmt); ok && len(as.Lhs) == 1 && len(as.Rhs) == 1 && lsIdentObj(info, as.Lhs[0]) == capParam {
					if v, isC := an.ConstInt(info, as.Rhs[0]); isC && v >= 1 {
						okDefault = true
					}
				}
			}
		}
		r.Check(okDefault, "C36.8", "NewLRUClientSessionCache:default", c.Pos(fn.Decl), "capacity < 1 is replaced by a positive default", "a capacity below 1 is not replaced by a positive default: with capacity 0 every Put evicts q.Back() of an empty list (nil dereference)")
	}
	r.Floor("C36.8", 2)
}

// c36Put: capacity, pairing and nil-deletion rules on Put.
func (c *Ctx) c36Put(fn *an.Fn, isM, isQ func(ast.Expr) bool, listCall func(ast.Node, ...string) (*ast.CallExpr, string), grow []string) {
	r := c.R
	info := c.Info()
	if len(fn.Decl.Type.Params.List) == 0 {
		return
	}
	var params []types.Object
	for _, f := range fn.Decl.Type.Params.List {
		for _, nm := range f.Names {
			params = append(params, info.Defs[nm])
		}
	}
	if len(params) != 2 {
		r.Unknown("C36.3", "Put:params", c.Pos(fn.Decl), "Put does not have (key, state) parameters")
		return
	}
	keyObj, valObj := params[0], params[1]
	isKey := func(e ast.Expr) bool { return lsIdentObj(info, e) == keyObj }

	// capacity test: c.q.Len() < c.capacity (or len(c.m) < c.capacity), any orientation
	isLen := func(e ast.Expr) bool {
		e = an.Unparen(e)
		if cl, nm := listCall(e, "Len"); cl != nil && nm == "Len" {
			return true
		}
		if call, ok := e.(*ast.CallExpr); ok {
			if id, ok := an.Unparen(call.Fun).(*ast.Ident); ok && id.Name == "len" && len(call.Args) == 1 && isM(call.Args[0]) {
				return true
			}
		}
		return false
	}
	isCap := func(e ast.Expr) bool { return an.FieldSel(info, an.Unparen(e), "lruSessionCache", "capacity") }
	room, _, capAt := condEdges(fn, func(cond ast.Expr) (bool, bool) {
		op, ok := an.BinaryWith(cond, isLen, isCap)
		if !ok {
			return false, false
		}
		switch op {
		case token.LSS: // len < cap : room on true
			return true, true
		case token.GEQ: // len >= cap : room on false
			return true, false
		}
		return false, false
	})
	if len(room) == 0 {
		// a weaker or missing comparison
		weak := false
		for _, b := range fn.G.Blocks {
			if !b.Live || len(b.Nodes) == 0 {
				continue
			}
			if e, ok := b.Nodes[len(b.Nodes)-1].(ast.Expr); ok {
				if _, ok := an.BinaryWith(an.Unparen(e), isLen, isCap); ok {
					weak = true
					r.Bad("C36.3", "Put:capacity-test", c.P.Pos(e.Pos()), "the size is compared with the capacity by an operator other than `<` / `>=` (%s): the cache can hold capacity+1 entries", an.Str(e))
				}
			}
		}
		if !weak {
			r.Bad("C36.3", "Put:capacity-test", c.Pos(fn.Decl), "Put never compares the size of the list with the capacity: the cache is unbounded")
		}
	}
	for _, p := range capAt {
		r.Ok("C36.3", "Put:capacity-test", c.PosP(p), "size compared with capacity before inserting")
	}
	// growth only where there is room
	grows := fn.FindNodes(func(n ast.Node) bool { cl, _ := listCall(n, grow...); return cl != nil })
	for i, g := range grows {
		r.Check(len(room) > 0 && fn.MustPass(g.P, nil, room), "C36.3", "Put:grow#"+lsItoa(i+1), c.Pos(g.N), "the list grows only where Len() < capacity",
			"the list can grow on a path where Len() < capacity does not hold: the cache exceeds its capacity")
	}
	if len(grows) == 0 {
		r.Unknown("C36.3", "Put:grow", c.Pos(fn.Decl), "no list insertion found in Put")
	}
	// eviction candidates: locals assigned from c.q.Back()/Front()
	evictVars := map[types.Object]bool{}
	entryVars := map[types.Object]types.Object{} // entry var -> element var it was taken from
	ast.Inspect(fn.Body, func(n ast.Node) bool {
		as, ok := n.(*ast.AssignStmt)
		if !ok || len(as.Lhs) != 1 || len(as.Rhs) != 1 {
			return true
		}
		lo := lsIdentObj(info, as.Lhs[0])
		if lo == nil {
			return true
		}
		if cl, _ := listCall(an.Unparen(as.Rhs[0]), "Back", "Front"); cl != nil {
			evictVars[lo] = true
		}
		// entry := elem.Value.(*lruSessionCacheEntry)
		if ta, ok := an.Unparen(as.Rhs[0]).(*ast.TypeAssertExpr); ok {
			if se, ok := an.Unparen(ta.X).(*ast.SelectorExpr); ok && se.Sel.Name == "Value" {
				if eo := lsIdentObj(info, se.X); eo != nil {
					entryVars[lo] = eo
				}
			}
		}
		return true
	})
	isEvictedKey := func(e ast.Expr) bool {
		se, ok := an.Unparen(e).(*ast.SelectorExpr)
		if !ok || !an.FieldSel(info, se, "lruSessionCacheEntry", "sessionKey") {
			return false
		}
		if o := lsIdentObj(info, se.X); o != nil && evictVars[entryVars[o]] {
			return true
		}
		// elem.Value.(*lruSessionCacheEntry).sessionKey
		if ta, ok := an.Unparen(se.X).(*ast.TypeAssertExpr); ok {
			if v, ok := an.Unparen(ta.X).(*ast.SelectorExpr); ok && evictVars[lsIdentObj(info, v.X)] {
				return true
			}
		}
		return false
	}
	deletes := fn.FindNodes(func(n ast.Node) bool {
		call, ok := n.(*ast.CallExpr)
		if !ok || len(call.Args) != 2 {
			return false
		}
		id, ok := an.Unparen(call.Fun).(*ast.Ident)
		return ok && id.Name == "delete" && isM(call.Args[0])
	})
	var evictDeletes []an.Point
	for _, d := range deletes {
		if isEvictedKey(d.N.(*ast.CallExpr).Args[1]) {
			evictDeletes = append(evictDeletes, d.P)
		}
	}
	// map stores c.m[k] = v
	mapStores := fn.FindNodes(func(n ast.Node) bool {
		as, ok := n.(*ast.AssignStmt)
		if !ok {
			return false
		}
		for _, l := range as.Lhs {
			if ix, ok := an.Unparen(l).(*ast.IndexExpr); ok && isM(ix.X) {
				return true
			}
		}
		return false
	})
	keyRewrites := fn.Find(func(n ast.Node) bool {
		as, ok := n.(*ast.AssignStmt)
		if !ok || len(as.Lhs) != 1 || len(as.Rhs) != 1 {
			return false
		}
		se, ok := an.Unparen(as.Lhs[0]).(*ast.SelectorExpr)
		if !ok || !an.FieldSel(info, se, "lruSessionCacheEntry", "sessionKey") {
			return false
		}
		o := lsIdentObj(info, se.X)
		return o != nil && evictVars[entryVars[o]] && isKey(as.Rhs[0])
	})
	if len(mapStores) == 0 {
		r.Unknown("C36.4", "Put:map-store", c.Pos(fn.Decl), "no store into the map found in Put")
	}
	for i, ms := range mapStores {
		as := ms.N.(*ast.AssignStmt)
		cons := "Put:map-store#" + lsItoa(i+1)
		ix := an.Unparen(as.Lhs[0]).(*ast.IndexExpr)
		r.Check(isKey(ix.Index), "C36.4", cons+":key", c.Pos(as), "indexed by the key being put", "the map is indexed by something other than Put's key: Get(key) cannot find the entry that was just put")
		// either a growth (guarded by room) or an eviction-reuse
		withGrow := an.Contains(as, func(n ast.Node) bool { cl, _ := listCall(n, grow...); return cl != nil })
		if !withGrow && len(as.Rhs) == 1 {
			// m[k] = elem where elem came from a growth call earlier?
			if o := lsIdentObj(info, as.Rhs[0]); o != nil && !evictVars[o] {
				for _, g := range grows {
					if gas, ok := g.P.Node().(*ast.AssignStmt); ok && len(gas.Lhs) == 1 && lsIdentObj(info, gas.Lhs[0]) == o && fn.MustPass(ms.P, []an.Point{g.P}, nil) {
						withGrow = true
					}
				}
			}
		}
		if withGrow {
			r.Check(len(room) > 0 && fn.MustPass(ms.P, nil, room), "C36.3", cons+":room", c.Pos(as), "a fresh element is indexed only where there was room", "a fresh element is indexed on a path without room")
			continue
		}
		// reuse of the evicted element
		okElem := len(as.Rhs) == 1 && evictVars[lsIdentObj(info, as.Rhs[0])]
		r.Check(okElem, "C36.4", cons+":element", c.Pos(as), "the re-indexed element is the one taken from the eviction end", "the element stored under the new key is neither a freshly pushed one nor the evicted one: list and map diverge")
		r.Check(len(evictDeletes) > 0 && fn.MustPass(ms.P, evictDeletes, nil), "C36.3", cons+":evict-first", c.Pos(as),
			"the evicted element's old key is deleted from the map before the new key is added",
			"a new key is added to the map at capacity without first deleting the map entry of the evicted element (by the key stored in it): the map grows without bound while the list stays at capacity, and Get returns sessions under evicted keys")
		r.Check(len(keyRewrites) > 0 && fn.MustPass(ms.P, keyRewrites, nil), "C36.3", cons+":rekey", c.Pos(as),
			"the reused entry's stored key is rewritten to the new key",
			"the reused entry keeps its old sessionKey: the next eviction of this element deletes the wrong map entry, so the map leaks one entry per eviction")
		// the state is replaced too
		stateStores := fn.Find(func(n ast.Node) bool {
			a2, ok := n.(*ast.AssignStmt)
			if !ok || len(a2.Lhs) != 1 || len(a2.Rhs) != 1 {
				return false
			}
			se, ok := an.Unparen(a2.Lhs[0]).(*ast.SelectorExpr)
			if !ok || !an.FieldSel(info, se, "lruSessionCacheEntry", "state") {
				return false
			}
			o := lsIdentObj(info, se.X)
			return o != nil && evictVars[entryVars[o]] && lsIdentObj(info, a2.Rhs[0]) == valObj
		})
		r.Check(len(stateStores) > 0 && fn.MustPass(ms.P, stateStores, nil), "C36.4", cons+":state", c.Pos(as), "the reused entry receives the new session", "the reused entry keeps the evicted session: Get(newKey) returns another server's session")
		// and it becomes the most recent
		moves := fn.Find(func(n ast.Node) bool {
			cl, _ := listCall(n, "MoveToFront", "MoveToBack")
			return cl != nil && len(cl.Args) == 1 && evictVars[lsIdentObj(info, cl.Args[0])]
		})
		exits := fn.ExitsReachable(ms.P, pointSet(moves), nil)
		r.Check(len(moves) > 0 && (fn.MustPass(ms.P, moves, nil) || len(exits) == 0), "C36.5", cons+":recency", c.Pos(as), "the reused element is moved to the recent end", "the reused element stays at the eviction end: the entry just put is the next one evicted")
	}
	// ---- pairing: list removal <-> map delete; list growth <-> map store
	for i, h := range fn.FindNodes(func(n ast.Node) bool { cl, _ := listCall(n, "Remove"); return cl != nil }) {
		var dels []an.Point
		for _, d := range deletes {
			if isKey(d.N.(*ast.CallExpr).Args[1]) {
				dels = append(dels, d.P)
			}
		}
		exits := fn.ExitsReachable(h.P, pointSet(dels), nil)
		r.Check(len(dels) > 0 && (len(exits) == 0 || fn.MustPass(h.P, dels, nil)), "C36.4", "Put:remove#"+lsItoa(i+1), c.Pos(h.N), "the list removal is paired with delete(m, key)",
			"an element is removed from the list but its map entry stays (or another key is deleted): Get(key) then returns a removed element's session forever and the map grows")
	}
	for i, d := range deletes {
		call := d.N.(*ast.CallExpr)
		if !isKey(call.Args[1]) {
			continue
		}
		rm := fn.Find(func(n ast.Node) bool { cl, _ := listCall(n, "Remove"); return cl != nil })
		exits := fn.ExitsReachable(d.P, pointSet(rm), nil)
		r.Check(len(rm) > 0 && (fn.MustPass(d.P, rm, nil) || len(exits) == 0), "C36.4", "Put:delete#"+lsItoa(i+1), c.Pos(call), "delete(m, key) is paired with a list removal",
			"a map entry is deleted but its element stays in the list: the list fills with unreachable elements and live keys are evicted early")
	}
	for i, g := range grows {
		var st []an.Point
		for _, ms := range mapStores {
			st = append(st, ms.P)
		}
		exits := fn.ExitsReachable(g.P, pointSet(st), nil)
		same := false
		for _, p := range st {
			if p == g.P {
				same = true
			}
		}
		r.Check(same || (len(st) > 0 && len(exits) == 0), "C36.4", "Put:grow-indexed#"+lsItoa(i+1), c.Pos(g.N), "the pushed element is stored in the map", "an element is pushed onto the list without being stored in the map: it can never be found or updated, only evicted")
	}

	// ---- C36.6 Put(nil) deletes; the existing-key branch updates
	lookups := fn.FindNodes(func(n ast.Node) bool {
		as, ok := n.(*ast.AssignStmt)
		if !ok || len(as.Lhs) != 2 || len(as.Rhs) != 1 {
			return false
		}
		ix, ok := an.Unparen(as.Rhs[0]).(*ast.IndexExpr)
		return ok && isM(ix.X) && isKey(ix.Index)
	})
	if len(lookups) == 0 {
		r.Unknown("C36.6", "Put:lookup", c.Pos(fn.Decl), "no `elem, ok := c.m[key]` lookup found")
		return
	}
	lk := lookups[0].N.(*ast.AssignStmt)
	elemObj, okObj := lsIdentObj(info, lk.Lhs[0]), lsIdentObj(info, lk.Lhs[1])
	found, _, _ := condEdges(fn, func(cond ast.Expr) (bool, bool) {
		x, neg := negated(cond)
		if lsIdentObj(info, x) == okObj && okObj != nil {
			return true, !neg
		}
		return false, false
	})
	_, isNilV, _ := nilTestEdges(fn, valObj)
	nonNilV, _, _ := nilTestEdges(fn, valObj)
	if len(found) == 0 || len(isNilV) == 0 {
		r.Bad("C36.6", "Put:nil-delete", c.Pos(fn.Decl), "Put has no branch for (existing key, nil state): Put(key, nil) does not delete")
		return
	}
	for _, e := range isNilV {
		if !fn.MustPass(edgePt(e), nil, found) {
			continue // a nil test outside the existing-key branch
		}
		rm := fn.Find(func(n ast.Node) bool {
			cl, _ := listCall(n, "Remove")
			return cl != nil && len(cl.Args) == 1 && lsIdentObj(info, cl.Args[0]) == elemObj
		})
		var dels []an.Point
		for _, d := range deletes {
			if isKey(d.N.(*ast.CallExpr).Args[1]) {
				dels = append(dels, d.P)
			}
		}
		start := an.Point{B: e.B, I: len(e.B.Nodes) - 1}
		ex1 := fn.ExitsReachable(start, pointSet(rm), edgesExcept(e))
		ex2 := fn.ExitsReachable(start, pointSet(dels), edgesExcept(e))
		r.Check(len(rm) > 0 && len(dels) > 0 && len(ex1) == 0 && len(ex2) == 0, "C36.6", "Put:nil-delete", c.PosP(edgePt(e)),
			"Put(existing key, nil) removes the element and deletes the map entry before returning",
			"Put(existing key, nil) can return without removing the element from the list and the key from the map: a session the handshake asked to forget is still returned by Get")
		// nothing stored on this branch
		stores := false
		for p := range reachEdge(fn, e, nil) {
			if p.I < 0 {
				continue
			}
			if an.Contains(p.Node(), func(n ast.Node) bool {
				as, ok := n.(*ast.AssignStmt)
				if !ok {
					return false
				}
				for _, l := range as.Lhs {
					if se, ok := an.Unparen(l).(*ast.SelectorExpr); ok && an.FieldSel(info, se, "lruSessionCacheEntry", "state") {
						return true
					}
					if ix, ok := an.Unparen(l).(*ast.IndexExpr); ok && isM(ix.X) {
						return true
					}
				}
				return false
			}) {
				stores = true
			}
		}
		r.Check(!stores, "C36.6", "Put:nil-stores-nothing", c.PosP(edgePt(e)), "the delete branch stores nothing", "the (existing key, nil) branch also stores into the cache")
	}
	// update branch: existing key, non-nil state
	for _, e := range nonNilV {
		if !fn.MustPass(edgePt(e), nil, found) {
			continue
		}
		start := an.Point{B: e.B, I: len(e.B.Nodes) - 1}
		upd := fn.Find(func(n ast.Node) bool {
			as, ok := n.(*ast.AssignStmt)
			if !ok || len(as.Lhs) != 1 || len(as.Rhs) != 1 {
				return false
			}
			se, ok := an.Unparen(as.Lhs[0]).(*ast.SelectorExpr)
			return ok && an.FieldSel(info, se, "lruSessionCacheEntry", "state") && lsIdentObj(info, as.Rhs[0]) == valObj
		})
		mv := fn.Find(func(n ast.Node) bool {
			cl, _ := listCall(n, "MoveToFront", "MoveToBack")
			return cl != nil && len(cl.Args) == 1 && lsIdentObj(info, cl.Args[0]) == elemObj
		})
		ex1 := fn.ExitsReachable(start, pointSet(upd), edgesExcept(e))
		ex2 := fn.ExitsReachable(start, pointSet(mv), edgesExcept(e))
		r.Check(len(upd) > 0 && len(ex1) == 0, "C36.6", "Put:update-state", c.PosP(edgePt(e)), "Put(existing key, state) replaces the stored session", "Put on an existing key can return without replacing the stored session: Get keeps returning the stale session")
		r.Check(len(mv) > 0 && len(ex2) == 0, "C36.5", "Put:update-recency", c.PosP(edgePt(e)), "Put(existing key, state) makes the entry most recent", "Put on an existing key does not move the element to the recent end: a just-refreshed session is evicted as if unused")
		// the existing-key branch must not fall through to the insert path
		grown := false
		for p := range reachEdge(fn, e, nil) {
			if p.I >= 0 && an.Contains(p.Node(), func(n ast.Node) bool { cl, _ := listCall(n, grow...); return cl != nil }) {
				grown = true
			}
		}
		r.Check(!grown, "C36.4", "Put:update-no-insert", c.PosP(edgePt(e)), "an existing key is updated in place, never inserted again", "after updating an existing key Put goes on to insert a second element for the same key: the old element becomes unreachable and occupies capacity")
	}
	r.Floor("C36.3", 5)
	r.Floor("C36.4", 7)
	r.Floor("C36.6", 3)
}

// c36Get: a hit refreshes recency and returns the entry's state; a miss returns (nil,false).
func (c *Ctx) c36Get(fn *an.Fn, isM func(ast.Expr) bool, listCall func(ast.Node, ...string) (*ast.CallExpr, string)) {
	r := c.R
	info := c.Info()
	var keyObj types.Object
	if ps := fn.Decl.Type.Params.List; len(ps) == 1 && len(ps[0].Names) == 1 {
		keyObj = info.Defs[ps[0].Names[0]]
	}
	lookups := fn.FindNodes(func(n ast.Node) bool {
		as, ok := n.(*ast.AssignStmt)
		if !ok || len(as.Lhs) != 2 || len(as.Rhs) != 1 {
			return false
		}
		ix, ok := an.Unparen(as.Rhs[0]).(*ast.IndexExpr)
		return ok && isM(ix.X) && lsIdentObj(info, ix.Index) == keyObj && keyObj != nil
	})
	if len(lookups) == 0 {
		r.Unknown("C36.5", "Get:lookup", c.Pos(fn.Decl), "no `elem, ok := c.m[key]` lookup by Get's key found")
		return
	}
	lk := lookups[0].N.(*ast.AssignStmt)
	elemObj, okObj := lsIdentObj(info, lk.Lhs[0]), lsIdentObj(info, lk.Lhs[1])
	hit, miss, _ := condEdges(fn, func(cond ast.Expr) (bool, bool) {
		x, neg := negated(cond)
		if lsIdentObj(info, x) == okObj && okObj != nil {
			return true, !neg
		}
		return false, false
	})
	if len(hit) == 0 {
		r.Bad("C36.5", "Get:hit", c.Pos(lk), "Get does not branch on the lookup result")
		return
	}
	mv := fn.Find(func(n ast.Node) bool {
		cl, _ := listCall(n, "MoveToFront", "MoveToBack")
		return cl != nil && len(cl.Args) == 1 && lsIdentObj(info, cl.Args[0]) == elemObj
	})
	for _, e := range hit {
		start := an.Point{B: e.B, I: len(e.B.Nodes) - 1}
		exits := fn.ExitsReachable(start, pointSet(mv), edgesExcept(e))
		r.Check(len(mv) > 0 && len(exits) == 0, "C36.5", "Get:hit-recency", c.PosP(edgePt(e)), "a hit moves the element to the recent end before returning", "a Get hit does not refresh the element's position: the cache evicts in insertion order (FIFO), not least-recently-used")
		okRet := true
		saw := false
		for p := range reachEdge(fn, e, nil) {
			if p.I < 0 {
				continue
			}
			rs, ok := p.Node().(*ast.ReturnStmt)
			if !ok {
				continue
			}
			saw = true
			if len(rs.Results) != 2 {
				okRet = false
				continue
			}
			// state of the element looked up
			res0 := throughLocal(info, fn.Body, rs.Results[0])
			fromElem := an.Contains(res0, func(n ast.Node) bool {
				se, ok := n.(*ast.SelectorExpr)
				return ok && an.FieldSel(info, se, "lruSessionCacheEntry", "state")
			}) && mentionsThroughLocals(fn, res0, elemObj, 0)
			id, _ := an.Unparen(rs.Results[1]).(*ast.Ident)
			if !fromElem || id == nil || id.Name != "true" {
				okRet = false
			}
		}
		r.Check(saw && okRet, "C36.5", "Get:hit-returns-state", c.PosP(edgePt(e)), "a hit returns the looked-up entry's state and true", "a Get hit does not return (state of the element found under the key, true)")
	}
	for _, e := range miss {
		okRet, saw := true, false
		for p := range reachEdge(fn, e, nil) {
			if p.I < 0 {
				continue
			}
			if rs, ok := p.Node().(*ast.ReturnStmt); ok {
				saw = true
				if len(rs.Results) != 2 || !an.IsNilIdent(info, rs.Results[0]) {
					okRet = false
				} else if id, _ := an.Unparen(rs.Results[1]).(*ast.Ident); id == nil || id.Name != "false" {
					okRet = false
				}
			}
		}
		r.Check(saw && okRet, "C36.5", "Get:miss", c.PosP(edgePt(e)), "a miss returns (nil, false)", "a Get miss does not return (nil, false)")
	}
}
