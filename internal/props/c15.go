package props

import (
	"go/ast"
	"go/token"
	"go/types"
	"strings"

	"verif/internal/an"
)

func init() { register(&Prop{ID: "C15", Run: runC15}) }

const c15ECH = "echClientContext"

func runC15(c *Ctx) {
	r := c.R
	r.Technique = "taint-cut / guarded-effect rules on ApplyPreset and SNIExtension.writeToUConn, error-use analysis of the ECH marshalling chain, access-path def-use in processHelloRetryRequest, assumption-pruned reachability (ECH accepted / rejected, BuildByUtls / BuildByGoTLS worlds) on handshake(), readServerParameters, sendClientCertificate, ordering rules on computeAndUpdateOuterECHExtension and echTranscriptMsg"
	r.Explanation = "C15.1 with an ECH config list the SNI extension that reaches the wire is overwritten with the config's public name on every path out of ApplyPreset's SNI case, and SNIExtension.writeToUConn neither copies the public name into Config.ServerName nor the secret name into the outer hello. " +
		"C15.2 no error of the ECH marshalling chain (computeAndUpdateOuterECHExtension, encode/decode of the inner hello, HPKE seal, re-marshal, echTranscriptMsg) is dropped. " +
		"C15.3 after a HelloRetryRequest the KeyShareExtension is refilled from the hello object that received the fresh share (or a synchronising copy precedes the refill). " +
		"C15.4 the ECH context reaches the TLS 1.3 state; on the BuildByUtls path the inner transcript is computed with echTranscriptMsg (never with the Go marshalling of the inner hello) in handshake() and in the HelloRetryRequest branch, after hs.hello.original was refreshed; acceptance switches hello, transcript, server name and ECHAccepted. " +
		"C15.5 a rejected ECH marks echRejected, stores the server's retry configs, never completes the handshake, sends ech_required and returns ECHRejectionError with those configs; no client certificate is produced for the public-name server. " +
		"C15.6 extensionsList examines ext.Read's error and sizes its buffer from ext.Len(). " +
		"C15.7 MarshalClientHello mirrors the compressed fields of the outer hello into the inner one and stores the ECH context; computeAndUpdateOuterECHExtension seals over a marshalled hello with a placeholder, re-marshals with the ciphertext and restores the spec's ECH extension. " +
		"C15.8 echTranscriptMsg hashes the inner hello as the server reconstructs it (same outer-extension order as the sender)."
	r.NotDecided = "HPKE correctness and what the server decrypts; absence of the secret name in the emitted bytes for every extension type (only the SNI channel is tracked); UConn.SetSNI called after the hello was built (rewrites the outer SNI extension with the caller's name; outside the statement's quantifier); certificate verification against the public name on rejection (C14)"
	c15SNI(c)
	c15Errors(c)
	c15HRR(c)
	c15Handoff(c)
	c15Reject(c)
	c15ExtList(c)
	c15Marshal(c)
	c15Transcript(c)
}

func (c *Ctx) c15IsECHList() func(ast.Expr) bool {
	info := c.Info()
	return func(e ast.Expr) bool {
		return an.FieldSel(info, an.Unparen(e), "Config", "EncryptedClientHelloConfigList")
	}
}

// ---------------------------------------------------------------- C15.1
func c15SNI(c *Ctx) {
	r := c.R
	info := c.Info()
	isList := c.c15IsECHList()
	if fn := c.Fn("C15.1", "UConn", "ApplyPreset"); fn != nil {
		echSet := c22ZeroVal(info, isList, true)
		var pub, other []c22Init
		for _, in := range c22FieldInits(fn, "SNIExtension", "ServerName") {
			if in.Rhs != nil && an.MentionsField(info, in.Rhs, "echConfig", "PublicName") {
				pub = append(pub, in)
			} else {
				other = append(other, in)
			}
		}
		// the *SNIExtension clause of the type switch
		var clause *ast.CaseClause
		an.Inner(fn.Body, func(n ast.Node) bool {
			ts, ok := n.(*ast.TypeSwitchStmt)
			if !ok {
				return true
			}
			for _, cl := range ts.Body.List {
				cc := cl.(*ast.CaseClause)
				for _, t := range cc.List {
					if an.TypeName(info.TypeOf(t)) == "SNIExtension" {
						clause = cc
					}
				}
			}
			return true
		})
		pubPts := map[an.Point]bool{}
		for _, in := range pub {
			pubPts[in.P] = true
		}
		switch {
		case clause == nil:
			r.Unknown("C15.1", "ApplyPreset:sni-public-name", c.Pos(fn.Decl), "no `case *SNIExtension` clause found in ApplyPreset")
		case len(clause.Body) == 0 || len(pub) == 0:
			r.Bad("C15.1", "ApplyPreset:sni-public-name", c.Pos(clause), "with an ECH config list the SNI extension is never overwritten with the config's public name: the outer ClientHello carries Config.ServerName in clear")
		default:
			start, ok := c22FirstPointIn(fn, clause)
			if !ok {
				r.Unknown("C15.1", "ApplyPreset:sni-public-name", c.Pos(clause), "clause body not in the CFG")
				break
			}
			from := an.Point{B: start.B, I: start.I - 1}
			w := c22Explore(fn, from, echSet, pubPts)
			r.Check(w.Decided > 0 && len(w.Succ) == 0, "C15.1", "ApplyPreset:sni-public-name", c.Pos(clause),
				"with an ECH config list every path from the SNI case to a success exit overwrites ext.ServerName with ech.config.PublicName", "with an ECH config list ApplyPreset can finish without overwriting the SNI extension's name with the public name: the secret Config.ServerName is sent in the outer ClientHello")
		}
		// no store of another name after the overwrite inside the clause
		for _, o := range other {
			late := false
			for _, p := range pub {
				if clause != nil && o.Node.Pos() > p.Node.Pos() && o.Node.Pos() < clause.End() && p.Node.Pos() > clause.Pos() {
					late = true
				}
			}
			r.Check(!late, "C15.1", "ApplyPreset:sni-no-late-store", c.Pos(o.Node), "no other name is stored after the public name", "ext.ServerName is assigned "+an.Str(o.Rhs)+" after the public-name overwrite: the secret name replaces the public one")
		}
		// the overwrite itself only happens with an ECH config
		noECH := c22Explore(fn, fn.EntryPoint(), c22ZeroVal(info, isList, false), nil)
		for _, p := range pub {
			r.Check(!noECH.Reach[p.P], "C15.1", "ApplyPreset:public-name-only-with-ech", c.Pos(p.Node), "the public name replaces the SNI only when an ECH config list is set", "the SNI is overwritten with the ECH public name even without an ECH config list")
		}
	}
	if fn := c.Fn("C15.1", "SNIExtension", "writeToUConn"); fn != nil {
		echSet := c22Explore(fn, fn.EntryPoint(), c22ZeroVal(info, isList, true), nil)
		stores := c22FieldInits(fn, "Config", "ServerName")
		okCfg := true
		for _, s := range stores {
			if echSet.Reach[s.P] {
				okCfg = false
			}
		}
		if len(stores) > 0 && echSet.Decided == 0 {
			okCfg = false
		}
		r.Check(okCfg, "C15.1", "SNIExtension.writeToUConn:config-name-kept", c.Pos(fn.Decl), "with an ECH config list Config.ServerName (the inner name) is not overwritten by the extension's public name",
			"with an ECH config list SNIExtension.writeToUConn copies the extension's name (the public name) into Config.ServerName: the inner ClientHello and certificate verification then use the public name, the real server name is lost")
		for _, s := range c22FieldInits(fn, "PubClientHelloMsg", "ServerName") {
			rhs := c15Inline(fn, s.Rhs)
			ok := an.MentionsField(info, rhs, "SNIExtension", "ServerName") && !an.MentionsField(info, rhs, "Config", "ServerName")
			r.Check(ok, "C15.1", "SNIExtension.writeToUConn:outer-name-source", c.Pos(s.Node), "the outer hello's name is the extension's own name", "the outer hello's ServerName is taken from "+an.Str(rhs)+": with ECH that is the secret inner name")
		}
	}
	r.Floor("C15.1", 4)
}

// c15Inline replaces a local identifier by its single defining expression (one level).
func c15Inline(fn *an.Fn, e ast.Expr) ast.Expr {
	info := fn.Info
	id, ok := an.Unparen(e).(*ast.Ident)
	if !ok {
		return e
	}
	o := objOf(info, id)
	var def ast.Expr
	n := 0
	an.Inner(fn.Body, func(x ast.Node) bool {
		as, ok := x.(*ast.AssignStmt)
		if !ok {
			return true
		}
		for i, l := range as.Lhs {
			if li, ok := l.(*ast.Ident); ok && objOf(info, li) == o {
				n++
				if len(as.Rhs) == len(as.Lhs) {
					def = as.Rhs[i]
				} else if len(as.Rhs) == 1 {
					def = as.Rhs[0]
				}
			}
		}
		return true
	})
	if n == 1 && def != nil {
		return def
	}
	return e
}

// ---------------------------------------------------------------- C15.2
func c15Errors(c *Ctx) {
	r := c.R
	info := c.Info()
	type site struct{ recv, name string }
	funcs := []site{{"UConn", "MarshalClientHello"}, {"UConn", "computeAndUpdateOuterECHExtension"}, {"UConn", "echTranscriptMsg"},
		{c22HS, "processHelloRetryRequest"}, {c22HS, "handshake"}, {"UConn", "clientHandshake"}, {"UConn", "buildHandshakeState"}, {"", "computeAndUpdateOuterECHExtension"}}
	watched := map[string]bool{"computeAndUpdateOuterECHExtension": true, "echTranscriptMsg": true, "encodeInnerClientHelloReorderOuterExts": true, "encodeInnerClientHello": true,
		"decodeInnerClientHello": true, "generateOuterECHExt": true, "Seal": true, "MarshalClientHello": true, "MarshalClientHelloNoECH": true, "makeClientHello": true, "extensionsList": true}
	for _, s := range funcs {
		fn := c.Fn("C15.2", s.recv, s.name)
		if fn == nil {
			continue
		}
		for _, h := range fn.FindNodes(func(n ast.Node) bool {
			call, ok := n.(*ast.CallExpr)
			if !ok {
				return false
			}
			f, ok := an.Callee(info, call).(*types.Func)
			if !ok || f.Pkg() == nil || !strings.HasPrefix(f.Pkg().Path(), Mod) || !watched[f.Name()] {
				return false
			}
			_, isErr := c22CallReturnsError(info, call)
			return isErr
		}) {
			call := h.N.(*ast.CallExpr)
			f := an.Callee(info, call).(*types.Func)
			what := f.Name()
			if rv := f.Type().(*types.Signature).Recv(); rv != nil {
				what = an.TypeName(rv.Type()) + "." + what
			}
			use := c22ErrUse(fn, call)
			cons := s.name + ":" + what
			if s.recv == "" {
				cons = "func " + cons
			}
			switch {
			case use == "returned" || use == "tested" || use == "passed":
				r.Ok("C15.2", cons, c.Pos(call), "error result is %s", use)
			default:
				r.Bad("C15.2", cons, c.Pos(call), "error result of %s is %s: a failure to build the encrypted ClientHello is reported as success (BuildHandshakeState returns nil with no ECH ClientHello marshalled)", what, use)
			}
		}
	}
	r.Floor("C15.2", 23)
}

// ---------------------------------------------------------------- C15.3
// c15Path renders an access path with the root identifier resolved to its object.
func c15Path(info *types.Info, e ast.Expr) (string, types.Object) {
	switch v := an.Unparen(e).(type) {
	case *ast.Ident:
		o := objOf(info, v)
		if o == nil {
			return "", nil
		}
		return o.Name() + "@" + c15Itoa(int(o.Pos())), o
	case *ast.SelectorExpr:
		p, o := c15Path(info, v.X)
		if p == "" {
			return "", nil
		}
		return p + "." + v.Sel.Name, o
	}
	return "", nil
}

func c15Itoa(n int) string {
	if n == 0 {
		return "0"
	}
	s := ""
	for n > 0 {
		s = string(rune('0'+n%10)) + s
		n /= 10
	}
	return s
}

func c15HRR(c *Ctx) {
	r := c.R
	info := c.Info()
	x := c17Setup(c, "C15.3")
	if x == nil {
		return
	}
	fn := x.fn
	for _, u := range x.ksStores {
		cons := "processHelloRetryRequest:key-share-source"
		// the X in X.keyShares read by the refill
		var src ast.Expr
		ast.Inspect(u.Rhs, func(n ast.Node) bool {
			if se, ok := n.(*ast.SelectorExpr); ok && an.FieldSel(info, se, "clientHelloMsg", "keyShares") {
				src = se.X
			}
			return true
		})
		if src == nil {
			r.Unknown("C15.3", cons, c.Pos(u.Node), "the refill does not read a clientHelloMsg.keyShares")
			continue
		}
		srcPath, _ := c15Path(info, src)
		if len(x.fresh) == 0 {
			r.Unknown("C15.3", cons, c.Pos(u.Node), "no fresh-share store found")
		}
		for _, s := range x.fresh {
			dstPath, dstObj := c15Path(info, s.Base)
			if srcPath == "" || dstPath == "" {
				r.Unknown("C15.3", cons, c.Pos(u.Node), "access paths not resolved (%s / %s)", an.Str(src), an.Str(s.Base))
				continue
			}
			if srcPath == dstPath {
				r.Ok("C15.3", cons, c.Pos(u.Node), "the refill reads %s.keyShares, the object that received the fresh share", an.Str(src))
				continue
			}
			// dst is a local: is it a must-alias of src at the refill?
			id, isLocal := an.Unparen(s.Base).(*ast.Ident)
			if !isLocal || dstObj == nil {
				r.Unknown("C15.3", cons, c.Pos(u.Node), "fresh share stored through %s, refill reads %s", an.Str(s.Base), an.Str(src))
				continue
			}
			_ = id
			// definitions of the local
			type def struct {
				p   an.Point
				rhs ast.Expr
				n   ast.Node
			}
			var defs []def
			for _, h := range fn.FindNodes(func(n ast.Node) bool {
				as, ok := n.(*ast.AssignStmt)
				if !ok {
					return false
				}
				for _, l := range as.Lhs {
					if li, ok := l.(*ast.Ident); ok && objOf(info, li) == dstObj {
						return true
					}
				}
				return false
			}) {
				as := h.N.(*ast.AssignStmt)
				for i, l := range as.Lhs {
					if li, ok := l.(*ast.Ident); ok && objOf(info, li) == dstObj && len(as.Rhs) == len(as.Lhs) {
						defs = append(defs, def{h.P, as.Rhs[i], as})
					}
				}
			}
			// synchronising copies src.keyShares = local.keyShares
			var syncs []an.Point
			for _, in := range c22FieldInits(fn, "clientHelloMsg", "keyShares") {
				bp, _ := c15Path(info, in.Base)
				if bp != srcPath || in.Rhs == nil {
					continue
				}
				if se, ok := an.Unparen(in.Rhs).(*ast.SelectorExpr); ok && an.FieldSel(info, se, "clientHelloMsg", "keyShares") {
					if rp, _ := c15Path(info, se.X); rp == dstPath {
						syncs = append(syncs, in.P)
					}
				}
			}
			bad := ""
			var badNode ast.Node
			for _, d := range defs {
				dp, _ := c15Path(info, d.rhs)
				if dp == srcPath {
					continue // alias of the source object
				}
				if !fn.Reachable(d.p, u.P) {
					continue
				}
				if !fn.MustPassFrom(d.p, u.P, syncs, nil) {
					bad, badNode = an.Str(d.rhs), d.n
				}
			}
			if bad == "" {
				r.Ok("C15.3", cons, c.Pos(u.Node), "%s aliases %s (or is synchronised) wherever the refill runs", an.Str(s.Base), an.Str(src))
			} else {
				r.Bad("C15.3", cons, c.Pos(u.Node), "the KeyShareExtension is refilled from %s.keyShares, but the fresh share was stored in %s, which is rebound to %s (%s) when the server accepted ECH in the HelloRetryRequest; %s.keyShares is only synchronised after the refill, so the outer key_share extension keeps the first flight's shares and the compressed inner hello decodes to them", an.Str(src), an.Str(s.Base), bad, c.Pos(badNode), an.Str(src))
			}
		}
	}
	r.Floor("C15.3", 1)
}

// ---------------------------------------------------------------- C15.4
func c15Handoff(c *Ctx) {
	r := c.R
	info := c.Info()
	// a. UConn.clientHandshake hands the context to the TLS 1.3 state
	if fn := c.Fn("C15.4", "UConn", "clientHandshake"); fn != nil {
		ins := c22FieldInits(fn, c22HS, "echContext")
		hs := fn.FindNodes(an.CallTo(info, Mod, c22HS, "handshake"))
		ok := len(ins) > 0 && len(hs) > 0
		var pts []an.Point
		for _, in := range ins {
			pts = append(pts, in.P)
			src := c15Inline(fn, in.Rhs)
			if src == nil || !an.FieldSel(info, an.Unparen(src), "UConn", "echCtx") {
				ok = false
			}
		}
		for _, h := range hs {
			if !fn.MustPass(h.P, pts, nil) {
				ok = false
			}
		}
		r.Check(ok, "C15.4", "clientHandshake:echContext-handoff", c.Pos(fn.Decl), "hs13.echContext = uconn.echCtx before hs13.handshake()", "the TLS 1.3 state does not receive UConn.echCtx before handshake(): acceptance is never evaluated, the inner hello is never used")
	}
	isECtx := func(e ast.Expr) bool { return an.FieldSel(info, an.Unparen(e), c22HS, "echContext") }
	isUconn := func(e ast.Expr) bool { return an.FieldSel(info, an.Unparen(e), c22HS, "uconn") }
	isStatus := func(e ast.Expr) bool { return an.FieldSel(info, an.Unparen(e), "UConn", "clientHelloBuildStatus") }
	byUtls, ok1 := c.c22Const("BuildByUtls")
	byGo, ok2 := c.c22Const("BuildByGoTLS")
	if !ok1 || !ok2 {
		r.Unknown("C15.4", "BuildByUtls", "", "build status constants not found")
		return
	}
	wUtls := c22Vals(c22ZeroVal(info, isECtx, true), c22ZeroVal(info, isUconn, true), c22CmpVal(info, isStatus, byUtls))
	wGo := c22Vals(c22ZeroVal(info, isECtx, true), c22CmpVal(info, isStatus, byGo))
	goInner := func(fn *an.Fn) []an.Point {
		return fn.Find(func(n ast.Node) bool {
			call, ok := n.(*ast.CallExpr)
			return ok && an.IsCallTo(info, call, Mod, "", "transcriptMsg") && len(call.Args) == 2 && an.FieldSel(info, an.Unparen(call.Args[0]), c15ECH, "innerHello")
		})
	}
	for _, name := range []string{"handshake", "processHelloRetryRequest"} {
		fn := c.Fn("C15.4", c22HS, name)
		if fn == nil {
			continue
		}
		ech := c22HitPts(c.c22Calls(fn, "UConn", "echTranscriptMsg"))
		gi := goInner(fn)
		// anchor after which the inner transcript must have been extended
		var from an.Point
		var target []an.Point
		if name == "handshake" {
			from = fn.EntryPoint()
			target = c22HitPts(c.c22Calls(fn, c22HS, "processServerHello"))
		} else {
			ins := c22FieldInits(fn, c15ECH, "innerHello")
			if len(ins) == 0 {
				r.Unknown("C15.4", name+":inner-transcript", c.Pos(fn.Decl), "store to echContext.innerHello not found")
				continue
			}
			from = ins[0].P
			for _, h := range fn.FindNodes(an.CallTo(info, Mod, "Conn", "writeHandshakeRecord")) {
				target = append(target, h.P)
			}
		}
		if len(target) == 0 {
			r.Unknown("C15.4", name+":inner-transcript", c.Pos(fn.Decl), "anchor call not found")
			continue
		}
		u := c22Explore(fn, from, wUtls, c22PtsSet(ech))
		uAll := c22Explore(fn, from, wUtls, nil)
		g := c22Explore(fn, from, wGo, c22PtsSet(gi))
		gAll := c22Explore(fn, from, wGo, nil)
		okU, okG, okUx, okGx := len(ech) > 0 && u.Decided > 0, len(gi) > 0, true, true
		for _, t := range target {
			if u.Reach[t] {
				okU = false
			}
			if g.Reach[t] {
				okG = false
			}
		}
		for _, p := range gi {
			if uAll.Reach[p] {
				okUx = false
			}
		}
		for _, p := range ech {
			if gAll.Reach[p] {
				okGx = false
			}
		}
		r.Check(okU, "C15.4", name+":utls-inner-transcript", c.Pos(fn.Decl), "for a uTLS-built hello the handshake cannot proceed without echTranscriptMsg", "for a uTLS-built ECH hello "+name+" can proceed without echTranscriptMsg: the inner transcript misses the (second) inner ClientHello")
		r.Check(okUx, "C15.4", name+":utls-not-go-marshal", c.Pos(fn.Decl), "for a uTLS-built hello the Go marshalling of the inner hello is never hashed", "for a uTLS-built ECH hello the inner transcript hashes the Go marshalling of the inner hello, which differs from what the server reconstructs from the compressed form")
		r.Check(okG, "C15.4", name+":go-inner-transcript", c.Pos(fn.Decl), "for a Go-built hello the inner hello is hashed directly", "for a Go-built ECH hello the inner transcript is not extended")
		r.Check(okGx, "C15.4", name+":go-not-utls-path", c.Pos(fn.Decl), "echTranscriptMsg is confined to uTLS-built hellos", "echTranscriptMsg is reachable for a Go-built hello (uconn.Extensions does not describe it)")
		if name == "processHelloRetryRequest" {
			// refreshed outer bytes before the reconstruction
			comp := c.c22Calls(fn, "UConn", "computeAndUpdateOuterECHExtension")
			var orig []an.Point
			for _, in := range c22FieldInits(fn, "clientHelloMsg", "original") {
				if in.Rhs != nil && an.FieldSel(info, an.Unparen(in.Rhs), "PubClientHelloMsg", "Raw") {
					orig = append(orig, in.P)
				}
			}
			for _, h := range comp {
				w := c22Explore(fn, h.P, wUtls, c22PtsSet(orig))
				ok := true
				for _, p := range append(append([]an.Point{}, ech...), target...) {
					if w.Reach[p] {
						ok = false
					}
				}
				r.Check(ok, "C15.4", name+":original-after-ech-remarshal", c.Pos(h.N), "hs.hello.original is refreshed after the ECH re-marshal, before it is hashed and sent", "after computeAndUpdateOuterECHExtension the second ClientHello is hashed/sent without hs.hello.original = Hello.Raw: the bytes on the wire lack the new ECH payload")
				call := h.N.(*ast.CallExpr)
				r.Check(len(call.Args) == 3 && an.FieldSel(info, an.Unparen(call.Args[0]), c15ECH, "innerHello") && an.FieldSel(info, an.Unparen(call.Args[1]), c22HS, "echContext"), "C15.4", name+":ech-remarshal-args", c.Pos(call), "re-encrypts hs.echContext.innerHello under hs.echContext", "computeAndUpdateOuterECHExtension is not given hs.echContext.innerHello / hs.echContext")
			}
		}
		if name == "handshake" {
			// acceptance switches the state
			accept := func(e ast.Expr) (bool, bool) {
				be, ok := an.Unparen(e).(*ast.BinaryExpr)
				if !ok || (be.Op != token.EQL && be.Op != token.NEQ) {
					return false, false
				}
				isCmp := func(x ast.Expr) bool {
					cl, ok := an.Unparen(x).(*ast.CallExpr)
					if !ok {
						return false
					}
					f, _ := an.Callee(info, cl).(*types.Func)
					return f != nil && f.Pkg() != nil && f.Pkg().Path() == "crypto/subtle" && f.Name() == "ConstantTimeCompare"
				}
				var k ast.Expr
				switch {
				case isCmp(be.X):
					k = be.Y
				case isCmp(be.Y):
					k = be.X
				default:
					return false, false
				}
				if v, ok := an.ConstInt(info, k); !ok || v != 1 {
					return false, false
				}
				return be.Op == token.EQL, true
			}
			wAcc := c22Vals(c22ZeroVal(info, isECtx, true), c22Val(accept))
			wRej := c22Vals(c22ZeroVal(info, isECtx, true), func(e ast.Expr) (bool, bool) { b, ok := accept(e); return !b, ok })
			need := []struct{ owner, field, srcOwner, srcField, what string }{
				{c22HS, "hello", c15ECH, "innerHello", "hs.hello = inner hello"},
				{c22HS, "transcript", c15ECH, "innerTranscript", "hs.transcript = inner transcript"},
				{"Conn", "serverName", "Config", "ServerName", "c.serverName = Config.ServerName"},
				{"Conn", "echAccepted", "", "true", "c.echAccepted = true"},
			}
			for _, nd := range need {
				var pts []an.Point
				for _, in := range c22FieldInits(fn, nd.owner, nd.field) {
					if in.Rhs == nil {
						continue
					}
					if nd.srcOwner == "" {
						if id, ok := an.Unparen(in.Rhs).(*ast.Ident); ok && id.Name == nd.srcField {
							pts = append(pts, in.P)
						}
					} else if an.FieldSel(info, an.Unparen(in.Rhs), nd.srcOwner, nd.srcField) {
						pts = append(pts, in.P)
					}
				}
				wa := c22Explore(fn, fn.EntryPoint(), wAcc, c22PtsSet(pts))
				wr := c22Explore(fn, fn.EntryPoint(), wRej, nil)
				ok := len(pts) > 0 && wa.Decided > 0
				for _, t := range target {
					if wa.Reach[t] {
						ok = false
					}
				}
				for _, p := range pts {
					if wr.Reach[p] {
						ok = false
					}
				}
				r.Check(ok, "C15.4", "handshake:accept:"+nd.owner+"."+nd.field, c.Pos(fn.Decl), "on acceptance (and only then) "+nd.what, "ECH acceptance does not establish `"+nd.what+"` on every path before processServerHello (or it is also done on rejection)")
			}
			// rejection is recorded
			var rej []an.Point
			for _, in := range c22FieldInits(fn, c15ECH, "echRejected") {
				if id, ok := an.Unparen(in.Rhs).(*ast.Ident); ok && id.Name == "true" {
					rej = append(rej, in.P)
				}
			}
			wr := c22Explore(fn, fn.EntryPoint(), wRej, c22PtsSet(rej))
			wa := c22Explore(fn, fn.EntryPoint(), wAcc, nil)
			ok := len(rej) > 0
			for _, t := range target {
				if wr.Reach[t] {
					ok = false
				}
			}
			for _, p := range rej {
				if wa.Reach[p] {
					ok = false
				}
			}
			r.Check(ok, "C15.5", "handshake:mark-rejected", c.Pos(fn.Decl), "a failed accept confirmation (and only that) sets echRejected before the handshake goes on", "a failed ECH accept confirmation does not set echContext.echRejected on every path (or acceptance sets it too): the handshake with the public-name server would complete")
		}
	}
	r.Floor("C15.4", 14)
}

// ---------------------------------------------------------------- C15.5
func c15Reject(c *Ctx) {
	r := c.R
	info := c.Info()
	isECtx0 := func(e ast.Expr) bool { return an.FieldSel(info, an.Unparen(e), c22HS, "echContext") }
	isRej0 := func(e ast.Expr) bool { return an.FieldSel(info, an.Unparen(e), c15ECH, "echRejected") }
	var wRej, wAcc c22Val
	worlds := func(fn *an.Fn) {
		isECtx, isRej := c22WithAliases(fn, isECtx0), c22WithAliases(fn, isRej0)
		wRej = c22Vals(c22ZeroVal(info, isECtx, true), c22ZeroVal(info, isRej, true))
		wAcc = c22Vals(c22ZeroVal(info, isECtx, true), c22ZeroVal(info, isRej, false))
	}
	if fn := c.Fn("C15.5", c22HS, "handshake"); fn != nil {
		worlds(fn)
		w := c22Explore(fn, fn.EntryPoint(), wRej, nil)
		done := fn.Find(func(n ast.Node) bool {
			call, ok := n.(*ast.CallExpr)
			if !ok || len(call.Args) != 1 {
				return false
			}
			se, ok := call.Fun.(*ast.SelectorExpr)
			return ok && se.Sel.Name == "Store" && an.FieldSel(info, an.Unparen(se.X), "Conn", "isHandshakeComplete")
		})
		ok := w.Decided > 0 && len(w.Succ) == 0
		for _, p := range done {
			if w.Reach[p] {
				ok = false
			}
		}
		r.Check(ok, "C15.5", "handshake:rejected-never-completes", c.Pos(fn.Decl), "with echRejected no success exit and no isHandshakeComplete.Store(true) is reachable", "with echRejected set handshake() can still complete: the connection to the public-name server is handed to the application")
		// the rejection return
		nRet := 0
		wa := c22Explore(fn, fn.EntryPoint(), wAcc, nil)
		for _, ret := range fn.Returns() {
			rs := ret.Node().(*ast.ReturnStmt)
			if len(rs.Results) != 1 {
				continue
			}
			var lit *ast.CompositeLit
			if u, ok := an.Unparen(rs.Results[0]).(*ast.UnaryExpr); ok && u.Op == token.AND {
				lit, _ = an.Unparen(u.X).(*ast.CompositeLit)
			}
			if lit == nil || an.TypeName(info.TypeOf(lit)) != "ECHRejectionError" {
				continue
			}
			nRet++
			okCfg := false
			if len(lit.Elts) == 1 {
				v := lit.Elts[0]
				if kv, ok := v.(*ast.KeyValueExpr); ok {
					v = kv.Value
				}
				okCfg = an.FieldSel(info, an.Unparen(v), c15ECH, "retryConfigs")
			}
			r.Check(okCfg, "C15.5", "handshake:ECHRejectionError-configs", c.Pos(rs), "ECHRejectionError carries echContext.retryConfigs", "ECHRejectionError is built without the server's retry configs (echContext.retryConfigs): the caller cannot retry with fresh configs")
			r.Check(fn.MustPass(ret, fn.Find(c.isAlert("alertECHRequired")), nil), "C15.5", "handshake:ech_required-alert", c.Pos(rs), "ech_required is sent before the rejection is returned", "ECHRejectionError is returned without sending the ech_required alert")
			r.Check(!wa.Reach[ret], "C15.5", "handshake:rejection-only-when-rejected", c.Pos(rs), "not reachable when ECH was accepted", "ECHRejectionError is returned although ECH was accepted")
			// only after the client's flight was flushed (the server learns the outcome through the alert that follows the Finished)
			fin := c22HitPts(c.c22Calls(fn, c22HS, "sendClientFinished"))
			r.Check(len(fin) > 0 && fn.MustPass(ret, fin, nil), "C15.5", "handshake:rejection-after-finished", c.Pos(rs), "the outer handshake is completed (server authenticated against the public name) before rejection is reported", "the rejection is reported before the outer handshake authenticated the server: retry configs would be taken from an unauthenticated peer")
		}
		if nRet == 0 {
			r.Bad("C15.5", "handshake:ECHRejectionError", c.Pos(fn.Decl), "handshake() never returns ECHRejectionError")
		}
	}
	if fn := c.Fn("C15.5", c22HS, "readServerParameters"); fn != nil {
		worlds(fn)
		var pts []an.Point
		okSrc := true
		for _, in := range c22FieldInits(fn, c15ECH, "retryConfigs") {
			pts = append(pts, in.P)
			if in.Rhs == nil || !an.FieldSel(info, an.Unparen(in.Rhs), "encryptedExtensionsMsg", "echRetryConfigs") {
				okSrc = false
			}
		}
		w := c22Explore(fn, fn.EntryPoint(), wRej, c22PtsSet(pts))
		r.Check(len(pts) > 0 && okSrc && w.Decided > 0 && len(w.Succ) == 0, "C15.5", "readServerParameters:retry-configs-stored", c.Pos(fn.Decl), "on rejection the server's echRetryConfigs are stored on every success path", "on rejection readServerParameters can succeed without storing encryptedExtensions.echRetryConfigs in echContext.retryConfigs")
		isCfg := func(e ast.Expr) bool {
			return an.FieldSel(info, an.Unparen(e), "encryptedExtensionsMsg", "echRetryConfigs")
		}
		w2 := c22Explore(fn, fn.EntryPoint(), c22Vals(wAcc, c22ZeroVal(info, isCfg, true)), nil)
		r.Check(w2.Decided > 0 && len(w2.Succ) == 0, "C15.5", "readServerParameters:retry-configs-after-accept", c.Pos(fn.Decl), "retry configs after acceptance abort the handshake", "retry configs sent by a server that accepted ECH are tolerated")
	}
	if fn := c.Fn("C15.5", c22HS, "sendClientCertificate"); fn != nil {
		worlds(fn)
		isReq := func(e ast.Expr) bool { return an.FieldSel(info, an.Unparen(e), c22HS, "certReq") }
		w := c22Explore(fn, fn.EntryPoint(), c22Vals(wRej, c22ZeroVal(info, isReq, true)), nil)
		ok := w.Decided > 0
		for _, h := range c.c22Calls(fn, "Conn", "getClientCertificate") {
			if w.Reach[h.P] {
				ok = false
			}
		}
		r.Check(ok, "C15.5", "sendClientCertificate:no-identity-on-rejection", c.Pos(fn.Decl), "on rejection the client's certificate is never requested from the application", "on rejection sendClientCertificate still obtains and sends the client's certificate to the public-name server")
	}
	r.Floor("C15.5", 9)
}

// ---------------------------------------------------------------- C15.6
func c15ExtList(c *Ctx) {
	r := c.R
	info := c.Info()
	fn := c.Fn("C15.6", "UConn", "extensionsList")
	if fn == nil {
		return
	}
	reads := fn.FindNodes(func(n ast.Node) bool {
		call, ok := n.(*ast.CallExpr)
		if !ok {
			return false
		}
		se, ok := call.Fun.(*ast.SelectorExpr)
		return ok && se.Sel.Name == "Read" && an.TypeName(info.TypeOf(se.X)) == "TLSExtension" && len(call.Args) == 1
	})
	if len(reads) == 0 {
		r.Unknown("C15.6", "extensionsList:Read", c.Pos(fn.Decl), "no ext.Read call found: the way extension ids are obtained changed")
	}
	for _, h := range reads {
		call := h.N.(*ast.CallExpr)
		use := c22ErrUse(fn, call)
		switch use {
		case "returned", "tested", "passed":
			r.Ok("C15.6", "extensionsList:Read-error", c.Pos(call), "error of ext.Read is %s", use)
		default:
			r.Bad("C15.6", "extensionsList:Read-error", c.Pos(call), "error result of ext.Read is %s: when an extension does not fit the buffer (io.ErrShortBuffer) or fails, its id is read from an all-zero buffer and recorded as 0 (server_name); the outer-extension order handed to the inner ClientHello encoder then omits that extension", use)
		}
		// buffer provenance
		ext := call.Fun.(*ast.SelectorExpr).X
		extObj := objOf(info, idOf(ext))
		arg := c15Inline(fn, call.Args[0])
		var mk *ast.CallExpr
		ast.Inspect(arg, func(n ast.Node) bool {
			if cl, ok := n.(*ast.CallExpr); ok {
				if id, ok := cl.Fun.(*ast.Ident); ok && id.Name == "make" && len(cl.Args) >= 2 {
					mk = cl
				}
			}
			return true
		})
		switch {
		case mk == nil:
			r.Unknown("C15.6", "extensionsList:buffer-size", c.Pos(call), "buffer passed to ext.Read is not a local make(): %s", an.Str(arg))
		default:
			size := mk.Args[1]
			usesLen := an.Contains(size, func(n ast.Node) bool {
				cl, ok := n.(*ast.CallExpr)
				if !ok {
					return false
				}
				se, ok := cl.Fun.(*ast.SelectorExpr)
				return ok && se.Sel.Name == "Len" && extObj != nil && objOf(info, idOf(se.X)) == extObj
			})
			if v, isConst := an.ConstInt(info, size); isConst && !usesLen {
				r.Bad("C15.6", "extensionsList:buffer-size", c.Pos(mk), "ext.Read is given a fixed %d-byte buffer; an extension longer than that (two hybrid key shares, a large ticket or ALPN/ALPS list) returns io.ErrShortBuffer and leaves the buffer zeroed", v)
			} else if usesLen {
				r.Ok("C15.6", "extensionsList:buffer-size", c.Pos(mk), "buffer sized from ext.Len()")
			} else {
				r.Unknown("C15.6", "extensionsList:buffer-size", c.Pos(mk), "buffer size %s is neither ext.Len() nor a constant", an.Str(size))
			}
		}
	}
	r.Floor("C15.6", 2)
}

// ---------------------------------------------------------------- C15.7
func c15Marshal(c *Ctx) {
	r := c.R
	info := c.Info()
	if fn := c.Fn("C15.7", "UConn", "MarshalClientHello"); fn != nil {
		isList := c.c15IsECHList()
		ech := c22ZeroVal(info, isList, true)
		comp := c.c22Calls(fn, "UConn", "computeAndUpdateOuterECHExtension")
		if len(comp) == 0 {
			r.Bad("C15.7", "MarshalClientHello:ech-path", c.Pos(fn.Decl), "MarshalClientHello never calls computeAndUpdateOuterECHExtension: an ECH config list is ignored")
		}
		wNo := c22Explore(fn, fn.EntryPoint(), c22ZeroVal(info, isList, false), nil)
		w := c22Explore(fn, fn.EntryPoint(), ech, c22PtsSet(c22HitPts(comp)))
		okOnly := wNo.Decided > 0
		for _, h := range comp {
			if wNo.Reach[h.P] {
				okOnly = false
			}
		}
		r.Check(w.Decided > 0 && len(w.Succ) == 0 && okOnly, "C15.7", "MarshalClientHello:ech-path", c.Pos(fn.Decl), "with an ECH config list (and only then) every success path builds the encrypted hello", "with an ECH config list MarshalClientHello can succeed without computeAndUpdateOuterECHExtension (or runs it without a list)")
		for _, f := range [][2]string{{"keyShares", "KeyShares"}, {"supportedSignatureAlgorithms", "SupportedSignatureAlgorithms"}, {"sessionId", "SessionId"}, {"supportedCurves", "SupportedCurves"}} {
			ok := false
			for _, in := range c22FieldInits(fn, "clientHelloMsg", f[0]) {
				if in.Rhs != nil && an.MentionsField(info, in.Rhs, "PubClientHelloMsg", f[1]) {
					ok = true
					for _, h := range comp {
						if !fn.MustPass(h.P, []an.Point{in.P}, nil) {
							ok = false
						}
					}
				}
			}
			r.Check(ok, "C15.7", "MarshalClientHello:inner."+f[0], c.Pos(fn.Decl), "inner."+f[0]+" mirrors the outer hello's "+f[1]+" before encryption", "inner."+f[0]+" is not copied from the outer hello's "+f[1]+" before the inner hello is encoded: after acceptance the client checks the ServerHello against values the server never saw")
		}
		for _, in := range c22FieldInits(fn, "clientHelloMsg", "serverName") {
			r.Bad("C15.7", "MarshalClientHello:inner.serverName", c.Pos(in.Node), "MarshalClientHello overwrites the inner hello's server name with %s: the inner name must stay Config.ServerName", an.Str(in.Rhs))
		}
		// context stored for the handshake
		var ctxPts []an.Point
		for _, in := range c22FieldInits(fn, "UConn", "echCtx") {
			ctxPts = append(ctxPts, in.P)
		}
		w2 := c22Explore(fn, fn.EntryPoint(), ech, c22PtsSet(ctxPts))
		r.Check(len(ctxPts) > 0 && len(w2.Succ) == 0, "C15.7", "MarshalClientHello:echCtx-stored", c.Pos(fn.Decl), "the context that sealed the hello is stored in uconn.echCtx", "MarshalClientHello can succeed without storing the ECH context used for sealing in uconn.echCtx: acceptance is checked against another inner hello")
		// innerHello of the context is the mirrored inner
		okInner := false
		for _, in := range c22FieldInits(fn, c15ECH, "innerHello") {
			for _, h := range comp {
				call := h.N.(*ast.CallExpr)
				if len(call.Args) >= 2 && in.Rhs != nil && objOf(info, idOf(in.Rhs)) != nil && objOf(info, idOf(in.Rhs)) == objOf(info, idOf(call.Args[0])) {
					okInner = true
				}
			}
		}
		r.Check(okInner, "C15.7", "MarshalClientHello:ctx.innerHello", c.Pos(fn.Decl), "ech.innerHello is the hello that is encrypted", "ech.innerHello is not the hello passed to computeAndUpdateOuterECHExtension")
	}
	if fn := c.Fn("C15.7", "UConn", "computeAndUpdateOuterECHExtension"); fn != nil {
		marsh := c.c22Calls(fn, "UConn", "MarshalClientHelloNoECH")
		seals := fn.FindNodes(func(n ast.Node) bool {
			call, ok := n.(*ast.CallExpr)
			if !ok {
				return false
			}
			f, _ := an.Callee(info, call).(*types.Func)
			return f != nil && f.Name() == "Seal" && f.Pkg() != nil && strings.HasSuffix(f.Pkg().Path(), "internal/hpke")
		})
		if len(seals) == 0 {
			r.Bad("C15.7", "computeAndUpdateOuterECHExtension:seal", c.Pos(fn.Decl), "the inner hello is never sealed")
		}
		for _, s := range seals {
			call := s.N.(*ast.CallExpr)
			okBefore := len(marsh) > 0 && fn.MustPass(s.P, c22HitPts(marsh), nil)
			aad := len(call.Args) == 2 && an.MentionsField(info, c15Inline2(fn, call.Args[0]), "PubClientHelloMsg", "Raw")
			r.Check(okBefore && aad, "C15.7", "computeAndUpdateOuterECHExtension:aad", c.Pos(call), "the AAD is the outer hello marshalled with the placeholder payload", "the HPKE AAD is not the freshly marshalled outer hello (Hello.Raw after MarshalClientHelloNoECH): the server's decryption fails")
			// after sealing: ciphertext installed, hello re-marshalled, spec extension restored
			w := c22Explore(fn, s.P, func(ast.Expr) (bool, bool) { return false, false }, c22PtsSet(c22HitPts(marsh)))
			r.Check(len(w.Succ) == 0, "C15.7", "computeAndUpdateOuterECHExtension:final-marshal", c.Pos(call), "the hello is re-marshalled with the ciphertext before success", "after sealing a success exit is reachable without re-marshalling: Hello.Raw still carries the zero placeholder payload")
			var restore []an.Point
			for _, h := range fn.FindNodes(func(n ast.Node) bool {
				as, ok := n.(*ast.AssignStmt)
				if !ok || len(as.Lhs) != 1 || len(as.Rhs) != 1 {
					return false
				}
				ix, ok := an.Unparen(as.Lhs[0]).(*ast.IndexExpr)
				if !ok || !an.FieldSel(info, an.Unparen(ix.X), "UConn", "Extensions") {
					return false
				}
				src := c15Inline(fn, as.Rhs[0])
				six, ok := an.Unparen(src).(*ast.IndexExpr)
				return ok && an.FieldSel(info, an.Unparen(six.X), "UConn", "Extensions") && src != as.Rhs[0]
			}) {
				restore = append(restore, h.P)
			}
			w3 := c22Explore(fn, s.P, func(ast.Expr) (bool, bool) { return false, false }, c22PtsSet(restore))
			r.Check(len(restore) > 0 && len(w3.Succ) == 0, "C15.7", "computeAndUpdateOuterECHExtension:restore-extension", c.Pos(call), "the spec's ECH extension is put back before success", "the spec's ECH extension is not restored in uconn.Extensions on every success path: a HelloRetryRequest (or a second build) no longer finds an EncryptedClientHelloExtension")
			for _, m := range marsh {
				if fn.Reachable(s.P, m.P) {
					for _, rp := range restore {
						r.Check(!fn.Reachable(rp, m.P), "C15.7", "computeAndUpdateOuterECHExtension:restore-after-marshal", c.PosP(rp), "restored only after the final marshal", "the spec's (GREASE/placeholder) ECH extension is restored before the final marshal: the real payload is not on the wire")
					}
				}
			}
		}
	}
	// the placeholder payload has the ciphertext's length: same AEAD overhead constant as the crypto/tls sibling
	overhead := func(recv string) (int64, ast.Node, bool) {
		fn := c.Fn("C15.7", recv, "computeAndUpdateOuterECHExtension")
		if fn == nil {
			return 0, nil, false
		}
		var k int64
		var at ast.Node
		n := 0
		an.Inner(fn.Body, func(x ast.Node) bool {
			be, ok := x.(*ast.BinaryExpr)
			if !ok || be.Op != token.ADD {
				return true
			}
			for _, pair := range [][2]ast.Expr{{be.X, be.Y}, {be.Y, be.X}} {
				cl, ok := an.Unparen(pair[0]).(*ast.CallExpr)
				if !ok || len(cl.Args) != 1 {
					continue
				}
				if id, ok := cl.Fun.(*ast.Ident); !ok || id.Name != "len" {
					continue
				}
				if v, ok := an.ConstInt(info, pair[1]); ok {
					k, at = v, be
					n++
				}
			}
			return true
		})
		return k, at, n == 1
	}
	ku, at, ok1 := overhead("UConn")
	kg, _, ok2 := overhead("")
	if !ok1 || !ok2 {
		r.Unknown("C15.7", "computeAndUpdateOuterECHExtension:placeholder-length", "", "placeholder length expression len(encodedInner)+K not found in both siblings")
	} else {
		r.Check(ku == kg, "C15.7", "computeAndUpdateOuterECHExtension:placeholder-length", c.Pos(at), "placeholder payload = len(encodedInner)+"+c15Itoa(int(ku))+" as in the crypto/tls sibling", "the placeholder payload is len(encodedInner)+"+c15Itoa(int(ku))+" but the crypto/tls sibling uses +"+c15Itoa(int(kg))+" (AEAD tag length): the AAD's length field differs from the ciphertext's, the server cannot decrypt")
	}
	r.Floor("C15.7", 12)
}

// c15Inline2 inlines local definitions transitively through slicing (x = x[4:] patterns).
func c15Inline2(fn *an.Fn, e ast.Expr) ast.Expr {
	info := fn.Info
	id, ok := an.Unparen(e).(*ast.Ident)
	if !ok {
		return e
	}
	o := objOf(info, id)
	var first ast.Expr
	an.Inner(fn.Body, func(x ast.Node) bool {
		as, ok := x.(*ast.AssignStmt)
		if !ok || len(as.Lhs) != len(as.Rhs) {
			return true
		}
		for i, l := range as.Lhs {
			if li, ok := l.(*ast.Ident); ok && objOf(info, li) == o && first == nil && !c22Mentions(info, as.Rhs[i], o) {
				first = as.Rhs[i]
			}
		}
		return true
	})
	if first != nil {
		return first
	}
	return e
}

// ---------------------------------------------------------------- C15.8
func c15Transcript(c *Ctx) {
	r := c.R
	info := c.Info()
	fn := c.Fn("C15.8", "UConn", "echTranscriptMsg")
	if fn == nil {
		return
	}
	enc := c.c22Calls(fn, "", "encodeInnerClientHelloReorderOuterExts")
	dec := c.c22Calls(fn, "", "decodeInnerClientHello")
	tr := c.c22Calls(fn, "", "transcriptMsg")
	if len(enc) != 1 || len(dec) != 1 || len(tr) != 1 {
		r.Unknown("C15.8", "echTranscriptMsg:chain", c.Pos(fn.Decl), "expected one encode, one decode and one transcriptMsg call (found %d/%d/%d)", len(enc), len(dec), len(tr))
		return
	}
	par := c22Parents(fn.Body)
	resultVar := func(call *ast.CallExpr) types.Object {
		if as, ok := par[call].(*ast.AssignStmt); ok && len(as.Lhs) >= 1 {
			return objOf(info, idOf(as.Lhs[0]))
		}
		return nil
	}
	e, d, t := enc[0].N.(*ast.CallExpr), dec[0].N.(*ast.CallExpr), tr[0].N.(*ast.CallExpr)
	var outer types.Object
	if ps := fn.Decl.Type.Params.List; len(ps) > 0 && len(ps[0].Names) > 0 {
		outer = info.Defs[ps[0].Names[0]]
	}
	r.Check(len(e.Args) == 3 && an.FieldSel(info, an.Unparen(e.Args[0]), c15ECH, "innerHello") && an.MentionsField(info, e.Args[1], "echConfig", "MaxNameLength"), "C15.8", "echTranscriptMsg:encode-input", c.Pos(e), "encodes echCtx.innerHello with the config's MaxNameLength", "echTranscriptMsg does not encode echCtx.innerHello / MaxNameLength")
	ev, dv := resultVar(e), resultVar(d)
	r.Check(len(d.Args) == 2 && outer != nil && objOf(info, idOf(d.Args[0])) == outer && ev != nil && objOf(info, idOf(d.Args[1])) == ev && fn.MustPass(dec[0].P, []an.Point{enc[0].P}, nil), "C15.8", "echTranscriptMsg:decode-input", c.Pos(d), "reconstructs the inner hello from the outer hello and the encoded inner", "decodeInnerClientHello is not applied to (outer, encoded inner)")
	r.Check(len(t.Args) == 2 && dv != nil && objOf(info, idOf(t.Args[0])) == dv && an.FieldSel(info, an.Unparen(t.Args[1]), c15ECH, "innerTranscript") && fn.MustPass(tr[0].P, []an.Point{dec[0].P}, nil), "C15.8", "echTranscriptMsg:hash-input", c.Pos(t), "hashes the reconstructed inner hello into echCtx.innerTranscript", "the inner transcript is not extended with the reconstructed inner hello")
	// same outer-extension order on both sides
	same := true
	for _, site := range []struct{ recv, name string }{{"UConn", "echTranscriptMsg"}, {"UConn", "computeAndUpdateOuterECHExtension"}} {
		f := c.Fn("C15.8", site.recv, site.name)
		if f == nil {
			continue
		}
		for _, h := range c.c22Calls(f, "", "encodeInnerClientHelloReorderOuterExts") {
			call := h.N.(*ast.CallExpr)
			if len(call.Args) != 3 {
				same = false
				continue
			}
			cl, ok := an.Unparen(c15Inline(f, call.Args[2])).(*ast.CallExpr)
			if !ok || !c.c22CalleeIs(cl, "UConn", "extensionsList") {
				same = false
			}
		}
	}
	r.Check(same, "C15.8", "encodeInner:outer-extension-order", c.Pos(fn.Decl), "sender and transcript both encode with uconn.extensionsList()", "the sealed inner hello and the hashed inner hello are encoded with different outer-extension orders: the transcripts diverge after acceptance")
	for _, h := range append(append(enc, dec...), tr...) {
		c.c22ErrRule("C15.8", fn, h, an.Str(h.N.(*ast.CallExpr).Fun))
	}
	r.Floor("C15.8", 7)
}
