package props

import (
	"go/ast"
	"go/token"
	"go/types"

	"verif/internal/an"
	"verif/internal/load"

	"golang.org/x/tools/go/cfg"
)

func init() { register(&Prop{ID: "C19", Run: runC19}) }

var c19Ops = []string{"SetSessionCache", "BuildHandshakeState", "Handshake"}

func runC19(c *Ctx) {
	r := c.R
	r.Technique = "per-function CFG rules on loadSession, clientSessionCacheKey, syncSessionExts, uApplyPatch, updateBinders and the HelloRetryRequest uTLS section (path feasibility under fixed atom valuations, must-pass-through, error discipline); typestate exploration of cache-driven call sequences"
	r.Explanation = "C19.1 in loadSession no path with session.extMasterSecret=true and hello.extendedMasterSecret=false reaches the statement that offers the TLS 1.2 ticket (RFC 7627 5.3). " +
		"C19.2 the cache key is Config.ServerName with the peer address only as fallback, the cache lookup uses that key, and every offer of a cached session passes the VerifyHostname re-check unless verification is disabled. " +
		"C19.3 syncSessionExts asserts that the pre_shared_key extension is last before adopting it, and uApplyPatch compares the hello length before and after patching on every exit. " +
		"C19.4 the error of PatchBuiltHello (success sentinel io.EOF) is not dropped. C19.5 the HelloRetryRequest uTLS section can reach the re-marshalling of the hello when PSK identities are present. " +
		"C19.6 no internal assertion is reachable from sequences of SetSessionCache/BuildHandshakeState/Handshake (typestate engine shared with C20)."
	r.NotDecided = "that the server actually resumes; binder value correctness; PSK-last in every parrot table (C02); ticket expiry arithmetic"
	c19EMS(c)
	c19CacheKey(c)
	c19PskLast(c)
	c19PatchError(c)
	c19HRR(c)
	if e := newTSEngine(c, "C19.6"); e != nil {
		if res := e.explore("C19.6", "UClient", "UConn", c19Ops, tsSeqBound); res != nil {
			res.report("C19.6")
			r.Floor("C19.6", 30)
		}
	}
}

// feasibleReach computes the points reachable from entry when the given atoms have fixed truth
// values: an edge is infeasible if its condition block tests an atom (or a comparison of two
// atoms) and the edge is the outcome contradicting the valuation. atom returns (index, true)
// for expressions that are an atom.
func feasibleReach(fn *an.Fn, atom func(ast.Expr) (int, bool), val []bool) (reach map[an.Point]bool, used int, unknown []ast.Expr) {
	blocked := map[an.Edge]bool{}
	var evalCond func(x ast.Expr) (v, known, mentions bool)
	mentionsAtom := func(x ast.Expr) bool {
		return an.Contains(x, func(n ast.Node) bool {
			if e, ok := n.(ast.Expr); ok {
				_, is := atom(e)
				return is
			}
			return false
		})
	}
	evalCond = func(x ast.Expr) (bool, bool, bool) {
		x = an.Unparen(x)
		if i, ok := atom(x); ok {
			return val[i], true, true
		}
		switch v := x.(type) {
		case *ast.UnaryExpr:
			if v.Op == token.NOT {
				b, k, m := evalCond(v.X)
				return !b, k, m
			}
		case *ast.BinaryExpr:
			switch v.Op {
			case token.EQL, token.NEQ:
				a, ka, ma := evalCond(v.X)
				b, kb, mb := evalCond(v.Y)
				if ka && kb {
					return (a == b) == (v.Op == token.EQL), true, true
				}
				// comparison of an atom with a boolean constant
				for _, pr := range [][2]ast.Expr{{v.X, v.Y}, {v.Y, v.X}} {
					if i, ok := atom(an.Unparen(pr[0])); ok {
						if tv, has := fn.Info.Types[pr[1]]; has && tv.Value != nil {
							c := tv.Value.String() == "true"
							return (val[i] == c) == (v.Op == token.EQL), true, true
						}
					}
				}
				return false, false, ma || mb
			case token.LAND, token.LOR:
				a, ka, ma := evalCond(v.X)
				b, kb, mb := evalCond(v.Y)
				if ka && kb {
					if v.Op == token.LAND {
						return a && b, true, true
					}
					return a || b, true, true
				}
				return false, false, ma || mb
			}
		}
		return false, false, mentionsAtom(x)
	}
	for _, b := range fn.G.Blocks {
		if !b.Live {
			continue
		}
		t, f, ok := an.CondEdges(b)
		if !ok {
			continue
		}
		cond := b.Nodes[len(b.Nodes)-1].(ast.Expr)
		v, known, mentions := evalCond(cond)
		if known {
			used++
			if v {
				blocked[f] = true
			} else {
				blocked[t] = true
			}
		} else if mentions {
			unknown = append(unknown, cond)
		}
	}
	return fn.ReachFromEntry(nil, blocked), used, unknown
}

// C19.1
func c19EMS(c *Ctx) {
	r := c.R
	info := c.Info()
	fn := c.Fn("C19.1", "Conn", "loadSession")
	if fn == nil {
		return
	}
	offers := fn.FindNodes(func(n ast.Node) bool {
		as, ok := n.(*ast.AssignStmt)
		if !ok {
			return false
		}
		for i, l := range as.Lhs {
			if an.FieldSel(info, an.Unparen(l), "clientHelloMsg", "sessionTicket") && i < len(as.Rhs) && !an.IsNilIdent(info, as.Rhs[i]) {
				return true
			}
		}
		return false
	})
	if len(offers) == 0 {
		r.Unknown("C19.1", "loadSession:ticket-offer", c.Pos(fn.Decl), "no assignment to hello.sessionTicket found")
		return
	}
	atom := func(x ast.Expr) (int, bool) {
		x = an.Unparen(x)
		switch {
		case an.FieldSel(info, x, "SessionState", "extMasterSecret"):
			return 0, true
		case an.FieldSel(info, x, "clientHelloMsg", "extendedMasterSecret"):
			return 1, true
		}
		return 0, false
	}
	// session used EMS, hello does not carry the extension
	reach, used, unknown := feasibleReach(fn, atom, []bool{true, false})
	for _, o := range offers {
		sessionFlagConsulted := an.Contains(fn.Body, func(n ast.Node) bool { return an.FieldSel(info, n, "SessionState", "extMasterSecret") })
		switch {
		case len(unknown) > 0 && reach[o.P] && !sessionFlagConsulted:
			r.Bad("C19.1", "loadSession:ems-ticket-offer", c.Pos(unknown[0]), "the check before the ticket offer (%s) never consults the cached session's extMasterSecret: a session negotiated with extended_master_secret is still offered in a ClientHello without the extension (RFC 7627 5.3)", an.Str(unknown[0]))
		case len(unknown) > 0:
			r.Unknown("C19.1", "loadSession:ems-ticket-offer", c.Pos(unknown[0]), "a condition mentions the EMS flags in a form that is not recognised: %s", an.Str(unknown[0]))
		case reach[o.P] && used == 0:
			r.Bad("C19.1", "loadSession:ems-ticket-offer", c.Pos(o.N), "the TLS 1.2 ticket is offered without comparing session.extMasterSecret with hello.extendedMasterSecret: a session negotiated with extended_master_secret is offered in a ClientHello without the extension, which a compliant server must abort (RFC 7627 5.3)")
		case reach[o.P]:
			r.Bad("C19.1", "loadSession:ems-ticket-offer", c.Pos(o.N), "the ticket offer stays reachable when the session used extended_master_secret and the hello lacks the extension (the check does not prevent the offer)")
		default:
			r.Ok("C19.1", "loadSession:ems-ticket-offer", c.Pos(o.N), "an EMS session is not offered in a hello without extended_master_secret")
		}
	}
	// the same paths must stay open for the compatible combinations (the check must not disable resumption)
	for _, v := range [][]bool{{true, true}, {false, false}} {
		reach, _, _ := feasibleReach(fn, atom, v)
		for _, o := range offers {
			name := "loadSession:ticket-offer-kept:ems"
			if !v[0] {
				name = "loadSession:ticket-offer-kept:no-ems"
			}
			r.Check(reach[o.P], "C19.1", name, c.Pos(o.N), "the ticket is still offered when session and hello agree on extended_master_secret", "the ticket is never offered although session and hello agree on extended_master_secret (resumption disabled)")
		}
	}
	// the flag must describe the wire: in the uTLS preset path it may only come from the extension list
	if mk := c.Fn("C19.1", "Conn", "makeClientHelloForApplyPreset"); mk != nil {
		found := false
		ast.Inspect(mk.Body, func(n ast.Node) bool {
			cl, ok := n.(*ast.CompositeLit)
			if !ok || an.TypeName(info.TypeOf(cl)) != "clientHelloMsg" {
				return true
			}
			found = true
			preset := false
			var at ast.Node = cl
			for _, el := range cl.Elts {
				kv, ok := el.(*ast.KeyValueExpr)
				if !ok {
					continue
				}
				if k, ok := kv.Key.(*ast.Ident); ok && k.Name == "extendedMasterSecret" {
					if tv := info.Types[kv.Value]; tv.Value == nil || tv.Value.String() != "false" {
						preset, at = true, kv
					}
				}
			}
			r.Check(!preset, "C19.1", "makeClientHelloForApplyPreset:ems-default", c.Pos(at), "the preset hello starts without extended_master_secret; only the extension in the spec sets it",
				"the hello built for a ClientHelloSpec starts with extendedMasterSecret=true although the spec may not contain the extension: the flag loadSession has to compare does not describe the wire")
			return true
		})
		if !found {
			r.Unknown("C19.1", "makeClientHelloForApplyPreset:ems-default", c.Pos(mk.Decl), "clientHelloMsg literal not found")
		}
		if w := c.Fn("C19.1", "ExtendedMasterSecretExtension", "writeToUConn"); w != nil {
			sets := false
			ast.Inspect(w.Body, func(n ast.Node) bool {
				as, ok := n.(*ast.AssignStmt)
				if ok && len(as.Lhs) == 1 && len(as.Rhs) == 1 && an.FieldSel(info, an.Unparen(as.Lhs[0]), "PubClientHelloMsg", "Ems") {
					if tv := info.Types[as.Rhs[0]]; tv.Value != nil && tv.Value.String() == "true" {
						sets = true
					}
				}
				return true
			})
			r.Check(sets, "C19.1", "ExtendedMasterSecretExtension.writeToUConn:sets-ems", c.Pos(w.Decl), "the extension marks the hello as carrying extended_master_secret", "ExtendedMasterSecretExtension.writeToUConn does not set Hello.Ems: an EMS hello would look like a non-EMS hello to loadSession and to the handshake")
		}
	}
	r.Floor("C19.1", 5)
}

// C19.2
func c19CacheKey(c *Ctx) {
	r := c.R
	info := c.Info()
	if fn := c.Fn("C19.2", "Conn", "clientSessionCacheKey"); fn != nil {
		isName := func(e ast.Expr) bool { return an.FieldSel(info, an.Unparen(e), "Config", "ServerName") }
		nameRet, other := 0, 0
		var peer []an.Point
		for _, p := range fn.Returns() {
			rs := p.Node().(*ast.ReturnStmt)
			if len(rs.Results) != 1 {
				continue
			}
			x := an.Unparen(rs.Results[0])
			switch {
			case isName(x):
				nameRet++
			case an.Contains(x, func(n ast.Node) bool {
				call, ok := n.(*ast.CallExpr)
				if !ok {
					return false
				}
				f, _ := an.Callee(info, call).(*types.Func)
				return f != nil && f.Name() == "RemoteAddr"
			}):
				peer = append(peer, p)
			default:
				if s, ok := an.ConstString(info, x); ok && s == "" {
					continue
				}
				other++
				r.Bad("C19.2", "clientSessionCacheKey:return", c.Pos(rs), "cache key %s is neither Config.ServerName nor the peer address", an.Str(x))
			}
		}
		r.Check(nameRet > 0, "C19.2", "clientSessionCacheKey:server-name", c.Pos(fn.Decl), "the key is Config.ServerName when set", "Config.ServerName is never returned as the cache key: sessions of different names on one address share a key")
		// the peer address is used only when ServerName is empty
		pass, _, _ := condEdges(fn, func(cond ast.Expr) (bool, bool) {
			be, ok := cond.(*ast.BinaryExpr)
			if !ok || !an.MentionsField(info, be, "Config", "ServerName") {
				return false, false
			}
			// len(name) > 0 / name != "" : the fallback is the false outcome
			switch be.Op {
			case token.GTR, token.NEQ:
				return true, false
			case token.EQL, token.LEQ:
				return true, true
			}
			return false, false
		})
		for _, p := range peer {
			r.Check(len(pass) > 0 && fn.MustPass(p, nil, pass), "C19.2", "clientSessionCacheKey:fallback", c.PosP(p), "the peer address is the key only when ServerName is empty", "the peer address can be returned as key although ServerName is set")
		}
	}
	fn := c.Fn("C19.2", "Conn", "loadSession")
	if fn == nil {
		return
	}
	// the Get is keyed by the result of clientSessionCacheKey
	keyObjs := map[types.Object]bool{}
	ast.Inspect(fn.Body, func(n ast.Node) bool {
		as, ok := n.(*ast.AssignStmt)
		if !ok || len(as.Lhs) != 1 || len(as.Rhs) != 1 {
			return true
		}
		if an.IsCallTo(info, an.Unparen(as.Rhs[0]), Mod, "Conn", "clientSessionCacheKey") {
			if id, ok := as.Lhs[0].(*ast.Ident); ok {
				keyObjs[objOf(info, id)] = true
			}
		}
		return true
	})
	gets := fn.FindNodes(func(n ast.Node) bool {
		call, ok := n.(*ast.CallExpr)
		if !ok {
			return false
		}
		f, _ := an.Callee(info, call).(*types.Func)
		if f == nil || f.Name() != "Get" {
			return false
		}
		se, ok := call.Fun.(*ast.SelectorExpr)
		return ok && an.FieldSel(info, an.Unparen(se.X), "Config", "ClientSessionCache")
	})
	if len(gets) == 0 {
		r.Unknown("C19.2", "loadSession:cache-get", c.Pos(fn.Decl), "no ClientSessionCache.Get call found")
	}
	for _, g := range gets {
		call := g.N.(*ast.CallExpr)
		ok := false
		if len(call.Args) == 1 {
			if id, isId := an.Unparen(call.Args[0]).(*ast.Ident); isId && keyObjs[objOf(info, id)] {
				ok = true
			}
			if an.IsCallTo(info, an.Unparen(call.Args[0]), Mod, "Conn", "clientSessionCacheKey") {
				ok = true
			}
		}
		r.Check(ok, "C19.2", "loadSession:cache-get", c.Pos(call), "the cache is queried with clientSessionCacheKey()", "the session cache is not queried with clientSessionCacheKey()")
	}
	// VerifyHostname re-check
	vh := fn.FindNodes(func(n ast.Node) bool {
		call, ok := n.(*ast.CallExpr)
		if !ok {
			return false
		}
		f, _ := an.Callee(info, call).(*types.Func)
		return f != nil && f.Name() == "VerifyHostname" && f.Pkg() != nil && f.Pkg().Path() == "crypto/x509"
	})
	offers := c19Offers(c, fn)
	if len(vh) == 0 {
		r.Bad("C19.2", "loadSession:verify-hostname", c.Pos(fn.Decl), "the cached certificate is never re-checked against the name being connected to (a faulty or shared cache could resume a session of another server)")
	} else {
		call := vh[0].N.(*ast.CallExpr)
		// the argument must be able to carry Config.ServerName
		argOK := false
		var argObj types.Object
		if len(call.Args) == 1 {
			if an.FieldSel(info, an.Unparen(call.Args[0]), "Config", "ServerName") {
				argOK = true
			} else if id, ok := an.Unparen(call.Args[0]).(*ast.Ident); ok {
				argObj = objOf(info, id)
				ast.Inspect(fn.Body, func(n ast.Node) bool {
					as, ok := n.(*ast.AssignStmt)
					if !ok || len(as.Lhs) != 1 || len(as.Rhs) != 1 {
						return true
					}
					if l, ok := as.Lhs[0].(*ast.Ident); ok && objOf(info, l) == argObj && an.FieldSel(info, an.Unparen(as.Rhs[0]), "Config", "ServerName") {
						argOK = true
					}
					return true
				})
			}
		}
		r.Check(argOK, "C19.2", "loadSession:verify-hostname-name", c.Pos(call), "the name checked is Config.ServerName (or its documented override)", "VerifyHostname is not given Config.ServerName")
		// success edge: err == nil outcome of the if that holds the call
		var succ, skip []an.Edge
		okP, _, _ := condEdges(fn, func(cond ast.Expr) (bool, bool) {
			be, ok := cond.(*ast.BinaryExpr)
			if !ok || (be.Op != token.NEQ && be.Op != token.EQL) || !an.IsNilIdent(info, be.Y) {
				return false, false
			}
			id, ok := an.Unparen(be.X).(*ast.Ident)
			if !ok {
				return false, false
			}
			// err defined by the VerifyHostname call
			def := false
			ast.Inspect(fn.Body, func(n ast.Node) bool {
				as, ok := n.(*ast.AssignStmt)
				if ok && len(as.Lhs) == 1 && len(as.Rhs) == 1 && an.Unparen(as.Rhs[0]) == ast.Expr(call) {
					if l, ok := as.Lhs[0].(*ast.Ident); ok && objOf(info, l) == objOf(info, id) {
						def = true
					}
				}
				return true
			})
			return def, be.Op == token.EQL
		})
		succ = okP
		// legitimate ways around the check: verification disabled, or no name to check
		s1, _, _ := condEdges(fn, func(cond ast.Expr) (bool, bool) {
			x, neg := negated(cond)
			if an.FieldSel(info, x, "Config", "InsecureSkipVerify") {
				return true, !neg
			}
			return false, false
		})
		skip = append(skip, s1...)
		if argObj != nil {
			s2, _, _ := condEdges(fn, func(cond ast.Expr) (bool, bool) {
				be, ok := cond.(*ast.BinaryExpr)
				if !ok || !an.MentionsObj(info, be, argObj) {
					return false, false
				}
				switch be.Op {
				case token.GTR, token.NEQ: // len(name) > 0: skipping is the false outcome
					return true, false
				case token.EQL:
					return true, true
				}
				return false, false
			})
			skip = append(skip, s2...)
		}
		if len(succ) == 0 {
			r.Unknown("C19.2", "loadSession:verify-hostname", c.Pos(call), "the test of VerifyHostname's error was not recognised")
		}
		for _, o := range offers {
			r.Check(len(succ) > 0 && fn.MustPass(o.P, nil, append(append([]an.Edge(nil), succ...), skip...)), "C19.2", "loadSession:verify-hostname:"+o.name, c.Pos(o.N),
				"the session is offered only after the cached certificate was re-checked against the server name (or verification is off)", "a cached session can be offered without re-checking its certificate against the server name")
		}
	}
	r.Floor("C19.2", 6)
}

type c19Offer struct {
	an.Hit
	name string
}

// c19Offers: the statements that put a cached session into the hello.
func c19Offers(c *Ctx, fn *an.Fn) []c19Offer {
	info := c.Info()
	var out []c19Offer
	for _, f := range []string{"sessionTicket", "pskIdentities"} {
		for _, h := range fn.FindNodes(func(n ast.Node) bool {
			as, ok := n.(*ast.AssignStmt)
			if !ok {
				return false
			}
			for i, l := range as.Lhs {
				if an.FieldSel(info, an.Unparen(l), "clientHelloMsg", f) && i < len(as.Rhs) && !an.IsNilIdent(info, as.Rhs[i]) {
					return true
				}
			}
			return false
		}) {
			out = append(out, c19Offer{h, f})
		}
	}
	return out
}

// C19.3
func c19PskLast(c *Ctx) {
	r := c.R
	info := c.Info()
	if fn := c.Fn("C19.3", "sessionController", "syncSessionExts"); fn != nil {
		psk := load.Named(c.P.TLS, "PreSharedKeyExtension")
		found := false
		ast.Inspect(fn.Body, func(n ast.Node) bool {
			rs, ok := n.(*ast.RangeStmt)
			if !ok || !an.MentionsField(info, rs.X, "UConn", "Extensions") {
				return true
			}
			key, _ := rs.Key.(*ast.Ident)
			ast.Inspect(rs.Body, func(m ast.Node) bool {
				cc, ok := m.(*ast.CaseClause)
				if !ok {
					return true
				}
				isPsk := false
				for _, t := range cc.List {
					if psk != nil && types.Identical(info.TypeOf(t), psk) {
						isPsk = true
					}
				}
				if !isPsk {
					return true
				}
				found = true
				// the position check: first statement-level check of `key == len(Extensions)-1`
				isLastCheck := func(x ast.Expr) bool {
					be, ok := an.Unparen(x).(*ast.BinaryExpr)
					if !ok || (be.Op != token.EQL && be.Op != token.NEQ) || key == nil {
						return false
					}
					for _, pr := range [][2]ast.Expr{{be.X, be.Y}, {be.Y, be.X}} {
						id, ok := an.Unparen(pr[0]).(*ast.Ident)
						if !ok || objOf(info, id) != objOf(info, key) {
							continue
						}
						sub, ok := an.Unparen(pr[1]).(*ast.BinaryExpr)
						if !ok || sub.Op != token.SUB {
							continue
						}
						if v, isC := an.ConstInt(info, sub.Y); !isC || v != 1 {
							continue
						}
						call, ok := an.Unparen(sub.X).(*ast.CallExpr)
						if !ok || len(call.Args) != 1 {
							continue
						}
						if f, ok := call.Fun.(*ast.Ident); ok && f.Name == "len" && an.MentionsField(info, call.Args[0], "UConn", "Extensions") {
							return true
						}
					}
					return false
				}
				checkIdx := -1
				for i, s := range cc.Body {
					switch v := s.(type) {
					case *ast.ExprStmt:
						if call, ok := v.X.(*ast.CallExpr); ok && an.IsCallTo(info, call, Mod, "", "uAssert") && len(call.Args) > 0 && isLastCheck(call.Args[0]) {
							if be := an.Unparen(call.Args[0]).(*ast.BinaryExpr); be.Op == token.EQL {
								checkIdx = i
							}
						}
					case *ast.IfStmt:
						if isLastCheck(v.Cond) {
							if be := an.Unparen(v.Cond).(*ast.BinaryExpr); be.Op == token.NEQ && len(v.Body.List) > 0 {
								switch last := v.Body.List[len(v.Body.List)-1].(type) {
								case *ast.ReturnStmt:
									checkIdx = i
								case *ast.ExprStmt:
									if call, ok := last.X.(*ast.CallExpr); ok {
										if id, ok := call.Fun.(*ast.Ident); ok && id.Name == "panic" {
											checkIdx = i
										}
									}
								}
							}
						}
					}
					if checkIdx >= 0 {
						break
					}
				}
				// everything that adopts the extension must come after the check
				firstUse := -1
				for i, s := range cc.Body {
					if an.Contains(s, func(x ast.Node) bool {
						as, ok := x.(*ast.AssignStmt)
						if !ok {
							return false
						}
						for _, l := range as.Lhs {
							if an.FieldSel(info, an.Unparen(l), "sessionController", "pskExtension") || an.MentionsField(info, l, "UConn", "Extensions") {
								return true
							}
						}
						return false
					}) {
						firstUse = i
						break
					}
				}
				switch {
				case checkIdx < 0:
					r.Bad("C19.3", "syncSessionExts:psk-last", c.Pos(cc), "the pre_shared_key extension is adopted without asserting that it is the last extension (RFC 8446 4.2.11: it MUST be last; the binder covers everything before it)")
				case firstUse >= 0 && firstUse < checkIdx:
					r.Bad("C19.3", "syncSessionExts:psk-last", c.Pos(cc.Body[firstUse]), "the pre_shared_key extension is adopted before its position is checked")
				default:
					r.Ok("C19.3", "syncSessionExts:psk-last", c.Pos(cc.Body[checkIdx]), "position i == len(Extensions)-1 is asserted before the extension is adopted")
				}
				return true
			})
			return true
		})
		if !found {
			r.Unknown("C19.3", "syncSessionExts:psk-last", c.Pos(fn.Decl), "no type-switch clause for PreSharedKeyExtension over uconn.Extensions found")
		}
	}
	if fn := c.Fn("C19.3", "UConn", "uApplyPatch"); fn != nil {
		isRawLen := func(x ast.Expr) bool {
			call, ok := an.Unparen(x).(*ast.CallExpr)
			if !ok || len(call.Args) != 1 {
				return false
			}
			id, ok := call.Fun.(*ast.Ident)
			return ok && id.Name == "len" && an.FieldSel(info, an.Unparen(call.Args[0]), "PubClientHelloMsg", "Raw")
		}
		// before := len(Hello.Raw)
		var before types.Object
		var defPt an.Point
		for _, h := range fn.FindNodes(func(n ast.Node) bool {
			as, ok := n.(*ast.AssignStmt)
			return ok && len(as.Lhs) == 1 && len(as.Rhs) == 1 && isRawLen(as.Rhs[0])
		}) {
			if id, ok := h.N.(*ast.AssignStmt).Lhs[0].(*ast.Ident); ok && before == nil {
				before = objOf(info, id)
				defPt = h.P
			}
		}
		patch := fn.Find(an.CallTo(info, Mod, "sessionController", "updateBinders"))
		checks := fn.Find(func(n ast.Node) bool {
			be, ok := n.(*ast.BinaryExpr)
			if !ok || before == nil || (be.Op != token.EQL && be.Op != token.NEQ) {
				return false
			}
			isBefore := func(x ast.Expr) bool {
				id, ok := an.Unparen(x).(*ast.Ident)
				return ok && objOf(info, id) == before
			}
			return (isBefore(be.X) && isRawLen(be.Y)) || (isBefore(be.Y) && isRawLen(be.X))
		})
		switch {
		case len(patch) == 0:
			r.Unknown("C19.3", "uApplyPatch:length-invariant", c.Pos(fn.Decl), "call to updateBinders not found")
		case before == nil || len(checks) == 0:
			r.Bad("C19.3", "uApplyPatch:length-invariant", c.Pos(fn.Decl), "the hello length is not compared before/after inserting the binders: a patch that changes the length would corrupt the record silently")
		default:
			ok := true
			for _, p := range patch {
				if !fn.MustPass(p, []an.Point{defPt}, nil) {
					ok = false
				}
				for _, ex := range fn.ExitsReachable(p, nil, nil) {
					// an exit that reports an error (the patch failed) need not re-check the length
					if rs, isRet := ex.Node().(*ast.ReturnStmt); isRet && len(rs.Results) > 0 && returnsError(fn, rs) {
						continue
					}
					if !fn.MustPassFrom(p, ex, checks, nil) {
						ok = false
					}
				}
			}
			r.Check(ok, "C19.3", "uApplyPatch:length-invariant", c.PosP(checks[0]), "length recorded before the patch and compared on every exit after it", "an exit of uApplyPatch after updateBinders does not pass the length comparison (or the length is recorded after patching)")
		}
	}
	r.Floor("C19.3", 2)
}

// C19.4
func c19PatchError(c *Ctx) {
	r := c.R
	info := c.Info()
	n := 0
	for _, fd := range load.AllFuncDecls(c.P.TLS) {
		var stack []ast.Node
		ast.Inspect(fd.Body, func(x ast.Node) bool {
			if x == nil {
				stack = stack[:len(stack)-1]
				return false
			}
			stack = append(stack, x)
			call, ok := x.(*ast.CallExpr)
			if !ok {
				return true
			}
			f, _ := an.Callee(info, call).(*types.Func)
			if f == nil || f.Name() != "PatchBuiltHello" || f.Pkg() != c.P.TLS.Types {
				return true
			}
			n++
			cons := recvDot(load.RecvName(fd)) + fd.Name.Name + ":PatchBuiltHello"
			parent := stack[len(stack)-2]
			switch p := parent.(type) {
			case *ast.ExprStmt:
				r.Bad("C19.4", cons, c.Pos(call), "the error of PatchBuiltHello is discarded: when the binder cannot be inserted (length mismatch, marshal failure) the hello goes out with placeholder binders and the server aborts with an invalid-binder alert instead of the client reporting the error")
			case *ast.AssignStmt:
				blank := true
				for _, l := range p.Lhs {
					if id, ok := l.(*ast.Ident); !ok || id.Name != "_" {
						blank = false
					}
				}
				r.Check(!blank, "C19.4", cons, c.Pos(call), "error is bound to a variable", "the error of PatchBuiltHello is assigned to _")
			default:
				r.Ok("C19.4", cons, c.Pos(call), "result is used (%T)", parent)
			}
			return true
		})
	}
	if n == 0 {
		r.Unknown("C19.4", "PatchBuiltHello:callers", "", "no call to PatchBuiltHello found")
	}
	r.Floor("C19.4", 1)
}

// C19.5
func c19HRR(c *Ctx) {
	r := c.R
	info := c.Info()
	fn := c.Fn("C19.5", "clientHandshakeStateTLS13", "processHelloRetryRequest")
	if fn == nil {
		return
	}
	remarshal := fn.Find(func(n ast.Node) bool {
		call, ok := n.(*ast.CallExpr)
		if !ok {
			return false
		}
		return an.IsCallTo(info, call, Mod, "UConn", "MarshalClientHelloNoECH") || an.IsCallTo(info, call, Mod, "UConn", "MarshalClientHello")
	})
	if len(remarshal) == 0 {
		r.Unknown("C19.5", "processHelloRetryRequest:utls-remarshal", c.Pos(fn.Decl), "the uTLS re-marshalling of the second ClientHello was not found")
		return
	}
	// the uTLS section: everything behind `hs.uconn != nil`
	uPass, _, _ := condEdges(fn, func(cond ast.Expr) (bool, bool) {
		be, ok := cond.(*ast.BinaryExpr)
		if !ok || (be.Op != token.NEQ && be.Op != token.EQL) || !an.IsNilIdent(info, be.Y) {
			return false, false
		}
		if an.FieldSel(info, an.Unparen(be.X), "clientHandshakeStateTLS13", "uconn") {
			return true, be.Op == token.NEQ
		}
		return false, false
	})
	// conditions on the presence of PSK identities inside the uTLS section
	type pc struct {
		b       *cfg.Block
		nonEmpt an.Edge
	}
	var conds []pc
	for _, b := range fn.G.Blocks {
		if !b.Live {
			continue
		}
		t, f, ok := an.CondEdges(b)
		if !ok {
			continue
		}
		be, isB := an.Unparen(b.Nodes[len(b.Nodes)-1].(ast.Expr)).(*ast.BinaryExpr)
		if !isB || !an.MentionsField(info, be, "clientHelloMsg", "pskIdentities") {
			continue
		}
		p := an.Point{B: b, I: len(b.Nodes) - 1}
		if len(uPass) == 0 || !fn.MustPass(p, nil, uPass) {
			continue // upstream section
		}
		switch be.Op {
		case token.GTR, token.NEQ:
			conds = append(conds, pc{b, t})
		case token.EQL:
			conds = append(conds, pc{b, f})
		}
	}
	if len(conds) == 0 {
		// no special case: then the PSK extension must be refreshed before re-marshalling
		upd := fn.Find(func(n ast.Node) bool {
			call, ok := n.(*ast.CallExpr)
			if !ok {
				return false
			}
			f, _ := an.Callee(info, call).(*types.Func)
			return f != nil && (f.Name() == "PatchBuiltHello" || f.Name() == "updateBinders" || f.Name() == "uApplyPatch")
		})
		r.Check(len(upd) > 0, "C19.5", "processHelloRetryRequest:psk-hrr", c.PosP(remarshal[0]), "the binders are recomputed for the second ClientHello",
			"the second ClientHello is re-marshalled without recomputing the PSK binders (they cover the new transcript, RFC 8446 4.2.11.2)")
		r.Floor("C19.5", 1)
		return
	}
	for _, cd := range conds {
		reach := fn.Reach(an.Point{B: cd.b, I: len(cd.b.Nodes) - 1}, nil, edgesExcept(cd.nonEmpt))
		ok := false
		for _, m := range remarshal {
			if reach[m] {
				ok = true
			}
		}
		r.Check(ok, "C19.5", "processHelloRetryRequest:psk-hrr", c.PosP(an.Point{B: cd.b, I: len(cd.b.Nodes) - 1}), "with PSK identities present the second ClientHello is still produced",
			"when the first ClientHello offered a PSK, every path of the uTLS section ends in an error before the second ClientHello is marshalled: a resuming PSK parrot cannot complete a handshake that needs a HelloRetryRequest")
	}
	r.Floor("C19.5", 1)
}
