package props

import (
	"fmt"
	"sort"
	"strings"
)

// Lin is a linear form c + Σ k·atom over symbolic non-negative atoms (lengths, sums, indices).
type Lin struct {
	C int64
	T map[string]int64
}

func linConst(c int64) Lin { return Lin{C: c} }
func linAtom(a string) Lin { return Lin{T: map[string]int64{a: 1}} }

func (l Lin) clone() Lin {
	n := Lin{C: l.C}
	if len(l.T) > 0 {
		n.T = map[string]int64{}
		for k, v := range l.T {
			n.T[k] = v
		}
	}
	return n
}

func (l Lin) Add(o Lin) Lin {
	n := l.clone()
	n.C += o.C
	for k, v := range o.T {
		if n.T == nil {
			n.T = map[string]int64{}
		}
		n.T[k] += v
		if n.T[k] == 0 {
			delete(n.T, k)
		}
	}
	return n
}

func (l Lin) Scale(k int64) Lin {
	n := Lin{C: l.C * k}
	if k != 0 && len(l.T) > 0 {
		n.T = map[string]int64{}
		for a, v := range l.T {
			n.T[a] = v * k
		}
	}
	return n
}

func (l Lin) Sub(o Lin) Lin   { return l.Add(o.Scale(-1)) }
func (l Lin) AddC(c int64) Lin { return l.Add(linConst(c)) }
func (l Lin) IsConst() bool   { return len(l.T) == 0 }
func (l Lin) Eq(o Lin) bool {
	d := l.Sub(o)
	return d.C == 0 && len(d.T) == 0
}

// NonNeg: provably >= 0 assuming all atoms >= 0.
func (l Lin) NonNeg() bool {
	if l.C < 0 {
		return false
	}
	for _, v := range l.T {
		if v < 0 {
			return false
		}
	}
	return true
}

func (l Lin) String() string {
	var ks []string
	for k := range l.T {
		ks = append(ks, k)
	}
	sort.Strings(ks)
	var parts []string
	if l.C != 0 || len(ks) == 0 {
		parts = append(parts, fmt.Sprint(l.C))
	}
	for _, k := range ks {
		v := l.T[k]
		switch v {
		case 1:
			parts = append(parts, k)
		default:
			parts = append(parts, fmt.Sprintf("%d*%s", v, k))
		}
	}
	return strings.Join(parts, "+")
}

// Subst replaces atoms by linear forms.
func (l Lin) Subst(m map[string]Lin) Lin {
	n := linConst(l.C)
	for a, k := range l.T {
		if r, ok := m[a]; ok {
			n = n.Add(r.Scale(k))
		} else {
			n = n.Add(linAtom(a).Scale(k))
		}
	}
	return n
}

// Atoms lists atom names.
func (l Lin) Atoms() []string {
	var ks []string
	for k := range l.T {
		ks = append(ks, k)
	}
	sort.Strings(ks)
	return ks
}

// loop atom naming
func atomLen(p string) string        { return "len(" + p + ")" }
func atomIdx(list string) string     { return "idx(" + list + ")" }
func atomCur(a string) string        { return a } // an atom mentioning [@] is per-element
func atomPre(a string) string        { return "pre·" + a }
func atomSum(a string) string        { return "Σ" + a }
func isElemAtom(a, list string) bool { return strings.Contains(a, list+"[@]") && !strings.HasPrefix(a, "pre·") && !strings.HasPrefix(a, "Σ") }
