package props

// C27.3 — constant evaluation of the TLS 1.0–1.2 cipher-suite tables (cipherSuites, the
// init-time additions to utlsSupportedCipherSuites, EnableWeakCiphers) against an RFC
// reference embedded here. Constructor functions are not matched by spelling: each one is
// reduced to a descriptor derived from its body (resolved crypto callees, wrapper type,
// guard constants) and the descriptor is compared with the reference.

import (
	"fmt"
	"go/ast"
	"go/constant"
	"go/token"
	"go/types"
	"sort"
	"strings"

	"verif/internal/an"
	"verif/internal/load"

	"golang.org/x/tools/go/ssa"
)

// refSuite is one line of the reference: RFC 2246/4346/5246 (RC4, 3DES, AES-CBC-SHA),
// RFC 5246 (CBC-SHA256), RFC 5288/5289 (GCM, ECDHE CBC-SHA256/384), RFC 4492 (ECDHE),
// RFC 7905 (ChaCha20-Poly1305; the pre-standard code points 0xcc13/0xcc14 are served by
// the same construction in utls).
type refSuite struct {
	id                    uint16
	name                  string
	keyLen, macLen, ivLen int64
	kx                    string // RSA | ECDHE_RSA | ECDHE_ECDSA
	flags                 []string
	cipher, mac, aead     string // descriptors, "" = nil
}

const (
	dAESCBC  = "AES-CBC"
	d3DESCBC = "3DES-CBC"
	dRC4     = "RC4"
	dSHA1    = "HMAC-SHA1"
	dSHA256  = "HMAC-SHA256"
	dSHA384  = "HMAC-SHA384"
	dGCM     = "AES-GCM/explicit8/iv4"
	dCHACHA  = "CHACHA20-POLY1305/explicit0/iv12"
)

var (
	fE    = []string{"suiteECDHE"}
	fES   = []string{"suiteECDHE", "suiteECSign"}
	fT    = []string{"suiteTLS12"}
	fET   = []string{"suiteECDHE", "suiteTLS12"}
	fEST  = []string{"suiteECDHE", "suiteECSign", "suiteTLS12"}
	fT3   = []string{"suiteTLS12", "suiteSHA384"}
	fET3  = []string{"suiteECDHE", "suiteTLS12", "suiteSHA384"}
	fEST3 = []string{"suiteECDHE", "suiteECSign", "suiteTLS12", "suiteSHA384"}
)

var refSuites = []refSuite{
	{0x0005, "TLS_RSA_WITH_RC4_128_SHA", 16, 20, 0, "RSA", nil, dRC4, dSHA1, ""},
	{0x000a, "TLS_RSA_WITH_3DES_EDE_CBC_SHA", 24, 20, 8, "RSA", nil, d3DESCBC, dSHA1, ""},
	{0x002f, "TLS_RSA_WITH_AES_128_CBC_SHA", 16, 20, 16, "RSA", nil, dAESCBC, dSHA1, ""},
	{0x0035, "TLS_RSA_WITH_AES_256_CBC_SHA", 32, 20, 16, "RSA", nil, dAESCBC, dSHA1, ""},
	{0x003c, "TLS_RSA_WITH_AES_128_CBC_SHA256", 16, 32, 16, "RSA", fT, dAESCBC, dSHA256, ""},
	{0x003d, "TLS_RSA_WITH_AES_256_CBC_SHA256", 32, 32, 16, "RSA", fT, dAESCBC, dSHA256, ""},
	{0x009c, "TLS_RSA_WITH_AES_128_GCM_SHA256", 16, 0, 4, "RSA", fT, "", "", dGCM},
	{0x009d, "TLS_RSA_WITH_AES_256_GCM_SHA384", 32, 0, 4, "RSA", fT3, "", "", dGCM},
	{0xc007, "TLS_ECDHE_ECDSA_WITH_RC4_128_SHA", 16, 20, 0, "ECDHE_ECDSA", fES, dRC4, dSHA1, ""},
	{0xc009, "TLS_ECDHE_ECDSA_WITH_AES_128_CBC_SHA", 16, 20, 16, "ECDHE_ECDSA", fES, dAESCBC, dSHA1, ""},
	{0xc00a, "TLS_ECDHE_ECDSA_WITH_AES_256_CBC_SHA", 32, 20, 16, "ECDHE_ECDSA", fES, dAESCBC, dSHA1, ""},
	{0xc011, "TLS_ECDHE_RSA_WITH_RC4_128_SHA", 16, 20, 0, "ECDHE_RSA", fE, dRC4, dSHA1, ""},
	{0xc012, "TLS_ECDHE_RSA_WITH_3DES_EDE_CBC_SHA", 24, 20, 8, "ECDHE_RSA", fE, d3DESCBC, dSHA1, ""},
	{0xc013, "TLS_ECDHE_RSA_WITH_AES_128_CBC_SHA", 16, 20, 16, "ECDHE_RSA", fE, dAESCBC, dSHA1, ""},
	{0xc014, "TLS_ECDHE_RSA_WITH_AES_256_CBC_SHA", 32, 20, 16, "ECDHE_RSA", fE, dAESCBC, dSHA1, ""},
	{0xc023, "TLS_ECDHE_ECDSA_WITH_AES_128_CBC_SHA256", 16, 32, 16, "ECDHE_ECDSA", fEST, dAESCBC, dSHA256, ""},
	{0xc024, "TLS_ECDHE_ECDSA_WITH_AES_256_CBC_SHA384", 32, 48, 16, "ECDHE_ECDSA", fEST3, dAESCBC, dSHA384, ""},
	{0xc027, "TLS_ECDHE_RSA_WITH_AES_128_CBC_SHA256", 16, 32, 16, "ECDHE_RSA", fET, dAESCBC, dSHA256, ""},
	{0xc028, "TLS_ECDHE_RSA_WITH_AES_256_CBC_SHA384", 32, 48, 16, "ECDHE_RSA", fET3, dAESCBC, dSHA384, ""},
	{0xc02b, "TLS_ECDHE_ECDSA_WITH_AES_128_GCM_SHA256", 16, 0, 4, "ECDHE_ECDSA", fEST, "", "", dGCM},
	{0xc02c, "TLS_ECDHE_ECDSA_WITH_AES_256_GCM_SHA384", 32, 0, 4, "ECDHE_ECDSA", fEST3, "", "", dGCM},
	{0xc02f, "TLS_ECDHE_RSA_WITH_AES_128_GCM_SHA256", 16, 0, 4, "ECDHE_RSA", fET, "", "", dGCM},
	{0xc030, "TLS_ECDHE_RSA_WITH_AES_256_GCM_SHA384", 32, 0, 4, "ECDHE_RSA", fET3, "", "", dGCM},
	{0xcca8, "TLS_ECDHE_RSA_WITH_CHACHA20_POLY1305_SHA256", 32, 0, 12, "ECDHE_RSA", fET, "", "", dCHACHA},
	{0xcca9, "TLS_ECDHE_ECDSA_WITH_CHACHA20_POLY1305_SHA256", 32, 0, 12, "ECDHE_ECDSA", fEST, "", "", dCHACHA},
	{0xcc13, "OLD_TLS_ECDHE_RSA_WITH_CHACHA20_POLY1305_SHA256", 32, 0, 12, "ECDHE_RSA", fET, "", "", dCHACHA},
	{0xcc14, "OLD_TLS_ECDHE_ECDSA_WITH_CHACHA20_POLY1305_SHA256", 32, 0, 12, "ECDHE_ECDSA", fEST, "", "", dCHACHA},
}

var refKX = map[string]string{
	"RSA":         "rsaKeyAgreement",
	"ECDHE_RSA":   "ecdheKeyAgreement{isRSA=true}",
	"ECDHE_ECDSA": "ecdheKeyAgreement{isRSA=false}",
}

// suiteEntry is one evaluated element of a []*cipherSuite literal.
type suiteEntry struct {
	table string
	pos   token.Pos
	ints  map[string]int64        // id keyLen macLen ivLen flags
	fns   map[string]types.Object // ka cipher mac aead (nil object = nil literal)
	err   string
}

type suiteTables struct {
	base    []suiteEntry
	assigns []suiteAssign
	fnsBy   map[string]map[*types.Func]bool // column -> functions
	desc    map[*types.Func]string
}

type suiteAssign struct {
	fn      string // enclosing function
	pos     token.Pos
	base    string // cipherSuites | utlsSupportedCipherSuites | "" (plain literal)
	entries []suiteEntry
}

func c27EvalSuiteLit(info *types.Info, table string, cl *ast.CompositeLit) ([]suiteEntry, string) {
	sl, ok := info.TypeOf(cl).Underlying().(*types.Slice)
	if !ok {
		return nil, "not a slice literal"
	}
	et := sl.Elem()
	if p, ok := et.Underlying().(*types.Pointer); ok {
		et = p.Elem()
	}
	st, ok := et.Underlying().(*types.Struct)
	if !ok || an.TypeName(et) != "cipherSuite" {
		return nil, "element type is not cipherSuite"
	}
	var out []suiteEntry
	for _, el := range cl.Elts {
		e := suiteEntry{table: table, pos: el.Pos(), ints: map[string]int64{}, fns: map[string]types.Object{}}
		x := el
		if u, ok := x.(*ast.UnaryExpr); ok && u.Op == token.AND {
			x = u.X
		}
		lit, ok := x.(*ast.CompositeLit)
		if !ok {
			e.err = "element is not a composite literal"
			out = append(out, e)
			continue
		}
		vals := map[string]ast.Expr{}
		for i, f := range lit.Elts {
			if kv, ok := f.(*ast.KeyValueExpr); ok {
				if id, ok := kv.Key.(*ast.Ident); ok {
					vals[id.Name] = kv.Value
				}
				continue
			}
			if i < st.NumFields() {
				vals[st.Field(i).Name()] = f
			}
		}
		for i := 0; i < st.NumFields(); i++ {
			name := st.Field(i).Name()
			v, present := vals[name]
			switch st.Field(i).Type().Underlying().(type) {
			case *types.Basic:
				if !present {
					e.ints[name] = 0
					continue
				}
				n, ok := an.ConstInt(info, v)
				if !ok {
					e.err = "field " + name + " is not a constant"
				}
				e.ints[name] = n
			case *types.Signature:
				if !present || an.IsNilIdent(info, v) {
					e.fns[name] = nil
					continue
				}
				var id *ast.Ident
				switch y := an.Unparen(v).(type) {
				case *ast.Ident:
					id = y
				case *ast.SelectorExpr:
					id = y.Sel
				}
				fn, _ := objOfIdent(info, id).(*types.Func)
				if fn == nil {
					e.err = "field " + name + " is not a named function"
					continue
				}
				e.fns[name] = fn
			default:
				e.err = "field " + name + " has an unexpected type"
			}
		}
		out = append(out, e)
	}
	return out, ""
}

func objOfIdent(info *types.Info, id *ast.Ident) types.Object {
	if id == nil {
		return nil
	}
	return objOf(info, id)
}

// c27Tables evaluates the tables and records the C27.3 obligations.
func c27Tables(c *Ctx) *suiteTables {
	r := c.R
	tls := c.P.TLS
	info := tls.TypesInfo
	scope := tls.Types.Scope()
	t := &suiteTables{fnsBy: map[string]map[*types.Func]bool{}, desc: map[*types.Func]string{}}
	baseVar, _ := scope.Lookup("cipherSuites").(*types.Var)
	extVar, _ := scope.Lookup("utlsSupportedCipherSuites").(*types.Var)
	if baseVar == nil || extVar == nil {
		r.Unknown("C27.3-entry", "tables", "", "package variables cipherSuites / utlsSupportedCipherSuites not found")
		return t
	}
	// the base literal
	for _, f := range tls.Syntax {
		for _, d := range f.Decls {
			gd, ok := d.(*ast.GenDecl)
			if !ok || gd.Tok != token.VAR {
				continue
			}
			for _, sp := range gd.Specs {
				vs := sp.(*ast.ValueSpec)
				for i, id := range vs.Names {
					if info.Defs[id] != baseVar {
						continue
					}
					if i >= len(vs.Values) {
						r.Unknown("C27.3-entry", "cipherSuites", c.P.Pos(id.Pos()), "no initialiser")
						continue
					}
					cl, ok := vs.Values[i].(*ast.CompositeLit)
					if !ok {
						r.Unknown("C27.3-entry", "cipherSuites", c.P.Pos(id.Pos()), "initialiser is not a composite literal")
						continue
					}
					es, why := c27EvalSuiteLit(info, "cipherSuites", cl)
					if why != "" {
						r.Unknown("C27.3-entry", "cipherSuites", c.P.Pos(id.Pos()), "%s", why)
					}
					t.base = es
				}
			}
		}
	}
	// assignments to the extended list; any other write to either list is unrecognised
	for _, fd := range load.AllFuncDecls(tls) {
		fname := fd.Name.Name
		if fd.Recv != nil {
			fname = load.RecvName(fd) + "." + fname
		}
		ast.Inspect(fd.Body, func(n ast.Node) bool {
			as, ok := n.(*ast.AssignStmt)
			if !ok {
				return true
			}
			for i, l := range as.Lhs {
				touches := func(v *types.Var) bool { return an.MentionsObj(info, l, v) }
				if touches(baseVar) {
					r.Unknown("C27.3-assign", fname+":cipherSuites", c.P.Pos(as.Pos()), "the base table cipherSuites is modified at run time; table evaluation does not cover this")
					continue
				}
				if !touches(extVar) {
					continue
				}
				a := suiteAssign{fn: fname, pos: as.Pos()}
				id, isIdent := an.Unparen(l).(*ast.Ident)
				if !isIdent || objOf(info, id) != extVar || len(as.Lhs) != len(as.Rhs) || as.Tok != token.ASSIGN {
					r.Unknown("C27.3-assign", fname, c.P.Pos(as.Pos()), "unrecognised write to utlsSupportedCipherSuites")
					continue
				}
				rhs := an.Unparen(as.Rhs[i])
				var lit *ast.CompositeLit
				if call, ok := rhs.(*ast.CallExpr); ok {
					if b, isB := an.Callee(info, call).(*types.Builtin); isB && b.Name() == "append" && len(call.Args) == 2 && call.Ellipsis.IsValid() {
						if bid, ok := an.Unparen(call.Args[0]).(*ast.Ident); ok {
							switch objOf(info, bid) {
							case baseVar:
								a.base = "cipherSuites"
							case extVar:
								a.base = "utlsSupportedCipherSuites"
							}
						}
						lit, _ = an.Unparen(call.Args[1]).(*ast.CompositeLit)
					}
				} else if cl, ok := rhs.(*ast.CompositeLit); ok {
					lit = cl
				}
				if lit == nil || (a.base == "" && rhs != ast.Expr(lit)) {
					r.Unknown("C27.3-assign", fname, c.P.Pos(as.Pos()), "right-hand side is not append(<table>, []*cipherSuite{…}...) or a literal")
					continue
				}
				es, why := c27EvalSuiteLit(info, fname, lit)
				if why != "" {
					r.Unknown("C27.3-assign", fname, c.P.Pos(as.Pos()), "%s", why)
					continue
				}
				a.entries = es
				t.assigns = append(t.assigns, a)
			}
			return true
		})
	}

	// flag constants
	flagVal := map[string]int64{}
	for _, n := range []string{"suiteECDHE", "suiteECSign", "suiteTLS12", "suiteSHA384"} {
		k, ok := scope.Lookup(n).(*types.Const)
		if !ok || k.Val().Kind() != constant.Int {
			r.Unknown("C27.3-entry", "flags", "", "flag constant %s not found", n)
			return t
		}
		v, _ := constant.Int64Val(k.Val())
		flagVal[n] = v
	}
	ref := map[uint16]refSuite{}
	for _, s := range refSuites {
		ref[s.id] = s
	}
	lens := aeadExplicitLens(c)
	describe := func(col string, o types.Object) string {
		if o == nil {
			return ""
		}
		fn := o.(*types.Func)
		if t.fnsBy[col] == nil {
			t.fnsBy[col] = map[*types.Func]bool{}
		}
		t.fnsBy[col][fn] = true
		if d, ok := t.desc[fn]; ok {
			return d
		}
		d := c27Describe(c, col, fn, lens)
		t.desc[fn] = d
		return d
	}
	flagNames := func(v int64) string {
		var out []string
		for _, n := range []string{"suiteECDHE", "suiteECSign", "suiteTLS12", "suiteSHA384"} {
			if v&flagVal[n] != 0 {
				out = append(out, n)
				v &^= flagVal[n]
			}
		}
		if v != 0 {
			out = append(out, fmt.Sprintf("%#x", v))
		}
		if len(out) == 0 {
			return "0"
		}
		return strings.Join(out, "|")
	}
	checkEntry := func(e suiteEntry) {
		id := uint16(e.ints["id"])
		cons := fmt.Sprintf("%s[%#04x]", e.table, id)
		pos := c.P.Pos(e.pos)
		if e.err != "" {
			r.Unknown("C27.3-entry", cons, pos, "%s", e.err)
			return
		}
		rs, ok := ref[id]
		if !ok {
			r.Unknown("C27.3-entry", cons, pos, "suite id %#04x is not in the checker's RFC reference table; add its parameters there", id)
			return
		}
		var diffs []string
		cmpI := func(name string, got, want int64) {
			if got != want {
				diffs = append(diffs, fmt.Sprintf("%s=%d, %s requires %d", name, got, rs.name, want))
			}
		}
		cmpI("keyLen", e.ints["keyLen"], rs.keyLen)
		cmpI("macLen", e.ints["macLen"], rs.macLen)
		cmpI("ivLen", e.ints["ivLen"], rs.ivLen)
		var wantFlags int64
		for _, n := range rs.flags {
			wantFlags |= flagVal[n]
		}
		if e.ints["flags"] != wantFlags {
			diffs = append(diffs, fmt.Sprintf("flags=%s, %s requires %s", flagNames(e.ints["flags"]), rs.name, flagNames(wantFlags)))
		}
		cmpS := func(col, want string) {
			got := describe(col, e.fns[col])
			if got != want {
				g, w := got, want
				if g == "" {
					g = "nil"
				}
				if w == "" {
					w = "nil"
				}
				diffs = append(diffs, fmt.Sprintf("%s is %s, %s requires %s", col, g, rs.name, w))
			}
		}
		cmpS("ka", refKX[rs.kx])
		cmpS("cipher", rs.cipher)
		cmpS("mac", rs.mac)
		cmpS("aead", rs.aead)
		if len(diffs) > 0 {
			r.Bad("C27.3-entry", cons, pos, "%s", strings.Join(diffs, "; "))
			return
		}
		r.Ok("C27.3-entry", cons, pos, "%s: key=%d mac=%d iv=%d kx=%s flags=%s %s%s%s", rs.name, rs.keyLen, rs.macLen, rs.ivLen, rs.kx, flagNames(wantFlags), rs.cipher, pad(rs.mac), rs.aead)
	}
	for _, e := range t.base {
		checkEntry(e)
	}
	ids := func(es []suiteEntry) map[uint16]bool {
		m := map[uint16]bool{}
		for _, e := range es {
			m[uint16(e.ints["id"])] = true
		}
		return m
	}
	baseIDs := ids(t.base)
	// duplicates inside the base table
	c27Dups(c, "cipherSuites", t.base)
	var initIDs map[uint16]bool
	sort.SliceStable(t.assigns, func(i, j int) bool { return t.assigns[i].fn == "init" && t.assigns[j].fn != "init" })
	for _, a := range t.assigns {
		for _, e := range a.entries {
			checkEntry(e)
		}
		full := map[uint16]bool{}
		switch a.base {
		case "cipherSuites":
			for k := range baseIDs {
				full[k] = true
			}
		case "utlsSupportedCipherSuites":
			for k := range baseIDs {
				full[k] = true
			}
			for k := range initIDs {
				full[k] = true
			}
		}
		for k := range ids(a.entries) {
			full[k] = true
		}
		var all []suiteEntry
		if a.base != "" {
			all = append(all, t.base...)
		}
		all = append(all, a.entries...)
		c27Dups(c, a.fn, all)
		if a.fn == "init" {
			initIDs = full
			missing := missingIDs(baseIDs, full)
			r.Check(len(missing) == 0, "C27.3-assign", "init", c.P.Pos(a.pos), fmt.Sprintf("utlsSupportedCipherSuites = %d base suites + %d additions", len(baseIDs), len(a.entries)),
				"the init-time list drops base suites "+missing2s(missing))
			continue
		}
		if initIDs == nil {
			r.Unknown("C27.3-superset", a.fn, c.P.Pos(a.pos), "no init-time assignment of utlsSupportedCipherSuites found to compare with")
			continue
		}
		r.Ok("C27.3-assign", a.fn, c.P.Pos(a.pos), "utlsSupportedCipherSuites = %s + %d additions", a.base, len(a.entries))
		missing := missingIDs(initIDs, full)
		r.Check(len(missing) == 0, "C27.3-superset", a.fn, c.P.Pos(a.pos), "every suite supported before the call is still supported after it",
			fmt.Sprintf("after %s() the suites %s, supported until then, are no longer found by cipherSuiteByID (the list is rebuilt from cipherSuites, discarding the init-time additions): a forged or negotiated connection with such a suite is refused", a.fn, missing2s(missing)))
	}
	if initIDs == nil {
		r.Unknown("C27.3-assign", "init", "", "no init-time assignment of utlsSupportedCipherSuites found")
	}
	// every reference suite of the base+legacy+weak families is reachable in some table (floor by ids)
	r.Floor("C27.3-entry", 27)
	r.Floor("C27.3-assign", 2)
	r.Floor("C27.3-superset", 1)
	c27Lookup(c, extVar)
	r.Count("suite_entries", len(t.base))
	return t
}

func pad(s string) string {
	if s == "" {
		return ""
	}
	return "+" + s
}

func missingIDs(before, after map[uint16]bool) []uint16 {
	var out []uint16
	for k := range before {
		if !after[k] {
			out = append(out, k)
		}
	}
	sort.Slice(out, func(i, j int) bool { return out[i] < out[j] })
	return out
}

func missing2s(ids []uint16) string {
	var s []string
	for _, id := range ids {
		s = append(s, fmt.Sprintf("%#04x", id))
	}
	return strings.Join(s, ", ")
}

func c27Dups(c *Ctx, table string, es []suiteEntry) {
	first := map[uint16]suiteEntry{}
	for _, e := range es {
		id := uint16(e.ints["id"])
		if p, ok := first[id]; ok {
			same := fmt.Sprint(p.ints) == fmt.Sprint(e.ints) && fmt.Sprint(p.fns) == fmt.Sprint(e.fns)
			c.R.Check(same, "C27.3-dup", fmt.Sprintf("%s[%#04x]", table, id), c.P.Pos(e.pos), "duplicate entry is identical to the first",
				fmt.Sprintf("suite %#04x appears twice with different parameters; cipherSuiteByID returns the first, the second is dead", id))
			continue
		}
		first[id] = e
	}
}

// c27Lookup: cipherSuiteByID ranges over the extended list and returns the element whose
// id equals the argument, nil otherwise.
func c27Lookup(c *Ctx, extVar *types.Var) {
	r := c.R
	info := c.Info()
	fd := load.FuncDecl(c.P.TLS, "", "cipherSuiteByID")
	if fd == nil || fd.Type.Params == nil || len(fd.Type.Params.List) == 0 || len(fd.Type.Params.List[0].Names) == 0 {
		r.Unknown("C27.3-lookup", "cipherSuiteByID", "", "anchor function not found")
		return
	}
	param := info.Defs[fd.Type.Params.List[0].Names[0]]
	pos := c.P.Pos(fd.Pos())
	var loops []*ast.RangeStmt
	ast.Inspect(fd.Body, func(n ast.Node) bool {
		if rs, ok := n.(*ast.RangeStmt); ok {
			loops = append(loops, rs)
		}
		return true
	})
	if len(loops) != 1 {
		r.Unknown("C27.3-lookup", "cipherSuiteByID", pos, "expected one range loop, found %d", len(loops))
		return
	}
	rs := loops[0]
	xid, _ := an.Unparen(rs.X).(*ast.Ident)
	if xid == nil || objOf(info, xid) != extVar {
		r.Bad("C27.3-lookup", "cipherSuiteByID", c.P.Pos(rs.Pos()), "the lookup scans %s, not utlsSupportedCipherSuites: the legacy ChaCha20 and weak CBC suites can never be found", an.Str(rs.X))
		return
	}
	vid, _ := rs.Value.(*ast.Ident)
	if vid == nil {
		r.Unknown("C27.3-lookup", "cipherSuiteByID", c.P.Pos(rs.Pos()), "range value variable not found")
		return
	}
	elem := info.Defs[vid]
	good := false
	ast.Inspect(rs.Body, func(n ast.Node) bool {
		is, ok := n.(*ast.IfStmt)
		if !ok {
			return true
		}
		_, ok = an.BinaryWith(an.Unparen(is.Cond), func(e ast.Expr) bool {
			se, ok := an.Unparen(e).(*ast.SelectorExpr)
			if !ok || !an.FieldSel(info, se, "cipherSuite", "id") {
				return false
			}
			id, ok := an.Unparen(se.X).(*ast.Ident)
			return ok && objOf(info, id) == elem
		}, func(e ast.Expr) bool {
			id, ok := an.Unparen(e).(*ast.Ident)
			return ok && objOf(info, id) == param
		})
		be, _ := an.Unparen(is.Cond).(*ast.BinaryExpr)
		if !ok || be == nil || be.Op != token.EQL {
			return true
		}
		for _, st := range is.Body.List {
			if ret, ok := st.(*ast.ReturnStmt); ok && len(ret.Results) == 1 {
				if id, ok := an.Unparen(ret.Results[0]).(*ast.Ident); ok && objOf(info, id) == elem {
					good = true
				}
			}
		}
		return true
	})
	// the function's final statement returns nil
	last := fd.Body.List[len(fd.Body.List)-1]
	ret, _ := last.(*ast.ReturnStmt)
	endsNil := ret != nil && len(ret.Results) == 1 && an.IsNilIdent(info, ret.Results[0])
	r.Check(good && endsNil, "C27.3-lookup", "cipherSuiteByID", pos, "scans utlsSupportedCipherSuites, returns the element whose id equals the argument, nil otherwise",
		"cipherSuiteByID does not return exactly the element whose id equals the argument (or nil when absent)")
	r.Floor("C27.3-lookup", 1)
}

// ---- constructor descriptors ----------------------------------------------------------

func funcRefs(info *types.Info, body ast.Node) map[string]bool {
	refs := map[string]bool{}
	ast.Inspect(body, func(n ast.Node) bool {
		id, ok := n.(*ast.Ident)
		if !ok {
			return true
		}
		fn, ok := info.Uses[id].(*types.Func)
		if !ok || fn.Pkg() == nil {
			return true
		}
		name := fn.Pkg().Path() + "." + fn.Name()
		if sig, ok := fn.Type().(*types.Signature); ok && sig.Recv() != nil {
			name = fn.Pkg().Path() + "." + an.TypeName(sig.Recv().Type()) + "." + fn.Name()
		}
		refs[name] = true
		return true
	})
	return refs
}

func pickOne(refs map[string]bool, table map[string]string) string {
	var got []string
	for k, v := range table {
		if refs[k] {
			got = append(got, v)
		}
	}
	sort.Strings(got)
	if len(got) == 1 {
		return got[0]
	}
	if len(got) == 0 {
		return "?none"
	}
	return "?" + strings.Join(got, "&")
}

// c27Describe reduces a constructor function to its descriptor.
func c27Describe(c *Ctx, col string, fn *types.Func, lens map[string]int64) string {
	info := c.Info()
	var fd *ast.FuncDecl
	if fn.Pkg() == c.P.TLS.Types {
		fd = load.FuncDecl(c.P.TLS, "", fn.Name())
	}
	cons := col + ":" + fn.Name()
	if fd == nil || fd.Body == nil {
		c.R.Unknown("C27.3-ctor", cons, "", "constructor %s has no body in package tls", fn.FullName())
		return "?" + fn.Name()
	}
	pos := c.P.Pos(fd.Pos())
	refs := funcRefs(info, fd.Body)
	var params []types.Object
	for _, f := range fd.Type.Params.List {
		for _, n := range f.Names {
			params = append(params, info.Defs[n])
		}
	}
	d := ""
	switch col {
	case "cipher":
		prim := pickOne(refs, map[string]string{"crypto/aes.NewCipher": "AES", "crypto/des.NewTripleDESCipher": "3DES", "crypto/des.NewCipher": "DES", "crypto/rc4.NewCipher": "RC4"})
		dec, enc := refs["crypto/cipher.NewCBCDecrypter"], refs["crypto/cipher.NewCBCEncrypter"]
		switch {
		case dec && enc:
			d = prim + "-CBC"
		case dec || enc:
			d = prim + "-CBC(one direction only)"
		default:
			d = prim
		}
		// the key parameter must reach the primitive's constructor
		if len(params) < 1 || !c27ArgReaches(info, fd.Body, params[0], "crypto/") {
			d += "(key parameter unused)"
		}
	case "mac":
		h := pickOne(refs, map[string]string{"crypto/sha1.New": "SHA1", "crypto/sha256.New": "SHA256", "crypto/sha256.New224": "SHA224", "crypto/sha512.New384": "SHA384", "crypto/sha512.New": "SHA512", "crypto/md5.New": "MD5"})
		if !refs["crypto/hmac.New"] {
			d = "?no-hmac/" + h
		} else {
			d = "HMAC-" + h
		}
		if len(params) < 1 || !c27ArgReaches(info, fd.Body, params[0], "crypto/hmac") {
			d += "(key parameter unused)"
		}
	case "aead":
		table := map[string]string{"golang.org/x/crypto/chacha20poly1305.New": "CHACHA20-POLY1305", "golang.org/x/crypto/chacha20poly1305.NewX": "XCHACHA20-POLY1305"}
		if refs["crypto/aes.NewCipher"] && (refs["crypto/cipher.NewGCM"] || refs[Mod+"/internal/boring.NewGCMTLS"]) {
			table["crypto/aes.NewCipher"] = "AES-GCM"
		}
		prim := pickOne(refs, table)
		// wrapper type: the aead implementer constructed in the body
		var wrappers []string
		ast.Inspect(fd.Body, func(n ast.Node) bool {
			cl, ok := n.(*ast.CompositeLit)
			if !ok {
				return true
			}
			tn := an.TypeName(info.TypeOf(cl))
			if _, ok := lens[tn]; ok {
				wrappers = append(wrappers, tn)
			}
			return true
		})
		expl := "?"
		if len(wrappers) == 1 {
			expl = fmt.Sprint(lens[wrappers[0]])
		}
		// nonce-length guard: len(<param 2>) != K
		iv := "?"
		if len(params) >= 2 {
			ast.Inspect(fd.Body, func(n ast.Node) bool {
				be, ok := n.(*ast.BinaryExpr)
				if !ok || (be.Op != token.NEQ && be.Op != token.EQL) {
					return true
				}
				call, ok := an.Unparen(be.X).(*ast.CallExpr)
				if !ok || len(call.Args) != 1 {
					return true
				}
				if b, isB := an.Callee(info, call).(*types.Builtin); !isB || b.Name() != "len" {
					return true
				}
				id, ok := an.Unparen(call.Args[0]).(*ast.Ident)
				if !ok || objOf(info, id) != params[1] {
					return true
				}
				if k, ok := an.ConstInt(info, be.Y); ok {
					iv = fmt.Sprint(k)
				}
				return true
			})
		}
		d = fmt.Sprintf("%s/explicit%s/iv%s", prim, expl, iv)
		if len(params) < 1 || !c27ArgReaches(info, fd.Body, params[0], "") {
			d += "(key parameter unused)"
		}
	case "ka":
		d = "?"
		var rets []*ast.ReturnStmt
		ast.Inspect(fd.Body, func(n ast.Node) bool {
			if rs, ok := n.(*ast.ReturnStmt); ok {
				rets = append(rets, rs)
			}
			return true
		})
		if len(rets) == 1 && len(rets[0].Results) == 1 {
			x := an.Unparen(rets[0].Results[0])
			if u, ok := x.(*ast.UnaryExpr); ok && u.Op == token.AND {
				x = u.X
			}
			if cl, ok := x.(*ast.CompositeLit); ok {
				t := info.TypeOf(cl)
				d = an.TypeName(t)
				if st, ok := t.Underlying().(*types.Struct); ok {
					for i := 0; i < st.NumFields(); i++ {
						if st.Field(i).Name() != "isRSA" {
							continue
						}
						val := false
						for j, el := range cl.Elts {
							if kv, ok := el.(*ast.KeyValueExpr); ok {
								if id, ok := kv.Key.(*ast.Ident); ok && id.Name == "isRSA" {
									if tv := info.Types[kv.Value]; tv.Value != nil && tv.Value.Kind() == constant.Bool {
										val = constant.BoolVal(tv.Value)
									}
								}
							} else if j == i {
								if tv := info.Types[el]; tv.Value != nil && tv.Value.Kind() == constant.Bool {
									val = constant.BoolVal(tv.Value)
								}
							}
						}
						d += fmt.Sprintf("{isRSA=%v}", val)
					}
				}
			}
		}
	}
	if strings.Contains(d, "?") || strings.Contains(d, "(") {
		c.R.Unknown("C27.3-ctor", cons, pos, "constructor reduces to %q, which is not a recognised primitive", d)
	} else {
		c.R.Ok("C27.3-ctor", cons, pos, "%s is %s", fn.Name(), d)
	}
	return d
}

// c27ArgReaches: the parameter appears as an argument of some call into a package whose
// path starts with prefix ("" = any call).
func c27ArgReaches(info *types.Info, body ast.Node, param types.Object, prefix string) bool {
	found := false
	ast.Inspect(body, func(n ast.Node) bool {
		call, ok := n.(*ast.CallExpr)
		if !ok || found {
			return !found
		}
		fn, _ := an.Callee(info, call).(*types.Func)
		if fn == nil || fn.Pkg() == nil || !(strings.HasPrefix(fn.Pkg().Path(), prefix) || strings.Contains(fn.Pkg().Path(), "/"+prefix)) {
			return true
		}
		for _, a := range call.Args {
			if id, ok := an.Unparen(a).(*ast.Ident); ok && objOf(info, id) == param {
				found = true
			}
		}
		return true
	})
	return found
}

// aeadExplicitLens evaluates explicitNonceLen() of every type of package tls implementing
// the aead interface to its constant (through one level of same-receiver method calls).
func aeadExplicitLens(c *Ctx) map[string]int64 {
	out := map[string]int64{}
	scope := c.P.TLS.Types.Scope()
	atn, _ := scope.Lookup("aead").(*types.TypeName)
	if atn == nil {
		return out
	}
	iface, ok := atn.Type().Underlying().(*types.Interface)
	if !ok {
		return out
	}
	prog, _ := c.P.SSA()
	for _, name := range scope.Names() {
		tn, ok := scope.Lookup(name).(*types.TypeName)
		if !ok || tn == atn {
			continue
		}
		named, ok := tn.Type().(*types.Named)
		if !ok || types.IsInterface(named) {
			continue
		}
		var recv types.Type
		switch {
		case types.Implements(named, iface):
			recv = named
		case types.Implements(types.NewPointer(named), iface):
			recv = types.NewPointer(named)
		default:
			continue
		}
		sel := prog.MethodSets.MethodSet(recv).Lookup(c.P.TLS.Types, "explicitNonceLen")
		if sel == nil {
			out[name] = -1
			continue
		}
		f := prog.MethodValue(sel)
		v, ok := constResult(f, 3)
		if !ok {
			v = -1
		}
		out[name] = v
	}
	return out
}

// constResult: every return of f yields the same integer constant (directly or through a
// static call whose own result is constant).
func constResult(f *ssa.Function, depth int) (int64, bool) {
	if f == nil || len(f.Blocks) == 0 || depth == 0 {
		return 0, false
	}
	var val int64
	have := false
	okAll := true
	allInstrs(f, func(i ssa.Instruction) {
		ret, ok := i.(*ssa.Return)
		if !ok {
			return
		}
		if len(ret.Results) != 1 {
			okAll = false
			return
		}
		var v int64
		switch x := ret.Results[0].(type) {
		case *ssa.Const:
			if x.Value == nil || x.Value.Kind() != constant.Int {
				okAll = false
				return
			}
			v, _ = constant.Int64Val(x.Value)
		case *ssa.Call:
			sc := x.Call.StaticCallee()
			var ok bool
			v, ok = constResult(sc, depth-1)
			if !ok {
				okAll = false
				return
			}
		default:
			okAll = false
			return
		}
		if have && v != val {
			okAll = false
		}
		val, have = v, true
	})
	return val, have && okAll
}

// ---- C27.1-ctor -------------------------------------------------------------------------

// c27Ctors: every function used in the `cipher` column returns a CBC decrypter exactly on
// the isRead outcome, or does not depend on the direction at all (stream cipher).
func c27Ctors(c *Ctx, t *suiteTables) {
	r := c.R
	info := c.Info()
	var fns []*types.Func
	for fn := range t.fnsBy["cipher"] {
		fns = append(fns, fn)
	}
	sort.Slice(fns, func(i, j int) bool { return fns[i].Name() < fns[j].Name() })
	for _, fn := range fns {
		cons := fn.Name()
		fd := load.FuncDecl(c.P.TLS, "", fn.Name())
		if fd == nil || fd.Body == nil {
			r.Unknown("C27.1-ctor", cons, "", "no body")
			continue
		}
		pos := c.P.Pos(fd.Pos())
		var params []types.Object
		for _, f := range fd.Type.Params.List {
			for _, n := range f.Names {
				params = append(params, info.Defs[n])
			}
		}
		if len(params) != 3 {
			r.Unknown("C27.1-ctor", cons, pos, "expected (key, iv, isRead) parameters")
			continue
		}
		isRead := params[2]
		g := an.NewFn(c.P.TLS, fd)
		tEdges, fEdges, _ := condEdges(g, func(cond ast.Expr) (bool, bool) {
			x, neg := negated(cond)
			id, ok := x.(*ast.Ident)
			if !ok || objOf(info, id) != isRead {
				return false, false
			}
			return true, !neg
		})
		isCall := func(name string) func(ast.Node) bool { return c.callPkgFunc("crypto/cipher", name) }
		dec := g.FindNodes(isCall("NewCBCDecrypter"))
		enc := g.FindNodes(isCall("NewCBCEncrypter"))
		if len(dec) == 0 && len(enc) == 0 {
			if an.MentionsObj(info, fd.Body, isRead) {
				r.Unknown("C27.1-ctor", cons, pos, "direction parameter is used in an unrecognised way")
			} else {
				r.Ok("C27.1-ctor", cons, pos, "direction-free (stream cipher): the same construction serves both halves")
			}
			continue
		}
		ok := len(dec) > 0 && len(enc) > 0 && len(tEdges) > 0
		why := ""
		for _, h := range dec {
			// a decrypter may only be produced when isRead holds
			if !g.MustPass(h.P, nil, tEdges) {
				ok, why = false, "a CBC decrypter is returned when isRead is false"
			}
		}
		for _, h := range enc {
			if !g.MustPass(h.P, nil, fEdges) {
				ok, why = false, "a CBC encrypter is returned when isRead is true"
			}
		}
		if why == "" && !ok {
			why = "the constructor does not produce both a decrypter (isRead) and an encrypter (!isRead)"
		}
		r.Check(ok, "C27.1-ctor", cons, pos, "isRead=true yields cipher.NewCBCDecrypter, isRead=false cipher.NewCBCEncrypter", why)
	}
	r.Floor("C27.1-ctor", 3)
}
