package props

import (
	"fmt"
	"go/ast"
	"go/token"
	"go/types"
	"sort"
	"strings"

	"verif/internal/an"
)

func init() { register(&Prop{ID: "C34", Run: runC34}) }

// C34: arbitrary client input never crashes the server (uTLS-specific parts).
func runC34(c *Ctx) {
	r := c.R
	r.Technique = "CFG rules on utlsHandshakeMessageType and its caller (totality, error handled before the message is used), cryptobyte-only rule for the uTLS unmarshalers, comma-ok/type-switch rule for every consumer of readHandshake's result on the server path, panic-site engine (E6) on the uTLS functions reachable from serverHandshake; upstream code is listed as trusted base"
	r.Explanation = "C34.1 every return of utlsHandshakeMessageType yields either a freshly allocated handshake message or an error that cannot be nil. " +
		"C34.2 its caller uses the returned message only on paths where the error was tested and found nil. " +
		"C34.3 utlsClientEncryptedExtensionsMsg.unmarshal and utlsCompressedCertificateMsg.unmarshal never index or slice their input and every cryptobyte read they perform is tested with the failing outcome returning false. " +
		"C34.4 every function on the server path that takes a message from readHandshake only ever narrows it with a comma-ok assertion or a type switch (the uTLS message types 8 and 25 are accepted from either peer, so every consumer can receive them). " +
		"C34.5 in uTLS-layer functions reachable from serverHandshake every index/slice/assertion/make/explicit-panic site is discharged."
	r.NotDecided = "hangs and deadline behaviour; panics inside the standard library; bounds and internal-invariant panics of the upstream-derived server handshake, record layer and ECH code (counted and listed in the evidence as trusted base); interface dispatch on interfaces without unexported methods is not followed"
	r.Assumptions = append(r.Assumptions, "Conn.sendAlert(a) returns a non-nil error for every alert other than close_notify, and halfConn.setErrorLocked returns a non-nil error when given one (upstream contract)")
	pp := newPrProg(c)

	prMsgTypeTotal(c, pp, "C34.1", "C34.2")
	r.Floor("C34.1", 4)
	r.Floor("C34.2", 2)

	prCryptobyteOnly(c, pp, "C34.3", "utlsClientEncryptedExtensionsMsg", "unmarshal")
	prCryptobyteOnly(c, pp, "C34.3", "utlsCompressedCertificateMsg", "unmarshal")
	r.Floor("C34.3", 10)

	// ---- server path
	root := pp.lookup("", "Conn", "serverHandshake")
	if root == nil {
		r.Unknown("C34.4", "Conn.serverHandshake", "", "anchor not found")
		return
	}
	roots := []*prFunc{root}
	for _, n := range []string{"handlePostHandshakeMessage", "handleRenegotiation"} {
		if f := pp.lookup("", "Conn", n); f != nil {
			roots = append(roots, f)
		} else {
			r.Unknown("C34.4", "Conn."+n, "", "anchor not found")
		}
	}
	// the post-handshake roots are consumers themselves but are not followed into the
	// client handshake (handleRenegotiation returns no_renegotiation when !isClient)
	reach := pp.reach(roots, func(from *prFunc, e prEdge) bool {
		return !(from.decl.Name.Name == "handleRenegotiation" && e.to.decl.Name.Name == "clientHandshake")
	})
	server := map[*prFunc]bool{}
	for _, f := range reach.order {
		server[f] = true
	}
	n := prConsumers(c, pp, "C34.4", func(f *prFunc) bool { return server[f] })
	r.Count("server_consumers", n)
	r.Floor("C34.4", 11)

	// ---- C34.5 uTLS-layer functions on the server path
	verdicts, base := pp.judge(reach, prOptions{scope: func(f *prFunc) bool { return prUTLSLayer(f) }})
	prReport(c, "C34", map[string]string{"bounds": "C34.5", "assert": "C34.5", "panic": "C34.5", "alloc": "C34.5"}, verdicts)
	var scoped []string
	for _, f := range reach.order {
		if prUTLSLayer(f) {
			scoped = append(scoped, f.Name())
			r.Ok("C34.5", "analysed:"+f.Name(), c.Pos(f.decl), "uTLS-layer function on the server path, %d potential panic sites, all judged", len(pp.sites(f)))
		}
	}
	sort.Strings(scoped)
	r.Extra["utls_functions_on_server_path"] = scoped
	r.Floor("C34.5", 3)
	for k, v := range base {
		r.Count("trusted_base_sites_"+k, v)
	}
	r.Count("server_reachable_functions", len(reach.order))
	// explicit panics of the trusted base, with the conditions that dominate them
	var listed []string
	for _, f := range reach.order {
		if prUTLSLayer(f) {
			continue
		}
		for _, s := range pp.sites(f) {
			if s.kind != "panic" {
				continue
			}
			g := "unconditional within its function"
			if s.live {
				var cs []string
				for _, dc := range prDominatingConds(s.fn, s.p) {
					cs = append(cs, fmt.Sprintf("%s is %v", an.Str(dc.cond), dc.onTrue))
				}
				if len(cs) > 0 {
					g = "guard: " + strings.Join(cs, "; ")
				}
			}
			listed = append(listed, fmt.Sprintf("%s [%s] %s — %s", f.Name(), c.Pos(s.n), s.Expr(), g))
		}
	}
	sort.Strings(listed)
	r.Extra["trusted_base_explicit_panics"] = listed
}

// prUTLSLayer: the function is a uTLS addition (declared in a u_*.go file of the root
// package — the repository's convention, also used by the property's anchors).
func prUTLSLayer(f *prFunc) bool {
	return f.pkg.PkgPath == Mod && strings.HasPrefix(f.file, "u_")
}

// ---------------------------------------------------------------------------------------
// utlsHandshakeMessageType totality and its caller

// nonNilError: e is an expression that cannot evaluate to a nil error.
func nonNilError(info *types.Info, e ast.Expr, depth int) (bool, string) {
	call, ok := an.Unparen(e).(*ast.CallExpr)
	if !ok || depth > 3 {
		return false, "not a recognised error constructor"
	}
	fn, _ := an.Callee(info, call).(*types.Func)
	if fn == nil {
		return false, "callee not resolved"
	}
	switch {
	case fn.Pkg() != nil && fn.Pkg().Path() == "errors" && fn.Name() == "New":
		return true, "errors.New"
	case fn.Pkg() != nil && fn.Pkg().Path() == "fmt" && fn.Name() == "Errorf":
		return true, "fmt.Errorf"
	case an.FuncIs(fn, Mod, "halfConn", "setErrorLocked") && len(call.Args) == 1:
		ok, why := nonNilError(info, call.Args[0], depth+1)
		return ok, "setErrorLocked(" + why + ")"
	case (an.FuncIs(fn, Mod, "Conn", "sendAlert") || an.FuncIs(fn, Mod, "Conn", "sendAlertLocked")) && len(call.Args) == 1:
		tv, isC := info.Types[call.Args[0]]
		if !isC || tv.Value == nil {
			return false, "sendAlert with a non-constant alert"
		}
		// close_notify is the one alert whose send can return nil
		if id, ok := an.Unparen(call.Args[0]).(*ast.Ident); ok {
			if o := info.Uses[id]; o != nil && o.Pkg() != nil {
				if cn := o.Pkg().Scope().Lookup("alertCloseNotify"); cn != nil {
					if cc, isConst := cn.(*types.Const); isConst && cc.Val().ExactString() == tv.Value.ExactString() {
						return false, "sendAlert(alertCloseNotify) may return nil"
					}
				}
			}
			return true, "sendAlert(" + id.Name + ")"
		}
		return false, "sendAlert with an unnamed alert value"
	}
	return false, "not a recognised error constructor"
}

// freshMessage: e is new(T) or &T{...}.
func freshMessage(info *types.Info, e ast.Expr) bool {
	switch x := an.Unparen(e).(type) {
	case *ast.CallExpr:
		if id, ok := an.Unparen(x.Fun).(*ast.Ident); ok {
			if b, isB := info.Uses[id].(*types.Builtin); isB && b.Name() == "new" {
				return true
			}
		}
	case *ast.UnaryExpr:
		if x.Op == token.AND {
			_, isLit := an.Unparen(x.X).(*ast.CompositeLit)
			return isLit
		}
	}
	return false
}

func prMsgTypeTotal(c *Ctx, pp *prProg, ruleTotal, ruleCaller string) {
	r := c.R
	info := c.Info()
	fn := c.Fn(ruleTotal, "Conn", "utlsHandshakeMessageType")
	if fn == nil {
		return
	}
	sig := info.Defs[fn.Decl.Name].Type().(*types.Signature)
	if sig.Results().Len() != 2 {
		r.Unknown(ruleTotal, "utlsHandshakeMessageType:signature", c.Pos(fn.Decl), "expected (handshakeMessage, error)")
		return
	}
	for i, ret := range fn.Returns() {
		rs := ret.Node().(*ast.ReturnStmt)
		key := fmt.Sprintf("utlsHandshakeMessageType:return#%d(%s)", i+1, shortExit(rs))
		if len(rs.Results) != 2 {
			r.Unknown(ruleTotal, key, c.Pos(rs), "return shape not recognised")
			continue
		}
		msg, err := rs.Results[0], rs.Results[1]
		switch {
		case an.IsNilIdent(info, err) && freshMessage(info, msg):
			r.Ok(ruleTotal, key, c.Pos(rs), "returns a freshly allocated message and a nil error")
		case an.IsNilIdent(info, err):
			r.Bad(ruleTotal, key, c.Pos(rs), "returns a nil error with a message that is not a fresh allocation (%s): the caller would call unmarshal on a possibly nil message", an.Str(msg))
		default:
			ok, why := nonNilError(info, err, 0)
			if ok {
				r.Ok(ruleTotal, key, c.Pos(rs), "error result cannot be nil: %s", why)
			} else if freshMessage(info, msg) {
				r.Ok(ruleTotal, key, c.Pos(rs), "returns a fresh message together with an error")
			} else {
				r.Bad(ruleTotal, key, c.Pos(rs), "this path returns no message and an error that may be nil (%s): an unknown handshake type would be dereferenced by the caller", why)
			}
		}
	}
	// no fall-off end (every path ends in a return)
	exits := fn.ExitsReachable(fn.EntryPoint(), nil, nil)
	fall := 0
	for _, e := range exits {
		if e.I >= len(e.B.Nodes) {
			fall++
		}
	}
	r.Check(fall == 0, ruleTotal, "utlsHandshakeMessageType:all-paths-return", c.Pos(fn.Decl), "every path ends in a return statement", "a path falls off the end of the function")

	// ---- the caller
	var callers []*prFunc
	target := pp.lookup("", "Conn", "utlsHandshakeMessageType")
	for _, f := range pp.funcs {
		for _, e := range pp.callees(f) {
			if e.to == target && e.kind == "static" {
				callers = append(callers, f)
				break
			}
		}
	}
	if len(callers) == 0 {
		r.Unknown(ruleCaller, "utlsHandshakeMessageType:callers", c.Pos(fn.Decl), "no caller found")
	}
	for _, cf := range callers {
		cf.ensure()
		cinfo := cf.pkg.TypesInfo
		for _, e := range pp.callees(cf) {
			if e.to != target || e.kind != "static" {
				continue
			}
			call := e.at.(*ast.CallExpr)
			as, _ := cf.parent[call].(*ast.AssignStmt)
			key := cf.Name() + ":" + "utlsHandshakeMessageType"
			if as == nil || len(as.Lhs) != 2 {
				r.Bad(ruleCaller, key+":result", c.Pos(call), "the (message, error) result is not assigned to two variables: the error cannot be tested")
				continue
			}
			mID, _ := an.Unparen(as.Lhs[0]).(*ast.Ident)
			eID, _ := an.Unparen(as.Lhs[1]).(*ast.Ident)
			if mID == nil || eID == nil || eID.Name == "_" {
				r.Bad(ruleCaller, key+":result", c.Pos(call), "the error result of utlsHandshakeMessageType is discarded")
				continue
			}
			mObj, eObj := objOf(cinfo, mID), objOf(cinfo, eID)
			loc, ok := cf.points[call]
			if !ok {
				r.Unknown(ruleCaller, key, c.Pos(call), "call not on the CFG")
				continue
			}
			// edges on which err == nil is known
			var pass []an.Edge
			for _, br := range prBranches(loc.fn) {
				for _, pol := range []bool{true, false} {
					for _, l := range prConj(br.cond, pol) {
						be, isBin := an.Unparen(l.cond).(*ast.BinaryExpr)
						if !isBin || (be.Op != token.EQL && be.Op != token.NEQ) {
							continue
						}
						var other ast.Expr
						if id, _ := an.Unparen(be.X).(*ast.Ident); id != nil && objOf(cinfo, id) == eObj {
							other = be.Y
						} else if id, _ := an.Unparen(be.Y).(*ast.Ident); id != nil && objOf(cinfo, id) == eObj {
							other = be.X
						}
						if other == nil || !an.IsNilIdent(cinfo, other) {
							continue
						}
						if (be.Op == token.EQL) == l.pos {
							if pol {
								pass = append(pass, br.t)
							} else {
								pass = append(pass, br.f)
							}
						}
					}
				}
			}
			r.Check(len(pass) > 0, ruleCaller, key+":error-tested", c.Pos(call), "the error result is compared with nil", "the error result of utlsHandshakeMessageType is never compared with nil")
			// every use of the message reachable from the call lies behind err == nil
			uses := 0
			after := loc.fn.Reach(loc.p, nil, nil)
			for p := range after {
				if p.I < 0 || p == loc.p {
					continue
				}
				node := p.Node()
				used := false
				an.Inner(node, func(x ast.Node) bool {
					if id, isID := x.(*ast.Ident); isID && cinfo.Uses[id] == mObj {
						// a plain re-assignment of m is not a use
						if as2, isAs := cf.parent[id].(*ast.AssignStmt); isAs {
							for _, l := range as2.Lhs {
								if l == ast.Expr(id) {
									return true
								}
							}
						}
						used = true
					}
					return true
				})
				if !used {
					continue
				}
				uses++
				okUse := len(pass) > 0 && loc.fn.MustPassFrom(loc.p, p, nil, pass)
				r.Check(okUse, ruleCaller, fmt.Sprintf("%s:use(%s)", key, prClip(an.Str(stmtExpr(node)), 40)), c.Pos(node),
					"the message is used only after the error was found nil", "the message returned by utlsHandshakeMessageType can be used on a path where its error was not found nil (nil message dereference on an unknown handshake type)")
			}
			if uses == 0 {
				r.Unknown(ruleCaller, key+":uses", c.Pos(call), "no use of the returned message found after the call")
			}
		}
	}
}

func stmtExpr(n ast.Node) ast.Node {
	switch s := n.(type) {
	case *ast.ExprStmt:
		return s.X
	case *ast.ReturnStmt:
		if len(s.Results) > 0 {
			return s.Results[0]
		}
	case *ast.AssignStmt:
		if len(s.Rhs) > 0 {
			return s.Rhs[0]
		}
	}
	return n
}

func prClip(s string, n int) string {
	if s == "" {
		return "stmt"
	}
	if len(s) > n {
		return s[:n]
	}
	return s
}

// ---------------------------------------------------------------------------------------
// cryptobyte-only unmarshalers

// prCryptobyteOnly: the function never indexes or slices anything, and every bool-returning
// read on a cryptobyte.String (method or module helper taking *cryptobyte.String) is part
// of a branch condition whose failing outcome returns false.
func prCryptobyteOnly(c *Ctx, pp *prProg, rule, recv, name string) {
	r := c.R
	f := pp.lookup("", recv, name)
	full := recv + "." + name
	if f == nil {
		r.Unknown(rule, full, "", "anchor function not found")
		return
	}
	f.ensure()
	info := f.pkg.TypesInfo
	raw := 0
	for _, s := range pp.sites(f) {
		if s.kind == "index" || s.kind == "slice" || s.kind == "conv" {
			raw++
			r.Bad(rule, full+":raw:"+s.Expr(), c.Pos(s.n), "the unmarshaler indexes/slices data directly instead of going through cryptobyte")
		}
	}
	if raw == 0 {
		r.Ok(rule, full+":no-raw-index", c.Pos(f.decl), "no index or slice expression in the function body")
	}
	isCB := func(t types.Type) bool {
		if p, ok := t.(*types.Pointer); ok {
			t = p.Elem()
		}
		n, ok := types.Unalias(t).(*types.Named)
		return ok && n.Obj().Name() == "String" && n.Obj().Pkg() != nil && strings.HasSuffix(n.Obj().Pkg().Path(), "crypto/cryptobyte")
	}
	reads := 0
	ast.Inspect(f.decl.Body, func(n ast.Node) bool {
		call, ok := n.(*ast.CallExpr)
		if !ok {
			return true
		}
		fn, _ := an.Callee(info, call).(*types.Func)
		if fn == nil {
			return true
		}
		sig := fn.Type().(*types.Signature)
		if sig.Results().Len() != 1 || !prIsBool(sig.Results().At(0).Type()) {
			return true
		}
		isRead := false
		if rcv := sig.Recv(); rcv != nil && isCB(rcv.Type()) {
			isRead = fn.Name() != "Empty"
		} else if rcv == nil && sig.Params().Len() > 0 && isCB(sig.Params().At(0).Type()) {
			isRead = true
		}
		if !isRead {
			return true
		}
		reads++
		key := fmt.Sprintf("%s:%s", full, prClip(an.Str(call), 60))
		// the call must sit in a branch condition; find the branch
		loc, live := f.points[call]
		if !live {
			r.Unknown(rule, key, c.Pos(call), "read not on the CFG")
			return true
		}
		var br *prBranch
		for _, b := range prBranches(loc.fn) {
			b := b
			if b.at == loc.p && b.cond.Pos() <= call.Pos() && call.End() <= b.cond.End() {
				br = &b
			}
		}
		if br == nil {
			r.Bad(rule, key, c.Pos(call), "the result of this cryptobyte read is not tested: a short message would be accepted with zero-valued fields")
			return true
		}
		// which outcome of the whole condition can coexist with this read failing?
		failEdges := []an.Edge{}
		for _, pol := range []bool{true, false} {
			known := false // does `pol` imply the read succeeded?
			for _, l := range prConj(br.cond, pol) {
				if an.Unparen(l.cond) == ast.Expr(call) && l.pos {
					known = true
				}
			}
			if !known {
				if pol {
					failEdges = append(failEdges, br.t)
				} else {
					failEdges = append(failEdges, br.f)
				}
			}
		}
		okAll := len(failEdges) == 1
		why := ""
		if len(failEdges) != 1 {
			why = "neither outcome of the condition implies that the read succeeded"
		}
		for _, fe := range failEdges {
			if !okAll {
				break
			}
			if ok, w := failEdgeExits(loc.fn, fe, nil); !ok {
				okAll, why = false, w
			}
		}
		r.Check(okAll, rule, key, c.Pos(call), "a failed read leads to `return false`", "a failed read does not make the unmarshaler fail: "+why)
		return true
	})
	if reads == 0 && recv != "encryptedExtensionsMsg" {
		r.Unknown(rule, full+":reads", c.Pos(f.decl), "no cryptobyte read found")
	}
}

// ---------------------------------------------------------------------------------------
// consumers of readHandshake

// prConsumers checks every call of Conn.readHandshake in the functions selected by pick:
// the message variable is narrowed only by comma-ok assertions or type switches. Returns
// the number of call sites.
func prConsumers(c *Ctx, pp *prProg, rule string, pick func(*prFunc) bool) int {
	r := c.R
	target := pp.lookup("", "Conn", "readHandshake")
	if target == nil {
		r.Unknown(rule, "Conn.readHandshake", "", "anchor not found")
		return 0
	}
	n := 0
	for _, f := range pp.funcs {
		if !pick(f) {
			continue
		}
		f.ensure()
		info := f.pkg.TypesInfo
		ord := 0
		for _, e := range pp.callees(f) {
			if e.to != target || e.kind != "static" {
				continue
			}
			call := e.at.(*ast.CallExpr)
			n++
			ord++
			key := fmt.Sprintf("%s:readHandshake#%d", f.Name(), ord)
			as, _ := f.parent[call].(*ast.AssignStmt)
			if as == nil || len(as.Lhs) != 2 {
				r.Unknown(rule, key, c.Pos(call), "result of readHandshake is not assigned to (msg, err)")
				continue
			}
			mID, _ := an.Unparen(as.Lhs[0]).(*ast.Ident)
			if mID == nil || mID.Name == "_" {
				r.Ok(rule, key, c.Pos(call), "message discarded")
				continue
			}
			mObj := objOf(info, mID)
			guarded, single := 0, 0
			var firstBad ast.Node
			other := 0
			ast.Inspect(f.decl.Body, func(x ast.Node) bool {
				switch t := x.(type) {
				case *ast.TypeAssertExpr:
					id, _ := an.Unparen(t.X).(*ast.Ident)
					if id == nil || objOf(info, id) != mObj {
						return true
					}
					if t.Type == nil || prCommaOk(f, t) {
						guarded++
					} else {
						single++
						if firstBad == nil {
							firstBad = t
						}
					}
				case *ast.Ident:
					if info.Uses[t] == mObj {
						other++
					}
				}
				return true
			})
			switch {
			case single > 0:
				r.Bad(rule, key, c.Pos(firstBad), "the message read from the peer is narrowed with the single-value assertion %s: a peer sending another handshake type (including the uTLS types 8 and 25) panics the connection goroutine", an.Str(firstBad))
			case guarded > 0:
				r.Ok(rule, key, c.Pos(call), "%d comma-ok assertion(s)/type switch(es) on the message, no single-value assertion", guarded)
			case other > 0:
				// returned or passed on as `any`: the receiver narrows it
				r.Ok(rule, key, c.Pos(call), "message is passed on without being narrowed here")
			default:
				r.Ok(rule, key, c.Pos(call), "message unused")
			}
		}
	}
	return n
}
