package props

import (
	"fmt"
	"go/ast"
	"go/token"
	"go/types"
	"sort"
	"strings"

	"verif/internal/an"

	"golang.org/x/tools/go/packages"
)

// mmSet is a may/must set of symbolic elements (constant names, extension type names).
type mmSet struct {
	must map[string]bool
	may  map[string]bool
}

func newMM(elems ...string) *mmSet {
	s := &mmSet{must: map[string]bool{}, may: map[string]bool{}}
	for _, e := range elems {
		s.must[e], s.may[e] = true, true
	}
	return s
}

func (s *mmSet) clone() *mmSet {
	n := newMM()
	for k := range s.must {
		n.must[k] = true
	}
	for k := range s.may {
		n.may[k] = true
	}
	return n
}

func (s *mmSet) String() string {
	var a, b []string
	for k := range s.must {
		a = append(a, k)
	}
	for k := range s.may {
		if !s.must[k] {
			b = append(b, k)
		}
	}
	sort.Strings(a)
	sort.Strings(b)
	return "must{" + strings.Join(a, ",") + "} maybe{" + strings.Join(b, ",") + "}"
}

// sfState is one partition of the abstract execution: known scalar constants + may/must sets.
type sfState struct {
	consts map[string]string
	sets   map[string]*mmSet
	dead   bool
}

func (s *sfState) clone() *sfState {
	n := &sfState{consts: map[string]string{}, sets: map[string]*mmSet{}}
	for k, v := range s.consts {
		n.consts[k] = v
	}
	for k, v := range s.sets {
		n.sets[k] = v.clone()
	}
	return n
}

func (s *sfState) key() string {
	var ks []string
	for k, v := range s.consts {
		ks = append(ks, k+"="+v)
	}
	sort.Strings(ks)
	return strings.Join(ks, ";")
}

func mergeStates(in []*sfState) []*sfState {
	byKey := map[string]*sfState{}
	var order []string
	for _, s := range in {
		k := s.key()
		if cur, ok := byKey[k]; ok {
			for name, set := range s.sets {
				c, ok := cur.sets[name]
				if !ok {
					// present on one side only: everything is "maybe"
					n := set.clone()
					n.must = map[string]bool{}
					cur.sets[name] = n
					continue
				}
				for e := range c.must {
					if !set.must[e] {
						delete(c.must, e)
					}
				}
				for e := range set.may {
					c.may[e] = true
				}
			}
			for name, c := range cur.sets {
				if _, ok := s.sets[name]; !ok {
					c.must = map[string]bool{}
				}
			}
		} else {
			byKey[k] = s
			order = append(order, k)
		}
	}
	var out []*sfState
	for _, k := range order {
		out = append(out, byKey[k])
	}
	return out
}

// setFlow interprets a function body.
type setFlow struct {
	pkg     *packages.Package
	info    *types.Info
	isCoin  func(call *ast.CallExpr) bool
	locType map[types.Object]string // struct-typed locals -> type name (for &local elements)
	finals  []*sfState
	issues  []string
	listLit map[types.Object][]string // constant slices used for random picks
}

func (f *setFlow) name(e ast.Expr) (string, bool) {
	e = an.Unparen(e)
	switch x := e.(type) {
	case *ast.Ident:
		return x.Name, true
	case *ast.SelectorExpr:
		if b, ok := f.name(x.X); ok {
			return b + "." + x.Sel.Name, true
		}
	}
	return "", false
}

// elem names one element expression.
func (f *setFlow) elem(e ast.Expr) (string, bool) {
	e = an.Unparen(e)
	if u, ok := e.(*ast.UnaryExpr); ok && u.Op == token.AND {
		inner := an.Unparen(u.X)
		if id, ok := inner.(*ast.Ident); ok {
			if t, ok := f.locType[objOf(f.info, id)]; ok {
				return t, true
			}
		}
		if cl, ok := inner.(*ast.CompositeLit); ok {
			return an.TypeName(f.info.TypeOf(cl)), true
		}
	}
	if id, ok := e.(*ast.Ident); ok {
		if _, isConst := f.info.Uses[id].(*types.Const); isConst {
			return id.Name, true
		}
		// local pointer to an extension (alps := &T{})
		if t, ok := f.locType[objOf(f.info, id)]; ok {
			return t, true
		}
	}
	if cl, ok := e.(*ast.CompositeLit); ok {
		// KeyShare{Group: X}
		for _, el := range cl.Elts {
			if kv, ok := el.(*ast.KeyValueExpr); ok {
				if k, ok := kv.Key.(*ast.Ident); ok && k.Name == "Group" {
					return f.elem(kv.Value)
				}
			}
		}
	}
	if call, ok := e.(*ast.CallExpr); ok {
		if tv, ok := f.info.Types[call.Fun]; ok && tv.IsType() && len(call.Args) == 1 {
			return f.elem(call.Args[0])
		}
	}
	return "", false
}

func (f *setFlow) listElems(e ast.Expr) ([]string, bool) {
	cl, ok := an.Unparen(e).(*ast.CompositeLit)
	if !ok {
		return nil, false
	}
	var out []string
	for _, el := range cl.Elts {
		n, ok := f.elem(el)
		if !ok {
			return nil, false
		}
		out = append(out, n)
	}
	return out, true
}

// cond evaluates a condition: returns the states in which it is true and those in which it is false.
func (f *setFlow) cond(e ast.Expr, st *sfState) (t, fl []*sfState) {
	e = an.Unparen(e)
	switch x := e.(type) {
	case *ast.Ident:
		if x.Name == "true" {
			return []*sfState{st}, nil
		}
		if x.Name == "false" {
			return nil, []*sfState{st}
		}
		if v, ok := st.consts[x.Name]; ok {
			if v == "true" {
				return []*sfState{st}, nil
			}
			return nil, []*sfState{st}
		}
	case *ast.UnaryExpr:
		if x.Op == token.NOT {
			a, b := f.cond(x.X, st)
			return b, a
		}
	case *ast.BinaryExpr:
		switch x.Op {
		case token.LAND:
			t1, f1 := f.cond(x.X, st)
			for _, s := range t1 {
				t2, f2 := f.cond(x.Y, s)
				t = append(t, t2...)
				fl = append(fl, f2...)
			}
			return t, append(fl, f1...)
		case token.LOR:
			t1, f1 := f.cond(x.X, st)
			for _, s := range f1 {
				t2, f2 := f.cond(x.Y, s)
				t = append(t, t2...)
				fl = append(fl, f2...)
			}
			return append(t, t1...), fl
		case token.EQL, token.NEQ:
			ln, lok := f.name(x.X)
			rn, rok := f.elem(x.Y)
			if lok && rok {
				if v, ok := st.consts[ln]; ok {
					eq := v == rn
					if x.Op == token.NEQ {
						eq = !eq
					}
					if eq {
						return []*sfState{st}, nil
					}
					return nil, []*sfState{st}
				}
			}
		}
	}
	// unknown (coin flips, lengths, errors): both outcomes
	return []*sfState{st.clone()}, []*sfState{st.clone()}
}

func (f *setFlow) block(stmts []ast.Stmt, in []*sfState) []*sfState {
	cur := in
	for _, s := range stmts {
		cur = f.stmt(s, cur)
		cur = mergeStates(cur)
		if len(cur) == 0 {
			break
		}
	}
	return cur
}

func (f *setFlow) stmt(s ast.Stmt, in []*sfState) []*sfState {
	switch x := s.(type) {
	case *ast.BlockStmt:
		return f.block(x.List, in)
	case *ast.ReturnStmt:
		// a return whose last result is nil ends a successful path
		if len(x.Results) > 0 && an.IsNilIdent(f.info, x.Results[len(x.Results)-1]) {
			f.finals = append(f.finals, in...)
		}
		return nil
	case *ast.IfStmt:
		cur := in
		if x.Init != nil {
			cur = f.stmt(x.Init, cur)
		}
		var out []*sfState
		for _, st := range cur {
			t, fl := f.cond(x.Cond, st)
			out = append(out, f.block(x.Body.List, t)...)
			switch e := x.Else.(type) {
			case nil:
				out = append(out, fl...)
			case *ast.BlockStmt:
				out = append(out, f.block(e.List, fl)...)
			case *ast.IfStmt:
				out = append(out, f.stmt(e, fl)...)
			}
		}
		return out
	case *ast.SwitchStmt:
		var out []*sfState
		for _, cl := range x.Body.List {
			cc := cl.(*ast.CaseClause)
			var sts []*sfState
			for _, st := range in {
				sts = append(sts, st.clone())
			}
			out = append(out, f.block(cc.Body, sts)...)
		}
		return out
	case *ast.DeclStmt:
		if gd, ok := x.Decl.(*ast.GenDecl); ok {
			for _, sp := range gd.Specs {
				if vs, ok := sp.(*ast.ValueSpec); ok {
					for i, nm := range vs.Names {
						if b, ok := f.info.Defs[nm].Type().Underlying().(*types.Basic); ok && b.Kind() == types.Bool && i >= len(vs.Values) {
							for _, st := range in {
								st.consts[nm.Name] = "false"
							}
						}
					}
				}
			}
		}
		return in
	case *ast.AssignStmt:
		if len(x.Lhs) != len(x.Rhs) {
			return in
		}
		cur := in
		for i := range x.Lhs {
			cur = f.assign(x, x.Lhs[i], x.Rhs[i], cur)
		}
		return cur
	case *ast.ForStmt, *ast.RangeStmt:
		return in
	}
	return in
}

func (f *setFlow) assign(as *ast.AssignStmt, lhs, rhs ast.Expr, in []*sfState) []*sfState {
	lhs, rhs = an.Unparen(lhs), an.Unparen(rhs)
	// struct-typed local: remember its type for &local elements; pointer locals too
	if id, ok := lhs.(*ast.Ident); ok && as.Tok == token.DEFINE {
		if o := f.info.Defs[id]; o != nil {
			t := o.Type()
			if p, ok := t.(*types.Pointer); ok {
				t = p.Elem()
			}
			if _, ok := t.Underlying().(*types.Struct); ok {
				f.locType[o] = an.TypeName(t)
			}
		}
	}
	if id, ok := lhs.(*ast.Ident); ok && id.Name == "_" {
		return in
	}
	ln, lok := f.name(lhs)
	// x.F[0].Group = C : replace the single element
	if se, ok := lhs.(*ast.SelectorExpr); ok && se.Sel.Name == "Group" {
		if ix, ok := an.Unparen(se.X).(*ast.IndexExpr); ok {
			if base, ok := f.name(ix.X); ok {
				if v, ok := f.elem(rhs); ok {
					for _, st := range in {
						if set := st.sets[base]; set != nil && len(set.may) == 1 {
							st.sets[base] = newMM(v)
						} else if set != nil {
							set.must = map[string]bool{}
							set.may[v] = true
						}
					}
					return in
				}
			}
		}
	}
	if !lok {
		return in
	}
	// list literal / composite with a list inside
	if els, ok := f.listElems(rhs); ok {
		if _, isSlice := f.info.TypeOf(rhs).Underlying().(*types.Slice); isSlice {
			for _, st := range in {
				st.sets[ln] = newMM(els...)
			}
			if id, ok := lhs.(*ast.Ident); ok {
				f.listLit[objOf(f.info, id)] = els
			}
			return in
		}
	}
	if cl, ok := rhs.(*ast.CompositeLit); ok {
		// T{[]E{...}} or T{F: []E{...}} or T{curveIDs}: the struct's (single) list field
		if stt, ok := f.info.TypeOf(cl).Underlying().(*types.Struct); ok {
			for i, el := range cl.Elts {
				fname := ""
				val := el
				if kv, ok := el.(*ast.KeyValueExpr); ok {
					fname = kv.Key.(*ast.Ident).Name
					val = kv.Value
				} else if i < stt.NumFields() {
					fname = stt.Field(i).Name()
				}
				if _, isSlice := f.info.TypeOf(val).Underlying().(*types.Slice); !isSlice {
					continue
				}
				if els, ok := f.listElems(val); ok {
					for _, st := range in {
						st.sets[ln+"."+fname] = newMM(els...)
					}
				} else if src, ok := f.name(val); ok {
					for _, st := range in {
						if s := st.sets[src]; s != nil {
							st.sets[ln+"."+fname] = s.clone()
						}
					}
				}
			}
		}
		return in
	}
	// append forms
	if call, ok := rhs.(*ast.CallExpr); ok {
		if id, ok := call.Fun.(*ast.Ident); ok && id.Name == "append" && len(call.Args) >= 2 {
			base, bok := f.name(call.Args[0])
			if call.Ellipsis.IsValid() {
				// append(lit, x...) or append(x, y...)
				other, ook := f.name(call.Args[1])
				lit, lik := f.listElems(call.Args[0])
				for _, st := range in {
					n := newMM()
					if lik {
						n = newMM(lit...)
					} else if bok && st.sets[base] != nil {
						n = st.sets[base].clone()
					} else {
						return in
					}
					if ook && st.sets[other] != nil {
						for e := range st.sets[other].must {
							n.must[e] = true
						}
						for e := range st.sets[other].may {
							n.may[e] = true
						}
					}
					st.sets[ln] = n
				}
				return in
			}
			var add []string
			for _, a := range call.Args[1:] {
				v, ok := f.elem(a)
				if !ok {
					f.issues = append(f.issues, "append of an element the analysis cannot name: "+an.Str(a))
					return in
				}
				add = append(add, v)
			}
			for _, st := range in {
				var n *mmSet
				if bok && st.sets[base] != nil {
					n = st.sets[base].clone()
				} else {
					n = newMM()
				}
				for _, v := range add {
					n.must[v], n.may[v] = true, true
				}
				st.sets[ln] = n
			}
			return in
		}
		// other calls assigned to a tracked set name: the value is a function of the argument sets
		if tv, ok := f.info.Types[call.Fun]; !(ok && tv.IsType()) {
			if _, tracked := in[0].sets[ln]; tracked && len(call.Args) >= 1 {
				// e.g. removeRC4Ciphers(x), removeRandomCiphers(r, x, w): keep as "derived"; nothing to do for named sets
			}
		}
	}
	// scalar constants and booleans
	if v, ok := f.elem(rhs); ok {
		if _, isConst := f.info.Types[rhs]; isConst && f.info.Types[rhs].Value != nil {
			for _, st := range in {
				st.consts[ln] = v
			}
			return in
		}
	}
	if id, ok := rhs.(*ast.Ident); ok && (id.Name == "true" || id.Name == "false") {
		for _, st := range in {
			st.consts[ln] = id.Name
		}
		return in
	}
	// x = cands[r.Intn(len(cands))]
	if ix, ok := rhs.(*ast.IndexExpr); ok {
		if id, ok := an.Unparen(ix.X).(*ast.Ident); ok {
			if els := f.listLit[objOf(f.info, id)]; len(els) > 0 {
				var out []*sfState
				for _, st := range in {
					for _, e := range els {
						n := st.clone()
						n.consts[ln] = e
						out = append(out, n)
					}
				}
				return out
			}
		}
	}
	// boolean expression (possibly involving coins): partition on its value
	if lt := f.info.TypeOf(lhs); lt == nil {
		return in
	} else if b, ok := lt.Underlying().(*types.Basic); ok && b.Kind() == types.Bool {
		var out []*sfState
		for _, st := range in {
			t, fl := f.cond(rhs, st)
			for _, s := range t {
				s.consts[ln] = "true"
				out = append(out, s)
			}
			for _, s := range fl {
				s.consts[ln] = "false"
				out = append(out, s)
			}
		}
		return out
	}
	return in
}

func runSetFlow(pkg *packages.Package, fd *ast.FuncDecl) (*setFlow, []*sfState) {
	f := &setFlow{pkg: pkg, info: pkg.TypesInfo, locType: map[types.Object]string{}, listLit: map[types.Object][]string{}}
	start := &sfState{consts: map[string]string{}, sets: map[string]*mmSet{}}
	f.block(fd.Body.List, []*sfState{start})
	return f, mergeStates(f.finals)
}

var _ = fmt.Sprint
