package props

import (
	"fmt"
	"go/ast"
	"go/token"
	"go/types"

	"verif/internal/an"

	"golang.org/x/tools/go/packages"
)

// bvVal is an abstract value of the executor: an integer bit vector or a list of bytes.
type bvVal struct {
	BV     BV
	List   []BV
	IsList bool
}

// bvOutcome is how one abstract execution ended.
type bvOutcome struct {
	Kind    string // "return" | "panic" | "stuck"
	Ret     []bvVal
	Why     string
	RetBool tri
}

// bvExec executes a function body on abstract values. Conditions must be decidable under the
// given inputs (the caller partitions the input space); loops must have constant bounds.
type bvExec struct {
	pkg    *packages.Package
	info   *types.Info
	vars   map[types.Object]bvVal
	calls  func(call *ast.CallExpr, args []bvVal) (bvVal, bool) // models for callees
	assume func(cond ast.Expr) tri                            // optional oracle for conditions the domain cannot decide
	steps  int
}

func (x *bvExec) env() *bvEnv {
	e := &bvEnv{info: x.info, vars: map[types.Object]BV{}}
	for o, v := range x.vars {
		if !v.IsList {
			e.vars[o] = v.BV
		}
	}
	e.opaque = func(ex ast.Expr, w int) (BV, bool) {
		if call, ok := ex.(*ast.CallExpr); ok && x.calls != nil {
			var args []bvVal
			for _, a := range call.Args {
				args = append(args, x.evalVal(a))
			}
			if v, ok := x.calls(call, args); ok && !v.IsList {
				return v.BV, true
			}
		}
		return BV{}, false
	}
	return e
}

func (x *bvExec) evalVal(e ast.Expr) bvVal {
	e = an.Unparen(e)
	if id, ok := e.(*ast.Ident); ok {
		if o := objOf(x.info, id); o != nil {
			if v, ok := x.vars[o]; ok {
				return v
			}
		}
	}
	switch v := e.(type) {
	case *ast.CompositeLit:
		// []byte{a, b, c}
		var l []BV
		for _, el := range v.Elts {
			l = append(l, x.evalVal(el).BV.trunc(8))
		}
		return bvVal{List: l, IsList: true}
	case *ast.CallExpr:
		if id, ok := v.Fun.(*ast.Ident); ok && id.Name == "append" {
			if _, isB := x.info.Uses[id].(*types.Builtin); isB && len(v.Args) >= 1 {
				base := x.evalVal(v.Args[0])
				out := append([]BV{}, base.List...)
				if v.Ellipsis.IsValid() && len(v.Args) == 2 {
					out = append(out, x.evalVal(v.Args[1]).List...)
				} else {
					for _, a := range v.Args[1:] {
						out = append(out, x.evalVal(a).BV.trunc(8))
					}
				}
				return bvVal{List: out, IsList: true}
			}
		}
		if x.calls != nil {
			var args []bvVal
			for _, a := range v.Args {
				args = append(args, x.evalVal(a))
			}
			if r, ok := x.calls(v, args); ok {
				return r
			}
		}
	}
	env := x.env()
	return bvVal{BV: env.eval(e)}
}

func (x *bvExec) cond(e ast.Expr) tri {
	env := x.env()
	e = an.Unparen(e)
	// ordering comparisons on constants
	if be, ok := e.(*ast.BinaryExpr); ok {
		switch be.Op {
		case token.LSS, token.LEQ, token.GTR, token.GEQ:
			a, b := env.eval(be.X), env.eval(be.Y)
			ca, oka := a.constVal()
			cb, okb := b.constVal()
			if oka && okb {
				var r bool
				switch be.Op {
				case token.LSS:
					r = ca < cb
				case token.LEQ:
					r = ca <= cb
				case token.GTR:
					r = ca > cb
				case token.GEQ:
					r = ca >= cb
				}
				if r {
					return triTrue
				}
				return triFalse
			}
			if x.assume != nil {
				return x.assume(e)
			}
			return triUnknown
		case token.LAND:
			a, b := x.cond(be.X), x.cond(be.Y)
			if a == triFalse || b == triFalse {
				return triFalse
			}
			if a == triTrue && b == triTrue {
				return triTrue
			}
			return triUnknown
		case token.LOR:
			a, b := x.cond(be.X), x.cond(be.Y)
			if a == triTrue || b == triTrue {
				return triTrue
			}
			if a == triFalse && b == triFalse {
				return triFalse
			}
			return triUnknown
		}
	}
	t := env.cond(e)
	if t == triUnknown && x.assume != nil {
		return x.assume(e)
	}
	return t
}

func isPanicCall(info *types.Info, s ast.Stmt) bool {
	es, ok := s.(*ast.ExprStmt)
	if !ok {
		return false
	}
	call, ok := es.X.(*ast.CallExpr)
	if !ok {
		return false
	}
	id, ok := call.Fun.(*ast.Ident)
	if !ok || id.Name != "panic" {
		return false
	}
	_, isB := info.Uses[id].(*types.Builtin)
	return isB
}

// run executes stmts; returns a non-nil outcome when execution ends.
func (x *bvExec) run(stmts []ast.Stmt) *bvOutcome {
	for _, s := range stmts {
		x.steps++
		if x.steps > 5000 {
			return &bvOutcome{Kind: "stuck", Why: "step limit"}
		}
		if isPanicCall(x.info, s) {
			return &bvOutcome{Kind: "panic"}
		}
		switch st := s.(type) {
		case *ast.AssignStmt:
			if len(st.Lhs) != len(st.Rhs) {
				// multi-value call: integer results become fresh named inputs
				for _, l := range st.Lhs {
					if id, ok := l.(*ast.Ident); ok && id.Name != "_" {
						if o := objOf(x.info, id); o != nil {
							if b, ok := o.Type().Underlying().(*types.Basic); ok && b.Info()&types.IsInteger != 0 {
								x.vars[o] = bvVal{BV: bvInput(id.Name, widthOf(o.Type()))}
							}
						}
					}
				}
				continue
			}
			for k, l := range st.Lhs {
				id, ok := l.(*ast.Ident)
				if !ok || id.Name == "_" {
					continue
				}
				o := objOf(x.info, id)
				if o == nil {
					continue
				}
				w := widthOf(o.Type())
				switch st.Tok {
				case token.ASSIGN, token.DEFINE:
					v := x.evalVal(st.Rhs[k])
					if !v.IsList {
						v.BV = v.BV.trunc(w)
					}
					x.vars[o] = v
				default:
					cur := x.vars[o].BV
					rhs := x.evalVal(st.Rhs[k]).BV
					var nv BV
					switch st.Tok {
					case token.OR_ASSIGN:
						nv = cur.bitwise(rhs, bitOr)
					case token.AND_ASSIGN:
						nv = cur.bitwise(rhs, bitAnd)
					case token.XOR_ASSIGN:
						nv = cur.bitwise(rhs, bitXor)
					case token.ADD_ASSIGN:
						nv = cur.add(rhs)
					default:
						nv = bvUnknown(w)
					}
					x.vars[o] = bvVal{BV: nv.trunc(w)}
				}
			}
		case *ast.IncDecStmt:
			if id, ok := st.X.(*ast.Ident); ok {
				if o := objOf(x.info, id); o != nil {
					if cv, ok := x.vars[o].BV.constVal(); ok {
						if st.Tok == token.INC {
							cv++
						} else {
							cv--
						}
						x.vars[o] = bvVal{BV: bvConst(cv, 64).trunc(widthOf(o.Type()))}
					}
				}
			}
		case *ast.DeclStmt:
			if gd, ok := st.Decl.(*ast.GenDecl); ok {
				for _, sp := range gd.Specs {
					if vs, ok := sp.(*ast.ValueSpec); ok {
						for i, nm := range vs.Names {
							o := x.info.Defs[nm]
							if o == nil {
								continue
							}
							if i < len(vs.Values) {
								x.vars[o] = x.evalVal(vs.Values[i])
							} else if _, isSl := o.Type().Underlying().(*types.Slice); isSl {
								x.vars[o] = bvVal{IsList: true}
							} else {
								x.vars[o] = bvVal{BV: bvConst(0, widthOf(o.Type()))}
							}
						}
					}
				}
			}
		case *ast.IfStmt:
			if st.Init != nil {
				if out := x.run([]ast.Stmt{st.Init}); out != nil {
					return out
				}
			}
			switch x.cond(st.Cond) {
			case triTrue:
				if out := x.run(st.Body.List); out != nil {
					return out
				}
			case triFalse:
				switch e := st.Else.(type) {
				case *ast.BlockStmt:
					if out := x.run(e.List); out != nil {
						return out
					}
				case *ast.IfStmt:
					if out := x.run([]ast.Stmt{e}); out != nil {
						return out
					}
				}
			default:
				return &bvOutcome{Kind: "stuck", Why: "undecided condition " + an.Str(st.Cond)}
			}
		case *ast.SwitchStmt:
			// tagless switch, or a tag compared with each case value; the first matching clause runs
			if st.Init != nil {
				if out := x.run([]ast.Stmt{st.Init}); out != nil {
					return out
				}
			}
			var dflt *ast.CaseClause
			matched := false
			for _, cs := range st.Body.List {
				cc := cs.(*ast.CaseClause)
				if cc.List == nil {
					dflt = cc
					continue
				}
				res := triFalse
				for _, ce := range cc.List {
					var t tri
					if st.Tag == nil {
						t = x.cond(ce)
					} else {
						t = x.cond(&ast.BinaryExpr{X: st.Tag, Op: token.EQL, Y: ce})
					}
					if t == triTrue {
						res = triTrue
						break
					}
					if t == triUnknown {
						res = triUnknown
					}
				}
				if res == triUnknown {
					return &bvOutcome{Kind: "stuck", Why: "undecided switch case"}
				}
				if res == triTrue {
					matched = true
					if hasFallthrough(cc) {
						return &bvOutcome{Kind: "stuck", Why: "fallthrough"}
					}
					if out := x.run(cc.Body); out != nil {
						return out
					}
					break
				}
			}
			if !matched && dflt != nil {
				if out := x.run(dflt.Body); out != nil {
					return out
				}
			}
		case *ast.ForStmt:
			if st.Init != nil {
				if out := x.run([]ast.Stmt{st.Init}); out != nil {
					return out
				}
			}
			for iter := 0; ; iter++ {
				if iter > 64 {
					return &bvOutcome{Kind: "stuck", Why: "loop bound"}
				}
				c := triTrue
				if st.Cond != nil {
					c = x.cond(st.Cond)
				}
				if c == triUnknown {
					return &bvOutcome{Kind: "stuck", Why: "undecided loop condition " + an.Str(st.Cond)}
				}
				if c == triFalse {
					break
				}
				if out := x.run(st.Body.List); out != nil {
					return out
				}
				if st.Post != nil {
					if out := x.run([]ast.Stmt{st.Post}); out != nil {
						return out
					}
				}
			}
		case *ast.ReturnStmt:
			out := &bvOutcome{Kind: "return"}
			for _, r := range st.Results {
				if b, ok := x.info.TypeOf(r).Underlying().(*types.Basic); ok && b.Kind() == types.Bool {
					out.RetBool = x.cond(r)
				}
				out.Ret = append(out.Ret, x.evalVal(r))
			}
			return out
		case *ast.ExprStmt, *ast.EmptyStmt:
		case *ast.BlockStmt:
			if out := x.run(st.List); out != nil {
				return out
			}
		default:
			return &bvOutcome{Kind: "stuck", Why: fmt.Sprintf("unsupported statement %T", s)}
		}
	}
	return nil
}

// bindParams binds positional parameters.
func (x *bvExec) bindParams(fd *ast.FuncDecl, args []bvVal) {
	i := 0
	for _, fl := range fd.Type.Params.List {
		for _, nm := range fl.Names {
			if i < len(args) {
				if o := x.info.Defs[nm]; o != nil {
					x.vars[o] = args[i]
				}
			}
			i++
		}
	}
}
