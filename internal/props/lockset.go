package props

// E7 lockrules: intra-procedural must-hold lockset dataflow over the go/cfg CFG.
//
// A lock is named relative to the object that contains it *by value*: the selection
// path of the mutex is resolved through types (explicit and promoted fields) and cut at
// the last pointer hop, so `c.in.Lock()` on a *Conn, `hs.c.in.Lock()` and
// `uconn.in.Lock()` (through the embedded *Conn of UConn) all denote "Conn.in.Mutex",
// `c.Lock()` on an lruSessionCache denotes "lruSessionCache.Mutex", and
// `c.HelloIDMu.Lock()` denotes "Roller.HelloIDMu". Instances are not distinguished:
// within one function every path to an object of the same type is taken to be the same
// object (the analysed code handles one connection / one cache / one roller at a time).

import (
	"go/ast"
	"go/token"
	"go/types"
	"sort"
	"strings"

	"golang.org/x/tools/go/cfg"
	"golang.org/x/tools/go/packages"

	"verif/internal/an"
	"verif/internal/load"
)

type LockID string

type lockKind int

const (
	lkLock lockKind = iota
	lkUnlock
	lkRLock
	lkRUnlock
	lkTry // TryLock/TryRLock: result-dependent, never added to a must set
)

func (k lockKind) String() string {
	return [...]string{"Lock", "Unlock", "RLock", "RUnlock", "TryLock"}[k]
}

// lockOp is one mutex operation.
type lockOp struct {
	ID   LockID
	Kind lockKind
	Call *ast.CallExpr
}

// pathStep is one field hop of a resolved selection path.
type pathStep struct {
	Field  *types.Var
	Owner  string // named struct type declaring Field
	ViaPtr bool   // the struct holding Field was reached through a pointer
}

// selPath resolves expression e (identifier / selector chain, parens and derefs allowed)
// into its root object and the explicit field path, promoted hops included.
func selPath(info *types.Info, e ast.Expr) (root types.Object, steps []pathStep, ok bool) {
	e = an.Unparen(e)
	switch x := e.(type) {
	case *ast.Ident:
		o := objOf(info, x)
		if o == nil {
			return nil, nil, false
		}
		return o, nil, true
	case *ast.StarExpr:
		return selPath(info, x.X)
	case *ast.UnaryExpr:
		if x.Op == token.AND {
			return selPath(info, x.X)
		}
		return nil, nil, false
	case *ast.SelectorExpr:
		sel := info.Selections[x]
		if sel == nil { // qualified identifier pkg.Name
			if o := info.Uses[x.Sel]; o != nil {
				return o, nil, true
			}
			return nil, nil, false
		}
		r, st, k := selPath(info, x.X)
		if !k {
			// unknown base (call result, index…): the path starts at this selection
			r, st = nil, nil
		}
		idx := sel.Index()
		if sel.Kind() != types.FieldVal {
			idx = idx[:len(idx)-1]
		}
		st = append(st[:len(st):len(st)], walkIndex(sel.Recv(), idx, !k)...)
		return r, st, true
	}
	return nil, nil, false
}

// walkIndex follows struct field indices from type t.
func walkIndex(t types.Type, idx []int, firstViaPtr bool) []pathStep {
	var out []pathStep
	for i, k := range idx {
		viaPtr := i == 0 && firstViaPtr
		for {
			switch x := t.(type) {
			case *types.Pointer:
				viaPtr = true
				t = x.Elem()
				continue
			case *types.Alias:
				t = types.Unalias(x)
				continue
			}
			break
		}
		name := ""
		if n, ok := t.(*types.Named); ok {
			name = n.Obj().Name()
		}
		st, ok := t.Underlying().(*types.Struct)
		if !ok || k >= st.NumFields() {
			return out
		}
		f := st.Field(k)
		out = append(out, pathStep{Field: f, Owner: name, ViaPtr: viaPtr})
		t = f.Type()
	}
	return out
}

// valueName renders the suffix of a path that is contained by value in its object:
// "Owner.f1.f2". rootType is used when no pointer hop occurs at all.
func valueName(root types.Object, steps []pathStep) string {
	if len(steps) == 0 {
		if root != nil {
			return "var." + root.Name()
		}
		return "?"
	}
	start := 0
	for i := len(steps) - 1; i >= 0; i-- {
		if steps[i].ViaPtr {
			start = i
			break
		}
	}
	var sb strings.Builder
	owner := steps[start].Owner
	if owner == "" {
		owner = "struct"
	}
	sb.WriteString(owner)
	for _, s := range steps[start:] {
		sb.WriteByte('.')
		sb.WriteString(s.Field.Name())
	}
	return sb.String()
}

// lockOpOf recognises X.Lock()/Unlock()/RLock()/RUnlock()/Try* where the method is the
// one of sync.Mutex / sync.RWMutex (also promoted through embedding).
func lockOpOf(info *types.Info, call *ast.CallExpr) (lockOp, bool) {
	fun, ok := an.Unparen(call.Fun).(*ast.SelectorExpr)
	if !ok {
		return lockOp{}, false
	}
	sel := info.Selections[fun]
	if sel == nil || sel.Kind() != types.MethodVal {
		return lockOp{}, false
	}
	m, ok := sel.Obj().(*types.Func)
	if !ok || m.Pkg() == nil || m.Pkg().Path() != "sync" {
		return lockOp{}, false
	}
	rt := an.TypeName(m.Type().(*types.Signature).Recv().Type())
	if rt != "Mutex" && rt != "RWMutex" {
		return lockOp{}, false
	}
	var kind lockKind
	switch m.Name() {
	case "Lock":
		kind = lkLock
	case "Unlock":
		kind = lkUnlock
	case "RLock":
		kind = lkRLock
	case "RUnlock":
		kind = lkRUnlock
	case "TryLock", "TryRLock":
		kind = lkTry
	default:
		return lockOp{}, false
	}
	root, steps, ok := selPath(info, fun.X)
	if !ok {
		return lockOp{ID: LockID("?" + an.Str(fun.X)), Kind: kind, Call: call}, true
	}
	// promoted hops from the type of fun.X down to the mutex
	idx := sel.Index()
	steps = append(steps[:len(steps):len(steps)], walkIndex(sel.Recv(), idx[:len(idx)-1], false)...)
	if len(steps) == 0 {
		// a mutex variable (or a parameter *sync.Mutex): named by its declaring object
		return lockOp{ID: LockID("var." + root.Name()), Kind: kind, Call: call}, true
	}
	// the first hop is reached through a pointer when the root variable is one
	if root != nil {
		if _, isPtr := types.Unalias(root.Type()).Underlying().(*types.Pointer); isPtr {
			steps[0].ViaPtr = true
		}
	}
	return lockOp{ID: LockID(valueName(root, steps)), Kind: kind, Call: call}, true
}

// lockSet maps held locks to their mode (1 = read-held, 2 = write-held).
type lockSet map[LockID]int

func (s lockSet) clone() lockSet {
	o := make(lockSet, len(s))
	for k, v := range s {
		o[k] = v
	}
	return o
}

func (s lockSet) Has(id LockID) bool { return s[id] > 0 }

func (s lockSet) String() string {
	var ks []string
	for k, v := range s {
		if v == 1 {
			ks = append(ks, string(k)+"(R)")
		} else {
			ks = append(ks, string(k))
		}
	}
	sort.Strings(ks)
	return "{" + strings.Join(ks, ", ") + "}"
}

func (s lockSet) subsetOf(o lockSet) bool {
	for k, v := range s {
		if o[k] < v {
			return false
		}
	}
	return true
}

func meet(a, b lockSet) lockSet {
	o := lockSet{}
	for k, v := range a {
		if w := b[k]; w > 0 {
			if w < v {
				v = w
			}
			o[k] = v
		}
	}
	return o
}

func equalSets(a, b lockSet) bool {
	if len(a) != len(b) {
		return false
	}
	for k, v := range a {
		if b[k] != v {
			return false
		}
	}
	return true
}

// LockFlow is the solved must-hold lockset of one function body.
type LockFlow struct {
	Fn       *an.Fn
	Entry    lockSet
	EntryMay lockSet
	in       map[*cfg.Block]lockSet // must-held at block entry; missing = block not reached
	may      map[*cfg.Block]lockSet // may-held at block entry
	Deferred map[LockID]lockKind    // operations registered by defer (Unlock/RUnlock/Lock)
	Ops      []lockSite
}

type lockSite struct {
	Op       lockOp
	P        an.Point
	Deferred bool
}

// nodeLockOps lists the mutex operations executed by CFG node n itself, in source order
// (function literals, defer and go statements do not execute their calls here).
func nodeLockOps(info *types.Info, n ast.Node) []lockOp {
	switch n.(type) {
	case *ast.DeferStmt, *ast.GoStmt:
		return nil
	}
	var out []lockOp
	an.Inner(n, func(x ast.Node) bool {
		if call, ok := x.(*ast.CallExpr); ok {
			if op, ok := lockOpOf(info, call); ok {
				out = append(out, op)
			}
		}
		return true
	})
	sort.SliceStable(out, func(i, j int) bool { return out[i].Call.Pos() < out[j].Call.Pos() })
	return out
}

func applyOps(s lockSet, ops []lockOp) lockSet {
	if len(ops) == 0 {
		return s
	}
	s = s.clone()
	for _, op := range ops {
		switch op.Kind {
		case lkLock:
			s[op.ID] = 2
		case lkRLock:
			if s[op.ID] < 1 {
				s[op.ID] = 1
			}
		case lkUnlock, lkRUnlock:
			delete(s, op.ID)
		}
	}
	return s
}

// deferredOps returns the mutex operations a defer statement registers: the call
// itself, or the operations of an immediately deferred function literal's body.
func deferredOps(info *types.Info, d *ast.DeferStmt) []lockOp {
	if op, ok := lockOpOf(info, d.Call); ok {
		return []lockOp{op}
	}
	if fl, ok := an.Unparen(d.Call.Fun).(*ast.FuncLit); ok {
		var out []lockOp
		an.Inner(fl.Body, func(x ast.Node) bool {
			if call, ok := x.(*ast.CallExpr); ok {
				if op, ok := lockOpOf(info, call); ok {
					out = append(out, op)
				}
			}
			return true
		})
		return out
	}
	return nil
}

// NewLockFlow solves the lockset equations for fn with the given locks held on entry.
func NewLockFlow(fn *an.Fn, entry lockSet) *LockFlow { return NewLockFlowMM(fn, entry, entry) }

// NewLockFlowMM is NewLockFlow with separate must-held and may-held entry sets.
func NewLockFlowMM(fn *an.Fn, entry, entryMay lockSet) *LockFlow {
	lf := &LockFlow{Fn: fn, Entry: entry.clone(), EntryMay: entryMay.clone(), in: map[*cfg.Block]lockSet{}, may: map[*cfg.Block]lockSet{}, Deferred: map[LockID]lockKind{}}
	info := fn.Info
	ops := map[*cfg.Block][][]lockOp{}
	for _, b := range fn.G.Blocks {
		if !b.Live {
			continue
		}
		per := make([][]lockOp, len(b.Nodes))
		for i, n := range b.Nodes {
			per[i] = nodeLockOps(info, n)
			for _, op := range per[i] {
				lf.Ops = append(lf.Ops, lockSite{Op: op, P: an.Point{B: b, I: i}})
			}
			if d, ok := n.(*ast.DeferStmt); ok {
				for _, op := range deferredOps(info, d) {
					lf.Deferred[op.ID] = op.Kind
					lf.Ops = append(lf.Ops, lockSite{Op: op, P: an.Point{B: b, I: i}, Deferred: true})
				}
			}
		}
		ops[b] = per
	}
	solve := func(state map[*cfg.Block]lockSet, join func(a, b lockSet) lockSet, entry lockSet) {
		state[fn.Entry()] = entry.clone()
		work := []*cfg.Block{fn.Entry()}
		for len(work) > 0 {
			b := work[len(work)-1]
			work = work[:len(work)-1]
			s := state[b]
			for _, o := range ops[b] {
				s = applyOps(s, o)
			}
			for _, t := range b.Succs {
				old, seen := state[t]
				var nw lockSet
				if !seen {
					nw = s.clone()
				} else {
					nw = join(old, s)
				}
				if !seen || !equalSets(old, nw) {
					state[t] = nw
					work = append(work, t)
				}
			}
		}
	}
	solve(lf.in, meet, lf.Entry)
	solve(lf.may, union, lf.EntryMay)
	return lf
}

func union(a, b lockSet) lockSet {
	o := a.clone()
	for k, v := range b {
		if o[k] < v {
			o[k] = v
		}
	}
	return o
}

// MayAtSub is AtSub for the may-held set.
func (lf *LockFlow) MayAtSub(p an.Point, sub ast.Node) lockSet {
	s, ok := lf.may[p.B]
	if !ok {
		return lockSet{}
	}
	for i := 0; i < p.I && i < len(p.B.Nodes); i++ {
		s = applyOps(s, nodeLockOps(lf.Fn.Info, p.B.Nodes[i]))
	}
	if p.I < 0 || p.I >= len(p.B.Nodes) {
		return s
	}
	var pre []lockOp
	for _, op := range nodeLockOps(lf.Fn.Info, p.B.Nodes[p.I]) {
		if op.Call.End() <= sub.Pos() {
			pre = append(pre, op)
		}
	}
	return applyOps(s, pre)
}

// ExitStates returns the must-held (meet over exits) and may-held (union over exits)
// sets at the function's normal exits, before deferred operations run.
func (lf *LockFlow) ExitStates() (must, may lockSet) {
	first := true
	may = lockSet{}
	for _, b := range lf.Fn.G.Blocks {
		if !b.Live || len(b.Succs) != 0 {
			continue
		}
		if _, reached := lf.in[b]; !reached {
			continue
		}
		last := an.Point{B: b, I: len(b.Nodes) - 1}
		if last.I >= 0 && isPanicStmt2(lf.Fn.Info, b.Nodes[last.I]) {
			continue
		}
		a := lf.After(last)
		if first {
			must, first = a.clone(), false
		} else {
			must = meet(must, a)
		}
		may = union(may, lf.MayAfter(last))
	}
	if first {
		must = lockSet{}
	}
	return
}

// MayAfter returns the locks possibly held after node p executed.
func (lf *LockFlow) MayAfter(p an.Point) lockSet {
	s, ok := lf.may[p.B]
	if !ok {
		return lockSet{}
	}
	for i := 0; i <= p.I && i < len(p.B.Nodes); i++ {
		s = applyOps(s, nodeLockOps(lf.Fn.Info, p.B.Nodes[i]))
	}
	return s
}

// Before returns the locks definitely held when node p starts executing.
func (lf *LockFlow) Before(p an.Point) lockSet {
	s, ok := lf.in[p.B]
	if !ok {
		return lockSet{}
	}
	for i := 0; i < p.I && i < len(p.B.Nodes); i++ {
		s = applyOps(s, nodeLockOps(lf.Fn.Info, p.B.Nodes[i]))
	}
	return s
}

// After returns the locks definitely held after node p executed.
func (lf *LockFlow) After(p an.Point) lockSet {
	s := lf.Before(p)
	if p.I >= 0 && p.I < len(p.B.Nodes) {
		s = applyOps(s, nodeLockOps(lf.Fn.Info, p.B.Nodes[p.I]))
	}
	return s
}

// AtSub returns the lockset in force when sub-node sub of CFG node p is evaluated:
// operations of the same node that precede sub in source order are applied.
func (lf *LockFlow) AtSub(p an.Point, sub ast.Node) lockSet {
	s := lf.Before(p)
	if p.I < 0 || p.I >= len(p.B.Nodes) {
		return s
	}
	var pre []lockOp
	for _, op := range nodeLockOps(lf.Fn.Info, p.B.Nodes[p.I]) {
		if op.Call.End() <= sub.Pos() {
			pre = append(pre, op)
		}
	}
	return applyOps(s, pre)
}

// ExitImbalance lists, for every exit of the function, the locks whose state differs
// from the entry state once the deferred operations have run.
func (lf *LockFlow) ExitImbalance() map[an.Point]string {
	out := map[an.Point]string{}
	for _, b := range lf.Fn.G.Blocks {
		if !b.Live || len(b.Succs) != 0 {
			continue
		}
		if _, reached := lf.in[b]; !reached {
			continue
		}
		last := an.Point{B: b, I: len(b.Nodes) - 1}
		if last.I >= 0 && isPanicStmt2(lf.Fn.Info, b.Nodes[last.I]) {
			continue
		}
		runDeferred := func(s lockSet) lockSet {
			s = s.clone()
			for id, k := range lf.Deferred {
				switch k {
				case lkUnlock, lkRUnlock:
					delete(s, id)
				case lkLock:
					s[id] = 2
				case lkRLock:
					s[id] = 1
				}
			}
			return s
		}
		must, may := runDeferred(lf.After(last)), runDeferred(lf.MayAfter(last))
		var diff []string
		for id := range may {
			if !lf.Entry.Has(id) {
				if must.Has(id) {
					diff = append(diff, "still holds "+string(id))
				} else {
					diff = append(diff, "still holds "+string(id)+" on some path")
				}
			}
		}
		for id := range lf.Entry {
			if !must.Has(id) {
				diff = append(diff, "released "+string(id)+" of its caller")
			}
		}
		if len(diff) > 0 {
			sort.Strings(diff)
			out[last] = strings.Join(diff, "; ")
		}
	}
	return out
}

func isPanicStmt2(info *types.Info, n ast.Node) bool {
	es, ok := n.(*ast.ExprStmt)
	if !ok {
		return false
	}
	call, ok := es.X.(*ast.CallExpr)
	if !ok {
		return false
	}
	id, ok := call.Fun.(*ast.Ident)
	if !ok {
		return false
	}
	_, isB := info.Uses[id].(*types.Builtin)
	return isB && id.Name == "panic"
}

// ---------------------------------------------------------------------------------
// bodies: a declaration and its nested function literals, each with its own CFG

type bodyKind int

const (
	bkDecl     bodyKind = iota
	bkDeferLit          // defer func(){…}()
	bkGoLit             // go func(){…}()
	bkCallLit           // func(){…}() called on the spot
	bkValueLit          // literal passed or stored as a value
)

type fnBody struct {
	Fn     *an.Fn
	Kind   bodyKind
	Lit    *ast.FuncLit
	Parent *fnBody
	Site   ast.Node // the defer/go/call statement (for literals)
}

// bodiesOf returns fd's body followed by every nested function literal.
func (c *Ctx) bodiesOf(fd *ast.FuncDecl) []*fnBody { return bodiesOfPkg(c.P.TLS, fd) }

func bodiesOfPkg(pkg *packages.Package, fd *ast.FuncDecl) []*fnBody {
	top := &fnBody{Fn: an.NewFn(pkg, fd), Kind: bkDecl}
	if top.Fn == nil {
		return nil
	}
	out := []*fnBody{top}
	var rec func(parent *fnBody, body ast.Node)
	rec = func(parent *fnBody, body ast.Node) {
		kinds := map[*ast.FuncLit]bodyKind{}
		sites := map[*ast.FuncLit]ast.Node{}
		an.Inner(body, func(n ast.Node) bool {
			switch s := n.(type) {
			case *ast.DeferStmt:
				if fl, ok := an.Unparen(s.Call.Fun).(*ast.FuncLit); ok {
					kinds[fl], sites[fl] = bkDeferLit, s
				}
			case *ast.GoStmt:
				if fl, ok := an.Unparen(s.Call.Fun).(*ast.FuncLit); ok {
					kinds[fl], sites[fl] = bkGoLit, s
				}
			case *ast.CallExpr:
				if fl, ok := an.Unparen(s.Fun).(*ast.FuncLit); ok {
					if _, seen := kinds[fl]; !seen {
						kinds[fl], sites[fl] = bkCallLit, s
					}
				}
			}
			return true
		})
		ast.Inspect(body, func(n ast.Node) bool {
			fl, ok := n.(*ast.FuncLit)
			if !ok || n == body {
				return true
			}
			k, known := kinds[fl]
			if !known {
				k = bkValueLit
			}
			fb := &fnBody{Fn: an.NewLit(pkg, parent.Fn.Name+"$lit", fl), Kind: k, Lit: fl, Parent: parent, Site: sites[fl]}
			out = append(out, fb)
			rec(fb, fl.Body)
			return false
		})
	}
	rec(top, fd.Body)
	return out
}

// ---------------------------------------------------------------------------------
// caller-derived entry locksets (wrapper summaries, one level deep)

type callSiteInfo struct {
	Caller *ast.FuncDecl
	Call   *ast.CallExpr
}

var callIdxCache = map[*load.Program]map[*types.Func][]callSiteInfo{}

// callSites indexes the static call sites of every function of the root package.
func (c *Ctx) callSites() map[*types.Func][]callSiteInfo {
	if idx, ok := callIdxCache[c.P]; ok {
		return idx
	}
	idx := map[*types.Func][]callSiteInfo{}
	info := c.Info()
	for _, fd := range load.AllFuncDecls(c.P.TLS) {
		ast.Inspect(fd.Body, func(n ast.Node) bool {
			switch x := n.(type) {
			case *ast.CallExpr:
				if f, ok := an.Callee(info, x).(*types.Func); ok {
					idx[f.Origin()] = append(idx[f.Origin()], callSiteInfo{fd, x})
				}
			}
			return true
		})
	}
	callIdxCache[c.P] = idx
	return idx
}

// usedAsValue reports whether function f is mentioned other than as the callee of a call
// (method value, function value): its callers cannot be enumerated then.
func (c *Ctx) usedAsValue(f *types.Func) bool {
	info := c.Info()
	used := false
	for _, file := range c.P.TLS.Syntax {
		calleeIdents := map[*ast.Ident]bool{}
		ast.Inspect(file, func(n ast.Node) bool {
			if call, ok := n.(*ast.CallExpr); ok {
				switch fx := an.Unparen(call.Fun).(type) {
				case *ast.Ident:
					calleeIdents[fx] = true
				case *ast.SelectorExpr:
					calleeIdents[fx.Sel] = true
				}
			}
			return true
		})
		ast.Inspect(file, func(n ast.Node) bool {
			if id, ok := n.(*ast.Ident); ok && !calleeIdents[id] {
				if o, ok := info.Uses[id].(*types.Func); ok && o.Origin() == f {
					used = true
				}
			}
			return !used
		})
	}
	return used
}

// pointOf locates the CFG node of fn that contains sub (function literals excluded:
// a node inside a literal belongs to the literal's own body).
func pointOf(fn *an.Fn, sub ast.Node) (an.Point, bool) {
	for _, b := range fn.G.Blocks {
		if !b.Live {
			continue
		}
		for i, n := range b.Nodes {
			if n.Pos() <= sub.Pos() && sub.End() <= n.End() {
				found := false
				an.Inner(n, func(x ast.Node) bool {
					if x == sub {
						found = true
					}
					return !found
				})
				if found {
					return an.Point{B: b, I: i}, true
				}
			}
		}
	}
	return an.Point{}, false
}

// callerHeld computes the locks held at every static call site of f inside the root
// package (callers analysed with an empty entry set, so the summary is one level deep).
// keep filters the callers taken into account (nil = all). ok=false when f has no
// enumerable callers (exported, used as a value, or none found).
func (c *Ctx) callerHeld(f *types.Func, keep func(*ast.FuncDecl) bool) (held lockSet, sites int, ok bool) {
	return c.callerHeldDepth(f, keep, 0, map[*types.Func]bool{})
}

// callerHeldDepth is callerHeld with the callers' own entry sets derived the same way,
// depth levels up (cycles cut).
func (c *Ctx) callerHeldDepth(f *types.Func, keep func(*ast.FuncDecl) bool, depth int, busy map[*types.Func]bool) (held lockSet, sites int, ok bool) {
	if f.Exported() || c.usedAsValue(f) || busy[f] {
		return lockSet{}, 0, false
	}
	busy[f] = true
	defer delete(busy, f)
	first := true
	for _, cs := range c.callSites()[f.Origin()] {
		if keep != nil && !keep(cs.Caller) {
			continue
		}
		var at lockSet
		located := false
		for _, fb := range c.bodiesOf(cs.Caller) {
			p, found := pointOf(fb.Fn, cs.Call)
			if !found {
				continue
			}
			located = true
			if fb.Kind == bkDecl || fb.Kind == bkCallLit {
				var entry lockSet
				if depth > 0 {
					if co, ok := c.Info().Defs[cs.Caller.Name].(*types.Func); ok {
						if h, _, ok := c.callerHeldDepth(co, keep, depth-1, busy); ok {
							entry = h
						}
					}
				}
				at = NewLockFlow(fb.Fn, entry).AtSub(p, cs.Call)
			} else {
				at = lockSet{}
			}
			break
		}
		if !located {
			at = lockSet{}
		}
		sites++
		if first {
			held, first = at.clone(), false
		} else {
			held = meet(held, at)
		}
	}
	if first {
		return lockSet{}, 0, false
	}
	return held, sites, true
}

// ---------------------------------------------------------------------------------
// guarded-by

type guardSpec struct {
	Owner, Field string
	Lock         LockID
}

// guardedBy checks every selection of a protected field in the root package: the access
// must happen with the field's lock in the must-held set. Accesses in declaration bodies
// (and literals called on the spot) that lack the lock are violations unless every caller
// of an unexported function provably holds it; accesses in other literals are violations
// for go literals and undecided otherwise. Returns the number of accesses seen.
func (c *Ctx) guardedBy(rule string, specs []guardSpec) int {
	info := c.Info()
	r := c.R
	total := 0
	for _, fd := range load.AllFuncDecls(c.P.TLS) {
		mentions := false
		for _, sp := range specs {
			if an.MentionsField(info, fd.Body, sp.Owner, sp.Field) {
				mentions = true
				break
			}
		}
		if !mentions {
			continue
		}
		fname := fd.Name.Name
		if rn := load.RecvName(fd); rn != "" {
			fname = rn + "." + fname
		}
		var entry lockSet
		entryKnown := false
		ord := map[string]int{}
		for _, fb := range c.bodiesOf(fd) {
			var lf *LockFlow
			for _, b := range fb.Fn.G.Blocks {
				if !b.Live {
					continue
				}
				for i, n := range b.Nodes {
					an.Inner(n, func(x ast.Node) bool {
						se, ok := x.(*ast.SelectorExpr)
						if !ok {
							return true
						}
						for _, sp := range specs {
							if !an.FieldSel(info, se, sp.Owner, sp.Field) {
								continue
							}
							total++
							ord[sp.Field]++
							cons := fname + ":" + sp.Field + "#" + lsItoa(ord[sp.Field])
							if lf == nil {
								lf = NewLockFlow(fb.Fn, nil)
							}
							held := lf.AtSub(an.Point{B: b, I: i}, se)
							if held.Has(sp.Lock) {
								r.Ok(rule, cons, c.Pos(se), "%s.%s accessed with %s held", sp.Owner, sp.Field, sp.Lock)
								continue
							}
							switch fb.Kind {
							case bkDecl, bkCallLit:
								if !entryKnown {
									if f, ok := info.Defs[fd.Name].(*types.Func); ok {
										if h, _, ok := c.callerHeld(f, nil); ok {
											entry = h
										}
									}
									entryKnown = true
								}
								if entry.Has(sp.Lock) {
									// the function itself must not release it before the access
									lf2 := NewLockFlow(fb.Fn, entry)
									if lf2.AtSub(an.Point{B: b, I: i}, se).Has(sp.Lock) {
										r.Ok(rule, cons, c.Pos(se), "%s.%s accessed in a helper whose every caller holds %s", sp.Owner, sp.Field, sp.Lock)
										continue
									}
								}
								r.Bad(rule, cons, c.Pos(se), "%s.%s is accessed in %s without %s held (must-held set here: %s): concurrent callers race on it", sp.Owner, sp.Field, fname, sp.Lock, held)
							case bkGoLit:
								r.Bad(rule, cons, c.Pos(se), "%s.%s is accessed in a goroutine started by %s without %s held", sp.Owner, sp.Field, fname, sp.Lock)
							default:
								r.Unknown(rule, cons, c.Pos(se), "%s.%s is accessed inside a function literal of %s whose execution point is not known to the lockset analysis", sp.Owner, sp.Field, fname)
							}
						}
						return true
					})
				}
			}
		}
	}
	return total
}

func lsItoa(i int) string {
	if i == 0 {
		return "0"
	}
	neg := i < 0
	if neg {
		i = -i
	}
	var b []byte
	for i > 0 {
		b = append([]byte{byte('0' + i%10)}, b...)
		i /= 10
	}
	if neg {
		b = append([]byte{'-'}, b...)
	}
	return string(b)
}

// lockBalance checks that every exit of fd (and of its literals) leaves the locks as it
// found them once deferred operations ran: a lock acquired and not released on some exit
// blocks every later caller forever.
func (c *Ctx) lockBalance(rule string, fd *ast.FuncDecl, entry lockSet) {
	fname := fd.Name.Name
	if rn := load.RecvName(fd); rn != "" {
		fname = rn + "." + fname
	}
	for k, fb := range c.bodiesOf(fd) {
		e := entry
		if fb.Kind != bkDecl {
			e = nil
		}
		lf := NewLockFlow(fb.Fn, e)
		if len(lf.Ops) == 0 {
			continue
		}
		cons := fname + ":balance"
		if k > 0 {
			cons = fname + "$lit" + lsItoa(k) + ":balance"
		}
		imb := lf.ExitImbalance()
		if len(imb) == 0 {
			c.R.Ok(rule, cons, c.Pos(fd), "every exit releases the locks it took (%d mutex operations, deferred: %d)", len(lf.Ops), len(lf.Deferred))
			continue
		}
		for p, why := range imb {
			c.R.Bad(rule, cons, c.PosP(p), "an exit of %s %s: every later caller blocks forever (or an unlocked mutex is unlocked)", fname, why)
		}
	}
}

// ---------------------------------------------------------------------------------
// E7(c) no re-acquisition: module-restricted call graph over AST-resolved callees

type modFunc struct {
	Decl *ast.FuncDecl
	Info *types.Info
	Obj  *types.Func
	Pkg  *packages.Package
}

type modGraph struct {
	funcs map[*types.Func]*modFunc
	named []*types.Named // concrete named types of the module
	mod   map[*types.Package]bool
}

var modGraphCache = map[*load.Program]*modGraph{}

func (c *Ctx) modGraph() *modGraph {
	if g, ok := modGraphCache[c.P]; ok {
		return g
	}
	g := &modGraph{funcs: map[*types.Func]*modFunc{}, mod: map[*types.Package]bool{}}
	for _, pk := range c.P.Pkgs {
		g.mod[pk.Types] = true
		for _, f := range pk.Syntax {
			for _, d := range f.Decls {
				fd, ok := d.(*ast.FuncDecl)
				if !ok || fd.Body == nil {
					continue
				}
				if o, ok := pk.TypesInfo.Defs[fd.Name].(*types.Func); ok {
					g.funcs[o] = &modFunc{Decl: fd, Info: pk.TypesInfo, Obj: o, Pkg: pk}
				}
			}
		}
		sc := pk.Types.Scope()
		for _, nm := range sc.Names() {
			if tn, ok := sc.Lookup(nm).(*types.TypeName); ok && !tn.IsAlias() {
				if n, ok := tn.Type().(*types.Named); ok && n.TypeParams().Len() == 0 {
					if _, isIface := n.Underlying().(*types.Interface); !isIface {
						g.named = append(g.named, n)
					}
				}
			}
		}
	}
	modGraphCache[c.P] = g
	return g
}

// callee edge of the module call graph
type modEdge struct {
	To       *modFunc
	Via      string // "" static; otherwise the interface the call dispatches through
	External bool   // the interface is declared outside the module
}

// implementers resolves an interface method call to the module's implementations.
func (g *modGraph) implementers(iface types.Type, method string) []*modFunc {
	it, ok := iface.Underlying().(*types.Interface)
	if !ok {
		return nil
	}
	var out []*modFunc
	for _, n := range g.named {
		var recv types.Type
		switch {
		case types.Implements(n, it):
			recv = n
		case types.Implements(types.NewPointer(n), it):
			recv = types.NewPointer(n)
		default:
			continue
		}
		o, _, _ := types.LookupFieldOrMethod(recv, true, n.Obj().Pkg(), method)
		if f, ok := o.(*types.Func); ok {
			if mf := g.funcs[f.Origin()]; mf != nil {
				out = append(out, mf)
			}
		}
	}
	return out
}

// callsOf lists the module callees of one call expression.
func (g *modGraph) callsOf(info *types.Info, call *ast.CallExpr) (out []modEdge, dynamic bool) {
	f, _ := an.Callee(info, call).(*types.Func)
	if f == nil {
		fun := an.Unparen(call.Fun)
		if _, isLit := fun.(*ast.FuncLit); isLit {
			return nil, false // the literal's body is scanned with its enclosing function
		}
		if tv, ok := info.Types[fun]; ok && (tv.IsType() || tv.IsBuiltin()) {
			return nil, false
		}
		return nil, true
	}
	f = f.Origin()
	sig := f.Type().(*types.Signature)
	if sig.Recv() != nil {
		if _, isIface := sig.Recv().Type().Underlying().(*types.Interface); isIface {
			// dispatch through the static type of the receiver expression
			var st types.Type = sig.Recv().Type()
			if se, ok := an.Unparen(call.Fun).(*ast.SelectorExpr); ok {
				if t := info.TypeOf(se.X); t != nil {
					if _, ok := t.Underlying().(*types.Interface); ok {
						st = t
					}
				}
			}
			ext := true
			name := types.TypeString(st, nil)
			if n := namedOf(st); n != nil && n.Obj().Pkg() != nil && g.mod[n.Obj().Pkg()] {
				ext = false
			}
			for _, mf := range g.implementers(st, f.Name()) {
				out = append(out, modEdge{To: mf, Via: name, External: ext})
			}
			return out, false
		}
	}
	if mf := g.funcs[f]; mf != nil {
		out = append(out, modEdge{To: mf})
	}
	return out, false
}

type reacquire struct {
	Lock     LockID
	Path     []string
	Definite bool // the lock is in the must-held set at the acquisition
	External bool // the path crosses a dispatch through an interface declared outside the module
	Pos      token.Pos
}

// foreignReceiver reports whether the receiver expression of an interface-dispatched call
// reads a struct field whose type is an interface declared outside the module (c.conn,
// config.Rand, …): the value behind it is assumed not to be the connection itself.
func (g *modGraph) foreignReceiver(info *types.Info, call *ast.CallExpr) bool {
	se, ok := an.Unparen(call.Fun).(*ast.SelectorExpr)
	if !ok {
		return false
	}
	foreign := false
	ast.Inspect(se.X, func(n ast.Node) bool {
		x, ok := n.(*ast.SelectorExpr)
		if !ok {
			return true
		}
		sel := info.Selections[x]
		if sel == nil || sel.Kind() != types.FieldVal {
			return true
		}
		t := sel.Obj().Type()
		if _, isI := t.Underlying().(*types.Interface); isI {
			if n := namedOf(t); n == nil || n.Obj().Pkg() == nil || !g.mod[n.Obj().Pkg()] {
				foreign = true
			}
		}
		return true
	})
	return foreign
}

type reachStats struct {
	Visited int
	Dynamic int            // calls through function values, not followed
	Foreign map[string]int // dispatches on external-interface fields, not followed (by interface)
}

// reachAcquire walks the module call graph from start, with the given locks held, and
// reports every Lock/RLock of one of them at a point where it is (or may be) still held.
// The held sets are propagated along the call edges from the caller's lockset at the call
// site, so a callee that releases the lock and re-takes it (condition-wait style) is not a
// re-acquisition. Function literals are analysed with the state of the point where they
// appear (deferred literals with the exit state, go literals with nothing held).
func (c *Ctx) reachAcquire(start *types.Func, locks map[LockID]bool) (found []reacquire, st reachStats) {
	g := c.modGraph()
	st.Foreign = map[string]int{}
	restrict := func(s lockSet) lockSet {
		o := lockSet{}
		for k, v := range s {
			if locks[k] {
				o[k] = v
			}
		}
		return o
	}
	type item struct {
		f         *modFunc
		must, may lockSet
		path      []string
		ext       bool
	}
	root := g.funcs[start.Origin()]
	if root == nil {
		return nil, st
	}
	all := lockSet{}
	for l := range locks {
		all[l] = 2
	}
	seen := map[string]bool{}
	funcsSeen := map[*modFunc]bool{}
	var work []item
	name := func(f *modFunc) string {
		if rn := load.RecvName(f.Decl); rn != "" {
			return rn + "." + f.Decl.Name.Name
		}
		return f.Decl.Name.Name
	}
	push := func(it item) {
		if len(it.may) == 0 {
			// nothing can be held any more below this call: no re-acquisition possible
			funcsSeen[it.f] = true
			return
		}
		k := name(it.f) + "|" + it.f.Pkg.PkgPath + "|" + it.must.String() + it.may.String()
		if it.ext {
			k += "|ext"
		}
		if seen[k] || (it.ext && seen[strings.TrimSuffix(k, "|ext")]) {
			return
		}
		seen[k] = true
		funcsSeen[it.f] = true
		work = append(work, it)
	}
	push(item{f: root, must: all, may: all, path: []string{name(root)}})
	for len(work) > 0 {
		it := work[len(work)-1]
		work = work[:len(work)-1]
		bodies := bodiesOfPkg(it.f.Pkg, it.f.Decl)
		flows := map[*fnBody]*LockFlow{}
		for _, fb := range bodies {
			var em, ey lockSet
			switch {
			case fb.Kind == bkDecl:
				em, ey = it.must, it.may
			case fb.Kind == bkGoLit:
				em, ey = lockSet{}, lockSet{}
			case fb.Kind == bkDeferLit:
				em, ey = flows[fb.Parent].ExitStates()
			default:
				plf := flows[fb.Parent]
				if p, ok := pointOf(fb.Parent.Fn, fb.Lit); ok {
					em, ey = plf.AtSub(p, fb.Lit), plf.MayAtSub(p, fb.Lit)
				} else {
					em, ey = lockSet{}, plf.EntryMay
				}
			}
			lf := NewLockFlowMM(fb.Fn, restrict(em), restrict(ey))
			flows[fb] = lf
			exitMust, exitMay := lf.ExitStates()
			for _, b := range fb.Fn.G.Blocks {
				if !b.Live {
					continue
				}
				for i, n := range b.Nodes {
					p := an.Point{B: b, I: i}
					var direct *ast.CallExpr // the call a defer/go statement schedules
					kind := 0
					switch s := n.(type) {
					case *ast.DeferStmt:
						direct, kind = s.Call, 1
					case *ast.GoStmt:
						direct, kind = s.Call, 2
					}
					an.Inner(n, func(x ast.Node) bool {
						call, ok := x.(*ast.CallExpr)
						if !ok {
							return true
						}
						must, may := lf.AtSub(p, call), lf.MayAtSub(p, call)
						if call == direct {
							if kind == 1 {
								must, may = exitMust, exitMay
							} else {
								must, may = lockSet{}, lockSet{}
							}
						}
						if op, ok := lockOpOf(it.f.Info, call); ok {
							if (op.Kind == lkLock || op.Kind == lkRLock) && locks[op.ID] && may.Has(op.ID) {
								found = append(found, reacquire{Lock: op.ID, Path: it.path, Definite: must.Has(op.ID), External: it.ext, Pos: call.Pos()})
							}
							return true
						}
						edges, d := g.callsOf(it.f.Info, call)
						if d {
							st.Dynamic++
						}
						for _, e := range edges {
							if e.External && g.foreignReceiver(it.f.Info, call) {
								st.Foreign[e.Via]++
								continue
							}
							step := name(e.To)
							if e.Via != "" {
								step = "[" + e.Via + "] " + step
							}
							push(item{f: e.To, must: restrict(must), may: restrict(may), path: append(it.path[:len(it.path):len(it.path)], step), ext: it.ext || e.External})
						}
						return true
					})
				}
			}
		}
	}
	st.Visited = len(funcsSeen)
	return found, st
}
