package props

// C12 — the client rejects any server choice it did not offer on the wire.
//
// C12.1  must-pass-through validations in the TLS 1.3 and TLS 1.2 client paths: each
//        validation compares the server's choice with the corresponding list of the
//        ClientHello that was sent (hs.hello.*), its failing outcome leaves the function with
//        an error, every success return of the validating function lies behind its passing
//        outcome, every caller tests the returned error, and the point that completes the
//        handshake lies behind all of them.
// C12.2  the validated list is the wire list: Hello fields owned by an extension type (owner
//        table extracted from every writeToUConn) must not keep a Config default when the
//        spec has no such extension; fields not owned by an extension must be what the
//        marshaller writes; extension fields copied into Hello must be what the extension's
//        encoder reads; ApplyConfig precedes marshalling.
// C12.3  stores to the negotiated state that ConnectionState reports (cipher suite, ALPN
//        protocol, curve, PSK use) lie behind the matching validation.

import (
	"go/ast"
	"go/constant"
	"go/token"
	"go/types"
	"sort"
	"strings"

	"verif/internal/an"
	"verif/internal/load"
)

func init() { register(&Prop{ID: "C12", Run: runC12}) }

const (
	kSuite   = "cipher-suite"
	kSID     = "session-id"
	kComp    = "compression"
	kALPN    = "alpn"
	kGroup   = "group"
	kHRR     = "hrr-group"
	kPSK     = "psk-identity"
	kCertAlg = "cert-compression-alg"
)

type c12fn struct {
	fn     *an.Fn
	obj    *types.Func
	name   string
	direct map[string][]an.Edge // kind -> pass edges of checks found in this function
	// lvalues that hold the result of mutualCipherSuite*(offered, chosen): nil when unoffered
	suiteVals map[types.Object]bool
}

type c12 struct {
	c     *Ctx
	info  *types.Info
	fns   map[*types.Func]*c12fn
	cg    *callGraph
	reach map[*types.Func]bool            // client path
	valid map[*types.Func]map[string]bool // function -> kinds it validates on every success return
	// private ClientHello fields used by the validations (C12.2 iterates over them)
	validated map[string]bool
}

func runC12(c *Ctx) {
	r := c.R
	r.Technique = "per-function CFG rules (must-pass-through of validation outcomes, error-exit discipline, one-level callee summaries over an intra-package call graph), membership-idiom recognisers, owner table extracted from writeToUConn methods, field map of getPublicPtr"
	r.Explanation = "C12.1 each server choice (cipher suite, TLS 1.3 key-share group, HRR group, TLS 1.2 ECDHE curve, ALPN protocol, compression method, PSK identity index, legacy session id echo, certificate-compression algorithm) is compared with the corresponding list of the ClientHello that was written to the wire; the failing outcome leaves the function with an error; all success returns of the validating function and the handshake-complete store lie behind the passing outcome; callers propagate the error; the helper bodies (mutualCipherSuite*, checkALPN) return success only behind an equality with an offered element. " +
		"C12.2 the validated Hello field is the wire content: no Config default survives in an extension-owned field when the spec lacks the extension (makeClientHelloForApplyPreset/ApplyPreset), non-extension fields are the ones MarshalClientHelloNoECH writes, writeToUConn copies the field its encoder reads, ApplyConfig runs before MarshalClientHello, and the hello handed to the handshake state is the message that was written. " +
		"C12.3 every store to Conn.cipherSuite/clientProtocol/curveID, hs.suite, hs.usingPSK and TLS 1.3 didResume on the client path lies behind the matching validation (in the same function or, one level up, before the call), and ConnectionState copies exactly those fields."
	r.NotDecided = "that a handshake against a given server completes; cryptographic agreement; the ECH inner/outer split (C15); PSK identity contents and binder correctness (C19); TLS 1.2 session-id resumption; whether user code edits uconn.Extensions after BuildHandshakeState; alert codes"
	x := &c12{c: c, info: c.Info(), fns: map[*types.Func]*c12fn{}, valid: map[*types.Func]map[string]bool{}, validated: map[string]bool{}}
	x.cg = c.buildCallGraph()
	roots := []*types.Func{c.methodObj("UConn", "clientHandshake"), c.methodObj("Conn", "clientHandshake")}
	for i, n := range []string{"UConn.clientHandshake", "Conn.clientHandshake"} {
		if roots[i] == nil {
			r.Unknown("C12.3", n, "", "anchor function %s not found", n)
		}
	}
	x.reach = x.cg.reach(roots...)
	// decompressCert and friends are reached through readServerCertificate; keep them explicit
	r.Count("client_path_functions", len(x.reach))

	x.directChecks()
	x.summaries()
	x.propagation()
	x.completion()
	x.helperBodies()
	x.stores()
	x.connectionState()
	x.helloIdentity()
	x.wireLists()

	r.Floor("C12.1", 60)
	r.Floor("C12.2", 16)
	r.Floor("C12.3", 14)
}

// ------------------------------------------------------------------ plumbing

func (x *c12) get(rule, recv, name string) *c12fn {
	obj := x.c.methodObj(recv, name)
	if obj != nil {
		if f := x.fns[obj]; f != nil {
			return f
		}
	}
	fn := x.c.Fn(rule, recv, name)
	if fn == nil || obj == nil {
		return nil
	}
	n := name
	if recv != "" {
		n = recv + "." + name
	}
	f := &c12fn{fn: fn, obj: obj, name: n, direct: map[string][]an.Edge{}}
	x.fns[obj] = f
	return f
}

func (x *c12) getObj(obj *types.Func) *c12fn {
	if f := x.fns[obj]; f != nil {
		return f
	}
	fd := x.cg.decl[obj]
	if fd == nil || fd.Body == nil {
		return nil
	}
	f := &c12fn{fn: an.NewFn(x.c.P.TLS, fd), obj: obj, name: funcName(obj), direct: map[string][]an.Edge{}}
	x.fns[obj] = f
	return f
}

func (x *c12) mf(owner, field string) func(ast.Expr) bool { return x.c.mentionsField(owner, field) }

// mfa is mf extended by the locals of f that only ever hold values mentioning the field
// (want := hs.serverHello.cipherSuite; offered := hs.hello.cipherSuites).
func (x *c12) mfa(f *c12fn, owner, field string) func(ast.Expr) bool {
	base := x.mf(owner, field)
	al := aliasSet(f.fn, base)
	return func(e ast.Expr) bool { return base(e) || mentionsAny(x.info, e, al) }
}

func (x *c12) helloField(f *c12fn, field string) func(ast.Expr) bool {
	x.validated[field] = true
	return x.mfa(f, "clientHelloMsg", field)
}

func condPos(c *Ctx, e an.Edge) string { return c.PosP(an.Point{B: e.B, I: len(e.B.Nodes) - 1}) }

// record stores the pass edges of kind in f and checks the failing outcome. what describes
// the comparison for messages. related (optional) recognises conditions that look like an
// attempt at this check in an unsupported shape (then the result is undecided, not violated).
func (x *c12) record(f *c12fn, kind string, pass, fail []an.Edge, what string, related func(ast.Expr) bool) bool {
	r := x.c.R
	cons := f.name + ":" + kind
	weak := takeWeak()
	if len(pass) == 0 {
		for _, w := range weak {
			if w.B != nil {
				r.Bad("C12.1", cons, x.c.PosP(w), "the comparison for %s is present, but no outcome of the condition it is part of implies that it passed (weakened check)", what)
				return false
			}
		}
		if related != nil {
			for _, b := range f.fn.G.Blocks {
				if !b.Live {
					continue
				}
				if _, _, ok := an.CondEdges(b); ok && related(b.Nodes[len(b.Nodes)-1].(ast.Expr)) {
					r.Unknown("C12.1", cons, x.c.Pos(b.Nodes[len(b.Nodes)-1]), "a condition involving %s was found but its shape is not one of the recognised idioms", what)
					return false
				}
			}
		}
		r.Bad("C12.1", cons, x.c.Pos(f.fn.Decl), "no check of %s", what)
		return false
	}
	f.direct[kind] = append(f.direct[kind], pass...)
	r.Ok("C12.1", cons, condPos(x.c, pass[0]), "%s", what)
	for _, fe := range fail {
		ok, why := failEdgeExits(f.fn, fe, nil)
		r.Check(ok, "C12.1", cons+":reject", condPos(x.c, fe), "failing outcome leaves the function with an error", "unoffered value: "+why)
	}
	return true
}

// ------------------------------------------------------------------ individual matchers

// suiteEdges: X := mutualFn(<hello.cipherSuites>, <serverHello.cipherSuite>) followed by a
// nil test of X (or the call compared with nil directly).
func (x *c12) suiteEdges(f *c12fn, mutualFn string) (pass, fail []an.Edge, wrongList []ast.Node) {
	takeWeak()
	info := x.info
	isList := x.helloField(f, "cipherSuites")
	isElem := x.mfa(f, "serverHelloMsg", "cipherSuite")
	var lvals []types.Object
	var calls []*ast.CallExpr
	for _, h := range f.fn.FindNodes(an.CallTo(info, Mod, "", mutualFn)) {
		call := h.N.(*ast.CallExpr)
		if len(call.Args) != 2 || !isElem(call.Args[1]) {
			continue
		}
		if !isList(call.Args[0]) {
			wrongList = append(wrongList, call)
			continue
		}
		calls = append(calls, call)
		if as, ok := h.P.Node().(*ast.AssignStmt); ok && len(as.Lhs) == 1 && len(as.Rhs) == 1 && an.Unparen(as.Rhs[0]) == ast.Expr(call) {
			if o := lvalObj(info, as.Lhs[0]); o != nil {
				lvals = append(lvals, o)
				if f.suiteVals == nil {
					f.suiteVals = map[types.Object]bool{}
				}
				f.suiteVals[o] = true
			}
		}
	}
	isL := func(e ast.Expr) bool {
		e = an.Unparen(e)
		for _, c := range calls {
			if e == ast.Expr(c) {
				return true
			}
		}
		o := lvalObj(info, e)
		for _, l := range lvals {
			if o != nil && o == l {
				return true
			}
		}
		return false
	}
	pass, fail, _ = condEdgesL(f.fn, func(cond ast.Expr) (bool, bool) {
		op, ok := an.BinaryWith(cond, isL, func(e ast.Expr) bool { return an.IsNilIdent(info, e) })
		if !ok {
			return false, false
		}
		switch op {
		case token.NEQ:
			return true, true
		case token.EQL:
			return true, false
		}
		return false, false
	})
	return
}

func (x *c12) sessionIDEdges(f *c12fn) (pass, fail []an.Edge) {
	takeWeak()
	a, b := x.helloField(f, "sessionId"), x.mfa(f, "serverHelloMsg", "sessionId")
	isEq := x.c.callPkgFunc("bytes", "Equal")
	pass, fail, _ = condEdgesL(f.fn, func(cond ast.Expr) (bool, bool) {
		e, neg := negated(cond)
		call, ok := e.(*ast.CallExpr)
		if !ok || !isEq(call) || len(call.Args) != 2 {
			return false, false
		}
		if (a(call.Args[0]) && b(call.Args[1])) || (a(call.Args[1]) && b(call.Args[0])) {
			return true, !neg
		}
		return false, false
	})
	return
}

func (x *c12) compressionEdges(f *c12fn) (pass, fail []an.Edge) {
	takeWeak()
	info := x.info
	none := int64(0)
	if k, ok := x.c.P.TLS.Types.Scope().Lookup("compressionNone").(*types.Const); ok {
		if v, exact := constant.Int64Val(constant.ToInt(k.Val())); exact {
			none = v
		}
	}
	isSrv := x.mfa(f, "serverHelloMsg", "compressionMethod")
	isNone := func(e ast.Expr) bool { v, ok := an.ConstInt(info, e); return ok && v == none }
	pass, fail, _ = condEdgesL(f.fn, func(cond ast.Expr) (bool, bool) {
		op, ok := an.BinaryWith(cond, isSrv, isNone)
		if !ok {
			return false, false
		}
		switch op {
		case token.NEQ:
			return true, false
		case token.EQL:
			return true, true
		}
		return false, false
	})
	m := memberSpec{isList: x.mfa(f, "clientHelloMsg", "compressionMethods"), isElem: isSrv}
	p2, f2, _ := m.edges(f.fn)
	if len(p2) > 0 {
		x.validated["compressionMethods"] = true
	}
	return append(pass, p2...), append(fail, f2...)
}

// alpnEdges: err := checkALPN(<hello.alpnProtocols>, <peer>.alpnProtocol, …); returns the
// field object of the peer's selection.
func (x *c12) alpnEdges(f *c12fn) (pass, fail []an.Edge, peer types.Object, wrongList []ast.Node, why string) {
	takeWeak()
	isList := x.helloField(f, "alpnProtocols")
	for _, h := range f.fn.FindNodes(an.CallTo(x.info, Mod, "", "checkALPN")) {
		call := h.N.(*ast.CallExpr)
		if len(call.Args) < 2 {
			continue
		}
		if !isList(call.Args[0]) {
			wrongList = append(wrongList, call)
			continue
		}
		t := callErrTest(f.fn, h)
		if t.why != "" {
			why = t.why
			continue
		}
		pass, fail = append(pass, t.pass...), append(fail, t.fail...)
		peer = lvalObj(x.info, call.Args[1])
	}
	return
}

func (x *c12) pskEdges(f *c12fn) (pass, fail []an.Edge, offByOne ast.Node) {
	takeWeak()
	info := x.info
	isSel := x.mfa(f, "serverHelloMsg", "selectedIdentity")
	ids := x.helloField(f, "pskIdentities")
	isLen := func(e ast.Expr) bool {
		call, ok := an.Unparen(e).(*ast.CallExpr)
		if !ok || len(call.Args) != 1 {
			return false
		}
		id, ok := call.Fun.(*ast.Ident)
		if !ok || id.Name != "len" {
			return false
		}
		_, isB := info.Uses[id].(*types.Builtin)
		return isB && ids(call.Args[0])
	}
	pass, fail, _ = condEdgesL(f.fn, func(cond ast.Expr) (bool, bool) {
		op, ok := an.BinaryWith(cond, func(e ast.Expr) bool { return isSel(e) && !isLen(e) }, isLen)
		if !ok {
			return false, false
		}
		switch op { // selectedIdentity OP len(pskIdentities)
		case token.GEQ:
			return true, false
		case token.LSS:
			return true, true
		case token.GTR, token.LEQ:
			offByOne = cond
		}
		return false, false
	})
	return
}

// ------------------------------------------------------------------ C12.1 direct checks

func (x *c12) directChecks() {
	c, r := x.c, x.c.R
	wrong := func(f *c12fn, kind string, nodes []ast.Node, list string) {
		for _, n := range nodes {
			r.Bad("C12.1", f.name+":"+kind+":list", c.Pos(n), "the server's choice is validated against %s, not against %s of the ClientHello that was sent", an.Str(n.(*ast.CallExpr).Args[0]), list)
		}
	}
	both := func(a, b func(ast.Expr) bool) func(ast.Expr) bool {
		return func(e ast.Expr) bool { return a(e) && b(e) }
	}
	// ---- TLS 1.3: checkServerHelloOrHRR
	if f := x.get("C12.1", "clientHandshakeStateTLS13", "checkServerHelloOrHRR"); f != nil {
		p, fl, w := x.suiteEdges(f, "mutualCipherSuiteTLS13")
		wrong(f, kSuite, w, "hs.hello.cipherSuites")
		x.record(f, kSuite, p, fl, "serverHello.cipherSuite ∈ hs.hello.cipherSuites (mutualCipherSuiteTLS13 result tested for nil)", nil)
		p, fl = x.sessionIDEdges(f)
		x.record(f, kSID, p, fl, "bytes.Equal(hs.hello.sessionId, serverHello.sessionId)", both(x.mf("clientHelloMsg", "sessionId"), x.mf("serverHelloMsg", "sessionId")))
		p, fl = x.compressionEdges(f)
		x.record(f, kComp, p, fl, "serverHello.compressionMethod == compressionNone", x.mf("serverHelloMsg", "compressionMethod"))
	}
	// ---- TLS 1.3: processServerHello (key-share group, PSK identity)
	if f := x.get("C12.1", "clientHandshakeStateTLS13", "processServerHello"); f != nil {
		m := memberSpec{isList: x.helloField(f, "keyShares"), isElem: x.mfa(f, "serverHelloMsg", "serverShare")}
		takeWeak()
		p, fl, _ := m.edges(f.fn)
		x.record(f, kGroup, p, fl, "serverHello.serverShare.group ∈ groups of hs.hello.keyShares", both(x.mf("clientHelloMsg", "keyShares"), x.mf("serverHelloMsg", "serverShare")))
		p, fl, off := x.pskEdges(f)
		if off != nil {
			r.Bad("C12.1", f.name+":"+kPSK, c.Pos(off), "selected_identity bound is off by one: index len(pskIdentities) is accepted")
		} else {
			x.record(f, kPSK, p, fl, "serverHello.selectedIdentity < len(hs.hello.pskIdentities)", both(x.mf("serverHelloMsg", "selectedIdentity"), x.mf("clientHelloMsg", "pskIdentities")))
		}
	}
	// ---- TLS 1.3: processHelloRetryRequest (selected group)
	if f := x.get("C12.1", "clientHandshakeStateTLS13", "processHelloRetryRequest"); f != nil {
		sel := x.mf("serverHelloMsg", "selectedGroup")
		al := aliasSet(f.fn, sel)
		isElem := func(e ast.Expr) bool { return sel(e) || mentionsAny(x.info, e, al) }
		m := memberSpec{isList: x.helloField(f, "supportedCurves"), isElem: isElem}
		takeWeak()
		p, fl, _ := m.edges(f.fn)
		if x.record(f, kHRR, p, fl, "HelloRetryRequest selectedGroup ∈ hello.supportedCurves", both(x.mf("clientHelloMsg", "supportedCurves"), isElem)) {
			// the new key share is generated only for a validated group
			n := 0
			for _, h := range f.fn.FindNodes(an.CallTo(x.info, Mod, "", "generateECDHEKey")) {
				call := h.N.(*ast.CallExpr)
				if len(call.Args) == 2 && isElem(call.Args[1]) {
					n++
					r.Check(f.fn.MustPass(h.P, nil, p), "C12.1", f.name+":"+kHRR+":use", c.Pos(call), "the key for the server-selected group is generated only after the group was found in the offered list", "a key share for the server-selected group is generated without passing the offered-groups check")
				}
			}
			if n == 0 {
				r.Unknown("C12.1", f.name+":"+kHRR+":use", c.Pos(f.fn.Decl), "generateECDHEKey(…, selectedGroup) not found")
			}
		}
	}
	// ---- TLS 1.3: readServerParameters (ALPN)
	alpn := func(f *c12fn) {
		p, fl, _, w, why := x.alpnEdges(f)
		wrong(f, kALPN, w, "hs.hello.alpnProtocols")
		if len(p) == 0 && why != "" {
			r.Bad("C12.1", f.name+":"+kALPN, c.Pos(f.fn.Decl), "checkALPN is called but %s", why)
			return
		}
		x.record(f, kALPN, p, fl, "checkALPN(hs.hello.alpnProtocols, server's protocol) returned nil", nil)
	}
	if f := x.get("C12.1", "clientHandshakeStateTLS13", "readServerParameters"); f != nil {
		alpn(f)
	}
	// ---- TLS 1.2
	if f := x.get("C12.1", "clientHandshakeState", "pickCipherSuite"); f != nil {
		p, fl, w := x.suiteEdges(f, "mutualCipherSuite")
		wrong(f, kSuite, w, "hs.hello.cipherSuites")
		x.record(f, kSuite, p, fl, "serverHello.cipherSuite ∈ hs.hello.cipherSuites (mutualCipherSuite result tested for nil)", nil)
	}
	if f := x.get("C12.1", "clientHandshakeState", "processServerHello"); f != nil {
		p, fl := x.compressionEdges(f)
		x.record(f, kComp, p, fl, "serverHello.compressionMethod == compressionNone", x.mf("serverHelloMsg", "compressionMethod"))
		alpn(f)
	}
	// ---- TLS 1.2 ECDHE: every implementation of keyAgreement.processServerKeyExchange that can succeed
	for _, im := range x.kaImpls() {
		f := x.getObj(im)
		if f == nil || len(successReturns(f.fn)) == 0 {
			continue
		}
		key := x.mf("serverKeyExchangeMsg", "key")
		al := aliasSet(f.fn, func(e ast.Expr) bool { return key(e) && an.TypeName(x.info.TypeOf(e)) == "CurveID" })
		isElem := func(e ast.Expr) bool { return mentionsAny(x.info, e, al) }
		m := memberSpec{isList: x.helloField(f, "supportedCurves"), isElem: isElem}
		takeWeak()
		p, fl, _ := m.edges(f.fn)
		if len(p) == 0 && len(takeWeak()) > 0 {
			r.Bad("C12.1", f.name+":"+kGroup, c.Pos(f.fn.Decl), "the comparison of the ServerKeyExchange curve with clientHello.supportedCurves is present, but no outcome of the condition it is part of implies that it passed (weakened check)")
			continue
		}
		if len(p) == 0 {
			r.Bad("C12.1", f.name+":"+kGroup, c.Pos(f.fn.Decl), "the curve named in ServerKeyExchange is never compared with clientHello.supportedCurves: a TLS 1.2 server can make the client perform ECDHE on any curve the library implements, offered or not")
			continue
		}
		x.record(f, kGroup, p, fl, "ServerKeyExchange curve ∈ clientHello.supportedCurves", nil)
		for _, h := range f.fn.FindNodes(an.CallTo(x.info, Mod, "", "generateECDHEKey")) {
			r.Check(f.fn.MustPass(h.P, nil, p), "C12.1", f.name+":"+kGroup+":use", c.Pos(h.N), "the ECDHE key is generated only after the curve was found in the offered list", "the ECDHE key for the server's curve is generated without passing the offered-curves check")
		}
	}
	// ---- certificate compression algorithm
	if f := x.get("C12.1", "clientHandshakeStateTLS13", "decompressCert"); f != nil {
		m := memberSpec{isList: x.mfa(f, "UConn", "certCompressionAlgs"), isElem: x.mfa(f, "utlsCompressedCertificateMsg", "algorithm")}
		takeWeak()
		p, fl, _ := m.edges(f.fn)
		if x.record(f, kCertAlg, p, fl, "CompressedCertificate.algorithm ∈ uconn.certCompressionAlgs", nil) {
			for _, h := range f.fn.FindNodes(func(n ast.Node) bool {
				call, ok := n.(*ast.CallExpr)
				if !ok {
					return false
				}
				fo, ok := an.Callee(x.info, call).(*types.Func)
				return ok && fo.Name() == "NewReader" && fo.Pkg() != nil && fo.Pkg().Path() != "bytes" && fo.Pkg().Path() != "strings" && fo.Pkg().Path() != "bufio"
			}) {
				r.Check(f.fn.MustPass(h.P, nil, p), "C12.1", f.name+":"+kCertAlg+":use:"+an.Str(h.N.(*ast.CallExpr).Fun), c.Pos(h.N), "decompressor constructed only for an advertised algorithm", "a decompressor is constructed without passing the advertised-algorithm check")
			}
		}
	}
}

// kaImpls lists the module implementations of keyAgreement.processServerKeyExchange.
func (x *c12) kaImpls() []*types.Func {
	var out []*types.Func
	nm := load.Named(x.c.P.TLS, "keyAgreement")
	if nm == nil {
		x.c.R.Unknown("C12.1", "keyAgreement", "", "interface keyAgreement not found")
		return nil
	}
	it, ok := nm.Underlying().(*types.Interface)
	if !ok {
		return nil
	}
	scope := x.c.P.TLS.Types.Scope()
	for _, n := range scope.Names() {
		tn, ok := scope.Lookup(n).(*types.TypeName)
		if !ok || tn.IsAlias() {
			continue
		}
		t := tn.Type()
		if _, isI := t.Underlying().(*types.Interface); isI {
			continue
		}
		for _, tt := range []types.Type{t, types.NewPointer(t)} {
			if types.Implements(tt, it) {
				if o, _, _ := types.LookupFieldOrMethod(tt, true, x.c.P.TLS.Types, "processServerKeyExchange"); o != nil {
					if fo, ok := o.(*types.Func); ok {
						out = append(out, fo)
					}
				}
				break
			}
		}
	}
	sort.Slice(out, func(i, j int) bool { return funcName(out[i]) < funcName(out[j]) })
	if len(out) == 0 {
		x.c.R.Unknown("C12.1", "keyAgreement", "", "no implementation of keyAgreement found")
	}
	return out
}

// ------------------------------------------------------------------ summaries

// edges returns the pass edges of kind available in f: its own checks plus the err==nil
// outcome of calls to functions that validate kind on every success return.
func (x *c12) edges(f *c12fn, kind string) []an.Edge {
	out := append([]an.Edge{}, f.direct[kind]...)
	for _, h := range f.fn.FindNodes(func(n ast.Node) bool { _, ok := n.(*ast.CallExpr); return ok }) {
		call := h.N.(*ast.CallExpr)
		cal, ok := an.Callee(x.info, call).(*types.Func)
		if !ok {
			continue
		}
		targets := []*types.Func{cal}
		if _, has := x.cg.decl[cal]; !has {
			targets = nil
			for im := range x.implsOf(cal) {
				targets = append(targets, im)
			}
			if len(targets) == 0 {
				continue
			}
		}
		all, anyValid := true, false
		for _, t := range targets {
			if x.valid[t][kind] {
				anyValid = true
				continue
			}
			// implementations that cannot succeed do not weaken the summary
			if tf := x.getObj(t); tf != nil && len(successReturns(tf.fn)) == 0 {
				continue
			}
			all = false
		}
		if !all || !anyValid {
			continue
		}
		t := callErrTest(f.fn, h)
		if t.why == "" {
			out = append(out, t.pass...)
		}
	}
	return out
}

// implsOf resolves an interface method of the module to its implementations.
func (x *c12) implsOf(m *types.Func) map[*types.Func]bool {
	out := map[*types.Func]bool{}
	sig := m.Type().(*types.Signature)
	if sig.Recv() == nil || m.Pkg() != x.c.P.TLS.Types {
		return out
	}
	if _, ok := sig.Recv().Type().Underlying().(*types.Interface); !ok {
		return out
	}
	if m.Name() == "processServerKeyExchange" {
		for _, im := range x.kaImpls() {
			out[im] = true
		}
	}
	return out
}

// summaries proves, for the validating functions, that every success return lies behind the
// passing outcome of each kind they are responsible for (two rounds: callers of validators).
func (x *c12) summaries() {
	c, r := x.c, x.c.R
	type ent struct {
		recv, name string
		kinds      []string
	}
	table := []ent{
		{"clientHandshakeStateTLS13", "checkServerHelloOrHRR", []string{kSuite, kSID, kComp}},
		{"clientHandshakeStateTLS13", "processServerHello", []string{kGroup}},
		{"clientHandshakeStateTLS13", "readServerParameters", []string{kALPN}},
		{"clientHandshakeStateTLS13", "decompressCert", []string{kCertAlg}},
		{"clientHandshakeState", "pickCipherSuite", []string{kSuite}},
		{"clientHandshakeState", "processServerHello", []string{kSuite, kComp, kALPN}},
	}
	// The table functions (and every keyAgreement implementation) are the designated
	// validators: callers may rely on their err==nil outcome; whether they really validate
	// on every success return is an obligation of its own below.
	designate := func(obj *types.Func, kind string) {
		if x.valid[obj] == nil {
			x.valid[obj] = map[string]bool{}
		}
		x.valid[obj][kind] = true
	}
	for _, e := range table {
		if f := x.get("C12.1", e.recv, e.name); f != nil {
			for _, k := range e.kinds {
				designate(f.obj, k)
			}
		}
	}
	for _, im := range x.kaImpls() {
		designate(im, kGroup)
	}
	prove := func(f *c12fn, kind string) {
		e := x.edges(f, kind)
		if len(e) == 0 {
			if !x.hasBad(f.name + ":" + kind) {
				r.Bad("C12.1", f.name+":"+kind+":success-path", c.Pos(f.fn.Decl), "nothing in this function validates the %s", kind)
			}
			return
		}
		ok := true
		var badRet an.Point
		for _, ret := range successReturns(f.fn) {
			if !f.fn.MustPass(ret, nil, e) {
				ok, badRet = false, ret
			}
		}
		pos := c.Pos(f.fn.Decl)
		if !ok {
			pos = c.PosP(badRet)
		}
		r.Check(ok, "C12.1", f.name+":"+kind+":success-path", pos, "every success return lies behind the passing outcome", "a success return is reachable without passing the "+kind+" check")
	}
	for _, e := range table {
		if f := x.get("C12.1", e.recv, e.name); f != nil {
			for _, k := range e.kinds {
				prove(f, k)
			}
		}
	}
	for _, im := range x.kaImpls() {
		if f := x.getObj(im); f != nil && len(successReturns(f.fn)) > 0 {
			prove(f, kGroup)
		}
	}
	// processHelloRetryRequest replaces hs.serverHello: the new message must be validated
	// again before the function can succeed.
	if f := x.get("C12.1", "clientHandshakeStateTLS13", "processHelloRetryRequest"); f != nil {
		stores := f.fn.FindNodes(an.AssignsTo(x.c.isField("clientHandshakeStateTLS13", "serverHello")))
		if len(stores) == 0 {
			r.Unknown("C12.1", f.name+":revalidate", c.Pos(f.fn.Decl), "store of the second ServerHello into hs.serverHello not found")
		}
		for _, s := range stores {
			for _, k := range []string{kSuite, kSID, kComp} {
				e := x.edges(f, k)
				ok := len(e) > 0
				for _, ret := range successReturns(f.fn) {
					if f.fn.Reachable(s.P, ret) && !f.fn.MustPassFrom(s.P, ret, nil, e) {
						ok = false
					}
				}
				r.Check(ok, "C12.1", f.name+":revalidate:"+k, c.Pos(s.N), "the ServerHello received after the HelloRetryRequest passes checkServerHelloOrHRR before the function succeeds", "the ServerHello that replaces the HelloRetryRequest can be accepted without the "+k+" check")
			}
		}
	}
}

func (x *c12) hasBad(cons string) bool {
	for _, o := range x.c.R.Obls {
		if o.Construct == cons && o.Status != "ok" {
			return true
		}
	}
	return false
}

// ------------------------------------------------------------------ error propagation

// propagates: the call's error is tested and the failing outcome leaves the function with an
// error, or the bound error variable is what every following return returns, or the call is
// itself the returned expression.
func propagates(fn *an.Fn, h an.Hit) (bool, string) {
	if rs, ok := h.P.Node().(*ast.ReturnStmt); ok && len(rs.Results) > 0 && an.Unparen(rs.Results[len(rs.Results)-1]) == ast.Expr(h.N.(*ast.CallExpr)) {
		return true, ""
	}
	t := callErrTest(fn, h)
	if t.errObj == nil {
		return false, t.why
	}
	if t.why == "" {
		for _, fe := range t.fail {
			if ok, why := failEdgeExits(fn, fe, nil); !ok {
				return false, why
			}
		}
		return true, ""
	}
	// returned on every path?
	isErr := func(e ast.Expr) bool {
		id, ok := an.Unparen(e).(*ast.Ident)
		return ok && objOf(fn.Info, id) == t.errObj
	}
	others := map[an.Point]bool{}
	for _, p := range fn.Find(an.AssignsTo(isErr)) {
		if p != h.P {
			others[p] = true
		}
	}
	saw := false
	for p := range fn.Reach(h.P, others, nil) {
		if p.I < 0 || others[p] {
			continue
		}
		rs, ok := p.Node().(*ast.ReturnStmt)
		if !ok {
			continue
		}
		saw = true
		if len(rs.Results) == 0 || !isErr(rs.Results[len(rs.Results)-1]) {
			return false, "a return after the call does not carry the call's error"
		}
	}
	if !saw {
		return false, t.why
	}
	return true, ""
}

func (x *c12) propagation() {
	c, r := x.c, x.c.R
	type pair struct{ crecv, cname, recv, name string }
	pairs := []pair{
		{"clientHandshakeStateTLS13", "handshake", "clientHandshakeStateTLS13", "checkServerHelloOrHRR"},
		{"clientHandshakeStateTLS13", "handshake", "clientHandshakeStateTLS13", "processHelloRetryRequest"},
		{"clientHandshakeStateTLS13", "handshake", "clientHandshakeStateTLS13", "processServerHello"},
		{"clientHandshakeStateTLS13", "handshake", "clientHandshakeStateTLS13", "readServerParameters"},
		{"clientHandshakeStateTLS13", "handshake", "clientHandshakeStateTLS13", "readServerCertificate"},
		{"clientHandshakeStateTLS13", "processHelloRetryRequest", "clientHandshakeStateTLS13", "checkServerHelloOrHRR"},
		{"clientHandshakeStateTLS13", "readServerCertificate", "clientHandshakeStateTLS13", "utlsReadServerCertificate"},
		{"clientHandshakeStateTLS13", "utlsReadServerCertificate", "clientHandshakeStateTLS13", "decompressCert"},
		{"clientHandshakeState", "handshake", "clientHandshakeState", "processServerHello"},
		{"clientHandshakeState", "handshake", "clientHandshakeState", "doFullHandshake"},
		{"clientHandshakeState", "processServerHello", "clientHandshakeState", "pickCipherSuite"},
		{"clientHandshakeState", "doFullHandshake", "*", "processServerKeyExchange"},
		{"UConn", "clientHandshake", "clientHandshakeStateTLS13", "handshake"},
		{"UConn", "clientHandshake", "clientHandshakeState", "handshake"},
		{"Conn", "clientHandshake", "clientHandshakeStateTLS13", "handshake"},
		{"Conn", "clientHandshake", "clientHandshakeState", "handshake"},
	}
	for _, p := range pairs {
		f := x.get("C12.1", p.crecv, p.cname)
		if f == nil {
			continue
		}
		cons := f.name + "->" + p.name
		hits := f.fn.FindNodes(an.CallTo(x.info, Mod, p.recv, p.name))
		if len(hits) == 0 {
			r.Unknown("C12.1", cons, c.Pos(f.fn.Decl), "call to %s not found", p.name)
			continue
		}
		for _, h := range hits {
			ok, why := propagates(f.fn, h)
			r.Check(ok, "C12.1", cons+":error-propagates", c.Pos(h.N), "a rejection by the callee aborts the caller with an error", "a rejection reported by "+p.name+" is lost: "+why)
		}
	}
}

// ------------------------------------------------------------------ completion

func (x *c12) isCompleteStore(n ast.Node) bool {
	call, ok := n.(*ast.CallExpr)
	if !ok || len(call.Args) != 1 {
		return false
	}
	se, ok := call.Fun.(*ast.SelectorExpr)
	if !ok || se.Sel.Name != "Store" || !an.FieldSel(x.info, an.Unparen(se.X), "Conn", "isHandshakeComplete") {
		return false
	}
	v, isConst := x.info.Types[call.Args[0]]
	return isConst && v.Value != nil && v.Value.Kind() == constant.Bool && constant.BoolVal(v.Value)
}

func (x *c12) completion() {
	c, r := x.c, x.c.R
	for _, e := range []struct {
		recv  string
		kinds []string
	}{
		{"clientHandshakeStateTLS13", []string{kSuite, kSID, kComp, kGroup, kALPN}},
		{"clientHandshakeState", []string{kSuite, kComp, kALPN}},
	} {
		f := x.get("C12.1", e.recv, "handshake")
		if f == nil {
			continue
		}
		done := f.fn.FindNodes(x.isCompleteStore)
		if len(done) == 0 {
			r.Unknown("C12.1", f.name+":complete", c.Pos(f.fn.Decl), "isHandshakeComplete.Store(true) not found")
			continue
		}
		for _, d := range done {
			for _, k := range e.kinds {
				ed := x.edges(f, k)
				r.Check(len(ed) > 0 && f.fn.MustPass(d.P, nil, ed), "C12.1", f.name+":complete:"+k, c.Pos(d.N), "the handshake is marked complete only behind the "+k+" validation", "isHandshakeComplete.Store(true) is reachable without the "+k+" validation having passed")
			}
		}
	}
}

// ------------------------------------------------------------------ helper bodies

func (x *c12) helperBodies() {
	c, r := x.c, x.c.R
	info := x.info
	for _, name := range []string{"mutualCipherSuite", "mutualCipherSuiteTLS13"} {
		fn := c.Fn("C12.1", "", name)
		if fn == nil {
			continue
		}
		ps := paramObjs(info, fn.Decl)
		if len(ps) != 2 {
			r.Unknown("C12.1", name+":membership", c.Pos(fn.Decl), "unexpected signature")
			continue
		}
		m := memberSpec{
			isList: func(e ast.Expr) bool { id, ok := an.Unparen(e).(*ast.Ident); return ok && info.Uses[id] == ps[0] },
			isElem: func(e ast.Expr) bool { return an.MentionsObj(info, e, ps[1]) },
		}
		eq := rangeEqEdges(fn, m)
		mp, _, _ := m.edges(fn)
		eq = append(eq, mp...)
		ok, n := len(eq) > 0, 0
		for _, ret := range fn.Returns() {
			rs := ret.Node().(*ast.ReturnStmt)
			if len(rs.Results) != 1 || an.IsNilIdent(info, rs.Results[0]) {
				continue
			}
			n++
			if !fn.MustPass(ret, nil, eq) {
				ok = false
			}
		}
		r.Check(ok && n > 0, "C12.1", name+":membership", c.Pos(fn.Decl), "a suite is returned only behind an equality of the wanted id with an element of the offered list", name+" can return a suite although the wanted id is not in the offered list")
	}
	if fn := c.Fn("C12.1", "", "checkALPN"); fn != nil {
		ps := paramObjs(info, fn.Decl)
		if len(ps) < 2 {
			r.Unknown("C12.1", "checkALPN:membership", c.Pos(fn.Decl), "unexpected signature")
			return
		}
		m := memberSpec{
			isList: func(e ast.Expr) bool { id, ok := an.Unparen(e).(*ast.Ident); return ok && info.Uses[id] == ps[0] },
			isElem: func(e ast.Expr) bool { return an.MentionsObj(info, e, ps[1]) },
		}
		eq := rangeEqEdges(fn, m)
		mp, _, _ := m.edges(fn)
		eq = append(eq, mp...)
		// the server selected nothing
		empty, _, _ := condEdgesL(fn, func(cond ast.Expr) (bool, bool) {
			be, ok := cond.(*ast.BinaryExpr)
			if !ok || (be.Op != token.EQL && be.Op != token.NEQ) {
				return false, false
			}
			for _, pr := range [][2]ast.Expr{{be.X, be.Y}, {be.Y, be.X}} {
				if s, ok := an.ConstString(info, pr[1]); ok && s == "" {
					if id, ok := an.Unparen(pr[0]).(*ast.Ident); ok && info.Uses[id] == ps[1] {
						return true, be.Op == token.EQL
					}
				}
				if v, ok := an.ConstInt(info, pr[1]); ok && v == 0 {
					if call, ok := an.Unparen(pr[0]).(*ast.CallExpr); ok && len(call.Args) == 1 {
						if f, ok := call.Fun.(*ast.Ident); ok && f.Name == "len" {
							if id, ok := an.Unparen(call.Args[0]).(*ast.Ident); ok && info.Uses[id] == ps[1] {
								return true, be.Op == token.EQL
							}
						}
					}
				}
			}
			return false, false
		})
		all := append(append([]an.Edge{}, eq...), empty...)
		ok := len(eq) > 0
		for _, ret := range successReturns(fn) {
			if !fn.MustPass(ret, nil, all) {
				ok = false
			}
		}
		r.Check(ok, "C12.1", "checkALPN:membership", c.Pos(fn.Decl), "nil is returned only when the server selected nothing or the selection equals an offered protocol", "checkALPN can return nil for a protocol that is not in the offered list")
	}
}

func paramObjs(info *types.Info, fd *ast.FuncDecl) []types.Object {
	var out []types.Object
	for _, fl := range fd.Type.Params.List {
		for _, n := range fl.Names {
			out = append(out, info.Defs[n])
		}
	}
	return out
}

// rangeEqEdges: true edges of `x[.f] == elem` where x ranges over the list.
func rangeEqEdges(fn *an.Fn, m memberSpec) []an.Edge {
	info := fn.Info
	rv := map[types.Object]bool{}
	ast.Inspect(fn.Body, func(n ast.Node) bool {
		if rs, ok := n.(*ast.RangeStmt); ok && m.isList(rs.X) {
			if v, ok := rs.Value.(*ast.Ident); ok && info.Defs[v] != nil {
				rv[info.Defs[v]] = true
			}
		}
		return true
	})
	isRV := func(e ast.Expr) bool { return rootedAt(info, e, rv) }
	p, _, _ := condEdgesL(fn, func(cond ast.Expr) (bool, bool) {
		be, ok := cond.(*ast.BinaryExpr)
		if !ok || be.Op != token.EQL {
			return false, false
		}
		if (isRV(be.X) && m.isElem(be.Y) && !isRV(be.Y)) || (isRV(be.Y) && m.isElem(be.X) && !isRV(be.X)) {
			return true, true
		}
		return false, false
	})
	return p
}

// ------------------------------------------------------------------ C12.3 stores

func (x *c12) stores() {
	c, r := x.c, x.c.R
	type watch struct {
		owner, field, kind string
		onlyRecv           string // restrict to methods of this receiver ("" = whole client path)
	}
	watches := []watch{
		{"Conn", "cipherSuite", kSuite, ""},
		{"clientHandshakeStateTLS13", "suite", kSuite, ""},
		{"clientHandshakeState", "suite", kSuite, ""},
		{"Conn", "clientProtocol", kALPN, ""},
		{"Conn", "curveID", kGroup, ""},
		{"clientHandshakeStateTLS13", "usingPSK", kPSK, ""},
		{"Conn", "didResume", kPSK, "clientHandshakeStateTLS13"},
	}
	// callers within the client path
	callers := map[*types.Func][]*types.Func{}
	for f := range x.reach {
		for cal := range x.cg.callees[f] {
			callers[cal] = append(callers[cal], f)
		}
	}
	for _, w := range watches {
		isF := c.isField(w.owner, w.field)
		n := 0
		for _, g := range sortedFuncs(x.reach) {
			fd := x.cg.decl[g]
			if fd == nil || fd.Body == nil {
				continue
			}
			if w.onlyRecv != "" && load.RecvName(fd) != w.onlyRecv {
				continue
			}
			if !an.Contains(fd.Body, an.AssignsTo(isF)) {
				continue
			}
			f := x.getObj(g)
			for _, s := range f.fn.FindNodes(an.AssignsTo(isF)) {
				// resets to the zero value are not reports of a server choice
				if as, ok := s.N.(*ast.AssignStmt); ok && len(as.Rhs) == 1 && isZeroLit(x.info, as.Rhs[0]) {
					continue
				}
				n++
				cons := f.name + ":" + w.owner + "." + w.field
				if as, ok := s.N.(*ast.AssignStmt); ok && len(as.Rhs) == 1 && w.kind == kSuite {
					if call, ok := an.Unparen(as.Rhs[0]).(*ast.CallExpr); ok && (an.IsCallTo(x.info, call, Mod, "", "mutualCipherSuite") || an.IsCallTo(x.info, call, Mod, "", "mutualCipherSuiteTLS13")) {
						r.Ok("C12.3", cons, c.Pos(s.N), "stores the result of the validation itself (nil when the suite was not offered)")
						continue
					}
					if o := lvalObj(x.info, as.Rhs[0]); o != nil && f.suiteVals[o] && !isF(as.Rhs[0]) {
						r.Ok("C12.3", cons, c.Pos(s.N), "stores the result of the validation itself (nil when the suite was not offered)")
						continue
					}
				}
				e := x.edges(f, w.kind)
				if len(e) > 0 {
					r.Check(f.fn.MustPass(s.P, nil, e), "C12.3", cons, c.Pos(s.N), "stored only behind the "+w.kind+" validation", "negotiated state is stored on a path that has not passed the "+w.kind+" validation")
					continue
				}
				if x.hasBad(f.name + ":" + w.kind) {
					continue // the missing check in this very function is reported by C12.1
				}
				// one level up: the call to this function lies behind the validation
				covered, found := true, false
				for _, h := range callers[g] {
					hf := x.getObj(h)
					if hf == nil {
						continue
					}
					he := x.edges(hf, w.kind)
					for _, site := range hf.fn.FindNodes(func(n ast.Node) bool {
						call, ok := n.(*ast.CallExpr)
						return ok && an.Callee(x.info, call) == types.Object(g)
					}) {
						found = true
						if len(he) == 0 || !hf.fn.MustPass(site.P, nil, he) {
							covered = false
							r.Bad("C12.3", cons, c.Pos(site.N), "%s stores %s.%s, and this call to it in %s is reachable without the %s validation having passed", f.name, w.owner, w.field, hf.name, w.kind)
						}
					}
				}
				switch {
				case !found:
					r.Unknown("C12.3", cons, c.Pos(s.N), "no %s validation in %s and no caller on the client path found", w.kind, f.name)
				case covered:
					r.Ok("C12.3", cons, c.Pos(s.N), "the function is only called behind the %s validation", w.kind)
				}
			}
		}
		if n == 0 {
			r.Unknown("C12.3", w.owner+"."+w.field, "", "no store to %s.%s found on the client path", w.owner, w.field)
		}
	}
	// the ALPN store records the value that was checked
	for _, nm := range [][2]string{{"clientHandshakeStateTLS13", "readServerParameters"}, {"clientHandshakeState", "processServerHello"}} {
		f := x.get("C12.3", nm[0], nm[1])
		if f == nil {
			continue
		}
		_, _, peer, _, _ := x.alpnEdges(f)
		for _, s := range f.fn.FindNodes(an.AssignsTo(c.isField("Conn", "clientProtocol"))) {
			as, ok := s.N.(*ast.AssignStmt)
			if !ok || len(as.Rhs) != 1 || peer == nil {
				continue
			}
			r.Check(lvalObj(x.info, as.Rhs[0]) == peer, "C12.3", f.name+":clientProtocol:value", c.Pos(as), "the stored protocol is the one checkALPN examined", "c.clientProtocol is set from "+an.Str(as.Rhs[0])+", which is not the value checkALPN examined")
		}
	}
}

func isZeroLit(info *types.Info, e ast.Expr) bool {
	if an.IsNilIdent(info, e) {
		return true
	}
	tv, ok := info.Types[e]
	if !ok || tv.Value == nil {
		return false
	}
	switch tv.Value.Kind() {
	case constant.Bool:
		return !constant.BoolVal(tv.Value)
	case constant.Int:
		v, _ := constant.Int64Val(tv.Value)
		return v == 0
	case constant.String:
		return constant.StringVal(tv.Value) == ""
	}
	return false
}

// connectionState: the reported fields are copies of the guarded Conn fields.
func (x *c12) connectionState() {
	c, r := x.c, x.c.R
	fn := c.Fn("C12.3", "Conn", "connectionStateLocked")
	if fn == nil {
		return
	}
	for _, pr := range [][2]string{{"CipherSuite", "cipherSuite"}, {"NegotiatedProtocol", "clientProtocol"}, {"DidResume", "didResume"}, {"testingOnlyCurveID", "curveID"}} {
		hits := fn.FindNodes(an.AssignsTo(c.isField("ConnectionState", pr[0])))
		if len(hits) == 0 {
			r.Unknown("C12.3", "connectionStateLocked:"+pr[0], c.Pos(fn.Decl), "no assignment to ConnectionState.%s", pr[0])
			continue
		}
		for _, h := range hits {
			as, ok := h.N.(*ast.AssignStmt)
			if !ok || len(as.Rhs) != len(as.Lhs) {
				r.Unknown("C12.3", "connectionStateLocked:"+pr[0], c.Pos(h.N), "unrecognised assignment")
				continue
			}
			for i, l := range as.Lhs {
				if c.isField("ConnectionState", pr[0])(l) {
					r.Check(an.FieldSel(x.info, an.Unparen(as.Rhs[i]), "Conn", pr[1]), "C12.3", "connectionStateLocked:"+pr[0], c.Pos(as), "reports Conn."+pr[1], "ConnectionState."+pr[0]+" is not taken from the validated Conn."+pr[1])
				}
			}
		}
	}
}

// ------------------------------------------------------------------ hello identity

// helloIdentity: the clientHelloMsg handed to the handshake state is the variable that was
// written to the wire, and in the uTLS path it is derived from HandshakeState.Hello.
func (x *c12) helloIdentity() {
	c, r := x.c, x.c.R
	for _, recv := range []string{"UConn", "Conn"} {
		f := x.get("C12.2", recv, "clientHandshake")
		if f == nil {
			continue
		}
		var written types.Object
		for _, h := range f.fn.FindNodes(an.CallTo(x.info, Mod, "Conn", "writeHandshakeRecord")) {
			call := h.N.(*ast.CallExpr)
			if len(call.Args) >= 1 && an.TypeName(x.info.TypeOf(call.Args[0])) == "clientHelloMsg" {
				if id, ok := an.Unparen(call.Args[0]).(*ast.Ident); ok {
					written = objOf(x.info, id)
				}
			}
		}
		if written == nil {
			r.Unknown("C12.2", f.name+":hello-written", c.Pos(f.fn.Decl), "writeHandshakeRecord(<clientHelloMsg variable>, …) not found")
			continue
		}
		n := 0
		check := func(owner string, rhs ast.Expr, pos ast.Node) {
			n++
			id, ok := an.Unparen(rhs).(*ast.Ident)
			if !ok {
				r.Unknown("C12.2", f.name+":"+owner+".hello", c.Pos(pos), "hello is set from %s; cannot tell whether it is the written message", an.Str(rhs))
				return
			}
			r.Check(objOf(x.info, id) == written, "C12.2", f.name+":"+owner+".hello", c.Pos(pos), "the handshake state validates against the message that was written", "hs.hello is set from "+id.Name+", which is not the ClientHello passed to writeHandshakeRecord")
		}
		for _, owner := range []string{"clientHandshakeStateTLS13", "clientHandshakeState"} {
			for _, h := range f.fn.FindNodes(an.AssignsTo(c.isField(owner, "hello"))) {
				as := h.N.(*ast.AssignStmt)
				for i, l := range as.Lhs {
					if c.isField(owner, "hello")(l) && len(as.Rhs) == len(as.Lhs) {
						check(owner, as.Rhs[i], as)
					}
				}
			}
			ast.Inspect(f.fn.Body, func(nn ast.Node) bool {
				cl, ok := nn.(*ast.CompositeLit)
				if !ok || an.TypeName(x.info.TypeOf(cl)) != owner {
					return true
				}
				for _, el := range cl.Elts {
					if kv, ok := el.(*ast.KeyValueExpr); ok {
						if k, ok := kv.Key.(*ast.Ident); ok && k.Name == "hello" {
							check(owner, kv.Value, kv)
						}
					}
				}
				return true
			})
		}
		if n == 0 {
			r.Unknown("C12.2", f.name+":hello", c.Pos(f.fn.Decl), "no assignment of the hello field of a handshake state found")
		}
		if recv == "UConn" {
			// hello := c.HandshakeState.Hello.getPrivatePtr()
			ok := false
			for _, rhs := range assignedExprs(f.fn)[written] {
				call, isCall := an.Unparen(rhs).(*ast.CallExpr)
				if isCall && an.IsCallTo(x.info, call, Mod, "PubClientHelloMsg", "getPrivatePtr") {
					if se, isSel := call.Fun.(*ast.SelectorExpr); isSel && an.FieldSel(x.info, an.Unparen(se.X), "PubClientHandshakeState", "Hello") {
						ok = true
					}
				}
			}
			r.Check(ok, "C12.2", f.name+":hello-source", c.Pos(f.fn.Decl), "the written hello is HandshakeState.Hello (the structure ApplyPreset/writeToUConn fill)", "the written hello is not derived from HandshakeState.Hello")
		}
	}
}

// ------------------------------------------------------------------ C12.2 wire lists

type ownerEntry struct {
	ext   string   // extension type
	src   ast.Expr // right-hand side
	pos   ast.Node
	field string // extension field copied (if the rhs is e.F)
}

func (x *c12) wireLists() {
	c, r := x.c, x.c.R
	info := x.info
	tls := c.P.TLS
	// --- owner table from writeToUConn of every TLSExtension implementation
	iface := load.Named(tls, "TLSExtension")
	if iface == nil {
		r.Unknown("C12.2", "TLSExtension", "", "interface TLSExtension not found")
		return
	}
	it, _ := iface.Underlying().(*types.Interface)
	owners := map[string][]ownerEntry{} // "Hello.X" / "UConn.x" -> entries
	nImpl := 0
	scope := tls.Types.Scope()
	for _, n := range scope.Names() {
		tn, ok := scope.Lookup(n).(*types.TypeName)
		if !ok || tn.IsAlias() || it == nil {
			continue
		}
		if _, isI := tn.Type().Underlying().(*types.Interface); isI {
			continue
		}
		if !types.Implements(types.NewPointer(tn.Type()), it) && !types.Implements(tn.Type(), it) {
			continue
		}
		fd := load.FuncDecl(tls, n, "writeToUConn")
		if fd == nil || fd.Body == nil {
			continue // promoted from an embedded type, which is visited on its own
		}
		nImpl++
		var recvObj types.Object
		if len(fd.Recv.List[0].Names) > 0 {
			recvObj = info.Defs[fd.Recv.List[0].Names[0]]
		}
		ast.Inspect(fd.Body, func(nn ast.Node) bool {
			as, ok := nn.(*ast.AssignStmt)
			if !ok || len(as.Lhs) != len(as.Rhs) {
				return true
			}
			for i, l := range as.Lhs {
				se, ok := an.Unparen(l).(*ast.SelectorExpr)
				if !ok {
					continue
				}
				key := ""
				switch {
				case fieldOwnerIs(info, se, "PubClientHelloMsg") && an.MentionsField(info, se.X, "PubClientHandshakeState", "Hello"):
					key = "Hello." + se.Sel.Name
				case fieldOwnerIs(info, se, "UConn"):
					key = "UConn." + se.Sel.Name
				default:
					continue
				}
				e := ownerEntry{ext: n, src: as.Rhs[i], pos: as}
				if rs, ok := an.Unparen(as.Rhs[i]).(*ast.SelectorExpr); ok && recvObj != nil {
					if id, ok := an.Unparen(rs.X).(*ast.Ident); ok && info.Uses[id] == recvObj {
						e.field = rs.Sel.Name
					}
				}
				owners[key] = append(owners[key], e)
			}
			return true
		})
	}
	r.Count("writeToUConn_methods", nImpl)
	r.Count("owned_fields", len(owners))
	if nImpl < 25 || len(owners) < 12 {
		r.Unknown("C12.2", "owner-table", "", "owner table too small (%d writeToUConn methods, %d owned fields): extraction is not seeing the extensions", nImpl, len(owners))
	}
	// --- private -> public field names through getPublicPtr
	pub := map[string]string{}
	if fd := load.FuncDecl(tls, "clientHelloMsg", "getPublicPtr"); fd != nil {
		if fm := extractFieldMap(tls, fd); fm != nil {
			for dst, srcs := range fm.m {
				for _, s := range srcs {
					if !strings.Contains(s, ".") && !strings.Contains(dst, ".") {
						pub[s] = dst
					}
				}
			}
		}
	}
	if len(pub) < 20 {
		r.Unknown("C12.2", "getPublicPtr", "", "field map of clientHelloMsg.getPublicPtr not extracted (%d fields)", len(pub))
		return
	}
	mk := c.Fn("C12.2", "Conn", "makeClientHelloForApplyPreset")
	ap := c.Fn("C12.2", "UConn", "ApplyPreset")
	ms := c.Fn("C12.2", "UConn", "MarshalClientHelloNoECH")
	if mk == nil || ap == nil || ms == nil {
		return
	}
	var fields []string
	for f := range x.validated {
		fields = append(fields, f)
	}
	sort.Strings(fields)
	for _, priv := range fields {
		pf, ok := pub[priv]
		if !ok {
			r.Unknown("C12.2", "Hello."+priv, "", "clientHelloMsg.%s has no public counterpart in getPublicPtr", priv)
			continue
		}
		cons := "Hello." + pf
		own := owners[cons]
		if len(own) == 0 {
			// not owned by an extension: the marshaller must write this very field
			wr := false
			isPF := func(e ast.Expr) bool { return an.MentionsField(info, e, "PubClientHelloMsg", pf) }
			rv := map[types.Object]bool{}
			ast.Inspect(ms.Body, func(n ast.Node) bool {
				if rs, ok := n.(*ast.RangeStmt); ok && isPF(rs.X) {
					if v, ok := rs.Value.(*ast.Ident); ok {
						rv[info.Defs[v]] = true
					}
				}
				return true
			})
			for _, h := range ms.FindNodes(c.callPkgFunc("encoding/binary", "Write")) {
				call := h.N.(*ast.CallExpr)
				if len(call.Args) == 3 {
					a := call.Args[2]
					if _, isLen := lenArg(info, a); isLen {
						continue
					}
					if (isPF(a) && !an.Contains(a, func(n ast.Node) bool { _, l := lenArg(info, n); return l })) || mentionsAny(info, a, rv) {
						wr = true
					}
				}
			}
			r.Check(wr, "C12.2", cons+":marshalled", c.Pos(ms.Decl), "the validated field is the one MarshalClientHelloNoECH writes", "MarshalClientHelloNoECH does not write Hello."+pf+": the list the server's choice is validated against is not the list on the wire")
			continue
		}
		// owned by extension type(s): the copy takes the field the encoder reads
		extNames := []string{}
		for _, e := range own {
			extNames = append(extNames, e.ext)
			if e.field == "" {
				continue
			}
			rd := load.FuncDecl(tls, e.ext, "Read")
			if rd == nil || rd.Body == nil {
				continue
			}
			reads, _ := fieldsTouched(tls, rd)
			_, ok := reads[e.field]
			if !ok {
				// helper one level down (e.g. keySharesLen-like helpers are not used by Read; accept Len too)
				if ln := load.FuncDecl(tls, e.ext, "Len"); ln != nil {
					lr, _ := fieldsTouched(tls, ln)
					_, ok = lr[e.field]
				}
			}
			r.Check(ok, "C12.2", cons+":"+e.ext+".writeToUConn", c.Pos(e.pos), "Hello."+pf+" is synchronised from "+e.ext+"."+e.field+", which the encoder reads", "Hello."+pf+" is set from "+e.ext+"."+e.field+", which "+e.ext+".Read does not encode")
		}
		// stale default
		init := initialValue(mk, priv)
		if init == nil {
			r.Ok("C12.2", cons+":default", c.Pos(mk.Decl), "makeClientHelloForApplyPreset leaves %s empty; only %s fills it", priv, strings.Join(extNames, "/"))
			continue
		}
		if resetIn(ap, info, pf, extNames) {
			r.Ok("C12.2", cons+":default", c.Pos(ap.Decl), "ApplyPreset overrides the Config default of %s", pf)
			continue
		}
		r.Bad("C12.2", cons+":default", c.Pos(init), "makeClientHelloForApplyPreset initialises %s to %s and ApplyPreset never clears it: when the spec has no %s the server's choice is validated against a list that is not on the wire", priv, an.Str(init), strings.Join(extNames, "/"))
	}
	// certCompressionAlgs lives on UConn: the decompression path must be tied to the owning extension being present
	if own := owners["UConn.certCompressionAlgs"]; len(own) == 0 {
		r.Unknown("C12.2", "UConn.certCompressionAlgs", "", "no writeToUConn assigns uconn.certCompressionAlgs")
	} else if f := x.get("C12.2", "clientHandshakeStateTLS13", "utlsReadServerCertificate"); f != nil {
		okAll, n := true, 0
		var stack []ast.Node
		ast.Inspect(f.fn.Body, func(nn ast.Node) bool {
			if nn == nil {
				stack = stack[:len(stack)-1]
				return false
			}
			stack = append(stack, nn)
			call, ok := nn.(*ast.CallExpr)
			if !ok || !an.IsCallTo(info, call, Mod, "clientHandshakeStateTLS13", "decompressCert") {
				return true
			}
			n++
			in := false
			for i := len(stack) - 1; i >= 0; i-- {
				cc, ok := stack[i].(*ast.CaseClause)
				if !ok || i < 2 {
					continue
				}
				ts, ok := stack[i-2].(*ast.TypeSwitchStmt)
				if !ok || !an.MentionsField(info, tsSubject(ts), "UConn", "Extensions") && !rangesOver(info, f.fn, tsSubject(ts), "UConn", "Extensions") {
					continue
				}
				for _, t := range cc.List {
					for _, e := range own {
						if an.TypeName(info.TypeOf(t)) == e.ext {
							in = true
						}
					}
				}
			}
			if !in {
				// guard-clause form: _, ok := ext.(*OwnerExt); if !ok { continue }
				okVars := map[types.Object]bool{}
				ast.Inspect(f.fn.Body, func(y ast.Node) bool {
					as, isAs := y.(*ast.AssignStmt)
					if !isAs || len(as.Lhs) != 2 || len(as.Rhs) != 1 {
						return true
					}
					ta, isTA := an.Unparen(as.Rhs[0]).(*ast.TypeAssertExpr)
					if !isTA || ta.Type == nil {
						return true
					}
					if !an.MentionsField(info, ta.X, "UConn", "Extensions") && !rangesOver(info, f.fn, ta.X, "UConn", "Extensions") {
						return true
					}
					for _, e := range own {
						if an.TypeName(info.TypeOf(ta.Type)) == e.ext {
							if id, isID := as.Lhs[1].(*ast.Ident); isID {
								okVars[objOf(info, id)] = true
							}
						}
					}
					return true
				})
				pass, _, _ := condEdges(f.fn, func(cond ast.Expr) (bool, bool) {
					id, isID := an.Unparen(cond).(*ast.Ident)
					return isID && okVars[objOf(info, id)], true
				})
				if pt, has := f.fn.PointOf(call); has && len(pass) > 0 && f.fn.MustPass(pt, nil, pass) {
					in = true
				}
			}
			if !in {
				okAll = false
			}
			return true
		})
		r.Check(okAll && n > 0, "C12.2", "UConn.certCompressionAlgs:extension-present", c.Pos(f.fn.Decl), "a CompressedCertificate is only processed when the owning extension is in uconn.Extensions", "decompressCert is reachable although no "+own[0].ext+" is among uconn.Extensions: a stale algorithm list would be accepted")
	}
	// ApplyConfig (writeToUConn of every extension) precedes marshalling on every build
	if f := x.get("C12.2", "UConn", "buildHandshakeState"); f != nil {
		ac := f.fn.FindNodes(an.CallTo(info, Mod, "UConn", "ApplyConfig"))
		mc := f.fn.FindNodes(an.CallTo(info, Mod, "UConn", "MarshalClientHello"))
		if len(ac) == 0 || len(mc) == 0 {
			r.Unknown("C12.2", f.name+":sync-before-marshal", c.Pos(f.fn.Decl), "ApplyConfig/MarshalClientHello calls not found")
		} else {
			var pass []an.Edge
			for _, h := range ac {
				if t := callErrTest(f.fn, h); t.why == "" {
					pass = append(pass, t.pass...)
				}
			}
			for _, m := range mc {
				r.Check(len(pass) > 0 && f.fn.MustPass(m.P, nil, pass), "C12.2", f.name+":sync-before-marshal", c.Pos(m.N), "Hello fields are synchronised from the extensions before the hello is marshalled", "MarshalClientHello is reachable without a successful ApplyConfig: Hello fields can disagree with the extensions that are marshalled")
			}
		}
	}
	if fd := load.FuncDecl(tls, "UConn", "ApplyConfig"); fd != nil {
		ok := false
		ast.Inspect(fd.Body, func(n ast.Node) bool {
			rs, isR := n.(*ast.RangeStmt)
			if !isR || !an.MentionsField(info, rs.X, "UConn", "Extensions") {
				return true
			}
			v, _ := rs.Value.(*ast.Ident)
			ast.Inspect(rs.Body, func(m ast.Node) bool {
				call, isC := m.(*ast.CallExpr)
				if !isC || v == nil {
					return true
				}
				if se, isS := call.Fun.(*ast.SelectorExpr); isS && se.Sel.Name == "writeToUConn" {
					if id, isI := an.Unparen(se.X).(*ast.Ident); isI && info.Uses[id] == info.Defs[v] {
						ok = true
					}
				}
				return true
			})
			return true
		})
		r.Check(ok, "C12.2", "UConn.ApplyConfig:all-extensions", c.Pos(fd), "writeToUConn is applied to every element of uconn.Extensions", "ApplyConfig does not call writeToUConn on every extension of uconn.Extensions")
	} else {
		r.Unknown("C12.2", "UConn.ApplyConfig:all-extensions", "", "ApplyConfig not found")
	}
}

func lenArg(info *types.Info, n ast.Node) (ast.Expr, bool) {
	call, ok := n.(*ast.CallExpr)
	if !ok || len(call.Args) != 1 {
		return nil, false
	}
	id, ok := call.Fun.(*ast.Ident)
	if !ok || id.Name != "len" {
		return nil, false
	}
	if _, isB := info.Uses[id].(*types.Builtin); !isB {
		return nil, false
	}
	return call.Args[0], true
}

func tsSubject(ts *ast.TypeSwitchStmt) ast.Expr {
	var ta *ast.TypeAssertExpr
	switch s := ts.Assign.(type) {
	case *ast.ExprStmt:
		ta, _ = an.Unparen(s.X).(*ast.TypeAssertExpr)
	case *ast.AssignStmt:
		if len(s.Rhs) == 1 {
			ta, _ = an.Unparen(s.Rhs[0]).(*ast.TypeAssertExpr)
		}
	}
	if ta == nil {
		return &ast.BadExpr{}
	}
	return ta.X
}

// rangesOver: e is the value variable of a range over owner.field.
func rangesOver(info *types.Info, fn *an.Fn, e ast.Expr, owner, field string) bool {
	id, ok := an.Unparen(e).(*ast.Ident)
	if !ok {
		return false
	}
	found := false
	ast.Inspect(fn.Body, func(n ast.Node) bool {
		rs, ok := n.(*ast.RangeStmt)
		if !ok {
			return true
		}
		if v, ok := rs.Value.(*ast.Ident); ok && info.Defs[v] == info.Uses[id] && an.MentionsField(info, rs.X, owner, field) {
			found = true
		}
		return true
	})
	return found
}

func fieldOwnerIs(info *types.Info, se *ast.SelectorExpr, owner string) bool {
	return an.FieldSel(info, se, owner, se.Sel.Name)
}

// initialValue returns the non-empty value makeClientHelloForApplyPreset gives clientHelloMsg
// field priv (composite-literal key or later assignment), or nil when it stays empty.
func initialValue(mk *an.Fn, priv string) ast.Expr {
	info := mk.Info
	var out ast.Expr
	nonEmpty := func(e ast.Expr) bool {
		if isZeroLit(info, e) {
			return false
		}
		if cl, ok := an.Unparen(e).(*ast.CompositeLit); ok && len(cl.Elts) == 0 {
			return false
		}
		return true
	}
	ast.Inspect(mk.Body, func(n ast.Node) bool {
		switch s := n.(type) {
		case *ast.CompositeLit:
			if an.TypeName(info.TypeOf(s)) != "clientHelloMsg" {
				return true
			}
			for _, el := range s.Elts {
				if kv, ok := el.(*ast.KeyValueExpr); ok {
					if k, ok := kv.Key.(*ast.Ident); ok && k.Name == priv && nonEmpty(kv.Value) {
						out = kv.Value
					}
				}
			}
		case *ast.AssignStmt:
			for i, l := range s.Lhs {
				if an.FieldSel(info, an.Unparen(l), "clientHelloMsg", priv) && len(s.Rhs) == len(s.Lhs) && nonEmpty(s.Rhs[i]) {
					out = s.Rhs[i]
				}
			}
		}
		return true
	})
	return out
}

// resetIn: ApplyPreset assigns Hello.pf outside the type-switch clauses of the owning
// extension types, either on every success path or under a flag that only such a clause
// sets (hello.NextProtoNeg = haveNPN; if !haveALPN { hello.AlpnProtocols = nil }).
func resetIn(ap *an.Fn, info *types.Info, pf string, owners []string) bool {
	isOwner := func(t ast.Expr) bool {
		n := an.TypeName(info.TypeOf(t))
		for _, o := range owners {
			if o == n {
				return true
			}
		}
		return false
	}
	// positions covered by owner clauses
	type span struct{ lo, hi token.Pos }
	var spans []span
	ast.Inspect(ap.Body, func(n ast.Node) bool {
		ts, ok := n.(*ast.TypeSwitchStmt)
		if !ok {
			return true
		}
		for _, cl := range ts.Body.List {
			cc := cl.(*ast.CaseClause)
			for _, t := range cc.List {
				if isOwner(t) {
					spans = append(spans, span{cc.Pos(), cc.End()})
				}
			}
		}
		return true
	})
	inOwner := func(p token.Pos) bool {
		for _, s := range spans {
			if p >= s.lo && p < s.hi {
				return true
			}
		}
		return false
	}
	// flags set (to a non-zero value) only inside owner clauses
	flagOK := map[types.Object]bool{}
	for o, rhss := range assignedExprsPos(ap) {
		if b, ok := o.Type().Underlying().(*types.Basic); !ok || b.Kind() != types.Bool {
			continue
		}
		ok, saw := true, false
		for _, rp := range rhss {
			if isZeroLit(info, rp.e) {
				continue
			}
			saw = true
			if !inOwner(rp.e.Pos()) {
				ok = false
			}
		}
		if ok && saw {
			flagOK[o] = true
		}
	}
	isPF := func(e ast.Expr) bool { return an.FieldSel(info, an.Unparen(e), "PubClientHelloMsg", pf) }
	for _, h := range ap.FindNodes(an.AssignsTo(isPF)) {
		if inOwner(h.N.Pos()) {
			continue
		}
		as, ok := h.N.(*ast.AssignStmt)
		if !ok {
			continue
		}
		// value depends on an owner flag
		for _, rhs := range as.Rhs {
			if mentionsAny(info, rhs, flagOK) {
				return true
			}
		}
		// unconditional on success paths
		all := true
		rets := successReturns(ap)
		for _, ret := range rets {
			if !ap.MustPass(ret, []an.Point{h.P}, nil) {
				all = false
			}
		}
		if all && len(rets) > 0 {
			return true
		}
		// guarded by an owner flag
		guard, _, _ := condEdgesL(ap, func(cond ast.Expr) (bool, bool) {
			e, neg := negated(cond)
			id, ok := e.(*ast.Ident)
			if !ok || !flagOK[objOf(info, id)] {
				return false, false
			}
			return true, neg // the reset runs when the flag is false
		})
		if len(guard) > 0 && ap.MustPass(h.P, nil, guard) {
			// and whenever the flag is false the reset is executed before success
			return true
		}
	}
	return false
}

type exprPos struct{ e ast.Expr }

func assignedExprsPos(fn *an.Fn) map[types.Object][]exprPos {
	out := map[types.Object][]exprPos{}
	for o, l := range assignedExprs(fn) {
		for _, e := range l {
			out[o] = append(out[o], exprPos{e})
		}
	}
	return out
}
