package props

import (
	"fmt"
	"go/ast"
	"go/token"
	"go/types"
	"strings"

	"verif/internal/an"
	"verif/internal/load"
)

func init() { register(&Prop{ID: "C30", Run: runC30}) }

// multiOracle decides `d op 0` by interval arithmetic over several independent atoms.
func multiOracle(iv map[string][2]int64) func(Lin, token.Token) tri {
	return func(d Lin, op token.Token) tri {
		lo, hi := d.C, d.C
		for a, k := range d.T {
			r, ok := iv[a]
			if !ok {
				return triUnknown
			}
			x, y := k*r[0], k*r[1]
			if x > y {
				x, y = y, x
			}
			lo += x
			hi += y
		}
		dec := func(t, f bool) tri {
			if t {
				return triTrue
			}
			if f {
				return triFalse
			}
			return triUnknown
		}
		switch op {
		case token.LSS:
			return dec(hi < 0, lo >= 0)
		case token.LEQ:
			return dec(hi <= 0, lo > 0)
		case token.GTR:
			return dec(lo > 0, hi <= 0)
		case token.GEQ:
			return dec(lo >= 0, hi < 0)
		}
		return triUnknown
	}
}

func runC30(c *Ctx) {
	r := c.R
	tls := c.P.TLS
	info := tls.TypesInfo
	r.Technique = "abstract execution of the PRNG helpers on affine forms with interval partitioning; bit-vector evaluation of Int63; effect (entropy-source) and lock-discipline rules on typed AST"
	r.Explanation = "C30.1 Intn/Int63n: for n ≤ 0 the result is 0, for n ≥ 1 the call is delegated to math/rand with the same n (result in [0,n)). C30.2 Range: on each of the four sign/order partitions the result is the clamped minimum or clampedMin + Intn(max-clampedMin+1), whose bounds are exactly [max(min,0), max]. C30.3 FlipWeightedCoin: weight is clamped at 1, the draw is Int63()/MaxInt64 in [0,1] (Int63 has bit 63 clear for every stream value) and the comparison is the strict draw > 1-weight, hence false for weight ≤ 0 and true for weight ≥ 1 unless the draw is 0. " +
		"C30.4 randomStream is touched only under randomStreamMutex (or in the constructor). C30.5 determinism: the math/rand generator is constructed over the prng itself, no prng method or seeded constructor reaches crypto/rand, math/rand's global source or time, Read fills the caller's buffer from the stream and reports len(b), salted seeds are a function of (seed, salt) only."
	r.NotDecided = "that different salts give different streams (an HKDF property); statistical quality"

	// ---- C30.1
	for _, name := range []string{"Intn", "Int63n"} {
		fd := load.FuncDecl(tls, "prng", name)
		if fd == nil {
			r.Unknown("C30.1", "prng."+name, "", "not found")
			continue
		}
		n := info.Defs[fd.Type.Params.List[0].Names[0]]
		for _, part := range []struct {
			lo, hi int64
			zero   bool
		}{{-1 << 40, 0, true}, {1, 1 << 40, false}} {
			var delegatedArg *Lin
			x := &linExec{info: info, vars: map[types.Object]Lin{n: linAtom("n")}, decide: intervalOracle("n", part.lo, part.hi)}
			x.call = func(call *ast.CallExpr, args []Lin) (Lin, bool) {
				f, _ := an.Callee(info, call).(*types.Func)
				if f != nil && f.Pkg() != nil && f.Pkg().Path() == "math/rand" && f.Name() == name && len(args) == 1 {
					a := args[0]
					delegatedArg = &a
					return linAtom("R"), true
				}
				return Lin{}, false
			}
			out := x.run(fd.Body.List)
			cons := fmt.Sprintf("prng.%s[n in %d..%d]", name, part.lo, part.hi)
			if out == nil || out.Kind != "return" {
				r.Bad("C30.1", cons, c.Pos(fd), "no uniform behaviour on this range")
				continue
			}
			if part.zero {
				r.Check(out.Ret[0].Eq(linConst(0)) && delegatedArg == nil, "C30.1", cons, c.Pos(fd), "returns 0 without touching math/rand", "for n ≤ 0 the helper does not return 0 (math/rand would panic)")
			} else {
				r.Check(out.Ret[0].Eq(linAtom("R")) && delegatedArg != nil && delegatedArg.Eq(linAtom("n")), "C30.1", cons, c.Pos(fd), "returns math/rand's "+name+"(n), which lies in [0,n)", "for n ≥ 1 the result is not math/rand's "+name+" of the same n")
			}
		}
	}
	r.Floor("C30.1", 4)

	// ---- C30.2 Range
	if fd := load.FuncDecl(tls, "prng", "Range"); fd == nil {
		r.Unknown("C30.2", "prng.Range", "", "not found")
	} else {
		pmin := info.Defs[fd.Type.Params.List[0].Names[0]]
		var pmax types.Object
		if len(fd.Type.Params.List[0].Names) > 1 {
			pmax = info.Defs[fd.Type.Params.List[0].Names[1]]
		} else {
			pmax = info.Defs[fd.Type.Params.List[1].Names[0]]
		}
		const K = 1 << 40
		type part struct {
			name     string
			iv       map[string][2]int64
			min, max Lin
			lower    Lin // expected clamped minimum
			draws    bool
		}
		parts := []part{
			{"min<0,max<0", map[string][2]int64{"min": {-K, -1}, "max": {-K, -1}}, linAtom("min"), linAtom("max"), linConst(0), false},
			{"min<0,max>=0", map[string][2]int64{"min": {-K, -1}, "max": {0, K}}, linAtom("min"), linAtom("max"), linConst(0), true},
			{"min>=0,max<min", map[string][2]int64{"min": {0, K}, "d": {-K, -1}}, linAtom("min"), linAtom("min").Add(linAtom("d")), linAtom("min"), false},
			{"min>=0,max>=min", map[string][2]int64{"min": {0, K}, "d": {0, K}}, linAtom("min"), linAtom("min").Add(linAtom("d")), linAtom("min"), true},
		}
		for _, p := range parts {
			var arg *Lin
			x := &linExec{info: info, vars: map[types.Object]Lin{pmin: p.min, pmax: p.max}, decide: multiOracle(p.iv)}
			x.call = func(call *ast.CallExpr, args []Lin) (Lin, bool) {
				if an.IsCallTo(info, call, Mod, "prng", "Intn") && len(args) == 1 {
					a := args[0]
					arg = &a
					return linAtom("R"), true
				}
				return Lin{}, false
			}
			out := x.run(fd.Body.List)
			cons := "prng.Range[" + p.name + "]"
			if out == nil || out.Kind != "return" {
				why := ""
				if out != nil {
					why = out.Why
				}
				r.Bad("C30.2", cons, c.Pos(fd), "no uniform behaviour on this partition: %s", why)
				continue
			}
			ret := out.Ret[0]
			if !p.draws {
				r.Check(ret.Eq(p.lower) && arg == nil, "C30.2", cons, c.Pos(fd), "returns the clamped minimum "+p.lower.String(), fmt.Sprintf("returns %s, expected the clamped minimum %s", ret, p.lower))
				continue
			}
			if arg == nil {
				r.Bad("C30.2", cons, c.Pos(fd), "no draw although max ≥ clamped minimum")
				continue
			}
			// R in [0, arg-1]
			lowest := ret.Subst(map[string]Lin{"R": linConst(0)})
			highest := ret.Subst(map[string]Lin{"R": arg.AddC(-1)})
			r.Check(ret.T["R"] == 1 && lowest.Eq(p.lower) && highest.Eq(p.max), "C30.2", cons, c.Pos(fd),
				fmt.Sprintf("result = %s with R in [0,%s): bounds [%s, %s]", ret, arg, lowest, highest),
				fmt.Sprintf("result = %s with R in [0,%s) ranges over [%s, %s]; expected [%s, %s]", ret, arg, lowest, highest, p.lower, p.max))
		}
	}
	r.Floor("C30.2", 4)

	c30Coin(c)
	c30Lock(c)
	c30Determinism(c)
}

func c30Coin(c *Ctx) {
	r := c.R
	tls := c.P.TLS
	info := tls.TypesInfo
	fd := load.FuncDecl(tls, "prng", "FlipWeightedCoin")
	i63 := load.FuncDecl(tls, "prng", "Int63")
	if fd == nil || i63 == nil {
		r.Unknown("C30.3", "prng.FlipWeightedCoin", "", "not found")
		return
	}
	w := info.Defs[fd.Type.Params.List[0].Names[0]]
	isW := func(e ast.Expr) bool { id, ok := an.Unparen(e).(*ast.Ident); return ok && info.Uses[id] == w }
	isOne := func(e ast.Expr) bool {
		tv, ok := info.Types[an.Unparen(e)]
		return ok && tv.Value != nil && tv.Value.ExactString() == "1"
	}
	// clamp: if weight > 1 { weight = 1 }
	clamp := false
	ast.Inspect(fd.Body, func(n ast.Node) bool {
		is, ok := n.(*ast.IfStmt)
		if !ok {
			return true
		}
		be, ok := an.Unparen(is.Cond).(*ast.BinaryExpr)
		if ok && (be.Op == token.GTR || be.Op == token.GEQ) && isW(be.X) && isOne(be.Y) && len(is.Body.List) == 1 {
			if as, ok := is.Body.List[0].(*ast.AssignStmt); ok && len(as.Lhs) == 1 && isW(as.Lhs[0]) && isOne(as.Rhs[0]) {
				clamp = true
			}
		}
		return true
	})
	r.Check(clamp, "C30.3", "FlipWeightedCoin:clamp", c.Pos(fd), "weights above 1 are treated as 1", "weights above 1 are not clamped: 1-weight goes negative and... the documented contract (treated as 1.0) is not implemented")
	// draw f = float64(p.Int63()) / float64(math.MaxInt64)
	var fObj types.Object
	ast.Inspect(fd.Body, func(n ast.Node) bool {
		as, ok := n.(*ast.AssignStmt)
		if !ok || len(as.Lhs) != 1 || len(as.Rhs) != 1 {
			return true
		}
		be, ok := an.Unparen(as.Rhs[0]).(*ast.BinaryExpr)
		if !ok || be.Op != token.QUO {
			return true
		}
		num := an.Contains(be.X, an.CallTo(info, Mod, "prng", "Int63"))
		den := false
		ast.Inspect(be.Y, func(m ast.Node) bool {
			if e, ok := m.(ast.Expr); ok {
				if tv, ok := info.Types[e]; ok && tv.Value != nil && tv.Value.ExactString() == "9223372036854775807" {
					den = true
				}
			}
			return true
		})
		if num && den {
			if id, ok := as.Lhs[0].(*ast.Ident); ok {
				fObj = objOf(info, id)
			}
		}
		return true
	})
	r.Check(fObj != nil, "C30.3", "FlipWeightedCoin:draw", c.Pos(fd), "draw = Int63()/MaxInt64 ∈ [0,1]", "the draw is no longer Int63()/math.MaxInt64 (its range [0,1] is what makes weight 0 always false and weight 1 almost always true)")
	// return f > 1.0 - weight
	okRet := false
	for _, ret := range returnsOf(fd) {
		if len(ret.Results) != 1 {
			continue
		}
		be, ok := an.Unparen(ret.Results[0]).(*ast.BinaryExpr)
		if !ok {
			continue
		}
		l, rr, op := be.X, be.Y, be.Op
		if op == token.LSS {
			l, rr, op = rr, l, token.GTR
		}
		if op != token.GTR {
			continue
		}
		id, ok := an.Unparen(l).(*ast.Ident)
		if !ok || fObj == nil || info.Uses[id] != fObj {
			continue
		}
		if fwc := c.Fn("C30.3", "prng", "FlipWeightedCoin"); fwc != nil {
			rr = inlineLocal(fwc, rr) // threshold := 1.0 - weight
		}
		sub, ok := an.Unparen(rr).(*ast.BinaryExpr)
		if ok && sub.Op == token.SUB && isOne(sub.X) && isW(sub.Y) {
			okRet = true
		}
	}
	r.Check(okRet, "C30.3", "FlipWeightedCoin:decision", c.Pos(fd), "outcome = draw > 1 - weight (strict)", "the outcome is not the strict comparison draw > 1-weight: with ≥ a weight of 0 can yield true, with other forms the 0/1 corners change")
	// Int63: bit 63 is always clear
	val, _, prob := bvRun(c, i63, nil, func(e ast.Expr, w int) (BV, bool) {
		if call, ok := e.(*ast.CallExpr); ok && an.IsCallTo(info, call, Mod, "prng", "Uint64") {
			return bvInput("stream", 64), true
		}
		return BV{}, false
	})
	if prob != "" {
		r.Unknown("C30.3", "prng.Int63:non-negative", c.Pos(i63), "%s", prob)
	} else {
		okBits := val.Bits[63].kind == '0'
		for k := 0; k < 63; k++ {
			if !(val.Bits[k].kind == 'i' && val.Bits[k].idx == k) {
				okBits = false
			}
		}
		r.Check(okBits, "C30.3", "prng.Int63:non-negative", c.Pos(i63), "Int63 = stream value with bit 63 cleared: in [0, 2^63-1] for every stream value", "Int63 is not the stream value with only the sign bit cleared: "+val.String())
	}
	r.Floor("C30.3", 4)
}

func c30Lock(c *Ctx) {
	r := c.R
	tls := c.P.TLS
	info := tls.TypesInfo
	n := 0
	for _, fd := range load.AllFuncDecls(tls) {
		uses := false
		onlyLitKey := true
		ast.Inspect(fd.Body, func(x ast.Node) bool {
			if kv, ok := x.(*ast.KeyValueExpr); ok {
				if k, ok := kv.Key.(*ast.Ident); ok && k.Name == "randomStream" {
					uses = true
					ast.Inspect(kv.Value, func(ast.Node) bool { return true })
					return true
				}
			}
			if an.FieldSel(info, x, "prng", "randomStream") {
				uses = true
				onlyLitKey = false
			}
			return true
		})
		if !uses {
			continue
		}
		n++
		cons := load.RecvName(fd) + "." + fd.Name.Name
		if onlyLitKey {
			r.Ok("C30.4", cons, c.Pos(fd), "constructor: the stream is installed before the prng is shared")
			continue
		}
		// first two statements: p.randomStreamMutex.Lock(); defer p.randomStreamMutex.Unlock()
		okLock := false
		if len(fd.Body.List) >= 2 {
			if es, ok := fd.Body.List[0].(*ast.ExprStmt); ok {
				if call, ok := es.X.(*ast.CallExpr); ok {
					if se, ok := call.Fun.(*ast.SelectorExpr); ok && se.Sel.Name == "Lock" && an.FieldSel(info, an.Unparen(se.X), "prng", "randomStreamMutex") {
						if ds, ok := fd.Body.List[1].(*ast.DeferStmt); ok {
							if se2, ok := ds.Call.Fun.(*ast.SelectorExpr); ok && se2.Sel.Name == "Unlock" && an.FieldSel(info, an.Unparen(se2.X), "prng", "randomStreamMutex") {
								okLock = true
							}
						}
					}
				}
			}
		}
		r.Check(okLock, "C30.4", cons, c.Pos(fd), "randomStream is used with randomStreamMutex held from the first statement to return", "randomStream is used without holding randomStreamMutex for the whole call: concurrent Reads interleave on the SHAKE state")
	}
	r.Floor("C30.4", 2)
}

func c30Determinism(c *Ctx) {
	r := c.R
	tls := c.P.TLS
	info := tls.TypesInfo
	// functions under the rule: methods of prng and the seeded constructors
	isSeeded := func(fd *ast.FuncDecl) bool {
		if load.RecvName(fd) == "prng" {
			return true
		}
		switch fd.Name.Name {
		case "newPRNGWithSeed", "newPRNGWithSaltedSeed", "newSaltedPRNGSeed":
			return fd.Recv == nil
		}
		return false
	}
	n := 0
	for _, fd := range load.AllFuncDecls(tls) {
		if !isSeeded(fd) {
			continue
		}
		n++
		cons := fd.Name.Name
		if fd.Recv != nil {
			cons = "prng." + cons
		}
		bad := ""
		ast.Inspect(fd.Body, func(x ast.Node) bool {
			call, ok := x.(*ast.CallExpr)
			if !ok {
				return true
			}
			f, _ := an.Callee(info, call).(*types.Func)
			if f == nil || f.Pkg() == nil {
				return true
			}
			sig := f.Type().(*types.Signature)
			switch f.Pkg().Path() {
			case "crypto/rand":
				bad = "calls crypto/rand." + f.Name()
			case "time":
				if f.Name() == "Now" || f.Name() == "Since" {
					bad = "reads the clock (time." + f.Name() + ")"
				}
			case "math/rand", "math/rand/v2":
				if sig.Recv() == nil && f.Name() != "New" && f.Name() != "NewSource" {
					bad = "uses math/rand's global source (rand." + f.Name() + ")"
				}
				if sig.Recv() == nil && f.Name() == "New" && len(call.Args) == 1 {
					// the source must be the prng itself
					if t := an.TypeName(info.TypeOf(call.Args[0])); t != "prng" {
						bad = "builds the math/rand generator over " + t + " instead of the seeded prng"
					}
				}
			}
			return true
		})
		r.Check(bad == "", "C30.5", cons+":entropy", c.Pos(fd), "draws only from the seeded stream", cons+" "+bad+": the stream is no longer a function of the seed")
	}
	if n < 10 {
		r.Unknown("C30.5", "functions", "", "only %d seeded-PRNG functions found, 13 confirmed by hand", n)
	}
	// Read: fills b from the stream and reports len(b), nil
	if rd := load.FuncDecl(tls, "prng", "Read"); rd != nil {
		b := info.Defs[rd.Type.Params.List[0].Names[0]]
		fill := false
		ast.Inspect(rd.Body, func(x ast.Node) bool {
			call, ok := x.(*ast.CallExpr)
			if !ok {
				return true
			}
			f, _ := an.Callee(info, call).(*types.Func)
			if f != nil && f.Pkg() != nil && f.Pkg().Path() == "io" && f.Name() == "ReadFull" && len(call.Args) == 2 {
				if an.FieldSel(info, an.Unparen(call.Args[0]), "prng", "randomStream") {
					if id, ok := an.Unparen(call.Args[1]).(*ast.Ident); ok && info.Uses[id] == b {
						fill = true
					}
				}
			}
			return true
		})
		okRet := false
		for _, ret := range returnsOf(rd) {
			if len(ret.Results) == 2 && an.IsNilIdent(info, ret.Results[1]) {
				if lc, ok := an.Unparen(ret.Results[0]).(*ast.CallExpr); ok && len(lc.Args) == 1 {
					if id, ok := lc.Fun.(*ast.Ident); ok && id.Name == "len" {
						if a, ok := an.Unparen(lc.Args[0]).(*ast.Ident); ok && info.Uses[a] == b {
							okRet = true
						}
					}
				}
			}
		}
		r.Check(fill && okRet, "C30.5", "prng.Read:fills-buffer", c.Pos(rd), "the whole buffer is filled from the stream and (len(b), nil) is returned", "Read does not fill the caller's whole buffer from the stream / report len(b): consumers would see stale or short data")
	}
	// salted seed depends on (seed, salt) only
	if ss := load.FuncDecl(tls, "", "newSaltedPRNGSeed"); ss != nil {
		seed := info.Defs[ss.Type.Params.List[0].Names[0]]
		salt := info.Defs[ss.Type.Params.List[1].Names[0]]
		ok := false
		ast.Inspect(ss.Body, func(x ast.Node) bool {
			call, isC := x.(*ast.CallExpr)
			if !isC {
				return true
			}
			f, _ := an.Callee(info, call).(*types.Func)
			if f != nil && f.Pkg() != nil && strings.HasSuffix(f.Pkg().Path(), "crypto/hkdf") && f.Name() == "New" && len(call.Args) == 4 {
				if an.MentionsObj(info, call.Args[1], seed) && an.MentionsObj(info, call.Args[2], salt) && an.IsNilIdent(info, call.Args[3]) {
					ok = true
				}
			}
			return true
		})
		r.Check(ok, "C30.5", "newSaltedPRNGSeed:function-of-seed-and-salt", c.Pos(ss), "HKDF(secret=seed, salt=salt, info=nil)", "the salted seed is not derived as HKDF over exactly (seed, salt)")
	}
	// Uint64 draws 8 bytes through Read
	if u := load.FuncDecl(tls, "prng", "Uint64"); u != nil {
		viaRead := an.Contains(u.Body, an.CallTo(info, Mod, "prng", "Read"))
		be := false
		ast.Inspect(u.Body, func(x ast.Node) bool {
			if call, ok := x.(*ast.CallExpr); ok {
				if f, _ := an.Callee(info, call).(*types.Func); f != nil && f.Pkg() != nil && f.Pkg().Path() == "encoding/binary" && f.Name() == "Uint64" {
					be = true
				}
			}
			return true
		})
		r.Check(viaRead && be, "C30.5", "prng.Uint64:from-stream", c.Pos(u), "8 stream bytes through Read", "Uint64 does not take its bytes from the seeded stream")
	}
	r.Floor("C30.5", 12)
}
