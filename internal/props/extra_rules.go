package props

// Rules added after independently written breaking changes (seeded/) showed a gap.
// Each rule names the seeded change that motivated it.

import (
	"fmt"
	"go/ast"
	"go/token"
	"go/types"
	"strings"

	"verif/internal/an"
	"verif/internal/load"
	"verif/internal/report"
)

func init() {
	registerExtra("C19", c19EvictionRule)
	registerExtra("C20", c20PresetReapplied)
	registerExtra("C21", c21ReaderRules)
	registerExtra("C31", c31ConverterReturns)
}

// ---- C19.7 (seeded C19-2): a failed resumption always throws the cached session away ----------

func c19EvictionRule(c *Ctx) {
	r := c.R
	info := c.Info()
	for _, site := range []struct{ recv, name string }{{"UConn", "clientHandshake"}, {"Conn", "clientHandshake"}} {
		fn := c.Fn("C19.7", site.recv, site.name)
		if fn == nil {
			continue
		}
		cons := site.recv + "." + site.name + ":evict-on-failed-resumption"
		// the defer whose body calls ClientSessionCache.Put(key, nil)
		var deferPts []an.Hit
		for _, h := range fn.FindNodes(func(n ast.Node) bool {
			ds, ok := n.(*ast.DeferStmt)
			if !ok {
				return false
			}
			return an.Contains(ds.Call, func(m ast.Node) bool {
				call, ok := m.(*ast.CallExpr)
				if !ok || len(call.Args) != 2 || !an.IsNilIdent(info, call.Args[1]) {
					return false
				}
				se, ok := call.Fun.(*ast.SelectorExpr)
				return ok && se.Sel.Name == "Put" && an.MentionsField(info, se.X, "Config", "ClientSessionCache")
			})
		}) {
			deferPts = append(deferPts, h)
		}
		if len(deferPts) == 0 {
			r.Bad("C19.7", cons, c.Pos(fn.Decl), "no deferred eviction of the cached session on a failed handshake: a corrupted or rejected session is offered again on every later connection")
			continue
		}
		for _, d := range deferPts {
			// registered whenever a session is being offered: the only controlling condition is session != nil
			sessionVar := func(a ast.Expr) bool {
				be, ok := an.Unparen(a).(*ast.BinaryExpr)
				if !ok || be.Op != token.NEQ || !an.IsNilIdent(info, be.Y) {
					return false
				}
				return an.TypeName(info.TypeOf(be.X)) == "SessionState"
			}
			errNil := func(a ast.Expr) bool {
				be, ok := an.Unparen(a).(*ast.BinaryExpr)
				if !ok || !an.IsNilIdent(info, be.Y) {
					return false
				}
				t := info.TypeOf(be.X)
				return t != nil && t.String() == "error"
			}
			// conditions that merely abort the handshake before this point (early error returns,
			// config validation) are not guards of the registration: only count conditions whose
			// other outcome continues the handshake (reaches the first record write)
			writes := fn.Find(an.CallTo(info, Mod, "Conn", "writeHandshakeRecord"))
			var offending []string
			for _, cc := range controllingConds(fn, d.P) {
				// does the other outcome still reach a handshake write?
				var other an.Edge
				t, f, _ := an.CondEdges(cc.at.B)
				if cc.outcome {
					other = f
				} else {
					other = t
				}
				reach := fn.Reach(cc.at, nil, edgesExcept(other))
				continues := false
				for _, w := range writes {
					if reach[w] {
						continues = true
					}
				}
				if !continues {
					continue
				}
				for _, a := range condAtoms(cc.cond) {
					if !sessionVar(a) && !errNil(a) {
						offending = append(offending, an.Str(a))
					}
				}
			}
			r.Check(len(offending) == 0, "C19.7", cons, c.Pos(d.N), "the eviction is registered whenever a session is offered (guard: session != nil)",
				fmt.Sprintf("the deferred eviction of a failed session is additionally guarded by %v: on those connections a broken cached session is never dropped and every following handshake fails the same way", offending))
		}
	}
	r.Floor("C19.7", 2)
}

// ---- C20.8 (seeded C20-1): the preset (and with it the injected session extension) is re-applied
// on every build until the hello is final -------------------------------------------------------

func c20PresetReapplied(c *Ctx) {
	r := c.R
	info := c.Info()
	fn := c.Fn("C20.8", "UConn", "buildHandshakeState")
	if fn == nil {
		return
	}
	calls := fn.Find(an.CallTo(info, Mod, "UConn", "applyPresetByID"))
	if len(calls) == 0 {
		r.Bad("C20.8", "buildHandshakeState:applyPresetByID", c.Pos(fn.Decl), "buildHandshakeState no longer applies the preset")
		return
	}
	for _, p := range calls {
		ok, bad := exactGuard(fn, p, func(a ast.Expr) bool {
			be, isB := an.Unparen(a).(*ast.BinaryExpr)
			if !isB {
				return false
			}
			if an.FieldSel(info, an.Unparen(be.X), "UConn", "clientHelloBuildStatus") {
				return true
			}
			if an.FieldSel(info, an.Unparen(be.X), "UConn", "ClientHelloID") {
				return true
			}
			return false
		})
		r.Check(ok, "C20.8", "buildHandshakeState:applyPresetByID-guard", c.PosP(p), "the preset is (re-)applied whenever the hello is not yet built (guards: ClientHelloID, clientHelloBuildStatus)",
			"applying the preset is additionally guarded by "+bad+": after BuildHandshakeStateWithoutSession a session extension set by the user is never swapped into uconn.Extensions, so it is not on the wire")
	}
	// applyPresetByID itself always reaches ApplyPreset (spec generation is what is done once)
	ap := c.Fn("C20.8", "UConn", "applyPresetByID")
	if ap != nil {
		okAll := true
		apply := ap.Find(an.CallTo(info, Mod, "UConn", "ApplyPreset"))
		for _, ret := range ap.Returns() {
			rs := ret.Node().(*ast.ReturnStmt)
			if len(rs.Results) == 1 && an.Contains(rs.Results[0], an.CallTo(info, Mod, "UConn", "ApplyPreset")) {
				continue
			}
			if returnsError(ap, rs) {
				continue
			}
			// `return nil` for helloCustom is the one legitimate success exit without ApplyPreset
			custom, _, _ := condEdges(ap, func(cond ast.Expr) (bool, bool) {
				id, ok := an.Unparen(cond).(*ast.Ident)
				return ok && id.Name == "helloCustom", true
			})
			if !ap.MustPass(ret, apply, custom) {
				okAll = false
			}
		}
		r.Check(okAll && len(apply) > 0, "C20.8", "applyPresetByID:always-applies", c.Pos(ap.Decl), "every successful exit (except HelloCustom without a spec) goes through ApplyPreset", "applyPresetByID can succeed without calling ApplyPreset: session extensions are not synchronised into uconn.Extensions")
	}
	r.Floor("C20.8", 2)
}

// ---- C21.6 / C21.7 (seeded C21-1, C21-2) -------------------------------------------------------

func c21ReaderRules(c *Ctx) {
	r := c.R
	info := c.Info()
	fn := c.Fn("C21.6", "clientHandshakeStateTLS13", "decompressCert")
	if fn == nil {
		return
	}
	limit, _ := constOf(c, "maxHandshakeCertificateMsg")
	n := 0
	for _, h := range fn.FindNodes(func(x ast.Node) bool {
		call, ok := x.(*ast.CallExpr)
		if !ok {
			return false
		}
		f, _ := an.Callee(info, call).(*types.Func)
		if f == nil || f.Pkg() == nil || f.Name() != "NewReader" {
			return false
		}
		p := f.Pkg().Path()
		return strings.HasSuffix(p, "brotli") || p == "compress/zlib" || strings.HasSuffix(p, "compress/zstd")
	}) {
		n++
		call := h.N.(*ast.CallExpr)
		cons := "decompressCert:" + an.Str(call.Fun) + ":options"
		bad := ""
		for _, a := range call.Args[1:] {
			oc, ok := an.Unparen(a).(*ast.CallExpr)
			if !ok {
				bad = "a non-literal decoder option " + an.Str(a)
				continue
			}
			of, _ := an.Callee(info, oc).(*types.Func)
			if of == nil || !strings.Contains(of.Name(), "Max") {
				continue
			}
			for _, oa := range oc.Args {
				if v, ok := an.ConstInt(info, oa); ok && v < limit {
					bad = fmt.Sprintf("%s(%d) bounds the decoder below the %d-byte certificate message limit", of.Name(), v, limit)
				}
			}
		}
		r.Check(bad == "", "C21.6", cons, c.Pos(call), "the decoder is not restricted below the certificate message limit", "the decompressor is created with "+bad+": valid compressed encodings of large (or large-window) certificate messages are rejected")
	}
	if n == 0 {
		r.Unknown("C21.6", "decompressCert:decoders", c.Pos(fn.Decl), "no decompressor constructor found")
	}
	// C21.7: the reader that is probed for trailing data must not be capped at the declared length
	msgParam := info.Defs[fn.Decl.Type.Params.List[0].Names[0]]
	for _, h := range fn.FindNodes(func(x ast.Node) bool {
		call, ok := x.(*ast.CallExpr)
		if !ok {
			return false
		}
		f, _ := an.Callee(info, call).(*types.Func)
		return f != nil && f.Pkg() != nil && f.Pkg().Path() == "io" && f.Name() == "LimitReader" && len(call.Args) == 2
	}) {
		call := h.N.(*ast.CallExpr)
		// limit as a linear form over u = m.uncompressedLength
		le := &linExec{info: info, vars: map[types.Object]Lin{}}
		le.call = func(cl *ast.CallExpr, args []Lin) (Lin, bool) { return Lin{}, false }
		var eval func(e ast.Expr) (Lin, bool)
		eval = func(e ast.Expr) (Lin, bool) {
			e = an.Unparen(e)
			if se, ok := e.(*ast.SelectorExpr); ok && se.Sel.Name == "uncompressedLength" {
				if id, ok := an.Unparen(se.X).(*ast.Ident); ok && info.Uses[id] == msgParam {
					return linAtom("u"), true
				}
			}
			if v, ok := an.ConstInt(info, e); ok {
				return linConst(v), true
			}
			switch x := e.(type) {
			case *ast.CallExpr:
				if tv, ok := info.Types[x.Fun]; ok && tv.IsType() && len(x.Args) == 1 {
					return eval(x.Args[0])
				}
			case *ast.BinaryExpr:
				a, ok1 := eval(x.X)
				b, ok2 := eval(x.Y)
				if ok1 && ok2 {
					switch x.Op {
					case token.ADD:
						return a.Add(b), true
					case token.SUB:
						return a.Sub(b), true
					}
				}
			}
			return Lin{}, false
		}
		l, ok := eval(call.Args[1])
		cons := "decompressCert:LimitReader"
		if !ok {
			r.Unknown("C21.7", cons, c.Pos(call), "limit %s is not a linear form of the declared length", an.Str(call.Args[1]))
			continue
		}
		// the limit must allow at least one byte beyond the declared length to be observed
		tooTight := l.T["u"] == 1 && l.C <= 0 || (l.IsConst())
		if l.IsConst() {
			tooTight = false // a constant cap (e.g. the message limit + 1) does not hide trailing data below it
		}
		r.Check(!tooTight, "C21.7", cons, c.Pos(call), "the cap leaves room to observe data beyond the declared length", "the decompressor is wrapped in io.LimitReader("+l.String()+"): the probe for data beyond uncompressed_length always sees EOF, so a message longer than declared is truncated and accepted")
	}
	r.Ok("C21.7", "decompressCert:limit-readers", c.Pos(fn.Decl), "no length cap hides trailing decompressed data")
	r.Floor("C21.6", 3)
}

// ---- C31.4 (seeded C31-2): a converter's result is always freshly mapped from the current fields --

func c31ConverterReturns(c *Ctx) {
	r := c.R
	tls := c.P.TLS
	info := tls.TypesInfo
	n := 0
	for _, fd := range load.AllFuncDecls(tls) {
		if fd.Recv == nil || !isConverterName(fd.Name.Name) {
			continue
		}
		fm := extractFieldMap(tls, fd)
		if fm == nil {
			continue
		}
		n++
		who := load.RecvName(fd) + "." + fd.Name.Name
		// locals bound to the mapped literal
		mapped := map[types.Object]bool{}
		ast.Inspect(fd.Body, func(x ast.Node) bool {
			as, ok := x.(*ast.AssignStmt)
			if !ok || len(as.Lhs) != 1 || len(as.Rhs) != 1 {
				return true
			}
			rhs := an.Unparen(as.Rhs[0])
			if u, ok := rhs.(*ast.UnaryExpr); ok && u.Op == token.AND {
				rhs = an.Unparen(u.X)
			}
			if cl, ok := rhs.(*ast.CompositeLit); ok && an.TypeName(info.TypeOf(cl)) == fm.dstType && len(cl.Elts) > 0 {
				if id, ok := as.Lhs[0].(*ast.Ident); ok {
					mapped[objOf(info, id)] = true
				}
			}
			return true
		})
		bad := ""
		for _, ret := range returnsOf(fd) {
			if len(ret.Results) != 1 {
				continue
			}
			e := an.Unparen(ret.Results[0])
			if an.IsNilIdent(info, e) {
				continue
			}
			if u, ok := e.(*ast.UnaryExpr); ok && u.Op == token.AND {
				e = an.Unparen(u.X)
			}
			switch x := e.(type) {
			case *ast.CompositeLit:
				continue // the mapped literal or the zero value
			case *ast.Ident:
				if mapped[objOf(info, x)] {
					continue
				}
				// slice accumulators (ToPublic/ToPrivate over lists)
				if _, isSlice := info.TypeOf(x).Underlying().(*types.Slice); isSlice {
					continue
				}
			}
			bad = an.Str(ret.Results[0])
		}
		r.Check(bad == "", "C31.4", who+":returns-fresh-mapping", c.Pos(fd), "every result is the value mapped from the receiver's current fields", who+" can return "+bad+" instead of a value mapped from the current fields: edits made to the view since an earlier conversion are lost")
	}
	if n < 20 {
		r.Unknown("C31.4", "converters", "", "only %d converters analysed", n)
	}
	r.Floor("C31.4", 20)
}

func init() { registerExtra("C32", c32PaddingJSON) }

// ---- C32.6 (seeded C32-2): a JSON padding entry always yields an extension that is emitted -------
func c32PaddingJSON(c *Ctx) {
	r := c.R
	info := c.Info()
	fn := c.Fn("C32.6", "UtlsPaddingExtension", "UnmarshalJSON")
	if fn == nil {
		return
	}
	policy := fn.Find(an.AssignsTo(func(e ast.Expr) bool {
		return an.FieldSel(info, an.Unparen(e), "UtlsPaddingExtension", "GetPaddingLen")
	}))
	willPad := fn.Find(func(n ast.Node) bool {
		as, ok := n.(*ast.AssignStmt)
		if !ok || len(as.Lhs) != 1 || len(as.Rhs) != 1 || !an.FieldSel(info, an.Unparen(as.Lhs[0]), "UtlsPaddingExtension", "WillPad") {
			return false
		}
		id, ok := an.Unparen(as.Rhs[0]).(*ast.Ident)
		return ok && id.Name == "true"
	})
	via := append(append([]an.Point{}, policy...), willPad...)
	ok := len(via) > 0
	for _, ret := range fn.Returns() {
		if returnsError(fn, ret.Node().(*ast.ReturnStmt)) {
			continue
		}
		if !fn.MustPass(ret, via, nil) {
			ok = false
		}
	}
	r.Check(ok, "C32.6", "UtlsPaddingExtension.UnmarshalJSON:emitted", c.Pos(fn.Decl), "every successful path installs a padding policy or a fixed length with WillPad set (the encoder emits nothing while WillPad is false and no policy runs)",
		"a JSON padding entry can be accepted without a policy and without WillPad: the extension silently disappears from the hello, unlike the raw-bytes import of the same ClientHello")
	// and a fixed length is stored when WillPad is set by the decoder
	for _, w := range willPad {
		pl := fn.Find(an.AssignsTo(func(e ast.Expr) bool { return an.FieldSel(info, an.Unparen(e), "UtlsPaddingExtension", "PaddingLen") }))
		okLen := false
		for _, p := range pl {
			if p.B == w.B {
				okLen = true
			}
		}
		r.Check(okLen, "C32.6", "UtlsPaddingExtension.UnmarshalJSON:length-with-willpad", c.PosP(w), "WillPad is set together with the JSON length", "WillPad is set without storing the JSON length")
	}
	r.Floor("C32.6", 1)
}

func init() {
	registerExtra("C01", c01Setters)
	registerExtra("C04", c04RewriteGuards)
}

// isBoolAtom: a genuine boolean test (comparison, call, negation, bool variable) as opposed to
// the pseudo-conditions go/cfg creates for range keys and type-switch cases.
func isBoolAtom(info *types.Info, a ast.Expr) bool {
	t := info.TypeOf(a)
	if t == nil {
		return false
	}
	if tv, ok := info.Types[a]; ok && tv.IsType() {
		return false
	}
	b, ok := t.Underlying().(*types.Basic)
	return ok && b.Info()&types.IsBoolean != 0
}

// ---- C01.6 (seeded C01-2): documented edits reach the state the marshaller reads ---------------
func c01Setters(c *Ctx) {
	r := c.R
	info := c.Info()
	if fn := c.Fn("C01.6", "UConn", "SetSNI"); fn != nil {
		param := info.Defs[fn.Decl.Type.Params.List[0].Names[0]]
		// value stored: derived from the parameter (directly or through one local)
		fromParam := func(e ast.Expr) bool {
			if an.MentionsObj(info, e, param) {
				return true
			}
			id, ok := an.Unparen(e).(*ast.Ident)
			if !ok {
				return false
			}
			o := objOf(info, id)
			found := false
			ast.Inspect(fn.Body, func(n ast.Node) bool {
				as, ok := n.(*ast.AssignStmt)
				if ok && len(as.Lhs) == 1 && len(as.Rhs) == 1 {
					if l, ok := as.Lhs[0].(*ast.Ident); ok && objOf(info, l) == o && an.MentionsObj(info, as.Rhs[0], param) {
						found = true
					}
				}
				return true
			})
			return found
		}
		stores := fn.FindNodes(func(n ast.Node) bool {
			as, ok := n.(*ast.AssignStmt)
			return ok && len(as.Lhs) == 1 && an.FieldSel(info, an.Unparen(as.Lhs[0]), "SNIExtension", "ServerName")
		})
		if len(stores) == 0 {
			r.Bad("C01.6", "SetSNI:extension-updated", c.Pos(fn.Decl), "SetSNI no longer updates the SNI extension that is marshalled")
		}
		for _, s := range stores {
			as := s.N.(*ast.AssignStmt)
			var offending []string
			for _, cc := range controllingConds(fn, s.P) {
				for _, a := range condAtoms(cc.cond) {
					if !isBoolAtom(info, a) {
						continue
					}
					if id, ok := an.Unparen(a).(*ast.Ident); ok && id.Name == "ok" {
						continue // the type assertion's ok
					}
					offending = append(offending, an.Str(a))
				}
			}
			r.Check(fromParam(as.Rhs[0]) && len(offending) == 0, "C01.6", "SetSNI:extension-updated", c.Pos(as), "every SNI extension receives the new name unconditionally",
				fmt.Sprintf("the SNI extension is updated only when %v holds (or not from the argument): for other arguments (an IP literal, an empty name) the previous name stays in the ClientHello", offending))
		}
		cfg := fn.Find(an.AssignsTo(func(e ast.Expr) bool { return an.FieldSel(info, an.Unparen(e), "Config", "ServerName") }))
		okCfg := len(cfg) > 0
		for _, p := range cfg {
			for _, cc := range controllingConds(fn, p) {
				for _, a := range condAtoms(cc.cond) {
					if isBoolAtom(info, a) {
						okCfg = false
					}
				}
			}
		}
		r.Check(okCfg, "C01.6", "SetSNI:config-updated", c.Pos(fn.Decl), "Config.ServerName follows SetSNI unconditionally", "SetSNI does not always update Config.ServerName (verification name and SNI can diverge)")
	}
	if fn := c.Fn("C01.6", "UConn", "SetClientRandom"); fn != nil {
		param := info.Defs[fn.Decl.Type.Params.List[0].Names[0]]
		okCopy := false
		// the bytes reach Hello.Random either by copy(<Random or a local later stored there>, r) or by
		// an assignment whose value derives from r; single-definition locals are read through
		fromParam := func(e ast.Node) bool { return mentionsThroughLocals(fn, e, param, 0) }
		isRandom := func(e ast.Expr) bool { return an.MentionsField(info, e, "PubClientHelloMsg", "Random") }
		storedLocals := map[types.Object]bool{}
		ast.Inspect(fn.Body, func(n ast.Node) bool {
			as, ok := n.(*ast.AssignStmt)
			if ok && len(as.Lhs) == 1 && len(as.Rhs) == 1 && an.FieldSel(info, an.Unparen(as.Lhs[0]), "PubClientHelloMsg", "Random") {
				if fromParam(as.Rhs[0]) {
					okCopy = true
				}
				if id, ok := an.Unparen(as.Rhs[0]).(*ast.Ident); ok {
					storedLocals[objOf(info, id)] = true
				}
			}
			return true
		})
		ast.Inspect(fn.Body, func(n ast.Node) bool {
			call, ok := n.(*ast.CallExpr)
			if !ok || len(call.Args) != 2 {
				return true
			}
			if id, ok := call.Fun.(*ast.Ident); ok && id.Name == "copy" && fromParam(call.Args[1]) {
				if isRandom(call.Args[0]) {
					okCopy = true
				}
				if d, ok := an.Unparen(call.Args[0]).(*ast.Ident); ok && storedLocals[objOf(info, d)] {
					okCopy = true
				}
			}
			return true
		})
		r.Check(okCopy, "C01.6", "SetClientRandom:stored", c.Pos(fn.Decl), "the given random is stored in Hello.Random", "SetClientRandom does not store the caller's bytes in Hello.Random")
	}
	r.Floor("C01.6", 3)
}

// ---- C04.5 (seeded C04-2): a GREASE placeholder is substituted whatever else the element carries --
func c04RewriteGuards(c *Ctx) {
	r := c.R
	info := c.Info()
	fn := c.Fn("C04.5", "UConn", "ApplyPreset")
	if fn == nil {
		return
	}
	n := 0
	for _, h := range fn.FindNodes(func(x ast.Node) bool {
		as, ok := x.(*ast.AssignStmt)
		return ok && len(as.Rhs) == 1 && an.Contains(as.Rhs[0], an.CallTo(info, Mod, "", "GetBoringGREASEValue"))
	}) {
		as := h.N.(*ast.AssignStmt)
		// only element rewrites of code-point lists (not the seed handling)
		lhs := as.Lhs[0]
		if !(an.MentionsField(info, lhs, "PubClientHelloMsg", "CipherSuites") || an.MentionsField(info, lhs, "SupportedCurvesExtension", "Curves") ||
			an.MentionsField(info, lhs, "SupportedVersionsExtension", "Versions") || an.MentionsField(info, lhs, "KeyShare", "Group")) {
			continue
		}
		n++
		var offending []string
		for _, cc := range controllingConds(fn, h.P) {
			for _, a := range condAtoms(cc.cond) {
				if !isBoolAtom(info, a) {
					continue
				}
				x, _ := negated(a)
				if call, ok := x.(*ast.CallExpr); ok && an.IsCallTo(info, call, Mod, "", "isGREASEUint16") {
					continue
				}
				if be, ok := an.Unparen(a).(*ast.BinaryExpr); ok && an.IsNilIdent(info, be.Y) {
					if t := info.TypeOf(be.X); t != nil && t.String() == "error" {
						continue
					}
				}
				offending = append(offending, an.Str(a))
			}
		}
		r.Check(len(offending) == 0, "C04.5", "ApplyPreset:grease-substitution:"+shortExpr(lhs), c.Pos(as), "the placeholder is replaced whenever the element is GREASE, independent of anything else",
			fmt.Sprintf("the GREASE substitution of %s additionally depends on %v: when that fails the placeholder 0x0a0a itself is sent (it does not vary and, for key_share, differs from the GREASE group in supported_groups)", an.Str(lhs), offending))
	}
	if n < 4 {
		r.Unknown("C04.5", "ApplyPreset:grease-substitutions", c.Pos(fn.Decl), "found %d GREASE substitutions, 4 confirmed by hand", n)
	}
	r.Floor("C04.5", 4)
}

func init() {
	registerExtra("C05", func(c *Ctx) { sliceInsertAliasRule(c, "C05.5", []string{"ClientHelloSpec.AlwaysAddPadding"}) })
	registerExtra("C17", func(c *Ctx) {
		sliceInsertAliasRule(c, "C17.9", []string{"clientHandshakeStateTLS13.processHelloRetryRequest"})
	})
	registerExtra("C02", func(c *Ctx) { sliceInsertAliasRule(c, "C02.7", nil) })
}

// sliceInsertAliasRule (seeded C05-2, C17-2): inserting into the middle of a slice with
// append(append(s[:i], x), s[i:]...) overwrites s[i] in the shared backing array before the tail is
// read: one element is lost and the inserted one appears twice. Only the copying forms are accepted.
// funcs == nil: every function of the uTLS sources.
func sliceInsertAliasRule(c *Ctx, rule string, funcs []string) {
	r := c.R
	tls := c.P.TLS
	info := tls.TypesInfo
	want := map[string]bool{}
	for _, f := range funcs {
		want[f] = true
	}
	n := 0
	for _, fd := range load.AllFuncDecls(tls) {
		who := load.RecvName(fd) + "." + fd.Name.Name
		if funcs != nil && !want[who] {
			continue
		}
		if funcs == nil && !strings.Contains(c.P.Fset.Position(fd.Pos()).Filename, "/u_") {
			continue
		}
		ast.Inspect(fd.Body, func(x ast.Node) bool {
			outer, ok := x.(*ast.CallExpr)
			if ok {
				if f, _ := an.Callee(info, outer).(*types.Func); f != nil && f.Pkg() != nil && f.Pkg().Path() == "slices" && f.Name() == "Insert" {
					n++
					r.Ok(rule, who+":insert@slices.Insert", c.Pos(outer), "slices.Insert moves the tail before writing the new element")
					return true
				}
			}
			if !ok || !isAppend(info, outer) || len(outer.Args) != 2 || !outer.Ellipsis.IsValid() {
				return true
			}
			tail, ok := an.Unparen(outer.Args[1]).(*ast.SliceExpr)
			if !ok || tail.Low == nil {
				return true
			}
			n++
			inner, ok := an.Unparen(outer.Args[0]).(*ast.CallExpr)
			cons := who + ":insert@" + shortExpr(tail)
			if ok && isAppend(info, inner) && len(inner.Args) >= 1 {
				if head, ok := an.Unparen(inner.Args[0]).(*ast.SliceExpr); ok && head.Low == nil && head.High != nil &&
					an.Str(head.X) == an.Str(tail.X) && an.Str(head.High) == an.Str(tail.Low) {
					r.Bad(rule, cons, c.Pos(outer), "append(append(%s[:%s], …), %s[%s:]...) writes the inserted element over %s[%s] before the tail is read (shared backing array): one element is dropped and the inserted one is duplicated", an.Str(head.X), an.Str(head.High), an.Str(tail.X), an.Str(tail.Low), an.Str(tail.X), an.Str(tail.Low))
					return true
				}
			}
			r.Ok(rule, cons, c.Pos(outer), "the tail is appended to a slice that does not alias it")
			return true
		})
	}
	r.Count(rule+"_insert_sites", n)
	if funcs != nil && n == 0 {
		r.Unknown(rule, strings.Join(funcs, ","), "", "no slice insertion found in the anchored function")
	}
}

func isAppend(info *types.Info, call *ast.CallExpr) bool {
	id, ok := call.Fun.(*ast.Ident)
	if !ok || id.Name != "append" {
		return false
	}
	_, isB := info.Uses[id].(*types.Builtin)
	return isB
}

// ---- C08.8 (seeded C08-3): a memoised Len() is only stored once the extension is initialised ---

func init() { registerExtra("C08", c08MemoRule) }

// c08MemoRule: an extension whose Len() stores its result in a receiver field (a memo) and
// whose IsInitialized() is `return e.F != nil` must not reach that store while e.F == nil:
// the length computed before initialisation (0) would be served for the initialised
// extension, and Len() would disagree with the bytes Read() writes.
func c08MemoRule(c *Ctx) {
	r := c.R
	tls := c.P.TLS
	info := tls.TypesInfo
	n := 0
	for _, fd := range load.AllFuncDecls(tls) {
		if fd.Name.Name != "Len" || fd.Recv == nil || fd.Body == nil {
			continue
		}
		T := load.RecvName(fd)
		initFd := load.FuncDecl(tls, T, "IsInitialized")
		if initFd == nil || initFd.Body == nil || len(initFd.Body.List) != 1 {
			continue
		}
		rs, ok := initFd.Body.List[0].(*ast.ReturnStmt)
		if !ok || len(rs.Results) != 1 {
			continue
		}
		be, ok := an.Unparen(rs.Results[0]).(*ast.BinaryExpr)
		if !ok || be.Op != token.NEQ || !an.IsNilIdent(info, be.Y) {
			continue
		}
		sel, ok := an.Unparen(be.X).(*ast.SelectorExpr)
		if !ok {
			continue
		}
		field := sel.Sel.Name
		fn := an.NewFn(tls, fd)
		recvObj := types.Object(nil)
		if len(fd.Recv.List) == 1 && len(fd.Recv.List[0].Names) == 1 {
			recvObj = info.Defs[fd.Recv.List[0].Names[0]]
		}
		if recvObj == nil {
			continue
		}
		isRecvField := func(e ast.Expr, name string) bool {
			s, ok := an.Unparen(e).(*ast.SelectorExpr)
			if !ok || (name != "" && s.Sel.Name != name) {
				return false
			}
			id, ok := an.Unparen(s.X).(*ast.Ident)
			return ok && objOf(info, id) == recvObj
		}
		// memo stores: e.f = …
		stores := fn.Find(func(x ast.Node) bool {
			as, ok := x.(*ast.AssignStmt)
			if !ok {
				return false
			}
			for _, l := range as.Lhs {
				if isRecvField(l, "") {
					return true
				}
			}
			return false
		})
		if len(stores) == 0 {
			continue
		}
		pass, _, _ := condEdges(fn, func(cond ast.Expr) (bool, bool) {
			b, ok := an.Unparen(cond).(*ast.BinaryExpr)
			if !ok || (b.Op != token.NEQ && b.Op != token.EQL) {
				return false, false
			}
			x, y := b.X, b.Y
			if an.IsNilIdent(info, x) {
				x, y = y, x
			}
			if !an.IsNilIdent(info, y) || !isRecvField(x, field) {
				return false, false
			}
			return true, b.Op == token.NEQ
		})
		for _, st := range stores {
			n++
			cons := T + ".Len:memo-after-init"
			r.Check(fn.MustPass(st, nil, pass), "C08.8", cons, c.PosP(st),
				"the memo store is reached only with e."+field+" != nil (IsInitialized)",
				"Len() stores its memo on a path where e."+field+" may still be nil: the length of the uninitialised extension is cached and later served for the initialised one, so Len() disagrees with what Read() writes")
		}
	}
	r.Count("C08.8_memo_stores", n)
	r.Floor("C08.8", 1)
}

// ---- C09.8 (seeded C09-1): the in-place RC4 filter visits every element ---------------------

func init() { registerExtra("C09", c09FilterLoop) }

// c09FilterLoop: removeRC4Ciphers must remove every match. Accepted idioms: slices.DeleteFunc;
// a loop that appends the kept elements to another slice (no in-place delete); a backward
// index loop with the in-place delete; a forward index loop whose delete branch steps the
// index back (i--) before the post statement. A forward loop that deletes s[i] and then
// advances skips the element that moved into position i: two adjacent RC4 suites leave one.
func c09FilterLoop(c *Ctx) {
	r := c.R
	tls := c.P.TLS
	info := tls.TypesInfo
	fd := load.FuncDecl(tls, "", "removeRC4Ciphers")
	if fd == nil || fd.Body == nil {
		r.Unknown("C09.8", "removeRC4Ciphers", "", "function not found")
		return
	}
	cons := "removeRC4Ciphers:visits-every-element"
	usesDeleteFunc := false
	var deletes []*ast.AssignStmt
	var loops []*ast.ForStmt
	ast.Inspect(fd.Body, func(n ast.Node) bool {
		switch x := n.(type) {
		case *ast.CallExpr:
			if f, _ := an.Callee(info, x).(*types.Func); f != nil && f.Pkg() != nil && f.Pkg().Path() == "slices" && f.Name() == "DeleteFunc" {
				usesDeleteFunc = true
			}
		case *ast.ForStmt:
			loops = append(loops, x)
		case *ast.AssignStmt:
			if len(x.Lhs) == 1 && len(x.Rhs) == 1 {
				if call, ok := an.Unparen(x.Rhs[0]).(*ast.CallExpr); ok && isAppend(info, call) && len(call.Args) == 2 && call.Ellipsis.IsValid() {
					h, ok1 := an.Unparen(call.Args[0]).(*ast.SliceExpr)
					t, ok2 := an.Unparen(call.Args[1]).(*ast.SliceExpr)
					if ok1 && ok2 && h.Low == nil && h.High != nil && t.Low != nil && t.High == nil && an.Str(h.X) == an.Str(t.X) {
						if be, ok := an.Unparen(t.Low).(*ast.BinaryExpr); ok && be.Op == token.ADD && an.Str(be.X) == an.Str(h.High) {
							if v, ok := an.ConstInt(info, be.Y); ok && v == 1 {
								deletes = append(deletes, x)
							}
						}
					}
				}
			}
		}
		return true
	})
	switch {
	case usesDeleteFunc && len(deletes) == 0:
		r.Ok("C09.8", cons, c.Pos(fd), "slices.DeleteFunc")
	case len(deletes) == 0:
		r.Ok("C09.8", cons, c.Pos(fd), "no in-place deletion (kept elements are collected)")
	default:
		for _, del := range deletes {
			var loop *ast.ForStmt
			for _, l := range loops {
				if l.Body.Pos() <= del.Pos() && del.End() <= l.Body.End() {
					loop = l
				}
			}
			if loop == nil || loop.Post == nil {
				r.Unknown("C09.8", cons, c.Pos(del), "in-place deletion outside a for loop with a post statement")
				continue
			}
			inc, ok := loop.Post.(*ast.IncDecStmt)
			if !ok {
				r.Unknown("C09.8", cons, c.Pos(loop), "loop post statement is not i++ / i--")
				continue
			}
			idx := an.Str(inc.X)
			h := an.Unparen(del.Rhs[0]).(*ast.CallExpr).Args[0].(*ast.SliceExpr)
			if an.Str(h.High) != idx {
				r.Unknown("C09.8", cons, c.Pos(del), "deletion index %s is not the loop index %s", an.Str(h.High), idx)
				continue
			}
			if inc.Tok == token.DEC {
				r.Ok("C09.8", cons, c.Pos(del), "backward loop: elements behind the index are not revisited")
				continue
			}
			// forward loop: the statements following the delete in its block must step the index back
			stepped := false
			ast.Inspect(loop.Body, func(n ast.Node) bool {
				bl, ok := n.(*ast.BlockStmt)
				if !ok {
					return true
				}
				for i, st := range bl.List {
					if st == ast.Stmt(del) {
						for _, later := range bl.List[i+1:] {
							if d, ok := later.(*ast.IncDecStmt); ok && d.Tok == token.DEC && an.Str(d.X) == idx {
								stepped = true
							}
							if a, ok := later.(*ast.AssignStmt); ok && len(a.Lhs) == 1 && an.Str(a.Lhs[0]) == idx && (a.Tok == token.SUB_ASSIGN) {
								if v, ok := an.ConstInt(info, a.Rhs[0]); ok && v == 1 {
									stepped = true
								}
							}
						}
					}
				}
				return true
			})
			r.Check(stepped, "C09.8", cons, c.Pos(del), "forward loop steps the index back after deleting s[i]",
				"the forward loop deletes s["+idx+"] and then advances: the element that moved into position "+idx+" is never examined, so of two adjacent RC4 suites one survives into a TLS 1.3 spec")
		}
	}
	r.Floor("C09.8", 1)
}

// ---- C15.9 (seeded C15-2): echConfig.raw is exactly the config's own bytes -------------------

func init() { registerExtra("C15", c15RawTrim) }

// c15RawTrim: the HPKE info string is "tls ech\0" || ECHConfig, where ECHConfig is the picked
// config's own 4+Length bytes. parseECHConfig receives the rest of the list, so every path to a
// successful return of the parsed config must store into ec.raw a slice cut at 4+Length;
// otherwise, for any config but the last of a list, client and server derive different HPKE
// contexts and the server cannot open the inner hello.
func c15RawTrim(c *Ctx) {
	r := c.R
	info := c.Info()
	fn := c.Fn("C15.9", "", "parseECHConfig")
	if fn == nil {
		return
	}
	cons := "parseECHConfig:raw-trimmed-to-config"
	isRaw := func(e ast.Expr) bool { return an.FieldSel(info, an.Unparen(e), "echConfig", "raw") }
	strip := func(e ast.Expr) ast.Expr {
		for {
			e = an.Unparen(e)
			if cv, ok := e.(*ast.CallExpr); ok && len(cv.Args) == 1 {
				if tv, ok := info.Types[cv.Fun]; ok && tv.IsType() {
					e = cv.Args[0]
					continue
				}
			}
			return e
		}
	}
	isTrimBound := func(e ast.Expr) bool {
		be, ok := strip(e).(*ast.BinaryExpr)
		if !ok || be.Op != token.ADD {
			return false
		}
		x, y := strip(be.X), strip(be.Y)
		if _, ok := an.ConstInt(info, x); ok {
			x, y = y, x
		}
		v, ok := an.ConstInt(info, y)
		return ok && v == 4 && an.FieldSel(info, x, "echConfig", "Length")
	}
	var trims, whole []an.Point
	for _, h := range fn.FindNodes(an.AssignsTo(isRaw)) {
		as := h.N.(*ast.AssignStmt)
		if len(as.Rhs) != 1 {
			continue
		}
		if se, ok := strip(as.Rhs[0]).(*ast.SliceExpr); ok && se.Low == nil && se.High != nil && isTrimBound(se.High) {
			trims = append(trims, h.P)
		} else {
			whole = append(whole, h.P)
		}
	}
	// successful returns: return false, ec, nil
	n := 0
	for _, p := range fn.Returns() {
		rs, ok := p.Node().(*ast.ReturnStmt)
		if !ok || len(rs.Results) != 3 || !an.IsNilIdent(info, rs.Results[2]) {
			continue
		}
		if _, isLit := an.Unparen(rs.Results[1]).(*ast.CompositeLit); isLit {
			continue // skipped config: nothing is kept
		}
		n++
		switch {
		case fn.MustPass(p, trims, nil):
			r.Ok("C15.9", cons, c.PosP(p), "every path to the successful return cuts raw at 4+Length")
		case len(trims) == 0 && len(whole) > 0:
			r.Bad("C15.9", cons, c.PosP(p), "echConfig.raw keeps the bytes that follow the config (never cut at 4+Length): for a list with more than one config the HPKE info differs from the server's and an honest server rejects ECH")
		default:
			r.Unknown("C15.9", cons, c.PosP(p), "cannot show that raw is cut at 4+Length on every path to this return")
		}
	}
	if n == 0 {
		r.Unknown("C15.9", cons, c.Pos(fn.Decl), "no successful return found")
	}
	r.Floor("C15.9", 1)
}

// ---- C16.8 (seeded C16-1): KDF ids go to the KDF slot, AEAD ids to the AEAD slot ---------------

func init() { registerExtra("C16", c16SuiteSlots) }

// c16SuiteSlots: HPKE_KDF_ID and HPKE_AEAD_ID are both aliases of uint16, so the compiler
// accepts a swapped pair. Every HPKESymmetricCipherSuite literal of the uTLS sources must fill
// KdfId from a KDF-denoting source (a .KdfId/.KDFID selector, or a constant named *KDF*/*Kdf*)
// and AeadId from an AEAD-denoting one; when both come from CandidateCipherSuites they must
// index the same element (a "pair from the candidate list").
func c16SuiteSlots(c *Ctx) {
	r := c.R
	tls := c.P.TLS
	info := tls.TypesInfo
	strip := func(e ast.Expr) ast.Expr {
		for {
			e = an.Unparen(e)
			if cv, ok := e.(*ast.CallExpr); ok && len(cv.Args) == 1 {
				if tv, ok := info.Types[cv.Fun]; ok && tv.IsType() {
					e = cv.Args[0]
					continue
				}
			}
			return e
		}
	}
	role := func(e ast.Expr) (string, string) { // role, index-expression (for candidate elements)
		e = strip(e)
		name, idx := "", ""
		switch x := e.(type) {
		case *ast.SelectorExpr:
			name = x.Sel.Name
			if ie, ok := an.Unparen(x.X).(*ast.IndexExpr); ok {
				idx = an.Str(ie.X) + "[" + an.Str(ie.Index) + "]"
			}
			if _, isConst := info.Uses[x.Sel].(*types.Const); !isConst {
				if _, isVar := info.Uses[x.Sel].(*types.Var); !isVar {
					return "", ""
				}
			}
		case *ast.Ident:
			if _, isConst := info.Uses[x].(*types.Const); !isConst {
				return "", ""
			}
			name = x.Name
		default:
			return "", ""
		}
		up := strings.ToUpper(name)
		switch {
		case strings.Contains(up, "KDF") && !strings.Contains(up, "AEAD"):
			return "kdf", idx
		case strings.Contains(up, "AEAD") || strings.Contains(up, "GCM") || strings.Contains(up, "CHACHA"):
			return "aead", idx
		}
		return "", ""
	}
	n := 0
	for _, f := range tls.Syntax {
		if !strings.HasPrefix(baseName(c.P.Fset.Position(f.Pos()).Filename), "u_") || strings.HasSuffix(c.P.Fset.Position(f.Pos()).Filename, "_test.go") {
			continue
		}
		for _, decl := range f.Decls {
			owner := "var"
			if fd, ok := decl.(*ast.FuncDecl); ok {
				owner = load.RecvName(fd) + "." + fd.Name.Name
			}
			ord := 0
			ast.Inspect(decl, func(x ast.Node) bool {
				cl, ok := x.(*ast.CompositeLit)
				if !ok || an.TypeName(info.TypeOf(cl)) != "HPKESymmetricCipherSuite" || len(cl.Elts) == 0 {
					return true
				}
				ord++
				slots := map[string]ast.Expr{}
				// an unkeyed element fills the field at its position in the struct type as it is
				// declared today (seeded C16-4: reordering the two uint16 fields silently swaps
				// every positional literal)
				st, _ := info.TypeOf(cl).Underlying().(*types.Struct)
				for i, el := range cl.Elts {
					if kv, ok := el.(*ast.KeyValueExpr); ok {
						if id, ok := kv.Key.(*ast.Ident); ok {
							slots[id.Name] = kv.Value
						}
					} else if st != nil && i < st.NumFields() {
						slots[st.Field(i).Name()] = el
					}
				}
				cons := fmt.Sprintf("suite-literal:%s#%d", owner, ord)
				n++
				kr, ki := role(slots["KdfId"])
				ar, ai := role(slots["AeadId"])
				switch {
				case slots["KdfId"] != nil && kr == "aead":
					r.Bad("C16.8", cons, c.Pos(cl), "the KdfId slot is filled from an AEAD id (%s): the GREASE ECH extension advertises a KDF/AEAD pair that is not in the candidate list", an.Str(slots["KdfId"]))
				case slots["AeadId"] != nil && ar == "kdf":
					r.Bad("C16.8", cons, c.Pos(cl), "the AeadId slot is filled from a KDF id (%s): the GREASE ECH extension advertises a KDF/AEAD pair that is not in the candidate list", an.Str(slots["AeadId"]))
				case ki != "" && ai != "" && ki != ai:
					r.Bad("C16.8", cons, c.Pos(cl), "KdfId and AeadId are taken from different candidates (%s vs %s): the pair is not one of the candidate list", ki, ai)
				default:
					r.Ok("C16.8", cons, c.Pos(cl), "KdfId<-%s AeadId<-%s", kr, ar)
				}
				return true
			})
		}
	}
	r.Count("C16.8_literals", n)
	r.Floor("C16.8", 2)
}

func baseName(p string) string {
	if i := strings.LastIndex(p, "/"); i >= 0 {
		return p[i+1:]
	}
	return p
}

// ---- C26.7 (seeded C26-2): post-handshake code touches the write half under its lock ---------

func init() { registerExtra("C26", c26OutUnderLock) }

// c26OutUnderLock: the post-handshake message handlers run inside Read (holding Conn.in) while
// another goroutine may be inside Write (holding Conn.out). Every use of the write half
// (c.out.<field or method>, lock operations excepted) in those handlers must therefore happen
// with Conn.out held on every path; otherwise a key update races with a concurrent Write.
func c26OutUnderLock(c *Ctx) {
	r := c.R
	info := c.Info()
	n := 0
	for _, site := range []struct{ recv, name string }{
		{"Conn", "handleKeyUpdate"}, {"Conn", "handlePostHandshakeMessage"}, {"UConn", "handlePostHandshakeMessage"},
		{"Conn", "handleNewSessionTicket"},
	} {
		fd := load.FuncDecl(c.P.TLS, site.recv, site.name)
		if fd == nil || fd.Body == nil {
			continue
		}
		fn := an.NewFn(c.P.TLS, fd)
		lf := NewLockFlow(fn, lockSet{lockIn: 2})
		who := site.recv + "." + site.name
		ord := 0
		seen := map[token.Pos]bool{}
		for _, h := range fn.FindNodes(func(x ast.Node) bool {
			return an.Contains(x, func(y ast.Node) bool {
				se, ok := y.(*ast.SelectorExpr)
				return ok && an.FieldSel(info, an.Unparen(se.X), "Conn", "out")
			})
		}) {
			ast.Inspect(h.N, func(y ast.Node) bool {
				if _, isLit := y.(*ast.FuncLit); isLit {
					return false
				}
				se, ok := y.(*ast.SelectorExpr)
				if !ok || !an.FieldSel(info, an.Unparen(se.X), "Conn", "out") {
					return true
				}
				switch se.Sel.Name {
				case "Lock", "Unlock", "TryLock":
					return true
				}
				if _, isDefer := h.N.(*ast.DeferStmt); isDefer {
					return true
				}
				if seen[se.Pos()] {
					return true
				}
				seen[se.Pos()] = true
				ord++
				n++
				held := lf.AtSub(h.P, se)
				r.Check(held.Has(lockOut), "C26.7", fmt.Sprintf("%s:out.%s#%d", who, se.Sel.Name, ord), c.Pos(se),
					"write half used with Conn.out held",
					"c.out."+se.Sel.Name+" is used after the handshake without Conn.out held (held: "+held.String()+"): a concurrent Write races with it (a record can go out under the old key after the KeyUpdate)")
				return true
			})
		}
	}
	r.Count("C26.7_uses", n)
	r.Floor("C26.7", 3)
}

// ---- C02.8 (seeded C02-2): the second ClientHello keeps pre_shared_key / padding last --------

// The ClientHello sent after a HelloRetryRequest is also "a ClientHello utls emits": inserting
// the cookie extension at an index that can equal len(Extensions) puts it after
// pre_shared_key. The insertion-shape and index rules are those of C17.7.
func init() {
	registerExtra("C02", func(c *Ctx) {
		c.R.Borrow(map[string]string{"C17.7": "C02.8"}, func() { runC17(c) })
	})
}

// ---- C03.7 (seeded C03-2) and C18.6 (seeded C18-1): facts shared with C13 and C31 --------------

func init() {
	// legacy_version is derived from Config.MaxVersion, which SetTLSVers must set from the spec
	// on every success path (rule C13.2): a conditional store lets a caller's lower MaxVersion
	// leak into the hello's legacy_version while supported_versions still comes from the spec.
	registerExtra("C03", func(c *Ctx) {
		c.R.BorrowIf(map[string]string{"C13.2": "C03.7"}, func(o report.Obligation) bool {
			return strings.HasPrefix(o.Construct, "SetTLSVers")
		}, func() { runC13(c) })
		c.R.Floor("C03.7", 2)
	})
	// the retained keys reach the handshake through KeySharePrivateKeys.ToPrivate: a field the
	// conversion drops is a private key that is published but not retained (rule C31.1).
	registerExtra("C18", func(c *Ctx) {
		c.R.BorrowIf(map[string]string{"C31.1": "C18.6"}, func(o report.Obligation) bool {
			return strings.HasPrefix(o.Construct, "KeySharePrivateKeys<->")
		}, func() { runC31(c) })
		c.R.Floor("C18.6", 3)
	})
}
