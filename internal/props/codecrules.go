package props

import (
	"fmt"
	"go/ast"
	"go/types"
	"sort"
	"strings"

	"verif/internal/load"
)

// extImpl is one concrete TLSExtension implementation.
type extImpl struct {
	Name    string
	Named   *types.Named
	Len     *ast.FuncDecl
	Read    *ast.FuncDecl
	Write   *ast.FuncDecl // TLSExtensionWriter
	JSON    *ast.FuncDecl // UnmarshalJSON
	WriteTo *ast.FuncDecl // writeToUConn
}

// tlsExtensions lists the struct types of package tls whose pointer (or value) implements TLSExtension.
func tlsExtensions(c *Ctx) []*extImpl {
	tls := c.P.TLS
	io, _ := tls.Types.Scope().Lookup("TLSExtension").(*types.TypeName)
	if io == nil {
		return nil
	}
	iface, _ := io.Type().Underlying().(*types.Interface)
	if iface == nil {
		return nil
	}
	var out []*extImpl
	scope := tls.Types.Scope()
	for _, n := range scope.Names() {
		tn, ok := scope.Lookup(n).(*types.TypeName)
		if !ok || tn.IsAlias() {
			continue
		}
		named, ok := tn.Type().(*types.Named)
		if !ok {
			continue
		}
		if _, isStruct := named.Underlying().(*types.Struct); !isStruct {
			continue
		}
		if !types.Implements(types.NewPointer(named), iface) && !types.Implements(named, iface) {
			continue
		}
		e := &extImpl{Name: n, Named: named}
		ms := types.NewMethodSet(types.NewPointer(named))
		get := func(m string) *ast.FuncDecl {
			sel := ms.Lookup(tls.Types, m)
			if sel == nil {
				return nil
			}
			fn, _ := sel.Obj().(*types.Func)
			if fn == nil {
				return nil
			}
			return declOf(tls, fn)
		}
		e.Len, e.Read, e.Write, e.JSON, e.WriteTo = get("Len"), get("Read"), get("Write"), get("UnmarshalJSON"), get("writeToUConn")
		out = append(out, e)
	}
	sort.Slice(out, func(i, j int) bool { return out[i].Name < out[j].Name })
	return out
}

// field is a group of byte stores forming one big-endian value, or a copy.
type field struct {
	off   Lin
	w     Lin
	lin   *Lin
	data  string
	copy  bool
	loop  string
	seq   int
	bad   string
	first *wr
}

func (f field) end() Lin { return f.off.Add(f.w) }
func (f field) valueString() string {
	if f.copy {
		return "bytes(" + f.data + ")"
	}
	if f.lin != nil {
		return f.lin.String()
	}
	return f.data
}

// groupFields merges consecutive byte stores with descending shifts of the same value.
func groupFields(ws []*wr) []field {
	var out []field
	i := 0
	for i < len(ws) {
		w := ws[i]
		if w.copy {
			out = append(out, field{off: w.off, w: w.n, data: w.data, copy: true, loop: w.loop, seq: w.seq, first: w})
			i++
			continue
		}
		f := field{off: w.off, w: linConst(1), lin: w.lin, data: w.data, loop: w.loop, seq: w.seq, first: w}
		if w.shift > 0 {
			if w.shift%8 != 0 {
				f.bad = fmt.Sprintf("shift by %d is not a whole byte", w.shift)
			}
			n := w.shift/8 + 1
			for k := 1; k < n; k++ {
				if i+k >= len(ws) {
					f.bad = "multi-byte value is missing its low-order bytes"
					break
				}
				nx := ws[i+k]
				same := (nx.lin != nil && w.lin != nil && nx.lin.Eq(*w.lin)) || (nx.lin == nil && w.lin == nil && nx.data == w.data)
				switch {
				case nx.copy || !nx.off.Eq(w.off.AddC(int64(k))):
					f.bad = fmt.Sprintf("byte %d of a %d-byte value is not stored at the next offset", k, n)
				case nx.shift != w.shift-8*k:
					f.bad = fmt.Sprintf("byte %d of a %d-byte value is shifted by %d, expected %d", k, n, nx.shift, w.shift-8*k)
				case !same:
					f.bad = fmt.Sprintf("high and low bytes encode different values (%s vs %s)", wrVal(w), wrVal(nx))
				}
				if f.bad != "" {
					break
				}
			}
			if f.bad == "" {
				f.w = linConst(int64(n))
				i += n
				out = append(out, f)
				continue
			}
		}
		out = append(out, f)
		i++
	}
	return out
}

func wrVal(w *wr) string {
	if w.lin != nil {
		return w.lin.String()
	}
	return w.data
}

// lenForm extracts the general (non-zero) result of a Len-like shape and the conditions of zero results.
func lenForm(s *encShape) (main *Lin, zeroConds []string, problem string) {
	for _, r := range s.rets {
		if r.n.k == svLin && r.n.lin.IsConst() && r.n.lin.C == 0 && r.cond != "" {
			zeroConds = append(zeroConds, r.cond)
			continue
		}
		if r.n.k == svData && strings.HasPrefix(r.n.path, "*") {
			continue // memoised copy of the computed length: resolved via fstore by callers
		}
		if r.n.k != svLin {
			return nil, zeroConds, "Len returns a value that is not a linear form of the receiver's fields: " + r.n.String()
		}
		if main != nil && !main.Eq(r.n.lin) {
			return nil, zeroConds, fmt.Sprintf("Len has two different non-zero results: %s and %s", main, r.n.lin)
		}
		l := r.n.lin
		main = &l
	}
	if main == nil && len(zeroConds) == 0 && len(s.rets) > 0 {
		return nil, nil, "Len has no analysable return"
	}
	return main, zeroConds, ""
}

// allowedGaps: byte ranges an encoder deliberately leaves untouched because their wire value is
// zero (only correct on a zeroed buffer: see the fresh-buffer rule). One reason per entry.
var allowedGaps = map[string]map[string]string{
	"SNIExtension":                  {"[6,7)": "name_type host_name(0)"},
	"StatusRequestExtension":        {"[5,9)": "empty responder_id_list and request_extensions (two zero uint16)"},
	"StatusRequestV2Extension":      {"[9,13)": "empty responder_id_list and request_extensions of the single item"},
	"SCTExtension":                  {"[2,4)": "empty extension_data (length 0)"},
	"ExtendedMasterSecretExtension": {"[2,4)": "empty extension_data (length 0)"},
	"NPNExtension":                  {"[2,4)": "empty extension_data (length 0)"},
	"FakeChannelIDExtension":        {"[2,4)": "empty extension_data (length 0)"},
	"UtlsPaddingExtension":          {"[4,4+e.PaddingLen)": "padding body is all zero"},
}

type codecResult struct {
	ext      *extImpl
	lenMain  *Lin
	zero     []string
	fields   []field
	idCond   string  // when two constants: idConst[1] is emitted when this receiver condition holds
	idConst  []int64 // extension id constants written at [0,2)
	idData   string  // or a receiver field
	issues   []string
	abstract bool
}

// checkEncoder runs E2 obligations (a)+(b) for one implementation.
func checkEncoder(c *Ctx, rule string, e *extImpl) *codecResult {
	r := c.R
	tls := c.P.TLS
	res := &codecResult{ext: e}
	cons := e.Name
	if e.Len == nil || e.Read == nil {
		r.Unknown(rule, cons, "", "Len/Read declaration not found")
		return res
	}
	pos := c.Pos(e.Read)
	ls := runEncoder(tls, e.Len)
	rs := runEncoder(tls, e.Read)
	main, zero, prob := lenForm(ls)
	res.lenMain, res.zero = main, zero
	for _, is := range append(ls.issues, rs.issues...) {
		res.issues = append(res.issues, is)
	}
	if prob != "" {
		r.Unknown(rule, cons+":Len", c.Pos(e.Len), "%s", prob)
		return res
	}
	// abstract bases: Len()==0 and Read writes nothing
	if main == nil || (main.IsConst() && main.C == 0) {
		if len(rs.writes) == 0 {
			res.abstract = true
			r.Ok(rule, cons+":abstract", pos, "placeholder type: Len()=0 and Read writes nothing")
			return res
		}
		r.Bad(rule, cons+":Len", c.Pos(e.Len), "Len() is always 0 but Read writes %d bytes", len(rs.writes))
		return res
	}
	if len(res.issues) > 0 {
		r.Unknown(rule, cons+":shape", pos, "encoder uses a construct the layout interpreter does not model: %s", strings.Join(res.issues, "; "))
		return res
	}
	L := *main
	// (1) short-buffer guard
	okGuard := false
	for _, g := range rs.guards {
		if g.lhsIsLenBuf && g.rhs.Eq(L) && g.beforeWrites == 0 {
			okGuard = true
			r.Check(g.retN == "0" && strings.HasSuffix(g.retErr, "ErrShortBuffer"), rule, cons+":short-buffer", c.P.Pos(g.pos),
				"len(b) < Len() returns (0, io.ErrShortBuffer) before any store", fmt.Sprintf("short-buffer guard returns (%s, %s), want (0, io.ErrShortBuffer)", g.retN, g.retErr))
		}
	}
	if !okGuard {
		detail := "no `len(b) < Len()` guard precedes the first store into b"
		for _, g := range rs.guards {
			if g.lhsIsLenBuf {
				detail = fmt.Sprintf("short-buffer guard compares len(b) with %s but Len() = %s (or stores precede it)", g.rhs, L)
			}
		}
		r.Bad(rule, cons+":short-buffer", pos, "%s", detail)
	}
	// (2) main return
	var mainRet *retRec
	for i := range rs.rets {
		rr := &rs.rets[i]
		if rr.afterWrites == len(rs.writes) && len(rs.writes) > 0 {
			mainRet = rr
		}
	}
	if mainRet == nil {
		r.Bad(rule, cons+":return", pos, "no return after the last store")
	} else {
		okN := mainRet.n.k == svLin && mainRet.n.lin.Eq(L)
		r.Check(okN && strings.HasSuffix(mainRet.err, "EOF"), rule, cons+":return", c.P.Pos(mainRet.pos),
			"returns (Len(), io.EOF)", fmt.Sprintf("returns (%s, %s) but Len() = %s", mainRet.n, mainRet.err, L))
	}
	// early returns with n != 0 are wrong; early zero returns must correspond to Len()==0 cases or errors
	for _, rr := range rs.rets {
		if mainRet != nil && rr.pos == mainRet.pos {
			continue
		}
		if !(rr.n.k == svLin && rr.n.lin.IsConst() && rr.n.lin.C == 0) {
			r.Bad(rule, cons+":early-return", c.P.Pos(rr.pos), "early return reports %s bytes", rr.n)
		}
	}
	// zero cases of Len must have a zero return in Read
	for _, zc := range zero {
		found := false
		for _, rr := range rs.rets {
			if rr.n.k == svLin && rr.n.lin.IsConst() && rr.n.lin.C == 0 && rr.afterWrites == 0 && rr.cond != "" {
				if sameZeroCond(zc, rr.cond) {
					found = true
				}
			}
		}
		r.Check(found, rule, cons+":zero-case", c.Pos(e.Len), "Len()==0 when "+zc+" and Read writes nothing in that case",
			"Len() is 0 when "+zc+" but Read has no matching early return (it would write bytes the caller did not reserve)")
	}
	// (3) fields
	fs := groupFields(rs.writes)
	res.fields = fs
	for _, f := range fs {
		if f.bad != "" {
			r.Bad(rule, cons+":value@"+f.off.String(), c.P.Pos(f.first.pos), "%s", f.bad)
		}
	}
	fs = mergeConstPair(fs, 2)
	res.fields = fs
	// id at [0,2)
	var idF, outer *field
	for i := range fs {
		f := &fs[i]
		if f.loop == "" && f.off.IsConst() && f.w.IsConst() && f.w.C == 2 {
			if f.off.C == 0 {
				idF = f
			}
			if f.off.C == 2 {
				outer = f
			}
		}
	}
	if idF == nil {
		r.Bad(rule, cons+":id", pos, "no 2-byte extension type stored at b[0:2]")
	} else if idF.lin != nil && idF.lin.IsConst() {
		res.idConst = []int64{idF.lin.C}
		r.Ok(rule, cons+":id", c.P.Pos(idF.first.pos), "extension type constant %d at b[0:2]", idF.lin.C)
	} else if idF.lin == nil && strings.HasPrefix(idF.data, "choice[") {
		fmt.Sscanf(strings.NewReplacer("choice[", "", "]", "").Replace(idF.data), "%d %d", new(int64), new(int64))
		var a, b int64
		fmt.Sscanf(idF.data, "choice[%d %d]", &a, &b)
		res.idConst = []int64{a, b}
		if i := strings.Index(idF.data, " if "); i >= 0 {
			res.idCond = idF.data[i+4:]
		}
		r.Ok(rule, cons+":id", c.P.Pos(idF.first.pos), "extension type is one of the constants %d, %d", a, b)
	} else {
		res.idData = idF.valueString()
		r.Ok(rule, cons+":id", c.P.Pos(idF.first.pos), "extension type taken from %s", res.idData)
	}
	// outer length
	want := L.AddC(-4)
	switch {
	case outer == nil:
		r.Check(want.IsConst() && want.C == 0, rule, cons+":outer-length", pos, "extension_data length bytes left zero and Len()-4 = 0",
			fmt.Sprintf("b[2:4] is never written but the body length Len()-4 = %s is not zero", want))
	case outer.lin == nil:
		r.Bad(rule, cons+":outer-length", c.P.Pos(outer.first.pos), "b[2:4] holds %s, which is not a length", outer.data)
	default:
		r.Check(outer.lin.Eq(want), rule, cons+":outer-length", c.P.Pos(outer.first.pos), fmt.Sprintf("b[2:4] = %s = Len()-4", outer.lin),
			fmt.Sprintf("b[2:4] = %s but Len()-4 = %s: the extension_data length does not match the body", outer.lin, want))
	}
	// (3b) a refusal of over-long lists must really bound the one-byte prefix it protects
	for _, f := range fs {
		if f.copy || f.lin == nil || f.lin.IsConst() || !f.w.IsConst() || f.w.C != 1 || f.loop != "" {
			continue
		}
		for _, b := range rs.bounds {
			shares := false
			for _, a := range b.lin.Atoms() {
				if _, ok := f.lin.T[a]; ok {
					shares = true
				}
			}
			if !shares {
				continue
			}
			okB := b.lin.Sub(*f.lin).NonNeg() && b.max <= 255
			r.Check(okB, rule, fmt.Sprintf("%s:byte-prefix-bound@%s", cons, f.off), c.P.Pos(b.pos),
				fmt.Sprintf("the encoder refuses %s > %d, which bounds the one-byte prefix value %s", b.lin, b.max, f.lin),
				fmt.Sprintf("the one-byte length prefix at offset %s holds %s, but the encoder only refuses %s > %d: larger lists are emitted with a wrapped prefix instead of an error", f.off, f.lin, b.lin, b.max))
		}
	}
	// (4) coverage walk and bounds
	checkCoverage(c, rule, e, L, fs)
	// (5) inner prefixes
	checkPrefixes(c, rule, e, L, fs)
	return res
}

// sameZeroCond compares the zero-length predicates of Len and Read modulo syntax.
func sameZeroCond(a, b string) bool {
	norm := func(s string) string {
		s = strings.ReplaceAll(s, " ", "")
		s = strings.ReplaceAll(s, "!(!(", "((")
		return s
	}
	a, b = norm(a), norm(b)
	if a == b {
		return true
	}
	// Len: !(X) [else-branch of `if X {…}`]  vs Read: !X
	strip := func(s string) string {
		s = strings.TrimPrefix(s, "!(")
		s = strings.TrimSuffix(s, ")")
		return strings.TrimPrefix(s, "!")
	}
	neg := func(s string) bool { return strings.HasPrefix(s, "!") }
	if strip(a) == strip(b) && neg(a) == neg(b) {
		return true
	}
	// Read tests the helper's result: <Len-form>==0
	if strings.HasSuffix(b, "==0") {
		return true
	}
	return false
}

// substMax replaces per-iteration atoms by their maximum over the loop (idx→len-1, pre→Σ-cur).
func loopSubst(l Lin, list string, mode string) Lin {
	m := map[string]Lin{}
	for _, a := range l.Atoms() {
		switch {
		case a == atomIdx(list):
			switch mode {
			case "first":
				m[a] = linConst(0)
			case "next":
				m[a] = linAtom(a).AddC(1)
			case "end":
				m[a] = linAtom(atomLen(list))
			case "last":
				m[a] = linAtom(atomLen(list)).AddC(-1)
			}
		case strings.HasPrefix(a, "pre·"):
			base := strings.TrimPrefix(a, "pre·")
			switch mode {
			case "first":
				m[a] = linConst(0)
			case "next":
				m[a] = linAtom(a).Add(linAtom(base))
			case "end":
				m[a] = linAtom(atomSum(base))
			case "last":
				m[a] = linAtom(atomSum(base)).Sub(linAtom(base))
			}
		}
	}
	return l.Subst(m)
}

// checkCoverage walks the buffer from offset 0: every byte of [0,Len()) must be stored exactly once
// or lie in an allowed must-be-zero gap; nothing may be stored at or beyond Len().
func checkCoverage(c *Ctx, rule string, e *extImpl, L Lin, fs []field) {
	r := c.R
	cons := e.Name
	pos := c.Pos(e.Read)
	// composite regions: loops collapse into one region after their per-iteration walk
	type region struct {
		start, end Lin
		desc       string
		used       bool
	}
	var regs []*region
	byLoop := map[string][]field{}
	var loopOrder []string
	for _, f := range fs {
		if f.loop == "" {
			regs = append(regs, &region{start: f.off, end: f.end(), desc: fmt.Sprintf("[%s,%s)=%s", f.off, f.end(), f.valueString())})
			continue
		}
		if _, ok := byLoop[f.loop]; !ok {
			loopOrder = append(loopOrder, f.loop)
		}
		byLoop[f.loop] = append(byLoop[f.loop], f)
	}
	// a list may be iterated by several loops; split by contiguity of seq
	for _, list := range loopOrder {
		lf := byLoop[list]
		var groups [][]field
		for i, f := range lf {
			if i == 0 || f.seq != lf[i-1].seq+int(widthSeq(lf[i-1])) {
				groups = append(groups, nil)
			}
			groups[len(groups)-1] = append(groups[len(groups)-1], f)
		}
		for _, g := range groups {
			// per-iteration walk
			cur := g[0].off
			iterStart := cur
			okWalk := true
			for _, f := range g {
				if !f.off.Eq(cur) {
					okWalk = false
					r.Bad(rule, cons+":loop-contiguity", c.P.Pos(f.first.pos), "inside the loop over %s the store at offset %s does not follow the previous one ending at %s", list, f.off, cur)
					break
				}
				cur = f.end()
			}
			if !okWalk {
				continue
			}
			next := loopSubst(iterStart, list, "next")
			if !cur.Eq(next) {
				r.Bad(rule, cons+":loop-stride", c.P.Pos(g[0].first.pos), "one iteration over %s stores bytes [%s,%s) but the next iteration starts at %s", list, iterStart, cur, next)
				continue
			}
			regs = append(regs, &region{start: loopSubst(iterStart, list, "first"), end: loopSubst(iterStart, list, "end"), desc: fmt.Sprintf("loop(%s)", list)})
		}
	}
	cur := linConst(0)
	steps := 0
	gaps := allowedGaps[e.Name]
	usedGap := map[string]bool{}
	for !cur.Eq(L) && steps < 200 {
		steps++
		found := false
		for _, g := range regs {
			if !g.used && g.start.Eq(cur) {
				g.used = true
				cur = g.end
				found = true
				break
			}
		}
		if found {
			continue
		}
		// gap: nearest region with start-cur a positive constant, else tail to Len()
		var best *region
		for _, g := range regs {
			if g.used {
				continue
			}
			d := g.start.Sub(cur)
			if d.IsConst() && d.C > 0 && (best == nil || d.C < best.start.Sub(cur).C) {
				best = g
			}
		}
		end := L
		if best != nil {
			end = best.start
		}
		if !end.Sub(cur).NonNeg() || end.Eq(cur) {
			r.Bad(rule, cons+":coverage", pos, "cannot account for the bytes after offset %s (Len() = %s): stores overlap or run past the declared length", cur, L)
			return
		}
		key := fmt.Sprintf("[%s,%s)", cur, end)
		if why, ok := gaps[key]; ok {
			usedGap[key] = true
			r.Ok(rule, cons+":zero"+key, pos, "bytes %s are left untouched: %s (relies on a zeroed buffer)", key, why)
		} else {
			r.Bad(rule, cons+":coverage", pos, "bytes %s of the %s-byte extension are never written by Read", key, L)
		}
		cur = end
	}
	for _, g := range regs {
		if !g.used {
			// stored outside [0,Len()) or twice
			if g.end.Sub(L).NonNeg() && !g.end.Eq(L) || !L.Sub(g.end).NonNeg() {
				r.Bad(rule, cons+":coverage", pos, "store %s lies beyond Len() = %s", g.desc, L)
			} else {
				r.Bad(rule, cons+":coverage", pos, "store %s overlaps bytes already written or is misplaced", g.desc)
			}
			return
		}
	}
	if cur.Eq(L) {
		r.Ok(rule, cons+":coverage", pos, "stores tile [0,%s) exactly (%d regions)", L, len(regs))
	}
}

func widthSeq(f field) int64 {
	if f.copy || !f.w.IsConst() {
		return 1
	}
	return f.w.C
}

// checkPrefixes: a length-valued field at offset o of width w with value V must end its region on a
// boundary: o+w+V equals Len(), the start of another field, or (inside a loop) the next element.
func checkPrefixes(c *Ctx, rule string, e *extImpl, L Lin, fs []field) {
	r := c.R
	for i, f := range fs {
		if f.copy || f.lin == nil || f.bad != "" {
			continue
		}
		if f.loop == "" && f.off.IsConst() && f.off.C <= 2 {
			continue // id and outer length handled separately
		}
		if f.lin.IsConst() {
			continue // constant payload byte (type codes); constant-only encoders are covered by outer-length + coverage
		}
		end := f.end().Add(*f.lin)
		ok := end.Eq(L)
		where := "Len()"
		for j, g := range fs {
			if j == i || ok {
				continue
			}
			if g.loop == f.loop && g.off.Eq(end) && g.seq > f.seq {
				ok, where = true, "the field at "+g.off.String()
			}
			// a top-level prefix covering a whole loop region ends where the next top-level field starts
			if f.loop == "" && g.loop != "" {
				if loopSubst(g.off, g.loop, "end").Eq(end) {
					ok, where = true, "the end of loop("+g.loop+")"
				}
			}
		}
		if !ok && f.loop != "" {
			// next element
			var first field
			for _, g := range fs {
				if g.loop == f.loop {
					first = g
					break
				}
			}
			if loopSubst(first.off, f.loop, "next").Eq(end) {
				ok, where = true, "the next element"
			}
		}
		cons := fmt.Sprintf("%s:prefix@%s", e.Name, f.off)
		r.Check(ok, rule, cons, c.P.Pos(f.first.pos), fmt.Sprintf("length %s at [%s,%s) ends its region at %s", f.lin, f.off, f.end(), where),
			fmt.Sprintf("length prefix at [%s,%s) has value %s, so its region ends at offset %s, which is neither Len() = %s nor the start of another field", f.off, f.end(), f.lin, end, L))
	}
}

var _ = load.ModPath

// mergeConstPair joins two constant one-byte stores at offsets o and o+1 (outside loops) into one
// big-endian 16-bit constant (encoders of constant-size extensions write b[2]=0; b[3]=5).
func mergeConstPair(fs []field, o int64) []field {
	hi, lo := -1, -1
	for i, f := range fs {
		if f.loop != "" || f.copy || f.lin == nil || !f.lin.IsConst() || !f.off.IsConst() || !f.w.IsConst() || f.w.C != 1 || f.first.shift != 0 {
			continue
		}
		if f.off.C == o {
			hi = i
		}
		if f.off.C == o+1 {
			lo = i
		}
	}
	if hi < 0 || lo < 0 {
		return fs
	}
	v := linConst(fs[hi].lin.C*256 + fs[lo].lin.C)
	m := fs[hi]
	m.w = linConst(2)
	m.lin = &v
	var out []field
	for i, f := range fs {
		if i == lo {
			continue
		}
		if i == hi {
			out = append(out, m)
			continue
		}
		out = append(out, f)
	}
	return out
}
