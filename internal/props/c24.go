package props

import (
	"fmt"
	"go/ast"
	"go/token"
	"go/types"
	"sort"

	"verif/internal/an"
	"verif/internal/load"

	"golang.org/x/tools/go/packages"
)

func init() { register(&Prop{ID: "C24", Run: runC24}) }

// RFC 9000 §16: an n-byte varint (n = 1,2,4,8) carries 8n-2 value bits after a 2-bit length code log2(n).
var varintSizes = []int{1, 2, 4, 8}

func varintRange(n int) (lo, hi uint64) {
	hi = uint64(1)<<uint(8*n-2) - 1
	switch n {
	case 1:
		lo = 0
	case 2:
		lo = 1 << 6
	case 4:
		lo = 1 << 14
	case 8:
		lo = 1 << 30
	}
	return
}

func log2n(n int) uint64 {
	switch n {
	case 2:
		return 1
	case 4:
		return 2
	case 8:
		return 3
	}
	return 0
}

// rangeOracle decides comparisons of the symbolic input (by object) against constants for lo<=x<=hi.
func rangeOracle(info *types.Info, in types.Object, lo, hi uint64) func(ast.Expr) tri {
	return func(e ast.Expr) tri {
		be, ok := an.Unparen(e).(*ast.BinaryExpr)
		if !ok {
			return triUnknown
		}
		isIn := func(x ast.Expr) bool {
			id, ok := an.Unparen(x).(*ast.Ident)
			return ok && objOf(info, id) == in
		}
		op := be.Op
		var k int64
		var okc bool
		switch {
		case isIn(be.X):
			k, okc = an.ConstInt(info, be.Y)
		case isIn(be.Y):
			k, okc = an.ConstInt(info, be.X)
			op = flipTok(op)
		}
		if !okc {
			return triUnknown
		}
		K := uint64(k)
		dec := func(allTrue, allFalse bool) tri {
			if allTrue {
				return triTrue
			}
			if allFalse {
				return triFalse
			}
			return triUnknown
		}
		switch op {
		case token.LEQ:
			return dec(hi <= K, lo > K)
		case token.LSS:
			return dec(hi < K, lo >= K)
		case token.GTR:
			return dec(lo > K, hi <= K)
		case token.GEQ:
			return dec(lo >= K, hi < K)
		}
		return triUnknown
	}
}

// expectVarint checks that bytes encode the input symbol `name` (value bits below 8n-2) in n bytes.
func expectVarint(bytes []BV, n int, name string) string {
	if len(bytes) != n {
		return fmt.Sprintf("%d bytes are emitted, RFC 9000 §16 prescribes %d for this range", len(bytes), n)
	}
	code := log2n(n)
	for j, b := range bytes {
		for t := 0; t < 8; t++ {
			pos := 8*(n-1-j) + t
			got := b.Bits[t]
			if j == 0 && t >= 6 {
				want := byte('0')
				if code>>(uint(t)-6)&1 == 1 {
					want = '1'
				}
				if got.kind != want {
					return fmt.Sprintf("bit %d of the first byte is %s, the length code for %d bytes needs %c", t, got, n, want)
				}
				continue
			}
			if !(got.kind == 'i' && got.src == name && got.idx == pos && !got.neg) {
				return fmt.Sprintf("bit %d of byte %d is %s, expected bit %d of the value", t, j, got, pos)
			}
		}
	}
	return ""
}

func inputFor(name string, n int) BV {
	v := bvInput(name, 64)
	for k := 8*n - 2; k < 64; k++ {
		v.Bits[k] = abit{kind: '0'}
	}
	return v
}

func runC24(c *Ctx) {
	r := c.R
	r.Technique = "abstract execution of quicvarint Append/Len/Read/AppendWithLen on bit vectors with per-bit provenance, partitioned by the RFC 9000 §16 ranges; typed-AST rules for TransportParameters.Marshal and the parameter types"
	r.Explanation = "C24.1 Append: for each RFC range the bytes emitted are exactly the n-byte encoding (length code in the top two bits, every value bit at its position) and values above 2^62-1 panic. C24.2 Len returns n on the same ranges and panics above. C24.3 Read: for each length code the value returned is the big-endian composition of the bytes with the code masked off (so Read∘Append is the identity, both being equal to the RFC layout bit for bit). C24.4 AppendWithLen: for every (minimal length l, requested length) pair the output is the requested-width encoding of the value; an invalid width or a too-small width panics. " +
		"C24.5 TransportParameters.Marshal emits, for each list element in order, varint(ID()), varint(len(Value())), Value(); GREASE id/value are memoised so repeated calls agree. C24.6 every TransportParameter implementation with an integer underlying type encodes it with quicvarint.Append; ids are distinct."
	r.NotDecided = "nothing material for the encoding clauses; FakeQUICTransportParameter.ID panics on 0 by documented contract"
	qp := c.P.Pkg("internal/quicvarint")
	if qp == nil {
		r.Unknown("C24.1", "quicvarint", "", "package not found")
		return
	}
	info := qp.TypesInfo
	get := func(name string) *ast.FuncDecl { return load.FuncDecl(qp, "", name) }
	app, ln, rd, awl := get("Append"), get("Len"), get("Read"), get("AppendWithLen")
	if app == nil || ln == nil || rd == nil || awl == nil {
		r.Unknown("C24.1", "quicvarint", "", "Append/Len/Read/AppendWithLen not all found")
		return
	}
	paramObj := func(fd *ast.FuncDecl, idx int) types.Object {
		i := 0
		for _, fl := range fd.Type.Params.List {
			for _, nm := range fl.Names {
				if i == idx {
					return info.Defs[nm]
				}
				i++
			}
		}
		return nil
	}
	newExec := func() *bvExec { return &bvExec{pkg: qp, info: info, vars: map[types.Object]bvVal{}} }

	// ---- C24.1 Append, C24.2 Len
	for _, n := range varintSizes {
		lo, hi := varintRange(n)
		x := newExec()
		x.bindParams(app, []bvVal{{IsList: true}, {BV: inputFor("i", n)}})
		x.assume = rangeOracle(info, paramObj(app, 1), lo, hi)
		out := x.run(app.Body.List)
		cons := fmt.Sprintf("Append[%d..%d]", lo, hi)
		switch {
		case out == nil || out.Kind == "stuck":
			why := "no outcome"
			if out != nil {
				why = out.Why
			}
			r.Bad("C24.1", cons, c.P.Pos(app.Pos()), "the code does not treat the RFC range of %d-byte varints uniformly: %s", n, why)
		case out.Kind == "panic":
			r.Bad("C24.1", cons, c.P.Pos(app.Pos()), "Append panics for values that fit in %d bytes", n)
		default:
			why := expectVarint(out.Ret[0].List, n, "i")
			r.Check(why == "", "C24.1", cons, c.P.Pos(app.Pos()), fmt.Sprintf("emits the %d-byte encoding with every value bit in place", n), why)
		}
		y := newExec()
		y.bindParams(ln, []bvVal{{BV: inputFor("i", n)}})
		y.assume = rangeOracle(info, paramObj(ln, 0), lo, hi)
		lo2 := y.run(ln.Body.List)
		consL := fmt.Sprintf("Len[%d..%d]", lo, hi)
		if lo2 == nil || lo2.Kind != "return" {
			r.Bad("C24.2", consL, c.P.Pos(ln.Pos()), "Len does not return a length on the RFC range of %d-byte varints", n)
		} else {
			v, ok := lo2.Ret[0].BV.constVal()
			r.Check(ok && v == uint64(n), "C24.2", consL, c.P.Pos(ln.Pos()), fmt.Sprintf("= %d", n), fmt.Sprintf("Len returns %d on the range that needs %d bytes (Append would emit a different number of bytes than Len reports)", v, n))
		}
	}
	// beyond 2^62-1: both panic
	for _, f := range []struct {
		fd   *ast.FuncDecl
		idx  int
		rule string
		args []bvVal
	}{{app, 1, "C24.1", []bvVal{{IsList: true}, {BV: bvInput("i", 64)}}}, {ln, 0, "C24.2", []bvVal{{BV: bvInput("i", 64)}}}} {
		x := newExec()
		x.bindParams(f.fd, f.args)
		x.assume = rangeOracle(info, paramObj(f.fd, f.idx), 1<<62, ^uint64(0))
		out := x.run(f.fd.Body.List)
		r.Check(out != nil && out.Kind == "panic", f.rule, f.fd.Name.Name+"[>2^62-1]", c.P.Pos(f.fd.Pos()), "values that do not fit 62 bits are refused by panic", "a value above 2^62-1 is encoded (truncated) instead of being refused")
	}
	r.Floor("C24.1", 5)
	r.Floor("C24.2", 5)

	// ---- C24.3 Read
	for _, n := range varintSizes {
		x := newExec()
		first := bvInput("b0", 8)
		code := log2n(n)
		for t := 6; t < 8; t++ {
			if code>>(uint(t)-6)&1 == 1 {
				first.Bits[t] = abit{kind: '1'}
			} else {
				first.Bits[t] = abit{kind: '0'}
			}
		}
		nread := 0
		x.calls = func(call *ast.CallExpr, args []bvVal) (bvVal, bool) { return bvVal{}, false }
		// ReadByte results: the k-th multi-value assignment's first variable becomes byte k
		// (first byte carries the code bits)
		x2 := x
		_ = x2
		cons := fmt.Sprintf("Read[code=%d]", code)
		// run manually so that the first ReadByte is `first`
		var res *bvOutcome
		stmts := rd.Body.List
		for i := 0; i < len(stmts) && res == nil; i++ {
			if as, ok := stmts[i].(*ast.AssignStmt); ok && len(as.Lhs) == 2 && len(as.Rhs) == 1 {
				if call, ok := as.Rhs[0].(*ast.CallExpr); ok {
					if se, ok := call.Fun.(*ast.SelectorExpr); ok && se.Sel.Name == "ReadByte" {
						id := as.Lhs[0].(*ast.Ident)
						o := objOf(info, id)
						if nread == 0 {
							x.vars[o] = bvVal{BV: first}
						} else {
							x.vars[o] = bvVal{BV: bvInput(fmt.Sprintf("b%d", nread), 8)}
						}
						nread++
						continue
					}
				}
			}
			if is, ok := stmts[i].(*ast.IfStmt); ok && isErrCheck(info, is.Cond) {
				continue
			}
			res = x.run([]ast.Stmt{stmts[i]})
		}
		if res == nil || res.Kind != "return" {
			why := "no return"
			if res != nil {
				why = res.Kind + " " + res.Why
			}
			r.Bad("C24.3", cons, c.P.Pos(rd.Pos()), "Read does not return a value for length code %d: %s", code, why)
			continue
		}
		val := res.Ret[0].BV
		why := ""
		if nread != n {
			why = fmt.Sprintf("%d bytes are consumed for length code %d, the encoding has %d", nread, code, n)
		}
		for j := 0; j < n && why == ""; j++ {
			for t := 0; t < 8; t++ {
				pos := 8*(n-1-j) + t
				got := val.Bits[pos]
				if j == 0 && t >= 6 {
					if got.kind != '0' {
						why = fmt.Sprintf("bit %d of the result is %s: the length code is not masked off", pos, got)
					}
					continue
				}
				if !(got.kind == 'i' && got.src == fmt.Sprintf("b%d", j) && got.idx == t) {
					why = fmt.Sprintf("bit %d of the result is %s, expected bit %d of byte %d", pos, got, t, j)
				}
			}
		}
		for k := 8 * n; k < 64 && why == ""; k++ {
			if val.Bits[k].kind != '0' {
				why = fmt.Sprintf("bit %d of the result is %s, expected 0", k, val.Bits[k])
			}
		}
		r.Check(why == "", "C24.3", cons, c.P.Pos(rd.Pos()), fmt.Sprintf("consumes %d bytes and returns their big-endian value without the code bits", n), why)
	}
	r.Floor("C24.3", 4)

	// ---- C24.4 AppendWithLen
	c24AppendWithLen(c, qp, awl, app, ln)
	// ---- C24.5 / C24.6
	c24Marshal(c)
}

func c24AppendWithLen(c *Ctx, qp *packages.Package, awl, app, ln *ast.FuncDecl) {
	r := c.R
	info := qp.TypesInfo
	var iObj, lenObj types.Object
	k := 0
	for _, fl := range awl.Type.Params.List {
		for _, nm := range fl.Names {
			if k == 1 {
				iObj = info.Defs[nm]
			}
			if k == 2 {
				lenObj = info.Defs[nm]
			}
			k++
		}
	}
	for _, l := range varintSizes {
		for _, length := range []int{1, 2, 3, 4, 5, 8, 16} {
			lo, hi := varintRange(l)
			x := &bvExec{pkg: qp, info: info, vars: map[types.Object]bvVal{}}
			x.bindParams(awl, []bvVal{{IsList: true}, {BV: inputFor("i", l)}, {BV: bvConst(uint64(length), 64)}})
			delegated := false
			x.calls = func(call *ast.CallExpr, args []bvVal) (bvVal, bool) {
				if an.IsCallTo(info, call, load.ModPath+"/internal/quicvarint", "", "Len") {
					return bvVal{BV: bvConst(uint64(l), 64)}, true
				}
				if an.IsCallTo(info, call, load.ModPath+"/internal/quicvarint", "", "Append") {
					delegated = true
					return bvVal{IsList: true, List: []BV{bvConst(0xEE, 8)}}, true
				}
				return bvVal{}, false
			}
			x.assume = rangeOracle(info, iObj, lo, hi)
			_ = lenObj
			out := x.run(awl.Body.List)
			cons := fmt.Sprintf("AppendWithLen[l=%d,length=%d]", l, length)
			pos := c.P.Pos(awl.Pos())
			valid := length == 1 || length == 2 || length == 4 || length == 8
			switch {
			case out == nil || out.Kind == "stuck":
				why := "no outcome"
				if out != nil {
					why = out.Why
				}
				r.Bad("C24.4", cons, pos, "cannot execute abstractly: %s", why)
			case !valid:
				r.Check(out.Kind == "panic", "C24.4", cons, pos, "an invalid width panics", fmt.Sprintf("width %d is not a varint width but is accepted", length))
			case length < l:
				r.Check(out.Kind == "panic", "C24.4", cons, pos, "a width too small for the value panics", "a value needing more bytes than requested is truncated instead of refused")
			case length == l:
				r.Check(out.Kind == "return" && delegated, "C24.4", cons, pos, "the minimal width delegates to Append", "width equal to the minimal length does not produce the minimal encoding")
			default:
				if out.Kind != "return" {
					r.Bad("C24.4", cons, pos, "panics although the value fits in %d bytes", length)
					continue
				}
				// expected: `length` bytes encoding i (bits above 8l-2 are zero)
				why := expectVarintPadded(out.Ret[0].List, length, l)
				r.Check(why == "", "C24.4", cons, pos, fmt.Sprintf("emits the %d-byte encoding of the value", length), why)
			}
		}
	}
	r.Floor("C24.4", 28)
}

// expectVarintPadded: `length` bytes, code = log2(length), value bits of i below 8l-2, zero elsewhere.
func expectVarintPadded(bytes []BV, length, l int) string {
	if len(bytes) != length {
		return fmt.Sprintf("%d bytes emitted, requested width %d", len(bytes), length)
	}
	code := log2n(length)
	for j, b := range bytes {
		for t := 0; t < 8; t++ {
			pos := 8*(length-1-j) + t
			got := b.Bits[t]
			if j == 0 && t >= 6 {
				want := byte('0')
				if code>>(uint(t)-6)&1 == 1 {
					want = '1'
				}
				if got.kind != want {
					return fmt.Sprintf("bit %d of the first byte is %s, the code for width %d needs %c", t, got, length, want)
				}
				continue
			}
			if pos >= 8*l-2 {
				if got.kind != '0' {
					return fmt.Sprintf("bit %d of byte %d is %s, expected 0 (padding)", t, j, got)
				}
				continue
			}
			if !(got.kind == 'i' && got.src == "i" && got.idx == pos && !got.neg) {
				return fmt.Sprintf("bit %d of byte %d is %s, expected bit %d of the value", t, j, got, pos)
			}
		}
	}
	return ""
}

func c24Marshal(c *Ctx) {
	r := c.R
	tls := c.P.TLS
	info := tls.TypesInfo
	qpath := load.ModPath + "/internal/quicvarint"
	md := load.FuncDecl(tls, "TransportParameters", "Marshal")
	if md == nil {
		r.Unknown("C24.5", "TransportParameters.Marshal", "", "not found")
		return
	}
	recv := info.Defs[md.Recv.List[0].Names[0]]
	var rs *ast.RangeStmt
	ast.Inspect(md.Body, func(n ast.Node) bool {
		if x, ok := n.(*ast.RangeStmt); ok && rs == nil {
			rs = x
		}
		return true
	})
	pos := c.Pos(md)
	if rs == nil {
		r.Bad("C24.5", "Marshal:loop", pos, "no loop over the parameter list")
		return
	}
	id, ok := an.Unparen(rs.X).(*ast.Ident)
	r.Check(ok && info.Uses[id] == recv, "C24.5", "Marshal:order", pos, "ranges over the receiver list in slice order", "Marshal does not iterate the parameter list itself in order")
	elem, _ := rs.Value.(*ast.Ident)
	var eo types.Object
	if elem != nil {
		eo = info.Defs[elem]
	}
	onElem := func(call *ast.CallExpr, m string) bool {
		se, ok := call.Fun.(*ast.SelectorExpr)
		if !ok || se.Sel.Name != m {
			return false
		}
		x, ok := an.Unparen(se.X).(*ast.Ident)
		return ok && eo != nil && info.Uses[x] == eo
	}
	// the body must be: b = Append(b, elem.ID()); b = Append(b, uint64(len(elem.Value()))); b = append(b, elem.Value()...)
	step := 0
	problems := ""
	for _, s := range rs.Body.List {
		as, ok := s.(*ast.AssignStmt)
		if !ok || len(as.Rhs) != 1 {
			problems = "statement other than an append in the loop body"
			break
		}
		call, ok := as.Rhs[0].(*ast.CallExpr)
		if !ok {
			problems = "non-call"
			break
		}
		switch step {
		case 0:
			if an.IsCallTo(info, call, qpath, "", "Append") && len(call.Args) == 2 {
				if c2, ok := an.Unparen(call.Args[1]).(*ast.CallExpr); ok && onElem(c2, "ID") {
					step = 1
					continue
				}
			}
			problems = "first field is not varint(ID())"
		case 1:
			if an.IsCallTo(info, call, qpath, "", "Append") && len(call.Args) == 2 {
				okLen := false
				arg := an.Unparen(call.Args[1])
				for {
					cv, ok := arg.(*ast.CallExpr)
					if !ok {
						break
					}
					if tv, ok := info.Types[cv.Fun]; ok && tv.IsType() && len(cv.Args) == 1 {
						arg = an.Unparen(cv.Args[0])
						continue
					}
					break
				}
				if lc, ok := arg.(*ast.CallExpr); ok {
					if lid, ok := lc.Fun.(*ast.Ident); ok && lid.Name == "len" && len(lc.Args) == 1 {
						if vc, ok := an.Unparen(lc.Args[0]).(*ast.CallExpr); ok && onElem(vc, "Value") {
							okLen = true
						}
					}
				}
				if okLen {
					step = 2
					continue
				}
			}
			problems = "second field is not varint(len(Value()))"
		case 2:
			if idf, ok := call.Fun.(*ast.Ident); ok && idf.Name == "append" && call.Ellipsis.IsValid() && len(call.Args) == 2 {
				if vc, ok := an.Unparen(call.Args[1]).(*ast.CallExpr); ok && onElem(vc, "Value") {
					step = 3
					continue
				}
			}
			problems = "third field is not the bytes of Value()"
		default:
			problems = "extra output after the value"
		}
		break
	}
	r.Check(step == 3 && problems == "", "C24.5", "Marshal:entry-layout", c.Pos(rs), "each entry is varint(ID) varint(len(Value)) Value", "entry layout broken: "+problems)
	// memoisation of GREASE id/value
	for _, m := range []struct{ meth, field string }{{"Value", "ValueOverride"}, {"ID", "IdOverride"}} {
		fd := load.FuncDecl(tls, "GREASETransportParameter", m.meth)
		if fd == nil {
			r.Unknown("C24.5", "GREASETransportParameter."+m.meth, "", "not found")
			continue
		}
		okRet := true
		for _, ret := range returnsOf(fd) {
			if len(ret.Results) != 1 || !an.FieldSel(info, an.Unparen(ret.Results[0]), "GREASETransportParameter", m.field) {
				okRet = false
			}
		}
		stores := 0
		ast.Inspect(fd.Body, func(n ast.Node) bool {
			if as, ok := n.(*ast.AssignStmt); ok {
				for _, l := range as.Lhs {
					if an.FieldSel(info, an.Unparen(l), "GREASETransportParameter", m.field) {
						stores++
					}
				}
			}
			return true
		})
		r.Check(okRet && stores >= 1, "C24.5", "GREASETransportParameter."+m.meth+":memoised", c.Pos(fd), "the generated value is stored in "+m.field+" and that field is what is returned (two calls agree)",
			"the generated "+m.meth+" is not memoised: Marshal calls it twice and the emitted length can disagree with the emitted bytes")
	}
	r.Floor("C24.5", 4)

	// C24.6 implementations
	io, _ := tls.Types.Scope().Lookup("TransportParameter").(*types.TypeName)
	if io == nil {
		r.Unknown("C24.6", "TransportParameter", "", "interface not found")
		return
	}
	iface := io.Type().Underlying().(*types.Interface)
	ids := map[int64][]string{}
	nImpl := 0
	scope := tls.Types.Scope()
	names := scope.Names()
	sort.Strings(names)
	for _, n := range names {
		tn, ok := scope.Lookup(n).(*types.TypeName)
		if !ok || tn.IsAlias() {
			continue
		}
		named, ok := tn.Type().(*types.Named)
		if !ok {
			continue
		}
		if _, isI := named.Underlying().(*types.Interface); isI {
			continue
		}
		if !types.Implements(named, iface) && !types.Implements(types.NewPointer(named), iface) {
			continue
		}
		nImpl++
		idd := load.FuncDecl(tls, n, "ID")
		vd := load.FuncDecl(tls, n, "Value")
		if idd == nil || vd == nil {
			r.Unknown("C24.6", n, "", "ID/Value declaration not found")
			continue
		}
		for _, ret := range returnsOf(idd) {
			if len(ret.Results) == 1 {
				if v, ok := an.ConstInt(info, ret.Results[0]); ok {
					ids[v] = append(ids[v], n)
				}
			}
		}
		if b, ok := named.Underlying().(*types.Basic); ok && b.Info()&types.IsInteger != 0 {
			okV := false
			for _, ret := range returnsOf(vd) {
				if len(ret.Results) == 1 {
					if call, ok := an.Unparen(ret.Results[0]).(*ast.CallExpr); ok && an.IsCallTo(info, call, qpath, "", "Append") && len(call.Args) == 2 {
						rv := info.Defs[vd.Recv.List[0].Names[0]]
						if an.MentionsObj(info, call.Args[1], rv) {
							if cl, ok := an.Unparen(call.Args[0]).(*ast.CompositeLit); ok && len(cl.Elts) == 0 {
								okV = true
							}
						}
					}
				}
			}
			r.Check(okV, "C24.6", n+".Value", c.Pos(vd), "integer parameter encoded as a minimal varint of its value", "integer transport parameter is not encoded with quicvarint.Append([]byte{}, value)")
		} else {
			r.Ok("C24.6", n+".Value", c.Pos(vd), "non-integer parameter (bytes / structured value)")
		}
	}
	for id, ts := range ids {
		if len(ts) > 1 {
			sort.Strings(ts)
			r.Bad("C24.6", fmt.Sprintf("id-0x%x", id), "", "transport parameter id 0x%x is returned by %v", id, ts)
		}
	}
	r.Count("transport_parameter_implementations", nImpl)
	if nImpl < 18 {
		r.Unknown("C24.6", "implementations", "", "found %d TransportParameter implementations, 18 confirmed by hand", nImpl)
	}
	r.Floor("C24.6", 18)
}
