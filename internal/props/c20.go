package props

import (
	"go/ast"
	"go/token"
	"go/types"
	"os"
	"strings"

	"verif/internal/an"
	"verif/internal/load"
)

func init() { register(&Prop{ID: "C20", Run: runC20}) }

var c20Ops = []string{"SetSessionCache", "BuildHandshakeStateWithoutSession", "SetSessionTicketExtension", "SetPskExtension", "SetSessionState", "BuildHandshakeState", "Handshake"}

const tsSeqBound = 6

func runC20(c *Ctx) {
	r := c.R
	r.Technique = "typestate analysis: explicit-state abstract interpretation of the session API bodies over (controller state, locked, build status, loadSession tracker, extension/cache nil-ness) with summaries extracted from source on every run; bounded exploration of call sequences; CFG/ownership and field-map rules"
	r.Explanation = "C20.1 every assertion/panic site in the interpreted session code is classified over all sequences (<=6) of the seven public session calls: unreachable, documented (assertCanSkip/assertHelloNotBuilt/assertNotLocked/panicOnNil), dependent on values outside the abstract state, or an internal assertion reachable from a definite abstract state (violation). " +
		"C20.2 once the controller is locked no public call changes state/extensions. C20.3 BuildHandshakeState returning nil from an *Initialized state ends in the matching *AllSet state, locked. " +
		"C20.4 controller fields are written only by controller methods, every write to state is dominated by an assertion on state, locked=true only in finalCheck which buildHandshakeState calls before marking the hello built. " +
		"C20.7 every interpreted assignment to state follows the order NoSession -> *Initialized -> *AllSet. C20.5 setSessionTicketToUConn/setPskToUConn and the extension accessors/encoders copy ticket, session, identities, binders, binder key and early secret unchanged. C20.6 MakeClientSessionState, getters and setters agree on the SessionState field behind each name."
	r.NotDecided = "that the server resumes; behaviour of user-supplied extension implementations; assertions whose condition is not over the abstract state (listed as not decided); sequences longer than the bound; ClientHelloID, SessionTicketsDisabled and skipResumptionOnNilExtension are fixed per connection"
	r.Assumptions = append(r.Assumptions, "one UConn/sessionController/Config per exploration (field-based abstraction); the connection is not passed into its own handshake as a module-interface value; functions that neither write tracked fields nor assert over them are treated as returning unknown values")

	e := newTSEngine(c, "C20.1")
	if e != nil {
		if res := e.explore("C20.1", "UClient", "UConn", c20Ops, tsSeqBound); res != nil {
			res.report("C20.1")
			r.Floor("C20.1", 34)
			c20Invariants(c, res)
			if os.Getenv("VERIF_TSDUMP") != "" {
				res.dump()
			}
		}
	}
	c20Ownership(c)
	c20Copies(c)
	c20MakeSession(c)
}

// varIdx finds a tracked variable by owner and field.
func (e *tsEngine) varIdx(owner, field string) int {
	for i, v := range e.vars {
		if v.owner == owner && v.field == field {
			return i
		}
	}
	return -1
}

// c20Invariants checks properties of the explored transition relation.
func c20Invariants(c *Ctx, res *tsResult) {
	r, e := c.R, res.e
	iState, iLocked := e.varIdx("sessionController", "state"), e.varIdx("sessionController", "locked")
	iT, iP := e.varIdx("sessionController", "sessionTicketExt"), e.varIdx("sessionController", "pskExtension")
	if iState < 0 || iLocked < 0 || iT < 0 || iP < 0 {
		r.Unknown("C20.2", "state-vars", "", "sessionController.{state,locked,sessionTicketExt,pskExtension} not all found")
		return
	}
	isTrue := func(st string, i int) bool { v := e.decode(i, st[i]); return v.k == kBool && v.n != 0 }
	// C20.2: locked => state, extensions and locked are stable
	bad := map[string]string{}
	nLocked := 0
	for _, t := range res.trans {
		if !isTrue(t.pre, iLocked) {
			continue
		}
		nLocked++
		for _, i := range []int{iState, iLocked, iT, iP} {
			if t.pre[i] != t.post[i] {
				if _, dup := bad[t.op]; !dup {
					bad[t.op] = e.vars[i].field + ": " + e.vars[i].show(e.decode(i, t.pre[i])) + " -> " + e.vars[i].show(e.decode(i, t.post[i])) + " from {" + e.showState(t.pre) + "}"
				}
			}
		}
	}
	for _, op := range res.ops {
		if why, isBad := bad[op]; isBad {
			r.Bad("C20.2", "locked-stable:"+op, "", "a locked session is modified by %s: %s", op, why)
		} else {
			r.Ok("C20.2", "locked-stable:"+op, "", "no transition of %s from a locked state changes state/extensions (%d locked transitions explored)", op, nLocked)
		}
	}
	if nLocked == 0 {
		r.Unknown("C20.2", "locked-reachable", "", "no locked state was reached: the lock is never taken or the exploration is broken")
	}
	r.Floor("C20.2", len(res.ops))
	// C20.3: injected session is applied by a successful BuildHandshakeState
	tvS := e.vars[iState]
	nameOf := func(st string) string { return tvS.show(e.decode(iState, st[iState])) }
	// one obligation per value of the symbolic configuration (e.g. ClientHelloID = HelloGolang / other)
	symOf := func(st string) string {
		var p []string
		for i, tv := range e.vars {
			if tv.dom == domSym {
				p = append(p, tv.field+"="+tv.show(e.decode(i, st[i])))
			}
		}
		return strings.Join(p, ",")
	}
	for _, op := range []string{"BuildHandshakeState"} {
		badWhy := map[string]string{}
		applied := map[string]int{}
		for _, t := range res.trans {
			if t.op != op || t.ret.k != kNil {
				continue
			}
			pre := nameOf(t.pre)
			if !strings.HasSuffix(pre, "Initialized") {
				continue
			}
			cls := symOf(t.post)
			want := strings.TrimSuffix(pre, "Initialized") + "AllSet"
			if nameOf(t.post) == want && isTrue(t.post, iLocked) {
				applied[cls]++
				continue
			}
			if badWhy[cls] == "" {
				badWhy[cls] = "from {" + e.showState(t.pre) + "} it returns nil in {" + e.showState(t.post) + "}"
			}
			if _, ok := applied[cls]; !ok {
				applied[cls] = 0
			}
		}
		if len(applied) == 0 {
			r.Unknown("C20.3", "injected-applied:"+op, "", "no successful %s from an *Initialized state was explored", op)
		}
		for cls, n := range applied {
			if why := badWhy[cls]; why != "" {
				r.Bad("C20.3", "injected-applied:"+op+"["+cls+"]", "", "%s succeeds without applying the injected session (expected the *AllSet state, locked): %s", op, why)
			} else {
				r.Ok("C20.3", "injected-applied:"+op+"["+cls+"]", "", "%d successful transitions from *Initialized all end in the matching *AllSet state, locked", n)
			}
		}
	}
	r.Floor("C20.3", 2)
	// C20.7: the order NoSession -> XInitialized -> XAllSet, read off the constant names
	nEdges := 0
	for k, pos := range e.writeLog {
		if k[0] != iState {
			continue
		}
		from, to := tvS.show(e.decode(iState, byte(k[1]))), tvS.show(e.decode(iState, byte(k[2])))
		ok := false
		switch {
		case strings.HasSuffix(to, "Initialized"):
			ok = !strings.HasSuffix(from, "Initialized") && !strings.HasSuffix(from, "AllSet")
		case strings.HasSuffix(to, "AllSet"):
			x := strings.TrimSuffix(to, "AllSet")
			ok = from == x+"Initialized" || from == to
		default:
			ok = from == to
		}
		nEdges++
		r.Check(ok, "C20.7", "state-edge:"+from+"->"+to, c.P.Pos(pos), "assignment follows NoSession -> *Initialized -> *AllSet", "the controller state is assigned out of order ("+from+" -> "+to+"): the step that copies the session into the handshake state is skipped or repeated")
	}
	r.Floor("C20.7", 5)
}

// c20Ownership: who writes the controller fields, and under which guards.
func c20Ownership(c *Ctx) {
	r := c.R
	info := c.Info()
	sc := load.Named(c.P.TLS, "sessionController")
	if sc == nil {
		r.Unknown("C20.4", "sessionController", "", "type not found")
		return
	}
	st := sc.Underlying().(*types.Struct)
	fields := map[*types.Var]bool{}
	for i := 0; i < st.NumFields(); i++ {
		fields[st.Field(i)] = true
	}
	fieldOf := func(x ast.Expr) *types.Var {
		se, ok := an.Unparen(x).(*ast.SelectorExpr)
		if !ok {
			return nil
		}
		sel := info.Selections[se]
		if sel == nil || sel.Kind() != types.FieldVal {
			return nil
		}
		v, _ := sel.Obj().(*types.Var)
		if fields[v] {
			return v
		}
		return nil
	}
	writers := map[string]int{}
	for _, pkg := range c.P.Pkgs {
		for _, fd := range load.AllFuncDecls(pkg) {
			if pkg != c.P.TLS {
				continue
			}
			recv := load.RecvName(fd)
			ast.Inspect(fd.Body, func(n ast.Node) bool {
				var lhs []ast.Expr
				switch s := n.(type) {
				case *ast.AssignStmt:
					lhs = s.Lhs
				case *ast.IncDecStmt:
					lhs = []ast.Expr{s.X}
				case *ast.UnaryExpr:
					if s.Op == token.AND {
						lhs = []ast.Expr{s.X}
					}
				case *ast.CompositeLit:
					if an.TypeName(info.TypeOf(s)) == "sessionController" && !(recv == "" && fd.Name.Name == "newSessionController") {
						r.Bad("C20.4", "own:literal@"+fd.Name.Name, c.Pos(s), "a sessionController is constructed outside newSessionController")
					}
				}
				for _, l := range lhs {
					f := fieldOf(l)
					if f == nil {
						continue
					}
					if recv != "sessionController" {
						r.Bad("C20.4", "own:"+f.Name()+"@"+recvDot(recv)+fd.Name.Name, c.Pos(l), "sessionController.%s is written outside the controller's methods", f.Name())
					} else {
						writers[f.Name()]++
					}
				}
				return true
			})
		}
	}
	for i := 0; i < st.NumFields(); i++ {
		f := st.Field(i).Name()
		r.Ok("C20.4", "own:"+f, "", "written only inside sessionController methods (%d writes)", writers[f])
	}
	// the controller pointer itself is installed once, by the constructor
	for _, fd := range load.AllFuncDecls(c.P.TLS) {
		ast.Inspect(fd.Body, func(n ast.Node) bool {
			as, ok := n.(*ast.AssignStmt)
			if !ok {
				return true
			}
			for _, l := range as.Lhs {
				if (an.FieldSel(info, an.Unparen(l), "UConn", "sessionController") || an.FieldSel(info, an.Unparen(l), "utlsConnExtraFields", "sessionController")) && fd.Name.Name != "UClient" {
					r.Bad("C20.4", "own:controller-pointer@"+fd.Name.Name, c.Pos(l), "the session controller of a connection is replaced after construction (its state would be reset)")
				}
			}
			return true
		})
	}
	// every write to state is dominated by an assertion over state
	nState := 0
	for _, fd := range load.AllFuncDecls(c.P.TLS) {
		if load.RecvName(fd) != "sessionController" {
			continue
		}
		fn := an.NewFn(c.P.TLS, fd)
		writes := fn.FindNodes(an.AssignsTo(c.isField("sessionController", "state")))
		if len(writes) == 0 {
			continue
		}
		asserts := fn.Find(func(n ast.Node) bool {
			call, ok := n.(*ast.CallExpr)
			if !ok {
				return false
			}
			f, _ := an.Callee(info, call).(*types.Func)
			if f == nil {
				return false
			}
			switch {
			case an.FuncIs(f, Mod, "sessionController", "assertControllerState"):
				return true
			case an.FuncIs(f, Mod, "", "uAssert"):
				return len(call.Args) > 0 && an.MentionsField(info, call.Args[0], "sessionController", "state")
			}
			return false
		})
		// a branch on state (if s.state != X { return err }) guards as well as an assertion does
		for _, b := range fn.G.Blocks {
			if !b.Live {
				continue
			}
			if _, _, isCond := an.CondEdges(b); isCond && an.MentionsField(info, b.Nodes[len(b.Nodes)-1], "sessionController", "state") {
				asserts = append(asserts, an.Point{B: b, I: len(b.Nodes) - 1})
			}
		}
		for _, w := range writes {
			nState++
			ok := len(asserts) > 0 && fn.MustPass(w.P, asserts, nil)
			r.Check(ok, "C20.4", "state-write-guarded:"+fd.Name.Name, c.Pos(w.N), "write to state is dominated by an assertion on the predecessor state",
				"sessionController.state is assigned on a path that passes no assertion over the previous state")
		}
		// locked = true only in finalCheck
	}
	nLock := 0
	for _, fd := range load.AllFuncDecls(c.P.TLS) {
		ast.Inspect(fd.Body, func(n ast.Node) bool {
			as, ok := n.(*ast.AssignStmt)
			if !ok || len(as.Lhs) != len(as.Rhs) {
				return true
			}
			for i, l := range as.Lhs {
				if !an.FieldSel(info, an.Unparen(l), "sessionController", "locked") {
					continue
				}
				tv := info.Types[as.Rhs[i]]
				isFalse := tv.Value != nil && tv.Value.String() == "false"
				if isFalse {
					r.Bad("C20.4", "locked-reset@"+fd.Name.Name, c.Pos(l), "locked is cleared: a locked session could be modified again")
					continue
				}
				nLock++
				if tv.Value == nil || tv.Value.String() != "true" {
					r.Bad("C20.4", "locked-set@"+fd.Name.Name, c.Pos(l), "locked is assigned %s instead of the constant true: some sessions stay unlocked and crypto/tls's loadSession runs again over them", an.Str(as.Rhs[i]))
					continue
				}
				r.Check(load.RecvName(fd) == "sessionController" && fd.Name.Name == "finalCheck", "C20.4", "locked-set@"+fd.Name.Name, c.Pos(l),
					"locked is set by finalCheck", "locked is set outside finalCheck (before the final state check)")
			}
			return true
		})
	}
	if fc := c.Fn("C20.4", "sessionController", "finalCheck"); fc != nil {
		sets := fc.Find(an.AssignsTo(c.isField("sessionController", "locked")))
		okAll := len(sets) > 0
		for _, ret := range fc.ExitsReachable(fc.EntryPoint(), nil, nil) {
			if !fc.MustPass(ret, sets, nil) {
				okAll = false
			}
		}
		r.Check(okAll, "C20.4", "finalCheck:locks", c.Pos(fc.Decl), "every normal exit of finalCheck has locked the session", "finalCheck can return without locking the session: go's loadSession would then overwrite an injected session")
	}
	if b := c.Fn("C20.4", "UConn", "buildHandshakeState"); b != nil {
		fcalls := b.Find(an.CallTo(info, Mod, "sessionController", "finalCheck"))
		isBuilt := func(e ast.Expr) bool {
			id, ok := an.Unparen(e).(*ast.Ident)
			return ok && id.Name == "BuildByUtls" && info.Uses[id] != nil && info.Uses[id].Pkg() == c.P.TLS.Types
		}
		marks := b.FindNodes(func(n ast.Node) bool {
			as, ok := n.(*ast.AssignStmt)
			if !ok || len(as.Lhs) != 1 || len(as.Rhs) != 1 {
				return false
			}
			return an.FieldSel(info, an.Unparen(as.Lhs[0]), "UConn", "clientHelloBuildStatus") && isBuilt(as.Rhs[0])
		})
		if len(marks) == 0 {
			r.Unknown("C20.4", "buildHandshakeState:built-after-lock", c.Pos(b.Decl), "no assignment clientHelloBuildStatus = BuildByUtls found")
		}
		for _, m := range marks {
			r.Check(len(fcalls) > 0 && b.MustPass(m.P, fcalls, nil), "C20.4", "buildHandshakeState:built-after-lock", c.Pos(m.N),
				"the hello is marked built only after finalCheck locked the session", "the hello is marked BuildByUtls on a path that did not run finalCheck")
		}
	}
	_ = nState
	r.Floor("C20.4", 14)
}

func recvDot(recv string) string {
	if recv == "" {
		return ""
	}
	return recv + "."
}

// c20Copies: the injected values travel unchanged from the extension to the handshake state and the wire.
func c20Copies(c *Ctx) {
	r := c.R
	info := c.Info()
	// --- setSessionTicketToUConn: Hello.SessionTicket <- GetTicket(), Session <- GetSession()
	if fn := c.Fn("C20.5", "sessionController", "setSessionTicketToUConn"); fn != nil {
		want := map[string][2]string{ // destination field -> (owner, accessor)
			"SessionTicket": {"PubClientHelloMsg", "GetTicket"},
			"Session":       {"PubClientHandshakeState", "GetSession"},
		}
		for dst, w := range want {
			hits := fn.FindNodes(an.AssignsTo(c.isField(w[0], dst)))
			if len(hits) == 0 {
				r.Bad("C20.5", "ticket-copy:"+dst, c.Pos(fn.Decl), "setSessionTicketToUConn never assigns %s.%s: the injected ticket/session does not reach the handshake", w[0], dst)
				continue
			}
			isAccessor := func(x ast.Node) bool {
				call, isCall := x.(*ast.CallExpr)
				if !isCall || len(call.Args) != 0 {
					return false
				}
				f, _ := an.Callee(info, call).(*types.Func)
				if f == nil || f.Name() != w[1] {
					return false
				}
				se, isSel := call.Fun.(*ast.SelectorExpr)
				return isSel && an.FieldSel(info, an.Unparen(se.X), "sessionController", "sessionTicketExt")
			}
			for _, h := range hits {
				as := h.N.(*ast.AssignStmt)
				if len(as.Rhs) != 1 {
					r.Unknown("C20.5", "ticket-copy:"+dst, c.Pos(as), "assignment form not recognised")
					continue
				}
				rhs := an.Unparen(as.Rhs[0])
				// one level of local binding: t := ext.GetTicket(); Hello.SessionTicket = t
				if id, isId := rhs.(*ast.Ident); isId {
					obj := objOf(info, id)
					ast.Inspect(fn.Body, func(n ast.Node) bool {
						if d, ok := n.(*ast.AssignStmt); ok && len(d.Lhs) == 1 && len(d.Rhs) == 1 {
							if l, ok := d.Lhs[0].(*ast.Ident); ok && objOf(info, l) == obj {
								rhs = an.Unparen(d.Rhs[0])
							}
						}
						return true
					})
				}
				switch {
				case isAccessor(rhs):
					r.Ok("C20.5", "ticket-copy:"+dst, c.Pos(as), "%s is exactly sessionTicketExt.%s()", dst, w[1])
				case an.Contains(rhs, isAccessor):
					r.Bad("C20.5", "ticket-copy:"+dst, c.Pos(as), "%s is a transformation of sessionTicketExt.%s(), not the value itself: %s", dst, w[1], an.Str(rhs))
				default:
					r.Bad("C20.5", "ticket-copy:"+dst, c.Pos(as), "%s is not taken from sessionTicketExt.%s(): %s", dst, w[1], an.Str(rhs))
				}
			}
		}
	}
	// --- SessionTicketExtension accessors and encoder
	c20Returns(c, "SessionTicketExtension", "GetTicket", "Ticket")
	c20Returns(c, "SessionTicketExtension", "GetSession", "Session")
	if fn := c.Fn("C20.5", "SessionTicketExtension", "Read"); fn != nil {
		ok := false
		ast.Inspect(fn.Body, func(n ast.Node) bool {
			call, isCall := n.(*ast.CallExpr)
			if !isCall || len(call.Args) != 2 {
				return true
			}
			if id, isId := call.Fun.(*ast.Ident); isId && id.Name == "copy" {
				if _, isB := info.Uses[id].(*types.Builtin); isB && an.FieldSel(info, an.Unparen(call.Args[1]), "SessionTicketExtension", "Ticket") {
					ok = true
				}
			}
			return true
		})
		r.Check(ok, "C20.5", "wire:SessionTicketExtension.Read", c.Pos(fn.Decl), "the extension body is a copy of Ticket", "SessionTicketExtension.Read does not copy e.Ticket itself into the extension body")
	}
	// --- setPskToUConn: every field of PreSharedKeyCommon reaches a like-named destination
	if fn := c.Fn("C20.5", "sessionController", "setPskToUConn"); fn != nil {
		pc := load.Named(c.P.TLS, "PreSharedKeyCommon")
		if pc == nil {
			r.Unknown("C20.5", "psk-copy", c.Pos(fn.Decl), "PreSharedKeyCommon not found")
		} else {
			// the local bound to GetPreSharedKeyCommon()
			var common types.Object
			ast.Inspect(fn.Body, func(n ast.Node) bool {
				as, ok := n.(*ast.AssignStmt)
				if !ok || len(as.Lhs) != 1 || len(as.Rhs) != 1 {
					return true
				}
				if call, ok := an.Unparen(as.Rhs[0]).(*ast.CallExpr); ok {
					if f, _ := an.Callee(info, call).(*types.Func); f != nil && f.Name() == "GetPreSharedKeyCommon" {
						if se, ok := call.Fun.(*ast.SelectorExpr); ok && an.FieldSel(info, an.Unparen(se.X), "sessionController", "pskExtension") {
							if id, ok := as.Lhs[0].(*ast.Ident); ok {
								common = objOf(info, id)
							}
						}
					}
				}
				return true
			})
			if common == nil {
				r.Unknown("C20.5", "psk-copy", c.Pos(fn.Decl), "no local bound to pskExtension.GetPreSharedKeyCommon()")
			} else {
				pst := pc.Underlying().(*types.Struct)
				got := map[string]string{}
				pos := map[string]token.Pos{}
				ast.Inspect(fn.Body, func(n ast.Node) bool {
					as, ok := n.(*ast.AssignStmt)
					if !ok || as.Tok != token.ASSIGN || len(as.Lhs) != len(as.Rhs) {
						return true
					}
					for i, rhs := range as.Rhs {
						se, ok := an.Unparen(rhs).(*ast.SelectorExpr)
						if !ok {
							continue
						}
						id, ok := an.Unparen(se.X).(*ast.Ident)
						if !ok || objOf(info, id) != common {
							continue
						}
						if l, ok := an.Unparen(as.Lhs[i]).(*ast.SelectorExpr); ok {
							// a cross-wired destination is kept in preference to a correct one
							if prev, dup := got[se.Sel.Name]; !dup || strings.HasSuffix(prev, se.Sel.Name) {
								got[se.Sel.Name] = l.Sel.Name
								pos[se.Sel.Name] = as.Pos()
							}
						}
					}
					return true
				})
				for i := 0; i < pst.NumFields(); i++ {
					f := pst.Field(i).Name()
					d, ok := got[f]
					mentioned := an.Contains(fn.Body, func(n ast.Node) bool {
						as, isAs := n.(*ast.AssignStmt)
						if !isAs {
							return false
						}
						for _, rhs := range as.Rhs {
							if an.Contains(rhs, func(m ast.Node) bool {
								se, isSel := m.(*ast.SelectorExpr)
								if !isSel || se.Sel.Name != f {
									return false
								}
								id, isId := an.Unparen(se.X).(*ast.Ident)
								return isId && objOf(info, id) == common
							}) {
								return true
							}
						}
						return false
					})
					switch {
					case !ok && mentioned:
						r.Unknown("C20.5", "psk-copy:"+f, c.Pos(fn.Decl), "PreSharedKeyCommon.%s is used but not in a plain `dst = common.%s` assignment", f, f)
					case !ok:
						r.Bad("C20.5", "psk-copy:"+f, c.Pos(fn.Decl), "PreSharedKeyCommon.%s of the injected extension is never copied to the handshake state", f)
					case !strings.HasSuffix(d, f):
						r.Bad("C20.5", "psk-copy:"+f, c.P.Pos(pos[f]), "PreSharedKeyCommon.%s is copied into %s (cross-wired)", f, d)
					default:
						r.Ok("C20.5", "psk-copy:"+f, c.P.Pos(pos[f]), "copied unchanged into %s", d)
					}
				}
			}
		}
	}
	// --- PSK encoders: Read passes the receiver's Identities and Binders, in this order
	for _, tn := range []string{"UtlsPreSharedKeyExtension", "FakePreSharedKeyExtension"} {
		fn := c.Fn("C20.5", tn, "Read")
		if fn == nil {
			continue
		}
		found := false
		for _, h := range fn.FindNodes(an.CallTo(info, Mod, "", "readPskIntoBytes")) {
			call := h.N.(*ast.CallExpr)
			found = true
			ok := len(call.Args) == 3 && c20RecvField(info, fn, call.Args[1], "Identities") && c20RecvField(info, fn, call.Args[2], "Binders")
			r.Check(ok, "C20.5", "wire:"+tn+".Read", c.Pos(call), "encodes the receiver's Identities and Binders", "the PSK encoder is not fed the receiver's own Identities and Binders (in this order)")
		}
		if !found {
			r.Unknown("C20.5", "wire:"+tn+".Read", c.Pos(fn.Decl), "call to readPskIntoBytes not found")
		}
	}
	// parameters of readPskIntoBytes/pskExtLen are used consistently: identities feed labels, binders feed binders
	// --- initialisers store their parameters in the like-named fields
	c20ParamToField(c, "SessionTicketExtension", "InitializeByUtls", []string{"session", "ticket"})
	c20ParamToField(c, "UtlsPreSharedKeyExtension", "InitializeByUtls", []string{"session", "earlySecret", "binderKey", "identities"})
	// --- Fake GetPreSharedKeyCommon: keyed literal K: e.K
	if fn := c.Fn("C20.5", "FakePreSharedKeyExtension", "GetPreSharedKeyCommon"); fn != nil {
		n := 0
		ast.Inspect(fn.Body, func(x ast.Node) bool {
			cl, ok := x.(*ast.CompositeLit)
			if !ok || an.TypeName(info.TypeOf(cl)) != "PreSharedKeyCommon" {
				return true
			}
			for _, el := range cl.Elts {
				kv, ok := el.(*ast.KeyValueExpr)
				if !ok {
					continue
				}
				k := kv.Key.(*ast.Ident).Name
				n++
				r.Check(c20RecvField(info, fn, kv.Value, k), "C20.5", "fake-common:"+k, c.Pos(kv), "PreSharedKeyCommon."+k+" is the receiver's "+k, "PreSharedKeyCommon."+k+" is not filled from the receiver's "+k)
			}
			return true
		})
		if n < 2 {
			r.Bad("C20.5", "fake-common", c.Pos(fn.Decl), "FakePreSharedKeyExtension.GetPreSharedKeyCommon does not export both Identities and Binders")
		}
	}
	// --- SetSessionState wraps the caller's session and ticket
	if fn := c.Fn("C20.5", "UConn", "SetSessionState"); fn != nil {
		okT, okS := false, false
		ast.Inspect(fn.Body, func(n ast.Node) bool {
			as, ok := n.(*ast.AssignStmt)
			if !ok || len(as.Lhs) != 1 || len(as.Rhs) != 1 {
				return true
			}
			if an.FieldSel(info, an.Unparen(as.Lhs[0]), "SessionTicketExtension", "Ticket") && an.FieldSel(info, an.Unparen(as.Rhs[0]), "SessionState", "ticket") {
				okT = true
			}
			if an.FieldSel(info, an.Unparen(as.Lhs[0]), "SessionTicketExtension", "Session") && an.FieldSel(info, an.Unparen(as.Rhs[0]), "ClientSessionState", "session") {
				okS = true
			}
			return true
		})
		r.Check(okT, "C20.5", "SetSessionState:ticket", c.Pos(fn.Decl), "Ticket is the session's ticket", "SetSessionState does not pass session.session.ticket as the extension's Ticket")
		r.Check(okS, "C20.5", "SetSessionState:session", c.Pos(fn.Decl), "Session is the caller's session", "SetSessionState does not pass session.session as the extension's Session")
	}
	r.Floor("C20.5", 20)
}

// c20RecvField: x is exactly <receiver>.<field> (possibly through an embedded struct).
func c20RecvField(info *types.Info, fn *an.Fn, x ast.Expr, field string) bool {
	se, ok := an.Unparen(x).(*ast.SelectorExpr)
	if !ok || se.Sel.Name != field {
		return false
	}
	id, ok := an.Unparen(se.X).(*ast.Ident)
	if !ok || fn.Decl.Recv == nil || len(fn.Decl.Recv.List[0].Names) == 0 {
		return false
	}
	return objOf(info, id) == info.Defs[fn.Decl.Recv.List[0].Names[0]]
}

// c20Returns: method recv.name returns exactly the receiver's field.
func c20Returns(c *Ctx, recv, name, field string) {
	fn := c.Fn("C20.5", recv, name)
	if fn == nil {
		return
	}
	ok, n := true, 0
	for _, p := range fn.Returns() {
		rs := p.Node().(*ast.ReturnStmt)
		n++
		if len(rs.Results) != 1 || !c20RecvField(c.Info(), fn, rs.Results[0], field) {
			ok = false
		}
	}
	c.R.Check(ok && n > 0, "C20.5", "accessor:"+recv+"."+name, c.Pos(fn.Decl), "returns the receiver's "+field+" unchanged", name+" does not return the receiver's "+field+" unchanged")
}

// c20ParamToField: the named parameters are stored into receiver fields of the same name (case-insensitive).
func c20ParamToField(c *Ctx, recv, name string, params []string) {
	fn := c.Fn("C20.5", recv, name)
	if fn == nil {
		return
	}
	info := c.Info()
	pobj := map[types.Object]string{}
	for _, f := range fn.Decl.Type.Params.List {
		for _, n := range f.Names {
			pobj[info.Defs[n]] = n.Name
		}
	}
	stored := map[string]string{}
	ast.Inspect(fn.Body, func(n ast.Node) bool {
		as, ok := n.(*ast.AssignStmt)
		if !ok || len(as.Lhs) != len(as.Rhs) {
			return true
		}
		for i, rhs := range as.Rhs {
			id, ok := an.Unparen(rhs).(*ast.Ident)
			if !ok {
				continue
			}
			p, isParam := pobj[objOf(info, id)]
			if !isParam {
				continue
			}
			if l, ok := an.Unparen(as.Lhs[i]).(*ast.SelectorExpr); ok {
				if _, dup := stored[p]; !dup {
					stored[p] = l.Sel.Name
				}
			}
		}
		return true
	})
	for _, p := range params {
		f, ok := stored[p]
		switch {
		case !ok:
			c.R.Bad("C20.5", "init:"+recv+"."+p, c.Pos(fn.Decl), "parameter %s of %s.%s is not stored in the extension", p, recv, name)
		case !strings.EqualFold(f, p):
			c.R.Bad("C20.5", "init:"+recv+"."+p, c.Pos(fn.Decl), "parameter %s is stored in field %s", p, f)
		default:
			c.R.Ok("C20.5", "init:"+recv+"."+p, c.Pos(fn.Decl), "stored in field %s", f)
		}
	}
}

// c20MakeSession: constructor, getters and setters of ClientSessionState agree on the field behind each name.
func c20MakeSession(c *Ctx) {
	r := c.R
	info := c.Info()
	fd := load.FuncDecl(c.P.TLS, "", "MakeClientSessionState")
	if fd == nil {
		r.Unknown("C20.6", "MakeClientSessionState", "", "function not found")
		return
	}
	params := map[types.Object]string{}
	var order []string
	for _, f := range fd.Type.Params.List {
		for _, n := range f.Names {
			params[info.Defs[n]] = n.Name
			order = append(order, n.Name)
		}
	}
	// field <- parameter in the SessionState literal
	ctor := map[string]string{} // parameter -> field
	ast.Inspect(fd.Body, func(n ast.Node) bool {
		cl, ok := n.(*ast.CompositeLit)
		if !ok || an.TypeName(info.TypeOf(cl)) != "SessionState" {
			return true
		}
		for _, el := range cl.Elts {
			kv, ok := el.(*ast.KeyValueExpr)
			if !ok {
				continue
			}
			if id, ok := an.Unparen(kv.Value).(*ast.Ident); ok {
				if p, isP := params[objOf(info, id)]; isP {
					ctor[p] = kv.Key.(*ast.Ident).Name
				}
			}
		}
		return true
	})
	sessField := func(x ast.Expr) string {
		se, ok := an.Unparen(x).(*ast.SelectorExpr)
		if !ok {
			return ""
		}
		if sel := info.Selections[se]; sel != nil && sel.Kind() == types.FieldVal && an.FieldOwner(info, sel, sel.Obj().(*types.Var)) == "SessionState" {
			return se.Sel.Name
		}
		return ""
	}
	for _, p := range order {
		f, ok := ctor[p]
		if !ok {
			r.Bad("C20.6", "ctor:"+p, c.Pos(fd), "parameter %s of MakeClientSessionState is not stored in the session", p)
			continue
		}
		// getter of the same name
		g := load.FuncDecl(c.P.TLS, "ClientSessionState", p)
		if g == nil {
			r.Unknown("C20.6", "ctor:"+p, c.Pos(fd), "no getter ClientSessionState.%s to compare with", p)
			continue
		}
		gf := ""
		ast.Inspect(g.Body, func(n ast.Node) bool {
			if rs, ok := n.(*ast.ReturnStmt); ok && len(rs.Results) == 1 {
				gf = sessField(rs.Results[0])
			}
			return true
		})
		r.Check(gf == f, "C20.6", "ctor:"+p, c.Pos(fd), "stored in SessionState."+f+", which "+p+"() returns", "MakeClientSessionState stores "+p+" in SessionState."+f+" but "+p+"() returns SessionState."+gf)
		// setter Set<p>
		if s := load.FuncDecl(c.P.TLS, "ClientSessionState", "Set"+p); s != nil {
			sf := ""
			ast.Inspect(s.Body, func(n ast.Node) bool {
				as, ok := n.(*ast.AssignStmt)
				if !ok || len(as.Lhs) != 1 || len(as.Rhs) != 1 {
					return true
				}
				if id, ok := an.Unparen(as.Rhs[0]).(*ast.Ident); ok && len(s.Type.Params.List) == 1 && objOf(info, id) == info.Defs[s.Type.Params.List[0].Names[0]] {
					if f := sessField(as.Lhs[0]); f != "" {
						sf = f
					}
				}
				return true
			})
			r.Check(sf == f, "C20.6", "setter:"+p, c.Pos(s), "Set"+p+" writes SessionState."+f, "Set"+p+" writes SessionState."+sf+" while the constructor and getter use "+f)
		}
	}
	r.Floor("C20.6", 10)
}
