package props

// C27 — forged connections from shared secrets interoperate.
//
// C27.1  role/direction agreement at every prepareCipherSpec site (SSA value tracing,
//        trace partitioning on the isClient parameter).
// C27.2  nil-on-unsupported and the "completed handshake" steps on both halves.
// C27.3  cipher-suite tables against an embedded RFC reference (c27table.go).

import (
	"fmt"
	"go/constant"
	"go/token"
	"go/types"
	"sort"
	"strings"

	"golang.org/x/tools/go/ssa"
)

func init() { register(&Prop{ID: "C27", Run: runC27}) }

func runC27(c *Ctx) {
	r := c.R
	r.Technique = "go/ssa value tracing with trace partitioning on the isClient parameter (role/direction of every cipher handed to prepareCipherSpec), " +
		"instruction-level must-pass-through on the SSA graph (nil guard, CCS/sequence steps), constant evaluation of the cipher-suite composite literals against an embedded RFC table"
	r.Explanation = "C27.1-dir: at every prepareCipherSpec site (clientHandshakeState.establishKeys, serverHandshakeState.establishKeys, MakeConnWithCompleteHandshake per isClient value) the block cipher given to Conn.in is built with isRead=true and the one given to Conn.out with isRead=false. " +
		"C27.1-role: the half that writes uses the write key/IV/MAC key of its own role (results 0/2/4 of keysFromMasterSecret are the client's, 1/3/5 the server's), the half that reads uses the peer's. " +
		"C27.1-mirror: what one role writes with is what the other role reads with (upstream pair and the two isClient branches of the forging function). " +
		"C27.1-keyblock: keysFromMasterSecret cuts the PRF output in RFC 5246 6.3 order (client MAC, server MAC, client key, server key, client IV, server IV: result i starts after the lengths of results 0..i-1) from the seed server_random‖client_random, which is what gives the result positions their role. " +
		"C27.1-kdf: key-block lengths come from the same suite as the constructors, in (macLen,keyLen,ivLen) order; the forging function passes its own parameters positionally. " +
		"C27.1-guard: calls through suite.cipher/suite.mac/suite.aead happen only on the outcome of a nil test that makes that field non-nil. " +
		"C27.1-ctor: every block-cipher constructor in the tables returns a decrypter exactly when isRead is true. " +
		"C27.2: an unsupported suite id returns nil before the suite is dereferenced; the returned connection passed prepareCipherSpec then changeCipherSpec on both halves, equal sequence-number steps on both halves, handshake marked complete, vers/haveVers set from the version parameter. " +
		"C27.3: every entry of cipherSuites, of the init-time additions (legacy ChaCha20 ids) and of EnableWeakCiphers agrees with the RFC reference (key/MAC/IV lengths, key agreement, flags, cipher/MAC/AEAD primitive derived from the constructor bodies); lookups scan the extended list; enabling weak ciphers keeps every previously supported id."
	r.NotDecided = "that application data round-trips (record framing, padding, the PRF itself); behaviour for versions outside the suite's validity (e.g. VersionTLS13, where changeCipherSpec's error is dropped)"

	tabs := c27Tables(c) // C27.3, also yields the constructor functions for C27.1-ctor

	prog, _ := c.P.SSA()
	_ = prog
	client := c.ssaFunc("C27.1", "clientHandshakeState", "establishKeys")
	server := c.ssaFunc("C27.1", "serverHandshakeState", "establishKeys")
	forge := c.ssaFunc("C27.1", "", "MakeConnWithCompleteHandshake")

	type siteRes struct {
		label string
		role  string
		sig   map[string]string // half -> key signature (without direction)
	}
	var results []*siteRes
	run := func(f *ssa.Function, label, role string, assume map[ssa.Value]bool) *siteRes {
		sr := &siteRes{label: label, role: role, sig: map[string]string{}}
		ev := c27NewEvaluator(f, assume)
		halves := c27Halves(c, f, ev, label)
		for _, h := range []string{"in", "out"} {
			c27CheckHalf(c, label, role, h, halves[h], sr.sig, connEscapes(f))
		}
		c27KDF(c, f, ev, label)
		results = append(results, sr)
		return sr
	}
	var up [2]*siteRes
	if client != nil {
		up[0] = run(client, "clientHandshakeState.establishKeys", "client", nil)
		c27Guards(c, client, "clientHandshakeState.establishKeys")
	}
	if server != nil {
		up[1] = run(server, "serverHandshakeState.establishKeys", "server", nil)
		c27Guards(c, server, "serverHandshakeState.establishKeys")
	}
	var fg [2]*siteRes
	var fp *forgeParams
	if forge != nil {
		fp = c27ForgeParams(c, forge)
		if fp != nil && fp.isClient != nil {
			fg[0] = run(forge, "MakeConnWithCompleteHandshake[isClient=true]", "client", map[ssa.Value]bool{fp.isClient: true})
			fg[1] = run(forge, "MakeConnWithCompleteHandshake[isClient=false]", "server", map[ssa.Value]bool{fp.isClient: false})
		}
		c27Guards(c, forge, "MakeConnWithCompleteHandshake")
	}
	mirror := func(a, b *siteRes, name string) {
		if a == nil || b == nil {
			return
		}
		for _, p := range [][2]string{{"out", "in"}, {"in", "out"}} {
			cons := fmt.Sprintf("%s:client.%s~server.%s", name, p[0], p[1])
			sa, sb := a.sig[p[0]], b.sig[p[1]]
			if sa == "" || sb == "" || strings.Contains(sa, "?") || strings.Contains(sb, "?") {
				r.Unknown("C27.1-mirror", cons, "", "key provenance not resolved (%q vs %q)", sa, sb)
				continue
			}
			r.Check(sa == sb, "C27.1-mirror", cons, "", "both use "+sa,
				fmt.Sprintf("the client's %s half is keyed with %s but the server's %s half with %s: records written by one side cannot be read by the other", p[0], sa, p[1], sb))
		}
	}
	mirror(up[0], up[1], "establishKeys")
	mirror(fg[0], fg[1], "MakeConnWithCompleteHandshake")
	r.Floor("C27.1-dir", 8)
	r.Floor("C27.1-role", 8)
	r.Floor("C27.1-mirror", 4)
	r.Floor("C27.1-kdf", 4)
	r.Floor("C27.1-guard", 6)
	r.Floor("C27.1-keyblock", 2)

	c27KeyBlock(c)
	c27Ctors(c, tabs)

	if forge != nil && fp != nil {
		c27Forge(c, forge, fp)
	}
	r.Floor("C27.2", 12)
}

// ---- C27.1 ------------------------------------------------------------------------------

type halfSpec struct {
	call   *ssa.Call
	cipher []aval
	mac    []aval
}

// c27Halves collects, for the feasible prepareCipherSpec calls of f, the constructions of
// the cipher and MAC arguments per half ("in"/"out" field of Conn).
func c27Halves(c *Ctx, f *ssa.Function, ev *c27Evaluator, label string) map[string][]halfSpec {
	out := map[string][]halfSpec{}
	for _, call := range staticCallsTo(f, "halfConn", "prepareCipherSpec") {
		if !ev.live[call.Block()] {
			continue
		}
		if len(call.Call.Args) != 4 {
			c.R.Unknown("C27.1-dir", label+":prepareCipherSpec", c.ipos(call), "unexpected arity")
			continue
		}
		_, p := addrPath(call.Call.Args[0])
		half := ""
		switch {
		case hasSuffixPath(p, "Conn.in"):
			half = "in"
		case hasSuffixPath(p, "Conn.out"):
			half = "out"
		default:
			c.R.Unknown("C27.1-dir", label+":prepareCipherSpec", c.ipos(call), "receiver %s is not Conn.in or Conn.out", pathString(p))
			continue
		}
		out[half] = append(out[half], halfSpec{call: call, cipher: ev.eval(call.Call.Args[2]), mac: ev.eval(call.Call.Args[3])})
	}
	return out
}

func keyIdxOf(s []aval) (int, bool) {
	if len(s) != 1 || s[0].kind != "keyres" {
		return -1, false
	}
	return s[0].idx, true
}

var keyResNames = []string{"client-write MAC key", "server-write MAC key", "client-write key", "server-write key", "client-write IV", "server-write IV"}

func c27CheckHalf(c *Ctx, label, role, half string, specs []halfSpec, sig map[string]string, escapes bool) {
	r := c.R
	cons := label + "." + half
	if len(specs) == 0 {
		if escapes {
			r.Unknown("C27.1-dir", cons, "", "no prepareCipherSpec call on Conn.%s in this function, but the connection is handed to a helper: not followed", half)
			r.Unknown("C27.1-role", cons, "", "no prepareCipherSpec call on Conn.%s in this function, but the connection is handed to a helper: not followed", half)
			return
		}
		r.Bad("C27.1-dir", cons, "", "no prepareCipherSpec call reaches Conn.%s on this path: the half would keep a nil cipher", half)
		r.Bad("C27.1-role", cons, "", "no prepareCipherSpec call reaches Conn.%s on this path", half)
		return
	}
	wantRead := half == "in"
	// the half that writes (out) uses its own role's write keys; the half that reads uses the peer's
	writer := role
	if half == "in" {
		if role == "client" {
			writer = "server"
		} else {
			writer = "client"
		}
	}
	par := 0
	if writer == "server" {
		par = 1
	}
	sigSet := map[string]bool{}
	for _, hs := range specs {
		pos := c.ipos(hs.call)
		dirOK, dirUnknown, dirDetail := true, "", []string{}
		roleOK, roleUnknown, roleDetail := true, "", []string{}
		nBlock := 0
		for _, a := range hs.cipher {
			switch {
			case a.kind == "ctor" && a.field == "cipher" && len(a.args) == 3:
				nBlock++
				for _, b := range a.args[2] {
					if b.kind != "bool" {
						dirUnknown = "isRead argument " + b.String() + " is not a constant on this path"
						continue
					}
					if b.b != wantRead {
						dirOK = false
						dirDetail = append(dirDetail, fmt.Sprintf("%s is built with isRead=%v", a.String(), b.b))
					}
				}
				if len(a.args[2]) == 0 {
					dirUnknown = "isRead argument not resolved"
				}
				k, ok1 := keyIdxOf(a.args[0])
				iv, ok2 := keyIdxOf(a.args[1])
				if !ok1 || !ok2 {
					roleUnknown = "key/IV of " + a.String() + " not traced to keysFromMasterSecret"
					sigSet["cipher(?)"] = true
					continue
				}
				sigSet[fmt.Sprintf("cipher(#%d,#%d)", k, iv)] = true
				if k != 2+par || iv != 4+par {
					roleOK = false
					roleDetail = append(roleDetail, fmt.Sprintf("block cipher keyed with %s / %s", keyResNames[k%6], keyResNames[iv%6]))
				}
			case a.kind == "ctor" && a.field == "aead" && len(a.args) == 2:
				k, ok1 := keyIdxOf(a.args[0])
				iv, ok2 := keyIdxOf(a.args[1])
				if !ok1 || !ok2 {
					roleUnknown = "key/nonce of " + a.String() + " not traced to keysFromMasterSecret"
					sigSet["aead(?)"] = true
					continue
				}
				sigSet[fmt.Sprintf("aead(#%d,#%d)", k, iv)] = true
				if k != 2+par || iv != 4+par {
					roleOK = false
					roleDetail = append(roleDetail, fmt.Sprintf("AEAD keyed with %s / %s", keyResNames[k%6], keyResNames[iv%6]))
				}
			case a.kind == "nil":
				roleOK = false
				roleDetail = append(roleDetail, "the cipher may be nil on some path (changeCipherSpec then fails and the half stays in clear)")
			default:
				roleUnknown = "cipher argument " + a.String() + " not recognised as a suite constructor call"
				dirUnknown = roleUnknown
				sigSet["?"] = true
			}
		}
		if len(hs.cipher) == 0 {
			roleUnknown, dirUnknown = "cipher argument not resolved", "cipher argument not resolved"
		}
		for _, a := range hs.mac {
			switch {
			case a.kind == "ctor" && a.field == "mac" && len(a.args) == 1:
				k, ok := keyIdxOf(a.args[0])
				if !ok {
					roleUnknown = "MAC key of " + a.String() + " not traced to keysFromMasterSecret"
					sigSet["mac(?)"] = true
					continue
				}
				sigSet[fmt.Sprintf("mac(#%d)", k)] = true
				if k != par {
					roleOK = false
					roleDetail = append(roleDetail, "MAC keyed with "+keyResNames[k%6])
				}
			case a.kind == "nil":
				// AEAD suites carry no separate MAC
			default:
				roleUnknown = "mac argument " + a.String() + " not recognised"
				sigSet["?"] = true
			}
		}
		if nBlock > 0 {
			hasMac := false
			for _, a := range hs.mac {
				if a.kind == "ctor" {
					hasMac = true
				}
			}
			if !hasMac {
				roleOK = false
				roleDetail = append(roleDetail, "block/stream cipher without a MAC")
			}
		}
		want := "encrypter (isRead=false)"
		if wantRead {
			want = "decrypter (isRead=true)"
		}
		switch {
		case !dirOK:
			r.Bad("C27.1-dir", cons, pos, "Conn.%s needs the %s but %s: CBC suites get the wrong direction (peer reports bad record MAC)", half, want, strings.Join(dirDetail, "; "))
		case dirUnknown != "":
			r.Unknown("C27.1-dir", cons, pos, "%s", dirUnknown)
		default:
			r.Ok("C27.1-dir", cons, pos, "%d block-cipher construction(s), all %s; cipher=%s", nBlock, want, avalsString(hs.cipher))
		}
		switch {
		case !roleOK:
			r.Bad("C27.1-role", cons, pos, "as %s, Conn.%s must use the %s's write keys but %s", role, half, writer, strings.Join(roleDetail, "; "))
		case roleUnknown != "":
			r.Unknown("C27.1-role", cons, pos, "%s", roleUnknown)
		default:
			r.Ok("C27.1-role", cons, pos, "%s-write key/IV/MAC key (cipher=%s mac=%s)", writer, avalsString(hs.cipher), avalsString(hs.mac))
		}
	}
	var ks []string
	for k := range sigSet {
		ks = append(ks, k)
	}
	sort.Strings(ks)
	sig[half] = strings.Join(ks, "+")
}

// c27KDF checks the keysFromMasterSecret call of a site: lengths are the macLen/keyLen/ivLen
// fields (in that order) of the suite passed as second argument, and every constructor
// call goes through a field of that same suite.
func c27KDF(c *Ctx, f *ssa.Function, ev *c27Evaluator, label string) {
	r := c.R
	var calls []*ssa.Call
	for _, call := range staticCallsTo(f, "", "keysFromMasterSecret") {
		if ev.live[call.Block()] {
			calls = append(calls, call)
		}
	}
	if len(calls) != 1 {
		r.Unknown("C27.1-kdf", label, "", "%d keysFromMasterSecret calls on this path, expected exactly one", len(calls))
		return
	}
	call := calls[0]
	args := call.Call.Args
	if len(args) != 8 {
		r.Unknown("C27.1-kdf", label, c.ipos(call), "keysFromMasterSecret has %d arguments, expected 8", len(args))
		return
	}
	suiteKey := valueKey(args[1])
	var bad []string
	for i, want := range []string{"cipherSuite.macLen", "cipherSuite.keyLen", "cipherSuite.ivLen"} {
		root, p := addrPath(args[5+i])
		fs := fieldsOf(p)
		if len(fs) == 0 || fs[len(fs)-1] != want {
			bad = append(bad, fmt.Sprintf("length argument %d is %s, expected the suite's %s", 5+i, describeValue(args[5+i]), strings.TrimPrefix(want, "cipherSuite.")))
			continue
		}
		// the suite the field is read from
		owner := root.Name() + "/" + pathString(fs[:len(fs)-1])
		if owner != suiteKey {
			bad = append(bad, fmt.Sprintf("%s is read from %s but the PRF suite is %s", want, owner, suiteKey))
		}
	}
	allInstrs(f, func(i ssa.Instruction) {
		cc, ok := i.(*ssa.Call)
		if !ok || !ev.live[cc.Block()] {
			return
		}
		if field, suite, ok := suiteFieldCall(cc); ok && valueKey(suite) != suiteKey {
			bad = append(bad, fmt.Sprintf("suite.%s is called on %s but keys were derived for %s", field, valueKey(suite), suiteKey))
		}
	})
	if strings.HasSuffix(label, "establishKeys") {
		// the reference sites fix which positional argument is the client's random
		_, p3 := addrPath(args[3])
		_, p4 := addrPath(args[4])
		ok := hasSuffixPath(p3, "clientHelloMsg.random") && hasSuffixPath(p4, "serverHelloMsg.random")
		r.Check(ok, "C27.1-kdf", label+":randoms", c.ipos(call), "arguments 4/5 are ClientHello.random / ServerHello.random",
			fmt.Sprintf("keysFromMasterSecret receives %s and %s where ClientHello.random and ServerHello.random are expected", describeValue(args[3]), describeValue(args[4])))
	}
	if len(bad) > 0 {
		r.Bad("C27.1-kdf", label, c.ipos(call), "%s", strings.Join(bad, "; "))
		return
	}
	r.Ok("C27.1-kdf", label, c.ipos(call), "key block lengths (macLen,keyLen,ivLen) and all constructors come from the same suite %s", suiteKey)
}

// valueKey identifies a value structurally (root register + field path) so that repeated
// loads of the same field chain compare equal.
func valueKey(v ssa.Value) string {
	root, p := addrPath(v)
	return root.Name() + "/" + pathString(fieldsOf(p))
}

func describeValue(v ssa.Value) string {
	root, p := addrPath(v)
	if len(p) == 0 {
		return v.String()
	}
	return root.Name() + "." + pathString(p)
}

// nilTestEdges finds the block edges on which `field` of cipherSuite is known non-nil /
// nil, from If instructions comparing a load of that field with nil.
type nilEdge struct {
	field  string
	nonNil bool
	e      bedge
}

func suiteNilEdges(f *ssa.Function) []nilEdge {
	var out []nilEdge
	for _, b := range f.Blocks {
		if len(b.Instrs) == 0 || len(b.Succs) != 2 {
			continue
		}
		br, ok := b.Instrs[len(b.Instrs)-1].(*ssa.If)
		if !ok {
			continue
		}
		bo, ok := br.Cond.(*ssa.BinOp)
		if !ok || (bo.Op != token.NEQ && bo.Op != token.EQL) {
			continue
		}
		x, y := bo.X, bo.Y
		if k, ok := x.(*ssa.Const); ok && k.IsNil() {
			x, y = y, x
		}
		k, ok := y.(*ssa.Const)
		if !ok || !k.IsNil() {
			continue
		}
		_, p := addrPath(x)
		fs := fieldsOf(p)
		if len(fs) == 0 || !strings.HasPrefix(fs[len(fs)-1], "cipherSuite.") {
			continue
		}
		field := strings.TrimPrefix(fs[len(fs)-1], "cipherSuite.")
		trueNonNil := bo.Op == token.NEQ
		out = append(out, nilEdge{field, trueNonNil, bedge{b, b.Succs[0]}}, nilEdge{field, !trueNonNil, bedge{b, b.Succs[1]}})
	}
	return out
}

// c27Guards: a call through suite.cipher / suite.mac requires an outcome establishing a
// block/stream suite (cipher or mac non-nil, or aead nil); a call through suite.aead the
// complement. The table invariant cipher!=nil <=> mac!=nil <=> aead==nil is C27.3's.
func c27Guards(c *Ctx, site *ssa.Function, label string) {
	// the site itself plus, one level deep, the module helpers it calls
	fns := []*ssa.Function{site}
	seenFn := map[*ssa.Function]bool{site: true}
	allInstrs(site, func(i ssa.Instruction) {
		if ci, ok := i.(ssa.CallInstruction); ok && !ci.Common().IsInvoke() {
			if g := ci.Common().StaticCallee(); g != nil && g.Pkg != nil && strings.HasPrefix(g.Pkg.Pkg.Path(), Mod) && len(g.Blocks) > 0 && !seenFn[g] {
				seenFn[g] = true
				fns = append(fns, g)
			}
		}
	})
	seen := map[string]bool{}
	res := map[string]string{}
	pos := map[string]string{}
	for _, f := range fns {
		c27GuardsIn(c, f, seen, res, pos)
	}
	for _, class := range []string{"block", "aead"} {
		cons := label + ":" + class
		if !seen[class] {
			c.R.Unknown("C27.1-guard", cons, "", "no constructor call of this class found")
			continue
		}
		if res[class] != "" {
			c.R.Bad("C27.1-guard", cons, pos[class], "%s", res[class])
		} else {
			c.R.Ok("C27.1-guard", cons, pos[class], "constructor calls lie behind the nil test that selects this suite class")
		}
	}
}

func c27GuardsIn(c *Ctx, f *ssa.Function, seen map[string]bool, res, pos map[string]string) {
	edges := suiteNilEdges(f)
	var blockEdges, aeadEdges []bedge
	for _, e := range edges {
		isBlockField := e.field == "cipher" || e.field == "mac"
		if e.field != "aead" && !isBlockField {
			continue
		}
		if isBlockField == e.nonNil {
			blockEdges = append(blockEdges, e.e)
		} else {
			aeadEdges = append(aeadEdges, e.e)
		}
	}
	allInstrs(f, func(i ssa.Instruction) {
		call, ok := i.(*ssa.Call)
		if !ok {
			return
		}
		field, _, ok := suiteFieldCall(call)
		if !ok || (field != "cipher" && field != "mac" && field != "aead") {
			return
		}
		class, es := "block", blockEdges
		if field == "aead" {
			class, es = "aead", aeadEdges
		}
		seen[class] = true
		if pos[class] == "" {
			pos[class] = c.ipos(call)
		}
		if !mustTakeEdge(f, call, es...) {
			res[class] = fmt.Sprintf("suite.%s is called on a path where nothing established that it is non-nil (a nil function value panics)", field)
			pos[class] = c.ipos(call)
		}
	})
}

// ---- C27.2 ------------------------------------------------------------------------------

type forgeParams struct {
	conn      ssa.Value      // the *Conn being built
	version   *ssa.Parameter // positional parameter 1
	suiteID   *ssa.Parameter // 2
	secret    *ssa.Parameter // 3
	clientRnd *ssa.Parameter // 4
	serverRnd *ssa.Parameter // 5
	isClient  *ssa.Parameter // 6
}

// storesTo lists stores whose address is Conn.<field> of conn.
func storesTo(f *ssa.Function, conn ssa.Value, field string) []*ssa.Store {
	var out []*ssa.Store
	allInstrs(f, func(i ssa.Instruction) {
		st, ok := i.(*ssa.Store)
		if !ok {
			return
		}
		fa, ok := st.Addr.(*ssa.FieldAddr)
		if !ok || fieldStep(fa.X.Type(), fa.Field) != "Conn."+field {
			return
		}
		if conn != nil && fa.X != conn {
			return
		}
		out = append(out, st)
	})
	return out
}

// c27ForgeParams resolves the positional API parameters of the forging function and
// cross-checks them against the Conn fields they are stored into.
func c27ForgeParams(c *Ctx, f *ssa.Function) *forgeParams {
	r := c.R
	const label = "MakeConnWithCompleteHandshake"
	if len(f.Params) != 7 {
		r.Unknown("C27.2", label+":signature", c.P.Pos(f.Pos()), "expected 7 parameters (conn, version, suite, masterSecret, clientRandom, serverRandom, isClient), found %d", len(f.Params))
		return nil
	}
	fp := &forgeParams{version: f.Params[1], suiteID: f.Params[2], secret: f.Params[3], clientRnd: f.Params[4], serverRnd: f.Params[5], isClient: f.Params[6]}
	isT := func(p *ssa.Parameter, k types.BasicKind) bool {
		b, ok := p.Type().Underlying().(*types.Basic)
		return ok && b.Kind() == k
	}
	if !isT(fp.version, types.Uint16) || !isT(fp.suiteID, types.Uint16) || !isT(fp.isClient, types.Bool) {
		r.Unknown("C27.2", label+":signature", c.P.Pos(f.Pos()), "parameter types differ from (.., uint16, uint16, []byte, []byte, []byte, bool)")
		return nil
	}
	// the connection: the non-nil returned value
	multiple := false
	for _, ret := range liveReturns(f) {
		if len(ret.Results) != 1 {
			continue
		}
		v, ok := retVal(ret, 0)
		if !ok {
			r.Unknown("C27.2", label+":conn", c.ipos(ret), "returned value is a spilled result that could not be resolved")
			return nil
		}
		if k, ok := v.(*ssa.Const); ok && k.IsNil() {
			continue
		}
		if fp.conn == nil {
			fp.conn = v
		} else if fp.conn != v {
			multiple = true
		}
	}
	if multiple {
		r.Unknown("C27.2", label+":conn", c.P.Pos(f.Pos()), "more than one distinct connection value is returned")
		return nil
	}
	if fp.conn == nil {
		r.Bad("C27.2", label+":conn", c.P.Pos(f.Pos()), "no path returns a connection")
		return nil
	}
	// role flag of the connection is the isClient parameter
	sts := storesTo(f, fp.conn, "isClient")
	okRole := len(sts) > 0
	for _, st := range sts {
		if st.Val != ssa.Value(fp.isClient) {
			okRole = false
		}
	}
	r.Check(okRole, "C27.2", label+":isClient", c.P.Pos(f.Pos()), "Conn.isClient is the isClient parameter that also selects the key roles",
		"Conn.isClient is not set from the parameter that selects the key roles")
	return fp
}

func isConstBool(v ssa.Value, want bool) bool {
	k, ok := v.(*ssa.Const)
	return ok && k.Value != nil && k.Value.Kind() == constant.Bool && constant.BoolVal(k.Value) == want
}

func c27Forge(c *Ctx, f *ssa.Function, fp *forgeParams) {
	r := c.R
	const label = "MakeConnWithCompleteHandshake"
	// ---- nil guard on the suite lookup
	var lookups []*ssa.Call
	for _, name := range []string{"cipherSuiteByID", "mutualCipherSuite", "selectCipherSuite"} {
		lookups = append(lookups, staticCallsTo(f, "", name)...)
	}
	if len(lookups) != 1 {
		r.Unknown("C27.2", label+":lookup", c.P.Pos(f.Pos()), "%d suite lookups found, expected one cipherSuiteByID call", len(lookups))
	} else {
		lk := lookups[0]
		okArg := false
		for _, a := range lk.Call.Args {
			if a == ssa.Value(fp.suiteID) {
				okArg = true
			}
		}
		r.Check(okArg && lk.Call.StaticCallee().Name() == "cipherSuiteByID", "C27.2", label+":lookup", c.ipos(lk),
			"suite resolved with cipherSuiteByID(<suite id parameter>) (the list extended by init/EnableWeakCiphers, see C27.3-lookup)",
			"the suite is not looked up by the suite-id parameter through cipherSuiteByID")
		var nonNil, isNil []bedge
		for _, b := range f.Blocks {
			if len(b.Succs) != 2 {
				continue
			}
			br, ok := b.Instrs[len(b.Instrs)-1].(*ssa.If)
			if !ok {
				continue
			}
			bo, ok := br.Cond.(*ssa.BinOp)
			if !ok || (bo.Op != token.NEQ && bo.Op != token.EQL) {
				continue
			}
			x, y := bo.X, bo.Y
			if x != ssa.Value(lk) {
				x, y = y, x
			}
			k, isK := y.(*ssa.Const)
			if x != ssa.Value(lk) || !isK || !k.IsNil() {
				continue
			}
			t, e := bedge{b, b.Succs[0]}, bedge{b, b.Succs[1]}
			if bo.Op == token.NEQ {
				nonNil, isNil = append(nonNil, t), append(isNil, e)
			} else {
				nonNil, isNil = append(nonNil, e), append(isNil, t)
			}
		}
		if len(nonNil) == 0 {
			r.Bad("C27.2", label+":nil-guard", c.ipos(lk), "the result of the suite lookup is never compared with nil: an unsupported suite id dereferences a nil *cipherSuite instead of returning nil")
		} else {
			bad := ""
			n := 0
			for _, ref := range *lk.Referrers() {
				if _, isCmp := ref.(*ssa.BinOp); isCmp {
					continue
				}
				if _, isDbg := ref.(*ssa.DebugRef); isDbg {
					continue
				}
				n++
				if !mustTakeEdge(f, ref, nonNil...) {
					bad = c.ipos(ref)
				}
			}
			r.Check(bad == "", "C27.2", label+":nil-guard", c.ipos(lk), fmt.Sprintf("all %d uses of the looked-up suite lie behind the != nil outcome", n),
				"the looked-up suite is used at "+bad+" on a path where it may be nil")
			// every return reachable on the nil outcome is `return nil`
			cut := map[bedge]bool{}
			for _, e := range nonNil {
				cut[e] = true
			}
			reach := instrReach(f, nil, nil, cut)
			okRet, nRet, where := true, 0, c.ipos(lk)
			for i := range reach {
				ret, ok := i.(*ssa.Return)
				if !ok {
					continue
				}
				nRet++
				v, _ := retVal(ret, 0)
				if k, ok := v.(*ssa.Const); !ok || !k.IsNil() {
					okRet, where = false, c.ipos(ret)
				}
			}
			if nRet == 0 {
				okRet = false
			}
			r.Check(okRet, "C27.2", label+":nil-return", where, "an unsupported suite id returns nil",
				"with an unsupported suite id the function does not return nil (a connection without keys would be handed out)")
		}
	}

	// ---- steps on both halves. A step that is missing here while the connection is handed
	// to a helper is undecided (the helper is not followed), not a violation.
	escapes := connEscapes(f)
	soft := func(cond bool, construct, pos, okD, badD string) {
		if !cond && escapes {
			r.Unknown("C27.2", construct, pos, "not established in this function, and the connection is passed to a helper that is not followed (%s)", badD)
			return
		}
		r.Check(cond, "C27.2", construct, pos, okD, badD)
	}
	halfCalls := func(name, half string) []ssa.Instruction {
		var out []ssa.Instruction
		for _, call := range staticCallsTo(f, "halfConn", name) {
			root, p := addrPath(call.Call.Args[0])
			if root == fp.conn && hasSuffixPath(p, "Conn."+half) {
				out = append(out, call)
			}
		}
		return out
	}
	var rets []*ssa.Return
	for _, ret := range liveReturns(f) {
		if v, _ := retVal(ret, 0); v == fp.conn {
			rets = append(rets, ret)
		}
	}
	eff := map[string]int{}
	for _, h := range []string{"in", "out"} {
		prep, ccs, inc := halfCalls("prepareCipherSpec", h), halfCalls("changeCipherSpec", h), halfCalls("incSeq", h)
		okCCS := len(ccs) > 0
		for _, ret := range rets {
			if !mustPassInstr(f, ret, ccs) {
				okCCS = false
			}
		}
		pos := c.P.Pos(f.Pos())
		if len(ccs) > 0 {
			pos = c.ipos(ccs[0])
		}
		soft(okCCS, label+":"+h+".changeCipherSpec", pos, "every returned connection passed "+h+".changeCipherSpec",
			"a connection can be returned without "+h+".changeCipherSpec: the prepared cipher is never activated and the half stays in clear")
		okOrder := len(prep) > 0 && len(ccs) > 0
		for _, x := range ccs {
			if !mustPassInstr(f, x, prep) {
				okOrder = false
			}
		}
		soft(okOrder, label+":"+h+".prepare-before-change", pos, h+".prepareCipherSpec precedes "+h+".changeCipherSpec on every path",
			h+".changeCipherSpec can run before "+h+".prepareCipherSpec (nextCipher is nil: it returns an error that is ignored and the half stays in clear)")
		// effective sequence-number steps: incSeq calls not followed by a changeCipherSpec of the same half (which resets seq)
		n, straight := 0, true
		for _, i := range inc {
			reset := false
			for _, x := range ccs {
				if reachableFrom(f, i, x) {
					reset = true
				}
			}
			if reset {
				continue
			}
			n++
			for _, ret := range rets {
				if !mustPassInstr(f, ret, []ssa.Instruction{i}) || reachableFrom(f, i, i) {
					straight = false
				}
			}
		}
		if !straight {
			r.Unknown("C27.2", label+":"+h+".seq", pos, "a sequence-number step is conditional or in a loop; cannot count it")
			eff[h] = -1
		} else {
			eff[h] = n
		}
		// version argument of prepareCipherSpec
		okV := true
		for _, i := range prep {
			if i.(*ssa.Call).Call.Args[1] != ssa.Value(fp.version) {
				okV = false
			}
		}
		r.Check(okV && len(prep) > 0, "C27.2", label+":"+h+".version", pos, "half version is the version parameter",
			"prepareCipherSpec on "+h+" does not receive the version parameter (explicit-IV and MAC framing follow halfConn.version)")
	}
	if eff["in"] >= 0 && eff["out"] >= 0 {
		r.Check(eff["in"] == eff["out"], "C27.2", label+":seq-steps", c.P.Pos(f.Pos()),
			fmt.Sprintf("in and out both advance the sequence number %d time(s) after changeCipherSpec (the consumed Finished record)", eff["in"]),
			fmt.Sprintf("in advances its sequence number %d time(s) but out %d time(s): the client's out (%d) and the server's in (%d) disagree, every record fails authentication", eff["in"], eff["out"], eff["out"], eff["in"]))
	}
	// handshake complete
	var done []ssa.Instruction
	allInstrs(f, func(i ssa.Instruction) {
		call, ok := i.(*ssa.Call)
		if !ok || call.Call.IsInvoke() || len(call.Call.Args) != 2 {
			return
		}
		sc := call.Call.StaticCallee()
		if sc == nil || sc.Name() != "Store" || sc.Pkg == nil || sc.Pkg.Pkg.Path() != "sync/atomic" {
			return
		}
		root, p := addrPath(call.Call.Args[0])
		if root == fp.conn && hasSuffixPath(p, "Conn.isHandshakeComplete") && isConstBool(call.Call.Args[1], true) {
			done = append(done, call)
		}
	})
	mustAll := func(via []ssa.Instruction) bool {
		if len(via) == 0 || len(rets) == 0 {
			return false
		}
		for _, ret := range rets {
			if !mustPassInstr(f, ret, via) {
				return false
			}
		}
		return true
	}
	soft(mustAll(done), label+":handshake-complete", c.P.Pos(f.Pos()), "isHandshakeComplete.Store(true) on every path to the returned connection",
		"a connection is returned without isHandshakeComplete set: the first Read/Write starts a handshake on a connection that has no handshake function")
	var vers, have []ssa.Instruction
	for _, st := range storesTo(f, fp.conn, "vers") {
		if st.Val == ssa.Value(fp.version) {
			vers = append(vers, st)
		}
	}
	for _, st := range storesTo(f, fp.conn, "haveVers") {
		if isConstBool(st.Val, true) {
			have = append(have, st)
		}
	}
	soft(mustAll(vers), label+":vers", c.P.Pos(f.Pos()), "Conn.vers = version parameter on every path",
		"Conn.vers is not set from the version parameter on every path (record headers and size limits use it)")
	soft(mustAll(have), label+":haveVers", c.P.Pos(f.Pos()), "Conn.haveVers = true on every path",
		"Conn.haveVers is not set on every path to the returned connection")
	// PRF inputs are the API parameters, positionally
	for _, call := range staticCallsTo(f, "", "keysFromMasterSecret") {
		a := call.Call.Args
		ok := len(a) == 8 && a[0] == ssa.Value(fp.version) && a[2] == ssa.Value(fp.secret) && a[3] == ssa.Value(fp.clientRnd) && a[4] == ssa.Value(fp.serverRnd)
		r.Check(ok, "C27.2", label+":prf-inputs", c.ipos(call), "keysFromMasterSecret(version, suite, masterSecret, clientRandom, serverRandom, …) receives the API parameters in order",
			"keysFromMasterSecret does not receive (version, masterSecret, clientRandom, serverRandom) from the corresponding positional parameters: both forged sides still agree with each other but not with a genuine peer")
	}
}

// c27KeyBlock: result i of keysFromMasterSecret is the i-th slot of the RFC 5246 6.3 key
// block: it starts after the slots before it and has the slot's length
// (mac, mac, key, key, iv, iv); the PRF seed is server_random followed by client_random.
func c27KeyBlock(c *Ctx) {
	r := c.R
	f := c.ssaFunc("C27.1-keyblock", "", "keysFromMasterSecret")
	if f == nil {
		return
	}
	pos := c.P.Pos(f.Pos())
	if len(f.Params) != 8 {
		r.Unknown("C27.1-keyblock", "keysFromMasterSecret:partition", pos, "expected 8 parameters")
		return
	}
	lens := map[ssa.Value]string{f.Params[5]: "mac", f.Params[6]: "key", f.Params[7]: "iv"}
	want := []string{"mac", "mac", "key", "key", "iv", "iv"}
	rets := liveReturns(f)
	if len(rets) != 1 || len(rets[0].Results) != 6 {
		r.Unknown("C27.1-keyblock", "keysFromMasterSecret:partition", pos, "expected a single return of six results")
		return
	}
	var base ssa.Value
	var bad []string
	unknown := ""
	for i := range want {
		v, ok := retVal(rets[0], i)
		sl, isSlice := v.(*ssa.Slice)
		if !ok || !isSlice || (sl.Low != nil && !isZeroConst(sl.Low)) || sl.High == nil || sl.Max != nil {
			unknown = fmt.Sprintf("result %d is not of the form keyMaterial[:len]", i)
			break
		}
		if lens[sl.High] != want[i] {
			bad = append(bad, fmt.Sprintf("%s has length %sLen, the RFC slot has %sLen", keyResNames[i], orQ(lens[sl.High]), want[i]))
		}
		// offset: the lengths skipped between the PRF output and this result
		var skipped []string
		cur := sl.X
		for depth := 0; depth < 16; depth++ {
			s2, ok := cur.(*ssa.Slice)
			if !ok {
				break
			}
			if s2.High != nil || s2.Max != nil || s2.Low == nil {
				unknown = fmt.Sprintf("key material before result %d is not advanced with keyMaterial[len:]", i)
				break
			}
			skipped = append([]string{orQ(lens[s2.Low])}, skipped...)
			cur = s2.X
		}
		if unknown != "" {
			break
		}
		if base == nil {
			base = cur
		} else if base != cur {
			unknown = "results are cut from different buffers"
			break
		}
		if strings.Join(skipped, ",") != strings.Join(want[:i], ",") {
			bad = append(bad, fmt.Sprintf("%s starts after [%s], the RFC slot starts after [%s]", keyResNames[i], strings.Join(skipped, ","), strings.Join(want[:i], ",")))
		}
	}
	switch {
	case unknown != "":
		r.Unknown("C27.1-keyblock", "keysFromMasterSecret:partition", pos, "%s", unknown)
	case len(bad) > 0:
		r.Bad("C27.1-keyblock", "keysFromMasterSecret:partition", pos, "%s: the forged side and a genuine peer (or the other role) cut different keys from the same key block", strings.Join(bad, "; "))
	default:
		r.Ok("C27.1-keyblock", "keysFromMasterSecret:partition", pos, "results 0..5 are client MAC, server MAC, client key, server key, client IV, server IV slots of the key block")
	}
	// seed = server_random ‖ client_random
	call, _ := base.(*ssa.Call)
	if call == nil || len(call.Call.Args) != 4 {
		r.Unknown("C27.1-keyblock", "keysFromMasterSecret:seed", pos, "PRF call not recognised")
		return
	}
	var parts []ssa.Value
	cur := call.Call.Args[2]
	for depth := 0; depth < 8; depth++ {
		ap, ok := cur.(*ssa.Call)
		if !ok || builtinName(ap) != "append" || len(ap.Call.Args) != 2 {
			break
		}
		parts = append([]ssa.Value{ap.Call.Args[1]}, parts...)
		cur = ap.Call.Args[0]
	}
	okSeed := len(parts) == 2 && parts[0] == ssa.Value(f.Params[4]) && parts[1] == ssa.Value(f.Params[3])
	if ms, isMake := cur.(*ssa.MakeSlice); !isMake || !isZeroConst(ms.Len) {
		okSeed = false
	}
	okSecret := call.Call.Args[0] == ssa.Value(f.Params[2])
	r.Check(okSeed && okSecret, "C27.1-keyblock", "keysFromMasterSecret:seed", c.ipos(call), "PRF(master secret, label, server_random‖client_random)",
		"the key-expansion PRF is not fed (masterSecret, server_random‖client_random): keys differ from those of a genuine peer holding the same secrets")
}

func orQ(s string) string {
	if s == "" {
		return "?"
	}
	return s
}

// connEscapes: f hands a connection or one of its halves to a module function other than
// the record-layer primitives, so steps on it may happen out of sight.
func connEscapes(f *ssa.Function) bool {
	esc := false
	allInstrs(f, func(i ssa.Instruction) {
		ci, ok := i.(ssa.CallInstruction)
		if !ok || ci.Common().IsInvoke() {
			return
		}
		g := ci.Common().StaticCallee()
		if g == nil || g.Pkg == nil || !strings.HasPrefix(g.Pkg.Pkg.Path(), Mod) || len(g.Blocks) == 0 {
			return
		}
		if g.Signature.Recv() != nil {
			if tn := typeNameOf(g.Signature.Recv().Type()); tn == "halfConn" {
				return
			}
		}
		for _, a := range ci.Common().Args {
			switch typeNameOf(a.Type()) {
			case "Conn", "halfConn", "UConn":
				if _, isPtr := a.Type().Underlying().(*types.Pointer); isPtr {
					esc = true
				}
			}
		}
	})
	return esc
}

func typeNameOf(t types.Type) string {
	if p, ok := t.Underlying().(*types.Pointer); ok {
		t = p.Elem()
	}
	if n, ok := t.(*types.Named); ok {
		return n.Obj().Name()
	}
	return ""
}
