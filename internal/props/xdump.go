package props

import (
	"fmt"
	"go/ast"
	"go/token"
	"sort"

	"verif/internal/load"
)

func loadFunc(c *Ctx, recv, name string) *ast.FuncDecl { return load.FuncDecl(c.P.TLS, recv, name) }
func recvOf(fd *ast.FuncDecl) string                    { return load.RecvName(fd) }

type token_Pos = token.Pos

func keys(m map[string]token.Pos) []string {
	var o []string
	for k := range m {
		o = append(o, k)
	}
	sort.Strings(o)
	return o
}

func init() {
	register(&Prop{ID: "XPARROTS", Run: func(c *Ctx) {
		ps := loadParrots(c)
		for _, p := range ps {
			fmt.Printf("%s err=%q shuffled=%v min=%v max=%v\n", p.label(), p.Err, p.Shuffled, p.Spec.Field("TLSVersMin"), p.Spec.Field("TLSVersMax"))
			for _, e := range p.Exts {
				fmt.Printf("   %s ptr=%v", extType(e), e.Ptr)
				for k, v := range e.Fields {
					s := v.String()
					if len(s) > 90 {
						s = s[:90]
					}
					fmt.Printf(" %s=%s", k, s)
				}
				fmt.Println()
			}
		}
		c.R.Ok("X", "x", "", "dump")
	}})
}

func init() {
	register(&Prop{ID: "XCODEC", Run: func(c *Ctx) {
		exts := tlsExtensions(c)
		for _, e := range exts {
			res := checkEncoder(c, "X", e)
			fmt.Printf("== %s Len=%v zero=%v id=%v/%s issues=%v\n", e.Name, res.lenMain, res.zero, res.idConst, res.idData, res.issues)
			for _, f := range res.fields {
				fmt.Printf("     [%s +%s) loop=%q %s %s\n", f.off, f.w, f.loop, f.valueString(), f.bad)
			}
		}
	}})
}

func init() {
	register(&Prop{ID: "XSYM", Run: func(c *Ctx) {
		for _, e := range tlsExtensions(c) {
			if e.Write == nil || e.Read == nil {
				fmt.Printf("%s: no Write\n", e.Name)
				continue
			}
			rr, _ := fieldsTouched(c.P.TLS, e.Read)
			lr, _ := fieldsTouched(c.P.TLS, e.Len)
			_, ww := fieldsTouched(c.P.TLS, e.Write)
			var jw map[string]token_Pos
			if e.JSON != nil {
				_, jw = fieldsTouched(c.P.TLS, e.JSON)
			}
			fmt.Printf("%s: Read reads %v Len reads %v ; Write writes %v ; JSON writes %v\n", e.Name, keys(rr), keys(lr), keys(ww), keys(jw))
		}
		c.R.Ok("X", "x", "", "dump")
	}})
}

func init() {
	register(&Prop{ID: "XERR", Run: func(c *Ctx) {
		root := loadFunc(c, "UConn", "buildHandshakeState")
		reach := moduleReach(c, []*ast.FuncDecl{root})
		n := 0
		for fd := range reach {
			n++
			for _, d := range droppedErrors(c, fd) {
				fmt.Printf("%s %s.%s: %s %s\n", c.Pos(d.call), recvOf(fd), fd.Name.Name, d.fn.FullName(), d.why)
			}
		}
		fmt.Println("reachable", n)
		c.R.Ok("X", "x", "", "dump")
	}})
}

func init() {
	register(&Prop{ID: "XSETS", Run: func(c *Ctx) {
		fd := loadFunc(c, "", "generateRandomizedSpec")
		f, finals := runSetFlow(c.P.TLS, fd)
		fmt.Println("issues", f.issues)
		for _, s := range finals {
			fmt.Println("STATE", s.key())
			var ks []string
			for k := range s.sets {
				ks = append(ks, k)
			}
			sort.Strings(ks)
			for _, k := range ks {
				fmt.Println("   ", k, s.sets[k])
			}
		}
		c.R.Ok("X", "x", "", "dump")
	}})
}

func init() {
	register(&Prop{ID: "XGRAM", Run: func(c *Ctx) {
		for _, e := range tlsExtensions(c) {
			if e.Write == nil || e.Read == nil {
				continue
			}
			res := checkEncoder(c, "X", e)
			if res.lenMain == nil {
				continue
			}
			enc, _ := encoderGrammar(res.fields, *res.lenMain, allowedGaps[e.Name])
			dec := decoderGrammar(c.Info(), e.Write)
			ok, why := grammarsAgree(enc, dec)
			fmt.Printf("%-40s enc[%s] dec[%s] %v %s\n", e.Name, toksString(enc), toksString(dec), ok, why)
		}
	}})
}

func init() {
	register(&Prop{ID: "XBOUNDS", Run: func(c *Ctx) {
		pp := newPrProg(c)
		var entries []*prFunc
		for _, f := range pp.funcs {
			entries = append(entries, f)
		}
		reach := pp.reach(entries, nil)
		verdicts, _ := pp.judge(reach, prOptions{})
		byFile := map[string][2]int{}
		for _, v := range verdicts {
			if v.rule != "bounds" {
				continue
			}
			file := c.P.Fset.Position(v.s.n.Pos()).Filename
			file = file[len(c.P.Dir)+1:]
			x := byFile[file]
			if v.class == "ok" {
				x[0]++
			} else if v.class != "delegated" {
				x[1]++
				fmt.Printf("UNPROVEN %s %s %s :: %s\n", c.Pos(v.s.n), v.s.f.Name(), v.s.Expr(), v.why)
			}
			byFile[file] = x
		}
		for f, x := range byFile {
			fmt.Printf("FILE %s ok=%d unproven=%d\n", f, x[0], x[1])
		}
		c.R.Ok("X", "x", "", "dump")
	}})
}
