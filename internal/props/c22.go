package props

import (
	"go/ast"
	"go/token"
	"go/types"
	"sort"
	"strings"

	"verif/internal/an"
	"verif/internal/load"
)

func init() { register(&Prop{ID: "C22", Run: runC22}) }

const (
	c22HS    = "clientHandshakeStateTLS13"
	c22Extra = "utlsConnExtraFields"
	c22EEX   = "utlsEncryptedExtensionsMsgExtraFields"
	c22CEE   = "utlsClientEncryptedExtensionsMsg"
)

func runC22(c *Ctx) {
	r := c.R
	r.Technique = "per-function CFG rules (ordering, dominance, guarded effects, exit discipline), error-use analysis, constant-assumption pruning of the codepoint switches, and a belief rule derived from checkServerHelloOrHRR on every run; callees and fields resolved through go/types"
	r.Explanation = "C22.1 the client EncryptedExtensions hook runs after readServerFinished and before sendClientCertificate/sendClientFinished, and its error is propagated (server Finished is checked on the transcript without the client message, client Finished covers it). " +
		"C22.2 sendClientEncryptedExtensions sends exactly when a codepoint was negotiated, carries the negotiated codepoint and the client's local settings, and hashes the message into hs.transcript. " +
		"C22.3 utlsReadServerParameters lets no success exit be reached with a negotiated codepoint unless the version check (accepts exactly TLS 1.3) and the negotiated-ALPN check passed; the failing outcomes return an error which readServerParameters turns into an alert; the negotiated protocol is stored before the hook. " +
		"C22.4 belief rule: a serverHello field that checkServerHelloOrHRR proves zero on every surviving path is never read by the TLS 1.3 client state afterwards; the ApplicationSettings lookup key is the negotiated protocol. " +
		"C22.5 every ALPS codepoint the client can offer is decoded by encryptedExtensionsMsg.utlsUnmarshal and by utlsClientEncryptedExtensionsMsg.unmarshal into (codepoint, settings); the client message marshals the negotiated codepoint, not a fixed one; marshal reads no field that unmarshal cannot restore (fields without any writer are pruned as dead). " +
		"C22.6 the server's settings flow encryptedExtensions.utls.applicationSettings -> c.utls.peerApplicationSettings -> ConnectionState.PeerApplicationSettings on every path. " +
		"C22.7 the settings sent are the value found in Config.ApplicationSettings."
	r.NotDecided = "the server side of ALPS (utls has none); whether the server's codepoint was one the client offered; TLS 1.2 ServerHello carrying ALPS (ignored as an unknown extension, not rejected); byte layout of the extension bodies (C08)"
	info := c.Info()

	c22Ordering(c)
	c22Send(c)
	nonzeroKeyOK := c22ReadParams(c)
	_ = nonzeroKeyOK
	c22Belief(c)
	c22Codepoints(c)
	c22State(c)
	_ = info
}

// ---------------------------------------------------------------- C22.1
func c22Ordering(c *Ctx) {
	r := c.R
	fn := c.Fn("C22.1", c22HS, "handshake")
	if fn == nil {
		return
	}
	rsf := c.c22Calls(fn, c22HS, "readServerFinished")
	sfr := c.c22Calls(fn, c22HS, "serverFinishedReceived")
	scc := c.c22Calls(fn, c22HS, "sendClientCertificate")
	scf := c.c22Calls(fn, c22HS, "sendClientFinished")
	if len(sfr) == 0 {
		r.Bad("C22.1", "handshake:serverFinishedReceived", c.Pos(fn.Decl), "handshake() never calls serverFinishedReceived: the client EncryptedExtensions message is never sent although ALPS may have been negotiated")
	}
	if len(rsf) == 0 || len(scc) == 0 || len(scf) == 0 {
		r.Unknown("C22.1", "handshake:anchors", c.Pos(fn.Decl), "readServerFinished/sendClientCertificate/sendClientFinished call not found")
	}
	for _, h := range sfr {
		r.Check(fn.MustPass(h.P, c22HitPts(rsf), nil), "C22.1", "handshake:readServerFinished<serverFinishedReceived", c.Pos(h.N),
			"client EncryptedExtensions is sent only after the server Finished was verified", "serverFinishedReceived is reachable before readServerFinished: the client message enters the transcript before the server Finished MAC is checked")
		c.c22ErrRule("C22.1", fn, h, "serverFinishedReceived")
	}
	for _, h := range scc {
		r.Check(len(sfr) > 0 && fn.MustPass(h.P, c22HitPts(sfr), nil), "C22.1", "handshake:serverFinishedReceived<sendClientCertificate", c.Pos(h.N),
			"client EncryptedExtensions precedes the client Certificate", "sendClientCertificate is reachable without serverFinishedReceived before it")
	}
	for _, h := range scf {
		r.Check(len(sfr) > 0 && fn.MustPass(h.P, c22HitPts(sfr), nil), "C22.1", "handshake:serverFinishedReceived<sendClientFinished", c.Pos(h.N),
			"client EncryptedExtensions precedes the client Finished", "sendClientFinished is reachable without serverFinishedReceived before it: the client Finished would not cover the client EncryptedExtensions")
	}
	// the hook forwards to sendClientEncryptedExtensions on every success path
	hook := c.Fn("C22.1", c22HS, "serverFinishedReceived")
	if hook != nil {
		send := c.c22Calls(hook, c22HS, "sendClientEncryptedExtensions")
		if len(send) == 0 {
			r.Bad("C22.1", "serverFinishedReceived:sendClientEncryptedExtensions", c.Pos(hook.Decl), "serverFinishedReceived does not call sendClientEncryptedExtensions")
		}
		for _, h := range send {
			c.c22ErrRule("C22.1", hook, h, "sendClientEncryptedExtensions")
		}
		okAll := len(send) > 0
		for _, ret := range c22SuccessReturns(hook) {
			if !hook.MustPass(ret, c22HitPts(send), nil) {
				okAll = false
			}
		}
		for _, ret := range hook.Returns() {
			if rs := ret.Node().(*ast.ReturnStmt); an.Contains(rs, an.CallTo(c.Info(), Mod, c22HS, "sendClientEncryptedExtensions")) {
				continue
			}
		}
		r.Check(okAll, "C22.1", "serverFinishedReceived:always-sends", c.Pos(hook.Decl), "every success exit passes sendClientEncryptedExtensions", "a success exit of serverFinishedReceived skips sendClientEncryptedExtensions")
	}
	r.Floor("C22.1", 6)
}

// ---------------------------------------------------------------- C22.2
func c22Send(c *Ctx) {
	r := c.R
	info := c.Info()
	fn := c.Fn("C22.2", c22HS, "sendClientEncryptedExtensions")
	if fn == nil {
		return
	}
	writes := fn.FindNodes(func(n ast.Node) bool {
		call, ok := n.(*ast.CallExpr)
		return ok && c.c22CalleeIs(call, "Conn", "writeHandshakeRecord") && len(call.Args) == 2 && an.TypeName(info.TypeOf(call.Args[0])) == c22CEE
	})
	if len(writes) == 0 {
		r.Bad("C22.2", "sendClientEncryptedExtensions:write", c.Pos(fn.Decl), "no writeHandshakeRecord of a utlsClientEncryptedExtensionsMsg: the client's settings are never sent")
		return
	}
	isCP := c22WithAliases(fn, func(e ast.Expr) bool {
		return an.FieldSel(info, an.Unparen(e), c22Extra, "applicationSettingsCodepoint")
	})
	wp := c22PtsSet(c22HitPts(writes))
	none := c22Explore(fn, fn.EntryPoint(), c22ZeroVal(info, isCP, false), nil)
	some := c22Explore(fn, fn.EntryPoint(), c22ZeroVal(info, isCP, true), wp)
	cpInits := c22FieldInits(fn, c22CEE, "applicationSettingsCodepoint")
	setInits := c22FieldInits(fn, c22CEE, "applicationSettings")
	for _, w := range writes {
		call := w.N.(*ast.CallExpr)
		arg := an.Unparen(call.Args[1])
		switch {
		case an.FieldSel(info, arg, c22HS, "transcript"):
			r.Ok("C22.2", "sendClientEncryptedExtensions:transcript", c.Pos(call), "client EncryptedExtensions is hashed into hs.transcript")
		case an.IsNilIdent(info, arg):
			r.Bad("C22.2", "sendClientEncryptedExtensions:transcript", c.Pos(call), "writeHandshakeRecord is given a nil transcript: the client EncryptedExtensions is not covered by the client Finished, the server's Finished check fails")
		default:
			r.Bad("C22.2", "sendClientEncryptedExtensions:transcript", c.Pos(call), "writeHandshakeRecord is given %s instead of hs.transcript", an.Str(arg))
		}
		c.c22ErrRule("C22.2", fn, w, "writeHandshakeRecord")
		if none.Decided == 0 {
			r.Bad("C22.2", "sendClientEncryptedExtensions:only-when-negotiated", c.Pos(call), "the message is sent without testing that a codepoint was negotiated (c.utls.applicationSettingsCodepoint != 0): a server that did not negotiate ALPS receives an unexpected handshake message")
		} else {
			r.Check(!none.Reach[w.P], "C22.2", "sendClientEncryptedExtensions:only-when-negotiated", c.Pos(call),
				"not reachable when applicationSettingsCodepoint == 0", "the message can be sent although no codepoint was negotiated")
		}
		// field initialisations dominate the write and come from the right source
		okCP, okSet := false, false
		var badCP, badSet string
		for _, in := range cpInits {
			if !fn.MustPass(w.P, []an.Point{in.P}, nil) && in.P != w.P {
				continue
			}
			if in.Rhs != nil && an.FieldSel(info, an.Unparen(in.Rhs), c22Extra, "applicationSettingsCodepoint") {
				okCP = true
			} else {
				badCP = an.Str(in.Rhs)
			}
		}
		for _, in := range setInits {
			if !fn.MustPass(w.P, []an.Point{in.P}, nil) && in.P != w.P {
				continue
			}
			if in.Rhs != nil && an.FieldSel(info, an.Unparen(in.Rhs), c22Extra, "localApplicationSettings") {
				okSet = true
			} else {
				badSet = an.Str(in.Rhs)
			}
		}
		switch {
		case badCP != "":
			r.Bad("C22.2", "sendClientEncryptedExtensions:codepoint-source", c.Pos(call), "message codepoint is taken from %s, not from the negotiated c.utls.applicationSettingsCodepoint", badCP)
		case okCP:
			r.Ok("C22.2", "sendClientEncryptedExtensions:codepoint-source", c.Pos(call), "message codepoint = negotiated codepoint, set before the write")
		default:
			r.Bad("C22.2", "sendClientEncryptedExtensions:codepoint-source", c.Pos(call), "the message's applicationSettingsCodepoint is not set from the negotiated codepoint on every path to the write: marshal omits the extension")
		}
		switch {
		case badSet != "":
			r.Bad("C22.2", "sendClientEncryptedExtensions:settings-source", c.Pos(call), "message settings are taken from %s, not from c.utls.localApplicationSettings (the client's own settings)", badSet)
		case okSet:
			r.Ok("C22.2", "sendClientEncryptedExtensions:settings-source", c.Pos(call), "message settings = the client's local settings, set before the write")
		default:
			r.Bad("C22.2", "sendClientEncryptedExtensions:settings-source", c.Pos(call), "the message's applicationSettings is not set from c.utls.localApplicationSettings on every path to the write")
		}
	}
	// when negotiated, every success exit has sent the message
	if some.Decided > 0 {
		r.Check(len(some.Succ) == 0, "C22.2", "sendClientEncryptedExtensions:always-when-negotiated", c.Pos(fn.Decl), "with a negotiated codepoint every success exit has written the message", "with a negotiated codepoint a success exit is reachable without sending the client EncryptedExtensions: the server waits for it / its Finished check fails")
	}
	r.Floor("C22.2", 6)
}

// ---------------------------------------------------------------- C22.3 / C22.6(part) / C22.7
func c22ReadParams(c *Ctx) bool {
	r := c.R
	info := c.Info()
	fn := c.Fn("C22.3", c22HS, "utlsReadServerParameters")
	if fn == nil {
		return false
	}
	isCP := c22WithAliases(fn, func(e ast.Expr) bool {
		e = an.Unparen(e)
		return an.FieldSel(info, e, c22Extra, "applicationSettingsCodepoint") || an.FieldSel(info, e, c22EEX, "applicationSettingsCodepoint")
	})
	isVers := c22WithAliases(fn, func(e ast.Expr) bool { return an.FieldSel(info, an.Unparen(e), "Conn", "vers") })
	isProto := c22WithAliases(fn, func(e ast.Expr) bool {
		e = an.Unparen(e)
		return an.FieldSel(info, e, "Conn", "clientProtocol") || an.FieldSel(info, e, "encryptedExtensionsMsg", "alpnProtocol")
	})
	pos := c.Pos(fn.Decl)
	succ := c22SuccessReturns(fn)
	world := func(cp bool, vers int64, proto bool) c22World {
		return c22Explore(fn, fn.EntryPoint(), c22Vals(c22ZeroVal(info, isCP, cp), c22CmpVal(info, isVers, vers), c22ZeroVal(info, isProto, proto)), nil)
	}
	versDecided, _ := c22Impossible(fn, c22CmpVal(info, isVers, 0x0303))
	protoDecided, _ := c22Impossible(fn, c22ZeroVal(info, isProto, false))
	if len(versDecided) == 0 {
		r.Bad("C22.3", "utlsReadServerParameters:version-check", pos, "no comparison of the negotiated version (c.vers) against a constant: application settings are accepted under TLS 1.2 and below")
	} else {
		for _, v := range []int64{0x0301, 0x0302, 0x0303} {
			w := world(true, v, true)
			cons := "utlsReadServerParameters:reject-version-" + map[int64]string{0x0301: "1.0", 0x0302: "1.1", 0x0303: "1.2"}[v]
			switch {
			case len(w.Succ) > 0:
				r.Bad("C22.3", cons, c.PosP(w.Succ[0]), "with a negotiated codepoint and c.vers = %#04x a success exit is reachable: application settings are accepted below TLS 1.3", v)
			case len(w.Err) == 0:
				r.Unknown("C22.3", cons, pos, "no exit reachable under the assumption")
			default:
				r.Ok("C22.3", cons, c.PosP(w.Err[0]), "codepoint negotiated and c.vers = %#04x: only error exits are reachable", v)
			}
		}
	}
	if len(protoDecided) == 0 {
		r.Bad("C22.3", "utlsReadServerParameters:reject-no-alpn", pos, "no test that an ALPN protocol was negotiated: application settings are accepted without ALPN")
	} else {
		w := world(true, 0x0304, false)
		switch {
		case len(w.Succ) > 0:
			r.Bad("C22.3", "utlsReadServerParameters:reject-no-alpn", c.PosP(w.Succ[0]), "with a negotiated codepoint and no negotiated ALPN protocol a success exit is reachable")
		case len(w.Err) == 0:
			r.Unknown("C22.3", "utlsReadServerParameters:reject-no-alpn", pos, "no exit reachable under the assumption")
		default:
			r.Ok("C22.3", "utlsReadServerParameters:reject-no-alpn", c.PosP(w.Err[0]), "codepoint negotiated without ALPN: only error exits are reachable")
		}
	}
	good := world(true, 0x0304, true)
	r.Check(len(good.Succ) > 0, "C22.3", "utlsReadServerParameters:accept-tls13-with-alpn", pos, "TLS 1.3 with a negotiated protocol reaches a success exit", "with TLS 1.3 and a negotiated protocol no success exit is reachable: valid application settings are always rejected")
	noALPS := c22Explore(fn, fn.EntryPoint(), c22ZeroVal(info, isCP, false), nil)
	if noALPS.Decided == 0 {
		r.Unknown("C22.3", "utlsReadServerParameters:no-alps-no-error", pos, "no test of the negotiated codepoint found")
	} else {
		r.Check(len(noALPS.Err) == 0 && len(noALPS.Succ) > 0, "C22.3", "utlsReadServerParameters:no-alps-no-error", pos, "without application settings the hook cannot fail", "an error exit is reachable although the server sent no application settings")
	}
	// caller: error -> alert + return; clientProtocol stored before the hook
	rsp := c.Fn("C22.3", c22HS, "readServerParameters")
	if rsp != nil {
		hooks := c.c22Calls(rsp, c22HS, "utlsReadServerParameters")
		if len(hooks) == 0 {
			r.Bad("C22.3", "readServerParameters:hook", c.Pos(rsp.Decl), "readServerParameters does not call utlsReadServerParameters: the server's application settings are dropped")
		}
		protoStores := c22FieldInits(rsp, "Conn", "clientProtocol")
		var ps []an.Point
		okSrc := len(protoStores) > 0
		for _, s := range protoStores {
			ps = append(ps, s.P)
			if s.Rhs == nil || !an.FieldSel(info, an.Unparen(s.Rhs), "encryptedExtensionsMsg", "alpnProtocol") {
				okSrc = false
			}
		}
		for _, h := range hooks {
			c.c22ErrRule("C22.3", rsp, h, "utlsReadServerParameters")
			// the error outcome alerts and returns: explore from the call assuming the bound error is non-nil
			call := h.N.(*ast.CallExpr)
			alerted := false
			par := c22Parents(rsp.Body)
			if as, ok := par[call].(*ast.AssignStmt); ok && len(as.Lhs) == 1 {
				if id, ok := as.Lhs[0].(*ast.Ident); ok {
					ev := objOf(info, id)
					val := c22ZeroVal(info, c22IsObj(info, ev), true)
					w := c22Explore(rsp, h.P, val, nil)
					alerts := c22PtsSet(rsp.Find(c.isAlert("")))
					w2 := c22Explore(rsp, h.P, val, alerts)
					alerted = w.Decided > 0 && len(w.Succ) == 0 && len(w.Err) > 0 && len(w2.Err) == 0 && len(w2.Succ) == 0
				}
			}
			r.Check(alerted, "C22.3", "readServerParameters:hook-alert", c.Pos(call), "a rejected ALPS offer aborts the handshake with an alert", "the error of utlsReadServerParameters does not lead to an alert and error return")
			r.Check(okSrc && rsp.MustPass(h.P, ps, nil), "C22.3", "readServerParameters:clientProtocol-before-hook", c.Pos(call),
				"c.clientProtocol = encryptedExtensions.alpnProtocol precedes the hook", "the negotiated protocol is not stored in c.clientProtocol (from encryptedExtensions.alpnProtocol) before utlsReadServerParameters tests and uses it")
			// the hook receives the message that was just read
			if len(call.Args) == 1 {
				r.Check(an.TypeName(info.TypeOf(call.Args[0])) == "encryptedExtensionsMsg", "C22.3", "readServerParameters:hook-arg", c.Pos(call), "hook receives the EncryptedExtensions message", "hook argument is not the EncryptedExtensions message")
			}
		}
	}
	r.Floor("C22.3", 10)

	// ---- C22.6 (first hop): peer settings and codepoint stored from the message on every success path
	param := types.Object(nil)
	if fn.Decl.Type.Params != nil && len(fn.Decl.Type.Params.List) > 0 && len(fn.Decl.Type.Params.List[0].Names) > 0 {
		param = info.Defs[fn.Decl.Type.Params.List[0].Names[0]]
	}
	hop := func(field, srcField, cons string) {
		ins := c22FieldInits(fn, c22Extra, field)
		if len(ins) == 0 {
			r.Bad("C22.6", cons, pos, "c.utls.%s is never stored in utlsReadServerParameters", field)
			return
		}
		var pts []an.Point
		for _, in := range ins {
			if in.Rhs != nil && an.FieldSel(info, an.Unparen(in.Rhs), c22EEX, srcField) && c22Mentions(info, in.Rhs, param) {
				pts = append(pts, in.P)
			} else {
				r.Bad("C22.6", cons, c.Pos(in.Node), "c.utls.%s is stored from %s, not from the received message's utls.%s", field, an.Str(in.Rhs), srcField)
				return
			}
		}
		ok := true
		for _, ret := range succ {
			if !fn.MustPass(ret, pts, nil) {
				ok = false
			}
		}
		r.Check(ok, "C22.6", cons, c.PosP(pts[0]), "stored from the received EncryptedExtensions on every success path", "a success exit of utlsReadServerParameters is reachable without storing c.utls."+field)
	}
	hop("peerApplicationSettings", "applicationSettings", "utlsReadServerParameters:peer<-message")
	hop("applicationSettingsCodepoint", "applicationSettingsCodepoint", "utlsReadServerParameters:codepoint<-message")

	// ---- C22.4 (lookup key) and C22.7 (def-use of the looked-up value)
	believed := c22BelievedZero(c)
	var lookups []an.Hit
	for _, h := range fn.FindNodes(func(n ast.Node) bool {
		ix, ok := n.(*ast.IndexExpr)
		return ok && an.FieldSel(info, an.Unparen(ix.X), "Config", "ApplicationSettings")
	}) {
		lookups = append(lookups, h)
	}
	if len(lookups) == 0 {
		r.Bad("C22.7", "utlsReadServerParameters:lookup", pos, "Config.ApplicationSettings is never consulted: the client's configured settings are never sent")
	}
	keyOK := false
	for _, h := range lookups {
		ix := h.N.(*ast.IndexExpr)
		key := an.Unparen(ix.Index)
		var hit string
		for f := range believed {
			if an.MentionsField(info, key, "serverHelloMsg", f) {
				hit = f
			}
		}
		switch {
		case hit != "":
			r.Bad("C22.4", "utlsReadServerParameters:ApplicationSettings-key", c.Pos(ix), "the client's settings are looked up with serverHello.%s, which checkServerHelloOrHRR has proven empty on every path that reaches this point (a TLS 1.3 ServerHello carrying it is rejected): the lookup can only find the \"\" entry, so the configured settings for the negotiated protocol are never sent; the key must be the negotiated protocol (c.clientProtocol)", hit)
		case an.MentionsField(info, key, "clientHelloMsg", "alpnProtocols") || an.MentionsField(info, key, "Config", "NextProtos") || an.MentionsField(info, key, "PubClientHelloMsg", "AlpnProtocols"):
			// (seeded C22-5) an element of the list of offers is not the protocol the server selected
			r.Bad("C22.4", "utlsReadServerParameters:ApplicationSettings-key", c.Pos(ix), "the client's settings are looked up with %s, an entry of the list of offered protocols: when the server selects another offered protocol the settings of the wrong protocol are sent; the key must be the negotiated protocol (c.clientProtocol)", an.Str(key))
		case isProto(key):
			keyOK = true
			r.Ok("C22.4", "utlsReadServerParameters:ApplicationSettings-key", c.Pos(ix), "lookup keyed by the negotiated protocol %s", an.Str(key))
		default:
			r.Unknown("C22.4", "utlsReadServerParameters:ApplicationSettings-key", c.Pos(ix), "lookup key %s is not recognised as the negotiated protocol", an.Str(key))
		}
		// the lookup happens after the ALPN check passed
		if len(protoDecided) > 0 {
			w := world(true, 0x0304, false)
			r.Check(!w.Reach[h.P], "C22.7", "utlsReadServerParameters:lookup-after-alpn-check", c.Pos(ix), "lookup only with a negotiated protocol", "the settings lookup is reachable without a negotiated protocol")
		}
		// def-use: value variable of the comma-ok lookup is what is stored in localApplicationSettings
		par := c22Parents(fn.Body)
		var valObj types.Object
		if as, ok := par[ix].(*ast.AssignStmt); ok && len(as.Lhs) >= 1 {
			if id, ok := as.Lhs[0].(*ast.Ident); ok {
				valObj = objOf(info, id)
			}
		}
		ins := c22FieldInits(fn, c22Extra, "localApplicationSettings")
		if len(ins) == 0 {
			r.Bad("C22.7", "utlsReadServerParameters:local<-lookup", c.Pos(ix), "the looked-up settings are never stored in c.utls.localApplicationSettings: sendClientEncryptedExtensions sends nothing")
		}
		for _, in := range ins {
			direct := in.Rhs != nil && an.Contains(in.Rhs, func(n ast.Node) bool { return n == ast.Node(ix) })
			viaVar := valObj != nil && in.Rhs != nil && func() bool {
				id, ok := an.Unparen(in.Rhs).(*ast.Ident)
				return ok && objOf(info, id) == valObj
			}()
			r.Check((direct || viaVar) && (direct || fn.MustPass(in.P, []an.Point{h.P}, nil)), "C22.7", "utlsReadServerParameters:local<-lookup", c.Pos(in.Node),
				"c.utls.localApplicationSettings receives the value found in Config.ApplicationSettings", "c.utls.localApplicationSettings is stored from "+an.Str(in.Rhs)+", not from the Config.ApplicationSettings lookup")
		}
	}
	r.Floor("C22.7", 2)
	r.Floor("C22.4", 1)
	return keyOK
}

// ---------------------------------------------------------------- C22.4 belief rule
// c22BelievedZero derives, from checkServerHelloOrHRR's body, the serverHelloMsg fields that
// are zero/empty whenever the function returns nil: an atom testing the field for non-zero
// whose non-zero outcome can only leave through error returns.
func c22BelievedZero(c *Ctx) map[string]bool {
	info := c.Info()
	out := map[string]bool{}
	fd := load.FuncDecl(c.P.TLS, c22HS, "checkServerHelloOrHRR")
	if fd == nil {
		return out
	}
	fn := an.NewFn(c.P.TLS, fd)
	sh := load.Named(c.P.TLS, "serverHelloMsg")
	if sh == nil {
		return out
	}
	st := sh.Underlying().(*types.Struct)
	for i := 0; i < st.NumFields(); i++ {
		f := st.Field(i).Name()
		isF := func(e ast.Expr) bool { return an.FieldSel(info, an.Unparen(e), "serverHelloMsg", f) }
		w := c22Explore(fn, fn.EntryPoint(), c22ZeroVal(info, isF, true), nil)
		if w.Decided > 0 && len(w.Succ) == 0 && len(w.Err) > 0 {
			out[f] = true
		}
	}
	return out
}

func c22Belief(c *Ctx) {
	r := c.R
	info := c.Info()
	believed := c22BelievedZero(c)
	var names []string
	for f := range believed {
		names = append(names, f)
	}
	sort.Strings(names)
	r.Extra["believed_zero_serverHello_fields"] = names
	if !believed["alpnProtocol"] {
		r.Unknown("C22.4", "checkServerHelloOrHRR:alpnProtocol", "", "checkServerHelloOrHRR was not recognised as rejecting a non-empty serverHello.alpnProtocol (derived beliefs: %s)", strings.Join(names, ","))
	}
	// the belief holds where the later handshake steps run: the check dominates them in handshake(),
	// and processHelloRetryRequest re-checks the replaced serverHello before returning success
	hsFn := c.Fn("C22.4", c22HS, "handshake")
	if hsFn != nil {
		chk := c22HitPts(c.c22Calls(hsFn, c22HS, "checkServerHelloOrHRR"))
		for _, name := range []string{"readServerParameters", "serverFinishedReceived"} {
			for _, h := range c.c22Calls(hsFn, c22HS, name) {
				r.Check(len(chk) > 0 && hsFn.MustPass(h.P, chk, nil), "C22.4", "handshake:checkServerHelloOrHRR<"+name, c.Pos(h.N), "the ServerHello validity check precedes "+name, name+" is reachable without checkServerHelloOrHRR")
			}
		}
		for _, h := range c.c22Calls(hsFn, c22HS, "checkServerHelloOrHRR") {
			c.c22ErrRule("C22.4", hsFn, h, "checkServerHelloOrHRR")
		}
	}
	hrr := c.Fn("C22.4", c22HS, "processHelloRetryRequest")
	if hrr != nil {
		chk := c22HitPts(c.c22Calls(hrr, c22HS, "checkServerHelloOrHRR"))
		for _, in := range c22FieldInits(hrr, c22HS, "serverHello") {
			ok := len(chk) > 0
			for _, ret := range c22SuccessReturns(hrr) {
				if hrr.Reachable(in.P, ret) && !hrr.MustPassFrom(in.P, ret, chk, nil) {
					ok = false
				}
			}
			r.Check(ok, "C22.4", "processHelloRetryRequest:recheck-new-serverHello", c.Pos(in.Node), "the ServerHello that replaces the HelloRetryRequest is checked before success", "processHelloRetryRequest can return success with a new hs.serverHello that did not pass checkServerHelloOrHRR")
		}
		for _, h := range c.c22Calls(hrr, c22HS, "checkServerHelloOrHRR") {
			c.c22ErrRule("C22.4", hrr, h, "checkServerHelloOrHRR")
		}
	}
	// no later read of a believed-zero field anywhere in the TLS 1.3 client state methods
	reads := 0
	for _, fd := range load.AllFuncDecls(c.P.TLS) {
		if load.RecvName(fd) != c22HS || fd.Name.Name == "checkServerHelloOrHRR" {
			continue
		}
		if fd.Name.Name == "utlsReadServerParameters" {
			// reported with the precise construct key by c22ReadParams (lookup key); other reads fall through below
		}
		ast.Inspect(fd.Body, func(n ast.Node) bool {
			se, ok := n.(*ast.SelectorExpr)
			if !ok {
				return true
			}
			for f := range believed {
				if an.FieldSel(info, se, "serverHelloMsg", f) && an.MentionsField(info, se.X, c22HS, "serverHello") {
					reads++
					if fd.Name.Name == "utlsReadServerParameters" && c22IsLookupKey(info, fd, se) {
						continue // C22.4:utlsReadServerParameters:ApplicationSettings-key
					}
					r.Bad("C22.4", fd.Name.Name+":serverHello."+f, c.Pos(se), "serverHello.%s is read here, but checkServerHelloOrHRR rejects every TLS 1.3 ServerHello in which it is non-zero: the value is always empty at this point, the data it was meant to carry is elsewhere", f)
				}
			}
			return true
		})
	}
	if reads == 0 {
		r.Ok("C22.4", "tls13-client-state:no-read-of-proven-empty-field", "", "no method of %s reads a serverHello field proven zero by checkServerHelloOrHRR (%s)", c22HS, strings.Join(names, ","))
	}
	r.Floor("C22.4", 6)
}

func c22IsLookupKey(info *types.Info, fd *ast.FuncDecl, se *ast.SelectorExpr) bool {
	found := false
	ast.Inspect(fd.Body, func(n ast.Node) bool {
		ix, ok := n.(*ast.IndexExpr)
		if ok && an.FieldSel(info, an.Unparen(ix.X), "Config", "ApplicationSettings") && ix.Index.Pos() <= se.Pos() && se.End() <= ix.Index.End() {
			found = true
		}
		return true
	})
	return found
}

// ---------------------------------------------------------------- C22.5 codepoints
func c22Codepoints(c *Ctx) {
	r := c.R
	info := c.Info()
	// the codepoints the client can offer: constants stored into applicationSettingsExtension.codePoint
	offered := map[int64]string{}
	for _, fd := range load.AllFuncDecls(c.P.TLS) {
		ast.Inspect(fd.Body, func(n ast.Node) bool {
			as, ok := n.(*ast.AssignStmt)
			if !ok || len(as.Lhs) != len(as.Rhs) {
				return true
			}
			for i, l := range as.Lhs {
				if an.FieldSel(info, an.Unparen(l), "applicationSettingsExtension", "codePoint") {
					if v, ok := an.ConstInt(info, as.Rhs[i]); ok {
						offered[v] = an.Str(as.Rhs[i])
					}
				}
			}
			return true
		})
	}
	if len(offered) < 2 {
		r.Unknown("C22.5", "offered-codepoints", "", "found %d ALPS codepoints assigned to applicationSettingsExtension.codePoint, expected the old and the new one", len(offered))
	}
	var ks []int64
	for k := range offered {
		ks = append(ks, k)
	}
	sort.Slice(ks, func(i, j int) bool { return ks[i] < ks[j] })

	decode := func(recv, name, owner string) {
		fn := c.Fn("C22.5", recv, name)
		if fn == nil {
			return
		}
		cpInits := c22FieldInits(fn, owner, "applicationSettingsCodepoint")
		setInits := c22FieldInits(fn, owner, "applicationSettings")
		succ := c22SuccessReturns(fn)
		// tag variable: the ident used as switch tag / compared with an offered constant
		var tag types.Object
		for e, t := range c22CaseTags(fn) {
			if v, ok := an.ConstInt(info, e); ok {
				if _, off := offered[v]; off {
					if id, ok := an.Unparen(t).(*ast.Ident); ok {
						tag = objOf(info, id)
					}
				}
			}
		}
		if tag == nil {
			for _, a := range c22Atoms(fn) {
				ast.Inspect(a.Expr, func(n ast.Node) bool {
					be, ok := n.(*ast.BinaryExpr)
					if !ok || (be.Op != token.EQL && be.Op != token.NEQ) {
						return true
					}
					for _, pair := range [][2]ast.Expr{{be.X, be.Y}, {be.Y, be.X}} {
						if v, ok := an.ConstInt(info, pair[1]); ok {
							if _, off := offered[v]; off {
								if id, ok := an.Unparen(pair[0]).(*ast.Ident); ok {
									tag = objOf(info, id)
								}
							}
						}
					}
					return true
				})
			}
		}
		for _, k := range ks {
			cons := recv + "." + name + ":codepoint " + offered[k]
			if tag == nil {
				r.Bad("C22.5", cons, c.Pos(fn.Decl), "%s.%s never compares the extension id with an ALPS codepoint: the server's/client's application settings are not decoded", recv, name)
				continue
			}
			val := c22CmpVal(info, c22IsObj(info, tag), k)
			var cpPts, setPts []an.Point
			for _, in := range cpInits {
				if in.Rhs == nil {
					continue
				}
				if id, ok := an.Unparen(in.Rhs).(*ast.Ident); ok && objOf(info, id) == tag {
					cpPts = append(cpPts, in.P)
				} else if v, ok := an.ConstInt(info, in.Rhs); ok && v == k {
					cpPts = append(cpPts, in.P)
				}
			}
			for _, in := range setInits {
				if in.Rhs == nil {
					continue
				}
				if an.Contains(in.Rhs, func(n ast.Node) bool {
					id, ok := n.(*ast.Ident)
					if !ok {
						return false
					}
					o := objOf(info, id)
					return o != nil && o != tag && strings.HasSuffix(o.Type().String(), "cryptobyte.String")
				}) {
					setPts = append(setPts, in.P)
				}
			}
			okCP, okSet := len(cpPts) > 0, len(setPts) > 0
			reachedSucc := false
			// start where the extension id is first examined (inside the decoding loop, if any)
			for _, from := range c22TagStarts(fn, tag) {
				if w := c22Explore(fn, from, val, c22PtsSet(cpPts)); len(w.Succ) > 0 {
					okCP = false
				}
				if w := c22Explore(fn, from, val, c22PtsSet(setPts)); len(w.Succ) > 0 {
					okSet = false
				}
				if len(c22Explore(fn, from, val, nil).Succ) > 0 {
					reachedSucc = true
				}
			}
			_ = succ
			switch {
			case !reachedSucc:
				r.Bad("C22.5", cons, c.Pos(fn.Decl), "with extension id %s the decoder has no success exit: a message carrying this codepoint is rejected", offered[k])
			case !okCP || !okSet:
				r.Bad("C22.5", cons, c.Pos(fn.Decl), "with extension id %s a success exit is reachable without storing %s: application settings on this codepoint are silently ignored (the other codepoint is handled)", offered[k],
					map[bool]string{true: "the settings bytes", false: "the codepoint"}[okCP])
			default:
				r.Ok("C22.5", cons, c.Pos(fn.Decl), "id %s is decoded into (codepoint, settings) on every success path", offered[k])
			}
		}
	}
	decode("encryptedExtensionsMsg", "utlsUnmarshal", c22EEX)
	decode(c22CEE, "unmarshal", c22CEE)

	// upstream decoder hands unknown ids (incl. the ALPS ones) to utlsUnmarshal and skips the trailing-data test
	if fn := c.Fn("C22.5", "encryptedExtensionsMsg", "unmarshal"); fn != nil {
		hooks := c.c22Calls(fn, "encryptedExtensionsMsg", "utlsUnmarshal")
		if len(hooks) == 0 {
			r.Bad("C22.5", "encryptedExtensionsMsg.unmarshal:hook", c.Pos(fn.Decl), "encryptedExtensionsMsg.unmarshal does not call utlsUnmarshal: ALPS in EncryptedExtensions is ignored")
		}
		for _, h := range hooks {
			call := h.N.(*ast.CallExpr)
			if len(call.Args) != 2 {
				r.Unknown("C22.5", "encryptedExtensionsMsg.unmarshal:hook", c.Pos(call), "unexpected hook arity")
				continue
			}
			tagID, ok1 := an.Unparen(call.Args[0]).(*ast.Ident)
			dataID, ok2 := an.Unparen(call.Args[1]).(*ast.Ident)
			if !ok1 || !ok2 {
				r.Unknown("C22.5", "encryptedExtensionsMsg.unmarshal:hook", c.Pos(call), "hook arguments are not plain variables")
				continue
			}
			tag, data := objOf(info, tagID), objOf(info, dataID)
			// the hook's false result rejects the message
			hookFalse := false
			for _, a := range c22Atoms(fn) {
				x, neg := negated(a.Expr)
				if x == ast.Expr(call) || an.Unparen(x) == ast.Expr(call) {
					fe := a.F
					if neg {
						fe = a.T
					}
					ok, _ := failEdgeExits(fn, fe, nil)
					hookFalse = ok
				}
			}
			r.Check(hookFalse, "C22.5", "encryptedExtensionsMsg.unmarshal:hook-result", c.Pos(call), "a failing utlsUnmarshal rejects the message", "the result of utlsUnmarshal is not turned into a decode failure")
			for _, k := range ks {
				be, _ := c22Impossible(fn, c22CmpVal(info, c22IsObj(info, tag), k))
				all := fn.ReachFromEntry(nil, be)
				cons := "encryptedExtensionsMsg.unmarshal:dispatch " + offered[k]
				if !all[h.P] {
					r.Bad("C22.5", cons, c.Pos(call), "extension id %s does not reach utlsUnmarshal (an upstream case captures it)", offered[k])
					continue
				}
				// after the hook, the "extension body fully consumed" test must not run: the hook copies the body without consuming it
				after := fn.Reach(h.P, nil, be)
				bad := false
				for p := range after {
					if p.I < 0 {
						continue
					}
					if an.Contains(p.Node(), func(n ast.Node) bool {
						cl, ok := n.(*ast.CallExpr)
						if !ok {
							return false
						}
						se, ok := cl.Fun.(*ast.SelectorExpr)
						if !ok || se.Sel.Name != "Empty" {
							return false
						}
						id, ok := an.Unparen(se.X).(*ast.Ident)
						return ok && objOf(info, id) == data
					}) {
						bad = true
					}
				}
				r.Check(!bad, "C22.5", cons, c.Pos(call), "id "+offered[k]+" reaches utlsUnmarshal and the unconsumed-body test is skipped", "after utlsUnmarshal the `!extData.Empty()` test still runs for id "+offered[k]+": the hook does not consume the body, so every EncryptedExtensions with application settings is rejected")
			}
		}
	}

	// marshal side of the client message
	if fd := load.FuncDecl(c.P.TLS, c22CEE, "marshal"); fd != nil {
		c22MarshalSide(c, fd)
	} else {
		r.Unknown("C22.5", c22CEE+".marshal", "", "anchor not found")
	}
	r.Floor("C22.5", 9)
}

func c22MarshalSide(c *Ctx, fd *ast.FuncDecl) {
	r := c.R
	info := c.Info()
	isBuilderCall := func(n ast.Node, name string) (*ast.CallExpr, bool) {
		call, ok := n.(*ast.CallExpr)
		if !ok {
			return nil, false
		}
		f, ok := an.Callee(info, call).(*types.Func)
		if !ok || f.Name() != name || f.Pkg() == nil || !strings.HasSuffix(f.Pkg().Path(), "cryptobyte") {
			return nil, false
		}
		return call, true
	}
	// find the AddBytes(m.applicationSettings) call and the statement list containing its length-prefixed wrapper
	var found bool
	ast.Inspect(fd.Body, func(n ast.Node) bool {
		bs, ok := n.(*ast.BlockStmt)
		if !ok {
			return true
		}
		for i, st := range bs.List {
			es, ok := st.(*ast.ExprStmt)
			if !ok {
				continue
			}
			wrap, ok := isBuilderCall(es.X, "AddUint16LengthPrefixed")
			if !ok || len(wrap.Args) != 1 {
				continue
			}
			lit, ok := wrap.Args[0].(*ast.FuncLit)
			if !ok {
				continue
			}
			body := false
			for _, s2 := range lit.Body.List {
				if e2, ok := s2.(*ast.ExprStmt); ok {
					if ab, ok := isBuilderCall(e2.X, "AddBytes"); ok && len(ab.Args) == 1 && an.FieldSel(info, an.Unparen(ab.Args[0]), c22CEE, "applicationSettings") {
						body = true
					}
				}
			}
			if !body {
				continue
			}
			found = true
			// nearest preceding AddUint16 in the same list is the extension id
			var idArg ast.Expr
			for j := i - 1; j >= 0; j-- {
				if e3, ok := bs.List[j].(*ast.ExprStmt); ok {
					if au, ok := isBuilderCall(e3.X, "AddUint16"); ok && len(au.Args) == 1 {
						idArg = au.Args[0]
						break
					}
				}
			}
			switch {
			case idArg == nil:
				r.Bad("C22.5", c22CEE+".marshal:extension-id", c.Pos(wrap), "the settings body is not preceded by an extension id")
			case an.FieldSel(info, an.Unparen(idArg), c22CEE, "applicationSettingsCodepoint"):
				r.Ok("C22.5", c22CEE+".marshal:extension-id", c.Pos(idArg), "the client answers on the negotiated codepoint (m.applicationSettingsCodepoint)")
			default:
				if v, ok := an.ConstInt(info, idArg); ok {
					r.Bad("C22.5", c22CEE+".marshal:extension-id", c.Pos(idArg), "the client EncryptedExtensions always uses the fixed extension id %d (%s): a server that negotiated the other ALPS codepoint receives the settings on the wrong one", v, an.Str(idArg))
				} else {
					r.Unknown("C22.5", c22CEE+".marshal:extension-id", c.Pos(idArg), "extension id %s is not the negotiated codepoint field", an.Str(idArg))
				}
			}
		}
		return true
	})
	if !found {
		r.Bad("C22.5", c22CEE+".marshal:settings-body", c.Pos(fd), "marshal does not emit m.applicationSettings as a 16-bit length-prefixed extension body")
	} else {
		r.Ok("C22.5", c22CEE+".marshal:settings-body", c.Pos(fd), "m.applicationSettings emitted as a uint16-length-prefixed body")
	}
	// fields read by marshal ⊆ fields written by unmarshal ∪ {raw} ∪ dead fields
	named := load.Named(c.P.TLS, c22CEE)
	un := load.FuncDecl(c.P.TLS, c22CEE, "unmarshal")
	if named == nil || un == nil {
		return
	}
	st := named.Underlying().(*types.Struct)
	for i := 0; i < st.NumFields(); i++ {
		f := st.Field(i).Name()
		if f == "raw" {
			continue
		}
		read := false
		ast.Inspect(fd.Body, func(n ast.Node) bool {
			if an.FieldSel(info, n, c22CEE, f) {
				read = true
			}
			return true
		})
		if !read {
			continue
		}
		written := false
		ast.Inspect(un.Body, func(n ast.Node) bool {
			if as, ok := n.(*ast.AssignStmt); ok {
				for _, l := range as.Lhs {
					if an.FieldSel(info, an.Unparen(l), c22CEE, f) {
						written = true
					}
				}
			}
			return true
		})
		cons := c22CEE + ":marshal/unmarshal " + f
		if written {
			r.Ok("C22.5", cons, c.Pos(fd), "field %s is emitted by marshal and restored by unmarshal", f)
			continue
		}
		// dead-field pruning: no writer anywhere in the module
		writers := 0
		for _, pk := range c.P.Pkgs {
			for _, file := range pk.Syntax {
				ast.Inspect(file, func(n ast.Node) bool {
					switch x := n.(type) {
					case *ast.AssignStmt:
						for _, l := range x.Lhs {
							if an.FieldSel(pk.TypesInfo, an.Unparen(l), c22CEE, f) {
								writers++
							}
						}
					case *ast.CompositeLit:
						if an.TypeName(pk.TypesInfo.TypeOf(x)) == c22CEE {
							for _, el := range x.Elts {
								if kv, ok := el.(*ast.KeyValueExpr); ok {
									if id, ok := kv.Key.(*ast.Ident); ok && id.Name == f {
										writers++
									}
								}
							}
						}
					}
					return true
				})
			}
		}
		if writers == 0 {
			r.Ok("C22.5", cons, c.Pos(fd), "field %s has no writer anywhere in the module: the marshal branch that reads it is dead and is pruned", f)
		} else {
			r.Bad("C22.5", cons, c.Pos(fd), "marshal emits field %s (%d writer(s) in the module) but unmarshal cannot restore it (it rejects the message): encoder and decoder of the client EncryptedExtensions disagree", f, writers)
		}
	}
}

// ---------------------------------------------------------------- C22.6 ConnectionState
func c22State(c *Ctx) {
	r := c.R
	info := c.Info()
	cs := c.Fn("C22.6", "Conn", "connectionStateLocked")
	if cs != nil {
		hooks := c.c22Calls(cs, "Conn", "utlsConnectionStateLocked")
		if len(hooks) == 0 {
			r.Bad("C22.6", "connectionStateLocked:hook", c.Pos(cs.Decl), "connectionStateLocked does not call utlsConnectionStateLocked: PeerApplicationSettings is never exposed")
		}
		for _, ret := range cs.Returns() {
			rs := ret.Node().(*ast.ReturnStmt)
			okPass := len(hooks) > 0 && cs.MustPass(ret, c22HitPts(hooks), nil)
			// the hook's argument is the address of the returned variable
			okArg := false
			for _, h := range hooks {
				call := h.N.(*ast.CallExpr)
				if len(call.Args) == 1 && len(rs.Results) == 1 {
					if u, ok := an.Unparen(call.Args[0]).(*ast.UnaryExpr); ok && u.Op == token.AND {
						a, ok1 := an.Unparen(u.X).(*ast.Ident)
						b, ok2 := an.Unparen(rs.Results[0]).(*ast.Ident)
						if ok1 && ok2 && objOf(info, a) == objOf(info, b) {
							okArg = true
						}
					}
				}
			}
			r.Check(okPass && okArg, "C22.6", "connectionStateLocked:hook", c.Pos(rs), "every returned ConnectionState passed through utlsConnectionStateLocked", "a ConnectionState is returned that did not pass through utlsConnectionStateLocked(&state)")
		}
	}
	us := c.Fn("C22.6", "Conn", "utlsConnectionStateLocked")
	if us != nil {
		ins := c22FieldInits(us, "ConnectionState", "PeerApplicationSettings")
		if len(ins) == 0 {
			r.Bad("C22.6", "utlsConnectionStateLocked:PeerApplicationSettings", c.Pos(us.Decl), "ConnectionState.PeerApplicationSettings is never assigned")
		}
		for _, in := range ins {
			ok := in.Rhs != nil && an.FieldSel(info, an.Unparen(in.Rhs), c22Extra, "peerApplicationSettings")
			allPaths := true
			for _, ex := range us.ExitsReachable(us.EntryPoint(), map[an.Point]bool{in.P: true}, nil) {
				_ = ex
				allPaths = false
			}
			r.Check(ok && allPaths, "C22.6", "utlsConnectionStateLocked:PeerApplicationSettings", c.Pos(in.Node), "PeerApplicationSettings = c.utls.peerApplicationSettings on every path",
				"ConnectionState.PeerApplicationSettings is assigned from "+an.Str(in.Rhs)+" / not on every path, not from the server's settings c.utls.peerApplicationSettings")
		}
	}
	r.Floor("C22.6", 4)
}

// c22TagStarts returns the points at which the variable tag is first examined: the tag node
// of every expression switch over it, and every branch condition comparing it with a constant
// outside such a switch.
func c22TagStarts(fn *an.Fn, tag types.Object) []an.Point {
	info := fn.Info
	var out []an.Point
	isTag := c22IsObj(info, tag)
	inSwitch := false
	an.Inner(fn.Body, func(n ast.Node) bool {
		if sw, ok := n.(*ast.SwitchStmt); ok && sw.Tag != nil && isTag(sw.Tag) {
			if p, ok := c22PointOf(fn, sw.Tag); ok {
				out = append(out, p)
				inSwitch = true
			}
		}
		return true
	})
	if inSwitch {
		return out
	}
	for _, a := range c22Atoms(fn) {
		if an.Contains(a.Expr, func(n ast.Node) bool {
			be, ok := n.(*ast.BinaryExpr)
			return ok && (be.Op == token.EQL || be.Op == token.NEQ) && (isTag(be.X) || isTag(be.Y))
		}) {
			// start just before the condition: use the preceding point in the block if any
			p := a.Point()
			if p.I > 0 {
				out = append(out, an.Point{B: p.B, I: p.I - 1})
			} else {
				out = append(out, an.Point{B: p.B, I: -1})
			}
		}
	}
	return out
}
