package props

// Helpers shared by C14 and C35: facts forced by the outcome of a (compound) condition,
// nil-tests of an error variable after a call, single-definition locals, exclusive regions.

import (
	"go/ast"
	"go/token"
	"go/types"

	"verif/internal/an"
)

// forced is an atomic sub-condition together with the value it must have on an edge.
type forced struct {
	atom ast.Expr
	val  bool
}

// forcedAtoms lists the atoms of e whose value is determined when e evaluates to val:
// (a && b)=true forces both, (a || b)=false forces both, !a flips; a boolean local that is
// assigned exactly once is expanded through its definition (echRejected := x != nil && !y).
func forcedAtoms(fn *an.Fn, e ast.Expr, val bool, depth int) []forced {
	e = an.Unparen(e)
	switch x := e.(type) {
	case *ast.UnaryExpr:
		if x.Op == token.NOT {
			return forcedAtoms(fn, x.X, !val, depth)
		}
	case *ast.BinaryExpr:
		switch x.Op {
		case token.LAND:
			if val {
				return append(forcedAtoms(fn, x.X, true, depth), forcedAtoms(fn, x.Y, true, depth)...)
			}
			return nil
		case token.LOR:
			if !val {
				return append(forcedAtoms(fn, x.X, false, depth), forcedAtoms(fn, x.Y, false, depth)...)
			}
			return nil
		}
	case *ast.Ident:
		if depth < 3 {
			if d := singleDef(fn, x); d != nil && isBoolExpr(fn.Info, d) {
				return append([]forced{{e, val}}, forcedAtoms(fn, d, val, depth+1)...)
			}
		}
	}
	return []forced{{e, val}}
}

// allAtoms lists every leaf of the !,&&,|| tree of e (single-definition bool locals expanded).
func allAtoms(fn *an.Fn, e ast.Expr, depth int) []ast.Expr {
	e = an.Unparen(e)
	switch x := e.(type) {
	case *ast.UnaryExpr:
		if x.Op == token.NOT {
			return allAtoms(fn, x.X, depth)
		}
	case *ast.BinaryExpr:
		if x.Op == token.LAND || x.Op == token.LOR {
			return append(allAtoms(fn, x.X, depth), allAtoms(fn, x.Y, depth)...)
		}
	case *ast.Ident:
		if depth < 3 {
			if d := singleDef(fn, x); d != nil && isBoolExpr(fn.Info, d) {
				return append([]ast.Expr{e}, allAtoms(fn, d, depth+1)...)
			}
		}
	}
	return []ast.Expr{e}
}

func isBoolExpr(info *types.Info, e ast.Expr) bool {
	t := info.TypeOf(e)
	if t == nil {
		return false
	}
	b, ok := t.Underlying().(*types.Basic)
	return ok && b.Info()&types.IsBoolean != 0
}

// localVar resolves id to a variable declared inside fn's body (not a parameter, field or global).
func localVar(fn *an.Fn, id *ast.Ident) *types.Var {
	v, ok := objOf(fn.Info, id).(*types.Var)
	if !ok || v.IsField() {
		return nil
	}
	if v.Pos() < fn.Body.Pos() || v.Pos() > fn.Body.End() {
		return nil
	}
	return v
}

// defsOf lists the right-hand sides assigned to local v anywhere in fn (closures included);
// a nil entry stands for a definition without a value (var x T) or one that cannot be paired
// with a single right-hand side (tuple assignment from a call).
func defsOf(fn *an.Fn, v *types.Var) []ast.Expr {
	var out []ast.Expr
	ast.Inspect(fn.Body, func(n ast.Node) bool {
		switch s := n.(type) {
		case *ast.AssignStmt:
			for i, l := range s.Lhs {
				id, ok := an.Unparen(l).(*ast.Ident)
				if !ok || objOf(fn.Info, id) != v {
					continue
				}
				if len(s.Lhs) == len(s.Rhs) && s.Tok != token.ADD_ASSIGN {
					out = append(out, s.Rhs[i])
				} else {
					out = append(out, nil)
				}
			}
		case *ast.ValueSpec:
			for i, id := range s.Names {
				if fn.Info.Defs[id] != v {
					continue
				}
				if i < len(s.Values) {
					out = append(out, s.Values[i])
				} else {
					out = append(out, nil)
				}
			}
		case *ast.IncDecStmt:
			if id, ok := an.Unparen(s.X).(*ast.Ident); ok && objOf(fn.Info, id) == v {
				out = append(out, nil)
			}
		case *ast.RangeStmt:
			for _, e := range []ast.Expr{s.Key, s.Value} {
				if id, ok := e.(*ast.Ident); ok && objOf(fn.Info, id) == v {
					out = append(out, nil)
				}
			}
		case *ast.UnaryExpr:
			if s.Op == token.AND {
				if id, ok := an.Unparen(s.X).(*ast.Ident); ok && objOf(fn.Info, id) == v {
					out = append(out, nil) // address taken: may be written elsewhere
				}
			}
		}
		return true
	})
	return out
}

// singleDef returns the defining expression of id if it is a local assigned exactly once.
func singleDef(fn *an.Fn, id *ast.Ident) ast.Expr {
	v := localVar(fn, id)
	if v == nil {
		return nil
	}
	d := defsOf(fn, v)
	if len(d) != 1 || d[0] == nil {
		return nil
	}
	return d[0]
}

// edgesForcing returns the condition edges on which some atom is forced to a value accepted
// by pred (pred sees each forced atom with the value it has on that edge).
func edgesForcing(fn *an.Fn, pred func(atom ast.Expr, val bool) bool) []an.Edge {
	var out []an.Edge
	for _, b := range fn.G.Blocks {
		if !b.Live {
			continue
		}
		t, f, ok := an.CondEdges(b)
		if !ok {
			continue
		}
		cond := b.Nodes[len(b.Nodes)-1].(ast.Expr)
		if !isBoolExpr(fn.Info, cond) {
			continue // case value of a tagged switch
		}
		for _, side := range []struct {
			e   an.Edge
			val bool
		}{{t, true}, {f, false}} {
			for _, fa := range forcedAtoms(fn, cond, side.val, 0) {
				if pred(fa.atom, fa.val) {
					out = append(out, side.e)
					break
				}
			}
		}
	}
	return out
}

// otherEdges returns, for each edge, the sibling edge of the same condition block.
func otherEdges(es []an.Edge) []an.Edge {
	var out []an.Edge
	for _, e := range es {
		for k := range e.B.Succs {
			if k != e.K {
				out = append(out, an.Edge{B: e.B, K: k})
			}
		}
	}
	return out
}

// oddConds lists conditions (and switch tags) that mention something matched by `mentions`
// in an atom that `known` does not classify: the rule cannot interpret them.
func oddConds(fn *an.Fn, mentions func(ast.Node) bool, known func(atom ast.Expr) bool) []ast.Node {
	var out []ast.Node
	for _, b := range fn.G.Blocks {
		if !b.Live {
			continue
		}
		if _, _, ok := an.CondEdges(b); !ok {
			continue
		}
		cond := b.Nodes[len(b.Nodes)-1].(ast.Expr)
		if !isBoolExpr(fn.Info, cond) {
			continue
		}
		for _, a := range allAtoms(fn, cond, 0) {
			if id, isId := a.(*ast.Ident); isId && singleDef(fn, id) != nil {
				continue // expanded
			}
			if an.Contains(a, mentions) && !known(a) {
				out = append(out, a)
			}
		}
	}
	an.Inner(fn.Body, func(n ast.Node) bool {
		if sw, ok := n.(*ast.SwitchStmt); ok && sw.Tag != nil && an.Contains(sw.Tag, mentions) {
			out = append(out, sw.Tag)
		}
		return true
	})
	return out
}

// nilTest recognises `obj == nil` / `obj != nil`; isNilWhenTrue tells which.
func nilTest(info *types.Info, atom ast.Expr, obj types.Object) (ok, nilWhenTrue bool) {
	be, isBin := an.Unparen(atom).(*ast.BinaryExpr)
	if !isBin || (be.Op != token.EQL && be.Op != token.NEQ) {
		return false, false
	}
	isObj := func(e ast.Expr) bool {
		id, ok := an.Unparen(e).(*ast.Ident)
		return ok && objOf(info, id) == obj
	}
	if (isObj(be.X) && an.IsNilIdent(info, be.Y)) || (isObj(be.Y) && an.IsNilIdent(info, be.X)) {
		return true, be.Op == token.EQL
	}
	return false, false
}

// assignedObj returns the object bound to result `idx` (negative: from the end) of the call
// at statement n (x, err := f() / err = f() / var err = f()).
func assignedObj(info *types.Info, n ast.Node, call *ast.CallExpr, idx int) types.Object {
	pick := func(lhs []ast.Expr) types.Object {
		i := idx
		if i < 0 {
			i = len(lhs) + i
		}
		if i < 0 || i >= len(lhs) {
			return nil
		}
		id, ok := an.Unparen(lhs[i]).(*ast.Ident)
		if !ok || id.Name == "_" {
			return nil
		}
		return objOf(info, id)
	}
	switch s := n.(type) {
	case *ast.AssignStmt:
		if len(s.Rhs) == 1 && an.Unparen(s.Rhs[0]) == ast.Expr(call) {
			return pick(s.Lhs)
		}
	case *ast.ValueSpec:
		if len(s.Values) == 1 && an.Unparen(s.Values[0]) == ast.Expr(call) {
			var l []ast.Expr
			for _, id := range s.Names {
				l = append(l, id)
			}
			return pick(l)
		}
	}
	return nil
}

// redefPoints lists the points (other than `except`) that assign obj.
func redefPoints(fn *an.Fn, obj types.Object, except an.Point) map[an.Point]bool {
	out := map[an.Point]bool{}
	for _, h := range fn.FindNodes(func(n ast.Node) bool {
		as, ok := n.(*ast.AssignStmt)
		if !ok {
			return false
		}
		for _, l := range as.Lhs {
			if id, ok := an.Unparen(l).(*ast.Ident); ok && objOf(fn.Info, id) == obj {
				return true
			}
		}
		return false
	}) {
		if h.P != except {
			out[h.P] = true
		}
	}
	return out
}

// errEdgesAfter finds the nil-tests of obj reached from `from` before obj is assigned again,
// and returns the edges on which obj is known nil (pass) and known non-nil (fail).
func errEdgesAfter(fn *an.Fn, from an.Point, obj types.Object) (pass, fail []an.Edge) {
	reach := fn.Reach(from, redefPoints(fn, obj, from), nil)
	for _, b := range fn.G.Blocks {
		if !b.Live {
			continue
		}
		t, f, ok := an.CondEdges(b)
		if !ok {
			continue
		}
		cp := an.Point{B: b, I: len(b.Nodes) - 1}
		if !reach[cp] {
			continue
		}
		cond := b.Nodes[len(b.Nodes)-1].(ast.Expr)
		if !isBoolExpr(fn.Info, cond) {
			continue
		}
		for _, side := range []struct {
			e   an.Edge
			val bool
		}{{t, true}, {f, false}} {
			for _, fa := range forcedAtoms(fn, cond, side.val, 0) {
				if ok, nilWhenTrue := nilTest(fn.Info, fa.atom, obj); ok {
					if nilWhenTrue == fa.val {
						pass = append(pass, side.e)
					} else {
						fail = append(fail, side.e)
					}
				}
			}
		}
	}
	return
}

// exitsAfterEdge lists the return statements reachable after taking edge e.
func exitsAfterEdge(fn *an.Fn, e an.Edge) []*ast.ReturnStmt {
	var out []*ast.ReturnStmt
	reach := fn.Reach(an.Point{B: e.B, I: len(e.B.Nodes) - 1}, nil, edgesExcept(e))
	for p := range reach {
		if p.I < 0 {
			continue
		}
		if rs, ok := p.Node().(*ast.ReturnStmt); ok {
			out = append(out, rs)
		}
	}
	return out
}

// exclusivePoints lists the live points that can only be reached by taking one of edges.
func exclusivePoints(fn *an.Fn, edges []an.Edge) []an.Point {
	if len(edges) == 0 {
		return nil
	}
	be := map[an.Edge]bool{}
	for _, e := range edges {
		be[e] = true
	}
	without := fn.ReachFromEntry(nil, be)
	all := fn.ReachFromEntry(nil, nil)
	var out []an.Point
	for p := range all {
		if p.I < 0 || p.Node() == nil {
			continue
		}
		if !without[p] {
			out = append(out, p)
		}
	}
	return out
}

// constIndex0 reports whether e is X[0] and returns X.
func constIndex0(info *types.Info, e ast.Expr) (ast.Expr, bool) {
	ix, ok := an.Unparen(e).(*ast.IndexExpr)
	if !ok {
		return nil, false
	}
	if v, isC := an.ConstInt(info, ix.Index); !isC || v != 0 {
		return nil, false
	}
	return an.Unparen(ix.X), true
}

// identObj returns the object of e if e is a plain identifier.
func identObj(info *types.Info, e ast.Expr) types.Object {
	id, ok := an.Unparen(e).(*ast.Ident)
	if !ok {
		return nil
	}
	return objOf(info, id)
}

// lenCmpZero recognises comparisons of len(X) (X satisfying isX) or of X itself with the
// empty string that decide emptiness: returns (matched, emptyWhenTrue).
func lenCmpZero(info *types.Info, atom ast.Expr, isX func(ast.Expr) bool) (bool, bool) {
	be, ok := an.Unparen(atom).(*ast.BinaryExpr)
	if !ok {
		return false, false
	}
	isLen := func(e ast.Expr) bool {
		call, ok := an.Unparen(e).(*ast.CallExpr)
		if !ok || len(call.Args) != 1 {
			return false
		}
		id, ok := call.Fun.(*ast.Ident)
		if !ok || id.Name != "len" {
			return false
		}
		if _, isB := info.Uses[id].(*types.Builtin); !isB {
			return false
		}
		return isX(an.Unparen(call.Args[0]))
	}
	isInt := func(e ast.Expr) bool { _, ok := an.ConstInt(info, e); return ok }
	if op, ok := an.BinaryWith(be, isLen, isInt); ok {
		var k int64
		if isLen(be.X) {
			k, _ = an.ConstInt(info, be.Y)
		} else {
			k, _ = an.ConstInt(info, be.X)
		}
		switch {
		case op == token.EQL && k == 0, op == token.LSS && k == 1, op == token.LEQ && k == 0:
			return true, true
		case op == token.NEQ && k == 0, op == token.GTR && k == 0, op == token.GEQ && k == 1:
			return true, false
		}
		return false, false
	}
	isEmptyStr := func(e ast.Expr) bool { s, ok := an.ConstString(info, e); return ok && s == "" }
	if op, ok := an.BinaryWith(be, func(e ast.Expr) bool { return isX(an.Unparen(e)) }, isEmptyStr); ok {
		switch op {
		case token.EQL:
			return true, true
		case token.NEQ:
			return true, false
		}
	}
	return false, false
}

// mustPassAfterEdge: every path that takes edge e and then reaches target passes one of via.
func mustPassAfterEdge(fn *an.Fn, e an.Edge, target an.Point, via []an.Point) bool {
	bp := map[an.Point]bool{}
	for _, p := range via {
		bp[p] = true
	}
	if bp[target] {
		return true
	}
	r := fn.Reach(an.Point{B: e.B, I: len(e.B.Nodes) - 1}, bp, edgesExcept(e))
	return !r[target]
}

// edgesTakenWhen returns the outcome edges a condition can take when an atom accepted by pred
// has the truth value pred names: the forced outcome if that value decides the whole condition
// (expired in `len(x) == 0 || expired`), otherwise both outcomes.
func edgesTakenWhen(fn *an.Fn, pred func(atom ast.Expr) (bool, bool)) []an.Edge {
	var out []an.Edge
	for _, b := range fn.G.Blocks {
		if !b.Live {
			continue
		}
		t, f, ok := an.CondEdges(b)
		if !ok {
			continue
		}
		cond := b.Nodes[len(b.Nodes)-1].(ast.Expr)
		if !isBoolExpr(fn.Info, cond) {
			continue
		}
		for _, a := range condAtoms(cond) {
			m, val := pred(a)
			if !m {
				continue
			}
			if o, det := forcedOutcome(cond, a, val); det {
				if o {
					out = append(out, t)
				} else {
					out = append(out, f)
				}
			} else {
				out = append(out, t, f)
			}
		}
	}
	return out
}
