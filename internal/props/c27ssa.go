package props

// SSA helpers shared by C27 and C28: function lookup, instruction-level reachability
// (must-pass-through on the SSA instruction graph), field-address paths, and a small
// c27Evaluator that resolves a value to the set of its possible constructions under an
// assumption about boolean parameters (trace partitioning on one boolean).

import (
	"fmt"
	"go/constant"
	"go/token"
	"go/types"
	"os"
	"strings"

	"verif/internal/an"

	"golang.org/x/tools/go/ssa"
)

// ssaFunc returns the SSA function for recv.name of the root package (recv "" = package
// level), recording an unresolved anchor otherwise.
func (c *Ctx) ssaFunc(rule, recv, name string) *ssa.Function {
	prog, _ := c.P.SSA()
	label := name
	if recv != "" {
		label = recv + "." + name
	}
	var obj *types.Func
	scope := c.P.TLS.Types.Scope()
	if recv == "" {
		obj, _ = scope.Lookup(name).(*types.Func)
	} else if tn, ok := scope.Lookup(recv).(*types.TypeName); ok {
		if named, ok := tn.Type().(*types.Named); ok {
			for i := 0; i < named.NumMethods(); i++ {
				if named.Method(i).Name() == name {
					obj = named.Method(i)
				}
			}
		}
	}
	if obj == nil {
		c.R.Unknown(rule, label, "", "anchor function %s not found in package tls", label)
		return nil
	}
	f := prog.FuncValue(obj)
	if f == nil || len(f.Blocks) == 0 {
		c.R.Unknown(rule, label, "", "no SSA body for anchor function %s", label)
		return nil
	}
	if os.Getenv("VERIF_DUMPSSA") != "" && strings.Contains(os.Getenv("VERIF_DUMPSSA"), name) {
		f.WriteTo(os.Stderr)
	}
	return f
}

func (c *Ctx) ipos(i ssa.Instruction) string {
	if i == nil {
		return ""
	}
	p := i.Pos()
	if !p.IsValid() {
		// fall back to the closest positioned instruction of the block
		if b := i.Block(); b != nil {
			for _, j := range b.Instrs {
				if j.Pos().IsValid() {
					p = j.Pos()
					break
				}
			}
		}
	}
	if !p.IsValid() {
		if f := i.Parent(); f != nil {
			p = f.Pos()
		}
	}
	return c.P.Pos(p)
}

// ---- instruction graph ---------------------------------------------------------------

type bedge struct{ from, to *ssa.BasicBlock }

// instrReach returns the instructions reachable from the function entry (entry included)
// without continuing through a blocked instruction (a blocked instruction is itself
// reached) and without taking a blocked block edge. start == nil means function entry.
func instrReach(f *ssa.Function, start ssa.Instruction, blocked map[ssa.Instruction]bool, cut map[bedge]bool) map[ssa.Instruction]bool {
	seen := map[ssa.Instruction]bool{}
	var work []ssa.Instruction
	push := func(i ssa.Instruction) {
		if !seen[i] {
			seen[i] = true
			work = append(work, i)
		}
	}
	var enter func(b *ssa.BasicBlock, guard map[*ssa.BasicBlock]bool)
	enter = func(b *ssa.BasicBlock, guard map[*ssa.BasicBlock]bool) {
		if len(b.Instrs) > 0 {
			push(b.Instrs[0])
			return
		}
		if guard[b] {
			return
		}
		guard[b] = true
		for _, s := range b.Succs {
			if !cut[bedge{b, s}] {
				enter(s, guard)
			}
		}
	}
	next := func(i ssa.Instruction) {
		b := i.Block()
		for k, j := range b.Instrs {
			if j == i {
				if k+1 < len(b.Instrs) {
					push(b.Instrs[k+1])
				} else {
					for _, s := range b.Succs {
						if !cut[bedge{b, s}] {
							enter(s, map[*ssa.BasicBlock]bool{})
						}
					}
				}
				return
			}
		}
	}
	if start == nil {
		enter(f.Blocks[0], map[*ssa.BasicBlock]bool{})
	} else {
		next(start)
	}
	for len(work) > 0 {
		i := work[len(work)-1]
		work = work[:len(work)-1]
		if blocked[i] {
			continue
		}
		next(i)
	}
	return seen
}

// mustPassInstr: every path from the entry to target executes one of via first.
func mustPassInstr(f *ssa.Function, target ssa.Instruction, via []ssa.Instruction) bool {
	if len(via) == 0 {
		return false
	}
	bl := map[ssa.Instruction]bool{}
	for _, v := range via {
		bl[v] = true
	}
	if bl[target] {
		return true
	}
	return !instrReach(f, nil, bl, nil)[target]
}

// mustTakeEdge: every path from the entry to target takes the block edge e.
func mustTakeEdge(f *ssa.Function, target ssa.Instruction, edges ...bedge) bool {
	if len(edges) == 0 {
		return false
	}
	cut := map[bedge]bool{}
	for _, e := range edges {
		if e.from.Succs[0] == e.from.Succs[len(e.from.Succs)-1] && len(e.from.Succs) == 2 {
			return false // both outcomes lead to the same block: the edge decides nothing
		}
		cut[e] = true
	}
	return !instrReach(f, nil, nil, cut)[target]
}

// reachableFrom: target can execute after start.
func reachableFrom(f *ssa.Function, start, target ssa.Instruction) bool {
	return instrReach(f, start, nil, nil)[target]
}

func allInstrs(f *ssa.Function, fn func(ssa.Instruction)) {
	for _, b := range f.Blocks {
		for _, i := range b.Instrs {
			fn(i)
		}
	}
}

// staticCallsTo lists the call instructions of f whose static callee is pkg.(recv).name.
func staticCallsTo(f *ssa.Function, recv, name string) []*ssa.Call {
	var out []*ssa.Call
	allInstrs(f, func(i ssa.Instruction) {
		call, ok := i.(*ssa.Call)
		if !ok {
			return
		}
		sc := call.Call.StaticCallee()
		if sc == nil || sc.Object() == nil {
			return
		}
		if an.FuncIs(sc.Object(), Mod, recv, name) {
			out = append(out, call)
		}
	})
	return out
}

// ---- address / field paths -------------------------------------------------------------

// fieldStep names a struct field as Owner.field.
func fieldStep(structPtrOrVal types.Type, idx int) string {
	t := structPtrOrVal
	if p, ok := t.Underlying().(*types.Pointer); ok {
		t = p.Elem()
	}
	name := an.TypeName(t)
	st, ok := t.Underlying().(*types.Struct)
	if !ok || idx >= st.NumFields() {
		return name + ".?"
	}
	return name + "." + st.Field(idx).Name()
}

// addrPath unwraps field selections, loads, index/slice operations and conversions and
// returns the root value with the chain of Owner.field steps (outermost first).
func addrPath(v ssa.Value) (root ssa.Value, path []string) {
	var rev []string
	for depth := 0; depth < 32; depth++ {
		switch x := v.(type) {
		case *ssa.FieldAddr:
			rev = append(rev, fieldStep(x.X.Type(), x.Field))
			v = x.X
		case *ssa.Field:
			rev = append(rev, fieldStep(x.X.Type(), x.Field))
			v = x.X
		case *ssa.UnOp:
			if x.Op != token.MUL {
				goto done
			}
			v = x.X
		case *ssa.IndexAddr:
			rev = append(rev, "[]")
			v = x.X
		case *ssa.Index:
			rev = append(rev, "[]")
			v = x.X
		case *ssa.Slice:
			rev = append(rev, "[:]")
			v = x.X
		case *ssa.ChangeType:
			v = x.X
		case *ssa.Convert:
			v = x.X
		default:
			goto done
		}
	}
done:
	for i := len(rev) - 1; i >= 0; i-- {
		path = append(path, rev[i])
	}
	return v, path
}

func pathString(p []string) string { return strings.Join(p, "/") }

// fieldsOf filters the Owner.field steps of a path (drops [] and [:]).
func fieldsOf(p []string) []string {
	var out []string
	for _, s := range p {
		if s != "[]" && s != "[:]" {
			out = append(out, s)
		}
	}
	return out
}

func hasSuffixPath(p []string, suffix ...string) bool {
	p = fieldsOf(p)
	if len(p) < len(suffix) {
		return false
	}
	for i := range suffix {
		if p[len(p)-len(suffix)+i] != suffix[i] {
			return false
		}
	}
	return true
}

// fullSlice reports whether s is v[:] / v[0:] / v[0:len] of a fixed-size array (the
// whole array), returning the sliced operand.
func fullSlice(v ssa.Value) (ssa.Value, bool) {
	s, ok := v.(*ssa.Slice)
	if !ok {
		return nil, false
	}
	if s.Low != nil {
		if k, ok := s.Low.(*ssa.Const); !ok || k.Value == nil || constant.Sign(k.Value) != 0 {
			return nil, false
		}
	}
	if s.High != nil {
		k, ok := s.High.(*ssa.Const)
		if !ok || k.Value == nil {
			return nil, false
		}
		t := s.X.Type()
		if p, ok := t.Underlying().(*types.Pointer); ok {
			t = p.Elem()
		}
		arr, ok := t.Underlying().(*types.Array)
		if !ok {
			return nil, false
		}
		if n, exact := constant.Int64Val(k.Value); !exact || n != arr.Len() {
			return nil, false
		}
	}
	return s.X, true
}

// ---- abstract values -------------------------------------------------------------------

type aval struct {
	kind  string // ctor | keyres | nil | bool | int | param | load | unknown
	field string // ctor: cipherSuite field through which the constructor was called
	idx   int    // keyres: result index of keysFromMasterSecret ; int: value
	b     bool
	args  [][]aval
	suite ssa.Value // ctor: the *cipherSuite value whose field was called
	name  string    // param name / load path / description of unknown
	at    ssa.Instruction
}

func (a aval) String() string {
	switch a.kind {
	case "ctor":
		var parts []string
		for _, s := range a.args {
			parts = append(parts, avalsString(s))
		}
		return fmt.Sprintf("suite.%s(%s)", a.field, strings.Join(parts, ", "))
	case "keyres":
		return fmt.Sprintf("keys#%d", a.idx)
	case "nil":
		return "nil"
	case "bool":
		return fmt.Sprint(a.b)
	case "int":
		return fmt.Sprint(a.idx)
	case "param":
		return "param:" + a.name
	case "load":
		return "load:" + a.name
	}
	return "?" + a.name
}

func avalsString(s []aval) string {
	if len(s) == 1 {
		return s[0].String()
	}
	var parts []string
	for _, a := range s {
		parts = append(parts, a.String())
	}
	return "{" + strings.Join(parts, " | ") + "}"
}

// c27Evaluator resolves values of one function under an assumption on boolean parameters.
type c27Evaluator struct {
	f        *ssa.Function
	assume   map[ssa.Value]bool
	feasible map[bedge]bool
	live     map[*ssa.BasicBlock]bool
	keysCall func(*ssa.Call) bool // is this the key-derivation call
	memo     map[ssa.Value][]aval
	busy     map[ssa.Value]bool
	bind     map[ssa.Value][]aval // callee parameter -> caller's abstract values (one-level helper inlining)
	depth    int
}

func c27NewEvaluator(f *ssa.Function, assume map[ssa.Value]bool) *c27Evaluator {
	e := &c27Evaluator{f: f, assume: assume, feasible: map[bedge]bool{}, live: map[*ssa.BasicBlock]bool{},
		memo: map[ssa.Value][]aval{}, busy: map[ssa.Value]bool{}}
	e.keysCall = func(call *ssa.Call) bool {
		sc := call.Call.StaticCallee()
		return sc != nil && sc.Object() != nil && an.FuncIs(sc.Object(), Mod, "", "keysFromMasterSecret")
	}
	// feasible edges / live blocks under the assumption
	var visit func(b *ssa.BasicBlock)
	visit = func(b *ssa.BasicBlock) {
		if e.live[b] {
			return
		}
		e.live[b] = true
		if len(b.Instrs) > 0 {
			if br, ok := b.Instrs[len(b.Instrs)-1].(*ssa.If); ok && len(b.Succs) == 2 {
				if v, known := e.boolOf(br.Cond); known {
					k := 1
					if v {
						k = 0
					}
					e.feasible[bedge{b, b.Succs[k]}] = true
					visit(b.Succs[k])
					return
				}
			}
		}
		for _, s := range b.Succs {
			e.feasible[bedge{b, s}] = true
			visit(s)
		}
	}
	visit(f.Blocks[0])
	return e
}

// boolOf evaluates a boolean value that depends only on assumed parameters and constants.
func (e *c27Evaluator) boolOf(v ssa.Value) (val, known bool) {
	switch x := v.(type) {
	case *ssa.Parameter:
		b, ok := e.assume[x]
		return b, ok
	case *ssa.Const:
		if x.Value != nil && x.Value.Kind() == constant.Bool {
			return constant.BoolVal(x.Value), true
		}
	case *ssa.UnOp:
		if x.Op == token.NOT {
			b, ok := e.boolOf(x.X)
			return !b, ok
		}
	case *ssa.BinOp:
		if x.Op == token.EQL || x.Op == token.NEQ {
			a, ok1 := e.boolOf(x.X)
			b, ok2 := e.boolOf(x.Y)
			if ok1 && ok2 {
				return (a == b) == (x.Op == token.EQL), true
			}
		}
	case *ssa.Phi:
		// a boolean merged from constant/assumed inputs (e.g. short-circuit forms)
		first := true
		var res bool
		for i, in := range x.Edges {
			if !e.feasible[bedge{x.Block().Preds[i], x.Block()}] {
				continue
			}
			b, ok := e.boolOf(in)
			if !ok {
				return false, false
			}
			if first {
				res, first = b, false
			} else if res != b {
				return false, false
			}
		}
		if !first {
			return res, true
		}
	}
	return false, false
}

// suiteFieldCall recognises a call through a function-typed field of *cipherSuite
// (suite.cipher(...), suite.mac(...), suite.aead(...)) and returns the field and suite value.
func suiteFieldCall(call *ssa.Call) (field string, suite ssa.Value, ok bool) {
	if call.Call.IsInvoke() {
		return "", nil, false
	}
	ld, isLoad := call.Call.Value.(*ssa.UnOp)
	if !isLoad || ld.Op != token.MUL {
		return "", nil, false
	}
	fa, isFA := ld.X.(*ssa.FieldAddr)
	if !isFA {
		return "", nil, false
	}
	step := fieldStep(fa.X.Type(), fa.Field)
	if !strings.HasPrefix(step, "cipherSuite.") {
		return "", nil, false
	}
	return strings.TrimPrefix(step, "cipherSuite."), fa.X, true
}

func (e *c27Evaluator) eval(v ssa.Value) []aval {
	if r, ok := e.memo[v]; ok {
		return r
	}
	if e.busy[v] {
		return nil // cycle through a phi: contributes nothing new
	}
	e.busy[v] = true
	r := e.eval1(v)
	delete(e.busy, v)
	e.memo[v] = r
	return r
}

func (e *c27Evaluator) eval1(v ssa.Value) []aval {
	switch x := v.(type) {
	case *ssa.Phi:
		var out []aval
		seen := map[string]bool{}
		for i, in := range x.Edges {
			if !e.feasible[bedge{x.Block().Preds[i], x.Block()}] {
				continue
			}
			for _, a := range e.eval(in) {
				k := a.String()
				if !seen[k] {
					seen[k] = true
					out = append(out, a)
				}
			}
		}
		return out
	case *ssa.MakeInterface:
		return e.eval(x.X)
	case *ssa.ChangeInterface:
		return e.eval(x.X)
	case *ssa.ChangeType:
		return e.eval(x.X)
	case *ssa.Convert:
		return e.eval(x.X)
	case *ssa.Const:
		if x.Value == nil {
			return []aval{{kind: "nil"}}
		}
		switch x.Value.Kind() {
		case constant.Bool:
			return []aval{{kind: "bool", b: constant.BoolVal(x.Value)}}
		case constant.Int:
			n, _ := constant.Int64Val(x.Value)
			return []aval{{kind: "int", idx: int(n)}}
		}
		return []aval{{kind: "unknown", name: x.String()}}
	case *ssa.Parameter:
		if b, ok := e.assume[x]; ok {
			return []aval{{kind: "bool", b: b}}
		}
		if bound, ok := e.bind[x]; ok {
			return bound
		}
		return []aval{{kind: "param", name: x.Name()}}
	case *ssa.UnOp:
		if x.Op == token.NOT {
			if b, ok := e.boolOf(x); ok {
				return []aval{{kind: "bool", b: b}}
			}
			return []aval{{kind: "unknown", name: x.String()}}
		}
		if x.Op == token.MUL {
			if _, isAlloc := x.X.(*ssa.Alloc); isAlloc {
				return []aval{{kind: "unknown", name: "address-taken local " + x.X.Name()}}
			}
			_, p := addrPath(x)
			return []aval{{kind: "load", name: pathString(p)}}
		}
	case *ssa.BinOp:
		if b, ok := e.boolOf(x); ok {
			return []aval{{kind: "bool", b: b}}
		}
	case *ssa.Extract:
		if call, ok := x.Tuple.(*ssa.Call); ok {
			if e.keysCall(call) {
				return []aval{{kind: "keyres", idx: x.Index, at: call}}
			}
			if r, ok := e.inline(call, x.Index); ok {
				return r
			}
		}
	case *ssa.Call:
		if field, suite, ok := suiteFieldCall(x); ok {
			a := aval{kind: "ctor", field: field, suite: suite, at: x}
			for _, arg := range x.Call.Args {
				a.args = append(a.args, e.eval(arg))
			}
			return []aval{a}
		}
		if r, ok := e.inline(x, 0); ok {
			return r
		}
	}
	return []aval{{kind: "unknown", name: v.String()}}
}

// retVal resolves result i of a return. In functions with defer the builder spills results
// into locals and returns loads of them; the value stored last in the return's own block is
// what is returned. ok=false when the stored value cannot be found.
func retVal(ret *ssa.Return, i int) (ssa.Value, bool) {
	if i >= len(ret.Results) {
		return nil, false
	}
	v := ret.Results[i]
	ld, isLoad := v.(*ssa.UnOp)
	if !isLoad || ld.Op != token.MUL {
		return v, true
	}
	a, isAlloc := ld.X.(*ssa.Alloc)
	if !isAlloc {
		return v, true
	}
	b := ret.Block()
	for k := len(b.Instrs) - 1; k >= 0; k-- {
		if st, ok := b.Instrs[k].(*ssa.Store); ok && st.Addr == ssa.Value(a) {
			return st.Val, true
		}
	}
	return v, false
}

// liveReturns lists the returns reachable from the entry (the synthetic recover block of a
// function with defer is not).
func liveReturns(f *ssa.Function) []*ssa.Return {
	var out []*ssa.Return
	for i := range instrReach(f, nil, nil, nil) {
		if r, ok := i.(*ssa.Return); ok {
			out = append(out, r)
		}
	}
	return out
}

// inline evaluates result idx of a static call to a module helper by evaluating the
// helper's returns with its parameters bound to the caller's abstract values (boolean
// arguments known under the assumption become assumptions of the helper). Two levels deep.
func (e *c27Evaluator) inline(call *ssa.Call, idx int) ([]aval, bool) {
	if e.depth >= 2 || call.Call.IsInvoke() {
		return nil, false
	}
	g := call.Call.StaticCallee()
	if g == nil || g.Pkg == nil || !strings.HasPrefix(g.Pkg.Pkg.Path(), Mod) || len(g.Blocks) == 0 || len(g.Params) != len(call.Call.Args) {
		return nil, false
	}
	assume := map[ssa.Value]bool{}
	bind := map[ssa.Value][]aval{}
	for i, p := range g.Params {
		av := e.eval(call.Call.Args[i])
		bind[p] = av
		if len(av) == 1 && av[0].kind == "bool" {
			assume[p] = av[0].b
		}
	}
	sub := c27NewEvaluator(g, assume)
	sub.bind, sub.depth = bind, e.depth+1
	var out []aval
	seen := map[string]bool{}
	n := 0
	for _, b := range g.Blocks {
		if !sub.live[b] {
			continue
		}
		ret, ok := b.Instrs[len(b.Instrs)-1].(*ssa.Return)
		if !ok {
			continue
		}
		v, ok := retVal(ret, idx)
		if !ok {
			return nil, false
		}
		n++
		for _, a := range sub.eval(v) {
			if k := a.String(); !seen[k] {
				seen[k] = true
				out = append(out, a)
			}
		}
	}
	return out, n > 0
}
