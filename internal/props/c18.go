package props

import (
	"go/ast"
	"go/token"
	"go/types"
	"strings"

	"verif/internal/an"
)

func init() { register(&Prop{ID: "C18", Run: runC18}) }

func runC18(c *Ctx) {
	r := c.R
	r.Technique = "CFG def-use rule on ApplyPreset (published key ⇒ retained key on every path), constant evaluation of all parrot key-share tables, guarded-effect rules for freshness and the QUIC session id"
	r.Explanation = "C18.1 in ApplyPreset every private key whose public half is stored into a KeyShare's Data is also stored into HandshakeState.State13.KeyShareKeys on every path that continues (publish-without-retain is reported). " +
		"C18.2 for each of the parrot tables: TLS 1.3 parrots carry a key_share with at least one classical share, every share group without literal data is one ApplyPreset can generate, every share group is listed in supported_groups (GREASE with GREASE), a hybrid share requires the first classical share to be X25519. " +
		"C18.3 per parrot, each generated classical share has a retained private key (given what C18.1 found about retention). " +
		"C18.4 key material, client random and session id are read from config.rand() inside ApplyPreset on every call, and the session id store is guarded by quic == nil."
	r.NotDecided = "key sizes (properties of crypto/ecdh, crypto/mlkem); statistical non-repetition"
	info := c.Info()
	fn := c.Fn("C18.1", "UConn", "ApplyPreset")
	if fn == nil {
		return
	}
	// ---- C18.1 publish => retain
	type pub struct {
		key types.Object
		h   an.Hit
	}
	var pubs []pub
	isKeyType := func(t types.Type) bool {
		n := an.TypeName(t)
		return n == "PrivateKey" || strings.HasPrefix(n, "DecapsulationKey")
	}
	for _, h := range fn.FindNodes(func(n ast.Node) bool {
		as, ok := n.(*ast.AssignStmt)
		if !ok {
			return false
		}
		for _, l := range as.Lhs {
			if an.MentionsField(info, l, "KeyShare", "Data") {
				return true
			}
		}
		return false
	}) {
		as := h.N.(*ast.AssignStmt)
		seen := map[types.Object]bool{}
		for _, rhs := range as.Rhs {
			ast.Inspect(rhs, func(x ast.Node) bool {
				call, ok := x.(*ast.CallExpr)
				if !ok {
					return true
				}
				se, ok := call.Fun.(*ast.SelectorExpr)
				if !ok || (se.Sel.Name != "PublicKey" && se.Sel.Name != "EncapsulationKey") {
					return true
				}
				id, ok := an.Unparen(se.X).(*ast.Ident)
				if !ok {
					return true
				}
				if o := objOf(info, id); o != nil && isKeyType(o.Type()) && !seen[o] {
					seen[o] = true
					pubs = append(pubs, pub{o, h})
				}
				return true
			})
		}
	}
	if len(pubs) < 3 {
		r.Unknown("C18.1", "ApplyPreset:publish-sites", c.Pos(fn.Decl), "found %d stores of generated public keys into KeyShare.Data, 5 confirmed by hand", len(pubs))
	}
	retainsOnlyFirst := false
	for _, p := range pubs {
		retain := fn.Find(func(n ast.Node) bool {
			as, ok := n.(*ast.AssignStmt)
			if !ok || len(as.Lhs) != len(as.Rhs) {
				return false
			}
			for i, l := range as.Lhs {
				id, ok := an.Unparen(as.Rhs[i]).(*ast.Ident)
				if !ok || objOf(info, id) != p.key {
					continue
				}
				if an.MentionsField(info, l, "TLS13OnlyState", "KeyShareKeys") {
					return true
				}
				// through an alias of the key store (keys := …State13.KeyShareKeys; keys.Ecdhe = k)
				if an.Contains(l, func(y ast.Node) bool {
					se, ok := y.(*ast.SelectorExpr)
					return ok && an.TypeName(info.TypeOf(se.X)) == "KeySharePrivateKeys"
				}) {
					return true
				}
			}
			return false
		})
		blocked := map[an.Point]bool{}
		for _, q := range retain {
			blocked[q] = true
		}
		cons := "ApplyPreset:publish(" + p.key.Name() + ")@" + shortExpr(p.h.N.(*ast.AssignStmt).Rhs[0])
		// retained before publication?
		if len(retain) > 0 && fn.MustPass(p.h.P, retain, nil) {
			r.Ok("C18.1", cons, c.Pos(p.h.N), "the private key is retained before its public half is published")
			continue
		}
		reach := fn.Reach(p.h.P, blocked, nil)
		leak := ""
		if reach[p.h.P] {
			leak = "the next key share is processed"
		}
		for q := range reach {
			if q.I < 0 || blocked[q] {
				continue
			}
			if rs, ok := q.Node().(*ast.ReturnStmt); ok && !returnsError(fn, rs) {
				leak = "ApplyPreset returns successfully"
			}
		}
		if leak == "" {
			r.Ok("C18.1", cons, c.Pos(p.h.N), "every continuing path stores the private key into KeyShareKeys")
		} else {
			retainsOnlyFirst = retainsOnlyFirst || p.key.Name() != ""
			r.Bad("C18.1", cons, c.Pos(p.h.N), "the public half of %s is published in a key share, but on some path %s without the private key being stored in KeyShareKeys", p.key.Name(), leak)
		}
	}
	r.Floor("C18.1", 3)

	// ---- C18.2 / C18.3 tables
	ps := loadParrots(c)
	r.Count("parrot_tables", len(ps))
	parrotKeyShareRule(c, "C18.2", "C18.3", ps, retainsOnlyFirst)
	r.Floor("C18.2", 34)
	r.Floor("C18.3", 20)

	// ---- C18.5 the key combined with the server's share is selected by the server's group
	c18KeySelection(c)

	// ---- C18.4 freshness
	randCall := func(n ast.Node) bool { return an.IsCallTo(info, n, Mod, "Config", "rand") }
	gen := fn.FindNodes(an.CallTo(info, Mod, "", "generateECDHEKey"))
	for _, h := range gen {
		call := h.N.(*ast.CallExpr)
		r.Check(len(call.Args) >= 1 && an.Contains(call.Args[0], randCall), "C18.4", "ApplyPreset:generateECDHEKey@"+shortExpr(call.Args[len(call.Args)-1]), c.Pos(call),
			"key generated from config.rand() at the time of the call", "key is not generated from config.rand() inside ApplyPreset (a stored or shared source repeats keys across connections)")
	}
	// random and session id: io.ReadFull(config.rand(), X)
	wantFresh := map[string]bool{"Random": false, "sessionID": false, "mlkem-seed": false}
	for _, h := range fn.FindNodes(func(n ast.Node) bool {
		call, ok := n.(*ast.CallExpr)
		if !ok {
			return false
		}
		f, _ := an.Callee(info, call).(*types.Func)
		return f != nil && f.Pkg() != nil && f.Pkg().Path() == "io" && f.Name() == "ReadFull" && len(call.Args) == 2 && an.Contains(call.Args[0], randCall)
	}) {
		call := h.N.(*ast.CallExpr)
		s := an.Str(call.Args[1])
		switch {
		case an.MentionsField(info, call.Args[1], "PubClientHelloMsg", "Random"):
			wantFresh["Random"] = true
		case strings.Contains(strings.ToLower(s), "sessionid"):
			wantFresh["sessionID"] = true
		case strings.Contains(s, "seed"):
			wantFresh["mlkem-seed"] = true
		}
	}
	for k, ok := range wantFresh {
		r.Check(ok, "C18.4", "ApplyPreset:fresh:"+k, c.Pos(fn.Decl), "filled from config.rand() on every ApplyPreset", k+" is no longer read from config.rand() inside ApplyPreset")
	}
	// session id guarded by quic == nil
	pass, _, _ := condEdges(fn, func(cond ast.Expr) (bool, bool) {
		op, ok := an.BinaryWith(cond, func(e ast.Expr) bool { return an.FieldSel(info, an.Unparen(e), "Conn", "quic") }, func(e ast.Expr) bool { return an.IsNilIdent(info, e) })
		if !ok {
			return false, false
		}
		return true, op == token.EQL
	})
	sid := fn.FindNodes(an.AssignsTo(func(e ast.Expr) bool { return an.FieldSel(info, an.Unparen(e), "PubClientHelloMsg", "SessionId") }))
	if len(sid) == 0 {
		r.Bad("C18.4", "ApplyPreset:session-id", c.Pos(fn.Decl), "ApplyPreset no longer sets a fresh legacy session id")
	}
	for _, h := range sid {
		r.Check(len(pass) > 0 && fn.MustPass(h.P, nil, pass), "C18.4", "ApplyPreset:session-id-not-under-QUIC", c.Pos(h.N),
			"the legacy session id is set only when quic == nil", "the legacy session id is set on a path where the connection may be QUIC (RFC 9001 §8.4 requires it to be empty)")
	}
	r.Floor("C18.4", 6)
}

func shortExpr(e ast.Expr) string {
	s := an.Str(e)
	if len(s) > 48 {
		s = s[:48]
	}
	return s
}

// c18KeySelection: in establishHandshakeKeys, the ECDH key handed to getSharedKey for a classical
// group must be able to depend on serverShare.group whenever more than one classical key can be
// retained (a map lookup keyed by the group), and the lookup's miss case falls back to the first key.
func c18KeySelection(c *Ctx) {
	r := c.R
	info := c.Info()
	fn := c.Fn("C18.5", "clientHandshakeStateTLS13", "establishHandshakeKeys")
	if fn == nil {
		return
	}
	// does keySharePrivateKeys hold more than one classical key (a map/slice of *ecdh.PrivateKey)?
	multi := ""
	if st, _ := structOf(c.P.TLS.Types.Scope().Lookup("keySharePrivateKeys").Type()); st != nil {
		for i := 0; i < st.NumFields(); i++ {
			switch st.Field(i).Type().Underlying().(type) {
			case *types.Map, *types.Slice:
				multi = st.Field(i).Name()
			}
		}
	}
	calls := fn.FindNodes(an.CallTo(info, Mod, "", "getSharedKey"))
	if len(calls) == 0 {
		r.Unknown("C18.5", "establishHandshakeKeys:getSharedKey", c.Pos(fn.Decl), "no call to getSharedKey found")
		return
	}
	first := calls[0]
	for _, h := range calls {
		if h.N.Pos() < first.N.Pos() {
			first = h
		}
	}
	call := first.N.(*ast.CallExpr)
	if multi == "" {
		r.Ok("C18.5", "establishHandshakeKeys:classical-key", c.Pos(call), "a single classical key can be retained; nothing to select")
		return
	}
	// the key argument must be a local that is (conditionally) assigned from keyShareKeys.<multi>[serverShare.group]
	keyArg, ok := an.Unparen(call.Args[1]).(*ast.Ident)
	selected := false
	if ok {
		ko := objOf(info, keyArg)
		ast.Inspect(fn.Body, func(n ast.Node) bool {
			ix, isIx := n.(*ast.IndexExpr)
			if !isIx || !an.FieldSel(info, an.Unparen(ix.X), "keySharePrivateKeys", multi) {
				return true
			}
			if !an.MentionsField(info, ix.Index, "keyShare", "group") {
				return true
			}
			// value of the lookup flows to the key variable
			ast.Inspect(fn.Body, func(m ast.Node) bool {
				as, isAs := m.(*ast.AssignStmt)
				if !isAs {
					return true
				}
				for i, l := range as.Lhs {
					if id, isID := l.(*ast.Ident); isID && objOf(info, id) == ko && i < len(as.Rhs) {
						if an.Contains(as.Rhs[i], func(y ast.Node) bool { return y == ix }) {
							selected = true
						}
						if rid, isR := an.Unparen(as.Rhs[i]).(*ast.Ident); isR {
							// key = extraKey where extraKey, ok := map[group]
							ro := objOf(info, rid)
							ast.Inspect(fn.Body, func(z ast.Node) bool {
								a2, is2 := z.(*ast.AssignStmt)
								if is2 && len(a2.Rhs) == 1 && an.Unparen(a2.Rhs[0]) == ix {
									if l0, isL := a2.Lhs[0].(*ast.Ident); isL && objOf(info, l0) == ro {
										selected = true
									}
								}
								return true
							})
						}
					}
				}
				return true
			})
			return true
		})
	}
	r.Check(selected, "C18.5", "establishHandshakeKeys:classical-key", c.Pos(call),
		"the key combined with the server's share is looked up by the server's selected group (falling back to the first key)",
		"several classical private keys are retained ("+multi+") but establishHandshakeKeys combines the server's share with a key that does not depend on the selected group")
	r.Floor("C18.5", 1)
}
