package props

// E9 typestate engine, part 4: bounded exploration of API call sequences and panic-site classification.

import (
	"fmt"
	"go/ast"
	"go/token"
	"go/types"
	"runtime/debug"
	"sort"
	"strings"

	"verif/internal/load"
)

// tsTrans is one abstract transition of an API call.
type tsTrans struct {
	pre, post string
	op        string
	ret       tsVal
	depth     int
}

// tsHit is a reached panic site.
type tsHit struct {
	key        string // caller>fn#k:helper#n
	fn         string // asserting function
	helper     string // uAssert / assertX / panicOnNil / panic
	class      string // documented | internal | external
	pos        token.Pos
	seq        []string
	pre        string
	trace      []string
	determined bool
}

type tsResult struct {
	e       *tsEngine
	init    []string
	states  map[string]int // state key -> depth first reached
	stateOf map[string]string
	seqOf   map[string][]string
	trans   []tsTrans
	hits    map[string]*tsHit
	ops     []string
}

// tsDocumented are the assertion helpers whose message tells the caller what to change
// (named in the property); every other assertion is an internal invariant.
var tsDocumented = map[string]bool{"assertCanSkip": true, "assertHelloNotBuilt": true, "assertNotLocked": true, "panicOnNil": true}

// explore runs the constructor and then every sequence of ops up to maxLen.
func (e *tsEngine) explore(rule, ctor, recv string, ops []string, maxLen int) *tsResult {
	defer debug.SetGCPercent(debug.SetGCPercent(25)) // allocation-heavy, small live heap: keep the heap small so pages are reused
	res := &tsResult{e: e, states: map[string]int{}, stateOf: map[string]string{}, seqOf: map[string][]string{}, hits: map[string]*tsHit{}, ops: ops}
	lookup := func(recv, name string) *types.Func {
		fd := load.FuncDecl(e.pkg, recv, name)
		if fd == nil {
			e.c.R.Unknown(rule, "anchor:"+name, "", "function %s not found", name)
			return nil
		}
		f, _ := e.info.Defs[fd.Name].(*types.Func)
		return f
	}
	cf := lookup("", ctor)
	if cf == nil {
		return nil
	}
	var opFns []*types.Func
	for _, o := range ops {
		f := lookup(recv, o)
		if f == nil {
			return nil
		}
		opFns = append(opFns, f)
	}
	// constructor: everything unknown before it runs
	st0 := string(make([]byte, len(e.vars)))
	e.ctorPhase = true
	nparams := cf.Type().(*types.Signature).Params().Len()
	evs := e.invoke(&tsClosure{fn: cf, name: tsFuncName(cf)}, make([]tsVal, nparams), &tsConf{eng: e, st: st0, env: map[types.Object]tsVal{}}, token.NoPos)
	e.ctorPhase = false
	var frontier []string
	for _, ev := range evs {
		if ev.pn != nil {
			res.record(ev.pn, []string{ctor}, st0, ev.cf)
			continue
		}
		k := stKey(ev.cf.st)
		if _, ok := res.states[k]; !ok {
			res.states[k] = 0
			res.stateOf[k] = ev.cf.st
			res.seqOf[k] = nil
			res.init = append(res.init, ev.cf.st)
			frontier = append(frontier, k)
		}
	}
	sort.Strings(frontier)
	for depth := 1; depth <= maxLen && len(frontier) > 0; depth++ {
		var next []string
		for _, k := range frontier {
			pre := res.stateOf[k]
			for i, f := range opFns {
				n := f.Type().(*types.Signature).Params().Len()
				seq := append(append([]string(nil), res.seqOf[k]...), ops[i])
				outs := e.invoke(&tsClosure{fn: f, name: tsFuncName(f)}, make([]tsVal, n), &tsConf{eng: e, st: pre, env: map[types.Object]tsVal{}}, token.NoPos)
				for _, ev := range outs {
					if ev.pn != nil {
						res.record(ev.pn, seq, pre, ev.cf)
						continue
					}
					res.trans = append(res.trans, tsTrans{pre: pre, post: ev.cf.st, op: ops[i], ret: ev.val, depth: depth})
					pk := stKey(ev.cf.st)
					if _, ok := res.states[pk]; !ok {
						res.states[pk] = depth
						res.stateOf[pk] = ev.cf.st
						res.seqOf[pk] = seq
						next = append(next, pk)
					}
				}
			}
		}
		sort.Strings(next)
		frontier = next
	}
	return res
}

// assertShaped: the whole body is `if cond { panic(...) }`.
func (e *tsEngine) assertShaped(fd *ast.FuncDecl) bool {
	if fd == nil || fd.Body == nil || len(fd.Body.List) != 1 {
		return false
	}
	is, ok := fd.Body.List[0].(*ast.IfStmt)
	if !ok || is.Else != nil || is.Init != nil || len(is.Body.List) != 1 {
		return false
	}
	es, ok := is.Body.List[0].(*ast.ExprStmt)
	if !ok {
		return false
	}
	call, ok := es.X.(*ast.CallExpr)
	if !ok {
		return false
	}
	id, ok := call.Fun.(*ast.Ident)
	if !ok || id.Name != "panic" {
		return false
	}
	_, isB := e.info.Uses[id].(*types.Builtin)
	return isB
}

// ordinal of the call at pos among calls to the same callee inside decl (source order).
func (e *tsEngine) ordinal(decl *ast.FuncDecl, pos token.Pos, same func(*ast.CallExpr) bool) int {
	n, res := 0, 0
	ast.Inspect(decl.Body, func(x ast.Node) bool {
		c, ok := x.(*ast.CallExpr)
		if !ok || !same(c) {
			return true
		}
		if c.Pos() == pos {
			res = n
		}
		n++
		return true
	})
	return res
}

func (e *tsEngine) calleeMatcher(fn *types.Func) func(*ast.CallExpr) bool {
	return func(c *ast.CallExpr) bool {
		if fn == nil {
			id, ok := ast.Unparen(c.Fun).(*ast.Ident)
			if !ok || id.Name != "panic" {
				return false
			}
			_, isB := e.info.Uses[id].(*types.Builtin)
			return isB
		}
		return e.funcValue(c.Fun) == fn
	}
}

// site derives the construct key and classification of a panic from its call stack.
func (e *tsEngine) site(pn *tsPanic) (key, fn, helper string, at token.Pos) {
	st := pn.stack
	// strip closure frames for naming purposes but keep their call positions
	i := len(st) - 1
	helperIdx := -1
	for i >= 0 {
		f := st[i]
		if !f.lit && f.fn != nil && (e.pure[f.fn] || e.assertShaped(f.decl)) {
			helperIdx = i
			i--
			continue
		}
		break
	}
	// asserting frame: first non-helper frame (skip literals to their enclosing declaration)
	a := i
	for a >= 0 && st[a].lit {
		a--
	}
	if a < 0 {
		return "?:panic", "?", "panic", pn.pos
	}
	af := st[a]
	fn = af.fn.Name()
	var hfn *types.Func
	pos := pn.pos
	helper = "panic"
	if helperIdx >= 0 {
		hfn = st[helperIdx].fn
		helper = hfn.Name()
		pos = st[helperIdx].callPos
	}
	ord := e.ordinal(af.decl, pos, e.calleeMatcher(hfn))
	at = pos
	key = fmt.Sprintf("%s:%s#%d", fn, helper, ord)
	// caller context
	c := a - 1
	for c >= 0 && st[c].lit {
		c--
	}
	if c >= 0 {
		cfr := st[c]
		// the call position of af inside cfr (possibly through literal frames)
		cp := st[c+1].callPos
		co := e.ordinal(cfr.decl, cp, e.calleeMatcher(st[c+1].fn))
		if st[c+1].lit {
			co = 0
		}
		key = fmt.Sprintf("%s>%s#%d:%s#%d", cfr.fn.Name(), fn, co, helper, ord)
	}
	return
}

func (r *tsResult) record(pn *tsPanic, seq []string, pre string, cf *tsConf) {
	key, fn, helper, at := r.e.site(pn)
	class := "internal"
	switch {
	case tsDocumented[helper]:
		class = "documented"
	case !pn.determined:
		class = "external"
	}
	h := r.hits[key]
	better := func() bool {
		if h == nil {
			return true
		}
		rank := map[string]int{"internal": 0, "documented": 1, "external": 2}
		if rank[class] != rank[h.class] {
			return rank[class] < rank[h.class]
		}
		return len(seq) < len(h.seq)
	}
	if better() {
		r.hits[key] = &tsHit{key: key, fn: fn, helper: helper, class: class, pos: at, seq: seq, pre: pre, trace: cf.trace.list(nil), determined: pn.determined}
	}
}

// inventory lists every assertion/panic call site in the interpreted functions, as fn:helper#n.
func (r *tsResult) inventory() map[string]token.Pos {
	e := r.e
	inv := map[string]token.Pos{}
	for fn := range e.inlined {
		fd := e.decls[fn]
		if fd == nil || e.pure[fn] || e.assertShaped(fd) {
			continue
		}
		counts := map[string]int{}
		ast.Inspect(fd.Body, func(x ast.Node) bool {
			c, ok := x.(*ast.CallExpr)
			if !ok {
				return true
			}
			name := ""
			if e.calleeMatcher(nil)(c) {
				name = "panic"
			} else if f := e.funcValue(c.Fun); f != nil && e.hasPanic[f] && (e.pure[f] || e.assertShaped(e.decls[f])) {
				name = f.Name()
			}
			if name == "" {
				return true
			}
			inv[fmt.Sprintf("%s:%s#%d", fn.Name(), name, counts[name])] = c.Pos()
			counts[name]++
			return true
		})
	}
	return inv
}

// report records one obligation per inventoried site and per reached site.
func (r *tsResult) report(rule string) {
	e, c := r.e, r.e.c
	for k, pos := range e.unsup {
		c.R.Unknown(rule, "interp:"+k, pos, "construct not supported by the abstract interpreter: %s", k)
	}
	inv := r.inventory()
	reachedBase := map[string]bool{}
	var keys []string
	for k := range r.hits {
		keys = append(keys, k)
	}
	sort.Strings(keys)
	for _, k := range keys {
		h := r.hits[k]
		base := k
		if i := strings.Index(k, ">"); i >= 0 {
			base = k[i+1:]
			// strip the call ordinal of fn
			if j := strings.Index(base, ":"); j >= 0 {
				if hsh := strings.LastIndex(base[:j], "#"); hsh >= 0 {
					base = base[:hsh] + base[j:]
				}
			}
		}
		reachedBase[base] = true
		detail := fmt.Sprintf("%s after [%s] from state {%s}", h.class, strings.Join(h.seq, ", "), e.showState(h.pre))
		if len(h.trace) > 0 {
			t := h.trace
			if len(t) > 14 {
				t = t[len(t)-14:]
			}
			detail += " choices: " + strings.Join(t, "; ")
		}
		switch h.class {
		case "internal":
			c.R.Bad(rule, k, c.P.Pos(h.pos), "internal assertion reachable through the public API: %s", detail)
		case "documented":
			c.R.Ok(rule, k, c.P.Pos(h.pos), "documented panic (message names the misuse): %s", detail)
		default:
			c.R.Ok(rule, k, c.P.Pos(h.pos), "depends on values outside the abstract state (not decided here): %s", detail)
		}
	}
	var ik []string
	for k := range inv {
		ik = append(ik, k)
	}
	sort.Strings(ik)
	for _, k := range ik {
		if !reachedBase[k] {
			c.R.Ok(rule, k, c.P.Pos(inv[k]), "not reachable within the sequence bound")
		}
	}
	c.R.Count(rule+"_states", len(r.states))
	c.R.Count(rule+"_transitions", len(r.trans))
	c.R.Count(rule+"_sites", len(inv))
	c.R.Count(rule+"_interpreted_functions", len(e.inlined))
}

// dump prints the reachable states and transitions (debugging aid, VERIF_TSDUMP=1).
func (r *tsResult) dump() {
	e := r.e
	var ks []string
	for k := range r.states {
		ks = append(ks, k)
	}
	sort.Slice(ks, func(i, j int) bool {
		if r.states[ks[i]] != r.states[ks[j]] {
			return r.states[ks[i]] < r.states[ks[j]]
		}
		return ks[i] < ks[j]
	})
	for _, k := range ks {
		fmt.Printf("STATE d=%d {%s} via [%s]\n", r.states[k], e.showState(r.stateOf[k]), strings.Join(r.seqOf[k], ", "))
	}
	var fns []string
	for f := range e.inlined {
		fns = append(fns, tsFuncName(f))
	}
	sort.Strings(fns)
	fmt.Printf("INTERPRETED %d: %s\n", len(fns), strings.Join(fns, " "))
	fmt.Printf("steps=%d memo=%d\n", e.steps, len(e.memo))
}
