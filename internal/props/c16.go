package props

import (
	"fmt"
	"go/ast"
	"go/token"
	"go/types"
	"strings"

	"verif/internal/an"
	"verif/internal/load"
)

func init() { register(&Prop{ID: "C16", Run: runC16}) }

// narrowingRule: an unsigned conversion of a difference involving len(x) must be dominated by a
// comparison of that same len(x) whose failing outcome leaves the function (otherwise the
// difference can be negative and the conversion wraps).
func narrowingRule(c *Ctx, rule string, fds []*ast.FuncDecl) int {
	r := c.R
	tls := c.P.TLS
	info := tls.TypesInfo
	n := 0
	for _, fd := range fds {
		fn := an.NewFn(tls, fd)
		if fn == nil {
			continue
		}
		for _, h := range fn.FindNodes(func(x ast.Node) bool {
			call, ok := x.(*ast.CallExpr)
			if !ok || len(call.Args) != 1 {
				return false
			}
			tv, ok := info.Types[call.Fun]
			if !ok || !tv.IsType() {
				return false
			}
			b, ok := tv.Type.Underlying().(*types.Basic)
			if !ok || b.Info()&types.IsUnsigned == 0 {
				return false
			}
			be, ok := an.Unparen(call.Args[0]).(*ast.BinaryExpr)
			return ok && be.Op == token.SUB && lenOperand(info, be.X) != "" && !isConstExpr(info, be)
		}) {
			n++
			call := h.N.(*ast.CallExpr)
			be := an.Unparen(call.Args[0]).(*ast.BinaryExpr)
			lo := lenOperand(info, be.X)
			pass, _, _ := condEdges(fn, func(cond ast.Expr) (bool, bool) {
				b2, ok := cond.(*ast.BinaryExpr)
				if !ok {
					return false, false
				}
				switch {
				case lenOperand(info, b2.X) == lo:
					switch b2.Op {
					case token.LSS, token.LEQ: // len < K fails
						return true, false
					case token.GEQ, token.GTR:
						return true, true
					}
				case lenOperand(info, b2.Y) == lo:
					switch b2.Op {
					case token.GTR, token.GEQ: // K > len fails
						return true, false
					case token.LEQ, token.LSS:
						return true, true
					}
				}
				return false, false
			})
			cons := fmt.Sprintf("%s.%s:%s", load.RecvName(fd), fd.Name.Name, shortExpr(call))
			r.Check(len(pass) > 0 && fn.MustPass(h.P, nil, pass), rule, cons, c.Pos(call), "the subtraction is guarded by a lower bound on "+lo,
				fmt.Sprintf("%s converts a difference to an unsigned type without a dominating lower bound on %s: a shorter input wraps around to a huge length", an.Str(call), lo))
		}
	}
	return n
}

func isConstExpr(info *types.Info, e ast.Expr) bool {
	tv, ok := info.Types[e]
	return ok && tv.Value != nil
}

// lenOperand returns the canonical text of a len(x) call if e is one.
func lenOperand(info *types.Info, e ast.Expr) string {
	call, ok := an.Unparen(e).(*ast.CallExpr)
	if !ok || len(call.Args) != 1 {
		return ""
	}
	id, ok := call.Fun.(*ast.Ident)
	if !ok || id.Name != "len" {
		return ""
	}
	if _, isB := info.Uses[id].(*types.Builtin); !isB {
		return ""
	}
	return types.ExprString(call)
}

func runC16(c *Ctx) {
	r := c.R
	tls := c.P.TLS
	info := tls.TypesInfo
	r.Technique = "encoder layout derivation (E2) for the GREASE ECH extension, abstract evaluation of cipherLen, constant evaluation of the parrots' candidate tables, write-effect and guarded-narrowing rules on typed AST/CFG"
	r.Explanation = "C16.1 the encoder's derived layout is type(outer)=0, kdf(2), aead(2), config_id(1), 2-byte-prefixed key, 2-byte-prefixed payload, with every length consistent (E2 obligations). C16.2 the payload is allocated with cipherLen(aead, candidate) = candidate+16 for exactly the three AEAD ids, and the decoder's inverse (payload length minus tag) is guarded against wrap-around. C16.3 every parrot's GREASE ECH extension is a fresh allocation per spec construction and its candidate KDF/AEAD ids are ones the encoder/decoder accept, payload candidates non-empty and positive. C16.4 Len/Read never assign receiver state outside init's sync.Once closure (so a HelloRetryRequest re-sends identical bytes)."
	r.NotDecided = "that the encapsulated key has 32 bytes (a property of hpke.SetupSender) and the randomness of id/key/payload"
	var ext *extImpl
	for _, e := range tlsExtensions(c) {
		if e.Name == "GREASEEncryptedClientHelloExtension" {
			ext = e
		}
	}
	if ext == nil {
		r.Unknown("C16.1", "GREASEEncryptedClientHelloExtension", "", "type not found")
		return
	}
	res := checkEncoder(c, "C16.1", ext)
	// specific layout
	want := []struct {
		off  string
		w    int64
		what string
		test func(f field) bool
	}{
		{"4", 1, "ClientHello type outer (0)", func(f field) bool { return f.lin != nil && f.lin.IsConst() && f.lin.C == 0 }},
		{"5", 2, "KDF id", func(f field) bool { return strings.HasSuffix(f.data, "cipherSuite.KdfId") }},
		{"7", 2, "AEAD id", func(f field) bool { return strings.HasSuffix(f.data, "cipherSuite.AeadId") }},
		{"9", 1, "config id", func(f field) bool { return strings.HasSuffix(f.data, "configId") }},
		{"10", 2, "encapsulated key length", func(f field) bool { return f.lin != nil && f.lin.Eq(linAtom("len(e.EncapsulatedKey)")) }},
		{"12+len(e.EncapsulatedKey)", 2, "payload length", func(f field) bool { return f.lin != nil && f.lin.Eq(linAtom("len(e.payload)")) }},
	}
	for _, w := range want {
		found := false
		for _, f := range res.fields {
			if f.off.String() == w.off && f.w.IsConst() && f.w.C == w.w && w.test(f) {
				found = true
			}
		}
		r.Check(found, "C16.1", "layout:"+w.what, c.Pos(ext.Read), fmt.Sprintf("%d byte(s) at offset %s", w.w, w.off), fmt.Sprintf("the outer ECH layout has no %s of %d byte(s) at offset %s", w.what, w.w, w.off))
	}
	r.Floor("C16.1", 12)

	// ---- C16.2 cipherLen and payload sizing
	cl := load.FuncDecl(tls, "", "cipherLen")
	if cl == nil {
		r.Unknown("C16.2", "cipherLen", "", "not found")
	} else {
		aeadIDs := map[int64]bool{}
		okAdd := false
		ast.Inspect(cl.Body, func(n ast.Node) bool {
			cc, ok := n.(*ast.CaseClause)
			if !ok {
				return true
			}
			if cc.List != nil {
				for _, e := range cc.List {
					if v, ok := an.ConstInt(info, e); ok {
						aeadIDs[v] = true
					}
				}
				if len(cc.Body) == 1 {
					if ret, ok := cc.Body[0].(*ast.ReturnStmt); ok && len(ret.Results) == 1 {
						m := info.Defs[cl.Type.Params.List[1].Names[0]]
						x := &linExec{info: info, vars: map[types.Object]Lin{m: linAtom("m")}}
						if l, ok := x.eval(ret.Results[0]); ok && l.Eq(linAtom("m").AddC(16)) {
							okAdd = true
						}
					}
				}
			}
			return true
		})
		r.Check(okAdd && len(aeadIDs) == 3 && aeadIDs[1] && aeadIDs[2] && aeadIDs[3], "C16.2", "cipherLen", c.Pos(cl), "ciphertext length = plaintext length + 16 for AEAD ids 1,2,3", fmt.Sprintf("cipherLen is not mLen+16 for exactly the three HPKE AEAD ids (ids %v)", aeadIDs))
		rp := load.FuncDecl(tls, "GREASEEncryptedClientHelloExtension", "randomizePayload")
		okPayload := false
		if rp != nil {
			ast.Inspect(rp.Body, func(n ast.Node) bool {
				as, ok := n.(*ast.AssignStmt)
				if !ok || len(as.Lhs) != 1 || len(as.Rhs) != 1 || !an.FieldSel(info, an.Unparen(as.Lhs[0]), "GREASEEncryptedClientHelloExtension", "payload") {
					return true
				}
				mk, ok := an.Unparen(as.Rhs[0]).(*ast.CallExpr)
				if !ok || len(mk.Args) != 2 {
					return true
				}
				if call, ok := an.Unparen(mk.Args[1]).(*ast.CallExpr); ok && an.IsCallTo(info, call, Mod, "", "cipherLen") && len(call.Args) == 2 {
					p := info.Defs[rp.Type.Params.List[0].Names[0]]
					if an.MentionsField(info, call.Args[0], "HPKESymmetricCipherSuite", "AeadId") && an.MentionsObj(info, call.Args[1], p) {
						okPayload = true
					}
				}
				return true
			})
		}
		r.Check(okPayload, "C16.2", "randomizePayload", c.Pos(rp), "payload = make([]byte, cipherLen(chosen AEAD, candidate length))", "the GREASE payload is not sized as cipherLen(aead, candidate): its length would not look like a real ECH payload")
	}
	if ext.Write != nil {
		narrowingRule(c, "C16.2", []*ast.FuncDecl{ext.Write})
	}
	r.Floor("C16.2", 3)

	// ---- C16.3 parrots
	ps := loadParrots(c)
	nECH := 0
	kdfOK := map[int64]bool{1: true, 2: true, 3: true}
	for _, p := range ps {
		for _, e := range p.find("GREASEEncryptedClientHelloExtension") {
			nECH++
			cons := "parrot:" + p.Name
			var probs []string
			if !e.Ptr {
				probs = append(probs, "extension is not a fresh pointer literal")
			}
			for t := range e.Tags {
				if strings.HasPrefix(t, "shared:") {
					probs = append(probs, "the extension value is the package-level variable "+strings.TrimPrefix(t, "shared:")+", shared by every connection: config id, key and payload are chosen once per process instead of per connection")
				}
			}
			cs := e.Field("CandidateCipherSuites")
			if cs == nil || cs.Kind != "list" || len(cs.Elems) == 0 {
				probs = append(probs, "no candidate cipher suites")
			} else {
				for _, s := range cs.Elems {
					k, a := s.Field("KdfId"), s.Field("AeadId")
					if k == nil || a == nil || k.Kind != "int" || a.Kind != "int" {
						probs = append(probs, "candidate suite is not constant")
						continue
					}
					if !kdfOK[k.Int] {
						probs = append(probs, fmt.Sprintf("KDF id %d is not accepted by the decoder", k.Int))
					}
					if a.Int < 1 || a.Int > 3 {
						probs = append(probs, fmt.Sprintf("AEAD id %d makes cipherLen panic", a.Int))
					}
				}
			}
			if pl, ok := e.Field("CandidatePayloadLens").Ints(); ok {
				for _, x := range pl {
					if x <= 0 || x+16 > 0xffff {
						probs = append(probs, fmt.Sprintf("candidate payload length %d out of range", x))
					}
				}
			} else {
				probs = append(probs, "candidate payload lengths are not constant")
			}
			if len(probs) == 0 {
				r.Ok("C16.3", cons, c.P.Pos(e.Pos), "fresh extension value with accepted KDF/AEAD candidates")
			} else {
				r.Bad("C16.3", cons, c.P.Pos(e.Pos), "%s", strings.Join(probs, "; "))
			}
		}
	}
	r.Count("parrots_with_grease_ech", nECH)
	r.Floor("C16.3", 5)

	// ---- C16.4 state writes only under initOnce; init error surfaced
	for _, m := range []*ast.FuncDecl{ext.Len, ext.Read} {
		_, w := fieldsTouched(tls, m)
		r.Check(len(w) == 0, "C16.4", "GREASEEncryptedClientHelloExtension."+m.Name.Name+":no-state-writes", c.Pos(m), "does not assign receiver fields (bytes are stable across calls)", fmt.Sprintf("%s assigns receiver fields %v: a re-marshal after HelloRetryRequest can send different bytes", m.Name.Name, keys(w)))
	}
	initD := load.FuncDecl(tls, "GREASEEncryptedClientHelloExtension", "init")
	if initD == nil {
		r.Unknown("C16.4", "init", "", "not found")
	} else {
		recv := info.Defs[initD.Recv.List[0].Names[0]]
		var once *ast.FuncLit
		ast.Inspect(initD.Body, func(n ast.Node) bool {
			call, ok := n.(*ast.CallExpr)
			if !ok {
				return true
			}
			if se, ok := call.Fun.(*ast.SelectorExpr); ok && se.Sel.Name == "Do" && an.TypeName(info.TypeOf(se.X)) == "Once" && len(call.Args) == 1 {
				if fl, ok := call.Args[0].(*ast.FuncLit); ok {
					once = fl
				}
			}
			return true
		})
		bad := ""
		ast.Inspect(initD.Body, func(n ast.Node) bool {
			var lhs []ast.Expr
			switch st := n.(type) {
			case *ast.AssignStmt:
				lhs = st.Lhs
			case *ast.IncDecStmt:
				lhs = []ast.Expr{st.X}
			default:
				return true
			}
			as := n
			for _, l := range lhs {
				if p, ok := fieldPath(info, l, map[types.Object]bool{recv: true}); ok && p != "" {
					if once == nil || !(as.Pos() >= once.Body.Pos() && as.End() <= once.Body.End()) {
						bad = p
					}
				}
			}
			return true
		})
		// randomizePayload is reached only from init's closure
		r.Check(once != nil && bad == "", "C16.4", "init:once", c.Pos(initD), "all receiver state is chosen inside initOnce.Do", "init assigns "+bad+" outside the sync.Once closure: the extension can change between the first ClientHello and the one after a HelloRetryRequest")
	}
	r.Floor("C16.4", 3)
}
